(* C08 — "a program the language rejects is refused rather than run": WHICH programs the language accepts.
   Only property theorems live here; each is closed by [exact <lemma>] and followed by Print Assumptions.
   The judgement [well_formed] is Numscript/Typing.v (syntax only: typing environments, expression types, source /
   allotment / destination / statement rules; no compiler state, no resource table, no addresses).
   Proofs: Numscript/TypingProofs.v. *)
From Coq Require Import List NArith ZArith.
From FL Require Import Numscript.Run Numscript.TypingProofs.
Import ListNotations.
Open Scope Z_scope.

(* ---- the compiler accepts exactly the well-formed scripts -----------------------------------------------------------------
   [within_limits]: at most 32 768 variables and a syntactic bound [script_allocs sc <= 65 536] on the resources the
   script can need (the two implementation limits of compiler.go; they are not language rules). *)
Theorem C08_reject_sound : forall sc, within_limits sc -> (compile sc <> None <-> well_formed sc).
Proof. exact reject_sound. Qed.
Print Assumptions C08_reject_sound.

(* the direction "accepted => well-formed" needs no size hypothesis ... *)
Theorem C08_accepted_well_formed : forall sc p, compile sc = Some p -> well_formed sc.
Proof. exact compile_well_formed. Qed.
Print Assumptions C08_accepted_well_formed.

(* ... hence: whatever the declarative judgement rejects is refused by the compiler and never run, for scripts of any size *)
Theorem C08_ill_formed_rejected : forall sc, ~ well_formed sc -> compile sc = None.
Proof. exact ill_formed_rejected. Qed.
Print Assumptions C08_ill_formed_rejected.

Theorem C08_ill_formed_not_run : forall sc vars s extra, ~ well_formed sc -> compile_and_run sc vars s extra = Err ECompile.
Proof. exact ill_formed_not_run. Qed.
Print Assumptions C08_ill_formed_not_run.

(* and a well-formed script within the limits is compiled and handed to the machine *)
Theorem C08_well_formed_accepted : forall sc, within_limits sc -> well_formed sc -> compile sc <> None.
Proof. exact well_formed_compile. Qed.
Print Assumptions C08_well_formed_accepted.

Theorem C08_well_formed_runs : forall sc vars s extra, within_limits sc -> well_formed sc ->
  exists p, compile sc = Some p /\ compile_and_run sc vars s extra = run_program p vars s extra.
Proof. exact well_formed_runs. Qed.
Print Assumptions C08_well_formed_runs.

(* ---- the judgement read as rules ---------------------------------------------------------------------------------------------
   expressions: the typing function is the inductive relation [expr_type] *)
Theorem C08_expr_type_rules : forall G e t, expr_type G e t <-> type_expr G e = Some t.
Proof. exact expr_type_iff. Qed.
Print Assumptions C08_expr_type_rules.

(* ordered sources: every member well-formed, only the last may be unbounded, and no leaf (literal account / variable) is
   emptied twice — through all nested ordered sources, [max]-capped members excepted *)
Theorem C08_ordered_source_rule : forall G all l,
  wf_source G all (SInOrder l) = true <->
  forallb (wf_source G all) l = true /\
  forallb (fun s => negb (src_unbounded s)) (removelast l) = true /\
  NoDup (emptied_keys (SInOrder l)).
Proof. exact wf_ordered_source_iff. Qed.
Print Assumptions C08_ordered_source_rule.

(* ---- the one rule about identity: addresses vs leaves ----------------------------------------------------------------------
   The compiler decides "already emptied" by comparing resource ADDRESSES (constants are de-duplicated by find_const,
   variables live where they were declared); the judgement compares LEAVES.  In every compiler state reachable for a
   script with environment [G] ([inv G cs]): the address returned for an account expression is the address of its
   leaf and stays so when the table grows; two leaves have the same address iff they are the same leaf. *)
Theorem C08_account_expr_address : forall G e push cs ty j cs', inv G cs -> visit_expr e push cs = Some ((ty, Some j), cs') ->
  forall k, leaf_key e = Some k -> forall cs'' n, ext cs' cs'' n -> addr_of cs'' k j.
Proof. exact account_expr_address. Qed.
Print Assumptions C08_account_expr_address.

Theorem C08_leaf_address_identity : forall G cs k1 k2 j1 j2, inv G cs -> addr_of cs k1 j1 -> addr_of cs k2 j2 ->
  (j1 = j2 <-> k1 = k2).
Proof. exact leaf_address_identity. Qed.
Print Assumptions C08_leaf_address_identity.

(* ---- non-vacuity: an accepted program exercising most constructs -------------------------------------------------------------
   vars { account $a   portion $p   number $n   string $s = meta($a, "k")   monetary $bal = balance($a, COIN) }
   send [COIN 100] ( source = { max [COIN 30] from $a
                                $a
                                @11 allowing overdraft up to [COIN 5]
                                { @12  @13 allowing unbounded overdraft } }
                     destination = { $p to @5
                                     1/4 to { max [COIN 10] to @6  remaining kept }
                                     remaining to @7 } )
   send [COIN *] ( source = { @11  max $bal from @world }  destination = @5 )
   send $bal + [COIN 1] ( source = { 1/2 from @12   remaining from { @13 @world } }  destination = $a )
   save [COIN 5] from $a      save [COIN *] from @11
   set_tx_meta("k", $n + 2)   set_account_meta($a, "k", 1/3)   print $bal - [COIN 1]   fail *)
Definition coin (n : Z) : expr := ELitMonetary (ELitAsset 1%N) n.
Definition acct (a : N) : source := SAccount (ELitAccount a) OvNone.
Definition vdecl (t : vtype) (name : N) (o : option origin) : vardecl := {| vd_type := t; vd_name := name; vd_orig := o |}.

Definition C08_typing_ex : script :=
  {| s_vars := [ vdecl TAccount 1%N None; vdecl TPortion 2%N None; vdecl TNumber 3%N None;
                 vdecl TString 4%N (Some (OMeta (EVar 1%N) 9%N));
                 vdecl TMonetary 5%N (Some (OBalance (EVar 1%N) (ELitAsset 1%N))) ];
     s_stmts :=
       [ StSend (SendMon (coin 100))
           (VSrc (SInOrder [ SMaxed (coin 30) (SAccount (EVar 1%N) OvNone);
                             SAccount (EVar 1%N) OvNone;
                             SAccount (ELitAccount 11%N) (OvSpecific (coin 5));
                             SInOrder [ acct 12%N; SAccount (ELitAccount 13%N) OvUnbounded ] ]))
           (DAllot [ (APVar 2%N, KTo (DAccount (ELitAccount 5%N)));
                     (APConst (Some (1, 4%positive)), KTo (DInOrder [ (coin 10, KTo (DAccount (ELitAccount 6%N))) ] Kept));
                     (APRemaining, KTo (DAccount (ELitAccount 7%N))) ]);
         StSend (SendAll (ELitAsset 1%N))
           (VSrc (SInOrder [ acct 11%N; SMaxed (EVar 5%N) (acct world) ]))
           (DAccount (ELitAccount 5%N));
         StSend (SendMon (EAddSub true (EVar 5%N) (coin 1)))
           (VSrcAllot [ (APConst (Some (1, 2%positive)), acct 12%N);
                        (APRemaining, SInOrder [ acct 13%N; acct world ]) ])
           (DAccount (EVar 1%N));
         StSave (SendMon (coin 5)) (EVar 1%N);
         StSave (SendAll (ELitAsset 1%N)) (ELitAccount 11%N);
         StTxMeta 9%N (EAddSub true (EVar 3%N) (ELitNumber 2));
         StAccMeta (EVar 1%N) 9%N (ELitPortion (Some (1, 3%positive)));
         StPrint (EAddSub false (EVar 5%N) (coin 1));
         StFail ] |}.

Example C08_typing_example :
  within_limits C08_typing_ex /\ well_formed C08_typing_ex /\ compile C08_typing_ex <> None.
Proof.
  split; [split; vm_compute; discriminate|]. split; [vm_compute; reflexivity|vm_compute; discriminate].
Qed.

(* ---- rejected programs, each for a different rule; both sides by computation -------------------------------------------- *)
Definition rejected (sc : script) : Prop := within_limits sc /\ ~ well_formed sc /\ compile sc = None.
Ltac rejected := split; [split; vm_compute; discriminate|]; split; [vm_compute; discriminate|vm_compute; reflexivity].

Definition one_send (vars : list vardecl) (m : send_amount) (src : vasource) (d : dest) : script :=
  {| s_vars := vars; s_stmts := [StSend m src d] |}.
Definition to5 : dest := DAccount (ELitAccount 5%N).

(* vars { account $a  number $a } *)
Example C08_rejected_duplicate_variable :
  rejected {| s_vars := [vdecl TAccount 1%N None; vdecl TNumber 1%N None]; s_stmts := [StFail] |}.
Proof. rejected. Qed.
(* vars { number $n = balance(@11, COIN) } : balance() is only for monetary variables *)
Example C08_rejected_balance_not_monetary :
  rejected {| s_vars := [vdecl TNumber 1%N (Some (OBalance (ELitAccount 11%N) (ELitAsset 1%N)))]; s_stmts := [StFail] |}.
Proof. rejected. Qed.
(* vars { string $s = meta(COIN, "k") } : the first argument of meta() must be an account *)
Example C08_rejected_meta_argument :
  rejected {| s_vars := [vdecl TString 1%N (Some (OMeta (ELitAsset 1%N) 9%N))]; s_stmts := [StFail] |}.
Proof. rejected. Qed.
(* vars { string $s = meta($a, "k")  account $a } : an origin sees only the variables declared before it *)
Example C08_rejected_origin_forward_reference :
  rejected {| s_vars := [vdecl TString 1%N (Some (OMeta (EVar 2%N) 9%N)); vdecl TAccount 2%N None]; s_stmts := [StFail] |}.
Proof. rejected. Qed.
(* print $x : undeclared variable *)
Example C08_rejected_undeclared_variable : rejected {| s_vars := []; s_stmts := [StPrint (EVar 1%N)] |}.
Proof. rejected. Qed.
(* print 1 + [COIN 1] : arithmetic mixes a number and a monetary *)
Example C08_rejected_mixed_arithmetic :
  rejected {| s_vars := []; s_stmts := [StPrint (EAddSub true (ELitNumber 1) (coin 1))] |}.
Proof. rejected. Qed.
(* print [$n 10] with number $n : the asset of a monetary literal must be asset-typed *)
Example C08_rejected_monetary_asset :
  rejected {| s_vars := [vdecl TNumber 1%N None]; s_stmts := [StPrint (ELitMonetary (EVar 1%N) 10)] |}.
Proof. rejected. Qed.
(* print 3/0 : a portion literal ParsePortionSpecific refuses *)
Example C08_rejected_portion_literal : rejected {| s_vars := []; s_stmts := [StPrint (ELitPortion None)] |}.
Proof. rejected. Qed.
(* source = @world allowing unbounded overdraft *)
Example C08_rejected_world_overdraft :
  rejected (one_send [] (SendMon (coin 1)) (VSrc (SAccount (ELitAccount world) OvUnbounded)) to5).
Proof. rejected. Qed.
(* source = @11 allowing overdraft up to 5 : the bound must be a monetary *)
Example C08_rejected_overdraft_type :
  rejected (one_send [] (SendMon (coin 1)) (VSrc (SAccount (ELitAccount 11%N) (OvSpecific (ELitNumber 5)))) to5).
Proof. rejected. Qed.
(* source = { @world @11 } : an unbounded member before the end *)
Example C08_rejected_unbounded_not_last :
  rejected (one_send [] (SendMon (coin 1)) (VSrc (SInOrder [acct world; acct 11%N])) to5).
Proof. rejected. Qed.
(* source = { @11 { @12 @11 } } : @11 emptied twice (seen through the nested ordered source) *)
Example C08_rejected_emptied_twice_literal :
  rejected (one_send [] (SendMon (coin 1)) (VSrc (SInOrder [acct 11%N; SInOrder [acct 12%N; acct 11%N]])) to5).
Proof. rejected. Qed.
(* source = { $a @11 $a } : the same variable twice *)
Example C08_rejected_emptied_twice_variable :
  rejected (one_send [vdecl TAccount 1%N None] (SendMon (coin 1))
              (VSrc (SInOrder [SAccount (EVar 1%N) OvNone; acct 11%N; SAccount (EVar 1%N) OvNone])) to5).
Proof. rejected. Qed.
(* send [COIN *] ( source = @world ) : everything of an unbounded source *)
Example C08_rejected_all_from_unbounded : rejected (one_send [] (SendAll (ELitAsset 1%N)) (VSrc (acct world)) to5).
Proof. rejected. Qed.
(* send [COIN *] ( source = { 1/2 from @11  remaining from @12 } ) *)
Example C08_rejected_all_from_allotment :
  rejected (one_send [] (SendAll (ELitAsset 1%N))
              (VSrcAllot [(APConst (Some (1, 2%positive)), acct 11%N); (APRemaining, acct 12%N)]) to5).
Proof. rejected. Qed.
(* source = max 5 from @11 : the cap must be a monetary *)
Example C08_rejected_max_type :
  rejected (one_send [] (SendMon (coin 1)) (VSrc (SMaxed (ELitNumber 5) (acct 11%N))) to5).
Proof. rejected. Qed.
(* destination = { 2/3 to @5  2/3 to @6 } : portions exceed 1 *)
Example C08_rejected_allotment_above_one :
  rejected (one_send [] (SendMon (coin 1)) (VSrc (acct 11%N))
              (DAllot [(APConst (Some (2, 3%positive)), KTo to5); (APConst (Some (2, 3%positive)), KTo (DAccount (ELitAccount 6%N)))])).
Proof. rejected. Qed.
(* destination = { 1/3 to @5  1/3 to @6 } : below 1 without [remaining] *)
Example C08_rejected_allotment_below_one :
  rejected (one_send [] (SendMon (coin 1)) (VSrc (acct 11%N))
              (DAllot [(APConst (Some (1, 3%positive)), KTo to5); (APConst (Some (1, 3%positive)), KTo (DAccount (ELitAccount 6%N)))])).
Proof. rejected. Qed.
(* destination = { 1/2 to @5  1/2 to @6  remaining kept } : already 1, nothing remains *)
Example C08_rejected_allotment_remaining_at_one :
  rejected (one_send [] (SendMon (coin 1)) (VSrc (acct 11%N))
              (DAllot [(APConst (Some (1, 2%positive)), KTo to5); (APConst (Some (1, 2%positive)), KTo (DAccount (ELitAccount 6%N)));
                       (APRemaining, Kept)])).
Proof. rejected. Qed.
(* destination = { 1/1 to @5  $p to @6 } : already 1, a variable portion cannot fit *)
Example C08_rejected_allotment_variable_at_one :
  rejected (one_send [vdecl TPortion 2%N None] (SendMon (coin 1)) (VSrc (acct 11%N))
              (DAllot [(APConst (Some (1, 1%positive)), KTo to5); (APVar 2%N, KTo (DAccount (ELitAccount 6%N)))])).
Proof. rejected. Qed.
(* destination = { 1/2 to @5  remaining to @6  remaining kept } : two [remaining] *)
Example C08_rejected_allotment_two_remaining :
  rejected (one_send [] (SendMon (coin 1)) (VSrc (acct 11%N))
              (DAllot [(APConst (Some (1, 2%positive)), KTo to5); (APRemaining, KTo (DAccount (ELitAccount 6%N))); (APRemaining, Kept)])).
Proof. rejected. Qed.
(* destination = { $n to @5  remaining kept } with number $n : a portion variable must be a portion *)
Example C08_rejected_allotment_variable_type :
  rejected (one_send [vdecl TNumber 3%N None] (SendMon (coin 1)) (VSrc (acct 11%N))
              (DAllot [(APVar 3%N, KTo to5); (APRemaining, Kept)])).
Proof. rejected. Qed.
(* destination = COIN *)
Example C08_rejected_destination_type :
  rejected (one_send [] (SendMon (coin 1)) (VSrc (acct 11%N)) (DAccount (ELitAsset 1%N))).
Proof. rejected. Qed.
(* destination = { max 10 to @5  remaining kept } : the cap of an ordered destination must be a monetary *)
Example C08_rejected_destination_max_type :
  rejected (one_send [] (SendMon (coin 1)) (VSrc (acct 11%N)) (DInOrder [(ELitNumber 10, KTo to5)] Kept)).
Proof. rejected. Qed.
(* send 100 (...) : the amount must be a monetary;   save [COIN 5] from COIN : the account of a save *)
Example C08_rejected_send_amount_type : rejected (one_send [] (SendMon (ELitNumber 100)) (VSrc (acct 11%N)) to5).
Proof. rejected. Qed.
Example C08_rejected_save_account_type :
  rejected {| s_vars := []; s_stmts := [StSave (SendMon (coin 5)) (ELitAsset 1%N)] |}.
Proof. rejected. Qed.

(* the "emptied twice" rule is about leaves, not values: below a [max] nothing is emptied, so this is accepted *)
Example C08_accepted_max_then_same_account :
  let sc := one_send [] (SendMon (coin 1)) (VSrc (SInOrder [SMaxed (coin 1) (acct 11%N); acct 11%N])) to5 in
  well_formed sc /\ compile sc <> None.
Proof. split; [vm_compute; reflexivity|vm_compute; discriminate]. Qed.
