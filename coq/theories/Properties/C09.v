(* C09 — Posting-mode transactions commit exactly the requested postings.
   Only the property theorems live here; each is closed by [exact <lemma>] and followed by Print Assumptions.

   [tx_to_script ps unb] (Posting/Model.v) is TxToScriptData of internal/numscript.go: the script text as the AST the
   real parser makes of it, and the `vars` map as the values SetVarsFromJSON makes of it. [sem] (Numscript/Sem.v) is
   the source semantics of Numscript the compiler + machine are checked against. [run_postings ps unb b extra] is
   [sem] of that script on those variables, the machine balance table [b] and the supplied metadata keys [extra].
   Everything is for ALL posting lists (any length, repeated accounts and amounts, @world on either side,
   self-transfers, zero / negative / huge amounts in Z, chains) and ALL balance tables. *)
From FL Require Import Numscript.Sem Numscript.Corr Posting.Model Posting.Proofs.
From Coq Require Import ZArith List.
Import ListNotations.
Open Scope Z_scope.

(* exact: when the script runs, the postings it emits are the request — same length, order, accounts, assets and
   amounts. No hypothesis on the balance table at all. (Each send yields exactly one posting: the zero-amount
   quirk of Take gives one zero part, the @world / unbounded-overdraft path merges its two parts into one.) *)
Theorem C09_exact : forall ps unb b extra r,
  run_postings ps unb b extra = SOk r -> res_posts r = ps.
Proof. exact exact_postings. Qed.
Print Assumptions C09_exact.

(* all or nothing: the outcome is the whole request or an error; [sres] has no partial result *)
Theorem C09_all_or_nothing : forall ps unb b extra,
  (exists r, run_postings ps unb b extra = SOk r /\ res_posts r = ps) \/ (exists e, run_postings ps unb b extra = SErr e).
Proof. exact all_or_nothing. Qed.
Print Assumptions C09_all_or_nothing.

(* success iff covered: on a table with an entry for every source (what ResolveBalances builds), the script succeeds
   exactly when replaying the postings in order finds every amount non-negative and every ordinary source holding at
   least the amount at its turn — funds received from earlier postings counting, a negative balance offering 0; with
   [unb = true] (allowing unbounded overdraft) only the sign of the amounts matters *)
Theorem C09_success_iff : forall ps unb b extra,
  tracks b ps ->
  ((exists r, run_postings ps unb b extra = SOk r) <-> replay_ok unb (view b) ps = true).
Proof. exact success_iff. Qed.
Print Assumptions C09_success_iff.

Theorem C09_rejected_iff : forall ps unb b extra,
  tracks b ps -> ((exists e, run_postings ps unb b extra = SErr e) <-> replay_ok unb (view b) ps = false).
Proof. exact rejected_iff. Qed.
Print Assumptions C09_rejected_iff.

(* a request without negative amounts is only ever rejected for insufficient funds, and never in forced mode *)
Theorem C09_failure_class : forall ps unb b extra e,
  tracks b ps -> (forall p, In p ps -> 0 <= p_amount p) ->
  run_postings ps unb b extra = SErr e -> e = EInsufficient /\ unb = false.
Proof. exact failure_class. Qed.
Print Assumptions C09_failure_class.

(* metadata: the script sets no transaction metadata, no account metadata and prints nothing, so vm.Run's result
   metadata is exactly the supplied metadata and the override check cannot fire: the outcome is the same whatever
   keys are supplied *)
Theorem C09_metadata_passthrough : forall ps unb b extra,
  run_postings ps unb b extra = run_postings ps unb b [] /\
  forall r, run_postings ps unb b extra = SOk r -> res_txmeta r = [] /\ res_accmeta r = [] /\ res_printed r = [].
Proof. exact metadata_untouched. Qed.
Print Assumptions C09_metadata_passthrough.

(* the two `panic("… not found")` of TxToScriptData are unreachable: every key the second loop looks up is in the maps *)
Theorem C09_keys_present : forall ps am mm, collect ps [] [] = (am, mm) -> Forall (in_maps am mm) ps.
Proof. exact keys_present. Qed.
Print Assumptions C09_keys_present.

(* the closed form every real run is compared with by the harness ([predict]: the request itself with no metadata, or
   insufficient funds, decided by replaying the postings on the store's balances) is exactly what the script does *)
Theorem C09_predict_sound : forall ps unb b st extra,
  tracks b ps -> (forall a s, a <> world -> view b a s = store_balance st a s) ->
  (forall p, In p ps -> 0 <= p_amount p) ->
  match run_postings ps unb b extra with
  | SOk r => predict ps unb st = ODone r
  | SErr e => predict ps unb st = OErr e
  end.
Proof. exact predict_sound. Qed.
Print Assumptions C09_predict_sound.

(* non-vacuity: a chain (the second posting spends what the first delivered), a self-transfer, a zero amount, a
   repeated amount, @world on both sides, an amount beyond 64 bits; 1, 2 are ordinary accounts, asset 0 *)
Example C09_example_commits :
  let ps := [ mkp world 1%N 0%N 18446744073709551617; mkp 1%N 2%N 0%N 18446744073709551617; mkp 2%N 2%N 0%N 5;
              mkp 2%N world 0%N 0; mkp 2%N 1%N 0%N 5; mkp world world 0%N 7 ] in
  let b := [ (world, 0%N, 0); (1%N, 0%N, 0); (2%N, 0%N, 0) ] in
  exists r, run_postings ps false b [3%N] = SOk r /\ res_posts r = ps /\ replay_ok false (view b) ps = true.
Proof. eexists. vm_compute. repeat split; reflexivity. Qed.

Example C09_example_rejects :
  let ps := [ mkp world 1%N 0%N 10; mkp 1%N 2%N 0%N 11 ] in
  let b := [ (world, 0%N, 0); (1%N, 0%N, 0) ] in
  run_postings ps false b [] = SErr EInsufficient /\ replay_ok false (view b) ps = false /\
  exists r, run_postings ps true b [] = SOk r /\ res_posts r = ps.
Proof. vm_compute. repeat split; try reflexivity. eexists. split; reflexivity. Qed.

(* the variable block is sorted as sort.Strings sorts it: va10 comes before va2 *)
Example C09_example_var_order :
  map vd_name (firstn 4 (s_vars (fst (tx_to_script (map (fun k => mkp (N.of_nat (S k)) world 0%N 1) (seq 0 12)) false))))
  = [va 0; va 1; va 10; va 11].
Proof. vm_compute. reflexivity. Qed.

(* v1 validation: what is accepted *)
Example C09_example_validation :
  valid_posting {| sp_src := "world"; sp_dst := "users:001-a_b"; sp_asset := "EUR/2"; sp_amount := Some 0 |} = true /\
  valid_posting {| sp_src := "world"; sp_dst := "a"; sp_asset := "USD"; sp_amount := None |} = false /\
  valid_posting {| sp_src := "a:"; sp_dst := "a"; sp_asset := "USD"; sp_amount := Some 1 |} = false /\
  valid_posting {| sp_src := "a"; sp_dst := "a"; sp_asset := "usd"; sp_amount := Some 1 |} = false /\
  valid_posting {| sp_src := "a"; sp_dst := "a"; sp_asset := "USD"; sp_amount := Some (-1) |} = false.
Proof. vm_compute. repeat split; reflexivity. Qed.
