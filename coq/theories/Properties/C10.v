(* C10 — Revert is an exact, once-only inverse.  The combined picture.
   Only the property theorems live here; each is closed by [exact <lemma>] and followed by Print Assumptions.

   Pure half (Properties/C10_pure.v, over Numscript.Sem / Posting.Model; restated here so that this file is
   self-contained): [C10_shape], [C10_inverse], [C10_unforced_safe] (and, in C10_pure.v, [C10_revert_iff],
   [C10_revertible_when_unforced], [C10_inverse_succeeds], [C10_forced_succeeds]).
   Concurrent half (Engine/Model.v, validated against the real Commander by trace replay; proofs in Engine/E2*.v):
   [C10_once], [C10_already_reverted], for every reachable state of the engine: any number of revert requests of
   the same or of different transactions, any interleaving with each other and with other writes, crashes and store
   failures at every point. *)
From FL Require Import Properties.C10_pure.
From FL Require Import Numscript.Sem Posting.Model Posting.Proofs.
From Coq Require Import ZArith List.
Import ListNotations.

(* ---- the pure half -------------------------------------------------------------------------------------------- *)
(* shape: the revert transaction's postings are the original's in reverse order with source and destination swapped *)
Theorem C10_shape : forall ps, reverse_postings ps = map swap (rev ps).
Proof. exact C10_pure.C10_shape. Qed.
Print Assumptions C10_shape.

(* inverse: applying the reversed postings after the postings leaves every account of every asset where it stood *)
Theorem C10_inverse : forall ps f a s, apply (reverse_postings ps) (apply ps f) a s = f a s.
Proof. exact C10_pure.C10_inverse. Qed.
Print Assumptions C10_inverse.

(* an unforced revert is refused rather than overdrawing: if the revert script succeeds, replaying its postings never
   takes an ordinary account below what it holds *)
Theorem C10_unforced_safe : forall ps b extra r,
  tracks b (reverse_postings ps) -> run_postings (reverse_postings ps) false b extra = SOk r ->
  replay_ok false (view b) (reverse_postings ps) = true.
Proof. exact C10_pure.C10_unforced_safe. Qed.
Print Assumptions C10_unforced_safe.

(* ---- the concurrent half ---------------------------------------------------------------------------------------- *)
From FL Require Import Engine.Model Engine.Spec Engine.E2Base Engine.E2Step Engine.E2Main Engine.E2Variants Engine.E2ReadFail.

(* at most one entry on disk reverts a given transaction, however many revert requests race *)
Theorem C10_once : forall s, reachable s -> revert_once (persisted s).
Proof. exact e2_revert_once. Qed.
Print Assumptions C10_once.

(* a revert request parked after its lookup with "reverted = true" answers "already reverted" and writes nothing *)
Theorem C10_already_reverted : forall s t th, get_thread (threads s) t = Some th -> t_gen th = gen s ->
  t_pc th = PRevRead true true ->
  exists s1 th1, resume s t = Some s1 /\ get_thread (threads s1) t = Some th1 /\
                 t_resp th1 = Some (RErr EAlreadyReverted) /\ t_pc th1 = PFinished /\ persisted s1 = persisted s.
Proof. exact e2_revread_answer. Qed.
Print Assumptions C10_already_reverted.

(* from the reservation on: a revert request that holds the reservation of a transaction whose revert is already on
   disk reads "found, reverted", answers "already reverted" in its next two steps, and owns no entry *)
Theorem C10_already_reverted_from_lookup : forall s, reachable s -> forall t th,
  get_thread (threads s) t = Some th -> t_gen th = gen s -> t_pc th = PRevTaken ->
  is_reverted (persisted s) (rq_revert (t_req th)) = true ->
  exists s2 th2, run s [AResume t; AResume t] = Some s2 /\ get_thread (threads s2) t = Some th2 /\
    t_pc th2 = PFinished /\ t_resp th2 = Some (RErr EAlreadyReverted) /\ persisted s2 = persisted s /\
    inflight s2 = inflight s /\ (forall e, In e (persisted s2 ++ inflight s2) -> e_owner e <> t).
Proof. exact e2_already_reverted. Qed.
Print Assumptions C10_already_reverted_from_lookup.

(* "reverted" is never read without "found": the reverted transaction is on disk *)
Theorem C10_reverted_found : forall s, reachable s -> forall id,
  is_reverted (persisted s) id = true -> find_tx (persisted s) id <> None.
Proof. exact e2_reverted_found. Qed.
Print Assumptions C10_reverted_found.

(* a revert entry names the transaction its request asked for; other entries revert nothing (with C10_once: one
   effective revert per transaction among all requests) *)
Theorem C10_entry_reverts : forall s, reachable s -> forall e, In e (persisted s ++ inflight s) ->
  exists th, get_thread (threads s) (e_owner e) = Some th /\ t_entry th = Some e /\
             e_ik e = rq_ik (t_req th) /\
             e_ref e = (if is_tx_kind (rq_kind (t_req th)) then rq_ref (t_req th) else 0%N) /\
             e_reverts e = (match rq_kind (t_req th) with KRevert => Some (rq_revert (t_req th)) | _ => None end).
Proof. exact e2_entry_of_owner. Qed.
Print Assumptions C10_entry_reverts.

(* non-vacuity: transaction 0 is committed and reverted (the revert entry carries the swapped posting); a second
   revert sent later is refused with "already reverted"; one revert entry *)
Example C10_example :
  let rv := e2_req KRevert 0 0 [] 0 in
  exists s th2 th3,
    run init (AStart 1 e2_pay7 :: e2_rs 1 10 ++ [APersistOk] ++ e2_rs 1 3 ++
              AStart 2 rv :: e2_rs 2 10 ++ [APersistOk] ++ e2_rs 2 3 ++ AStart 3 rv :: e2_rs 3 2) = Some s /\
    map e_reverts (persisted s) = [None; Some 0] /\
    map e_postings (persisted s) = [[(world, 1%N, 10%Z)]; [(1%N, world, 10%Z)]] /\
    get_thread (threads s) 2 = Some th2 /\ get_thread (threads s) 3 = Some th3 /\
    t_resp th2 = Some (ROk (Some 1)) /\ t_resp th3 = Some (RErr EAlreadyReverted).
Proof. vm_compute. eexists. eexists. eexists. repeat split. Qed.

(* two reverts of the same transaction racing: the second finds the reservation taken and is refused *)
Example C10_example_race :
  let rv := e2_req KRevert 0 0 [] 0 in
  exists s th3,
    run init (AStart 1 e2_pay7 :: e2_rs 1 10 ++ [APersistOk] ++ e2_rs 1 3 ++
              AStart 2 rv :: e2_rs 2 3 ++ AStart 3 rv :: e2_rs 3 1) = Some s /\
    get_thread (threads s) 3 = Some th3 /\ t_resp th3 = Some (RErr ERevertOccurring) /\ v_revs s = [0].
Proof. vm_compute. eexists. eexists. repeat split. Qed.

(* ---- an idempotency key reused for the revert of another transaction is refused ([is_outcome_of]) -------------------- *)
(* RevertTransaction checks "already reverted" (under its reservation) before the key lookup: when a revert request
   has looked its key up and found an entry, that entry (on disk, carrying the key) does not revert the request's
   target -- it is not the outcome of this request, and the next step refuses it ([RErr EKeyReused]).  So a revert is
   never answered from the key; before the repair the entry found was replayed whatever it reverted *)
Theorem C10_revert_never_replays : forall s, reachable s -> forall t th e,
  get_thread (threads s) t = Some th -> t_pc th = PIkLookup (Some e) -> rq_kind (t_req th) = KRevert ->
  In e (persisted s) /\ e_ik e = rq_ik (t_req th) /\ is_outcome_of (t_req th) e = false.
Proof. exact e2_revert_never_replays. Qed.
Print Assumptions C10_revert_never_replays.

(* transactions 0, 1, 2 on disk; request 3 reverts transaction 1 under key 5; request 4 reverts transaction 2 under
   the same key: [RErr EKeyReused], transaction 2 is not reverted, exactly one revert entry, nothing in flight, no
   event for it, key and reservation free again.  Request 5 retries the SAME revert (transaction 1, key 5): it is
   answered [EAlreadyReverted] -- no second effect (the check precedes the key lookup: C10_revert_never_replays) *)
Example C10_key_reuse_other_revert :
  exists s th3 th4 th5, run init e2_c10_reuse = Some s /\
    map (fun e => (e_owner e, e_ik e, e_txid e, e_reverts e)) (persisted s) =
      [(0, 0%N, Some 0, None); (1, 0%N, Some 1, None); (2, 0%N, Some 2, None); (3, 5%N, Some 3, Some 1)] /\
    v_pending s = [] /\ v_batch s = None /\ v_iks s = [] /\ v_revs s = [] /\
    is_reverted (persisted s) 1 = true /\ is_reverted (persisted s) 2 = false /\
    count_where (fun e => match e_reverts e with Some _ => true | None => false end) (persisted s) = 1 /\
    get_thread (threads s) 3 = Some th3 /\ get_thread (threads s) 4 = Some th4 /\ get_thread (threads s) 5 = Some th5 /\
    t_req th4 = e2_revk 5 2 /\ t_req th5 = t_req th3 /\
    t_resp th3 = Some (ROk (Some 3)) /\
    t_resp th4 = Some (RErr EKeyReused) /\ t_entry th4 = None /\
    t_resp th5 = Some (RErr EAlreadyReverted) /\ t_entry th5 = None /\
    map ev_tid (published s) = [0; 1; 2; 3].
Proof. exact e2_c10_key_reuse_other_revert. Qed.

(* ---- cancellation of a request's context (ACancel / AResumeCancelled) ------------------------------------------------ *)
(* a revert request that waits for its account locks and whose context is done gives up: it gives the revert
   reservation back and nothing is stored -- the transaction can still be reverted by a later request *)
Theorem C10_cancelled_releases_revert : forall s t s', reachable s -> step s (AResumeCancelled t) = Some s' ->
  exists th, get_thread (threads s) t = Some th /\
    v_revs s' = (match rq_kind (t_req th) with KRevert => remove_nat (rq_revert (t_req th)) (v_revs s) | _ => v_revs s end) /\
    persisted s' = persisted s.
Proof. exact e2_cancelled_releases_rev. Qed.
Print Assumptions C10_cancelled_releases_revert.

(* it held the reservation itself, nobody holds it afterwards, and no entry on disk or in flight reverts the target *)
Theorem C10_cancelled_revert_fresh : forall s t s', reachable s -> step s (AResumeCancelled t) = Some s' ->
  exists th, get_thread (threads s) t = Some th /\ (rq_kind (t_req th) = KRevert ->
       In (rq_revert (t_req th)) (v_revs s) /\ ~ In (rq_revert (t_req th)) (v_revs s') /\
       forall x, In x (persisted s' ++ inflight s') -> e_reverts x <> Some (rq_revert (t_req th))).
Proof. exact e2_cancelled_rev_fresh. Qed.
Print Assumptions C10_cancelled_revert_fresh.

(* non-vacuity: transaction 1 is on disk; revert request 3 of it holds the reservation and queues behind request 2;
   cancelled, it answers [ELockCancelled] and the reservation table is empty; the new revert request 4 reverts
   transaction 1: one revert entry *)
Example C10_cancel_example :
  exists s0 th0 s1 s th3 th4,
    run init e2_cancel_rev_prefix = Some s0 /\ get_thread (threads s0) 3 = Some th0 /\ t_pc th0 = PEnqueued /\
    v_revs s0 = [1] /\
    run init (e2_cancel_rev_prefix ++ [ACancel 3; AResumeCancelled 3]) = Some s1 /\
    v_revs s1 = [] /\ persisted s1 = persisted s0 /\
    run init (e2_cancel_rev_prefix ++ [ACancel 3; AResumeCancelled 3] ++ e2_cancel_rev_retry) = Some s /\
    get_thread (threads s) 3 = Some th3 /\ get_thread (threads s) 4 = Some th4 /\
    t_resp th3 = Some (RErr ELockCancelled) /\ t_resp th4 = Some (ROk (Some 3)) /\
    map (fun e => (e_owner e, e_reverts e)) (persisted s) = [(0, None); (1, None); (2, None); (4, Some 1)] /\
    v_revs s = [].
Proof. exact e2_cancel_rev_then_retry. Qed.

(* ---- transient store read failures (AResumeReadFail) ----------------------------------------------------------------- *)
(* a revert request holds its revert reservation at every pc at which a read can fail ([rev_hold]).  At [PRevTaken] the
   [GetTransaction] read of RevertTransaction fails: the reservation is all it holds, and it gives it back; at the later
   pcs (key lookup, balances under the locks) the failing request gives back the revert reservation with whatever else
   it holds.  Nothing is written: no revert entry is produced by the failing request. *)
Theorem C10_read_failed_releases_revert : forall s t s', reachable s -> step s (AResumeReadFail t) = Some s' ->
  exists th th', get_thread (threads s) t = Some th /\ get_thread (threads s') t = Some th' /\
    persisted s' = persisted s /\ inflight s' = inflight s /\
    ((exists err, t_resp th' = Some (RErr err)) ->
       v_revs s' = (match rq_kind (t_req th) with KRevert => remove_nat (rq_revert (t_req th)) (v_revs s) | _ => v_revs s end)) /\
    (t_resp th' = None -> v_revs s' = v_revs s).
Proof. exact e2_read_failed_releases_rev. Qed.
Print Assumptions C10_read_failed_releases_revert.

(* sound in a reachable state: the step adds no entry; a failing revert held the reservation ITSELF, afterwards it is
   free and no request holds it; when the request was past its revert lookup with "not reverted" ([rev_miss]: every
   enabled pc but [PRevTaken]) no entry on disk or in flight reverts the target -- the transaction can still be
   reverted, once.  At [PRevTaken] the lookup has not been made (the target may already be reverted on disk). *)
Theorem C10_read_failed_revert_fresh : forall s t s', reachable s -> step s (AResumeReadFail t) = Some s' ->
  exists th th', get_thread (threads s) t = Some th /\ get_thread (threads s') t = Some th' /\
    persisted s' ++ inflight s' = persisted s ++ inflight s /\
    ((exists err, t_resp th' = Some (RErr err)) -> rq_kind (t_req th) = KRevert ->
        In (rq_revert (t_req th)) (v_revs s) /\ ~ In (rq_revert (t_req th)) (v_revs s') /\
        (forall t2 th2, get_thread (threads s') t2 = Some th2 -> rq_kind (t_req th2) = KRevert ->
                        rq_revert (t_req th2) = rq_revert (t_req th) -> rev_hold (t_pc th2) = false) /\
        (rev_miss (t_pc th) = true ->
           forall x, In x (persisted s' ++ inflight s') -> e_reverts x <> Some (rq_revert (t_req th)))).
Proof. exact e2_read_failed_rev_fresh. Qed.
Print Assumptions C10_read_failed_revert_fresh.

(* nobody else's revert reservation is touched (the statement for the three tables) *)
Theorem C10_read_fail_other_reverts_untouched : forall s t s', reachable s -> step s (AResumeReadFail t) = Some s' ->
  exists th, get_thread (threads s) t = Some th /\
    (forall k, (In k (v_iks s') -> In k (v_iks s)) /\ (In k (v_iks s) -> k <> rq_ik (t_req th) -> In k (v_iks s'))) /\
    (forall k, (In k (v_refs s') -> In k (v_refs s)) /\ (In k (v_refs s) -> k <> rq_ref (t_req th) -> In k (v_refs s'))) /\
    (forall id, (In id (v_revs s') -> In id (v_revs s)) /\
                (In id (v_revs s) -> ~ (rq_kind (t_req th) = KRevert /\ id = rq_revert (t_req th)) -> In id (v_revs s'))) /\
    (forall t2 th2, t2 <> t -> get_thread (threads s) t2 = Some th2 ->
       (rq_ik (t_req th2) <> 0%N -> ik_hold (t_pc th2) = true -> In (rq_ik (t_req th2)) (v_iks s')) /\
       (is_tx_kind (rq_kind (t_req th2)) = true -> rq_ref (t_req th2) <> 0%N -> ref_hold (t_pc th2) = true ->
          In (rq_ref (t_req th2)) (v_refs s')) /\
       (rq_kind (t_req th2) = KRevert -> rev_hold (t_pc th2) = true -> In (rq_revert (t_req th2)) (v_revs s'))).
Proof. exact e2_read_fail_others_untouched. Qed.
Print Assumptions C10_read_fail_other_reverts_untouched.

(* non-vacuity: transaction 1 is on disk; the [GetTransaction] read of revert request 3 fails at [PRevTaken]:
   [RErr EStoreRead], reservation table empty, disk unchanged; the NEW revert request 4 of transaction 1 commits: exactly
   one revert entry [(owner 4, Some 1)]; the read of a further revert request 5 fails too: still exactly one *)
Example C10_read_failure_retry :
  exists s0 th0 s1 th3 s th4 s5 th5,
    run init (e2_rf_fund ++ e2_rf_tx1 ++ [AStart 3 e2_rev1]) = Some s0 /\
    get_thread (threads s0) 3 = Some th0 /\ t_pc th0 = PRevTaken /\ v_revs s0 = [1] /\
    run init (e2_rf_fund ++ e2_rf_tx1 ++ [AStart 3 e2_rev1; AResumeReadFail 3]) = Some s1 /\
    get_thread (threads s1) 3 = Some th3 /\ t_resp th3 = Some (RErr EStoreRead) /\ t_entry th3 = None /\
    v_revs s1 = [] /\ persisted s1 = persisted s0 /\ v_pending s1 = [] /\ v_batch s1 = None /\
    run init (e2_rf_fund ++ e2_rf_tx1 ++ [AStart 3 e2_rev1; AResumeReadFail 3] ++ e2_rf_rev_full 4) = Some s /\
    get_thread (threads s) 4 = Some th4 /\ t_resp th4 = Some (ROk (Some 2)) /\
    map (fun e => (e_owner e, e_reverts e)) (persisted s) = [(0, None); (1, None); (4, Some 1)] /\
    count_where (fun e => match e_reverts e with Some x => Nat.eqb x 1 | None => false end) (persisted s) = 1 /\
    v_revs s = [] /\
    run init (e2_rf_fund ++ e2_rf_tx1 ++ [AStart 3 e2_rev1; AResumeReadFail 3] ++ e2_rf_rev_full 4 ++
              [AStart 5 e2_rev1; AResumeReadFail 5]) = Some s5 /\
    get_thread (threads s5) 5 = Some th5 /\ t_resp th5 = Some (RErr EStoreRead) /\ persisted s5 = persisted s /\
    v_revs s5 = [].
Proof. exact e2_read_failure_revert. Qed.

(* ---- graceful shutdown (AClose / ACloseOk) -------------------------------------------------------------------------- *)
(* [AClose] is state-wise [ACrash], [ACloseOk] is [APersistOk] then [ACrash]; both are actions of [reachable], so
   C10_once holds across them.  The table of reverts in progress is gone with the generation: *)
Theorem C10_close_frees_reverts : forall s a s', a = AClose \/ a = ACloseOk -> step s a = Some s' ->
  v_iks s' = [] /\ v_refs s' = [] /\ v_revs s' = [] /\ v_locks s' = [] /\ v_queue s' = [].
Proof. exact e2_close_frees. Qed.
Print Assumptions C10_close_frees_reverts.

(* non-vacuity: the revert of transaction 1 (request 3) has appended its entry, QUEUED behind the batch of request 2
   inside the store call; [AClose] drops both: request 3 is answered [RCrashed], transaction 1 is NOT reverted on disk,
   the table is empty, nothing is published; a NEW revert of transaction 1 (request 4) in the next generation commits:
   exactly one revert entry.  With [ACloseOk] (the batch of request 2 is written, the queued revert still dropped):
   the same. *)
Example C10_close_during_revert :
  (exists s0 s1 s th3 th4,
     run init (e2_rf_fund ++ e2_rf_tx1 ++ e2_close_busy 2 ++ AStart 3 e2_rev1 :: e2_rs 3 10) = Some s0 /\
     option_map (map e_owner) (v_batch s0) = Some [2] /\ map (fun e => (e_owner e, e_reverts e)) (v_pending s0) = [(3, Some 1)] /\
     v_revs s0 = [1] /\
     run init (e2_rf_fund ++ e2_rf_tx1 ++ e2_close_busy 2 ++ AStart 3 e2_rev1 :: e2_rs 3 10 ++ [AClose]) = Some s1 /\
     persisted s1 = persisted s0 /\ map e_owner (persisted s1) = [0; 1] /\
     count_where (fun e => match e_reverts e with Some 1 => true | _ => false end) (persisted s1) = 0 /\
     v_pending s1 = [] /\ v_batch s1 = None /\ v_revs s1 = [] /\ published s1 = published s0 /\
     run init (e2_rf_fund ++ e2_rf_tx1 ++ e2_close_busy 2 ++ AStart 3 e2_rev1 :: e2_rs 3 10 ++ [AClose] ++ e2_rf_rev_full 4) = Some s /\
     get_thread (threads s) 3 = Some th3 /\ get_thread (threads s) 4 = Some th4 /\ t_req th4 = t_req th3 /\
     rq_kind (t_req th3) = KRevert /\ rq_revert (t_req th3) = 1 /\
     t_resp th3 = Some RCrashed /\ t_resp th4 = Some (ROk (Some 2)) /\
     map (fun e => (e_owner e, e_reverts e)) (persisted s) = [(0, None); (1, None); (4, Some 1)] /\
     count_where (fun e => match e_reverts e with Some 1 => true | _ => false end) (persisted s) = 1 /\ v_revs s = []) /\
  (exists s th3 th4,
     run init (e2_rf_fund ++ e2_rf_tx1 ++ e2_close_busy 2 ++ AStart 3 e2_rev1 :: e2_rs 3 10 ++ [ACloseOk] ++ e2_rf_rev_full 4) = Some s /\
     get_thread (threads s) 3 = Some th3 /\ get_thread (threads s) 4 = Some th4 /\
     t_resp th3 = Some RCrashed /\ t_resp th4 = Some (ROk (Some 3)) /\
     map (fun e => (e_owner e, e_reverts e)) (persisted s) = [(0, None); (1, None); (2, None); (4, Some 1)] /\
     count_where (fun e => match e_reverts e with Some 1 => true | _ => false end) (persisted s) = 1 /\ v_revs s = []).
Proof. exact e2_close_during_revert. Qed.
