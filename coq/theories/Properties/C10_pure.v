(* C10, pure half — Revert is an exact inverse (the once-only half under racing reverts belongs to the engine model).
   Only property theorems; each closed by [exact <lemma>] and followed by Print Assumptions.
   [reverse_postings] is Postings.Reverse / TransactionData.Reverse; [apply ps f] adds the postings to a balance map
   (every account, @world included); [replay_ok] and [run_postings] as in C09. *)
From FL Require Import Numscript.Sem Posting.Model Posting.Proofs.
From Coq Require Import ZArith List.
Import ListNotations.
Open Scope Z_scope.

(* shape: the original postings in reverse order with source and destination swapped *)
Theorem C10_shape : forall ps, reverse_postings ps = map swap (rev ps).
Proof. exact reverse_shape. Qed.
Print Assumptions C10_shape.

(* inverse: applying the reversed postings after the postings leaves every account of every asset where it stood *)
Theorem C10_inverse : forall ps f a s, apply (reverse_postings ps) (apply ps f) a s = f a s.
Proof. exact inverse. Qed.
Print Assumptions C10_inverse.

(* when nothing else touched the accounts, the unforced revert replayed on the balances the original left goes
   through EXACTLY when each posting could have been taken back right after it was applied ([revertible]) ... *)
Theorem C10_revert_iff : forall ps f, replay_ok false (apply ps f) (reverse_postings ps) = revertible f ps.
Proof. exact revert_iff. Qed.
Print Assumptions C10_revert_iff.

(* ... which holds whenever no ordinary account was overdrawn before and the original itself went through unforced;
   the accounts then end non-negative again *)
Theorem C10_revertible_when_unforced : forall ps f,
  nonneg f -> replay_ok false f ps = true -> revertible f ps = true /\ nonneg (apply ps f).
Proof. exact revert_sufficient. Qed.
Print Assumptions C10_revertible_when_unforced.

(* on the machine: under those conditions the unforced revert script succeeds and emits exactly the reversed postings *)
Theorem C10_inverse_succeeds : forall ps f b extra,
  nonneg f -> replay_ok false f ps = true ->
  tracks b (reverse_postings ps) -> (forall a s, a <> world -> view b a s = apply ps f a s) ->
  exists r, run_postings (reverse_postings ps) false b extra = SOk r /\ res_posts r = reverse_postings ps.
Proof. exact revert_succeeds. Qed.
Print Assumptions C10_inverse_succeeds.

(* the corner where the plain statement "the unforced revert succeeds when nothing else touched the accounts" is
   false: an account overdrawn (by an earlier forced / overdraft transaction) before it received funds *)
Theorem C10_inverse_succeeds_unconditional_refuted :
  exists (f : bmap) ps, replay_ok false f ps = true /\ replay_ok false (apply ps f) (reverse_postings ps) = false.
Proof.
  exists (fun a _ => if N.eqb a 1 then -20 else 0), [mkp world 1%N 0%N 10]. vm_compute. split; reflexivity.
Qed.

(* unforced revert is safe: if it succeeds, replaying it never takes an ordinary account below what it holds *)
Theorem C10_unforced_safe : forall ps b extra r,
  tracks b (reverse_postings ps) -> run_postings (reverse_postings ps) false b extra = SOk r ->
  replay_ok false (view b) (reverse_postings ps) = true.
Proof. exact unforced_safe. Qed.
Print Assumptions C10_unforced_safe.

(* forced mode is exactly `allowing unbounded overdraft`: it always succeeds, with exactly the reversed postings *)
Theorem C10_forced_succeeds : forall ps b extra,
  tracks b ps -> (forall p, In p ps -> 0 <= p_amount p) ->
  exists r, run_postings ps true b extra = SOk r /\ res_posts r = ps.
Proof. exact forced_succeeds. Qed.
Print Assumptions C10_forced_succeeds.

Example C10_example :
  let ps := [ mkp world 1%N 0%N 10; mkp 1%N 2%N 0%N 4; mkp 2%N 2%N 0%N 3 ] in
  let b := [ (world, 0%N, 0); (1%N, 0%N, 6); (2%N, 0%N, 4) ] in       (* the balances [ps] leaves from zero *)
  reverse_postings ps = [ mkp 2%N 2%N 0%N 3; mkp 2%N 1%N 0%N 4; mkp 1%N world 0%N 10 ] /\
  exists r, run_postings (reverse_postings ps) false b [] = SOk r /\ res_posts r = reverse_postings ps.
Proof. vm_compute. split; [reflexivity|]. eexists. split; reflexivity. Qed.
