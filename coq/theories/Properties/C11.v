(* C11 — A transaction reference is committed at most once.
   Only the property theorems live here; each is closed by [exact <lemma>] and followed by Print Assumptions.
   Model: Engine/Model.v (validated against the real Commander by trace replay), predicates: Engine/Spec.v, proofs:
   Engine/E2*.v.  [reachable s] quantifies over every finite action list from the empty ledger: any number of requests
   sharing a reference, any interleaving of their reservation / store lookup / execution / append / wait steps with
   the persistence of a competitor, any outcome of the competitor, crashes and store failures at every point. *)
From FL Require Import Engine.Model Engine.Spec Engine.E2Base Engine.E2Step Engine.E2Main Engine.E2Variants Engine.E2ReadFail.

(* at most one entry on disk carries a given non-empty reference *)
Theorem C11_unique : forall s, reachable s -> ref_once (persisted s).
Proof. exact e2_ref_once. Qed.
Print Assumptions C11_unique.

(* a later attempt: a request that has reserved its reference and whose store lookup is made when the reference is
   already on disk answers "conflict" in its next two steps, writes nothing and owns no entry on disk or in flight *)
Theorem C11_loser_conflict : forall s, reachable s -> forall t th,
  get_thread (threads s) t = Some th -> t_gen th = gen s -> t_pc th = PRefTaken ->
  has_ref (persisted s) (rq_ref (t_req th)) = true ->
  exists s2 th2, run s [AResume t; AResume t] = Some s2 /\ get_thread (threads s2) t = Some th2 /\
    t_pc th2 = PFinished /\ t_resp th2 = Some (RErr EConflict) /\ persisted s2 = persisted s /\
    inflight s2 = inflight s /\ (forall e, In e (persisted s2 ++ inflight s2) -> e_owner e <> t).
Proof. exact e2_ref_loser. Qed.
Print Assumptions C11_loser_conflict.

(* a concurrent attempt: a request that found the reference reserved by a request in flight answers "conflict" *)
Theorem C11_busy_conflict : forall s, reachable s -> forall t th,
  get_thread (threads s) t = Some th -> t_gen th = gen s -> t_pc th = PRefBusy ->
  exists s1 th1, run s [AResume t] = Some s1 /\ get_thread (threads s1) t = Some th1 /\
    t_pc th1 = PFinished /\ t_resp th1 = Some (RErr EConflict) /\ persisted s1 = persisted s /\
    inflight s1 = inflight s /\ (forall e, In e (persisted s1 ++ inflight s1) -> e_owner e <> t).
Proof. exact e2_ref_busy. Qed.
Print Assumptions C11_busy_conflict.

(* "changes nothing", for ever: in every reachable state a request that was answered with an error (conflict
   included) owns no entry, on disk or in flight *)
Theorem C11_error_no_trace : forall s, reachable s -> forall t th err,
  get_thread (threads s) t = Some th -> t_resp th = Some (RErr err) ->
  forall e, In e (persisted s ++ inflight s) -> e_owner e <> t.
Proof. exact e2_error_no_trace. Qed.
Print Assumptions C11_error_no_trace.

(* non-vacuity: a transaction with reference 7 is committed; a second request with the reference, sent later, is
   refused; so is one sent after a restart; one entry *)
Example C11_example :
  exists s th2 th3,
    run init (AStart 1 e2_pay7 :: e2_rs 1 10 ++ [APersistOk] ++ e2_rs 1 3 ++ AStart 2 e2_pay7 :: e2_rs 2 2 ++
              [ACrash] ++ AStart 3 e2_pay7 :: e2_rs 3 2) = Some s /\
    count_where (fun e => N.eqb (e_ref e) 7) (persisted s) = 1 /\
    get_thread (threads s) 2 = Some th2 /\ get_thread (threads s) 3 = Some th3 /\
    t_resp th2 = Some (RErr EConflict) /\ t_resp th3 = Some (RErr EConflict).
Proof. vm_compute. eexists. eexists. eexists. repeat split. Qed.

(* the code before 4b34895 (reference released when the executor returns, before persistence), as a variant of the
   model: after the 13-action prefix A has appended and waits, B's lookup of the same reference misses ... *)
Theorem C11_refuted_before_fix_prefix :
  length e2_c11_prefix = 13 /\
  exists s th, run_with step_early init e2_c11_prefix = Some s /\ get_thread (threads s) 2 = Some th /\
               t_pc th = PRefLookup false /\ persisted s = [].
Proof. exact e2_c11_prefix_miss. Qed.
(* ... and both transactions are written with reference 7 *)
Theorem C11_refuted_before_fix :
  exists s, run_with step_early init e2_c11_schedule = Some s /\
            count_where (fun e => N.eqb (e_ref e) 7) (persisted s) = 2.
Proof. exact e2_c11_refuted_early. Qed.

(* the same prefix on the repaired model: B finds the reference reserved and is refused *)
Example C11_fixed_same_prefix :
  exists s th, run init e2_c11_prefix = Some s /\ get_thread (threads s) 2 = Some th /\
               t_resp th = Some (RErr EConflict) /\ v_refs s = [7%N].
Proof. exact e2_c11_fixed_same_prefix. Qed.

(* ---- cancellation of a request's context (ACancel / AResumeCancelled) ------------------------------------------------ *)
(* a request that waits for its account locks and whose context is done gives up: it gives its reference back and
   nothing is stored -- a later request with the same reference is not refused on its account *)
Theorem C11_cancelled_releases_ref : forall s t s', reachable s -> step s (AResumeCancelled t) = Some s' ->
  exists th, get_thread (threads s) t = Some th /\
    v_refs s' = (if N.eqb (rq_ref (t_req th)) 0 then v_refs s else remove_N (rq_ref (t_req th)) (v_refs s)) /\
    persisted s' = persisted s.
Proof. exact e2_cancelled_releases_ref. Qed.
Print Assumptions C11_cancelled_releases_ref.

(* it held the reference itself, nobody holds it afterwards, and no entry on disk or in flight carries it *)
Theorem C11_cancelled_ref_fresh : forall s t s', reachable s -> step s (AResumeCancelled t) = Some s' ->
  exists th, get_thread (threads s) t = Some th /\ (rq_ref (t_req th) <> 0%N ->
       In (rq_ref (t_req th)) (v_refs s) /\ ~ In (rq_ref (t_req th)) (v_refs s') /\
       forall x, In x (persisted s' ++ inflight s') -> e_ref x <> rq_ref (t_req th)).
Proof. exact e2_cancelled_ref_fresh. Qed.
Print Assumptions C11_cancelled_ref_fresh.

(* non-vacuity: request 2 (reference 9) queues, is cancelled, answers [ELockCancelled]; the new request 3 with
   reference 9 commits; one entry with the reference (the schedule of C07_cancel_example_retry) *)
Example C11_cancel_example :
  exists s th2 th3,
    run init (e2_cancel_prefix ++ [ACancel 2; AResumeCancelled 2] ++ e2_cancel_retry) = Some s /\
    get_thread (threads s) 2 = Some th2 /\ get_thread (threads s) 3 = Some th3 /\
    rq_ik (t_req th2) = 7%N /\ rq_ref (t_req th2) = 9%N /\ t_req th3 = t_req th2 /\
    t_resp th2 = Some (RErr ELockCancelled) /\ t_resp th3 = Some (ROk (Some 2)) /\
    map (fun e => (e_owner e, e_ik e, e_ref e)) (persisted s) = [(0, 0%N, 0%N); (1, 0%N, 0%N); (3, 7%N, 9%N)] /\
    count_where (fun e => N.eqb (e_ik e) 7) (persisted s) = 1 /\
    count_where (fun e => N.eqb (e_ref e) 9) (persisted s) = 1 /\
    v_iks s = [] /\ v_refs s = [] /\ v_locks s = [] /\ v_queue s = [].
Proof. exact e2_cancel_then_retry. Qed.

(* ---- transient store read failures (AResumeReadFail) ----------------------------------------------------------------- *)
(* [ref_hold] (Engine/E2Step.v): the pcs at which a request holds its reference, from [PRefTaken] on.  Of the pcs at
   which a read can fail, [PRefTaken], [PRefLookup false] and [PLocked] hold it; [PRevTaken], [PIkTaken] and
   [PIkLookup None] do not (the reference has not been taken yet).
   The request answers an error and its reference leaves the table exactly when it holds it at that pc; nothing is
   written.  In particular a failing KEY lookup ([PIkTaken]) leaves the reference table as it is. *)
Theorem C11_read_failed_releases_ref : forall s t s', reachable s -> step s (AResumeReadFail t) = Some s' ->
  exists th th', get_thread (threads s) t = Some th /\ get_thread (threads s') t = Some th' /\
    persisted s' = persisted s /\ inflight s' = inflight s /\
    ((exists err, t_resp th' = Some (RErr err)) ->
       v_refs s' = (if ref_hold (t_pc th) && negb (N.eqb (rq_ref (t_req th)) 0)
                    then remove_N (rq_ref (t_req th)) (v_refs s) else v_refs s)) /\
    (t_resp th' = None -> v_refs s' = v_refs s) /\
    (t_pc th = PIkTaken -> v_refs s' = v_refs s).
Proof. exact e2_read_failed_releases_ref. Qed.
Print Assumptions C11_read_failed_releases_ref.

(* sound in a reachable state: the step adds no entry; a request that holds its reference held it ITSELF, afterwards the
   reference is free and no request holds it; when the reference lookup had been made and had MISSED ([ref_miss]:
   [PRefLookup false], [PLocked]) no entry on disk or in flight carries the reference.  At [PRefTaken] the lookup has
   NOT been made (the reference may be on disk: the request would have been refused with a conflict); it writes nothing.
   A request that does not hold its reference leaves the table untouched. *)
Theorem C11_read_failed_ref_fresh : forall s t s', reachable s -> step s (AResumeReadFail t) = Some s' ->
  exists th th', get_thread (threads s) t = Some th /\ get_thread (threads s') t = Some th' /\
    persisted s' ++ inflight s' = persisted s ++ inflight s /\
    ((exists err, t_resp th' = Some (RErr err)) ->
      (rq_ref (t_req th) <> 0%N -> ref_hold (t_pc th) = true ->
        In (rq_ref (t_req th)) (v_refs s) /\ ~ In (rq_ref (t_req th)) (v_refs s') /\
        (forall t2 th2, get_thread (threads s') t2 = Some th2 -> is_tx_kind (rq_kind (t_req th2)) = true ->
                        rq_ref (t_req th2) = rq_ref (t_req th) -> ref_hold (t_pc th2) = false) /\
        (ref_miss (t_pc th) = true -> forall x, In x (persisted s' ++ inflight s') -> e_ref x <> rq_ref (t_req th))) /\
      (ref_hold (t_pc th) = false -> v_refs s' = v_refs s)).
Proof. exact e2_read_failed_ref_fresh. Qed.
Print Assumptions C11_read_failed_ref_fresh.

(* nobody else's reference is touched (the full statement for the three tables is [C07_read_fail_other_reservations_untouched]) *)
Theorem C11_read_fail_other_refs_untouched : forall s t s', reachable s -> step s (AResumeReadFail t) = Some s' ->
  exists th, get_thread (threads s) t = Some th /\
    (forall k, (In k (v_iks s') -> In k (v_iks s)) /\ (In k (v_iks s) -> k <> rq_ik (t_req th) -> In k (v_iks s'))) /\
    (forall k, (In k (v_refs s') -> In k (v_refs s)) /\ (In k (v_refs s) -> k <> rq_ref (t_req th) -> In k (v_refs s'))) /\
    (forall id, (In id (v_revs s') -> In id (v_revs s)) /\
                (In id (v_revs s) -> ~ (rq_kind (t_req th) = KRevert /\ id = rq_revert (t_req th)) -> In id (v_revs s'))) /\
    (forall t2 th2, t2 <> t -> get_thread (threads s) t2 = Some th2 ->
       (rq_ik (t_req th2) <> 0%N -> ik_hold (t_pc th2) = true -> In (rq_ik (t_req th2)) (v_iks s')) /\
       (is_tx_kind (rq_kind (t_req th2)) = true -> rq_ref (t_req th2) <> 0%N -> ref_hold (t_pc th2) = true ->
          In (rq_ref (t_req th2)) (v_refs s')) /\
       (rq_kind (t_req th2) = KRevert -> rev_hold (t_pc th2) = true -> In (rq_revert (t_req th2)) (v_revs s'))).
Proof. exact e2_read_fail_others_untouched. Qed.
Print Assumptions C11_read_fail_other_refs_untouched.

(* non-vacuity.  (1) the reference lookup of request 2 (key 7, reference 9) fails at [PRefTaken] while request 1
   (reference 6) is in flight: [RErr EStoreRead], key and reference of 2 given back, reference 6 stays reserved,
   nothing written; (2) after such a failure a NEW request 3 with reference 9 commits: exactly one entry carries
   reference 9; (3) reference 9 is on disk and the lookup of a later request with reference 9 fails: [RErr EStoreRead],
   nothing written, still one entry *)
Example C11_read_failure_retry :
  (exists s0 th0 s th2,
     run init (e2_rf_fund ++ [AStart 1 e2_pay06] ++ e2_rs 1 3 ++ [AStart 2 e2_pay79] ++ e2_rs 2 2) = Some s0 /\
     get_thread (threads s0) 2 = Some th0 /\ t_pc th0 = PRefTaken /\ v_iks s0 = [7%N] /\ v_refs s0 = [9%N; 6%N] /\
     run init (e2_rf_fund ++ [AStart 1 e2_pay06] ++ e2_rs 1 3 ++ [AStart 2 e2_pay79] ++ e2_rs 2 2 ++ [AResumeReadFail 2]) = Some s /\
     get_thread (threads s) 2 = Some th2 /\ t_resp th2 = Some (RErr EStoreRead) /\ t_entry th2 = None /\
     v_iks s = [] /\ v_refs s = [6%N] /\ persisted s = persisted s0 /\ v_pending s = [] /\ v_batch s = None) /\
  (exists s th2 th3,
     run init (e2_rf_fund ++ [AStart 2 e2_pay79; AResume 2; AResume 2; AResumeReadFail 2] ++ e2_full79 3) = Some s /\
     get_thread (threads s) 2 = Some th2 /\ get_thread (threads s) 3 = Some th3 /\ t_req th3 = t_req th2 /\
     rq_ref (t_req th2) = 9%N /\ t_resp th2 = Some (RErr EStoreRead) /\ t_resp th3 = Some (ROk (Some 1)) /\
     map (fun e => (e_owner e, e_ik e, e_ref e)) (persisted s) = [(0, 0%N, 0%N); (3, 7%N, 9%N)] /\
     count_where (fun e => N.eqb (e_ref e) 9) (persisted s) = 1 /\ v_iks s = [] /\ v_refs s = []) /\
  (exists s th2,
     run init (e2_rf_fund ++ e2_full79 1 ++ [AStart 2 e2_pay09; AResumeReadFail 2]) = Some s /\
     get_thread (threads s) 2 = Some th2 /\ t_resp th2 = Some (RErr EStoreRead) /\ t_entry th2 = None /\
     count_where (fun e => N.eqb (e_ref e) 9) (persisted s) = 1 /\ length (persisted s) = 2 /\
     v_refs s = [] /\ v_pending s = [] /\ v_batch s = None).
Proof. exact e2_read_failure_ref. Qed.

(* the KEY lookup of request 2 (key 7, reference 9) fails at [PIkTaken] while request 1 holds reference 9: request 2
   has not taken the reference and does not release it -- the reservation of request 1 is untouched *)
Example C11_read_failure_key_lookup_keeps_ref :
  exists s0 th1 th0 s th2,
    run init (e2_rf_fund ++ [AStart 1 e2_pay09] ++ e2_rs 1 3 ++ [AStart 2 e2_pay79]) = Some s0 /\
    get_thread (threads s0) 1 = Some th1 /\ t_pc th1 = PLocked /\ rq_ref (t_req th1) = 9%N /\
    get_thread (threads s0) 2 = Some th0 /\ t_pc th0 = PIkTaken /\ rq_ref (t_req th0) = 9%N /\
    v_iks s0 = [7%N] /\ v_refs s0 = [9%N] /\
    run init (e2_rf_fund ++ [AStart 1 e2_pay09] ++ e2_rs 1 3 ++ [AStart 2 e2_pay79; AResumeReadFail 2]) = Some s /\
    get_thread (threads s) 2 = Some th2 /\ t_resp th2 = Some (RErr EStoreRead) /\
    v_iks s = [] /\ v_refs s = [9%N].
Proof. exact e2_read_failure_key_keeps_ref. Qed.

(* ---- graceful shutdown (AClose / ACloseOk) -------------------------------------------------------------------------- *)
(* [AClose] is state-wise [ACrash], [ACloseOk] is [APersistOk] then [ACrash]; both are actions of [reachable], so
   C11_unique holds across them.  The reference table is gone with the generation: *)
Theorem C11_close_frees_refs : forall s a s', a = AClose \/ a = ACloseOk -> step s a = Some s' ->
  v_iks s' = [] /\ v_refs s' = [] /\ v_revs s' = [] /\ v_locks s' = [] /\ v_queue s' = [].
Proof. exact e2_close_frees. Qed.
Print Assumptions C11_close_frees_refs.

(* non-vacuity: request 2 (reference 9, no key) has its entry QUEUED behind the batch of request 1; [ACloseOk] drops it
   ([RCrashed], no entry with reference 9 on disk); a NEW request with reference 9 commits: exactly one entry carries
   it.  Entry IN the batch written by [ACloseOk]: the retry finds the reference on disk and is refused
   ([RErr EConflict]), writes nothing: exactly one entry *)
Example C11_close_then_retry :
  (exists s1 s th2 th3,
     run init (e2_rf_fund ++ e2_close_busy 1 ++ AStart 2 e2_pay09 :: e2_rs 2 10 ++ [ACloseOk]) = Some s1 /\
     count_where (fun e => N.eqb (e_ref e) 9) (persisted s1) = 0 /\ v_refs s1 = [] /\
     run init (e2_rf_fund ++ e2_close_busy 1 ++ AStart 2 e2_pay09 :: e2_rs 2 10 ++ [ACloseOk] ++
               AStart 3 e2_pay09 :: e2_rs 3 10 ++ [APersistOk] ++ e2_rs 3 3) = Some s /\
     get_thread (threads s) 2 = Some th2 /\ get_thread (threads s) 3 = Some th3 /\ t_req th3 = t_req th2 /\
     rq_ref (t_req th2) = 9%N /\ t_resp th2 = Some RCrashed /\ t_resp th3 = Some (ROk (Some 2)) /\
     map (fun e => (e_owner e, e_ref e)) (persisted s) = [(0, 0%N); (1, 0%N); (3, 9%N)] /\
     count_where (fun e => N.eqb (e_ref e) 9) (persisted s) = 1 /\ v_refs s = []) /\
  (exists s th2 th3,
     run init (e2_rf_fund ++ AStart 2 e2_pay09 :: e2_rs 2 10 ++ [ACloseOk] ++ AStart 3 e2_pay09 :: e2_rs 3 2) = Some s /\
     get_thread (threads s) 2 = Some th2 /\ get_thread (threads s) 3 = Some th3 /\
     t_resp th2 = Some RCrashed /\ t_resp th3 = Some (RErr EConflict) /\ t_entry th3 = None /\
     map (fun e => (e_owner e, e_ref e)) (persisted s) = [(0, 0%N); (2, 9%N)] /\ v_pending s = [] /\ v_batch s = None /\
     count_where (fun e => N.eqb (e_ref e) 9) (persisted s) = 1 /\ v_refs s = []).
Proof. exact e2_close_then_retry_ref. Qed.
