(* C12 — No script, variable map or ledger state can crash the engine.
   Only the property theorems live here; each is closed by [exact <lemma>] and followed by Print Assumptions.
   Proofs: Numscript/CompileCorrect*.v (no_panic is a corollary of compiler correctness: [sem] has no Panic). *)
From FL Require Import Numscript.CompileCorrectClasses.
From FL Require Import Numscript.ResourceLimit.
From FL Require Import Numscript.Typing Numscript.ResourceLimitScript Numscript.ResourceLimitCompile.
Open Scope Z_scope.

(* ---- no panic -----------------------------------------------------------------------------------------------------------------
   Every Go panic site of compile -> set vars -> ResolveResources -> ResolveBalances -> Execute -> vm.Run is an explicit
   [Panic] outcome of the model; none is reachable, neither in the outer outcome nor in the run result, for every script
   of the language, every variable map, every store content and every set of extra metadata keys.
   Side conditions: [norm_script] / non-empty statement list (guaranteed by the front end: big.Rat, grammar) and the
   typing of the values handed over by the glue (SetVarsFromJSON / NewValueFromString type-check what they return). *)
Theorem C12_no_panic : forall sc vars s extra, norm_script sc = true -> s_stmts sc <> [] ->
  (forall p vs, compile sc = Some p -> vars = Some vs -> vars_typed (p_res p) vs) -> parse_typed s ->
  match compile_and_run sc vars s extra with
  | Done ro => no_panic (ro_result ro)
  | Err _ => True
  | Panic _ => False
  end.
Proof. exact run_no_panic. Qed.
Print Assumptions C12_no_panic.

(* the same with the typing assumption stated on the script's declarations *)
Theorem C12_no_panic_script : forall sc vars s extra, norm_script sc = true -> s_stmts sc <> [] ->
  (forall vs, vars = Some vs -> vars_typed_script sc vs) -> parse_typed s ->
  match compile_and_run sc vars s extra with
  | Done ro => no_panic (ro_result ro)
  | Err _ => True
  | Panic _ => False
  end.
Proof. exact run_no_panic_script. Qed.
Print Assumptions C12_no_panic_script.

Theorem C12_no_panic_in_fragment : forall sc vars s extra, in_fragment sc = true ->
  (forall p vs, compile sc = Some p -> vars = Some vs -> vars_typed (p_res p) vs) -> parse_typed s ->
  match compile_and_run sc vars s extra with
  | Done ro => no_panic (ro_result ro)
  | Err _ => True
  | Panic _ => False
  end.
Proof. exact run_no_panic_frag. Qed.
Print Assumptions C12_no_panic_in_fragment.

(* ---- termination ------------------------------------------------------------------------------------------------------------
   Machine.Execute is `for { finished := tick() }`; tick executes Instructions[P] and does P += 1 (there is no jump in
   the instruction set), finishing when P >= len(Instructions) or on an error.  [tick_loop] is that loop with an explicit
   program counter and fuel; it never runs out of fuel [length code], visits each instruction at most once, and computes
   the structural fold [exec] the other theorems are about. *)
Theorem C12_terminates : forall res code b fuel, (length code <= fuel)%nat -> (1 <= fuel)%nat ->
  execute_ticks fuel res code b = Some (execute res code b).
Proof. exact execute_needs_no_fuel. Qed.
Print Assumptions C12_terminates.

Theorem C12_tick_loop_is_fold : forall res code fuel pc st, (pc < length code)%nat -> (length code - pc <= fuel)%nat ->
  tick_loop fuel res code pc st = Some (exec res (skipn pc code) st).
Proof. exact tick_loop_exec. Qed.
Print Assumptions C12_tick_loop_is_fold.

(* ---- error classes -----------------------------------------------------------------------------------------------------------
   For EVERY input (no side condition): a failure before the run is a compile error, a variable-map error or one of
   the four resource-resolution classes; a failure of the run is one of negative balance, insufficient funds, invalid
   script, script failed, metadata override, resource not found or the generic run error. *)
Theorem C12_error_classes : forall sc vars s extra,
  match compile_and_run sc vars s extra with
  | Err e => stage_class e = true
  | Done ro => match ro_result ro with Err e => run_class e = true | _ => True end
  | Panic _ => True
  end.
Proof. exact error_classes. Qed.
Print Assumptions C12_error_classes.

(* ... and for a program the compiler produced (same side conditions as C12_no_panic) the run can only fail with:
   negative stored balance, insufficient funds, invalid script, script failed, generic run error, metadata override —
   never "resource not found" (every address the compiler emits is valid), never a panic.  Obtained from both sides of
   compiler correctness: the machine cannot return the classes only [sem] has, [sem] cannot return the classes only
   the machine has. *)
Theorem C12_error_classes_compiled : forall sc vars s extra, norm_script sc = true -> s_stmts sc <> [] ->
  (forall p vs, compile sc = Some p -> vars = Some vs -> vars_typed (p_res p) vs) -> parse_typed s ->
  match compile_and_run sc vars s extra with
  | Err e => stage_class e = true
  | Done ro => match ro_result ro with Done _ => True | Err e => compiled_run_class e = true | Panic _ => False end
  | Panic _ => False
  end.
Proof. exact error_classes_compiled. Qed.
Print Assumptions C12_error_classes_compiled.

(* ---- determinism / no residue ------------------------------------------------------------------------------------------------
   True of the model BY CONSTRUCTION (it is a pure function and the program value is immutable); stated for the record.
   That the Go code shares no mutable state between executions of one cached *Program is checked by the harness
   (run twice / concurrently, results equal), not by these theorems. *)
Theorem C12_deterministic : forall sc vars s extra o1 o2,
  compile_and_run sc vars s extra = o1 -> compile_and_run sc vars s extra = o2 -> o1 = o2.
Proof. exact run_deterministic. Qed.
Print Assumptions C12_deterministic.

Theorem C12_no_residue : forall p before r after,
  nth_error (run_seq p (before ++ r :: after)) (length before) =
  Some (run_program p (fst (fst r)) (snd (fst r)) (snd r)).
Proof. exact run_no_residue. Qed.
Print Assumptions C12_no_residue.

(* ---- the 16-bit address space ------------------------------------------------------------------------------------------------
   A program.Address is a uint16; an address that wrapped would alias resource 0 and the machine would pop a value of
   the wrong type (a panic).  About the allocator of the model ([alloc], [append_resource]: the only writers of the
   resource table): a table within the limit stays within it and every address handed out is below 2^16; the limit is
   exact (a table of 2^16 entries refuses the next one, a shorter one never refuses).  These two are stated of the allocator
   (hence the names); the lift to the whole compiler is [C12_resource_table_fits] below; the real compiler is observed at 65 535 .. 65 538 distinct resources by the thorough
   tier of obs-numscript (family resource-limit). *)
Theorem C12_resource_addresses_fit_partial : forall r cs i cs', fits cs -> alloc r cs = Some (i, cs') -> addr_u16 i /\ fits cs'.
Proof. exact resource_addresses_fit. Qed.
Print Assumptions C12_resource_addresses_fit_partial.

Theorem C12_resource_limit_exact_partial : forall r cs,
  (length (c_res cs) = N.to_nat max_resources -> append_resource r cs = None) /\
  ((N.of_nat (length (c_res cs)) < max_resources)%N -> append_resource r cs <> None).
Proof. exact resource_limit_exact. Qed.
Print Assumptions C12_resource_limit_exact_partial.

(* whole compiler, for the scripts whose syntactic count of allocations is within the limit ([within_limits], Typing.v):
   the table of an accepted script has at most 2^16 entries (it is never longer than that count) *)
Theorem C12_resource_table_fits_within_limits : forall sc p, compile sc = Some p -> within_limits sc ->
  (N.of_nat (length (p_res p)) <= max_resources)%N.
Proof. exact compile_within_limits_fits. Qed.
Print Assumptions C12_resource_table_fits_within_limits.

(* the compiler as a whole, every script: the table of an accepted script has at most 2^16 entries - by the invariant
   "the table is within the limit", kept by every action of the compiler monad (Numscript/ResourceLimitCompile.v) *)
Theorem C12_resource_table_fits : forall sc p, compile sc = Some p -> (N.of_nat (length (p_res p)) <= max_resources)%N.
Proof. exact compile_fits. Qed.
Print Assumptions C12_resource_table_fits.

(* ---- non-vacuity ---------------------------------------------------------------------------------------------------------- *)
(* vars { account $a   monetary $b = balance($a, COIN)   monetary $c = balance($a, COIN) }      (two balance() on one account)
   send [COIN *] ( source = { 1/2 ... } ... ) is rejected; here: portions that do not add up are refused at run time,
   save from an account that is no source of any send is harmless, arithmetic may go negative *)
Definition C12_ex_script : script :=
  {| s_vars := [ {| vd_type := TAccount; vd_name := 7%N; vd_orig := None |};
                 {| vd_type := TMonetary; vd_name := 8%N; vd_orig := Some (OBalance (EVar 7%N) (ELitAsset 1%N)) |};
                 {| vd_type := TMonetary; vd_name := 9%N; vd_orig := Some (OBalance (EVar 7%N) (ELitAsset 1%N)) |};
                 {| vd_type := TPortion; vd_name := 10%N; vd_orig := None |} ];
     s_stmts := [ StSave (SendMon (EAddSub false (EVar 8%N) (ELitMonetary (ELitAsset 1%N) 5))) (ELitAccount 4%N);
                  StPrint (EAddSub false (ELitNumber 1) (ELitNumber 2));
                  StSend (SendMon (EAddSub true (EVar 8%N) (EVar 9%N)))
                    (VSrcAllot [ (APVar 10%N, SAccount (EVar 7%N) OvNone); (APRemaining, SAccount (ELitAccount 0%N) OvNone) ])
                    (DAccount (ELitAccount 5%N)) ] |}.
Definition C12_ex_store : store := {| st_bal := [(6%N, 1%N, 40)]; st_meta := []; st_parse := [] |}.
Definition C12_ex_vars : list (N * value) := [(7%N, VAccount 6%N); (10%N, VPortion (PSpecific (1, 4%positive)))].

Example C12_example :
  in_fragment C12_ex_script = true /\
  (exists ro, compile_and_run C12_ex_script (Some C12_ex_vars) C12_ex_store [] = Done ro /\
     ro_result ro =
     Done {| res_posts := [ {| p_src := 6%N; p_dst := 5%N; p_asset := 1%N; p_amount := 20 |};
                            {| p_src := 0%N; p_dst := 5%N; p_asset := 1%N; p_amount := 60 |} ];
             res_txmeta := []; res_accmeta := []; res_printed := [VNumber (-1)] |}) /\
  (* a variable missing: reported, classified *)
  compile_and_run C12_ex_script (Some [(7%N, VAccount 6%N)]) C12_ex_store [] = Err EMissingVar /\
  (* a negative stored balance: reported by ResolveBalances *)
  (exists ro, compile_and_run C12_ex_script (Some C12_ex_vars) {| st_bal := [(6%N, 1%N, -1)]; st_meta := []; st_parse := [] |} [] = Done ro /\
     ro_result ro = Err ENegBalance) /\
  (* a portion variable above 100%: invalid script at run time, not a crash *)
  (exists ro, compile_and_run C12_ex_script (Some [(7%N, VAccount 6%N); (10%N, VPortion (PSpecific (5, 4%positive)))]) C12_ex_store [] = Done ro /\
     ro_result ro = Err EInvalidScript).
Proof.
  split; [vm_compute; reflexivity|]. split; [eexists; split; vm_compute; reflexivity|].
  split; [vm_compute; reflexivity|]. split; eexists; split; vm_compute; reflexivity.
Qed.

(* ---- the typing assumption on the glue is necessary ----------------------------------------------------------------------
   If SetVarsFromJSON handed a number for a variable declared `account`, ResolveBalances would hit a type assertion:
   the model predicts the panic.  (The real SetVarsFromJSON checks the type; the harness feeds hostile variable maps
   through it and observes an error, never a value of the wrong type.) *)
Definition C12_no_panic_without_typing_statement : Prop :=
  forall sc vars s extra, norm_script sc = true -> s_stmts sc <> [] ->
  match compile_and_run sc vars s extra with
  | Done ro => no_panic (ro_result ro)
  | Err _ => True
  | Panic _ => False
  end.
Theorem C12_no_panic_without_typing_refuted : ~ C12_no_panic_without_typing_statement.
Proof.
  intros U.
  specialize (U {| s_vars := [ {| vd_type := TAccount; vd_name := 7%N; vd_orig := None |} ];
                   s_stmts := [ StSend (SendMon (ELitMonetary (ELitAsset 1%N) 1)) (VSrc (SAccount (EVar 7%N) OvNone))
                                  (DAccount (ELitAccount 5%N)) ] |}
                (Some [(7%N, VNumber 3)]) {| st_bal := []; st_meta := []; st_parse := [] |} [] eq_refl ltac:(discriminate)).
  vm_compute in U. exact U.
Qed.
