(* C13 — Every log entry can be read back and re-verified.
   Only the property theorems live here; each is closed by [exact <lemma>] and followed by Print Assumptions.

   All statements are for every codec [c] satisfying [codec_ok c], i.e.
     tparse (tfmt t) = Some t   for every timestamp t held in memory (ParseTime (Format t) = t), and
     hdec (henc h) = Some h     for every hash value (base64 of encoding/json),
   and for ANY function H in the place of SHA-256 and ANY function [render] in the place of encoding/json's
   printing of a JSON value (nothing is assumed about either).
   [fixed] is the tree with the repairs "fix: log: DELETE_METADATA ..." and "fix: log: transaction target id ...". *)
From FL Require Import LogCodec.Model LogCodec.Proofs LogCodec.Order.
From Coq Require Import Permutation.

(* round trip through the JSON form, for every entry: all five payload kinds on both target types, any amounts,
   ids and reverted ids in Z, any strings, nil / empty / arbitrary metadata and account metadata, nil / empty /
   any postings, any timestamps of the codec, any id, hash present or not.
   [norm] puts maps into the key order in which encoding/json writes a Go map (it is the identity on an entry
   whose association lists are already key-sorted: C13_norm_canonical) — it changes no Go value. *)
Theorem C13_roundtrip : forall c, codec_ok c -> forall e : entry c,
  of_json c fixed (to_json c e) = Ok (norm c e) /\ to_json c (norm c e) = to_json c e /\ norm c (norm c e) = norm c e.
Proof. intros c Hok e. exact (conj (of_json_to_json c Hok e) (conj (to_json_norm c e) (norm_idem c e))). Qed.
Print Assumptions C13_roundtrip.

Theorem C13_norm_canonical : forall V (l : list (string * V)), sorted l -> canon l = l.
Proof. exact sorted_canon_id. Qed.
Print Assumptions C13_norm_canonical.

(* the same through the stored row (type name, jsonb data, date, key, id, hash) and Logs.ToCore, for every entry
   dated in UTC (the commander dates every log with Now(), which is UTC; ToCore converts the date to UTC) *)
Theorem C13_roundtrip_row : forall c, codec_ok c -> forall e : entry c,
  tutc c (l_date c (e_log c e)) = l_date c (e_log c e) -> of_row c fixed (to_row c e) = Ok (norm c e).
Proof. exact of_row_to_row. Qed.
Print Assumptions C13_roundtrip_row.

(* the stored form is not the text that was written: PostgreSQL's jsonb returns the members of every object in its own
   order. Reading back does not depend on it: whatever document [j] equals the written one up to the order of object
   members, at any depth ([jperm]), decodes to the same entry — on the JSON path and on the row path. Together with
   C13_rehash/C13_chain (which speak about [norm e]) this covers re-verification from the stored rows. *)
Theorem C13_roundtrip_any_member_order : forall c, codec_ok c -> forall (e : entry c) (j : json),
  jperm (to_json c e) j -> of_json c fixed j = Ok (norm c e).
Proof. exact of_json_perm. Qed.
Print Assumptions C13_roundtrip_any_member_order.

Theorem C13_roundtrip_row_any_member_order : forall c, codec_ok c -> forall (e : entry c) (data : json),
  tutc c (l_date c (e_log c e)) = l_date c (e_log c e) ->
  jperm (r_data c (to_row c e)) data ->
  of_row c fixed {| r_type := r_type c (to_row c e); r_data := data; r_date := r_date c (to_row c e);
                    r_ik := r_ik c (to_row c e); r_id := r_id c (to_row c e); r_hash := r_hash c (to_row c e) |} = Ok (norm c e).
Proof. exact of_row_perm. Qed.
Print Assumptions C13_roundtrip_row_any_member_order.

(* re-verification of one entry: the entry written by ChainLog over [prev] reads back; what is read back carries the
   stored hash and id; and re-chaining its content over the predecessor as read back yields exactly the entry
   read back — same id, same hash — whatever H is *)
Theorem C13_rehash : forall c, codec_ok c -> forall (prev : option (entry c)) (l : log c),
  exists e', readback c (chain_log c prev l) = Ok e' /\
             e_hash c e' = e_hash c (chain_log c prev l) /\ e_id c e' = e_id c (chain_log c prev l) /\
             forall prev', readback_opt c prev = Ok prev' -> chain_log c prev' (e_log c e') = e'.
Proof. exact rehash. Qed.
Print Assumptions C13_rehash.

(* a whole chain of any length built by ChainLogs: every entry reads back, and the chain read back re-verifies
   link by link ([verified]: re-chaining each entry's content over its predecessor gives the entry itself),
   with the stored hashes and ids *)
Theorem C13_chain : forall c, codec_ok c -> forall ls : list (log c),
  exists es', mapM (readback c) (chain_logs c None ls) = Ok es' /\ verified c None es' /\
              map (e_hash c) es' = map (e_hash c) (chain_logs c None ls) /\
              map (e_id c) es' = map (e_id c) (chain_logs c None ls).
Proof. exact chain. Qed.
Print Assumptions C13_chain.

(* and through the stored rows: the rows of a chain of UTC-dated logs read back to the same entries as the JSON path *)
Theorem C13_chain_rows : forall c, codec_ok c -> forall ls : list (log c),
  Forall (fun l => tutc c (l_date c l) = l_date c l) ls ->
  forall prev, mapM (fun e => of_row c fixed (to_row c e)) (chain_logs c prev ls) = Ok (map (norm c) (chain_logs c prev ls)).
Proof. exact chain_rows. Qed.
Print Assumptions C13_chain_rows.

(* non-vacuity: the hypotheses are satisfiable (times and hashes as their own text, H the identity, render = Go's
   compact encoder), and on a chain with all six shapes the decoders really run: every entry reads back to itself,
   ids count from 0, every hash is the text fed to H *)
Example C13_codec_exists : codec_ok text_codec.
Proof. exact text_codec_ok. Qed.

Local Open Scope string_scope.
Local Open Scope Z_scope.
Definition example_tx : tx text_codec :=
  mk_tx (Some [ {| p_src := "world"; p_dst := "bank"; p_amount := 2 ^ 200; p_asset := "USD/2" |} ])
        (Some [("k", "v"); ("a", "<&>")]) "2023-05-17T10:00:00.000001+02:00" "ref" 18446744073709551616 false.
Definition example_logs : list (log text_codec) :=
  [ {| l_payload := PNewTx text_codec example_tx (Some [("bank", None); ("alice", Some [])]); l_date := "2023-05-17T08:00:00Z"; l_ik := "ik" |};
    {| l_payload := PReverted text_codec 18446744073709551616 example_tx; l_date := "2023-05-17T08:00:01Z"; l_ik := "" |};
    {| l_payload := PSetMeta text_codec (TAccount "bank") None; l_date := "2023-05-17T08:00:02Z"; l_ik := "" |};
    {| l_payload := PSetMeta text_codec (TTx (2 ^ 70)) (Some [("b", "2"); ("a", "1")]); l_date := "2023-05-17T08:00:03Z"; l_ik := "" |};
    {| l_payload := PDelMeta text_codec (TAccount "bank") "k"; l_date := "2023-05-17T08:00:04Z"; l_ik := "" |};
    {| l_payload := PDelMeta text_codec (TTx (2 ^ 70)) "k"; l_date := "2023-05-17T08:00:05Z"; l_ik := "x" |} ].
Example C13_example :
  let es := chain_logs text_codec None example_logs in
  res_eqb (list_eqb entry_eqb) (mapM (readback text_codec) es) (Ok (map (norm text_codec) es)) = true /\
  map (e_id text_codec) es = [0; 1; 2; 3; 4; 5]%Z /\
  list_eqb entry_eqb (map (norm text_codec) es) es = false (* the maps of example_logs are not all key-sorted *) /\
  existsb (fun e => match e_hash text_codec e with Some h => Nat.ltb 200%nat (String.length h) | None => false end) es = true.
Proof. vm_compute. auto. Qed.

(* jperm is inhabited by genuine reorderings: the data of a delete-metadata log as jsonb returns it (shorter keys first) *)
Example C13_jperm_example :
  jperm (payload_json text_codec (PDelMeta text_codec (TTx 7) "k"))
        (JObj [(k_key, JStr "k"); (k_targetId, JNum 7); (k_targetType, JStr s_TRANSACTION)]).
Proof.
  cbn [payload_json target_type target_id_json].
  eapply jp_obj with (m1 := [(k_targetType, JStr s_TRANSACTION); (k_targetId, JNum 7); (k_key, JStr "k")]).
  - repeat constructor.
  - eapply perm_trans; [apply perm_skip, perm_swap|]. eapply perm_trans; [apply perm_swap|]. apply perm_skip, perm_swap.
Qed.

(* ---- the tree before the repairs (replayable witnesses; corpus/C13/) -------------------------------------------- *)
(* F-C13a: HydrateLog has no case for DELETE_METADATA: reading such an entry panics on the JSON path and in
   Logs.ToCore (GetLastLog at start-up, log listing, idempotency lookup); the repaired decoder reads it back *)
Theorem C13_roundtrip_refuted_before_fix :
  exists e : entry text_codec,
    is_panic (of_json text_codec legacy (to_json text_codec e)) = true /\
    is_panic (of_row text_codec legacy (to_row text_codec e)) = true /\
    res_eqb entry_eqb (of_json text_codec fixed (to_json text_codec e)) (Ok e) = true.
Proof.
  exists (del_entry (TAccount "acc"%string)). vm_compute. auto.
Qed.
Theorem C13_roundtrip_refuted_before_fix_tx_target :
  exists e : entry text_codec, is_panic (of_json text_codec legacy (to_json text_codec e)) = true.
Proof. exists (del_entry (TTx 1)). exact (proj1 (proj2 legacy_delmeta_panics)). Qed.

(* F-C13b: a transaction target id of 2^64 or more does not pass strconv.ParseUint(_, 10, 64): error on the JSON
   path, panic in ToCore; 2^64 - 1 still reads back; the repaired decoder reads 2^64 back *)
Theorem C13_target_id_refuted_before_fix :
  exists e : entry text_codec,
    is_err (of_json text_codec legacy (to_json text_codec e)) = true /\
    is_panic (of_row text_codec legacy (to_row text_codec e)) = true /\
    res_eqb entry_eqb (of_json text_codec fixed (to_json text_codec e)) (Ok e) = true.
Proof.
  exists (setmeta_entry (TTx two64)). vm_compute. auto.
Qed.
