(* C14 -- A dry run changes nothing.
   Only the property theorems live here; each is closed by [exact <lemma>] and followed by Print Assumptions.
   The model is Engine/Model.v (validated against the real Commander by trace validation); [submit], [submit_all],
   [observe], [quiescent] are in Engine/Spec.v; proofs in Engine/E3Dry.v (symbolic run of one request),
   Engine/E3Frame.v (frame property), Engine/E3Later.v (assembly), Engine/E3Events.v (uid freshness of reachable states).

   [submit s t q] starts request [q] as thread [t] and runs it to its end, persisting the batch whenever it waits
   (fuel 64; the proof shows at most 36 steps are needed). [observe] is everything later requests, restarts and
   readers can see: disk, lastLog, lastTXID, batcher queue and batch, idempotency keys / references / reverts in use,
   account locks, lock queue, the append critical section, the published events. A state is [quiescent] when every
   request has finished and nothing is in flight -- every state of a sequential history is (C14_sequential_quiescent).
   [with_dry q b] is [q] with the dry-run flag set to [b]. *)
From FL Require Import Engine.Model Engine.Spec Engine.E3Base Engine.E3Events Engine.E3Dry Engine.E3Frame Engine.E3Later
  Engine.E3Variants.

(* a preview changes nothing observable: disk, transaction id counter, lastLog, events, reservations, locks ... and
   leaves a quiescent state *)
Theorem C14_stutter : forall s t q, reachable s -> quiescent s -> get_thread (threads s) t = None -> rq_dry q = true ->
  observe (submit s t q) = observe s /\ quiescent (submit s t q).
Proof. exact e3_C14_stutter. Qed.
Print Assumptions C14_stutter.

(* (it holds of every quiescent state, reachable or not; besides [observe], the generation, the ghost serial number
   and every other entry of the thread table are unchanged, and the preview itself has finished) *)
Theorem C14_stutter_any : forall s t q, quiescent s -> get_thread (threads s) t = None -> rq_dry q = true ->
  observe (submit s t q) = observe s /\ quiescent (submit s t q) /\
  gen (submit s t q) = gen s /\ v_uid (submit s t q) = v_uid s /\
  (forall w, w <> t -> get_thread (threads (submit s t q)) w = get_thread (threads s) w) /\
  (exists th, get_thread (threads (submit s t q)) t = Some th /\ t_pc th = PFinished).
Proof. exact e3_stutter. Qed.
Print Assumptions C14_stutter_any.

(* the preview answers exactly what the real write answers, for every kind of request and every outcome: both
   answers are [answer disk lastTXID q] (Engine/E3Dry.v), a function of the disk and of lastTXID only:
     revert: transaction absent -> ENotFound; already reverted -> EAlreadyReverted; then as a create of the swapped postings
     key present on disk: the stored entry is the outcome of this request ([is_outcome_of]: same kind; revert: same
                          reverted transaction; metadata write: same target and content) -> ROk (stored transaction
                          id); otherwise (key reused with a different request) -> EKeyReused, for every kind
     transaction: reference on disk -> EConflict; funds (balances read from the disk) insufficient -> EInsufficient;
                  no posting -> ENoPostings; otherwise ROk (lastTXID + 1)
     metadata write: target transaction absent -> ENotFound; otherwise ROk *)
Theorem C14_answer : forall s t q, reachable s -> quiescent s -> get_thread (threads s) t = None ->
  exists th th', get_thread (threads (submit s t (with_dry q true))) t = Some th /\
                 get_thread (threads (submit s t (with_dry q false))) t = Some th' /\
                 t_resp th = t_resp th' /\ t_resp th = Some (answer (persisted s) (v_lasttx s) q).
Proof. exact e3_C14_answer. Qed.
Print Assumptions C14_answer.

(* in particular the transaction id a preview reports (when it is not the replay of a stored outcome) is the one
   the next real transaction gets: lastTXID + 1, which the preview does not consume (C14_stutter: ob_lasttx) *)
Theorem C14_answer_txid : forall log ltx q x,
  (rq_ik q = 0%N \/ find_by_ik log (rq_ik q) = None) -> is_tx_kind (rq_kind q) = true ->
  answer log ltx q = ROk x -> x = Some (next_nat ltx).
Proof. exact answer_fresh_txid. Qed.
Print Assumptions C14_answer_txid.

(* every later sequence of requests (any kinds, real or preview, any thread ids but the preview's) ends in the same
   observable state and gives every request the same table entry -- request, program counter, response -- as if the
   preview had not been made *)
Theorem C14_later_history : forall s t q h, reachable s -> quiescent s -> get_thread (threads s) t = None ->
  rq_dry q = true -> Forall (fun p => fst p <> t) h ->
  observe (submit_all (submit s t q) h) = observe (submit_all s h) /\
  forall w, w <> t -> get_thread (threads (submit_all (submit s t q) h)) w = get_thread (threads (submit_all s h)) w.
Proof. exact e3_C14_later_history. Qed.
Print Assumptions C14_later_history.

(* more: every later BEHAVIOUR. Any action list that does not name the preview's thread -- concurrent requests in
   any interleaving, batch persistence, store failures, crashes and restarts -- is executable after the preview iff
   it is without it, and leads to the same observable state and the same entries for all other threads *)
Theorem C14_later_run : forall s t q acts, reachable s -> quiescent s -> get_thread (threads s) t = None ->
  rq_dry q = true -> Forall (avoids t) acts ->
  match run (submit s t q) acts, run s acts with
  | Some a, Some b => observe a = observe b /\ forall w, w <> t -> get_thread (threads a) w = get_thread (threads b) w
  | None, None => True
  | _, _ => False
  end.
Proof. exact e3_C14_later_run. Qed.
Print Assumptions C14_later_run.

(* the one-step frame property behind both: two states with the same [observe], generation and serial number that
   agree on every table entry except [t]'s, [t] not being in the lock queue, remain so under any action not naming [t] *)
Theorem C14_frame_step : forall t s1 s a, frel t s1 s -> avoids t a -> orel t (step s1 a) (step s a).
Proof. exact frame_step. Qed.
Print Assumptions C14_frame_step.

(* a graceful shutdown of the commander (AClose / ACloseOk) among the later actions: it names no request
   ([avoids t AClose] and [avoids t ACloseOk] are [True]), so it is covered by C14_later_run / C14_frame_step for every
   preview [t]; stated on its own: *)
Theorem C14_frame_close : forall t s1 s a, a = AClose \/ a = ACloseOk -> frel t s1 s -> orel t (step s1 a) (step s a).
Proof. exact frame_close. Qed.
Print Assumptions C14_frame_close.

(* sequential histories (distinct thread ids) stay in reachable quiescent states: the hypotheses above are those of
   every position in a sequential history *)
Theorem C14_sequential_quiescent : forall h s, reachable s -> quiescent s -> fresh_for s h ->
  reachable (submit_all s h) /\ quiescent (submit_all s h) /\
  (forall w, ~ In w (map fst h) -> get_thread (threads (submit_all s h)) w = get_thread (threads s) w).
Proof. exact e3_sequential_quiescent. Qed.
Print Assumptions C14_sequential_quiescent.

(* the property as it quantifies: a preview at ANY position of ANY sequential history of requests of any kind
   (from the empty ledger): the history with the preview and the history without it end in the same observable state,
   every other request gets the same response, and the preview answered what the disk at its position determines *)
Theorem C14_sequential : forall h1 t q h2, NoDup (map fst (h1 ++ (t, q) :: h2)) -> rq_dry q = true ->
  observe (submit_all init (h1 ++ (t, q) :: h2)) = observe (submit_all init (h1 ++ h2)) /\
  (forall w, w <> t -> get_thread (threads (submit_all init (h1 ++ (t, q) :: h2))) w =
                       get_thread (threads (submit_all init (h1 ++ h2))) w) /\
  (exists th, get_thread (threads (submit_all init (h1 ++ [(t, q)]))) t = Some th /\
              t_resp th = Some (answer (persisted (submit_all init h1)) (v_lasttx (submit_all init h1)) q)).
Proof. exact e3_C14_sequential. Qed.
Print Assumptions C14_sequential.

(* cancellation (ACancel / AResumeCancelled) is not part of the sequential driver: a request submitted alone in a
   reachable quiescent state (whatever was cancelled before) never answers "gave up the lock wait" -- its answer is
   [answer], which has no such case; previews in particular are not affected by the cancellation actions, and
   C14_later_run / C14_frame_step cover cancellations of OTHER requests among the later actions ([avoids]) *)
Theorem C14_never_lock_cancelled : forall s t q, reachable s -> quiescent s -> get_thread (threads s) t = None ->
  exists th, get_thread (threads (submit s t q)) t = Some th /\ t_resp th <> Some (RErr ELockCancelled).
Proof. exact e3_C14_never_lock_cancelled. Qed.
Print Assumptions C14_never_lock_cancelled.

(* transient store read failures (AResumeReadFail) are not part of the sequential driver either: [drive] never fails
   a read, so a request submitted alone in a reachable quiescent state (whatever read failures happened before) never
   answers [EStoreRead] / [ECompilationFailed]; C14_later_run / C14_frame_step cover read failures of OTHER requests
   among the later actions ([avoids t (AResumeReadFail w)] is [w <> t]) *)
Theorem C14_never_read_failed : forall s t q, reachable s -> quiescent s -> get_thread (threads s) t = None ->
  exists th, get_thread (threads (submit s t q)) t = Some th /\
             t_resp th <> Some (RErr EStoreRead) /\ t_resp th <> Some (RErr ECompilationFailed).
Proof. exact e3_C14_never_read_failed. Qed.
Print Assumptions C14_never_read_failed.

(* ---- non-vacuity: after two transactions (the second with key 8 and reference 9), a preview of the revert of
   transaction 0 under key 5: reachable, quiescent, fresh id; the preview answers transaction id 2, so does the
   real revert; nothing observable changed ------------------------------------------------------------------------ *)
Definition c14_history : list (tid * request) :=
  [ (1%nat, mk_create 0 0 false [(world, 5%N, 10%Z)]);
    (2%nat, mk_create 8 9 false [(world, 6%N, 4%Z)]) ].
Definition c14_acts : list action := Eval vm_compute in submit_all_acts init c14_history.
Definition c14_preview : request := mk_revert 5 true 0%nat.
Example C14_nonvacuous :
  exists s, reachable s /\ quiescent s /\ get_thread (threads s) 7%nat = None /\ rq_dry c14_preview = true /\
    length (persisted s) = 2%nat /\
    option_map t_resp (get_thread (threads (submit s 7%nat c14_preview)) 7%nat) = Some (Some (ROk (Some 2%nat))) /\
    option_map t_resp (get_thread (threads (submit s 7%nat (with_dry c14_preview false))) 7%nat) = Some (Some (ROk (Some 2%nat))) /\
    length (persisted (submit s 7%nat (with_dry c14_preview false))) = 3%nat.
Proof.
  destruct (run init c14_acts) as [s|] eqn:E; [|vm_compute in E; discriminate E].
  exists s. split; [exists c14_acts; exact E|].
  vm_compute in E. inversion E; subst s; clear E.
  split; [apply quiescent_b_sound; vm_compute; reflexivity|].
  vm_compute. repeat split.
Qed.

(* ---- key reuse: in the same state, a revert of transaction 0 under key 8 -- the key that stored the SECOND create --
   is refused, as a preview and as a real write alike ([answer]: the stored entry is not the outcome of this request,
   [EKeyReused]); the preview changes nothing observable, the real one writes nothing. The same create repeated under
   its key 8 is answered its stored id 1, preview and real alike ----------------------------------------------------- *)
Definition c14_reuse : request := mk_revert 8 true 0%nat.
Definition c14_same : request := mk_create 8 9 true [(world, 6%N, 4%Z)].
Example C14_key_reused_nonvacuous :
  exists s, run init c14_acts = Some s /\
    answer (persisted s) (v_lasttx s) c14_reuse = RErr EKeyReused /\
    option_map t_resp (get_thread (threads (submit s 7%nat c14_reuse)) 7%nat) = Some (Some (RErr EKeyReused)) /\
    option_map t_resp (get_thread (threads (submit s 7%nat (with_dry c14_reuse false))) 7%nat) = Some (Some (RErr EKeyReused)) /\
    observe (submit s 7%nat c14_reuse) = observe s /\
    persisted (submit s 7%nat (with_dry c14_reuse false)) = persisted s /\
    option_map t_resp (get_thread (threads (submit s 7%nat c14_same)) 7%nat) = Some (Some (ROk (Some 1%nat))) /\
    option_map t_resp (get_thread (threads (submit s 7%nat (with_dry c14_same false))) 7%nat) = Some (Some (ROk (Some 1%nat))).
Proof. eexists. repeat (split; [vm_compute; reflexivity|]). vm_compute; reflexivity. Qed.

(* ---- non-vacuity of the extended [avoids]: after a preview (thread 7) on the empty ledger, a later concurrent run
   in which the balance read of request 1 fails under its account locks ([AResumeReadFail 1]: [EStoreRead], locks
   released, the queued request 2 granted and completed) is executable with and without the preview and ends in the
   same observable state (an instance of C14_later_run) ------------------------------------------------------------ *)
Definition c14_rf_acts : list action :=
  (AStart 0%nat (mk_create 0 0 false [(0%N, 1%N, 100%Z)]) :: repeat (AResume 0%nat) 8 ++ APersistOk :: repeat (AResume 0%nat) 3) ++
  [AStart 1%nat (mk_create 0 0 false [(1%N, 2%N, 100%Z)]); AStart 2%nat (mk_create 7 9 false [(1%N, 3%N, 100%Z)]);
   AResume 1%nat] ++ repeat (AResume 2%nat) 5 ++ [AResumeReadFail 1%nat] ++
  repeat (AResume 2%nat) 8 ++ APersistOk :: repeat (AResume 2%nat) 3.
Example C14_later_read_failure_nonvacuous :
  Forall (avoids 7%nat) c14_rf_acts /\
  exists a b, run (submit init 7%nat (mk_create 0 0 true [(world, 5%N, 10%Z)])) c14_rf_acts = Some a /\
    run init c14_rf_acts = Some b /\ observe a = observe b /\
    option_map t_resp (get_thread (threads b) 1%nat) = Some (Some (RErr EStoreRead)) /\
    option_map t_resp (get_thread (threads b) 2%nat) = Some (Some (ROk (Some 1%nat))) /\
    length (persisted b) = 2%nat /\ quiescent b.
Proof.
  split.
  - unfold c14_rf_acts. simpl. repeat (apply Forall_cons; [first [exact I | (let H := fresh in intro H; discriminate H)]|]). apply Forall_nil.
  - eexists. eexists. repeat (split; [vm_compute; reflexivity|]). apply quiescent_b_sound. vm_compute. reflexivity.
Qed.

(* ---- before the repair 52579e0 ("a dry run must not consume a transaction id"): with the variant
   [resume_pretxid], where nextTXID runs before the dry-run branch, one preview on the empty ledger changes what is
   observable (lastTXID becomes 0) and the next real transaction gets id 1 instead of 0 -------------------------------- *)
Definition c14_old_preview : list action :=
  AStart 1%nat (mk_create 0 0 true [(world, 5%N, 10%Z)]) :: repeat (AResume 1%nat) 8.
Definition c14_real_after : list action :=
  AStart 2%nat (mk_create 0 0 false [(world, 5%N, 10%Z)]) :: repeat (AResume 2%nat) 8 ++ APersistOk :: repeat (AResume 2%nat) 3.
Example C14_refuted_before_fix :
  exists s, run_with resume_pretxid init c14_old_preview = Some s /\
    quiescent s /\ observe s <> observe init /\ v_lasttx s = Some 0%nat /\
    exists s', run_with resume_pretxid s c14_real_after = Some s' /\ map e_txid (persisted s') = [Some 1%nat].
Proof.
  eexists. split; [vm_compute; reflexivity|]. split; [apply quiescent_b_sound; vm_compute; reflexivity|].
  split; [intros H; apply (f_equal ob_lasttx) in H; vm_compute in H; discriminate H|].
  split; [reflexivity|]. eexists. split; vm_compute; reflexivity.
Qed.
(* the same two histories on the repaired model: nothing observable after the preview, transaction id 0 *)
Example C14_fixed_same_history :
  exists s, run init c14_old_preview = Some s /\ observe s = observe init /\
    exists s', run s c14_real_after = Some s' /\ map e_txid (persisted s') = [Some 0%nat].
Proof. eexists. split; [vm_compute; reflexivity|]. split; [vm_compute; reflexivity|]. eexists. split; vm_compute; reflexivity. Qed.
