(* C15 — Account locks are exclusive and are always eventually granted.
   Only the property theorems live here; each is closed by [exact <lemma>] and followed by Print Assumptions.
   The model is Lock/Model.v: [step true] is lock.go of this tree (with "fix: lock"), [step false] the code before
   the repair. Every theorem quantifies over ALL action sequences [acts] from the empty lock manager: any number
   of requests with arbitrary read/write sets, any order of arrival, release, cancellation, wake-up, and either
   branch of the waiter's select when both channels are ready. *)
From FL Require Import Lock.Model Lock.Proofs.

(* exclusion: two distinct requests whose accounts are taken never conflict, i.e. no account is held for
   writing by one of them and for reading or writing by the other *)
Theorem C15_exclusion : forall acts s, run true init acts = Some s ->
  forall i j, i <> j -> r_held (rq s i) = true -> r_held (rq s j) = true -> ~ conflicts (rq s i) (rq s j).
Proof. exact lock_exclusion. Qed.
Print Assumptions C15_exclusion.

(* the lock table is exactly the multiset union of what the current holders asked for: the holders are the
   requests that are granted-not-yet-woken, granted-while-aborting or returned-and-not-released; the read count of
   an account is the number of occurrences in the holders' read lists; an account is write-locked iff some
   holder asked for it. No entry without a holder, no holder without its entries. *)
Theorem C15_table_exact : forall acts s, run true init acts = Some s ->
  (forall i, r_held (rq s i) = owns (r_st (rq s i))) /\
  (forall i, r_held (rq s i) = true -> i < next s) /\
  (forall a, t_rd (tbl s) a = sum_rd a (rq s) (next s)) /\
  (forall a, t_wr (tbl s) a = true <-> exists i, r_held (rq s i) = true /\ In a (r_wr (rq s i))).
Proof. exact lock_table_exact. Qed.
Print Assumptions C15_table_exact.

(* in particular: when nobody holds anything the table is empty (nothing leaks, whatever happened before) *)
Theorem C15_no_leak : forall acts s, run true init acts = Some s ->
  (forall i, r_held (rq s i) = false) -> forall a, t_rd (tbl s) a = 0 /\ t_wr (tbl s) a = false.
Proof. exact lock_no_leak. Qed.
Print Assumptions C15_no_leak.

(* progress: in every reachable state (so after every lock, release and abort) the queue holds exactly the
   requests still blocked, none of them is compatible with the lock table, and each of them conflicts with a
   request that holds its accounts right now. A pending request is therefore granted by the very release after
   which no conflicting holder is left; with no holder there is no waiter. *)
Theorem C15_progress : forall acts s, run true init acts = Some s ->
  (forall i, In i (queue s) <-> (r_st (rq s i) = Waiting \/ r_st (rq s i) = Aborting)) /\
  (forall i, In i (queue s) -> compat (tbl s) (r_rd (rq s i)) (r_wr (rq s i)) = false) /\
  (forall i, In i (queue s) -> exists j, r_held (rq s j) = true /\ conflicts (rq s j) (rq s i)).
Proof. exact lock_progress. Qed.
Print Assumptions C15_progress.

(* FIFO in one pass: when holder [i] gives its accounts back (release, or abort of a request that had been
   granted), the pass splits the queue, order kept, into granted and remaining waiters; a waiter that is not
   granted conflicts with a request that held before the pass and still holds, or with a waiter that stood
   BEFORE it in the queue and was granted in this pass -- never only with a later one. *)
Theorem C15_fifo : forall acts s i a s', run true init acts = Some s ->
  (a = ARelease i \/ (a = AAbort i /\ r_st (rq s i) = AbortGranted)) ->
  step true s a = Some s' ->
  queue s' = filter (fun w => negb (memn w (grants s'))) (queue s) /\
  grants s' = filter (fun w => memn w (grants s')) (queue s) /\
  forall w, In w (queue s) ->
    In w (grants s') \/
    (exists h, h <> i /\ r_held (rq s h) = true /\ conflicts (rq s h) (rq s w)) \/
    (exists g, before (queue s) g w /\ In g (grants s') /\ conflicts (rq s g) (rq s w)).
Proof. exact lock_fifo. Qed.
Print Assumptions C15_fifo.

(* cancellation: a request whose Lock call returned an error holds nothing, is not in the queue, and its
   context was cancelled (no other cause of failure) *)
Theorem C15_cancel : forall acts s, run true init acts = Some s ->
  forall i, r_st (rq s i) = Failed ->
    r_held (rq s i) = false /\ ~ In i (queue s) /\ r_ctx (rq s i) = true.
Proof. exact lock_cancel. Qed.
Print Assumptions C15_cancel.

(* intent.unlock never dereferences an absent read count *)
Theorem C15_no_panic : forall acts s, run true init acts = Some s -> panicked s = false.
Proof. exact lock_no_panic. Qed.
Print Assumptions C15_no_panic.

(* ---- non-vacuity: a schedule that exercises every action and both select branches ----------------------- *)
(* 0 writes a; 1 reads a,b (queued); 2 reads b (fast); 3 writes b (queued); 4 reads a (queued, FIFO behind 1);
   3 is cancelled and aborts; 0 releases: 1 and 4 are granted in queue order; 1 wakes on <-acquired;
   4 is cancelled after the grant and its select takes <-ctx.Done(): the abort gives the accounts back. *)
Definition ex_trace : list action :=
  [ ALock [] [1%N] false; ALock [1%N; 2%N] [] false; ALock [2%N] [] false; ALock [] [2%N] false;
    ALock [1%N] [] false; ACancel 3; AWake 3 true; AAbort 3; ARelease 0; AWake 1 false;
    ACancel 4; AWake 4 true ].
Example C15_example :
  exists s, run true init ex_trace = Some s /\
    map (fun i => r_st (rq s i)) [0; 1; 2; 3; 4] = [Released; Holding; Holding; Failed; AbortGranted] /\
    t_rd (tbl s) 1%N = 2 /\ t_rd (tbl s) 2%N = 2 /\ queue s = [] /\
    exists s', step true s (AAbort 4) = Some s' /\ r_st (rq s' 4) = Failed /\ r_held (rq s' 4) = false /\
               t_rd (tbl s') 1%N = 1.
Proof. eexists. split; [vm_compute; reflexivity|]. vm_compute. repeat split. eexists. repeat split. Qed.

(* FIFO among compatible waiters: 1 (writes a) and 2 (writes a) wait behind holder 0; the pass grants 1 only *)
Example C15_example_fifo :
  exists s, run true init [ALock [] [1%N] false; ALock [] [1%N] false; ALock [] [1%N] false; ARelease 0] = Some s /\
    grants s = [1] /\ queue s = [2].
Proof. eexists. split; [vm_compute; reflexivity|]. vm_compute. auto. Qed.

(* ---- the code before "fix: lock": a grant that coincides with the cancellation is lost ------------------- *)
(* [leaked s i]: request i returned an error and its accounts are still taken *)
Theorem C15_cancel_refuted :
  exists acts s i, run false init acts = Some s /\
    r_st (rq s i) = Failed /\ r_held (rq s i) = true /\
    (forall j, j <> i -> r_held (rq s j) = false) /\ t_wr (tbl s) 1%N = true /\
    (* a later request for the account waits although every caller has finished *)
    (exists s', step false s (ALock [] [1%N] false) = Some s' /\ queue s' = [2]).
Proof.
  (* A holds a; B waits for a; B's context is cancelled and B's select takes <-ctx.Done(); before B runs
     RemoveValue, A releases and recheck grants B (B is still in the queue); B returns the context error. *)
  exists [ALock [] [1%N] false; ALock [] [1%N] false; ACancel 1; AWake 1 true; ARelease 0; AAbort 1].
  eexists. exists 1. split; [vm_compute; reflexivity|]. vm_compute. repeat split.
  - intros j Hj. destruct j as [|[|j]]; [reflexivity | congruence | reflexivity].
  - eexists. split; reflexivity.
Qed.
Print Assumptions C15_cancel_refuted.

(* the same loss when the grant comes first and the select, with both channels ready, takes <-ctx.Done() *)
Theorem C15_cancel_refuted_select :
  exists s, run false init [ALock [] [1%N] false; ALock [] [1%N] false; ARelease 0; ACancel 1; AWake 1 true; AAbort 1]
            = Some s /\ leaked s 1.
Proof. eexists. split; [vm_compute; reflexivity|]. vm_compute. repeat split. auto. Qed.
Print Assumptions C15_cancel_refuted_select.

(* and it is for ever: no later action of anybody gives the accounts of a failed request back *)
Theorem C15_leak_is_permanent : forall fx acts s s' i,
  run fx s acts = Some s' -> leaked s i -> leaked s' i.
Proof. exact leak_forever. Qed.
Print Assumptions C15_leak_is_permanent.

(* the repaired code on the two schedules: the request fails, holds nothing, the table is empty *)
Example C15_fixed_on_witness :
  exists s, run true init [ALock [] [1%N] false; ALock [] [1%N] false; ACancel 1; AWake 1 true; ARelease 0; AAbort 1]
            = Some s /\ r_st (rq s 1) = Failed /\ r_held (rq s 1) = false /\ t_wr (tbl s) 1%N = false.
Proof. eexists. split; [vm_compute; reflexivity|]. vm_compute. auto. Qed.
