(* C16 -- Published events describe committed changes, faithfully.
   Only the property theorems live here; each is closed by [exact <lemma>] and followed by Print Assumptions.
   The model is Engine/Model.v (validated against the real Commander by trace validation); the predicates are in
   Engine/Spec.v; the invariant and its proof are in Engine/E3Events.v. Every theorem quantifies over EVERY
   reachable state: any number of requests of any kind, real or preview, with or without idempotency keys, any
   interleaving of their steps, any batch composition, store failures and crashes at any point.

   An event of the model carries: publisher, kind, transaction id, (for a revert) the reverted transaction id, and
   the number of entries that were on disk when it was published. *)
From FL Require Import Engine.Model Engine.Spec Engine.E3Base Engine.E3Events Engine.E3Variants Engine.E3Later.

(* every acknowledged (non-preview) write has published an event *)
Theorem C16_at_least_once : forall s, reachable s -> events_at_least_once s.
Proof. exact e3_at_least_once. Qed.
Print Assumptions C16_at_least_once.

(* no event is ever published by a preview *)
Theorem C16_no_preview_event : forall s, reachable s -> no_event_for_preview s.
Proof. exact e3_no_preview_event. Qed.
Print Assumptions C16_no_preview_event.

(* THE FULL STATEMENT (Spec.events_after_persist), unconditionally: every event was published when an entry was
   already on disk (among the first [ev_persisted ev] entries) that MATCHES it -- same kind, same transaction id and,
   for a revert, the SAME reverted transaction -- and that is the publisher's own entry or the entry stored under the
   publisher's idempotency key (replay).  Since the repair of executionContext.run (a key is answered again only when
   the stored log is the outcome of this very request, [Model.is_outcome_of]; otherwise [EKeyReused]) no exclusion
   hypothesis is left: the two key-reuse classes that refuted this statement are now refused, see
   C16_key_reused_revert_refused / C16_key_reused_cross_kind_refused below. *)
Theorem C16_after_persist : forall s, reachable s -> events_after_persist s.
Proof. exact e3_after_persist. Qed.
Print Assumptions C16_after_persist.

(* besides: the publisher of every event is a non-preview request of the event's kind, and the reverted transaction
   the event names is the one the request named (so, with C16_after_persist: the one the matching entry reverts) *)
Theorem C16_event_of_request : forall s, reachable s -> forall ev, In ev (published s) ->
  exists th, get_thread (threads s) (ev_tid ev) = Some th /\ rq_dry (t_req th) = false /\
    ev_kind ev = rq_kind (t_req th) /\
    ev_reverted ev = match rq_kind (t_req th) with KRevert => Some (rq_revert (t_req th)) | _ => None end.
Proof. exact e3_event_of_request. Qed.
Print Assumptions C16_event_of_request.

(* every event was published by a request that has finished and answered a success: no event is owned by a
   request that answered an error, crashed, or gave up *)
Theorem C16_event_publisher_succeeded : forall s, reachable s -> forall ev, In ev (published s) ->
  exists th x, get_thread (threads s) (ev_tid ev) = Some th /\ t_pc th = PFinished /\ t_resp th = Some (ROk x).
Proof. exact e3_event_publisher_succeeded. Qed.
Print Assumptions C16_event_publisher_succeeded.

(* ---- cancellation of a request's context (ACancel / AResumeCancelled) ------------------------------------------ *)
(* neither cancelling a context nor a queued lock intent giving up publishes an event or writes anything *)
Theorem C16_cancelled_publishes_nothing : forall s a s',
  (exists t, a = ACancel t \/ a = AResumeCancelled t) -> step s a = Some s' ->
  published s' = published s /\ persisted s' = persisted s.
Proof. exact e3_cancelled_publishes_nothing. Qed.
Print Assumptions C16_cancelled_publishes_nothing.

(* a request that gave up waiting for its account locks owns no event, in any reachable state *)
Theorem C16_cancelled_no_event : forall s t th, reachable s -> get_thread (threads s) t = Some th ->
  t_resp th = Some (RErr ELockCancelled) -> forall ev, In ev (published s) -> ev_tid ev <> t.
Proof. exact e3_cancelled_no_event. Qed.
Print Assumptions C16_cancelled_no_event.

(* non-vacuity. Request 0 funds account 1 with 100. Request 1 (spend 1 -> 2) takes the account locks; request 2
   (spend 1 -> 3, key 7, reference 9) queues behind it. Request 2's context is cancelled and it gives up
   ([ELockCancelled]): nothing published, nothing written, its key and reference released. Request 1 completes and
   publishes exactly one event: two events in all (funding + holder), none of thread 2; two entries on disk. *)
Definition c16_cancel_prefix : list action :=
  (AStart 0%nat (mk_create 0 0 false [(0%N, 1%N, 100%Z)]) :: repeat (AResume 0%nat) 8 ++ APersistOk :: repeat (AResume 0%nat) 3) ++
  [AStart 1%nat (mk_create 0 0 false [(1%N, 2%N, 100%Z)]); AStart 2%nat (mk_create 7 9 false [(1%N, 3%N, 100%Z)]);
   AResume 1%nat] ++ repeat (AResume 2%nat) 5.
Definition c16_cancel_rest : list action := repeat (AResume 1%nat) 6 ++ APersistOk :: repeat (AResume 1%nat) 4.
Example C16_cancelled_nonvacuous :
  exists s1 s2 s,
    run init c16_cancel_prefix = Some s1 /\ v_queue s1 = [2%nat] /\ map (fun h => fst (fst h)) (v_locks s1) = [1%nat] /\
    v_iks s1 = [7%N] /\ v_refs s1 = [9%N] /\
    run s1 [ACancel 2%nat; AResumeCancelled 2%nat] = Some s2 /\
    option_map t_resp (get_thread (threads s2) 2%nat) = Some (Some (RErr ELockCancelled)) /\
    published s2 = published s1 /\ persisted s2 = persisted s1 /\ v_queue s2 = [] /\ v_iks s2 = [] /\ v_refs s2 = [] /\
    run s2 c16_cancel_rest = Some s /\
    map ev_tid (published s) = [0%nat; 1%nat] /\ length (published s) = 2%nat /\ length (persisted s) = 2%nat /\
    option_map t_resp (get_thread (threads s) 1%nat) = Some (Some (ROk (Some 1%nat))) /\
    option_map t_resp (get_thread (threads s) 2%nat) = Some (Some (RErr ELockCancelled)) /\
    v_locks s = [] /\ v_queue s = [].
Proof.
  eexists. eexists. eexists. repeat (split; [vm_compute; reflexivity|]). vm_compute; reflexivity.
Qed.
(* the other branch: the intent is GRANTED (the holder released) while its context is cancelled, and the ctx.Done()
   branch is taken all the same: the request gives the accounts back, answers the error, owns no event *)
Example C16_cancelled_granted_nonvacuous :
  exists s1 s,
    run init (c16_cancel_prefix ++ ACancel 2%nat :: repeat (AResume 1%nat) 6 ++ APersistOk :: repeat (AResume 1%nat) 3) = Some s1 /\
    option_map t_granted (get_thread (threads s1) 2%nat) = Some true /\
    map (fun h => fst (fst h)) (v_locks s1) = [2%nat] /\
    run s1 [AResumeCancelled 2%nat; AResume 1%nat] = Some s /\
    option_map t_resp (get_thread (threads s) 2%nat) = Some (Some (RErr ELockCancelled)) /\
    map ev_tid (published s) = [0%nat; 1%nat] /\ length (persisted s) = 2%nat /\ v_locks s = [] /\ v_queue s = [].
Proof.
  eexists. eexists. repeat (split; [vm_compute; reflexivity|]). vm_compute; reflexivity.
Qed.

(* ---- transient failures of the store reads of the write path (AResumeReadFail) ---------------------------------- *)
(* a failed read, from any state, publishes nothing and writes nothing (the failing cases finish the request with an
   error and without calling the monitor; the SaveMeta case, where the code ignores the error, only moves the pc) *)
Theorem C16_read_failed_publishes_nothing : forall s t s',
  step s (AResumeReadFail t) = Some s' -> published s' = published s /\ persisted s' = persisted s.
Proof. exact e3_read_failed_publishes_nothing. Qed.
Print Assumptions C16_read_failed_publishes_nothing.

(* a request that answered a read failure -- [EStoreRead], or [ECompilationFailed] for the metadata read of the
   script's resources -- owns no event, in any reachable state *)
Theorem C16_read_failed_no_event : forall s t th, reachable s -> get_thread (threads s) t = Some th ->
  (t_resp th = Some (RErr EStoreRead) \/ t_resp th = Some (RErr ECompilationFailed)) ->
  forall ev, In ev (published s) -> ev_tid ev <> t.
Proof. exact e3_read_failed_no_event. Qed.
Print Assumptions C16_read_failed_no_event.

(* non-vacuity. As in C16_cancelled_nonvacuous: request 0 funds account 1, request 1 holds the account locks
   ([PLocked]), request 2 (key 7, reference 9) is queued behind it. The balance read of request 1 fails under the
   locks: it answers [EStoreRead], nothing published, nothing written, its locks are released and the FIFO re-check
   GRANTS request 2, which completes and publishes exactly one event: events of tids [0; 2], 2 entries on disk. *)
Definition c16_rf_rest : list action := repeat (AResume 2%nat) 8 ++ APersistOk :: repeat (AResume 2%nat) 3.
Example C16_read_failed_nonvacuous :
  exists s1 s2 s,
    run init c16_cancel_prefix = Some s1 /\ v_queue s1 = [2%nat] /\ map (fun h => fst (fst h)) (v_locks s1) = [1%nat] /\
    option_map t_pc (get_thread (threads s1) 1%nat) = Some PLocked /\
    step s1 (AResumeReadFail 1%nat) = Some s2 /\
    option_map t_resp (get_thread (threads s2) 1%nat) = Some (Some (RErr EStoreRead)) /\
    published s2 = published s1 /\ persisted s2 = persisted s1 /\
    v_queue s2 = [] /\ map (fun h => fst (fst h)) (v_locks s2) = [2%nat] /\
    option_map t_granted (get_thread (threads s2) 2%nat) = Some true /\
    run s2 c16_rf_rest = Some s /\
    map ev_tid (published s) = [0%nat; 2%nat] /\ length (published s) = 2%nat /\ length (persisted s) = 2%nat /\
    option_map t_resp (get_thread (threads s) 1%nat) = Some (Some (RErr EStoreRead)) /\
    option_map t_resp (get_thread (threads s) 2%nat) = Some (Some (ROk (Some 1%nat))) /\
    v_locks s = [] /\ v_queue s = [] /\ v_iks s = [] /\ v_refs s = [].
Proof.
  eexists. eexists. eexists. repeat (split; [vm_compute; reflexivity|]). vm_compute; reflexivity.
Qed.
(* the key lookup ([PIkTaken]) and the reference lookup ([PRefTaken]) of request 2 fail: [EStoreRead], key (and
   reference) released, no event of thread 2 *)
Example C16_read_failed_lookups_nonvacuous :
  exists s s',
    run init (firstn 13 c16_cancel_prefix ++ [AStart 2%nat (mk_create 7 9 false [(1%N, 3%N, 100%Z)]); AResumeReadFail 2%nat]) = Some s /\
    option_map t_resp (get_thread (threads s) 2%nat) = Some (Some (RErr EStoreRead)) /\
    map ev_tid (published s) = [0%nat] /\ v_iks s = [] /\ v_refs s = [] /\
    run init (firstn 13 c16_cancel_prefix ++ [AStart 2%nat (mk_create 7 9 false [(1%N, 3%N, 100%Z)]);
                                                AResume 2%nat; AResume 2%nat; AResumeReadFail 2%nat]) = Some s' /\
    option_map t_resp (get_thread (threads s') 2%nat) = Some (Some (RErr EStoreRead)) /\
    map ev_tid (published s') = [0%nat] /\ v_iks s' = [] /\ v_refs s' = [].
Proof.
  eexists. eexists. repeat (split; [vm_compute; reflexivity|]). vm_compute; reflexivity.
Qed.

(* THE SAVEMETA CASE (a finding about the code, not a violation of C16). SaveMeta under key 5 on transaction 7,
   which does NOT exist; the read of the transaction fails with a transient error. SaveTransactionMetadata only tests
   for the not-found error and ignores any other: the request goes on exactly as if the transaction had been found,
   its metadata entry is appended and persisted, it is acknowledged ([ROk None]) and publishes its SAVED_METADATA
   event -- AFTER its entry is on disk ([ev_persisted = 2], the entry is the second), so the event is faithful to a
   persisted entry of the same kind owned by the publisher and [events_after_persist] holds of the final state
   (C16_after_persist; its executable necessary condition [eap_b] is computed below). Without the read failure the same request answers
   [ENotFound] and writes nothing; DeleteMetadata answers [ENotFound] in both cases. *)
Definition c16_sm_req : request :=
  {| rq_kind := KSaveMeta; rq_ik := 5%N; rq_ref := 0%N; rq_dry := false; rq_postings := []; rq_unb := false;
     rq_revert := O; rq_target_tx := Some 7%nat; rq_meta := 0%N |}.
Definition c16_dm_req : request :=
  {| rq_kind := KDelMeta; rq_ik := 6%N; rq_ref := 0%N; rq_dry := false; rq_postings := []; rq_unb := false;
     rq_revert := O; rq_target_tx := Some 7%nat; rq_meta := 0%N |}.
Example C16_read_failed_savemeta_nonvacuous :
  exists s1 s2 s3 s sn sd,
    run init (firstn 13 c16_cancel_prefix ++ [AStart 3%nat c16_sm_req; AResume 3%nat]) = Some s1 /\
    find_tx (persisted s1) 7%nat = None /\
    option_map t_pc (get_thread (threads s1) 3%nat) = Some (PIkLookup None) /\
    (* the read fails: a pc move, nothing published or written *)
    step s1 (AResumeReadFail 3%nat) = Some s2 /\
    option_map t_pc (get_thread (threads s2) 3%nat) = Some PAppendEnter /\
    published s2 = published s1 /\ persisted s2 = persisted s1 /\
    (* the entry is built, handed to the batcher and persisted: still no event *)
    run s2 (repeat (AResume 3%nat) 3 ++ [APersistOk]) = Some s3 /\
    map (fun e => (e_kind e, e_owner e, e_txid e, e_ik e)) (persisted s3) =
      [(KCreate, 0%nat, Some 0%nat, 0%N); (KSaveMeta, 3%nat, None, 5%N)] /\
    published s3 = published s1 /\
    (* then it is acknowledged and publishes *)
    run s3 (repeat (AResume 3%nat) 2) = Some s /\
    option_map t_resp (get_thread (threads s) 3%nat) = Some (Some (ROk None)) /\
    map (fun ev => (ev_tid ev, ev_kind ev, ev_txid ev, ev_persisted ev)) (published s) =
      [(0%nat, KCreate, Some 0%nat, 1%nat); (3%nat, KSaveMeta, None, 2%nat)] /\
    persisted s = persisted s3 /\ find_tx (persisted s) 7%nat = None /\
    eap_b s = true /\
    (* the same request when the read does not fail: not found, nothing written, no event *)
    run s1 [AResume 3%nat] = Some sn /\
    option_map t_resp (get_thread (threads sn) 3%nat) = Some (Some (RErr ENotFound)) /\
    length (persisted sn) = 1%nat /\ map ev_tid (published sn) = [0%nat] /\
    (* DeleteMetadata maps every error of the read to its not-found answer *)
    run init (firstn 13 c16_cancel_prefix ++ [AStart 3%nat c16_dm_req; AResume 3%nat; AResumeReadFail 3%nat]) = Some sd /\
    option_map t_resp (get_thread (threads sd) 3%nat) = Some (Some (RErr ENotFound)) /\
    length (persisted sd) = 1%nat /\ map ev_tid (published sd) = [0%nat].
Proof.
  do 6 eexists. repeat (split; [vm_compute; reflexivity|]). vm_compute; reflexivity.
Qed.

(* ---- graceful shutdown of the commander (AClose / ACloseOk) ------------------------------------------------------ *)
(* a close publishes nothing, from any state: whether the batch inside the store call is written (ACloseOk) or not
   (AClose), nobody is acknowledged and the monitor is not called *)
Theorem C16_close_publishes_nothing : forall s a s', a = AClose \/ a = ACloseOk -> step s a = Some s' ->
  published s' = published s.
Proof. exact e3_close_publishes_nothing. Qed.
Print Assumptions C16_close_publishes_nothing.

(* no event is owned by the request of an entry the close drops from the batcher's queue: in any reachable state,
   after the close (the owner of a queued entry has not finished -- a clause of the E2 invariant, [E2Inv.b_own] --
   while the publisher of every event has, C16_event_publisher_succeeded) *)
Theorem C16_no_event_for_dropped_entry : forall s a s', a = AClose \/ a = ACloseOk -> reachable s ->
  step s a = Some s' -> forall e, In e (v_pending s) -> forall ev, In ev (published s') -> ev_tid ev <> e_owner e.
Proof. exact e3_no_event_for_dropped_entry. Qed.
Print Assumptions C16_no_event_for_dropped_entry.

(* the same for the entries of the batch inside the store call: written by ACloseOk or not, their requests are not
   acknowledged by the close and own no event *)
Theorem C16_close_no_event_for_inflight : forall s a s', a = AClose \/ a = ACloseOk -> reachable s ->
  step s a = Some s' ->
  forall e, In e (v_pending s) \/ (exists b, v_batch s = Some b /\ In e b) ->
  forall ev, In ev (published s') -> ev_tid ev <> e_owner e.
Proof. exact e3_close_no_event_for_inflight. Qed.
Print Assumptions C16_close_no_event_for_inflight.

(* non-vacuity. Requests 1 and 2 (creates on disjoint accounts) both reach [PWait]: the entry of 1 is the batch inside
   the store call, the entry of 2 is queued behind it. ACloseOk: the entry of 1 is on disk, the entry of 2 is nowhere,
   nothing was published, both requests end [RCrashed] (never acknowledged); [events_after_persist] holds of the final
   state (C16_after_persist; its executable necessary condition [eap_b] is computed). AClose from the same state:
   nothing on disk, nothing published, both [RCrashed]. *)
Definition c16_close_prefix : list action :=
  AStart 1%nat (mk_create 0 0 false [(world, 5%N, 10%Z)]) :: repeat (AResume 1%nat) 8 ++
  AStart 2%nat (mk_create 0 0 false [(world, 6%N, 10%Z)]) :: repeat (AResume 2%nat) 8.
Example C16_close_example :
  exists s1 s s',
    run init c16_close_prefix = Some s1 /\
    option_map (map e_owner) (v_batch s1) = Some [1%nat] /\ map e_owner (v_pending s1) = [2%nat] /\
    map (fun p => (fst p, t_pc (snd p), t_resp (snd p))) (threads s1) = [(1%nat, PWait, None); (2%nat, PWait, None)] /\
    persisted s1 = [] /\ published s1 = [] /\
    step s1 ACloseOk = Some s /\
    map e_owner (persisted s) = [1%nat] /\ v_batch s = None /\ v_pending s = [] /\ published s = [] /\
    map (fun p => (fst p, t_pc (snd p), t_resp (snd p))) (threads s) =
      [(1%nat, PFinished, Some RCrashed); (2%nat, PFinished, Some RCrashed)] /\
    eap_b s = true /\
    step s1 AClose = Some s' /\
    persisted s' = [] /\ v_batch s' = None /\ v_pending s' = [] /\ published s' = [] /\
    map (fun p => (fst p, t_pc (snd p), t_resp (snd p))) (threads s') =
      [(1%nat, PFinished, Some RCrashed); (2%nat, PFinished, Some RCrashed)].
Proof.
  do 3 eexists. repeat (split; [vm_compute; reflexivity|]). vm_compute; reflexivity.
Qed.

(* the same after a committed request: request 0 has completed and published its event before 1 and 2 start; the
   close leaves exactly that event ([eap_b] is then not trivially true), none of request 1 (entry written by the
   close) nor of request 2 (entry dropped) *)
Example C16_close_example_after_commit :
  exists s1 s,
    run init ((AStart 0%nat (mk_create 0 0 false [(world, 4%N, 10%Z)]) :: repeat (AResume 0%nat) 8 ++
               APersistOk :: repeat (AResume 0%nat) 3) ++ c16_close_prefix) = Some s1 /\
    option_map (map e_owner) (v_batch s1) = Some [1%nat] /\ map e_owner (v_pending s1) = [2%nat] /\
    step s1 ACloseOk = Some s /\
    map e_owner (persisted s) = [0%nat; 1%nat] /\ map ev_tid (published s) = [0%nat] /\ published s = published s1 /\
    map (fun p => (fst p, t_pc (snd p), t_resp (snd p))) (threads s) =
      [(0%nat, PFinished, Some (ROk (Some 0%nat))); (1%nat, PFinished, Some RCrashed); (2%nat, PFinished, Some RCrashed)] /\
    eap_b s = true.
Proof.
  do 2 eexists. repeat (split; [vm_compute; reflexivity|]). vm_compute; reflexivity.
Qed.

(* ---- non-vacuity: two creates (the second under key 8), a revert of the first under key 7, the second create
   replayed under key 8 (same request: answered again and published again), a metadata write and a preview; five
   events, each matched by an entry that was on disk ([eap_b]) ----------------------------------------------------- *)
Definition c16_history : list (tid * request) :=
  [ (1%nat, mk_create 0 0 false [(world, 5%N, 10%Z)]);
    (2%nat, mk_create 8 9 false [(world, 6%N, 10%Z)]);
    (3%nat, mk_revert 7 false 0%nat);
    (4%nat, mk_create 8 9 false [(world, 6%N, 10%Z)]);
    (5%nat, mk_meta 0 false (Some 1%nat));
    (6%nat, mk_create 0 0 true [(world, 6%N, 1%Z)]) ].
Definition c16_acts : list action := Eval vm_compute in submit_all_acts init c16_history.
Example C16_nonvacuous :
  exists s, run init c16_acts = Some s /\ length (persisted s) = 4%nat /\
    map (fun ev => (ev_tid ev, ev_txid ev, ev_reverted ev, ev_persisted ev)) (published s) =
      [ (1, Some 0, None, 1); (2, Some 1, None, 2); (3, Some 2, Some 0, 3); (4, Some 1, None, 3);
        (5, None, None, 4) ]%nat /\
    eap_b s = true.
Proof. eexists. split; [vm_compute; reflexivity|]. vm_compute. repeat split. Qed.

(* ---- key reuse is refused (the schedules that refuted the full statement before the repair of
   executionContext.run) ------------------------------------------------------------------------------------------ *)
(* (a) a key reused by a revert of ANOTHER transaction. Thread 4 asks to revert transaction 1 with the key 7 under
   which thread 3 reverted transaction 0. It takes the revert reservation for 1, finds transaction 1 not reverted,
   takes key 7 and finds thread 3's entry under it ([PIkLookup (Some e)], a revert of transaction 0 with id 2): that
   entry is not the outcome of this request, the request is refused with [EKeyReused]; the refusing step publishes
   nothing and writes nothing; transaction 1 is not reverted, key and revert reservation are released. (Before: it
   was answered "done, by transaction 2" and an event "transaction 1 reverted by transaction 2" was published.) *)
Definition c16_bad_history : list (tid * request) :=
  [ (1%nat, mk_create 0 0 false [(world, 5%N, 10%Z)]);
    (2%nat, mk_create 0 0 false [(world, 6%N, 10%Z)]);
    (3%nat, mk_revert 7 false 0%nat);
    (4%nat, mk_revert 7 false 1%nat) ].
Definition c16_bad_acts : list action := Eval vm_compute in submit_all_acts init c16_bad_history.
Definition c16_lookup_of (s : state) (t : tid) : option (kind * option nat * option nat * N) :=
  match get_thread (threads s) t with
  | Some th => match t_pc th with
               | PIkLookup (Some e) => Some (e_kind e, e_txid e, e_reverts e, e_ik e)
               | _ => None
               end
  | None => None
  end.
Example C16_key_reused_revert_refused :
  exists s1 s,
    run init (removelast c16_bad_acts) = Some s1 /\ last c16_bad_acts APersistOk = AResume 4%nat /\
    c16_lookup_of s1 4%nat = Some (KRevert, Some 2%nat, Some 0%nat, 7%N) /\
    step s1 (AResume 4%nat) = Some s /\ run init c16_bad_acts = Some s /\
    option_map t_resp (get_thread (threads s) 4%nat) = Some (Some (RErr EKeyReused)) /\
    published s = published s1 /\ persisted s = persisted s1 /\
    map (fun ev => (ev_tid ev, ev_kind ev, ev_txid ev, ev_reverted ev)) (published s) =
      [(1, KCreate, Some 0, None); (2, KCreate, Some 1, None); (3, KRevert, Some 2, Some 0)]%nat /\
    map (fun e => (e_kind e, e_txid e, e_reverts e)) (persisted s) =
      [(KCreate, Some 0, None); (KCreate, Some 1, None); (KRevert, Some 2, Some 0)]%nat /\
    is_reverted (persisted s) 1%nat = false /\ is_reverted (persisted s) 0%nat = true /\
    v_iks s = [] /\ v_revs s = [] /\ v_pending s = [] /\ v_batch s = None /\ eap_b s = true.
Proof.
  eexists. eexists. repeat (split; [vm_compute; reflexivity|]). vm_compute; reflexivity.
Qed.

(* (b) a key that stored a transaction reused by a metadata write. Thread 2 saves metadata (resp. deletes metadata)
   under the key 7 of thread 1's transaction: refused with [EKeyReused], no event, nothing written. (Before: SaveMeta /
   DeleteMetadata did not look at the stored entry, answered success and published although no metadata entry
   existed -- the former finding ik-reuse-across-kinds.) *)
Definition c16_cross_history : list (tid * request) :=
  [ (1%nat, mk_create 7 0 false [(world, 5%N, 10%Z)]);
    (2%nat, mk_meta 7 false None) ].
Definition c16_cross_acts : list action := Eval vm_compute in submit_all_acts init c16_cross_history.
Definition c16_del7_req : request :=
  {| rq_kind := KDelMeta; rq_ik := 7%N; rq_ref := 0%N; rq_dry := false; rq_postings := []; rq_unb := false;
     rq_revert := O; rq_target_tx := None; rq_meta := 0%N |}.
Definition c16_cross_del_history : list (tid * request) :=
  [ (1%nat, mk_create 7 0 false [(world, 5%N, 10%Z)]);
    (2%nat, c16_del7_req) ].
Definition c16_cross_del_acts : list action := Eval vm_compute in submit_all_acts init c16_cross_del_history.
Example C16_key_reused_cross_kind_refused :
  exists s1 s s1' s',
    (* SaveMeta *)
    run init (removelast c16_cross_acts) = Some s1 /\ last c16_cross_acts APersistOk = AResume 2%nat /\
    c16_lookup_of s1 2%nat = Some (KCreate, Some 0%nat, None, 7%N) /\
    step s1 (AResume 2%nat) = Some s /\ run init c16_cross_acts = Some s /\
    option_map t_resp (get_thread (threads s) 2%nat) = Some (Some (RErr EKeyReused)) /\
    published s = published s1 /\ persisted s = persisted s1 /\
    map e_kind (persisted s) = [KCreate] /\
    map (fun ev => (ev_tid ev, ev_kind ev, ev_txid ev)) (published s) = [(1%nat, KCreate, Some 0%nat)] /\
    v_iks s = [] /\ v_pending s = [] /\ v_batch s = None /\ eap_b s = true /\
    (* DeleteMetadata *)
    run init (removelast c16_cross_del_acts) = Some s1' /\ last c16_cross_del_acts APersistOk = AResume 2%nat /\
    c16_lookup_of s1' 2%nat = Some (KCreate, Some 0%nat, None, 7%N) /\
    step s1' (AResume 2%nat) = Some s' /\ run init c16_cross_del_acts = Some s' /\
    option_map t_resp (get_thread (threads s') 2%nat) = Some (Some (RErr EKeyReused)) /\
    published s' = published s1' /\ persisted s' = persisted s1' /\
    map e_kind (persisted s') = [KCreate] /\
    map (fun ev => (ev_tid ev, ev_kind ev, ev_txid ev)) (published s') = [(1%nat, KCreate, Some 0%nat)] /\
    v_iks s' = [] /\ v_pending s' = [] /\ v_batch s' = None /\ eap_b s' = true.
Proof.
  do 4 eexists. repeat (split; [vm_compute; reflexivity|]). vm_compute; reflexivity.
Qed.

(* (c) the replay branch is still taken by the SAME request: a metadata write (key 5, target and content "1")
   persisted by thread 1 is answered again, and published again, for thread 2 repeating it; thread 3 reuses the key
   for another content ("2"): refused. One metadata entry on disk, two events, both matched by it. *)
Definition c16_meta_req (m : N) : request :=
  {| rq_kind := KSaveMeta; rq_ik := 5%N; rq_ref := 0%N; rq_dry := false; rq_postings := []; rq_unb := false;
     rq_revert := O; rq_target_tx := None; rq_meta := m |}.
Definition c16_meta_acts : list action :=
  Eval vm_compute in submit_all_acts init [(1%nat, c16_meta_req 1); (2%nat, c16_meta_req 1); (3%nat, c16_meta_req 2)].
Example C16_key_replayed_same_request :
  exists s, run init c16_meta_acts = Some s /\
    map (fun e => (e_kind e, e_owner e, e_ik e, e_meta e)) (persisted s) = [(KSaveMeta, 1%nat, 5%N, 1%N)] /\
    option_map t_resp (get_thread (threads s) 2%nat) = Some (Some (ROk None)) /\
    option_map t_resp (get_thread (threads s) 3%nat) = Some (Some (RErr EKeyReused)) /\
    map (fun ev => (ev_tid ev, ev_kind ev, ev_txid ev, ev_persisted ev)) (published s) =
      [(1%nat, KSaveMeta, None, 1%nat); (2%nat, KSaveMeta, None, 1%nat)] /\
    eap_b s = true.
Proof. eexists. repeat (split; [vm_compute; reflexivity|]). vm_compute; reflexivity. Qed.

(* ---- before the repair bbc4775 ("a dry run must not publish events"): with the variant [resume_prepub], which
   calls the monitor whatever DryRun says, a single preview publishes an event for which nothing is on disk.
   (The other C16 defect, the two transactions of the RevertedTransaction event passed in the wrong order, fix
   5a71882, is not expressible with this event record -- it has one field per role, not an argument order -- and is
   covered by the harness oracle on the real monitor payload.) ----------------------------------------------- *)
Example C16_refuted_before_fix :
  exists s, run_with resume_prepub init
              (AStart 1%nat (mk_create 0 0 true [(world, 5%N, 10%Z)]) :: repeat (AResume 1%nat) 8) = Some s /\
    persisted s = [] /\ length (published s) = 1%nat /\ ~ no_event_for_preview s /\ ~ events_after_persist s.
Proof.
  eexists. split; [vm_compute; reflexivity|]. split; [reflexivity|]. split; [reflexivity|]. split.
  - apply preview_event_b_sound. vm_compute. reflexivity.
  - intros H. apply eap_b_sound in H. vm_compute in H. discriminate H.
Qed.
(* the same history on the repaired model publishes nothing *)
Example C16_fixed_same_history :
  exists s, run init (AStart 1%nat (mk_create 0 0 true [(world, 5%N, 10%Z)]) :: repeat (AResume 1%nat) 8) = Some s /\
    published s = [].
Proof. eexists. split; vm_compute; reflexivity. Qed.
