(* C17 — Following cursors enumerates each item exactly once.
   Only the property theorems live here; each is closed by [exact <lemma>] and followed by Print Assumptions.
   Model: Paginate/Model.v (UsingColumn = [page] over [fetch], UsingOffset = [page_off], cursor codec = [enc_*]/[dec_*],
   GetPageSize = [get_page_size], what a ledger's listing ranges over = [ranged]). *)
From Coq Require Import List ZArith NArith String Sorted.
From FL Require Import Paginate.Model Paginate.Proofs.
Import ListNotations.
Local Open Scope string_scope.
Local Open Scope list_scope.
Local Open Scope nat_scope.

(* walk: for every table whose sort keys are pairwise distinct, every page size n >= 1, both orders, every filter
   payload: the pages obtained from the first page by following `next` (any number of requests above the number
   of rows is enough: the walk stops by itself) concatenate to the collection in the listing's order; hasMore is
   true exactly on the pages that are not the last; every page but the last has exactly n items; no page has more
   than n items and, unless the collection is empty, no page is empty. *)
Theorem C17_walk : forall rows o n col opts fuel, NoDup rows -> 1 <= n -> List.length rows < fuel ->
  let ps := walk rows fuel (first_query n o col opts) in
  List.concat (map k_data ps) = sort o rows /\
  ps <> [] /\
  (forall k c, nth_error ps k = Some c -> (k_has_more c = true <-> S k < List.length ps)) /\
  (forall k c, nth_error ps k = Some c -> S k < List.length ps -> List.length (k_data c) = n) /\
  (forall k c, nth_error ps k = Some c -> List.length (k_data c) <= n /\ (rows <> [] -> k_data c <> [])).
Proof. exact col_walk. Qed.
Print Assumptions C17_walk.

(* the same, said as "each item exactly once, in order" *)
Theorem C17_exactly_once : forall rows o n col opts fuel, NoDup rows -> 1 <= n -> List.length rows < fuel ->
  let items := List.concat (map k_data (walk rows fuel (first_query n o col opts))) in
  NoDup items /\ (forall x, In x items <-> In x rows) /\ StronglySorted (fun a b => olt o a b = true) items.
Proof. exact col_exactly_once. Qed.
Print Assumptions C17_exactly_once.

(* previous: from page k of the walk, j steps along `previous` (1 <= j <= k) show the items of page k-j; after k
   steps there is no `previous` any more; one step back and one step along `next` is page k itself. *)
Theorem C17_previous : forall rows o n col opts fuel, NoDup rows -> 1 <= n -> List.length rows < fuel ->
  let ps := walk rows fuel (first_query n o col opts) in
  forall k c, nth_error ps k = Some c ->
    (forall j cj, 1 <= j -> j <= k -> nth_error ps (k - j) = Some cj ->
       exists c', back rows j c = Some c' /\ k_data c' = k_data cj) /\
    back rows (S k) c = None /\
    (1 <= k -> exists cp, prev_page rows c = Some cp /\ next_page rows cp = Some c).
Proof. exact col_previous. Qed.
Print Assumptions C17_previous.

(* offset pagination: [rows] is the result of the caller's query in the caller's (deterministic) order *)
Theorem C17_offset_walk : forall rows o n opts fuel, 1 <= n -> List.length rows < fuel ->
  let ps := walk_off rows fuel (first_offq n o opts) in
  List.concat (map ok_data ps) = rows /\
  ps <> [] /\
  (forall k c, nth_error ps k = Some c -> (ok_has_more c = true <-> S k < List.length ps)) /\
  (forall k c, nth_error ps k = Some c -> S k < List.length ps -> List.length (ok_data c) = n).
Proof. exact off_walk. Qed.
Print Assumptions C17_offset_walk.

Theorem C17_offset_previous : forall rows o n opts fuel, 1 <= n -> List.length rows < fuel ->
  let ps := walk_off rows fuel (first_offq n o opts) in
  (forall c, nth_error ps 0 = Some c -> prev_page_off rows c = None) /\
  (forall k c, nth_error ps (S k) = Some c ->
     exists cp, nth_error ps k = Some cp /\ prev_page_off rows c = Some cp).
Proof. exact off_previous. Qed.
Print Assumptions C17_offset_previous.

(* every cursor decodes to the query it encodes, filter expression included *)
Theorem C17_cursor_roundtrip : forall q, dec_colq (enc_colq q) = Some q.
Proof. exact colq_roundtrip. Qed.
Print Assumptions C17_cursor_roundtrip.
Theorem C17_cursor_roundtrip_offset : forall q, dec_offq (enc_offq q) = Some q.
Proof. exact offq_roundtrip. Qed.
Print Assumptions C17_cursor_roundtrip_offset.

(* glue 1: whatever pageSize parameter is sent, the page size handed to the store is at least 1 (hypothesis of C17_walk) *)
Theorem C17_page_size_positive : forall dflt max p s, (1 <= dflt)%N -> (1 <= max)%N ->
  get_page_size dflt max p = Some s -> (1 <= s /\ (s <= max \/ s = dflt))%N.
Proof. exact page_size_positive. Qed.
Print Assumptions C17_page_size_positive.

(* glue 2: a listing restricted to its ledger ranges over distinct keys (unique index (ledger, id)), so the walk
   enumerates exactly the rows of that ledger, once each, in order *)
Theorem C17_listing_restricted : forall t l o n col opts fuel, NoDup (map lrow_key t) -> 1 <= n -> List.length t < fuel ->
  let items := List.concat (map k_data (walk (ranged true l t) fuel (first_query n o col opts))) in
  NoDup items /\ (forall x, In x items <-> In {| lr_ledger := l; lr_id := x |} t) /\
  StronglySorted (fun a b => olt o a b = true) items.
Proof. exact listing_restricted. Qed.
Print Assumptions C17_listing_restricted.

(* ---- non-vacuity --------------------------------------------------------------------------------------------- *)
Definition ex_filter : qexpr :=
  QSet SAnd [QKV OpMatch "reference" (JStr "abc"); QNot (QKV OpGte "timestamp" (JStr "2023-01-01T00:00:00Z"));
             QSet SOr []; QKV OpLt "metadata[n]" (JArr [JNum 3; JNull; JObj [("k", JBool true)]])].
Definition ex_opts : qopts :=
  {| qo_qb := Some ex_filter; qo_psize := 3;
     qo_options := Some {| po_pit := Some "2023-05-06T07:08:09.000123Z"%string; po_volumes := true; po_evolumes := false |} |}.

Example C17_example_walk :
  let rows := [3; 0; 6; 1; 5; 2; 4]%Z in
  let ps := walk rows 8 (first_query 3 Desc "id" ex_opts) in
  NoDup rows /\
  map k_data ps = [[6; 5; 4]; [3; 2; 1]; [0]]%Z /\ map k_has_more ps = [true; true; false] /\
  (exists c2 c1 c0, nth_error ps 2 = Some c2 /\ back rows 1 c2 = Some c1 /\ k_data c1 = [3; 2; 1]%Z /\
                    back rows 2 c2 = Some c0 /\ k_data c0 = [6; 5; 4]%Z /\ back rows 3 c2 = None) /\
  Forall (fun c => option_map (fun q => qo_qb (c_opts q)) (k_next c) = option_map (fun _ => Some ex_filter) (k_next c)) ps.
Proof.
  vm_compute. repeat split.
  - repeat constructor; simpl; intuition discriminate.
  - eexists _, _, _. repeat split.
  - repeat constructor.
Qed.

Example C17_example_offset :
  let rows := [10; 11; 12; 13; 14]%Z in
  map ok_data (walk_off rows 6 (first_offq 2 Asc ex_opts)) = [[10; 11]; [12; 13]; [14]]%Z.
Proof. reflexivity. Qed.

Example C17_example_codec :
  dec_colq (enc_colq {| c_size := 3; c_bottom := Some 6%Z; c_column := "id"; c_pid := Some 3%Z; c_order := Desc;
                        c_opts := ex_opts; c_reverse := true |}) <> None /\
  field "qb" (match field "filters" (match enc_colq (first_query 3 Desc "id" ex_opts) with JObj fs => fs | _ => [] end) with
              | Some (JObj fs) => fs | _ => [] end) = Some (enc_qexpr ex_filter).
Proof. vm_compute. split; [discriminate | reflexivity]. Qed.

(* ---- the hypotheses are forced, and what the tree did before the repairs ------------------------------------------ *)

(* n = 0: every page is empty, hasMore is true, `next` is the cursor one came with: the walk never ends.
   (reached through ?pageSize=0 before "fix: pageSize=0 means the default page size") *)
Theorem C17_walk_refuted_size0 : exists rows o, NoDup rows /\
  forall fuel, let ps := walk rows fuel (first_query 0 o "id" no_opts) in
    List.length ps = fuel /\ Forall (fun c => k_data c = [] /\ k_has_more c = true) ps.
Proof.
  exists [1%Z], Desc. split; [repeat constructor; simpl; tauto|]. exact size0_endless.
Qed.

(* duplicate sort keys: the inclusive bound serves the boundary key again, items are repeated *)
Theorem C17_walk_refuted_duplicates : exists rows n o, 1 <= n /\
  let items := List.concat (map k_data (walk rows (S (List.length rows)) (first_query n o "id" no_opts))) in
  items = [5; 5; 4; 4; 4; 3; 3; 3]%Z /\ items <> sort o rows.
Proof.
  exists [5; 5; 4; 4; 3; 3]%Z, 3, Desc. vm_compute. split; [auto|]. split; [reflexivity | discriminate].
Qed.

(* before "fix: logs listing restricted to its ledger": two ledgers in one bucket, the listing of ledger 1 ranged
   over both; it shows foreign items and repeats items although (ledger, id) is unique *)
Theorem C17_listing_refuted_before_fix : exists t l n o, NoDup (map lrow_key t) /\ 1 <= n /\
  let items := List.concat (map k_data (walk (ranged false l t) (S (List.length t)) (first_query n o "id" no_opts))) in
  items = [2; 2; 1; 1; 1; 0; 0; 0]%Z /\ sort o (ranged true l t) = [2; 1; 0]%Z.
Proof.
  exists [ {| lr_ledger := 1; lr_id := 0 |}; {| lr_ledger := 2; lr_id := 0 |}; {| lr_ledger := 1; lr_id := 1 |};
           {| lr_ledger := 2; lr_id := 1 |}; {| lr_ledger := 1; lr_id := 2 |}; {| lr_ledger := 2; lr_id := 2 |} ]%Z,
         1%N, 3, Desc.
  split; [|split; [auto | vm_compute; split; reflexivity]].
  vm_compute. repeat constructor; simpl; intuition discriminate.
Qed.

(* before "fix: cursors carry their filter": whatever the filter, the cursor handed out could not be decoded *)
Theorem C17_cursor_filter_lost_before_fix : forall q e, qo_qb (c_opts q) = Some e ->
  dec_colq_legacy (enc_colq_legacy q) = None.
Proof. exact colq_legacy_filter_lost. Qed.
Theorem C17_cursor_roundtrip_refuted_before_fix : exists q, dec_colq_legacy (enc_colq_legacy q) <> Some q.
Proof.
  exists (first_query 15 Desc "id" {| qo_qb := Some (QKV OpMatch "reference" (JStr "abc")); qo_psize := 15; qo_options := None |}).
  vm_compute. discriminate.
Qed.

(* before "fix: pageSize=0": zero reached the store *)
Theorem C17_page_size_refuted_before_fix : get_page_size_legacy 15 100 (PNum 0) = Some 0%N.
Proof. reflexivity. Qed.
