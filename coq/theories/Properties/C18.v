(* C18 — Bulk requests run in order, answer position by position, stop at a failure.
   Only the property theorems live here; each is closed by [exact <lemma>] and followed by Print Assumptions. *)
From FL Require Import Bulk.Model Bulk.Proofs.

(* order: the backend calls are those of the processed elements (a prefix of the request), in request order,
   each with the element's own idempotency key (calls_spec builds [mkcall i e], whose key is [e_ik e]) *)
Theorem C18_order : forall cont els,
  let o := process cont 0 els in
  calls o = calls_spec 0 (firstn (nproc cont els) els) /\ increasing (map c_idx (calls o)).
Proof. exact bulk_order. Qed.
Print Assumptions C18_order.

(* positions: exactly one result per processed element, at the element's position, and it is that element's result *)
Theorem C18_positions : forall cont els,
  let o := process cont 0 els in
  length (results o) = nproc cont els /\
  forall k e, k < nproc cont els -> nth_error els k = Some e -> nth_error (results o) k = Some (result_for k e).
Proof. exact bulk_positions. Qed.
Print Assumptions C18_positions.

(* stop: without continue-on-failure nothing after the first failing element is executed ... *)
Theorem C18_stop : forall els,
  let o := process false 0 els in
  forall j ej, nth_error els j = Some ej -> fails ej = true -> forall c, In c (calls o) -> c_idx c <= j.
Proof. exact bulk_stop. Qed.
Print Assumptions C18_stop.

(* ... and with it every element is processed *)
Theorem C18_continue : forall els, nproc true els = length els.
Proof. exact bulk_continue. Qed.
Print Assumptions C18_continue.

(* flag: the response signals failure exactly when some processed element failed *)
Theorem C18_flag : forall cont els,
  let o := process cont 0 els in
  (http_status o = 400 <-> exists k e, k < nproc cont els /\ nth_error els k = Some e /\ fails e = true) /\
  (http_status o = 200 \/ http_status o = 400).
Proof. exact bulk_flag. Qed.
Print Assumptions C18_flag.

(* non-vacuity: a request that exercises every branch *)
Example C18_example :
  let els := [ {| e_act := ACreate; e_ik := 1%N; e_data := DOk; e_out := OSucc |};
               {| e_act := AUnknown; e_ik := 0%N; e_data := DOk; e_out := OSucc |};
               {| e_act := AAddMeta; e_ik := 2%N; e_data := DOk; e_out := ONotFound |};
               {| e_act := ARevert; e_ik := 0%N; e_data := DOk; e_out := OSucc |} ] in
  nproc false els = 2 /\ nproc true els = 4 /\
  map c_idx (calls (process true 0 els)) = [0; 2; 3] /\ http_status (process true 0 els) = 400.
Proof. vm_compute. auto. Qed.

(* the tree before the repair ("fix: bulk ..."): an unknown action shifts the positions and signals nothing;
   undecodable data drops the results of elements that were executed. Kept as the replayable witnesses. *)
Theorem C18_positions_refuted_before_fix :
  exists cont els, let o := l_out (process_legacy cont 0 els {| calls := []; results := []; flag := false |}) in
    length (results o) <> nproc cont els /\ flag o = false /\ existsb fails els = true.
Proof.
  exists true, [ {| e_act := ACreate; e_ik := 0%N; e_data := DOk; e_out := OSucc |};
                 {| e_act := AUnknown; e_ik := 0%N; e_data := DOk; e_out := OSucc |};
                 {| e_act := AAddMeta; e_ik := 0%N; e_data := DOk; e_out := OSucc |} ].
  vm_compute. repeat split; discriminate.
Qed.
Theorem C18_results_dropped_refuted_before_fix :
  exists cont els, let r := process_legacy cont 0 els {| calls := []; results := []; flag := false |} in
    length (calls (l_out r)) = 2 /\ results (l_out r) = [] /\ l_err r = true.
Proof.
  exists true, [ {| e_act := ACreate; e_ik := 0%N; e_data := DOk; e_out := OSucc |};
                 {| e_act := AAddMeta; e_ik := 0%N; e_data := DOk; e_out := OSucc |};
                 {| e_act := ARevert; e_ik := 0%N; e_data := DBad; e_out := OSucc |} ].
  vm_compute. auto.
Qed.
