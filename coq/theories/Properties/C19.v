(* C19 — Read-only mode executes no write.
   Only the property theorems live here; each is closed by [exact <lemma>] (or by computation over the finite,
   regenerated route table) and followed by Print Assumptions.

   [gen_config] is Router/RoutesGen.v, regenerated from the Go source of the working tree on every check:
   the chi route tree of internal/api (router.go, v1/routes.go, v2/routes.go), every handler with the write
   methods of backend.Ledger its body reaches (bulkHandler reaches all four through ProcessBulk), whether
   `if readOnly { mux.Use(ReadOnly) }` stands on the root mux before any route, and the methods the condition of
   ReadOnly (read_only.go) lets through. *)
From FL Require Import Router.Model Router.Proofs Router.RoutesGen.
Local Open Scope string_scope.

(* the middleware is installed on the root mux, under `if readOnly`, before routing *)
Theorem C19_gate_installed : gate_installed gen_config = true.
Proof. vm_compute. reflexivity. Qed.
Print Assumptions C19_gate_installed.

(* (1) the gate: in read-only mode every request whose method is not GET, HEAD or OPTIONS — any string at all —
   is answered by the middleware; nothing is routed *)
Theorem C19_gate : forall req,
  mem (meth req) ["GET"; "HEAD"; "OPTIONS"] = false -> serve gen_config true req = Rejected.
Proof.
  intros req H. apply gate_rejects; [exact C19_gate_installed|].
  unfold gate_pass.
  assert (E : forall s, mem s (gate_allowed gen_config) = mem s ["GET"; "HEAD"; "OPTIONS"]).
  { intro s. unfold mem. set (a := gate_allowed gen_config). vm_compute in a. subst a. cbn [existsb].
    destruct (String.eqb s "GET"), (String.eqb s "HEAD"), (String.eqb s "OPTIONS"); reflexivity. }
  rewrite E. exact H.
Qed.
Print Assumptions C19_gate.

(* (3) the finite table: every endpoint whose handler reaches CreateTransaction, RevertTransaction, SaveMeta,
   DeleteMetadata or ProcessBulk is registered only under methods the gate rejects *)
Theorem C19_table : table_ok gen_config = true.
Proof. vm_compute. reflexivity. Qed.
Print Assumptions C19_table.

(* the property: in read-only mode no request — any method string, any path of any length — reaches a handler
   that can write.  (2), chi's method dispatch, is how [route] is defined: an endpoint is reached only by a request
   of a method it is registered for (Proofs.reached_registered). *)
Theorem C19_no_write : forall req h, serve gen_config true req = Reached h -> is_writer h = false.
Proof. exact (no_write gen_config C19_gate_installed C19_table). Qed.
Print Assumptions C19_no_write.

(* the same for any route tree and any gate: what has to be true of the source for the property to hold *)
Theorem C19_no_write_general : forall cfg,
  gate_installed cfg = true -> table_ok cfg = true ->
  forall req h, serve cfg true req = Reached h -> is_writer h = false.
Proof. exact no_write. Qed.
Print Assumptions C19_no_write_general.

(* read-only mode does nothing else: a request is either rejected or served exactly as without the flag *)
Theorem C19_only_rejects : forall req,
  serve gen_config true req = Rejected \/ serve gen_config true req = serve gen_config false req.
Proof. exact (readonly_only_rejects gen_config). Qed.
Print Assumptions C19_only_rejects.

(* ---- non-vacuity ------------------------------------------------------------------------------------ *)

Definition rq (m : string) (p : list string) : request := {| meth := m; path := p |}.

(* writers exist and are reachable without the flag (bulk among them, with all four kinds), and the same
   requests are rejected with it; reads go through in both modes *)
Example C19_example :
  (exists h, serve gen_config false (rq "POST" ["api"; "ledger"; "v2"; "l0"; "_bulk"]) = Reached h
             /\ h_writes h = [WSaveMeta; WCreate; WDeleteMeta; WRevert])
  /\ serve gen_config true (rq "POST" ["api"; "ledger"; "v2"; "l0"; "_bulk"]) = Rejected
  /\ (exists h, serve gen_config false (rq "POST" ["api"; "ledger"; "l0"; "transactions"; "7"; "revert"]) = Reached h
                /\ is_writer h = true)
  /\ serve gen_config true (rq "DELETE" ["api"; "ledger"; "l0"; "accounts"; "a"; "metadata"; "k"]) = Rejected
  /\ (exists h, serve gen_config true (rq "GET" ["api"; "ledger"; "v2"; "l0"; "transactions"; "7"]) = Reached h
                /\ h_name h = "getTransaction")
  /\ (exists h, serve gen_config true (rq "HEAD" ["api"; "ledger"; "l0"; "accounts"]) = Reached h)
  /\ serve gen_config true (rq "GET" ["api"; "ledger"; "v2"; "l0"; "_bulk"]) = NoHandler
  /\ serve gen_config true (rq "post" ["api"; "ledger"; "l0"; "transactions"]) = Rejected
  /\ serve gen_config false (rq "post" ["api"; "ledger"; "l0"; "transactions"]) = NoHandler
  /\ Nat.leb 1 (List.length (writers (routes gen_config))) = true.
Proof. vm_compute. repeat split; eauto. Qed.

(* a mount commits: under /v2 the v1 routes are not tried ("/api/ledger/v2/transactions/batch" is ledger
   "transactions" of v2, where nothing is registered at /batch), static beats parameter, and a parameter does not
   take the empty string at the end of the path *)
Example C19_dispatch_example :
  serve gen_config false (rq "POST" ["api"; "ledger"; "v2"; "transactions"; "batch"]) = NoHandler
  /\ (exists h, serve gen_config false (rq "POST" ["api"; "ledger"; "l0"; "transactions"; "batch"]) = Reached h
                /\ is_writer h = false)
  /\ (exists h, serve gen_config false (rq "GET" ["api"; "ledger"; "l0"; "transactions"; "batch"]) = Reached h
                /\ h_name h = "getTransaction")
  /\ serve gen_config false (rq "GET" ["api"; "ledger"; "l0"; "accounts"; ""]) = NoHandler
  /\ (exists h, serve gen_config false (rq "GET" ["api"; "ledger"; "v2"]) = Reached h /\ h_name h = "listLedgers(b)").
Proof. vm_compute. repeat split; eauto. Qed.

(* ---- what goes wrong without each ingredient (the shapes the check is shown to catch) ---------------- *)

Definition without_gate (cfg : config) : config :=
  {| routes := routes cfg; gate_installed := false; gate_allowed := gate_allowed cfg |}.
Definition allowing (m : string) (cfg : config) : config :=
  {| routes := routes cfg; gate_installed := gate_installed cfg; gate_allowed := m :: gate_allowed cfg |}.
Definition with_route (n : node) (cfg : config) : config :=
  {| routes := (Mount [Lit "api"; Lit "ledger"] [Mount [] [Mount [Par "ledger"] [n]]]) :: routes cfg;
     gate_installed := gate_installed cfg; gate_allowed := gate_allowed cfg |}.

(* mux.Use(ReadOnly) removed, or installed where it does not cover the mounts *)
Theorem C19_without_gate_refuted : exists req h,
  serve (without_gate gen_config) true req = Reached h /\ is_writer h = true.
Proof.
  exists (rq "POST" ["api"; "ledger"; "v2"; "l0"; "_bulk"]).
  vm_compute. eexists. split; reflexivity.
Qed.

(* POST let through by the condition of read_only.go *)
Theorem C19_post_allowed_refuted :
  table_ok (allowing "POST" gen_config) = false /\
  exists req h, serve (allowing "POST" gen_config) true req = Reached h /\ is_writer h = true.
Proof.
  split; [vm_compute; reflexivity|].
  exists (rq "POST" ["api"; "ledger"; "l0"; "transactions"]).
  vm_compute. eexists. split; reflexivity.
Qed.

(* a writer registered under GET *)
Theorem C19_writer_under_get_refuted :
  let bad := Endpoint ["GET"] [Lit "transactions"; Par "id"; Lit "revert"]
               {| h_name := "revertTransaction"; h_full := "/api/ledger/{ledger}/transactions/{id}/revert";
                  h_writes := [WRevert] |} in
  table_ok (with_route bad gen_config) = false /\
  exists req h, serve (with_route bad gen_config) true req = Reached h /\ is_writer h = true.
Proof.
  split; [vm_compute; reflexivity|].
  exists (rq "GET" ["api"; "ledger"; "l0"; "transactions"; "7"; "revert"]).
  vm_compute. eexists. split; reflexivity.
Qed.
