(* C20 — Filter values are data, never SQL.
   Only the property theorems live here; each is closed by [exact <lemma>] and followed by Print Assumptions.

   Vocabulary (SqlText/Model.v):
   - [leaf L p lg key o v] is the decision table of the query context of listing L: the query text with its '?'
     placeholders and bound arguments ([LOk tp], provenance of every part kept), or an error ([LErr]);
     [build] folds it over a filter tree as libs/query does; [where_sql tp] is what bun writes into the statement;
   - [pieces tp] is the same text split into [Fx] (written by the program) and [Cl] (derived from the client's
     value, after the escaping the code applies); [skel] erases the content of the [Cl] pieces;
   - [scan] is PostgreSQL's quote automaton, [stays_in_literal s]: every character of s is consumed inside the
     literal, which is still open afterwards; [inert f]: f starts and ends in code and every [Cl] piece begins
     inside a literal and stays in it;
   - [blank sql] is the statement with the content of every literal removed, [tokens] the token list of that;
   - [harmless L t] replaces every client string of the filter t by a harmless one of the same shape. *)
From FL Require Import SqlText.Model SqlText.Proofs.
Local Open Scope string_scope.

(* bun's quoting of a bound string argument: for every byte string s the text between the quotes never leaves the
   literal, and the literal is closed by the final quote *)
Theorem C20_bound_arg_inert : forall s,
  stays_in_literal (append_string_body s) /\ scan (append_string s) Code = InLitQ.
Proof. exact (fun s => conj (append_string_inert s) (append_string_scan s)). Qed.
Print Assumptions C20_bound_arg_inert.

(* the same for a bound map / slice argument (metadata filters), written as JSON by encoding/json and quoted by
   bun's AppendJSON, for every JSON value whatever strings it contains *)
Theorem C20_bound_json_arg_inert : forall j, stays_in_literal (append_json_body (json_encode j)).
Proof. exact append_json_inert. Qed.
Print Assumptions C20_bound_json_arg_inert.

(* any bound argument: inert, and what bun writes for it is the concatenation of its pieces *)
Theorem C20_any_bound_arg_inert : forall a,
  (exists q, inert_from (arg_pieces a) Code = Some q /\ codeish q = true) /\ flatten (arg_pieces a) = append_arg a.
Proof. exact (fun a => conj (arg_inert a) (flatten_arg a)). Qed.
Print Assumptions C20_any_bound_arg_inert.

(* one filter leaf, every listing, key, operator and value: either rejected, or all the client's characters are
   consumed inside literals and the text around them is that of the harmless value of the same shape *)
Theorem C20_inert : forall L p lg key o v f,
  render L p lg key o v = ROk f -> inert f /\ skel f = skeleton L p lg key o v.
Proof. exact render_inert. Qed.
Print Assumptions C20_inert.

(* the form for keys whose value lands at one position (reference, timestamp, date, an unsegmented address ...) *)
Theorem C20_inert_single : forall L p lg key o v pre v' post,
  render L p lg key o v = ROk [Fx pre; Cl v'; Fx post] ->
  scan pre Code = InLit /\ stays_in_literal v' /\ skeleton L p lg key o v = [Fx pre; Cl ""; Fx post].
Proof. exact render_single. Qed.
Print Assumptions C20_inert_single.

(* whole filter trees through libs/query Build and bun's formatter: the text bun writes is exactly the
   concatenation of the pieces (its placeholder parser substitutes the intended '?' and nothing else), every client
   character lies in a literal, and in any statement around it the structure equals that of the harmless twin *)
Theorem C20_same_structure : forall L p lg t tp,
  build (leaf L p lg) t = LOk tp ->
  inert (pieces tp) /\ where_sql tp = flatten (pieces tp) /\
  exists tp', build (leaf L p lg) (harmless L t) = LOk tp' /\ skel (pieces tp') = skel (pieces tp) /\
    forall P S, scan P Code = Code -> blank (P +++ where_sql tp +++ S) = blank (P +++ where_sql tp' +++ S).
Proof. exact tree_same_structure. Qed.
Print Assumptions C20_same_structure.

(* token level, for the fragment lexer of the oracle *)
Corollary C20_token_shape : forall L p lg t tp,
  build (leaf L p lg) t = LOk tp ->
  exists tp', build (leaf L p lg) (harmless L t) = LOk tp' /\
    forall P S, scan P Code = Code -> tokens (P +++ where_sql tp +++ S) = tokens (P +++ where_sql tp' +++ S).
Proof. exact token_shape. Qed.
Print Assumptions C20_token_shape.

(* what the repair relies on: a filter accepted by checkAddressFilter consists of [a-zA-Z0-9_:-] only *)
Theorem C20_address_grammar : forall a, valid_filter a = true -> sall addr_char a = true.
Proof. exact valid_addr_chars. Qed.
Print Assumptions C20_address_grammar.

(* ---- non-vacuity ------------------------------------------------------------------------------------ *)
(* a hostile metadata value is accepted and lands, escaped, at one position *)
Example C20_example_metadata :
  render LAccounts PNil "l" "metadata[k]" OMatch (JStr "a' or 1=1 --")
  = ROk [Fx "metadata @> "; Fx "'"; Cl "{""k"":""a'' or 1=1 --""}"; Fx "'"].
Proof. vm_compute. reflexivity. Qed.

(* a hostile reference is accepted in the single-position form of C20_inert_single, NUL dropped, quote doubled *)
Example C20_example_reference :
  render LTransactions PNil "l" "reference" OLt (JStr (String (ascii_of_nat 0) "x'; drop table t;--"))
  = ROk [Fx "reference < "; Fx "'"; Cl "x''; drop table t;--"; Fx "'"].
Proof. vm_compute. reflexivity. Qed.

(* address filters: a pattern with wildcard segments is accepted, a hostile one is rejected *)
Example C20_example_address :
  model_obs LAccounts PNil "l" (QLeaf "address" OMatch (JStr "users::x-1"))
  = ObsSQL "jsonb_array_length(accounts.address_array) = 3 and accounts.address_array @@ ('$[0] == ""users""')::jsonpath and accounts.address_array @@ ('$[2] == ""x-1""')::jsonpath"
  /\ render LAccounts PNil "l" "address" OMatch (JStr "a' or 1=1 --") = Rejected
  /\ render LTransactions PNil "l" "account" OMatch (JStr "x:'); drop table t;--") = Rejected.
Proof. vm_compute. auto. Qed.

(* a tree: the hypotheses of C20_same_structure hold for a filter with hostile values at three kinds of keys *)
Example C20_example_tree :
  let t := QAnd [QLeaf "address" OMatch (JStr "users:"); QNot (QLeaf "metadata[a]b]" OMatch (JStr "?("));
                 QOr [QLeaf "balance[US'D]" OLt (JInt (-5)); QLeaf "balance" OGte (JStr "\?")]] in
  match build (leaf LAccounts PSet "l") t with
  | LErr _ => False
  | LOk tp => blank ("(" +++ where_sql tp +++ ")") =
             "((jsonb_array_length(accounts.address_array) = 2 and accounts.address_array @@ (')::jsonpath) and (not (accounts_metadata.metadata @> ')) and (((
				select balance_from_volumes(post_commit_volumes)
				from moves
				where asset = ' and account_address = accounts.address and ledger = '
				order by seq desc
				limit 1
			) < -5) or ((
				select balance_from_volumes(post_commit_volumes)
				from moves
				where account_address = accounts.address and ledger = '
				order by seq desc
				limit 1
			) < ')))"
  end.
Proof. vm_compute. reflexivity. Qed.

(* ---- the tree before the repairs (kept as replayable witnesses) ------------------------------------- *)
(* before "fix: ledgerstore: validate address filters" every string was formatted into the query text:
   the value  a' or 1=1 --  closes the literal, the rest of the statement is commented out, and the structure
   differs from that of the harmless twin *)
Theorem C20_inert_refuted_before_fix :
  exists a tp, addr_leaf_legacy OMatch (JStr a) true (render_address "accounts.address") = LOk tp /\
    valid_filter a = false /\
    scan ("(" +++ where_sql tp +++ ")") Code = LineC /\
    blank ("(" +++ where_sql tp +++ ")")
      <> blank ("(" +++ where_sql (render_address "accounts.address" (harmless_addr a)) +++ ")").
Proof.
  exists "a' or 1=1 --". eexists. split; [reflexivity|]. vm_compute. repeat split; discriminate.
Qed.

Theorem C20_inert_on_transactions_refuted_before_fix :
  exists a tp, addr_leaf_legacy OMatch (JStr a) false (fun a => render_address_on_tx a true true) = LOk tp /\
    blank ("(" +++ where_sql tp +++ ")")
      <> blank ("(" +++ where_sql (render_address_on_tx (harmless_addr a) true true) +++ ")").
Proof.
  exists "x:'); drop table t;--". eexists. split; [reflexivity|]. vm_compute. discriminate.
Qed.

(* before "fix: ledgerstore: count over the sub query, not over its text" the count queries handed the already
   formatted statement to bun a second time: bun's placeholder parser then rewrites  ?(  inside a value and removes
   a parenthesis of the statement *)
Theorem C20_count_reparse_refuted_before_fix :
  exists v tp, leaf LTransactions PNil "l" "reference" OMatch (JStr v) = LOk tp /\
    let inner := "(" +++ where_sql tp +++ ")" in
    bun_format inner [] = "(reference = 'x?'" /\ blank (bun_format inner []) <> blank inner.
Proof.
  exists "x?(". eexists. split; [reflexivity|]. vm_compute. split; [reflexivity|discriminate].
Qed.
