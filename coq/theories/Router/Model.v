(* M7 — model of the HTTP front: internal/api/read_only.go (the ReadOnly middleware), internal/api/router.go
   (where it is installed) and chi's dispatch over the route tree registered by router.go, v1/routes.go,
   v2/routes.go. Definitions only; proofs are in Router/Proofs.v, the property theorems in Properties/C19.v.

   The route tree itself is not written here: Router/RoutesGen.v is regenerated from the Go source on every
   check (harness/cmd/routes2coq) and defines [gen_config : config].

   A request is its method and its path split at "/" ("/a/b" = ["a";"b"], "/a/" = ["a";""], "/" = [""]).
   Headers, query string and body are absent on purpose: neither the gate nor chi look at them (the
   correspondence check sends them and expects the same outcome). *)
From Coq Require Export List Bool Arith String.
Export ListNotations.

(* one "/"-separated piece of a pattern: static text or {name} *)
Inductive seg := Lit (s : string) | Par (name : string).

(* the write methods of backend.Ledger *)
Inductive wkind := WCreate | WRevert | WSaveMeta | WDeleteMeta.

(* what is registered at an endpoint: the handler expression, the full pattern from the root (this is the
   identity the correspondence check compares with chi's RoutePatterns), and the writes its body can reach *)
Record handler := { h_name : string; h_full : string; h_writes : list wkind }.

Definition is_writer (h : handler) : bool := match h_writes h with [] => false | _ => true end.

(* a chi mux is a list of nodes: endpoints (registered for some methods) and mounts (Route/Mount: any method) *)
Inductive node :=
| Endpoint (ms : list string) (pat : list seg) (h : handler)
| Mount (pat : list seg) (sub : list node).

Record config := {
  routes : list node;            (* the root mux *)
  gate_installed : bool;         (* `if readOnly { mux.Use(ReadOnly) }` on the root mux, before any route *)
  gate_allowed : list string     (* the methods the condition of ReadOnly lets through *)
}.

Record request := { meth : string; path : list string }.

Inductive outcome :=
| Rejected                (* answered by ReadOnly: 400 READ_ONLY, nothing routed *)
| NoHandler               (* chi's 404 / 405 *)
| Reached (h : handler).  (* the endpoint whose handler is invoked (through the routers' middlewares) *)

Definition mem (s : string) (l : list string) : bool := existsb (String.eqb s) l.

(* the methods chi v5 routes at all (tree.go methodMap); any other is answered 405 by the root mux *)
Definition chi_methods : list string :=
  ["CONNECT"; "DELETE"; "GET"; "HEAD"; "OPTIONS"; "PATCH"; "POST"; "PUT"; "TRACE"]%string.

(* ---- matching ------------------------------------------------------------------------------------ *)

(* a parameter takes one whole segment; chi refuses the empty value only at the very end of the path
   (tree.go findRoute: `if xsearch == "" { continue }`), "//" in the middle gives an empty parameter *)
Definition seg_match (sg : seg) (s : string) (more : bool) : bool :=
  match sg with
  | Lit t => String.eqb t s
  | Par _ => more || negb (String.eqb s EmptyString)
  end.

Definition nonempty {A} (l : list A) : bool := match l with [] => false | _ => true end.

(* pattern against the front of the path: what is left *)
Fixpoint match_prefix (pat : list seg) (p : list string) : option (list string) :=
  match pat, p with
  | [], _ => Some p
  | sg :: pat', s :: p' => if seg_match sg s (nonempty p') then match_prefix pat' p' else None
  | _ :: _, [] => None
  end.

(* chi tries static children before parameters before the catch-all, depth first with backtracking, so among
   the registrations of one mux that match (path and method) the winner is the least in the lexicographic
   order of segment kinds *)
Definition kind (sg : seg) : nat := match sg with Lit _ => 0 | Par _ => 1 end.

Fixpoint key_ltb (a b : list nat) : bool :=
  match a, b with
  | x :: a', y :: b' => if Nat.ltb x y then true else if Nat.ltb y x then false else key_ltb a' b'
  | [], _ :: _ => true
  | _, _ => false
  end.

(* Mount(pat, sub) registers pat, pat/ and pat/* for every method (only /* when pat is "/") *)
Definition rank (n : node) (m : string) (p : list string) : option (list nat) :=
  match n with
  | Endpoint ms pat _ =>
      match match_prefix pat p with
      | Some [] => if mem m ms then Some (map kind pat) else None
      | _ => None
      end
  | Mount pat _ =>
      match match_prefix pat p with
      | Some [] => match pat with [] => None | _ => Some (map kind pat) end
      | Some [s] => match pat with
                    | [] => Some [2]
                    | _ => Some (map kind pat ++ [if String.eqb s EmptyString then 0 else 2])
                    end
      | Some _ => Some (map kind pat ++ [2])
      | None => None
      end
  end.

(* the path the mounted mux routes on: "/" when nothing is left *)
Definition sub_path (rest : list string) : list string := match rest with [] => [EmptyString] | _ => rest end.

Fixpoint pick {A} (best : option (list nat * A)) (l : list (option (list nat) * A)) : option A :=
  match l with
  | [] => match best with Some (_, a) => Some a | None => None end
  | (None, _) :: r => pick best r
  | (Some k, a) :: r =>
      match best with
      | Some (kb, _) => if key_ltb k kb then pick (Some (k, a)) r else pick best r
      | None => pick (Some (k, a)) r
      end
  end.

Definition join {A} (x : option (option A)) : option A := match x with Some y => y | None => None end.

(* what serving (m, p) at node n ends in, given that n was selected. A mount commits: the mounted mux answers
   404/405 itself, chi does not come back to try a sibling. *)
Fixpoint route_node (n : node) (m : string) (p : list string) {struct n} : option handler :=
  match n with
  | Endpoint ms pat h =>
      match rank (Endpoint ms pat h) m p with Some _ => Some h | None => None end
  | Mount pat sub =>
      match match_prefix pat p with
      | Some rest =>
          let p' := sub_path rest in
          join (pick None (map (fun c => (rank c m p', route_node c m p')) sub))
      | None => None
      end
  end.

Definition route (rs : list node) (m : string) (p : list string) : option handler :=
  match p with
  | [] => None                       (* not a path *)
  | _ => route_node (Mount [] rs) m p
  end.

(* ---- the gate and the whole front ---------------------------------------------------------------- *)

(* read_only.go: the request passes iff its method is one of those the condition names *)
Definition gate_pass (cfg : config) (req : request) : bool := mem (meth req) (gate_allowed cfg).

Definition serve (cfg : config) (readonly : bool) (req : request) : outcome :=
  if readonly && gate_installed cfg && negb (gate_pass cfg req) then Rejected
  else if negb (mem (meth req) chi_methods) then NoHandler
  else match route (routes cfg) (meth req) (path req) with
       | Some h => Reached h
       | None => NoHandler
       end.

(* ---- the finite table ---------------------------------------------------------------------------- *)

Fixpoint endpoints_of (n : node) : list (list string * handler) :=
  match n with
  | Endpoint ms _ h => [(ms, h)]
  | Mount _ sub => flat_map endpoints_of sub
  end.

Definition endpoints (rs : list node) : list (list string * handler) := flat_map endpoints_of rs.

(* a registration is mutating-only when the gate lets none of its methods through *)
Definition mutating_only (cfg : config) (ms : list string) : bool :=
  forallb (fun m => negb (mem m (gate_allowed cfg))) ms.

(* every writer is registered under methods the gate rejects *)
Definition table_ok (cfg : config) : bool :=
  forallb (fun e => implb (is_writer (snd e)) (mutating_only cfg (fst e))) (endpoints (routes cfg)).

Definition writers (rs : list node) : list (list string * handler) :=
  filter (fun e => is_writer (snd e)) (endpoints rs).

(* ---- correspondence cases ------------------------------------------------------------------------ *)

(* what the real router did with one request (harness/cmd/obs-router):
   ob_rejected  : the answer is 400 with errorCode READ_ONLY
   ob_nohandler : chi itself answered 404 / 405 (its NotFound / MethodNotAllowed responder ran)
   ob_matched   : the endpoint pattern chi recorded in RoutePatterns (None: routing did not arrive at an endpoint)
   ob_writes    : the write calls the recording backend.Ledger saw *)
Record obs := { ob_status : nat; ob_rejected : bool; ob_nohandler : bool; ob_matched : option string;
                ob_writes : list wkind }.

Definition wkind_eqb (a b : wkind) : bool :=
  match a, b with
  | WCreate, WCreate | WRevert, WRevert | WSaveMeta, WSaveMeta | WDeleteMeta, WDeleteMeta => true
  | _, _ => false
  end.

Definition is_nil {A} (l : list A) : bool := match l with [] => true | _ => false end.

(* (read-only flag, the request is a well-formed call of a registered route, request, observation) *)
Definition case : Type := bool * bool * request * obs.

Definition check_case_with (cfg : config) (c : case) : bool :=
  match c with
  | (ro, wf, req, ob) =>
      match serve cfg ro req with
      | Rejected =>
          ob_rejected ob && negb (ob_nohandler ob) && is_nil (ob_writes ob) && Nat.eqb (ob_status ob) 400
          && match ob_matched ob with None => true | Some _ => false end
      | NoHandler =>
          (* chi's own 404/405 — or, the model having no refusals by the muxes' own middlewares (LedgerMiddleware
             answers 404 for the empty ledger name before the v1 sub-router routes), an answer given on the way;
             in both cases no endpoint *)
          negb (ob_rejected ob) && is_nil (ob_writes ob)
          && (if ob_nohandler ob then Nat.eqb (ob_status ob) 404 || Nat.eqb (ob_status ob) 405 else negb wf)
          && match ob_matched ob with None => true | Some _ => false end
      | Reached h =>
          negb (ob_rejected ob) && negb (ob_nohandler ob)
          && match ob_matched ob with
             | Some f => String.eqb f (h_full h)
             (* refused on the way by a middleware, as above: accepted for requests that are not well formed, when
                chi did not answer 404/405 itself and nothing was written *)
             | None => negb wf && is_nil (ob_writes ob)
             end
          (* only the writes the translator attributes to the handler ... *)
          && forallb (fun k => existsb (wkind_eqb k) (h_writes h)) (ob_writes ob)
          (* ... and, for a well-formed request, a write exactly when it is classified a writer *)
          && (if wf then Bool.eqb (is_writer h) (negb (is_nil (ob_writes ob))) else true)
      end
  end.

(* non-printable request strings are written by the harness as byte lists *)
Fixpoint bytes_to_string (l : list nat) : string :=
  match l with [] => EmptyString | n :: r => String (Ascii.ascii_of_nat n) (bytes_to_string r) end.

Fixpoint bad_cases {A} (chk : A -> bool) (n : nat) (l : list A) : list nat :=
  match l with
  | [] => []
  | c :: r => if chk c then bad_cases chk (S n) r else n :: bad_cases chk (S n) r
  end.
