(* Lemmas about M7 (Router/Model.v). Nothing here depends on the generated route table: every statement is
   about an arbitrary [config]; Properties/C19.v instantiates them with Router/RoutesGen.gen_config. *)
From FL Require Import Router.Model.
Local Open Scope string_scope.

(* ---- induction over route trees (node is nested through list) ------------------------------------- *)

Section NodeInd.
  Variable Pn : node -> Prop.
  Hypothesis HE : forall ms pat h, Pn (Endpoint ms pat h).
  Hypothesis HM : forall pat sub, Forall Pn sub -> Pn (Mount pat sub).

  Fixpoint node_ind2 (n : node) : Pn n :=
    match n with
    | Endpoint ms pat h => HE ms pat h
    | Mount pat sub =>
        HM pat sub ((fix go (l : list node) : Forall Pn l :=
                       match l with
                       | [] => Forall_nil Pn
                       | x :: r => Forall_cons x (node_ind2 x) (go r)
                       end) sub)
    end.
End NodeInd.

(* ---- membership ------------------------------------------------------------------------------------ *)

Lemma mem_In : forall s l, mem s l = true <-> In s l.
Proof.
  intros s l. unfold mem. rewrite existsb_exists. split.
  - intros [x [Hin Heq]]. apply String.eqb_eq in Heq. subst. exact Hin.
  - intros Hin. exists s. split; [exact Hin | apply String.eqb_refl].
Qed.

(* ---- pick returns the continuation of one of the matching entries ---------------------------------- *)

Lemma pick_sound : forall A (l : list (option (list nat) * A)) best a,
  pick best l = Some a ->
  (exists k, best = Some (k, a)) \/ (exists k, In (Some k, a) l).
Proof.
  intros A l. induction l as [|[ok x] r IH]; intros best a Hp; cbn [pick] in Hp.
  - destruct best as [[k b]|]; [|discriminate]. inversion Hp; subst. left. eauto.
  - destruct ok as [k|].
    + destruct best as [[kb b]|].
      * destruct (key_ltb k kb).
        -- apply IH in Hp. destruct Hp as [[k' Hb]|[k' Hin]].
           ++ inversion Hb; subst. right. exists k'. left. reflexivity.
           ++ right. exists k'. right. exact Hin.
        -- apply IH in Hp. destruct Hp as [Hb|[k' Hin]]; [left; exact Hb|].
           right. exists k'. right. exact Hin.
      * apply IH in Hp. destruct Hp as [[k' Hb]|[k' Hin]].
        -- inversion Hb; subst. right. exists k'. left. reflexivity.
        -- right. exists k'. right. exact Hin.
    + apply IH in Hp. destruct Hp as [Hb|[k' Hin]]; [left; exact Hb|].
      right. exists k'. right. exact Hin.
Qed.

(* ---- chi's method-dispatch contract, as the model has it: an endpoint is only ever the result of routing
        a request whose method it is registered for ----------------------------------------------------- *)

Lemma rank_endpoint_method : forall ms pat h m p k,
  rank (Endpoint ms pat h) m p = Some k -> mem m ms = true.
Proof.
  intros ms pat h m p k H. cbn [rank] in H.
  destruct (match_prefix pat p) as [[|s r]|]; try discriminate.
  destruct (mem m ms); [reflexivity | discriminate].
Qed.

Lemma route_node_sound : forall n m p h,
  route_node n m p = Some h ->
  exists ms, In (ms, h) (endpoints_of n) /\ mem m ms = true.
Proof.
  intros n. induction n as [ms pat h0 | pat sub IH] using node_ind2; intros m p h Hr.
  - cbn [route_node] in Hr.
    destruct (rank (Endpoint ms pat h0) m p) as [k|] eqn:Hk; [|discriminate].
    inversion Hr; subst. exists ms. split.
    + cbn [endpoints_of]. left. reflexivity.
    + eapply rank_endpoint_method. exact Hk.
  - cbn [route_node] in Hr.
    destruct (match_prefix pat p) as [rest|]; [|discriminate].
    cbv zeta in Hr.
    destruct (pick None (map (fun c => (rank c m (sub_path rest), route_node c m (sub_path rest))) sub))
      as [o|] eqn:Hp; [|discriminate].
    cbn [join] in Hr. subst o.
    apply pick_sound in Hp. destruct Hp as [[k Hb]|[k Hin]]; [discriminate|].
    apply in_map_iff in Hin. destruct Hin as [c [Heq Hc]].
    inversion Heq as [[Hrank Hroute]].
    rewrite Forall_forall in IH.
    destruct (IH c Hc _ _ _ Hroute) as [ms [Hin Hm]].
    exists ms. split; [|exact Hm].
    cbn [endpoints_of]. apply in_flat_map. exists c. split; assumption.
Qed.

Lemma route_sound : forall rs m p h,
  route rs m p = Some h -> exists ms, In (ms, h) (endpoints rs) /\ mem m ms = true.
Proof.
  intros rs m p h H. unfold route in H. destruct p as [|s p]; [discriminate|].
  apply route_node_sound in H. exact H.
Qed.

(* ---- the front -------------------------------------------------------------------------------------- *)

(* (1) the gate: with the middleware installed, a method the condition does not name is answered before
       any routing takes place *)
Lemma gate_rejects : forall cfg req,
  gate_installed cfg = true -> gate_pass cfg req = false -> serve cfg true req = Rejected.
Proof.
  intros cfg req Hi Hp. unfold serve. rewrite Hi, Hp. reflexivity.
Qed.

Lemma reached_passed_gate : forall cfg req h,
  gate_installed cfg = true -> serve cfg true req = Reached h -> gate_pass cfg req = true.
Proof.
  intros cfg req h Hi Hs. unfold serve in Hs. rewrite Hi in Hs.
  destruct (gate_pass cfg req); [reflexivity|]. cbn in Hs. discriminate.
Qed.

(* (2) a reached handler is registered, in the tree, for the method of the request *)
Lemma reached_registered : forall cfg ro req h,
  serve cfg ro req = Reached h ->
  exists ms, In (ms, h) (endpoints (routes cfg)) /\ In (meth req) ms.
Proof.
  intros cfg ro req h Hs. unfold serve in Hs.
  destruct (ro && gate_installed cfg && negb (gate_pass cfg req)); [discriminate|].
  destruct (negb (mem (meth req) chi_methods)); [discriminate|].
  destruct (route (routes cfg) (meth req) (path req)) as [h'|] eqn:Hr; [|discriminate].
  inversion Hs; subst h'. apply route_sound in Hr. destruct Hr as [ms [Hin Hm]].
  exists ms. split; [exact Hin|]. apply mem_In. exact Hm.
Qed.

(* (1) + (2) + (3, the table check) : no writer is reached in read-only mode, whatever the request *)
Lemma no_write : forall cfg,
  gate_installed cfg = true -> table_ok cfg = true ->
  forall req h, serve cfg true req = Reached h -> is_writer h = false.
Proof.
  intros cfg Hi Ht req h Hs.
  pose proof (reached_passed_gate _ _ _ Hi Hs) as Hpass.
  destruct (reached_registered _ _ _ _ Hs) as [ms [Hin Hm]].
  unfold table_ok in Ht. rewrite forallb_forall in Ht. specialize (Ht _ Hin). cbn [fst snd] in Ht.
  destruct (is_writer h); [|reflexivity].
  cbn [implb] in Ht. unfold mutating_only in Ht. rewrite forallb_forall in Ht.
  specialize (Ht _ Hm). unfold gate_pass in Hpass. rewrite Hpass in Ht. discriminate.
Qed.

(* read-only mode changes nothing for the requests the gate lets through *)
Lemma reads_unaffected : forall cfg req,
  gate_pass cfg req = true -> serve cfg true req = serve cfg false req.
Proof.
  intros cfg req Hp. unfold serve. rewrite Hp.
  rewrite andb_false_r. reflexivity.
Qed.

(* the outcome never depends on the flag except through the rejection *)
Lemma readonly_only_rejects : forall cfg req,
  serve cfg true req = Rejected \/ serve cfg true req = serve cfg false req.
Proof.
  intros cfg req. unfold serve.
  destruct (true && gate_installed cfg && negb (gate_pass cfg req)); [left; reflexivity | right; reflexivity].
Qed.
