(* GENERATED on every check by harness/cmd/routes2coq from internal/api/router.go, read_only.go, v1/routes.go,
   v2/routes.go and the handlers' bodies of the working tree under test. Do not edit. *)
(* 42 endpoints, 13 of them writers, 5 mounts; ReadOnly gate installed by NewRouter: true;
   module.go hands Config.ReadOnly to NewRouter unchanged: true *)
From FL Require Import Router.Model.
Local Open Scope string_scope.

Definition gen_routes : list node :=
  [
    (* internal/api/router.go:32 *) Mount [Lit "api"; Lit "ledger"] [
      (* internal/api/router.go:34 *) Mount [Lit "v2"] [
        (* internal/api/v2/routes.go:35 *) Endpoint ["GET"] [Lit "_healthcheck"] {| h_name := "healthController.Check"; h_full := "/api/ledger/v2/_healthcheck"; h_writes := [] |};
        (* internal/api/v2/routes.go:36 *) Endpoint ["GET"] [Lit "_info"] {| h_name := "getInfo(b)"; h_full := "/api/ledger/v2/_info"; h_writes := [] |};
        (* internal/api/v2/routes.go:42 *) Endpoint ["GET"] [Lit ""] {| h_name := "listLedgers(b)"; h_full := "/api/ledger/v2/"; h_writes := [] |};
        (* internal/api/v2/routes.go:43 *) Mount [Par "ledger"] [
          (* internal/api/v2/routes.go:44 *) Endpoint ["POST"] [Lit ""] {| h_name := "createLedger(b)"; h_full := "/api/ledger/v2/{ledger}/"; h_writes := [] |};
          (* internal/api/v2/routes.go:45 *) Endpoint ["GET"] [Lit ""] {| h_name := "getLedger(b)"; h_full := "/api/ledger/v2/{ledger}/"; h_writes := [] |};
          (* internal/api/v2/routes.go:48 *) Endpoint ["POST"] [Lit "_bulk"] {| h_name := "bulkHandler"; h_full := "/api/ledger/v2/{ledger}/_bulk"; h_writes := [WSaveMeta; WCreate; WDeleteMeta; WRevert] |};
          (* internal/api/v2/routes.go:51 *) Endpoint ["GET"] [Lit "_info"] {| h_name := "getLedgerInfo"; h_full := "/api/ledger/v2/{ledger}/_info"; h_writes := [] |};
          (* internal/api/v2/routes.go:52 *) Endpoint ["GET"] [Lit "stats"] {| h_name := "getStats"; h_full := "/api/ledger/v2/{ledger}/stats"; h_writes := [] |};
          (* internal/api/v2/routes.go:53 *) Endpoint ["GET"] [Lit "logs"] {| h_name := "getLogs"; h_full := "/api/ledger/v2/{ledger}/logs"; h_writes := [] |};
          (* internal/api/v2/routes.go:56 *) Endpoint ["GET"] [Lit "accounts"] {| h_name := "getAccounts"; h_full := "/api/ledger/v2/{ledger}/accounts"; h_writes := [] |};
          (* internal/api/v2/routes.go:57 *) Endpoint ["HEAD"] [Lit "accounts"] {| h_name := "countAccounts"; h_full := "/api/ledger/v2/{ledger}/accounts"; h_writes := [] |};
          (* internal/api/v2/routes.go:58 *) Endpoint ["GET"] [Lit "accounts"; Par "address"] {| h_name := "getAccount"; h_full := "/api/ledger/v2/{ledger}/accounts/{address}"; h_writes := [] |};
          (* internal/api/v2/routes.go:59 *) Endpoint ["POST"] [Lit "accounts"; Par "address"; Lit "metadata"] {| h_name := "postAccountMetadata"; h_full := "/api/ledger/v2/{ledger}/accounts/{address}/metadata"; h_writes := [WSaveMeta] |};
          (* internal/api/v2/routes.go:60 *) Endpoint ["DELETE"] [Lit "accounts"; Par "address"; Lit "metadata"; Par "key"] {| h_name := "deleteAccountMetadata"; h_full := "/api/ledger/v2/{ledger}/accounts/{address}/metadata/{key}"; h_writes := [WDeleteMeta] |};
          (* internal/api/v2/routes.go:63 *) Endpoint ["GET"] [Lit "transactions"] {| h_name := "getTransactions"; h_full := "/api/ledger/v2/{ledger}/transactions"; h_writes := [] |};
          (* internal/api/v2/routes.go:64 *) Endpoint ["HEAD"] [Lit "transactions"] {| h_name := "countTransactions"; h_full := "/api/ledger/v2/{ledger}/transactions"; h_writes := [] |};
          (* internal/api/v2/routes.go:66 *) Endpoint ["POST"] [Lit "transactions"] {| h_name := "postTransaction"; h_full := "/api/ledger/v2/{ledger}/transactions"; h_writes := [WCreate] |};
          (* internal/api/v2/routes.go:68 *) Endpoint ["GET"] [Lit "transactions"; Par "id"] {| h_name := "getTransaction"; h_full := "/api/ledger/v2/{ledger}/transactions/{id}"; h_writes := [] |};
          (* internal/api/v2/routes.go:69 *) Endpoint ["POST"] [Lit "transactions"; Par "id"; Lit "revert"] {| h_name := "revertTransaction"; h_full := "/api/ledger/v2/{ledger}/transactions/{id}/revert"; h_writes := [WRevert] |};
          (* internal/api/v2/routes.go:70 *) Endpoint ["POST"] [Lit "transactions"; Par "id"; Lit "metadata"] {| h_name := "postTransactionMetadata"; h_full := "/api/ledger/v2/{ledger}/transactions/{id}/metadata"; h_writes := [WSaveMeta] |};
          (* internal/api/v2/routes.go:71 *) Endpoint ["DELETE"] [Lit "transactions"; Par "id"; Lit "metadata"; Par "key"] {| h_name := "deleteTransactionMetadata"; h_full := "/api/ledger/v2/{ledger}/transactions/{id}/metadata/{key}"; h_writes := [WDeleteMeta] |};
          (* internal/api/v2/routes.go:73 *) Endpoint ["GET"] [Lit "aggregate"; Lit "balances"] {| h_name := "getBalancesAggregated"; h_full := "/api/ledger/v2/{ledger}/aggregate/balances"; h_writes := [] |}
        ]
      ];
      (* internal/api/router.go:35 *) Mount [] [
        (* internal/api/v1/routes.go:35 *) Endpoint ["GET"] [Lit "_healthcheck"] {| h_name := "healthController.Check"; h_full := "/api/ledger/_healthcheck"; h_writes := [] |};
        (* internal/api/v1/routes.go:36 *) Endpoint ["GET"] [Lit "_info"] {| h_name := "getInfo(b)"; h_full := "/api/ledger/_info"; h_writes := [] |};
        (* internal/api/v1/routes.go:42 *) Mount [Par "ledger"] [
          (* internal/api/v1/routes.go:52 *) Endpoint ["GET"] [Lit "_info"] {| h_name := "getLedgerInfo"; h_full := "/api/ledger/{ledger}/_info"; h_writes := [] |};
          (* internal/api/v1/routes.go:53 *) Endpoint ["GET"] [Lit "stats"] {| h_name := "getStats"; h_full := "/api/ledger/{ledger}/stats"; h_writes := [] |};
          (* internal/api/v1/routes.go:54 *) Endpoint ["GET"] [Lit "logs"] {| h_name := "getLogs"; h_full := "/api/ledger/{ledger}/logs"; h_writes := [] |};
          (* internal/api/v1/routes.go:57 *) Endpoint ["GET"] [Lit "accounts"] {| h_name := "getAccounts"; h_full := "/api/ledger/{ledger}/accounts"; h_writes := [] |};
          (* internal/api/v1/routes.go:58 *) Endpoint ["HEAD"] [Lit "accounts"] {| h_name := "countAccounts"; h_full := "/api/ledger/{ledger}/accounts"; h_writes := [] |};
          (* internal/api/v1/routes.go:59 *) Endpoint ["GET"] [Lit "accounts"; Par "address"] {| h_name := "getAccount"; h_full := "/api/ledger/{ledger}/accounts/{address}"; h_writes := [] |};
          (* internal/api/v1/routes.go:60 *) Endpoint ["POST"] [Lit "accounts"; Par "address"; Lit "metadata"] {| h_name := "postAccountMetadata"; h_full := "/api/ledger/{ledger}/accounts/{address}/metadata"; h_writes := [WSaveMeta] |};
          (* internal/api/v1/routes.go:61 *) Endpoint ["DELETE"] [Lit "accounts"; Par "address"; Lit "metadata"; Par "key"] {| h_name := "deleteAccountMetadata"; h_full := "/api/ledger/{ledger}/accounts/{address}/metadata/{key}"; h_writes := [WDeleteMeta] |};
          (* internal/api/v1/routes.go:64 *) Endpoint ["GET"] [Lit "transactions"] {| h_name := "getTransactions"; h_full := "/api/ledger/{ledger}/transactions"; h_writes := [] |};
          (* internal/api/v1/routes.go:65 *) Endpoint ["HEAD"] [Lit "transactions"] {| h_name := "countTransactions"; h_full := "/api/ledger/{ledger}/transactions"; h_writes := [] |};
          (* internal/api/v1/routes.go:67 *) Endpoint ["POST"] [Lit "transactions"] {| h_name := "postTransaction"; h_full := "/api/ledger/{ledger}/transactions"; h_writes := [WCreate] |};
          (* internal/api/v1/routes.go:68 *) Endpoint ["POST"] [Lit "transactions"; Lit "batch"] {| h_name := "func-literal"; h_full := "/api/ledger/{ledger}/transactions/batch"; h_writes := [] |};
          (* internal/api/v1/routes.go:72 *) Endpoint ["GET"] [Lit "transactions"; Par "id"] {| h_name := "getTransaction"; h_full := "/api/ledger/{ledger}/transactions/{id}"; h_writes := [] |};
          (* internal/api/v1/routes.go:73 *) Endpoint ["POST"] [Lit "transactions"; Par "id"; Lit "revert"] {| h_name := "revertTransaction"; h_full := "/api/ledger/{ledger}/transactions/{id}/revert"; h_writes := [WRevert] |};
          (* internal/api/v1/routes.go:74 *) Endpoint ["POST"] [Lit "transactions"; Par "id"; Lit "metadata"] {| h_name := "postTransactionMetadata"; h_full := "/api/ledger/{ledger}/transactions/{id}/metadata"; h_writes := [WSaveMeta] |};
          (* internal/api/v1/routes.go:75 *) Endpoint ["DELETE"] [Lit "transactions"; Par "id"; Lit "metadata"; Par "key"] {| h_name := "deleteTransactionMetadata"; h_full := "/api/ledger/{ledger}/transactions/{id}/metadata/{key}"; h_writes := [WDeleteMeta] |};
          (* internal/api/v1/routes.go:77 *) Endpoint ["GET"] [Lit "balances"] {| h_name := "getBalances"; h_full := "/api/ledger/{ledger}/balances"; h_writes := [] |};
          (* internal/api/v1/routes.go:78 *) Endpoint ["GET"] [Lit "aggregate"; Lit "balances"] {| h_name := "getBalancesAggregated"; h_full := "/api/ledger/{ledger}/aggregate/balances"; h_writes := [] |}
        ]
      ]
    ]
  ].

Definition gen_config : config :=
  {| routes := gen_routes;
     gate_installed := true;
     gate_allowed := ["GET"; "OPTIONS"; "HEAD"] |}.
