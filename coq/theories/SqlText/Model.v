(* M8 — SQL text: where the text of a client's list filter lands in the SQL sent to PostgreSQL.
   Definitions only; proofs are in SqlText/Proofs.v, property theorems in Properties/C20.v.

   Modelled, character by character (Coq [string] = Go byte string):
   - internal/storage/ledgerstore/utils.go : filterAccountAddress, filterAccountAddressOnTransactions,
     checkAddressFilter (the segment grammar, "fix: ledgerstore: validate address filters")
   - the decision tables key x operator -> SQL fragment with placeholders + bound arguments | error of the query
     contexts in accounts.go, transactions.go, balances.go, logs.go
   - libs/query/expression.go : Build of $and / $or / not / leaves
   - encoding/json string escaping as used by json.Marshal (escapeHTML on), UTF-8 decoding as Go does it
   - github.com/uptrace/bun v1.1.16 : schema.Formatter.append (placeholder substitution), BaseDialect.AppendString,
     BaseDialect.AppendJSON, schema.Append for the Go types a filter value can have
   - the quote automaton of PostgreSQL's lexer with standard_conforming_strings = on. *)
From Coq Require Export List Bool Arith NArith ZArith String Ascii DecimalString.
Export ListNotations.
Local Open Scope string_scope.
Notation "a =c? b" := (Ascii.eqb a b%char) (at level 70, no associativity).

(* ---- bytes ------------------------------------------------------------------------------------------ *)
Definition cn (c : ascii) : N := N_of_ascii c.
Definition in_range (lo hi : N) (c : ascii) : bool := (lo <=? cn c)%N && (cn c <=? hi)%N.
Definition is_digit (c : ascii) : bool := in_range 48 57 c.
Definition is_alpha (c : ascii) : bool := in_range 65 90 c || in_range 97 122 c.
Definition is_word (c : ascii) : bool := is_digit c || is_alpha c || (c =c? "_").
Definition LF : ascii := ascii_of_nat 10.
Definition CR : ascii := ascii_of_nat 13.
Definition BSL : ascii := ascii_of_nat 92.  (* backslash *)
Definition DQ : ascii := ascii_of_nat 34.   (* double quote *)
Definition SQ : ascii := "'"%char.

Definition bytes_to_string (l : list nat) : string :=
  fold_right (fun n s => String (ascii_of_nat n) s) EmptyString l.

(* hex-encoded bytes (lower case), used by the harness to write arbitrary byte strings compactly *)
Definition hexv (c : ascii) : N := let n := cn c in if (n <? 58)%N then (n - 48)%N else (n - 87)%N.
Fixpoint hx (s : string) : string :=
  match s with
  | String a (String b r) => String (ascii_of_N (hexv a * 16 + hexv b)) (hx r)
  | _ => EmptyString
  end.

Definition sapp := String.append.
Infix "+++" := String.append (right associativity, at level 60).

Fixpoint sconcat (l : list string) : string :=
  match l with [] => EmptyString | x :: r => x +++ sconcat r end.

Fixpoint sjoin (sep : string) (l : list string) : string :=
  match l with [] => EmptyString | [x] => x | x :: r => x +++ sep +++ sjoin sep r end.

Fixpoint sall (p : ascii -> bool) (s : string) : bool :=
  match s with EmptyString => true | String c r => p c && sall p r end.

Fixpoint sdrop (n : nat) (s : string) : string :=
  match n, s with 0, _ => s | S n', String _ r => sdrop n' r | S _, EmptyString => EmptyString end.

Fixpoint stake (n : nat) (s : string) : string :=
  match n, s with 0, _ => EmptyString | S n', String c r => String c (stake n' r) | S _, EmptyString => EmptyString end.

Definition is_empty (s : string) : bool := match s with EmptyString => true | _ => false end.

Definition dec (n : nat) : string := NilEmpty.string_of_uint (Nat.to_uint n).      (* fmt %d of an int >= 0 *)
Definition dec_z (z : Z) : string := NilEmpty.string_of_int (Z.to_int z).           (* integer-valued number *)

(* bytewise string order (Go's < on strings) *)
Fixpoint str_ltb (a b : string) : bool :=
  match a, b with
  | _, EmptyString => false
  | EmptyString, String _ _ => true
  | String x a', String y b' => if (cn x <? cn y)%N then true else if (cn y <? cn x)%N then false else str_ltb a' b'
  end.

(* =====================================================================================================
   1. The quote automaton: PostgreSQL's lexer as far as "is this character code or literal text" goes,
      standard_conforming_strings = on (a backslash inside '...' is an ordinary character).
      One character per step, so scanning composes over concatenation.
      Conservative choices: an e/E directly before an opening quote (E'..' string, where backslash escapes
      would be active) and a $ in code position (positional parameter / dollar quoting; bun inlines all
      arguments, the store's SQL uses neither) are [Bad], which is absorbing. Block comments nest. *)
Inductive qstate :=
  | Code | CodeE | CodeDash | CodeSlash      (* in code; after e/E; after '-'; after '/' *)
  | InLit | InLitQ                           (* inside '...'; just after a ' seen inside a literal *)
  | InIdent | InIdentQ                       (* inside a double-quoted identifier; just after a double quote seen inside it *)
  | LineC                                    (* -- comment *)
  | BlockC (d : nat) | BlockCStar (d : nat) | BlockCSlash (d : nat)   (* /* comment */ at nesting depth d *)
  | Bad.

Definition step_code (c : ascii) : qstate :=
  if c =c? SQ then InLit else if c =c? DQ then InIdent else if c =c? "-" then CodeDash
  else if c =c? "/" then CodeSlash else if (c =c? "e") || (c =c? "E") then CodeE
  else if c =c? "$" then Bad else Code.

Definition step (q : qstate) (c : ascii) : qstate :=
  match q with
  | Code => step_code c
  | CodeE => if c =c? SQ then Bad else step_code c
  | CodeDash => if c =c? "-" then LineC else step_code c
  | CodeSlash => if c =c? "*" then BlockC 0 else step_code c
  | InLit => if c =c? SQ then InLitQ else InLit
  | InLitQ => if c =c? SQ then InLit else step_code c
  | InIdent => if c =c? DQ then InIdentQ else InIdent
  | InIdentQ => if c =c? DQ then InIdent else step_code c
  | LineC => if (c =c? LF) || (c =c? CR) then Code else LineC
  | BlockC d => if c =c? "*" then BlockCStar d else if c =c? "/" then BlockCSlash d else BlockC d
  | BlockCStar d => if c =c? "/" then match d with 0 => Code | S d' => BlockC d' end
                    else if c =c? "*" then BlockCStar d else BlockC d
  | BlockCSlash d => if c =c? "*" then BlockC (S d) else if c =c? "/" then BlockCSlash d else BlockC d
  | Bad => Bad
  end.

Fixpoint scan (s : string) (q : qstate) : qstate :=
  match s with EmptyString => q | String c r => scan r (step q c) end.

Definition lit_state (q : qstate) : bool := match q with InLit | InLitQ => true | _ => false end.

(* consume s starting inside a literal without ever leaving the literal; the state reached *)
Fixpoint run_lit (s : string) (q : qstate) : option qstate :=
  match s with
  | EmptyString => Some q
  | String c r => let q' := step q c in if lit_state q' then run_lit r q' else None
  end.

(* every character of s is consumed inside the literal and the literal is still open (and not in the middle of
   a quote pair) afterwards *)
Definition stays_in_literal (s : string) : Prop := run_lit s InLit = Some InLit.
Definition stays_in_literalb (s : string) : bool :=
  match run_lit s InLit with Some InLit => true | _ => false end.

(* states in which a fragment may end: in code (possibly just after an e/E or a minus sign), or just after the quote
   that closed a literal *)
Definition codeish (q : qstate) : bool := match q with Code | CodeE | CodeDash | InLitQ => true | _ => false end.

(* the SQL with the content of every literal removed: a literal '...' becomes a single '.
   This is "the structure" of a statement: two statements with the same blank differ only inside literals. *)
Fixpoint blank_go (s : string) (q : qstate) : string :=
  match s with
  | EmptyString => EmptyString
  | String c r =>
      match q with
      | InLit => blank_go r (step q c)
      | InLitQ => if c =c? SQ then blank_go r InLit else String c (blank_go r (step q c))
      | _ => String c (blank_go r (step q c))
      end
  end.
Definition blank (s : string) : string := blank_go s Code.

(* the fragment lexer used by the oracle: tokens of the blanked text. A literal is the token TLit. *)
Inductive token := TLit | TWord (s : string) | TNum (s : string) | TSym (c : ascii).

Definition is_space (c : ascii) : bool := (c =c? " ") || (c =c? LF) || (c =c? CR) || (cn c =? 9)%N.
Definition word_char (c : ascii) : bool := is_word c || (c =c? ".") || (c =c? DQ).

(* acc: current word (reversed) *)
Definition flush_word (acc : string) : list token :=
  match acc with
  | EmptyString => []
  | _ => let w := (fix rev (s a : string) := match s with EmptyString => a | String c r => rev r (String c a) end) acc EmptyString in
         [if sall (fun c => is_digit c || (c =c? ".")) w then TNum w else TWord w]
  end.

Fixpoint tokenize_go (s : string) (acc : string) : list token :=
  match s with
  | EmptyString => flush_word acc
  | String c r =>
      if word_char c then tokenize_go r (String c acc)
      else (flush_word acc ++
            (if is_space c then [] else if c =c? SQ then [TLit] else [TSym c]) ++ tokenize_go r EmptyString)%list
  end.
Definition tokens (sql : string) : list token := tokenize_go (blank sql) EmptyString.

(* =====================================================================================================
   2. UTF-8 as Go decodes it (utf8.DecodeRuneInString / range over a string): for a string starting with a
      byte >= 0x80, the length of the valid encoding that starts there, or None (RuneError of width 1). *)
Definition cont (c : ascii) : bool := in_range 128 191 c.

Definition utf8_len (s : string) : option nat :=
  match s with
  | EmptyString => None
  | String c0 r =>
      let x := cn c0 in
      if ((194 <=? x) && (x <=? 223))%N then
        match r with String c1 _ => if cont c1 then Some 2 else None | _ => None end
      else if ((224 <=? x) && (x <=? 239))%N then
        match r with
        | String c1 (String c2 _) =>
            let lo := if (x =? 224)%N then 160%N else 128%N in
            let hi := if (x =? 237)%N then 159%N else 191%N in
            if in_range lo hi c1 && cont c2 then Some 3 else None
        | _ => None
        end
      else if ((240 <=? x) && (x <=? 244))%N then
        match r with
        | String c1 (String c2 (String c3 _)) =>
            let lo := if (x =? 240)%N then 144%N else 128%N in
            let hi := if (x =? 244)%N then 143%N else 191%N in
            if in_range lo hi c1 && cont c2 && cont c3 then Some 4 else None
        | _ => None
        end
      else None
  end.

(* is the (valid, 3-byte) sequence at the head U+2028 or U+2029 : E2 80 A8 / E2 80 A9 *)
Definition ls_ps (s : string) : option ascii :=
  match s with
  | String c0 (String c1 (String c2 _)) =>
      if ((cn c0 =? 226) && (cn c1 =? 128))%N then
        if (cn c2 =? 168)%N then Some "8"%char else if (cn c2 =? 169)%N then Some "9"%char else None
      else None
  | _ => None
  end.

(* =====================================================================================================
   3. encoding/json: a string (appendString with escapeHTML = true), values *)
Definition hexd (n : N) : ascii :=
  match n with
  | 0 => "0"%char | 1 => "1"%char | 2 => "2"%char | 3 => "3"%char | 4 => "4"%char | 5 => "5"%char | 6 => "6"%char | 7 => "7"%char | 8 => "8"%char | 9 => "9"%char
  | 10 => "a"%char | 11 => "b"%char | 12 => "c"%char | 13 => "d"%char | 14 => "e"%char | _ => "f"%char
  end%N.

(* one byte < 0x80 *)
Definition esc_ascii (c : ascii) : string :=
  let n := cn c in
  if (c =c? DQ) || (c =c? BSL) then String BSL (String c EmptyString)
  else if (n =? 8)%N then String BSL "b" else if (n =? 12)%N then String BSL "f"
  else if (n =? 10)%N then String BSL "n" else if (n =? 13)%N then String BSL "r"
  else if (n =? 9)%N then String BSL "t"
  else if (n <? 32)%N || (c =c? "<") || (c =c? ">") || (c =c? "&") then
    String BSL (String "u" (String "0" (String "0" (String (hexd (n / 16)) (String (hexd (n mod 16)) EmptyString)))))
  else String c EmptyString.

(* k > 0: we are inside a multi-byte sequence found valid, k bytes of it are left; they are copied, or dropped
   when the sequence was replaced by an escape (U+2028/9) *)
Fixpoint json_body_go (s : string) (k : nat) (drop : bool) : string :=
  match s with
  | EmptyString => EmptyString
  | String c r =>
      match k with
      | S k' => if drop then json_body_go r k' drop else String c (json_body_go r k' drop)
      | 0 =>
          if (cn c <? 128)%N then esc_ascii c +++ json_body_go r 0 false
          else match utf8_len s with
               | None => String BSL "ufffd" +++ json_body_go r 0 false
               | Some n =>
                   match ls_ps s with
                   | Some d => String BSL (String "u" (String "2" (String "0" (String "2" (String d EmptyString)))))
                               +++ json_body_go r (n - 1) true
                   | None => String c (json_body_go r (n - 1) false)
                   end
               end
      end
  end.
Definition json_body (s : string) : string := json_body_go s 0 false.
Definition json_string (s : string) : string := String DQ (json_body s) +++ String DQ EmptyString.

(* a filter value as it reaches the query context: what json.Unmarshal into `any` produces (numbers restricted
   to integers: strconv's float formatting is not modelled), or a Go string from a v1 query parameter *)
Inductive jval :=
  | JStr (s : string) | JInt (z : Z) | JBool (b : bool) | JNull
  | JArr (l : list jval) | JObj (l : list (string * jval)).

Fixpoint insert_kv (x : string * string) (l : list (string * string)) : list (string * string) :=
  match l with
  | [] => [x]
  | y :: r => if str_ltb (fst y) (fst x) then y :: insert_kv x r else x :: l
  end.
Fixpoint isort_kv (l : list (string * string)) : list (string * string) :=
  match l with [] => [] | x :: r => insert_kv x (isort_kv r) end.

Definition kv_text (kv : string * string) : string := json_string (fst kv) +++ ":" +++ snd kv.

(* json.Marshal: object keys sorted bytewise *)
Fixpoint json_encode (j : jval) : string :=
  match j with
  | JStr s => json_string s
  | JInt z => dec_z z
  | JBool true => "true" | JBool false => "false"
  | JNull => "null"
  | JArr l => "[" +++ sjoin "," ((fix go (l : list jval) := match l with [] => [] | x :: r => json_encode x :: go r end) l) +++ "]"
  | JObj l => "{" +++ sjoin "," (map kv_text (isort_kv
                 ((fix go (l : list (string * jval)) :=
                     match l with [] => [] | (k, v) :: r => (k, json_encode v) :: go r end) l))) +++ "}"
  end.

(* =====================================================================================================
   4. bun: how a bound argument is written into the statement *)

(* BaseDialect.AppendString between the quotes: range over the runes; NUL dropped, ' doubled, an invalid byte
   becomes U+FFFD (EF BF BD), everything else is copied *)
Fixpoint append_string_go (s : string) (k : nat) : string :=
  match s with
  | EmptyString => EmptyString
  | String c r =>
      match k with
      | S k' => String c (append_string_go r k')
      | 0 =>
          if (cn c <? 128)%N then
            if (cn c =? 0)%N then append_string_go r 0
            else if c =c? SQ then String SQ (String SQ (append_string_go r 0))
            else String c (append_string_go r 0)
          else match utf8_len s with
               | Some n => String c (append_string_go r (n - 1))
               | None => String (ascii_of_nat 239) (String (ascii_of_nat 191) (String (ascii_of_nat 189) (append_string_go r 0)))
               end
      end
  end.
Definition append_string_body (s : string) : string := append_string_go s 0.
Definition append_string (s : string) : string := String SQ (append_string_body s) +++ String SQ EmptyString.

(* BaseDialect.AppendJSON between the quotes. After a backslash the next byte is copied as it is; when the
   backslash starts \u0000 a second backslash is written first and the bytes u0000 then go through the default
   branch, which also copies them: so in both cases "copy the next byte" describes it. *)
Definition starts_u0000 (s : string) : bool := String.prefix "u0000" s.
Fixpoint append_json_go (s : string) (raw : bool) : string :=
  match s with
  | EmptyString => EmptyString
  | String c r =>
      if raw then String c (append_json_go r false)
      else if c =c? SQ then String SQ (String SQ (append_json_go r false))
      else if (cn c =? 0)%N then append_json_go r false
      else if c =c? BSL then
        (if starts_u0000 r then String BSL (String BSL (append_json_go r true)) else String BSL (append_json_go r true))
      else String c (append_json_go r false)
  end.
Definition append_json_body (s : string) : string := append_json_go s false.

(* schema.Append for the Go values string, float64 (integer-valued), bool, nil, []any, map[string]any *)
Definition is_text_arg (a : jval) : bool := match a with JInt _ | JBool _ | JNull => false | _ => true end.
Definition arg_body (a : jval) : string :=
  match a with
  | JStr s => append_string_body s
  | JInt z => dec_z z
  | JBool true => "TRUE" | JBool false => "FALSE"
  | JNull => "NULL"
  | _ => append_json_body (json_encode a)
  end.
Definition append_arg (a : jval) : string :=
  if is_text_arg a then String SQ (arg_body a) +++ String SQ EmptyString else arg_body a.

(* schema.Formatter.append: replace the placeholders of a query text. No named arguments are registered for
   these texts (the theorems show the texts produced after the repair contain none), so ?name and ?(name) are
   written back as bun does when the name is unknown: "?name", i.e. without the parentheses. *)
Inductive fstate :=
  | FN                                   (* plain text *)
  | FB                                   (* a backslash is held back: a following ? makes bun drop it *)
  | FI (name_rev : string) (alpha : bool)   (* after '?': reading the identifier *)
  | FP (name_rev : string).                 (* after '?(' when a ')' follows somewhere *)

Fixpoint has_rparen (s : string) : bool :=
  match s with EmptyString => false | String c r => (c =c? ")") || has_rparen r end.

Fixpoint srev_app (s acc : string) : string :=
  match s with EmptyString => acc | String c r => srev_app r (String c acc) end.
Definition srev (s : string) : string := srev_app s EmptyString.

Fixpoint digits_to_N (s : string) (acc : N) : N :=
  match s with EmptyString => acc | String c r => digits_to_N r (acc * 10 + (cn c - 48))%N end.

(* the text written for '?' + identifier, and the next positional index *)
Definition end_ident (name : string) (alpha : bool) (args : list jval) (idx : nat) : string * nat :=
  match name with
  | EmptyString =>                                   (* plain '?' : next positional argument *)
      match nth_error args idx with
      | Some a => (append_arg a, S idx)
      | None => ("?"%string, idx)
      end
  | _ =>
      if alpha then (String "?" name, idx)           (* named, unknown: restored *)
      else let k := digits_to_N name 0 in            (* ?0, ?1: by index, does not advance *)
           if (k <? N.of_nat (List.length args))%N
           then match nth_error args (N.to_nat k) with Some a => (append_arg a, idx) | None => (String "?" name, idx) end
           else (String "?" name, idx)
  end.

Definition normal_step (c : ascii) : string * fstate :=
  if c =c? BSL then (EmptyString, FB) else if c =c? "?" then (EmptyString, FI EmptyString false)
  else (String c EmptyString, FN).

Fixpoint fmt_go (s : string) (st : fstate) (args : list jval) (idx : nat) : string :=
  match s with
  | EmptyString =>
      match st with
      | FN => EmptyString
      | FB => String BSL EmptyString
      | FI n alpha => fst (end_ident (srev n) alpha args idx)
      | FP n => String "?" (String "(" (srev n))     (* not reachable: FP is entered only if a ')' follows *)
      end
  | String c r =>
      match st with
      | FN => let '(e, st') := normal_step c in e +++ fmt_go r st' args idx
      | FB => if c =c? "?" then String "?" (fmt_go r FN args idx)
              else if c =c? BSL then String BSL (fmt_go r FB args idx)
              else String BSL (String c (fmt_go r FN args idx))
      | FI n alpha =>
          let first := is_empty n in
          if first && (c =c? "(") && has_rparen r then fmt_go r (FP EmptyString) args idx
          else if is_digit c then fmt_go r (FI (String c n) alpha) args idx
          else if is_alpha c || (negb first && alpha && (c =c? "_")) then fmt_go r (FI (String c n) true) args idx
          else let '(out, idx') := end_ident (srev n) alpha args idx in
               let '(e, st') := normal_step c in
               out +++ e +++ fmt_go r st' args idx'
      | FP n =>
          if c =c? ")" then
            let '(out, idx') := end_ident (srev n) true args idx in
            out +++ fmt_go r FN args idx'
          else fmt_go r (FP (String c n)) args idx
      end
  end.
Definition bun_format (q : string) (args : list jval) : string := fmt_go q FN args 0.

(* =====================================================================================================
   5. The address filter *)

(* strings.Split(s, ":") *)
Fixpoint split_colon (s : string) : list string :=
  match s with
  | EmptyString => [EmptyString]
  | String c r =>
      if c =c? ":" then EmptyString :: split_colon r
      else match split_colon r with
           | h :: t => String c h :: t
           | [] => [String c EmptyString]
           end
  end.

(* ledger.AccountSegmentRegex  [a-zA-Z0-9_]+(?:-[a-zA-Z0-9_]+)*  ; need = a word character must come next *)
Fixpoint seg_go (s : string) (need : bool) : bool :=
  match s with
  | EmptyString => negb need
  | String c r => if is_word c then seg_go r false else if (c =c? "-") && negb need then seg_go r true else false
  end.
Definition seg_ok (s : string) : bool := seg_go s true.

(* checkAddressFilter:  ^(?:SEG)?(?::(?:SEG)?)*$  *)
Definition valid_filter (a : string) : bool := forallb (fun g => is_empty g || seg_ok g) (split_colon a).

(* A query text as the Go code builds it, with the provenance of its parts:
   T = text of the program, D = a number the program writes with %d / fmt.Sprint,
   C = text of the client formatted directly into the query text,
   A = a placeholder '?' together with the argument bound to it. *)
Inductive tpl := T (s : string) | D (n : nat) | C (s : string) | A (a : jval).

Fixpoint tjoin (sep : string) (l : list (list tpl)) : list tpl :=
  match l with [] => [] | [x] => x | x :: r => (x ++ T sep :: tjoin sep r)%list end.

(* the query text and the argument list handed to bun *)
Definition tpl_text (t : tpl) : string := match t with T s => s | D n => dec n | C s => s | A _ => "?" end.
Definition q_text (tp : list tpl) : string := sconcat (map tpl_text tp).
Fixpoint q_args (tp : list tpl) : list jval :=
  match tp with [] => [] | A a :: r => a :: q_args r | _ :: r => q_args r end.

Definition has_empty (l : list string) : bool := existsb is_empty l.

(* filterAccountAddress(address, key) *)
Fixpoint seg_parts (key : string) (i : nat) (l : list string) : list (list tpl) :=
  match l with
  | [] => []
  | g :: r =>
      if is_empty g then seg_parts key (S i) r
      else [T (key +++ "_array @@ ('$["); D i; T ("] == " +++ String DQ EmptyString); C g;
            T (String DQ "')::jsonpath")] :: seg_parts key (S i) r
  end.
Definition render_address (key a : string) : list tpl :=
  let src := split_colon a in
  if has_empty src then
    tjoin " and " ([T ("jsonb_array_length(" +++ key +++ "_array) = "); D (List.length src)] :: seg_parts key 0 src)
  else [T (key +++ " = '"); C a; T "'"].

(* filterAccountAddressOnTransactions(address, source, destination) *)
(* the entries of the JSON object {"<len>":null,"<i>":"<segment>",...}: key text (for json.Marshal's bytewise key
   order), the number it prints, the value *)
Inductive mval := MNull | MSeg (g : string).
Definition mentry := (string * (nat * mval))%type.

Fixpoint seg_entries (i : nat) (l : list string) : list mentry :=
  match l with
  | [] => []
  | g :: r => if is_empty g then seg_entries (S i) r else (dec i, (i, MSeg g)) :: seg_entries (S i) r
  end.

Fixpoint insert_m (x : mentry) (l : list mentry) : list mentry :=
  match l with
  | [] => [x]
  | y :: r => if str_ltb (fst y) (fst x) then y :: insert_m x r else x :: l
  end.
Fixpoint isort_m (l : list mentry) : list mentry :=
  match l with [] => [] | x :: r => insert_m x (isort_m r) end.

(* "<i>":null  or  "<i>":"<segment>"  (the key is a decimal number, which json.Marshal writes unchanged) *)
Definition entry_tpl (e : mentry) : list tpl :=
  match snd (snd e) with
  | MNull => [T (String DQ EmptyString); D (fst (snd e)); T (String DQ ":null")]
  | MSeg g => [T (String DQ EmptyString); D (fst (snd e)); T (String DQ (":" +++ String DQ EmptyString));
               C (json_body g); T (String DQ EmptyString)]
  end.

Definition on_tx_data (a : string) : list tpl :=
  let src := split_colon a in
  if has_empty src then
    (T "[{" :: tjoin "," (map entry_tpl (isort_m ((dec (List.length src), (List.length src, MNull)) :: seg_entries 0 src)))
       ++ [T "}]"])%list
  else [T ("[" +++ String DQ EmptyString); C (json_body a); T (String DQ "]")].

Definition render_address_on_tx (a : string) (source destination : bool) : list tpl :=
  let src := split_colon a in
  let seg := has_empty src in
  let data := on_tx_data a in
  let col (c : string) := ((T ((if seg then c +++ "_arrays" else c) +++ " @> '") :: data) ++ [T "'"])%list in
  tjoin " or " ((if source then [col "sources"] else []) ++ (if destination then [col "destinations"] else []))%list.

(* =====================================================================================================
   6. The query contexts *)
Inductive op := OMatch | OLt | OLte | OGt | OGte.
Definition op_sql (o : op) : string :=
  match o with OMatch => "=" | OLt => "<" | OLte => "<=" | OGt => ">" | OGte => ">=" end.
Definition is_match (o : op) : bool := match o with OMatch => true | _ => false end.

Inductive listing := LAccounts | LTransactions | LBalances | LLogs.
(* the point-in-time option: absent, present but the zero time, present *)
Inductive pitk := PNil | PZero | PSet.

(* index of the last ']' before the first line feed *)
Fixpoint last_rb (s : string) : option nat :=
  match s with
  | EmptyString => None
  | String c r =>
      if c =c? LF then None
      else match last_rb r with
           | Some j => Some (S j)
           | None => if c =c? "]" then Some 0 else None
           end
  end.

(* regexp  pre + group + right bracket, where the group is dot-plus (minlen 1) or dot-star (minlen 0): unanchored,
   leftmost match, greedy group, the dot does not match a line feed. Result: the first submatch. *)
Fixpoint find_group (pre : string) (minlen : nat) (s : string) : option string :=
  let here :=
    if String.prefix pre s then
      let rest := sdrop (String.length pre) s in
      match last_rb rest with
      | Some j => if Nat.leb minlen j then Some (stake j rest) else None
      | None => None
      end
    else None in
  match here with
  | Some g => Some g
  | None => match s with EmptyString => None | String _ r => find_group pre minlen r end
  end.

Definition meta_key (key : string) : option string := find_group "metadata[" 1 key.
Definition bal_key (key : string) : option string := find_group "balance[" 0 key.

(* result of BuildMatcher: the query text with its arguments, or an error (errInvalidQuery or another one) *)
Inductive lres := LOk (tp : list tpl) | LErr (invalid : bool).

Definition addr_leaf (o : op) (v : jval) (plain_err_on_op : bool) (render : string -> list tpl) : lres :=
  if negb (is_match o) then LErr (negb plain_err_on_op)
  else match v with
       | JStr a => if valid_filter a then LOk (render a) else LErr true
       | _ => LErr true
       end.

Definition meta_leaf (o : op) (col k : string) (v : jval) : lres :=
  if negb (is_match o) then LErr true else LOk [T (col +++ " @> "); A (JObj [(k, v)])].

Definition bal_asset_sql_1 : string := "(
				select balance_from_volumes(post_commit_volumes)
				from moves
				where asset = ".
Definition bal_asset_sql_2 : string := " and account_address = accounts.address and ledger = ".
Definition bal_sql_1 : string := "(
				select balance_from_volumes(post_commit_volumes)
				from moves
				where account_address = accounts.address and ledger = ".
Definition bal_sql_tail : string := "
				order by seq desc
				limit 1
			) < ".

Definition pit_set (p : pitk) : bool := match p with PSet => true | _ => false end.
Definition pit_nonnil (p : pitk) : bool := match p with PNil => false | _ => true end.

Definition leaf (L : listing) (p : pitk) (ledger : string) (key : string) (o : op) (v : jval) : lres :=
  match L with
  | LAccounts =>
      if String.eqb key "address" then addr_leaf o v true (render_address "accounts.address")
      else match meta_key key with
      | Some k => meta_leaf o (if pit_set p then "accounts_metadata.metadata" else "metadata") k v
      | None =>
      match bal_key key with
      | Some asset => LOk [T bal_asset_sql_1; A (JStr asset); T bal_asset_sql_2; A (JStr ledger); T bal_sql_tail; A v]
      | None =>
      if String.eqb key "balance" then LOk [T bal_sql_1; A (JStr ledger); T bal_sql_tail; A v]
      else LErr true
      end end
  | LTransactions =>
      if String.eqb key "reference" || String.eqb key "timestamp" then LOk [T (key +++ " " +++ op_sql o +++ " "); A v]
      else if String.eqb key "account" then addr_leaf o v false (fun a => render_address_on_tx a true true)
      else if String.eqb key "source" then addr_leaf o v true (fun a => render_address_on_tx a true false)
      else if String.eqb key "destination" then addr_leaf o v true (fun a => render_address_on_tx a false true)
      else match meta_key key with
      | Some k => meta_leaf o (if pit_set p then "transactions_metadata.metadata" else "metadata") k v
      | None => LErr true
      end
  | LBalances =>
      if String.eqb key "address" then addr_leaf o v false (render_address "account_address")
      else match meta_key key with
      | Some k => meta_leaf o (if pit_nonnil p then "am.metadata" else "accounts.metadata") k v
      | None => LErr true
      end
  | LLogs =>
      if String.eqb key "date" then LOk [T ("date " +++ op_sql o +++ " "); A v] else LErr false
  end.

(* the same tables before "fix: ledgerstore: validate address filters": any string is formatted *)
Definition addr_leaf_legacy (o : op) (v : jval) (plain_err_on_op : bool) (render : string -> list tpl) : lres :=
  if negb (is_match o) then LErr (negb plain_err_on_op)
  else match v with JStr a => LOk (render a) | _ => LErr true end.

(* libs/query: filter trees and Build *)
Inductive qtree :=
  | QLeaf (key : string) (o : op) (v : jval)
  | QAnd (l : list qtree) | QOr (l : list qtree) | QNot (t : qtree).

(* set.Build on the results of the items, in order: the first error wins *)
Fixpoint first_err (rs : list lres) : option bool :=
  match rs with [] => None | LErr b :: _ => Some b | LOk _ :: r => first_err r end.
Fixpoint oks (rs : list lres) : list (list tpl) :=
  match rs with [] => [] | LOk tp :: r => tp :: oks r | LErr _ :: r => oks r end.
Definition build_set (opname : string) (rs : list lres) : lres :=
  match rs with
  | [] => LOk [T "1 = 1"]
  | _ => match first_err rs with
         | Some b => LErr b
         | None => LOk ((T "(" :: tjoin (") " +++ opname +++ " (") (oks rs)) ++ [T ")"])%list
         end
  end.
Definition build_not (r : lres) : lres :=
  match r with LOk tp => LOk ((T "not (" :: tp) ++ [T ")"])%list | e => e end.

Fixpoint build (ctx : string -> op -> jval -> lres) (t : qtree) : lres :=
  match t with
  | QLeaf k o v => ctx k o v
  | QAnd l => build_set "and" ((fix go (l : list qtree) := match l with [] => [] | x :: r => build ctx x :: go r end) l)
  | QOr l => build_set "or" ((fix go (l : list qtree) := match l with [] => [] | x :: r => build ctx x :: go r end) l)
  | QNot t => build_not (build ctx t)
  end.

(* what the store hands to bun's Where, and the text bun writes between "(" and ")" *)
Definition where_sql (tp : list tpl) : string := bun_format (q_text tp) (q_args tp).

(* =====================================================================================================
   7. The same text with the provenance of every character: Fx = written by the program, Cl = derived from the
      client's value (after the escaping the code applies). *)
Inductive piece := Fx (s : string) | Cl (s : string).

Definition arg_pieces (a : jval) : list piece :=
  if is_text_arg a then [Fx (String SQ EmptyString); Cl (arg_body a); Fx (String SQ EmptyString)] else [Fx (arg_body a)].
Definition tpl_pieces (t : tpl) : list piece :=
  match t with T s => [Fx s] | D n => [Fx (dec n)] | C s => [Cl s] | A a => arg_pieces a end.
Definition pieces (tp : list tpl) : list piece := flat_map tpl_pieces tp.

Definition piece_text (p : piece) : string := match p with Fx s => s | Cl s => s end.
Definition flatten (f : list piece) : string := sconcat (map piece_text f).

(* the skeleton: the client's characters removed, their positions kept *)
Definition skel (f : list piece) : list piece := map (fun p => match p with Fx s => Fx s | Cl _ => Cl EmptyString end) f.

(* run the automaton over the pieces; a client piece must begin inside a literal, be consumed inside it, and
   leave it open. The state reached, or None if some client piece is not inert. *)
Fixpoint inert_from (f : list piece) (q : qstate) : option qstate :=
  match f with
  | [] => Some q
  | Fx s :: r => inert_from r (scan s q)
  | Cl s :: r => match q with
                 | InLit => match run_lit s InLit with Some InLit => inert_from r InLit | _ => None end
                 | _ => None
                 end
  end.
(* a fragment: starts in code, every client piece inert, ends in code (or right after a closing quote) *)
Definition inert (f : list piece) : Prop := exists q, inert_from f Code = Some q /\ codeish q = true.

(* the harmless value of the same shape: every client string replaced *)
Fixpoint smap (f : ascii -> ascii) (s : string) : string :=
  match s with EmptyString => EmptyString | String c r => String (f c) (smap f r) end.
Definition harmless_addr (a : string) : string := smap (fun c => if c =c? ":" then ":"%char else "x"%char) a.
Definition harmless_val (v : jval) : jval :=
  match v with
  | JStr _ => JStr "abc"
  | JArr _ => JArr [JStr "abc"]
  | JObj _ => JObj [("abc"%string, JStr "abc")]
  | x => x
  end.

Inductive kclass := KAddr | KMeta | KBal | KOther.
Definition key_class (L : listing) (key : string) : kclass :=
  match L with
  | LAccounts => if String.eqb key "address" then KAddr
                 else match meta_key key with Some _ => KMeta | None =>
                      match bal_key key with Some _ => KBal | None => KOther end end
  | LTransactions => if String.eqb key "reference" || String.eqb key "timestamp" then KOther
                     else if String.eqb key "account" || String.eqb key "source" || String.eqb key "destination" then KAddr
                     else match meta_key key with Some _ => KMeta | None => KOther end
  | LBalances => if String.eqb key "address" then KAddr
                 else match meta_key key with Some _ => KMeta | None => KOther end
  | LLogs => KOther
  end.

Definition harmless_leaf (L : listing) (key : string) (v : jval) : string * jval :=
  match key_class L key with
  | KAddr => (key, match v with JStr a => JStr (harmless_addr a) | x => harmless_val x end)
  | KMeta => ("metadata[abc]"%string, harmless_val v)
  | KBal => ("balance[abc]"%string, harmless_val v)
  | KOther => (key, harmless_val v)
  end.

Fixpoint harmless (L : listing) (t : qtree) : qtree :=
  match t with
  | QLeaf k o v => let '(k', v') := harmless_leaf L k v in QLeaf k' o v'
  | QAnd l => QAnd ((fix go (l : list qtree) := match l with [] => [] | x :: r => harmless L x :: go r end) l)
  | QOr l => QOr ((fix go (l : list qtree) := match l with [] => [] | x :: r => harmless L x :: go r end) l)
  | QNot t => QNot (harmless L t)
  end.

(* the task's presentation of a leaf: where the client's text lands *)
Inductive rres := ROk (f : list piece) | Rejected.
Definition render (L : listing) (p : pitk) (ledger key : string) (o : op) (v : jval) : rres :=
  match leaf L p ledger key o v with LOk tp => ROk (pieces tp) | LErr _ => Rejected end.
Definition skeleton (L : listing) (p : pitk) (ledger key : string) (o : op) (v : jval) : list piece :=
  let '(k', v') := harmless_leaf L key v in
  match leaf L p ledger k' o v' with LOk tp => skel (pieces tp) | LErr _ => [] end.

(* =====================================================================================================
   8. Correspondence: one observation of the real store *)
Inductive obs := ObsSQL (fragment : string) | ObsErr (invalid : bool).

Record case := {
  c_listing : listing; c_pit : pitk; c_ledger : string; c_tree : qtree;
  c_obs : obs;             (* the text between the sentinels in the SQL the driver received, or the error class *)
  c_twin : obs;            (* the same for the harmless twin computed by the harness *)
  c_blank : string;        (* the oracle's blanking of "(" fragment ")" *)
  c_tokens : nat           (* the oracle's token count of it *)
}.

Definition obs_eqb (a b : obs) : bool :=
  match a, b with
  | ObsSQL x, ObsSQL y => String.eqb x y
  | ObsErr x, ObsErr y => Bool.eqb x y
  | _, _ => false
  end.

Definition model_obs (L : listing) (p : pitk) (ledger : string) (t : qtree) : obs :=
  match build (leaf L p ledger) t with
  | LOk tp => ObsSQL (where_sql tp)
  | LErr b => ObsErr b
  end.

Definition check_case (c : case) : bool :=
  let m := model_obs (c_listing c) (c_pit c) (c_ledger c) (c_tree c) in
  obs_eqb m (c_obs c)
  && obs_eqb (model_obs (c_listing c) (c_pit c) (c_ledger c) (harmless (c_listing c) (c_tree c))) (c_twin c)
  && match c_obs c with
     | ObsSQL f => let s := ("(" +++ f +++ ")")%string in
                   String.eqb (blank s) (c_blank c) && Nat.eqb (List.length (tokens s)) (c_tokens c)
     | ObsErr _ => true
     end.

Fixpoint bad_cases {A} (chk : A -> bool) (n : nat) (l : list A) : list nat :=
  match l with
  | [] => []
  | c :: r => if chk c then bad_cases chk (S n) r else n :: bad_cases chk (S n) r
  end.
