(* M8 — SQL text: lemmas. The property theorems are in Properties/C20.v.

   Plan of the development:
   1. the automaton composes over concatenation; text consumed inside a literal leaves no trace in [blank];
   2. bun's AppendString and AppendJSON (on what encoding/json produces) never leave the literal;
   3. three computable checks on a query text with provenance ([wf], [cs_ok], [acheck]) and their soundness:
      bun's formatter substitutes exactly the placeholders, and every client character lies in a literal;
   4. the address filter functions pass the checks when the filter satisfies the segment grammar;
   5. every leaf of every listing passes them, and so does every filter tree (induction over the tree);
   6. the harmless twin of a filter yields the same skeleton, hence the same blanked statement. *)
From FL Require Import SqlText.Model.
From Coq Require Import Lia.
Local Open Scope string_scope.


(* ---- strings ------------------------------------------------------------------------------------ *)
Lemma sapp_nil_r : forall s, s +++ "" = s.
Proof. induction s; cbn; congruence. Qed.
Lemma sapp_assoc : forall a b c, (a +++ b) +++ c = a +++ (b +++ c).
Proof. induction a; cbn; intros; congruence. Qed.
Lemma sall_app : forall p a b, sall p (a +++ b) = sall p a && sall p b.
Proof. induction a; cbn; intros; [reflexivity|]. rewrite IHa. now rewrite andb_assoc. Qed.
Lemma sall_impl : forall (p q : ascii -> bool), (forall c, p c = true -> q c = true) -> forall s, sall p s = true -> sall q s = true.
Proof. induction s; cbn; intros; [reflexivity|]. apply andb_true_iff in H0 as [? ?]. apply andb_true_iff; split; auto. Qed.

(* ---- the automaton composes ---------------------------------------------------------------------- *)
Lemma scan_app : forall a b q, scan (a +++ b) q = scan b (scan a q).
Proof. induction a; cbn; intros; auto. Qed.

Lemma run_lit_app : forall a b q,
  run_lit (a +++ b) q = match run_lit a q with Some q' => run_lit b q' | None => None end.
Proof. induction a; cbn; intros; auto. destruct (lit_state (step q a)); auto. Qed.

Lemma run_lit_scan : forall s q q', run_lit s q = Some q' -> scan s q = q'.
Proof. induction s; cbn; intros. congruence. destruct (lit_state (step q a)); [auto|discriminate]. Qed.

Lemma blank_go_app : forall a b q, blank_go (a +++ b) q = blank_go a q +++ blank_go b (scan a q).
Proof.
  induction a; cbn; intros; auto.
  destruct q; cbn; try (rewrite IHa; reflexivity).
  destruct (Ascii.eqb a SQ); cbn; rewrite IHa; reflexivity.
Qed.

(* text consumed inside a literal leaves no trace in the blanked statement *)
Lemma blank_go_lit : forall s q q', lit_state q = true -> run_lit s q = Some q' -> blank_go s q = "".
Proof.
  induction s; cbn; intros q q' Hq H; auto.
  destruct (lit_state (step q a)) eqn:E; [|discriminate].
  destruct q; try discriminate Hq.
  - eapply IHs; eauto.
  - cbn in *. destruct (Ascii.eqb a SQ) eqn:Ea.
    + eapply IHs; [|exact H]. reflexivity.
    + (* leaving the literal: excluded by E *)
      unfold step_code in E. rewrite Ea in E.
      destruct (Ascii.eqb a DQ), (Ascii.eqb a "-"), (Ascii.eqb a "/"), (Ascii.eqb a "e" || Ascii.eqb a "E"), (Ascii.eqb a "$"); discriminate.
Qed.


(* ---- facts about single bytes, by enumeration of the 256 values ------------------------------------ *)
Ltac all_ascii c := destruct c as [[] [] [] [] [] [] [] []].

Definition addr_char (c : ascii) : bool := is_word c || (c =c? "-") || (c =c? ":").
Definition seg_char (c : ascii) : bool := is_word c || (c =c? "-").
Definition plain_char (c : ascii) : bool := negb (c =c? "?") && negb (c =c? BSL).

Lemma addr_char_facts : forall c, addr_char c = true ->
  (c =c? SQ) = false /\ plain_char c = true /\ (cn c <? 128)%N = true /\ esc_ascii c = String c "".
Proof. intros c; all_ascii c; vm_compute; intro H; try discriminate H; repeat split; reflexivity. Qed.

Lemma digit_facts : forall c, is_digit c = true ->
  addr_char c = true /\ step Code c = Code /\ step InLit c = InLit /\ step CodeDash c = Code.
Proof. intros c; all_ascii c; vm_compute; intro H; try discriminate H; repeat split; reflexivity. Qed.

Lemma high_facts : forall c, (cn c <? 128)%N = false -> (c =c? SQ) = false /\ (c =c? BSL) = false.
Proof. intros c; all_ascii c; vm_compute; intro H; try discriminate H; repeat split; reflexivity. Qed.

Lemma cont_facts : forall c, cont c = true -> (c =c? SQ) = false /\ (c =c? BSL) = false.
Proof. intros c; all_ascii c; vm_compute; intro H; try discriminate H; repeat split; reflexivity. Qed.

Lemma seg_addr_char : forall c, seg_char c = true -> addr_char c = true.
Proof. intros c; all_ascii c; vm_compute; intro H; try discriminate H; reflexivity. Qed.

(* one step inside a literal *)
Lemma step_lit_nq : forall c, (c =c? SQ) = false -> step InLit c = InLit.
Proof. intros; cbn. now rewrite H. Qed.

(* ---- UTF-8 ------------------------------------------------------------------------------------------ *)
Fixpoint conts (k : nat) (s : string) : Prop :=
  match k with
  | 0 => True
  | S k' => match s with String c r => cont c = true /\ conts k' r | EmptyString => True end
  end.

Lemma utf8_len_conts : forall c r n, utf8_len (String c r) = Some n -> conts (n - 1) r.
Proof.
  intros c r n. unfold utf8_len.
  destruct ((194 <=? cn c) && (cn c <=? 223))%N.
  { destruct r as [|c1 r]; [discriminate|]. destruct (cont c1) eqn:E1; [|discriminate]. intros [= <-]. cbn. auto. }
  destruct ((224 <=? cn c) && (cn c <=? 239))%N.
  { destruct r as [|c1 [|c2 r]]; try discriminate.
    match goal with |- (if ?b && cont c2 then _ else _) = _ -> _ => destruct b eqn:E1 end; cbn [andb]; [|discriminate].
    destruct (cont c2) eqn:E2; [|discriminate]. intros [= <-]. cbn.
    split; [|auto].
    unfold cont, in_range in *. apply andb_true_iff in E1 as [A B].
    destruct (cn c =? 224)%N, (cn c =? 237)%N; apply andb_true_iff; split;
      apply N.leb_le; apply N.leb_le in A; apply N.leb_le in B; lia. }
  destruct ((240 <=? cn c) && (cn c <=? 244))%N; [|discriminate].
  destruct r as [|c1 [|c2 [|c3 r]]]; try discriminate.
  match goal with |- (if ?b && cont c2 && cont c3 then _ else _) = _ -> _ => destruct b eqn:E1 end; cbn [andb]; [|discriminate].
  destruct (cont c2) eqn:E2; cbn [andb]; [|discriminate].
  destruct (cont c3) eqn:E3; [|discriminate]. intros [= <-]. cbn.
  split; [|auto].
  unfold cont, in_range in *. apply andb_true_iff in E1 as [A B].
  destruct (cn c =? 240)%N, (cn c =? 244)%N; apply andb_true_iff; split;
    apply N.leb_le; apply N.leb_le in A; apply N.leb_le in B; lia.
Qed.

(* ---- bun: AppendString ------------------------------------------------------------------------------ *)
Lemma append_string_go_lit : forall s k, conts k s -> run_lit (append_string_go s k) InLit = Some InLit.
Proof.
  induction s as [|c r IH]; intros k Hk; [reflexivity|].
  destruct k as [|k'].
  - cbn [append_string_go].
    destruct (cn c <? 128)%N eqn:Elow.
    + destruct (cn c =? 0)%N; [apply IH; exact I|].
      destruct (Ascii.eqb c SQ) eqn:Eq.
      * change (String SQ (String SQ (append_string_go r 0))) with (String SQ (String SQ "") +++ append_string_go r 0).
        rewrite run_lit_app. cbn. apply IH; exact I.
      * cbn [run_lit]. rewrite (step_lit_nq c Eq). cbn. apply IH; exact I.
    + destruct (high_facts c Elow) as [Hq _].
      destruct (utf8_len (String c r)) as [n|] eqn:Eu.
      * cbn [run_lit]. rewrite (step_lit_nq c Hq). cbn. apply IH. eapply utf8_len_conts; eauto.
      * cbn. apply IH; exact I.
  - cbn in Hk. destruct Hk as [Hc Hk]. destruct (cont_facts c Hc) as [Hq _].
    cbn [append_string_go run_lit]. rewrite (step_lit_nq c Hq). cbn. apply IH; auto.
Qed.

Lemma append_string_inert : forall s, stays_in_literal (append_string_body s).
Proof. intros. apply append_string_go_lit. exact I. Qed.

Lemma append_string_scan : forall s, scan (append_string s) Code = InLitQ.
Proof.
  intros. unfold append_string.
  change (String SQ (append_string_body s) +++ String SQ "") with (String SQ "" +++ (append_string_body s +++ String SQ "")).
  rewrite !scan_app. change (scan (String SQ "") Code) with InLit.
  rewrite (run_lit_scan _ _ _ (append_string_inert s)). reflexivity.
Qed.


(* ---- bun: AppendJSON -------------------------------------------------------------------------------- *)
(* the pairing of backslashes AppendJSON performs; fails when the byte copied after a backslash is a quote *)
Fixpoint bs_run (s : string) (raw : bool) : option bool :=
  match s with
  | EmptyString => Some raw
  | String c r => if raw then (if c =c? SQ then None else bs_run r false)
                  else if c =c? BSL then bs_run r true else bs_run r false
  end.
Definition bs_closed (s : string) : Prop := bs_run s false = Some false.

Lemma bs_run_app : forall a b st,
  bs_run (a +++ b) st = match bs_run a st with Some st' => bs_run b st' | None => None end.
Proof.
  induction a; cbn [bs_run String.append]; intros; auto.
  destruct st; [destruct (Ascii.eqb a SQ); [reflexivity|apply IHa]|destruct (Ascii.eqb a BSL); apply IHa].
Qed.

Lemma bs_closed_app : forall a b, bs_closed a -> bs_closed b -> bs_closed (a +++ b).
Proof. unfold bs_closed; intros. rewrite bs_run_app, H. exact H0. Qed.

Lemma bs_closed_nil : bs_closed "". Proof. reflexivity. Qed.

Lemma bs_closed_cons : forall c s, (c =c? BSL) = false -> bs_closed s -> bs_closed (String c s).
Proof. unfold bs_closed; intros; cbn [bs_run]. now rewrite H. Qed.

Lemma append_json_go_lit : forall s raw raw',
  bs_run s raw = Some raw' -> run_lit (append_json_go s raw) InLit = Some InLit.
Proof.
  induction s as [|c r IH]; intros raw raw' H; [reflexivity|].
  cbn [append_json_go]. cbn [bs_run] in H.
  destruct raw.
  - destruct (Ascii.eqb c SQ) eqn:Eq; [discriminate|].
    cbn [run_lit]. rewrite (step_lit_nq c Eq). cbn. eauto.
  - destruct (Ascii.eqb c SQ) eqn:Eq.
    + assert (Ascii.eqb c BSL = false) as Eb.
      { apply Ascii.eqb_eq in Eq. subst c. reflexivity. }
      rewrite Eb in H.
      change (String SQ (String SQ (append_json_go r false))) with (String SQ (String SQ "") +++ append_json_go r false).
      rewrite run_lit_app. cbn. eauto.
    + destruct (cn c =? 0)%N eqn:E0.
      * assert (Ascii.eqb c BSL = false) as Eb.
        { destruct (Ascii.eqb c BSL) eqn:E; auto. apply Ascii.eqb_eq in E. subst c. discriminate E0. }
        rewrite Eb in H. eauto.
      * destruct (Ascii.eqb c BSL) eqn:Eb.
        { apply Ascii.eqb_eq in Eb. subst c.
          destruct (starts_u0000 r); cbn; eauto. }
        cbn [run_lit]. rewrite (step_lit_nq c Eq). cbn. eauto.
Qed.

(* ---- encoding/json: every backslash it writes is followed by a backslash, a double quote or one of b f n r t u *)
Lemma esc_ascii_closed : forall c, bs_closed (esc_ascii c).
Proof. intros c; all_ascii c; vm_compute; reflexivity. Qed.

Lemma json_body_go_closed : forall s k drop, conts k s -> bs_closed (json_body_go s k drop).
Proof.
  induction s as [|c r IH]; intros k drop Hk; [reflexivity|].
  destruct k as [|k'].
  - cbn [json_body_go].
    destruct (cn c <? 128)%N eqn:Elow.
    + apply bs_closed_app; [apply esc_ascii_closed|apply IH; exact I].
    + destruct (high_facts c Elow) as [_ Hb].
      destruct (utf8_len (String c r)) as [n|] eqn:Eu.
      * pose proof (utf8_len_conts _ _ _ Eu) as Hc.
        destruct (ls_ps (String c r)) as [d|] eqn:El.
        { apply bs_closed_app; [|apply IH; auto].
          unfold ls_ps in El. destruct r as [|c1 [|c2 r']]; try discriminate.
          destruct ((cn c =? 226) && (cn c1 =? 128))%N; [|discriminate].
          destruct (cn c2 =? 168)%N; [injection El as <-; reflexivity|].
          destruct (cn c2 =? 169)%N; [injection El as <-; reflexivity|discriminate]. }
        apply bs_closed_cons; auto.
      * apply bs_closed_app; [reflexivity|apply IH; exact I].
  - cbn in Hk. destruct Hk as [Hc Hk]. destruct (cont_facts c Hc) as [_ Hb].
    cbn [json_body_go]. destruct drop; [apply IH; auto|apply bs_closed_cons; auto].
Qed.

Lemma json_string_closed : forall s, bs_closed (json_string s).
Proof.
  intros. unfold json_string, json_body.
  apply bs_closed_cons; [reflexivity|]. apply bs_closed_app; [apply json_body_go_closed; exact I|reflexivity].
Qed.

(* decimal numbers *)
Lemma uint_digits : forall u, sall is_digit (NilEmpty.string_of_uint u) = true.
Proof. induction u; cbn; auto. Qed.

Lemma dec_digits : forall n, sall is_digit (dec n) = true.
Proof. intros; apply uint_digits. Qed.

Lemma digits_closed : forall s, sall is_digit s = true -> bs_closed s.
Proof.
  induction s; cbn; intros; [reflexivity|]. apply andb_true_iff in H as [H1 H2].
  apply bs_closed_cons; auto. destruct (digit_facts a H1) as [Ha _]. destruct (addr_char_facts a Ha) as (_ & Hp & _).
  unfold plain_char in Hp. apply andb_true_iff in Hp as [_ Hp]. now apply negb_true_iff in Hp.
Qed.

Lemma dec_z_shape : forall z, exists d, sall is_digit d = true /\ (dec_z z = d \/ dec_z z = String "-" d).
Proof.
  intros z. unfold dec_z. destruct (Z.to_int z) as [u|u]; cbn.
  - exists (NilEmpty.string_of_uint u). split; [apply uint_digits|auto].
  - exists (NilEmpty.string_of_uint u). split; [apply uint_digits|auto].
Qed.

Lemma dec_z_closed : forall z, bs_closed (dec_z z).
Proof.
  intros. destruct (dec_z_shape z) as (d & Hd & [-> | ->]).
  - now apply digits_closed.
  - apply bs_closed_cons; [reflexivity|now apply digits_closed].
Qed.

Lemma sjoin_closed : forall sep l, bs_closed sep -> Forall bs_closed l -> bs_closed (sjoin sep l).
Proof.
  intros sep l Hs H. induction H as [|x l Hx Hl IH]; [reflexivity|].
  cbn. destruct l; [exact Hx|]. apply bs_closed_app; auto. apply bs_closed_app; auto.
Qed.

Lemma insert_kv_Forall : forall (P : string * string -> Prop) x l, P x -> Forall P l -> Forall P (insert_kv x l).
Proof.
  induction l; cbn; intros; [auto|]. inversion H0; subst.
  destruct (str_ltb (fst a) (fst x)); auto.
Qed.
Lemma isort_kv_Forall : forall (P : string * string -> Prop) l, Forall P l -> Forall P (isort_kv l).
Proof. induction 1; cbn; auto using insert_kv_Forall. Qed.

(* induction over values (lists of values nested inside) *)
Definition jval_ind2 (P : jval -> Prop)
  (Hs : forall s, P (JStr s)) (Hi : forall z, P (JInt z)) (Hb : forall b, P (JBool b)) (Hn : P JNull)
  (Ha : forall l, Forall P l -> P (JArr l))
  (Ho : forall l, Forall (fun kv => P (snd kv)) l -> P (JObj l)) : forall j, P j :=
  fix go (j : jval) : P j :=
    match j with
    | JStr s => Hs s | JInt z => Hi z | JBool b => Hb b | JNull => Hn
    | JArr l => Ha l ((fix gl (l : list jval) : Forall P l :=
                         match l with [] => Forall_nil _ | x :: r => Forall_cons _ (go x) (gl r) end) l)
    | JObj l => Ho l ((fix gl (l : list (string * jval)) : Forall (fun kv => P (snd kv)) l :=
                         match l with [] => Forall_nil _ | x :: r => Forall_cons _ (go (snd x)) (gl r) end) l)
    end.

Lemma json_encode_closed : forall j, bs_closed (json_encode j).
Proof.
  induction j using jval_ind2.
  - apply json_string_closed.
  - apply dec_z_closed.
  - destruct b; reflexivity.
  - reflexivity.
  - cbn [json_encode]. apply bs_closed_cons; [reflexivity|]. apply bs_closed_app; [|reflexivity].
    apply sjoin_closed; [reflexivity|].
    induction H; constructor; auto.
  - cbn [json_encode]. apply bs_closed_cons; [reflexivity|]. apply bs_closed_app; [|reflexivity].
    apply sjoin_closed; [reflexivity|].
    apply Forall_map. apply isort_kv_Forall.
    induction H as [|[k v] l Hx Hl IH]; constructor; auto.
    unfold kv_text; cbn [fst snd]. apply bs_closed_app; [apply json_string_closed|].
    apply bs_closed_cons; [reflexivity|exact Hx].
Qed.

Lemma append_json_inert : forall j, stays_in_literal (append_json_body (json_encode j)).
Proof. intros. eapply append_json_go_lit. apply json_encode_closed. Qed.


(* ---- pieces ------------------------------------------------------------------------------------------ *)
Lemma inert_from_app : forall f g q,
  inert_from (f ++ g) q = match inert_from f q with Some q' => inert_from g q' | None => None end.
Proof.
  induction f as [|[s|s] f IH]; intros; cbn; auto.
  destruct q; auto. destruct (run_lit s InLit) as [[]|]; auto.
Qed.

Lemma flatten_app : forall f g, flatten (f ++ g) = flatten f +++ flatten g.
Proof. induction f; cbn; intros; auto. unfold flatten in *. cbn. rewrite IHf. now rewrite sapp_assoc. Qed.

Lemma pieces_app : forall x y, pieces (x ++ y) = (pieces x ++ pieces y)%list.
Proof. intros. unfold pieces. apply flat_map_app. Qed.

(* same skeleton + inert => same blanked text and same final state *)
Lemma blank_skel : forall f g q qf qg,
  skel f = skel g -> inert_from f q = Some qf -> inert_from g q = Some qg ->
  qf = qg /\ blank_go (flatten f) q = blank_go (flatten g) q.
Proof.
  induction f as [|[s|s] f IH]; intros [|[t|t] g] q qf qg Hs Hf Hg; try discriminate Hs.
  - cbn in *. split; congruence.
  - cbn in Hs. injection Hs as -> Hs. cbn in Hf, Hg.
    destruct (IH g _ _ _ Hs Hf Hg) as [-> Hb]. split; auto.
    unfold flatten in *. cbn. rewrite !blank_go_app. now rewrite Hb.
  - cbn in Hs. injection Hs as Hs. cbn in Hf, Hg.
    destruct q; try discriminate.
    destruct (run_lit s InLit) as [[]|] eqn:Es; try discriminate.
    destruct (run_lit t InLit) as [[]|] eqn:Et; try discriminate.
    destruct (IH g _ _ _ Hs Hf Hg) as [-> Hb]. split; auto.
    unfold flatten in *. cbn. rewrite !blank_go_app.
    rewrite (blank_go_lit s InLit InLit eq_refl Es), (blank_go_lit t InLit InLit eq_refl Et).
    rewrite (run_lit_scan _ _ _ Es), (run_lit_scan _ _ _ Et). cbn. exact Hb.
Qed.

(* ---- arguments ---------------------------------------------------------------------------------------- *)
Lemma digits_scan : forall s q, sall is_digit s = true -> (q = Code \/ q = InLit) -> scan s q = q.
Proof.
  induction s; cbn [scan sall]; intros; auto. apply andb_true_iff in H as [H1 H2].
  destruct (digit_facts a H1) as (_ & Hc & Hl & _).
  destruct H0 as [-> | ->]; [rewrite Hc|rewrite Hl]; apply IHs; auto.
Qed.

Lemma digits_scan_dash : forall s, sall is_digit s = true -> scan s CodeDash = CodeDash \/ scan s CodeDash = Code.
Proof.
  destruct s; cbn [scan sall]; intros; auto. apply andb_true_iff in H as [H1 H2].
  destruct (digit_facts a H1) as (_ & _ & _ & Hd). rewrite Hd. right. apply digits_scan; auto.
Qed.

Lemma body_inert : forall a, is_text_arg a = true -> run_lit (arg_body a) InLit = Some InLit.
Proof.
  intros [s|z|b| |l|l] H; try discriminate H; cbn [arg_body].
  - apply append_string_inert.
  - apply (append_json_inert (JArr l)).
  - apply (append_json_inert (JObj l)).
Qed.

Lemma arg_inert : forall a, exists q, inert_from (arg_pieces a) Code = Some q /\ codeish q = true.
Proof.
  intros a. unfold arg_pieces. destruct (is_text_arg a) eqn:E.
  - exists InLitQ. cbn. rewrite (body_inert a E). auto.
  - destruct a as [s|z|[]| |l|l]; try discriminate E; cbn [inert_from arg_body].
    + destruct (dec_z_shape z) as (d & Hd & [-> | ->]).
      * exists Code. rewrite digits_scan; auto.
      * cbn [scan]. change (step Code "-") with CodeDash.
        destruct (digits_scan_dash d Hd) as [-> | ->]; eauto.
    + exists CodeE. auto.
    + exists CodeE. auto.
    + exists Code. auto.
Qed.

Lemma flatten_arg : forall a, flatten (arg_pieces a) = append_arg a.
Proof. intros. unfold arg_pieces, append_arg. destruct (is_text_arg a); cbn; now rewrite ?sapp_nil_r. Qed.

(* ---- the three checks on a query text with provenance ----------------------------------------------- *)
Definition plain (s : string) : bool := sall plain_char s.
Definition ident_start (c : ascii) : bool := is_digit c || is_alpha c || (c =c? "(").
Definition starts_ok (s : string) : bool := match s with EmptyString => false | String c _ => negb (ident_start c) end.
Definition next_ok (r : list tpl) : bool := match r with [] => true | T s :: _ => starts_ok s | _ => false end.

(* wf: the texts contain no placeholder syntax of their own, and a placeholder is followed by a character that ends it *)
Fixpoint wf (tp : list tpl) : bool :=
  match tp with
  | [] => true
  | T s :: r => plain s && wf r
  | D _ :: r => wf r
  | C _ :: r => wf r
  | A _ :: r => next_ok r && wf r
  end.
(* cs_ok: client text formatted into the query text consists of address characters *)
Fixpoint cs_ok (tp : list tpl) : bool :=
  match tp with [] => true | C s :: r => sall addr_char s && cs_ok r | _ :: r => cs_ok r end.
Fixpoint noA (tp : list tpl) : bool :=
  match tp with [] => true | A _ :: _ => false | _ :: r => noA r end.

(* acheck: abstract run of the automaton; an argument takes Code to "some codeish state" *)
Inductive ast := Conc (q : qstate) | AnyC.
Definition neutral (c : ascii) : bool := negb (c =c? SQ) && negb (c =c? "-").
Definition astep_text (s : string) (a : ast) : option ast :=
  match a with
  | Conc q => Some (Conc (scan s q))
  | AnyC => match s with
            | EmptyString => Some AnyC
            | String c _ => if neutral c then Some (Conc (scan s Code)) else None
            end
  end.
Fixpoint acheck (tp : list tpl) (a : ast) : option ast :=
  match tp with
  | [] => Some a
  | T s :: r => match astep_text s a with Some a' => acheck r a' | None => None end
  | D _ :: r => match a with Conc Code => acheck r (Conc Code) | Conc InLit => acheck r (Conc InLit) | _ => None end
  | C _ :: r => match a with Conc InLit => acheck r (Conc InLit) | _ => None end
  | A _ :: r => match a with Conc Code => acheck r AnyC | _ => None end
  end.
Definition arel (a : ast) (q : qstate) : Prop := match a with Conc q' => q = q' | AnyC => codeish q = true end.
Definition aend (a : ast) : bool := match a with Conc q => codeish q | AnyC => true end.

Lemma acheck_app : forall x y a,
  acheck (x ++ y) a = match acheck x a with Some a' => acheck y a' | None => None end.
Proof.
  induction x as [|[s|n|s|v] x IH]; intros; cbn; auto.
  - destruct (astep_text s a); auto.
  - destruct a as [[]|]; auto.
  - destruct a as [[]|]; auto.
  - destruct a as [[]|]; auto.
Qed.

Lemma neutral_step : forall q c, codeish q = true -> neutral c = true -> step q c = step Code c.
Proof.
  intros q c Hq Hn. unfold neutral in Hn. apply andb_true_iff in Hn as [H1 H2].
  apply negb_true_iff in H1. apply negb_true_iff in H2.
  destruct q; try discriminate Hq; cbn [step]; auto; try rewrite H1; try rewrite H2; auto.
Qed.

Lemma addr_chars_lit : forall s, sall addr_char s = true -> run_lit s InLit = Some InLit.
Proof.
  induction s; cbn [sall run_lit]; intros; auto. apply andb_true_iff in H as [H1 H2].
  destruct (addr_char_facts a H1) as (Hq & _). rewrite (step_lit_nq a Hq). cbn. auto.
Qed.

Lemma acheck_sound : forall tp a a', acheck tp a = Some a' -> cs_ok tp = true ->
  forall q, arel a q -> exists q', inert_from (pieces tp) q = Some q' /\ arel a' q'.
Proof.
  induction tp as [|[s|n|s|v] tp IH]; intros a a' Hc Hcs q Hr.
  - cbn in *. injection Hc as <-. eauto.
  - cbn [acheck] in Hc. destruct (astep_text s a) as [a1|] eqn:E; [|discriminate].
    cbn [pieces flat_map tpl_pieces app inert_from]. eapply IH; eauto.
    destruct a as [q0|]; cbn in E.
    + injection E as <-. cbn in *. now subst.
    + destruct s as [|c s]; [injection E as <-; exact Hr|].
      destruct (neutral c) eqn:En; [|discriminate]. injection E as <-. cbn in *.
      now rewrite (neutral_step q c Hr En).
  - cbn [acheck] in Hc. cbn [pieces flat_map tpl_pieces app inert_from].
    destruct a as [[]|]; try discriminate Hc; cbn in Hr; subst q;
      rewrite (digits_scan _ _ (dec_digits n)) by auto; eapply IH; eauto; reflexivity.
  - cbn [acheck] in Hc. cbn [cs_ok] in Hcs. apply andb_true_iff in Hcs as [H1 H2].
    destruct a as [[]|]; try discriminate Hc. cbn in Hr; subst q.
    cbn [pieces flat_map tpl_pieces app inert_from]. rewrite (addr_chars_lit s H1).
    eapply IH; eauto. reflexivity.
  - cbn [acheck] in Hc. destruct a as [[]|]; try discriminate Hc. cbn in Hr; subst q.
    change (pieces (A v :: tp)) with (arg_pieces v ++ pieces tp)%list.
    rewrite inert_from_app. destruct (arg_inert v) as (q1 & -> & Hq1).
    eapply IH; eauto.
Qed.

(* ---- bun's formatter on such a text substitutes exactly the placeholders ---------------------------- *)
Definition flat_text (t : tpl) : string := match t with T s => s | D n => dec n | C s => s | A a => append_arg a end.
Definition flat (tp : list tpl) : string := sconcat (map flat_text tp).

Lemma flat_pieces : forall tp, flat tp = flatten (pieces tp).
Proof.
  induction tp as [|[s|n|s|v] tp IH]; auto; unfold flat in *; cbn [map sconcat]; rewrite IH.
  - reflexivity.
  - reflexivity.
  - reflexivity.
  - change (pieces (A v :: tp)) with (arg_pieces v ++ pieces tp)%list. now rewrite flatten_app, flatten_arg.
Qed.

Lemma fmt_FN_step : forall c r args idx,
  fmt_go (String c r) FN args idx = fst (normal_step c) +++ fmt_go r (snd (normal_step c)) args idx.
Proof. intros. cbn [fmt_go]. destruct (normal_step c); reflexivity. Qed.

Lemma fmt_plain : forall s rest args idx, plain s = true ->
  fmt_go (s +++ rest) FN args idx = s +++ fmt_go rest FN args idx.
Proof.
  induction s as [|c s IH]; intros; [reflexivity|].
  cbn [plain sall] in H. apply andb_true_iff in H as [H1 H2].
  unfold plain_char in H1. apply andb_true_iff in H1 as [Hq Hb].
  apply negb_true_iff in Hq. apply negb_true_iff in Hb.
  cbn [String.append]. rewrite fmt_FN_step. unfold normal_step. rewrite Hb, Hq. cbn [fst snd String.append].
  f_equal. apply IH; auto.
Qed.

Lemma fmt_qmark : forall rest args idx a,
  (rest = "" \/ exists c r, rest = String c r /\ ident_start c = false) ->
  nth_error args idx = Some a ->
  fmt_go (String "?" rest) FN args idx = append_arg a +++ fmt_go rest FN args (S idx).
Proof.
  intros rest args idx a Hr Hn.
  rewrite fmt_FN_step. change (normal_step "?") with (EmptyString, FI EmptyString false). cbn [fst snd String.append].
  destruct Hr as [-> | (c & r & -> & Hc)].
  - cbn. rewrite Hn. cbn. now rewrite sapp_nil_r.
  - unfold ident_start in Hc. apply orb_false_iff in Hc as [Hc Hp]. apply orb_false_iff in Hc as [Hd Ha].
    cbn [fmt_go is_empty]. rewrite Hp, Hd, Ha. cbn [andb orb negb].
    change (srev "") with "". cbn [end_ident]. rewrite Hn.
    destruct (normal_step c) as [e st']. reflexivity.
Qed.

Lemma plain_of_addr : forall s, sall addr_char s = true -> plain s = true.
Proof. apply sall_impl. intros c H. now destruct (addr_char_facts c H) as (_ & ? & _). Qed.
Lemma plain_of_digits : forall s, sall is_digit s = true -> plain s = true.
Proof. intros. apply plain_of_addr. eapply sall_impl; [|exact H]. intros c Hc. now destruct (digit_facts c Hc). Qed.

Lemma q_text_cons : forall t tp, q_text (t :: tp) = tpl_text t +++ q_text tp.
Proof. reflexivity. Qed.

Lemma fmt_bridge : forall tp pre, wf tp = true -> cs_ok tp = true ->
  fmt_go (q_text tp) FN (pre ++ q_args tp) (List.length pre) = flat tp.
Proof.
  induction tp as [|[s|n|s|v] tp IH]; intros pre Hw Hc.
  - reflexivity.
  - cbn [wf] in Hw. apply andb_true_iff in Hw as [H1 H2].
    rewrite q_text_cons. cbn [tpl_text q_args]. rewrite fmt_plain by auto. unfold flat. cbn [map sconcat flat_text].
    f_equal. apply IH; auto.
  - cbn [wf] in Hw. rewrite q_text_cons. cbn [tpl_text q_args].
    rewrite fmt_plain by (apply plain_of_digits, dec_digits). unfold flat. cbn [map sconcat flat_text].
    f_equal. apply IH; auto.
  - cbn [wf] in Hw. cbn [cs_ok] in Hc. apply andb_true_iff in Hc as [H1 H2].
    rewrite q_text_cons. cbn [tpl_text q_args]. rewrite fmt_plain by (now apply plain_of_addr).
    unfold flat. cbn [map sconcat flat_text]. f_equal. apply IH; auto.
  - cbn [wf] in Hw. apply andb_true_iff in Hw as [H1 H2]. cbn [cs_ok] in Hc.
    rewrite q_text_cons. cbn [tpl_text q_args]. change ("?" +++ q_text tp) with (String "?" (q_text tp)).
    rewrite (fmt_qmark _ _ _ v).
    + unfold flat. cbn [map sconcat flat_text]. f_equal.
      specialize (IH (pre ++ [v])%list H2 Hc). rewrite <- app_assoc in IH. cbn [app] in IH.
      rewrite app_length in IH. cbn in IH. replace (List.length pre + 1) with (S (List.length pre)) in IH by lia. exact IH.
    + destruct tp as [|[s|n|s|w] tp]; try discriminate H1; [left; reflexivity|].
      cbn [next_ok] in H1. destruct s as [|c s]; [discriminate|]. right. exists c, (s +++ q_text tp).
      split; [reflexivity|]. cbn in H1. now apply negb_true_iff in H1.
    + rewrite nth_error_app2 by lia. now rewrite Nat.sub_diag.
Qed.

Lemma where_sql_flat : forall tp, wf tp = true -> cs_ok tp = true -> where_sql tp = flatten (pieces tp).
Proof. intros. unfold where_sql, bun_format. rewrite <- flat_pieces. exact (fmt_bridge tp [] H H0). Qed.

(* ---- composition of the checks ---------------------------------------------------------------------- *)
Lemma next_ok_app : forall x y, x <> [] -> next_ok (x ++ y) = next_ok x.
Proof. destruct x; [congruence|reflexivity]. Qed.

Lemma wf_app : forall x y, wf x = true -> wf y = true -> next_ok y = true -> wf (x ++ y) = true.
Proof.
  induction x as [|[s|n|s|v] x IH]; intros y Hx Hy Hn; cbn [app wf] in *; auto.
  - apply andb_true_iff in Hx as [H1 H2]. rewrite H1. cbn. auto.
  - apply andb_true_iff in Hx as [H1 H2]. rewrite IH by auto. rewrite andb_true_r.
    destruct x; [exact Hn|exact H1].
Qed.

Lemma wf_app_noA : forall x y, noA x = true -> wf x = true -> wf y = true -> wf (x ++ y) = true.
Proof.
  induction x as [|[s|n|s|v] x IH]; intros y Hn Hx Hy; cbn [app wf noA] in *; auto; try discriminate.
  apply andb_true_iff in Hx as [H1 H2]. rewrite H1. cbn. auto.
Qed.

Lemma cs_ok_app : forall x y, cs_ok (x ++ y) = cs_ok x && cs_ok y.
Proof. induction x as [|[s|n|s|v] x IH]; intros; cbn [app cs_ok]; auto. rewrite IH. now rewrite andb_assoc. Qed.

Lemma noA_app : forall x y, noA (x ++ y) = noA x && noA y.
Proof. induction x as [|[s|n|s|v] x IH]; intros; cbn [app noA]; auto. Qed.


(* ---- the address grammar ------------------------------------------------------------------------------ *)
Lemma seg_go_chars : forall s need, seg_go s need = true -> sall seg_char s = true.
Proof.
  induction s as [|c s IH]; intros need H; [reflexivity|]. cbn [seg_go] in H. cbn [sall].
  unfold seg_char at 1. destruct (is_word c) eqn:Ew.
  - cbn. eauto.
  - destruct (Ascii.eqb c "-") eqn:Ed; cbn in H; [|discriminate].
    cbn. destruct need; cbn in H; [discriminate|]. eauto.
Qed.

Definition segs_ok (l : list string) : Prop := Forall (fun g => sall seg_char g = true) l.

Lemma valid_segs : forall a, valid_filter a = true -> segs_ok (split_colon a).
Proof.
  intros a H. unfold valid_filter in H. rewrite forallb_forall in H. apply Forall_forall. intros g Hg.
  specialize (H g Hg). destruct g; [reflexivity|]. cbn [is_empty orb] in H. eapply seg_go_chars; exact H.
Qed.

Lemma segs_addr : forall a, segs_ok (split_colon a) -> sall addr_char a = true.
Proof.
  induction a as [|c a IH]; intros H; [reflexivity|]. cbn [split_colon] in H. cbn [sall].
  destruct (Ascii.eqb c ":") eqn:Ec.
  - inversion H; subst. apply Ascii.eqb_eq in Ec. subst c. cbn. auto.
  - destruct (split_colon a) as [|h t] eqn:Es.
    + inversion H; subst. cbn [sall] in H2. apply andb_true_iff in H2 as [H2 _].
      rewrite (seg_addr_char c H2). cbn. apply IH. constructor.
    + inversion H; subst. cbn [sall] in H2. apply andb_true_iff in H2 as [H2 H2'].
      rewrite (seg_addr_char c H2). cbn. apply IH. constructor; auto.
Qed.

Lemma valid_addr_chars : forall a, valid_filter a = true -> sall addr_char a = true.
Proof. intros. apply segs_addr, valid_segs, H. Qed.

Lemma seg_addr : forall g, sall seg_char g = true -> sall addr_char g = true.
Proof. apply sall_impl, seg_addr_char. Qed.

Lemma json_body_id : forall s, sall addr_char s = true -> json_body s = s.
Proof.
  unfold json_body. induction s as [|c s IH]; intros H; [reflexivity|]. cbn [sall] in H.
  apply andb_true_iff in H as [H1 H2]. destruct (addr_char_facts c H1) as (_ & _ & Hl & He).
  cbn [json_body_go]. rewrite Hl, He. cbn. f_equal. auto.
Qed.

(* ---- templates without arguments: from state q0 to state q1 ----------------------------------------- *)
Definition good_from (q0 : qstate) (tp : list tpl) (q1 : qstate) : Prop :=
  acheck tp (Conc q0) = Some (Conc q1) /\ wf tp = true /\ cs_ok tp = true /\ noA tp = true.

Lemma good_nil : forall q, good_from q [] q.
Proof. repeat split. Qed.

Lemma good_seq : forall q0 q1 q2 x y, good_from q0 x q1 -> good_from q1 y q2 -> good_from q0 (x ++ y) q2.
Proof.
  intros q0 q1 q2 x y (A1 & W1 & C1 & N1) (A2 & W2 & C2 & N2). repeat split.
  - rewrite acheck_app, A1. exact A2.
  - apply wf_app_noA; auto.
  - rewrite cs_ok_app, C1, C2. reflexivity.
  - rewrite noA_app, N1, N2. reflexivity.
Qed.

Lemma good_text : forall q s, plain s = true -> good_from q [T s] (scan s q).
Proof. intros. repeat split. cbn. now rewrite H. Qed.

Lemma good_join : forall q sep l, scan sep q = q -> plain sep = true ->
  Forall (fun x => good_from q x q) l -> good_from q (tjoin sep l) q.
Proof.
  intros q sep l Hs Hp H. induction H as [|x l Hx Hl IH]; [apply good_nil|].
  cbn [tjoin]. destruct l as [|y l]; [exact Hx|].
  eapply good_seq; [exact Hx|].
  change (T sep :: tjoin sep (y :: l)) with ([T sep] ++ tjoin sep (y :: l))%list.
  eapply good_seq; [|exact IH]. rewrite <- Hs at 2. now apply good_text.
Qed.

Definition addr_key (key : string) : Prop := key = "accounts.address" \/ key = "account_address".

(* filterAccountAddress *)
Lemma seg_parts_good : forall key l i, addr_key key -> segs_ok l ->
  Forall (fun x => good_from Code x Code) (seg_parts key i l).
Proof.
  intros key l. induction l as [|g l IH]; intros i Hk Hl; [constructor|].
  inversion Hl; subst. cbn [seg_parts]. destruct (is_empty g); [auto|].
  constructor; [|auto].
  pose proof (seg_addr g H1) as Hg.
  destruct Hk as [-> | ->]; repeat split; cbn [cs_ok]; rewrite ?Hg; reflexivity.
Qed.

Lemma render_address_good : forall key a, addr_key key -> valid_filter a = true ->
  exists q1, good_from Code (render_address key a) q1 /\ codeish q1 = true.
Proof.
  intros key a Hk Hv. unfold render_address.
  pose proof (valid_segs a Hv) as Hs. pose proof (valid_addr_chars a Hv) as Ha.
  destruct (has_empty (split_colon a)).
  - exists Code. split; [|reflexivity].
    apply good_join; [reflexivity|reflexivity|].
    constructor; [|now apply seg_parts_good].
    destruct Hk as [-> | ->]; repeat split.
  - exists InLitQ. split; [|reflexivity].
    destruct Hk as [-> | ->]; repeat split; cbn [cs_ok]; rewrite ?Ha; reflexivity.
Qed.

(* filterAccountAddressOnTransactions *)
Definition entry_ok (e : mentry) : Prop :=
  match snd (snd e) with MSeg g => sall addr_char g = true | MNull => True end.

Lemma insert_m_Forall : forall (P : mentry -> Prop) x l, P x -> Forall P l -> Forall P (insert_m x l).
Proof.
  induction l; cbn; intros; [auto|]. inversion H0; subst. destruct (str_ltb (fst a) (fst x)); auto.
Qed.
Lemma isort_m_Forall : forall (P : mentry -> Prop) l, Forall P l -> Forall P (isort_m l).
Proof. induction 1; cbn; auto using insert_m_Forall. Qed.

Lemma seg_entries_ok : forall l i, segs_ok l -> Forall entry_ok (seg_entries i l).
Proof.
  induction l as [|g l IH]; intros i H; [constructor|]. inversion H; subst. cbn [seg_entries].
  destruct (is_empty g); [auto|]. constructor; [|auto]. unfold entry_ok; cbn. now apply seg_addr.
Qed.

Lemma entry_good : forall e, entry_ok e -> good_from InLit (entry_tpl e) InLit.
Proof.
  intros [k [i [|g]]] H; unfold entry_ok in H; cbn [snd] in H; unfold entry_tpl; cbn [snd fst].
  - repeat split.
  - rewrite (json_body_id g H). repeat split; cbn [cs_ok]; rewrite ?H; reflexivity.
Qed.

Lemma on_tx_data_good : forall a, valid_filter a = true -> good_from InLit (on_tx_data a) InLit.
Proof.
  intros a Hv. unfold on_tx_data.
  pose proof (valid_segs a Hv) as Hs. pose proof (valid_addr_chars a Hv) as Ha.
  destruct (has_empty (split_colon a)).
  - change (T "[{" :: ?x) with ([T "[{"] ++ x)%list.
    eapply good_seq; [apply (good_text InLit "[{"); reflexivity|]. cbn [scan].
    eapply good_seq; [|apply (good_text InLit "}]"); reflexivity].
    apply good_join; [reflexivity|reflexivity|].
    apply Forall_map. eapply Forall_impl; [intros e He; apply entry_good; exact He|].
    apply isort_m_Forall. constructor; [exact I|now apply seg_entries_ok].
  - rewrite (json_body_id a Ha). repeat split; cbn [cs_ok]; rewrite ?Ha; reflexivity.
Qed.


Lemma col_good : forall a (seg : bool) c, valid_filter a = true -> (c = "sources" \/ c = "destinations") ->
  good_from Code ((T ((if seg then c +++ "_arrays" else c) +++ " @> '") :: on_tx_data a) ++ [T "'"]) InLitQ.
Proof.
  intros a seg c Hv Hc.
  change (T ?s :: on_tx_data a) with ([T s] ++ on_tx_data a)%list.
  eapply good_seq; [eapply good_seq; [|apply on_tx_data_good; exact Hv]|].
  - assert (scan ((if seg then c +++ "_arrays" else c) +++ " @> '") Code = InLit) as <-
      by (destruct Hc as [-> | ->], seg; reflexivity).
    apply good_text. destruct Hc as [-> | ->], seg; reflexivity.
  - apply (good_text InLit "'"). reflexivity.
Qed.

Lemma render_on_tx_good : forall a s d, valid_filter a = true ->
  exists q1, good_from Code (render_address_on_tx a s d) q1 /\ codeish q1 = true.
Proof.
  intros a s d Hv. unfold render_address_on_tx.
  set (seg := has_empty (split_colon a)).
  pose proof (col_good a seg "sources" Hv (or_introl eq_refl)) as H1.
  pose proof (col_good a seg "destinations" Hv (or_intror eq_refl)) as H2.
  remember ((T ((if seg then "sources" +++ "_arrays" else "sources") +++ " @> '") :: on_tx_data a) ++ [T "'"])%list as c1.
  remember ((T ((if seg then "destinations" +++ "_arrays" else "destinations") +++ " @> '") :: on_tx_data a) ++ [T "'"])%list as c2.
  clear Heqc1 Heqc2.
  destruct s, d; cbn [app tjoin].
  - exists InLitQ. split; [|reflexivity].
    eapply good_seq; [exact H1|].
    change (T " or " :: c2) with ([T " or "] ++ c2)%list.
    eapply good_seq; [|exact H2]. apply (good_text InLitQ " or "). reflexivity.
  - exists InLitQ. split; [exact H1|reflexivity].
  - exists InLitQ. split; [exact H2|reflexivity].
  - exists Code. split; [apply good_nil|reflexivity].
Qed.

(* ---- the harmless twin has the same skeleton ------------------------------------------------------ *)
Definition askel (a : jval) : jval := if is_text_arg a then JStr "" else a.
Definition tsk (t : tpl) : tpl := match t with C _ => C "" | A a => A (askel a) | x => x end.

Lemma skel_app : forall f g, skel (f ++ g) = (skel f ++ skel g)%list.
Proof. intros. apply map_app. Qed.

Lemma skel_tsk : forall tp tp', map tsk tp = map tsk tp' -> skel (pieces tp) = skel (pieces tp').
Proof.
  induction tp as [|t tp IH]; intros [|t' tp'] H; try discriminate H; [reflexivity|].
  cbn [map] in H. injection H as Ht H.
  change (pieces (t :: tp)) with (tpl_pieces t ++ pieces tp)%list.
  change (pieces (t' :: tp')) with (tpl_pieces t' ++ pieces tp')%list.
  rewrite !skel_app, (IH _ H). f_equal.
  destruct t as [s|n|s|a], t' as [s'|n'|s'|a']; try discriminate Ht; cbn in Ht |- *; try congruence.
  injection Ht as Ht. unfold askel in Ht. unfold arg_pieces.
  destruct (is_text_arg a) eqn:Ea, (is_text_arg a') eqn:Ea'; cbn; try reflexivity.
  - subst a'. discriminate Ea'.
  - subst a. discriminate Ea.
  - now subst.
Qed.

Definition hmap (c : ascii) : ascii := if c =c? ":" then ":"%char else "x"%char.
Lemma harmless_addr_eq : forall a, harmless_addr a = smap hmap a.
Proof. reflexivity. Qed.

Lemma split_smap : forall a, split_colon (smap hmap a) = map (smap hmap) (split_colon a).
Proof.
  induction a as [|c a IH]; [reflexivity|]. cbn [smap split_colon]. unfold hmap at 1.
  destruct (Ascii.eqb c ":") eqn:Ec.
  - cbn. now rewrite IH.
  - cbn. rewrite IH. destruct (split_colon a); cbn; [|reflexivity].
    unfold hmap. now rewrite Ec.
Qed.

Lemma is_empty_smap : forall f g, is_empty (smap f g) = is_empty g.
Proof. destruct g; reflexivity. Qed.

Lemma has_empty_map : forall f l, has_empty (map (smap f) l) = has_empty l.
Proof. unfold has_empty. induction l; cbn [map existsb]; auto. now rewrite is_empty_smap, IHl. Qed.

Lemma tsk_tjoin : forall sep l, map tsk (tjoin sep l) = tjoin sep (map (map tsk) l).
Proof.
  induction l as [|x l IH]; [reflexivity|]. cbn [tjoin map]. destruct l as [|y l]; [reflexivity|].
  rewrite map_app. cbn [map]. rewrite IH. reflexivity.
Qed.

Lemma seg_parts_twin : forall key f l i,
  map (map tsk) (seg_parts key i (map (smap f) l)) = map (map tsk) (seg_parts key i l).
Proof.
  induction l as [|g l IH]; intros; [reflexivity|]. cbn [map seg_parts]. rewrite is_empty_smap.
  destruct (is_empty g); [apply IH|]. cbn [map]. rewrite IH. reflexivity.
Qed.

Lemma render_address_twin : forall key a,
  map tsk (render_address key (harmless_addr a)) = map tsk (render_address key a).
Proof.
  intros. unfold render_address. rewrite harmless_addr_eq, split_smap, has_empty_map, map_length.
  destruct (has_empty (split_colon a)); [|reflexivity].
  rewrite !tsk_tjoin. cbn [map]. now rewrite seg_parts_twin.
Qed.

(* sorting the entries only looks at the keys *)
Definition emap (f : string -> string) (e : mentry) : mentry :=
  (fst e, (fst (snd e), match snd (snd e) with MNull => MNull | MSeg g => MSeg (f g) end)).

Lemma insert_m_map : forall f x l, insert_m (emap f x) (map (emap f) l) = map (emap f) (insert_m x l).
Proof.
  induction l as [|y l IH]; [reflexivity|]. cbn [map insert_m]. cbn [emap fst].
  destruct (str_ltb (fst y) (fst x)); cbn [map]; [now rewrite <- IH|reflexivity].
Qed.
Lemma isort_m_map : forall f l, isort_m (map (emap f) l) = map (emap f) (isort_m l).
Proof. induction l; [reflexivity|]. cbn [map isort_m]. now rewrite IHl, insert_m_map. Qed.

Lemma seg_entries_twin : forall f l i, seg_entries i (map (smap f) l) = map (emap (smap f)) (seg_entries i l).
Proof.
  induction l as [|g l IH]; intros; [reflexivity|]. cbn [map seg_entries]. rewrite is_empty_smap.
  destruct (is_empty g); [apply IH|]. cbn [map]. now rewrite IH.
Qed.

Lemma entry_tpl_twin : forall f e, map tsk (entry_tpl (emap f e)) = map tsk (entry_tpl e).
Proof. intros f [k [i [|g]]]; reflexivity. Qed.

Lemma on_tx_data_twin : forall a, map tsk (on_tx_data (harmless_addr a)) = map tsk (on_tx_data a).
Proof.
  intros. unfold on_tx_data. rewrite harmless_addr_eq, split_smap, has_empty_map, map_length.
  destruct (has_empty (split_colon a)); [|reflexivity].
  cbn [map]. rewrite !map_app, !tsk_tjoin. cbn [map]. do 3 f_equal.
  rewrite seg_entries_twin.
  change ((dec ?n, (?n, MNull)) :: map (emap ?f) ?l) with (map (emap f) ((dec n, (n, MNull)) :: l)).
  rewrite isort_m_map, !map_map. apply map_ext. intros e. apply entry_tpl_twin.
Qed.

Lemma render_on_tx_twin : forall a s d,
  map tsk (render_address_on_tx (harmless_addr a) s d) = map tsk (render_address_on_tx a s d).
Proof.
  intros. unfold render_address_on_tx.
  rewrite !tsk_tjoin. f_equal. rewrite !map_app.
  assert (has_empty (split_colon (harmless_addr a)) = has_empty (split_colon a)) as ->
    by (rewrite harmless_addr_eq, split_smap; apply has_empty_map).
  f_equal; [destruct s|destruct d]; try reflexivity; cbn [map]; rewrite !map_app; cbn [map tsk];
    now rewrite on_tx_data_twin.
Qed.

(* the twin of a valid address filter is valid *)
Lemma seg_twin_false : forall s, sall seg_char s = true -> seg_go (smap hmap s) false = true.
Proof.
  induction s as [|c s IH]; intros H; [reflexivity|]. cbn [sall] in H. apply andb_true_iff in H as [H1 H2].
  cbn [smap seg_go]. assert (hmap c = "x"%char) as ->.
  { unfold hmap. destruct (Ascii.eqb c ":") eqn:E; [|reflexivity]. apply Ascii.eqb_eq in E. subst c. discriminate H1. }
  cbn. auto.
Qed.

Lemma valid_twin : forall a, valid_filter a = true -> valid_filter (harmless_addr a) = true.
Proof.
  intros a Hv. pose proof (valid_segs a Hv) as Hs. unfold valid_filter.
  rewrite harmless_addr_eq, split_smap. rewrite forallb_forall. intros g Hg.
  apply in_map_iff in Hg as (g0 & <- & Hin). unfold segs_ok in Hs. rewrite Forall_forall in Hs. specialize (Hs g0 Hin).
  rewrite is_empty_smap. destruct g0 as [|c g0]; [reflexivity|]. cbn [is_empty orb].
  cbn [sall] in Hs. apply andb_true_iff in Hs as [H1 H2].
  unfold seg_ok. cbn [smap seg_go]. assert (hmap c = "x"%char) as ->.
  { unfold hmap. destruct (Ascii.eqb c ":") eqn:E; [|reflexivity]. apply Ascii.eqb_eq in E. subst c. discriminate H1. }
  cbn. now apply seg_twin_false.
Qed.


(* ---- a query text is good: bun substitutes exactly its placeholders, and every client character of the result
        lies inside a literal ------------------------------------------------------------------------------ *)
Definition good (tp : list tpl) : Prop :=
  wf tp = true /\ cs_ok tp = true /\ exists a', acheck tp (Conc Code) = Some a' /\ aend a' = true.

Lemma good_of_from : forall tp q1, good_from Code tp q1 -> codeish q1 = true -> good tp.
Proof. intros tp q1 (A1 & W & Cs & _) Hq. repeat split; auto. exists (Conc q1). auto. Qed.

Ltac good_concrete := repeat split; eexists; split; reflexivity.

Lemma eqb_or_cases : forall k a b, String.eqb k a || String.eqb k b = true -> k = a \/ k = b.
Proof. intros. apply orb_true_iff in H as [H|H]; apply String.eqb_eq in H; auto. Qed.

Lemma leaf_good : forall L p lg k o v tp, leaf L p lg k o v = LOk tp -> good tp.
Proof.
  intros L p lg k o v tp. unfold leaf. destruct L.
  - (* accounts *)
    destruct (String.eqb k "address").
    { unfold addr_leaf. destruct (negb (is_match o)); [discriminate|]. destruct v; try discriminate.
      destruct (valid_filter s) eqn:Hv; [|discriminate]. intros [= <-].
      destruct (render_address_good "accounts.address" s (or_introl eq_refl) Hv) as (q1 & H1 & H2).
      eapply good_of_from; eauto. }
    destruct (meta_key k).
    { unfold meta_leaf. destruct (negb (is_match o)); [discriminate|]. intros [= <-].
      destruct (pit_set p); good_concrete. }
    destruct (bal_key k).
    { intros [= <-]. good_concrete. }
    destruct (String.eqb k "balance"); [|discriminate]. intros [= <-]. good_concrete.
  - (* transactions *)
    destruct (String.eqb k "reference" || String.eqb k "timestamp") eqn:E1.
    { intros [= <-]. apply eqb_or_cases in E1. destruct E1 as [-> | ->], o; good_concrete. }
    destruct (String.eqb k "account").
    { unfold addr_leaf. destruct (negb (is_match o)); [discriminate|]. destruct v; try discriminate.
      destruct (valid_filter s) eqn:Hv; [|discriminate]. intros [= <-].
      destruct (render_on_tx_good s true true Hv) as (q1 & H1 & H2). eapply good_of_from; eauto. }
    destruct (String.eqb k "source").
    { unfold addr_leaf. destruct (negb (is_match o)); [discriminate|]. destruct v; try discriminate.
      destruct (valid_filter s) eqn:Hv; [|discriminate]. intros [= <-].
      destruct (render_on_tx_good s true false Hv) as (q1 & H1 & H2). eapply good_of_from; eauto. }
    destruct (String.eqb k "destination").
    { unfold addr_leaf. destruct (negb (is_match o)); [discriminate|]. destruct v; try discriminate.
      destruct (valid_filter s) eqn:Hv; [|discriminate]. intros [= <-].
      destruct (render_on_tx_good s false true Hv) as (q1 & H1 & H2). eapply good_of_from; eauto. }
    destruct (meta_key k); [|discriminate].
    unfold meta_leaf. destruct (negb (is_match o)); [discriminate|]. intros [= <-].
    destruct (pit_set p); good_concrete.
  - (* balances *)
    destruct (String.eqb k "address").
    { unfold addr_leaf. destruct (negb (is_match o)); [discriminate|]. destruct v; try discriminate.
      destruct (valid_filter s) eqn:Hv; [|discriminate]. intros [= <-].
      destruct (render_address_good "account_address" s (or_intror eq_refl) Hv) as (q1 & H1 & H2).
      eapply good_of_from; eauto. }
    destruct (meta_key k); [|discriminate].
    unfold meta_leaf. destruct (negb (is_match o)); [discriminate|]. intros [= <-].
    destruct (pit_nonnil p); good_concrete.
  - (* logs *)
    destruct (String.eqb k "date"); [|discriminate]. intros [= <-]. destruct o; good_concrete.
Qed.

(* ---- trees ------------------------------------------------------------------------------------------ *)
Definition qtree_ind2 (P : qtree -> Prop)
  (Hl : forall k o v, P (QLeaf k o v)) (Ha : forall l, Forall P l -> P (QAnd l))
  (Ho : forall l, Forall P l -> P (QOr l)) (Hn : forall t, P t -> P (QNot t)) : forall t, P t :=
  fix go (t : qtree) : P t :=
    match t with
    | QLeaf k o v => Hl k o v
    | QAnd l => Ha l ((fix gl (l : list qtree) : Forall P l :=
                         match l with [] => Forall_nil _ | x :: r => Forall_cons _ (go x) (gl r) end) l)
    | QOr l => Ho l ((fix gl (l : list qtree) : Forall P l :=
                        match l with [] => Forall_nil _ | x :: r => Forall_cons _ (go x) (gl r) end) l)
    | QNot t => Hn t (go t)
    end.

Lemma build_and : forall ctx l, build ctx (QAnd l) = build_set "and" (map (build ctx) l).
Proof. intros. reflexivity. Qed.
Lemma build_or : forall ctx l, build ctx (QOr l) = build_set "or" (map (build ctx) l).
Proof. intros. reflexivity. Qed.

Definition set_sep (s : string) : Prop := s = ") and (" \/ s = ") or (".

Lemma sep_step : forall sep a', set_sep sep -> aend a' = true -> astep_text sep a' = Some (Conc Code).
Proof. intros sep a' [-> | ->] H; destruct a' as [[]|]; try discriminate H; reflexivity. Qed.
Lemma close_step : forall a', aend a' = true -> astep_text ")" a' = Some (Conc Code).
Proof. intros a' H; destruct a' as [[]|]; try discriminate H; reflexivity. Qed.

Lemma join_good : forall sep l, set_sep sep -> l <> [] -> Forall good l ->
  wf (tjoin sep l) = true /\ cs_ok (tjoin sep l) = true /\
  exists a', acheck (tjoin sep l) (Conc Code) = Some a' /\ aend a' = true.
Proof.
  intros sep l Hs Hn H. induction H as [|x l Hx Hl IH]; [congruence|].
  cbn [tjoin]. destruct l as [|y l]; [exact Hx|].
  destruct IH as (W & Cs & a2 & A2 & E2); [discriminate|].
  destruct Hx as (Wx & Cx & a1 & A1 & E1).
  assert (plain sep = true /\ starts_ok sep = true) as [Hp Hst] by (destruct Hs as [-> | ->]; split; reflexivity).
  repeat split.
  - apply wf_app; auto. cbn [wf]. now rewrite Hp, W.
  - rewrite cs_ok_app, Cx. exact Cs.
  - exists a2. split; [|exact E2]. rewrite acheck_app, A1. cbn [acheck]. rewrite (sep_step sep a1 Hs E1). exact A2.
Qed.

Lemma first_err_oks : forall rs, first_err rs = None -> map LOk (oks rs) = rs.
Proof. induction rs as [|[tp|b] rs IH]; cbn; intros; [reflexivity| |discriminate]. now rewrite IH. Qed.

Lemma set_good : forall opname rs tp, (opname = "and" \/ opname = "or") ->
  Forall (fun r => forall tp, r = LOk tp -> good tp) rs -> build_set opname rs = LOk tp -> good tp.
Proof.
  intros opname rs tp Ho H. unfold build_set. destruct rs as [|r rs]; [intros [= <-]; good_concrete|].
  destruct (first_err (r :: rs)) eqn:Ef; [discriminate|].
  assert (Forall good (oks (r :: rs))) as Hg.
  { rewrite <- (first_err_oks _ Ef) in H. apply Forall_forall. intros x Hx. rewrite Forall_forall in H.
    apply (H (LOk x)); [now apply in_map|reflexivity]. }
  assert (oks (r :: rs) <> []) as Hne.
  { pose proof (first_err_oks _ Ef) as E. intro E0. rewrite E0 in E. discriminate E. }
  assert (set_sep (") " +++ opname +++ " (")) as Hs by (destruct Ho as [-> | ->]; [left|right]; reflexivity).
  remember (oks (r :: rs)) as tps. remember (") " +++ opname +++ " (") as sep. clear Heqtps Heqsep.
  intros [= <-].
  destruct (join_good _ _ Hs Hne Hg) as (W & Cs & a' & Ac & Ea).
  repeat split.
  - change ((T "(" :: tjoin sep tps) ++ [T ")"])%list with (T "(" :: (tjoin sep tps ++ [T ")"]))%list.
    cbn [wf]. apply andb_true_iff. split; [reflexivity|]. apply wf_app; auto.
  - change ((T "(" :: tjoin sep tps) ++ [T ")"])%list with (T "(" :: (tjoin sep tps ++ [T ")"]))%list.
    cbn [cs_ok]. rewrite cs_ok_app, Cs. reflexivity.
  - exists (Conc Code). split; [|reflexivity].
    change ((T "(" :: tjoin sep tps) ++ [T ")"])%list with (T "(" :: (tjoin sep tps ++ [T ")"]))%list.
    cbn [acheck astep_text scan].
    change (step Code "(") with Code. rewrite acheck_app, Ac. cbn [acheck]. now rewrite (close_step a' Ea).
Qed.

Lemma not_good : forall r tp, (forall tp, r = LOk tp -> good tp) -> build_not r = LOk tp -> good tp.
Proof.
  intros r tp H. destruct r as [tp0|b]; [|discriminate]. cbn [build_not]. intros [= <-].
  destruct (H tp0 eq_refl) as (W & Cs & a' & Ac & Ea). repeat split.
  - change ((T "not (" :: tp0) ++ [T ")"])%list with (T "not (" :: (tp0 ++ [T ")"]))%list.
    cbn [wf]. apply andb_true_iff. split; [reflexivity|]. apply wf_app; auto.
  - change ((T "not (" :: tp0) ++ [T ")"])%list with (T "not (" :: (tp0 ++ [T ")"]))%list.
    cbn [cs_ok]. rewrite cs_ok_app, Cs. reflexivity.
  - exists (Conc Code). split; [|reflexivity].
    change ((T "not (" :: tp0) ++ [T ")"])%list with (T "not (" :: (tp0 ++ [T ")"]))%list.
    cbn [acheck astep_text].
    change (scan "not (" Code) with Code. rewrite acheck_app, Ac. cbn [acheck]. now rewrite (close_step a' Ea).
Qed.

Lemma build_good : forall L p lg t tp, build (leaf L p lg) t = LOk tp -> good tp.
Proof.
  intros L p lg t. induction t using qtree_ind2; intros tp Hb.
  - cbn [build] in Hb. eapply leaf_good; eauto.
  - rewrite build_and in Hb. eapply set_good; [left; reflexivity| |exact Hb].
    apply Forall_map. exact H.
  - rewrite build_or in Hb. eapply set_good; [right; reflexivity| |exact Hb].
    apply Forall_map. exact H.
  - cbn [build] in Hb. eapply not_good; eauto.
Qed.

(* ---- consequences of good ----------------------------------------------------------------------------- *)
Lemma good_inert : forall tp, good tp -> inert (pieces tp).
Proof.
  intros tp (W & Cs & a' & Ac & Ea).
  destruct (acheck_sound tp (Conc Code) a' Ac Cs Code eq_refl) as (q' & Hi & Hr).
  exists q'. split; auto. destruct a'; cbn in *; [now subst|exact Hr].
Qed.

Lemma good_where : forall tp, good tp -> where_sql tp = flatten (pieces tp).
Proof. intros tp (W & Cs & _). now apply where_sql_flat. Qed.

Lemma inert_scan : forall f q q', inert_from f q = Some q' -> scan (flatten f) q = q'.
Proof.
  induction f as [|[s|s] f IH]; intros q q' H; cbn in H.
  - now injection H.
  - unfold flatten. cbn [map sconcat piece_text]. rewrite scan_app. now apply IH.
  - destruct q; try discriminate. destruct (run_lit s InLit) as [[]|] eqn:E; try discriminate.
    unfold flatten. cbn [map sconcat piece_text]. rewrite scan_app, (run_lit_scan _ _ _ E). now apply IH.
Qed.

Lemma same_blank : forall f g, inert f -> inert g -> skel f = skel g ->
  forall P S, scan P Code = Code -> blank (P +++ flatten f +++ S) = blank (P +++ flatten g +++ S).
Proof.
  intros f g (qf & Hf & _) (qg & Hg & _) Hs P S HP. unfold blank.
  rewrite !blank_go_app, ?scan_app, !HP.
  destruct (blank_skel f g Code qf qg Hs Hf Hg) as [-> Hb].
  rewrite Hb, (inert_scan _ _ _ Hf), (inert_scan _ _ _ Hg). reflexivity.
Qed.


Lemma askel_harmless : forall v, askel (harmless_val v) = askel v.
Proof. destruct v as [s|z|b| |l|l]; reflexivity. Qed.

Definition twin_ok (r r' : lres) : Prop :=
  forall tp, r = LOk tp -> exists tp', r' = LOk tp' /\ map tsk tp' = map tsk tp.

Lemma addr_leaf_twin : forall o pe (f : string -> list tpl),
  (forall a, map tsk (f (harmless_addr a)) = map tsk (f a)) ->
  forall v, twin_ok (addr_leaf o v pe f)
                    (addr_leaf o (match v with JStr a => JStr (harmless_addr a) | x => harmless_val x end) pe f).
Proof.
  intros o pe f Hf v tp. unfold addr_leaf. destruct (negb (is_match o)); [discriminate|].
  destruct v as [s|z|b| |l|l]; try discriminate.
  destruct (valid_filter s) eqn:Hv; [|discriminate]. intros [= <-].
  rewrite (valid_twin s Hv). eexists; split; [reflexivity|apply Hf].
Qed.

Lemma meta_leaf_twin : forall o col k v, twin_ok (meta_leaf o col k v) (meta_leaf o col "abc" (harmless_val v)).
Proof.
  intros o col k v tp. unfold meta_leaf. destruct (negb (is_match o)); [discriminate|]. intros [= <-].
  eexists; split; reflexivity.
Qed.

Lemma leaf_twin : forall L p lg k o v,
  twin_ok (leaf L p lg k o v) (leaf L p lg (fst (harmless_leaf L k v)) o (snd (harmless_leaf L k v))).
Proof.
  intros L p lg k o v. unfold harmless_leaf, key_class, leaf. destruct L.
  - (* accounts *)
    destruct (String.eqb k "address") eqn:E1.
    { cbn [fst snd]. rewrite E1. apply addr_leaf_twin. apply render_address_twin. }
    destruct (meta_key k) eqn:E2.
    { cbn [fst snd]. change (String.eqb "metadata[abc]" "address") with false.
      change (meta_key "metadata[abc]") with (Some "abc"). apply meta_leaf_twin. }
    destruct (bal_key k) eqn:E3.
    { cbn [fst snd]. change (String.eqb "balance[abc]" "address") with false.
      change (meta_key "balance[abc]") with (@None string). change (bal_key "balance[abc]") with (Some "abc").
      intros tp [= <-]. eexists; split; [reflexivity|]. cbn [map tsk]. now rewrite askel_harmless. }
    cbn [fst snd]. rewrite E1, E2, E3.
    destruct (String.eqb k "balance"); [|intros tp; discriminate].
    intros tp [= <-]. eexists; split; [reflexivity|]. cbn [map tsk]. now rewrite askel_harmless.
  - (* transactions *)
    destruct (String.eqb k "reference" || String.eqb k "timestamp") eqn:E1.
    { cbn [fst snd]. rewrite E1. intros tp [= <-]. eexists; split; [reflexivity|]. cbn [map tsk]. now rewrite askel_harmless. }
    destruct (String.eqb k "account") eqn:E2.
    { cbn [orb fst snd]. rewrite E1, E2. apply addr_leaf_twin. intros; apply render_on_tx_twin. }
    destruct (String.eqb k "source") eqn:E3.
    { cbn [orb fst snd]. rewrite E1, E2, E3. apply addr_leaf_twin. intros; apply render_on_tx_twin. }
    destruct (String.eqb k "destination") eqn:E4.
    { cbn [orb fst snd]. rewrite E1, E2, E3, E4. apply addr_leaf_twin. intros; apply render_on_tx_twin. }
    cbn [orb]. destruct (meta_key k) eqn:E5.
    { cbn [fst snd]. change (String.eqb "metadata[abc]" "reference" || String.eqb "metadata[abc]" "timestamp") with false.
      change (String.eqb "metadata[abc]" "account") with false. change (String.eqb "metadata[abc]" "source") with false.
      change (String.eqb "metadata[abc]" "destination") with false.
      change (meta_key "metadata[abc]") with (Some "abc"). apply meta_leaf_twin. }
    intros tp; discriminate.
  - (* balances *)
    destruct (String.eqb k "address") eqn:E1.
    { cbn [fst snd]. rewrite E1. apply addr_leaf_twin. apply render_address_twin. }
    destruct (meta_key k) eqn:E2.
    { cbn [fst snd]. change (String.eqb "metadata[abc]" "address") with false.
      change (meta_key "metadata[abc]") with (Some "abc"). apply meta_leaf_twin. }
    intros tp; discriminate.
  - (* logs *)
    cbn [fst snd]. destruct (String.eqb k "date"); [|intros tp; discriminate].
    intros tp [= <-]. eexists; split; [reflexivity|]. cbn [map tsk]. now rewrite askel_harmless.
Qed.

Lemma harmless_and : forall L l, harmless L (QAnd l) = QAnd (map (harmless L) l).
Proof. reflexivity. Qed.
Lemma harmless_or : forall L l, harmless L (QOr l) = QOr (map (harmless L) l).
Proof. reflexivity. Qed.

Lemma set_twin : forall opname rs rs',
  Forall2 twin_ok rs rs' -> twin_ok (build_set opname rs) (build_set opname rs').
Proof.
  intros opname rs rs' H tp. unfold build_set.
  destruct H as [|r r' rs rs' Hr Hrs]; [intros [= <-]; eexists; split; reflexivity|].
  assert (Forall2 twin_ok (r :: rs) (r' :: rs')) as H by (constructor; auto).
  remember (r :: rs) as l. remember (r' :: rs') as l'. clear Heql Heql' Hr Hrs r r' rs rs'.
  destruct (first_err l) eqn:Ef; [discriminate|]. intros [= <-].
  assert (first_err l' = None /\ map (map tsk) (oks l') = map (map tsk) (oks l)) as [Ef' Ho].
  { induction H as [|r r' l l' Hr Hl IH]; [split; reflexivity|].
    destruct r as [tp|b]; [|discriminate]. cbn [first_err] in Ef.
    destruct (Hr tp eq_refl) as (tp' & -> & Ht). cbn [first_err oks map].
    destruct (IH Ef) as [-> ->]. split; [reflexivity|]. now rewrite Ht. }
  rewrite Ef'. eexists; split; [reflexivity|].
  cbn [app map]. rewrite !map_app. cbn [map]. rewrite !tsk_tjoin, Ho. reflexivity.
Qed.

Lemma build_twin : forall L p lg t, twin_ok (build (leaf L p lg) t) (build (leaf L p lg) (harmless L t)).
Proof.
  intros L p lg t. induction t using qtree_ind2.
  - cbn [build harmless]. pose proof (leaf_twin L p lg k o v) as H.
    destruct (harmless_leaf L k v) as [k' v']. exact H.
  - rewrite harmless_and, !build_and. apply set_twin. rewrite map_map.
    induction H; cbn [map]; constructor; auto.
  - rewrite harmless_or, !build_or. apply set_twin. rewrite map_map.
    induction H; cbn [map]; constructor; auto.
  - cbn [build harmless]. intros tp. destruct (build (leaf L p lg) t) as [tp0|b] eqn:E; [|discriminate].
    cbn [build_not]. intros [= <-]. destruct (IHt tp0 eq_refl) as (tp' & -> & Ht).
    eexists; split; [reflexivity|]. cbn [app map]. rewrite !map_app. cbn [map]. now rewrite Ht.
Qed.

(* ---- the statements used by Properties/C20.v --------------------------------------------------------- *)
Lemma tree_same_structure : forall L p lg t tp, build (leaf L p lg) t = LOk tp ->
  inert (pieces tp) /\ where_sql tp = flatten (pieces tp) /\
  exists tp', build (leaf L p lg) (harmless L t) = LOk tp' /\ skel (pieces tp') = skel (pieces tp) /\
    forall P S, scan P Code = Code ->
      blank (P +++ where_sql tp +++ S) = blank (P +++ where_sql tp' +++ S).
Proof.
  intros L p lg t tp Hb. pose proof (build_good _ _ _ _ _ Hb) as G.
  destruct (build_twin L p lg t tp Hb) as (tp' & Hb' & Ht).
  pose proof (build_good _ _ _ _ _ Hb') as G'.
  split; [now apply good_inert|]. split; [now apply good_where|].
  exists tp'. split; [exact Hb'|]. pose proof (skel_tsk _ _ Ht) as Hs. split; [exact Hs|].
  intros P S HP. rewrite (good_where tp G), (good_where tp' G').
  apply same_blank; auto using good_inert.
Qed.

Lemma token_shape : forall L p lg t tp, build (leaf L p lg) t = LOk tp ->
  exists tp', build (leaf L p lg) (harmless L t) = LOk tp' /\
    forall P S, scan P Code = Code -> tokens (P +++ where_sql tp +++ S) = tokens (P +++ where_sql tp' +++ S).
Proof.
  intros. destruct (tree_same_structure _ _ _ _ _ H) as (_ & _ & tp' & Hb & _ & Hbl).
  exists tp'. split; auto. intros. unfold tokens. now rewrite Hbl.
Qed.

Lemma render_inert : forall L p lg k o v f, render L p lg k o v = ROk f ->
  inert f /\ skel f = skeleton L p lg k o v.
Proof.
  intros L p lg k o v f. unfold render, skeleton.
  destruct (leaf L p lg k o v) as [tp|b] eqn:E; [|discriminate]. intros [= <-].
  split; [apply good_inert; eapply leaf_good; eauto|].
  pose proof (leaf_twin L p lg k o v tp E) as (tp' & E' & Ht).
  destruct (harmless_leaf L k v) as [k' v']. cbn [fst snd] in E'. rewrite E'.
  symmetry. now apply skel_tsk.
Qed.

Lemma render_single : forall L p lg k o v pre v' post, render L p lg k o v = ROk [Fx pre; Cl v'; Fx post] ->
  scan pre Code = InLit /\ stays_in_literal v' /\ skeleton L p lg k o v = [Fx pre; Cl ""; Fx post].
Proof.
  intros. destruct (render_inert _ _ _ _ _ _ _ H) as [(q & Hi & _) Hs].
  cbn in Hi. destruct (scan pre Code); try discriminate.
  unfold stays_in_literal. destruct (run_lit v' InLit) as [[]|]; try discriminate.
  repeat split. now rewrite <- Hs.
Qed.
