(* M4, second layer — the per-ledger abstract machines. Definitions only.

   The SQL keeps all ledgers of a bucket in the same tables and links rows by global sequence numbers. The three
   machines below are what ONE ledger's rows go through, with the links resolved (moves and revisions hang on
   addresses / transaction ids, positions in the newest-first lists stand for seq order). They are total functions
   of that ledger's own log entries. Storage/Refine.v proves that the concrete model projects onto them
   ([absA l d = A_run (ledger_logs l L)] etc. whenever [run L = Some d]) and that every ledger-scoped read of the
   concrete model factors through the projection; this is what makes ledger isolation a theorem without any
   exclusion. Storage/Proofs.v then compares the machines with the oracle of Storage/Replay.v.                      *)
From FL Require Export Storage.Model.
Local Open Scope Z_scope.

Definition ledger_logs (l : N) (L : list log) : list log := filter (fun e => N.eqb (l_ledger e) l) L.

Definition memN (a : N) (l : list N) : bool := existsb (N.eqb a) l.

(* ---- A: known accounts and moves --------------------------------------------------------------------------------- *)
Record bmove := {
  b_addr : N; b_asset : N; b_amount : Z; b_ins : Z; b_eff : Z; b_pcv : vol; b_pcev : vol; b_src : bool; b_txid : Z
}.

Definition bkey (a s : N) (m : bmove) : bool := N.eqb (b_addr m) a && N.eqb (b_asset m) s.

(* order by effective_date desc, seq desc on a newest-first list: the newer row wins ties *)
Definition b_eff_better (x y : bmove) : bool := Z.leb (b_eff y) (b_eff x).

Definition b_upd (is_source : bool) (amount : Z) (m : bmove) : bmove :=
  {| b_addr := b_addr m; b_asset := b_asset m; b_amount := b_amount m; b_ins := b_ins m; b_eff := b_eff m;
     b_pcv := b_pcv m;
     b_pcev := (oadd (fst (b_pcev m)) (Some (if is_source then 0 else amount)),
                oadd (snd (b_pcev m)) (Some (if is_source then amount else 0)));
     b_src := b_src m; b_txid := b_txid m |}.

Definition A_insert_move (ms : list bmove) (txid : Z) (ins eff : Z) (addr asset : N) (amount : Z)
           (is_source : bool) (ex : bool) : list bmove :=
  let same := bkey addr asset in
  let '(pcv, pcev) :=
    if ex then
      match filter same ms with
      | [] => (vol0, vol0)
      | last :: _ =>
          (b_pcv last,
           match pick_best b_eff_better (filter (fun m => same m && Z.leb (b_eff m) eff) ms) with
           | Some e => b_pcev e
           | None => volnull
           end)
      end
    else (vol0, vol0) in
  let new := {| b_addr := addr; b_asset := asset; b_amount := amount; b_ins := ins; b_eff := eff;
                b_pcv := bump pcv is_source amount; b_pcev := bump pcev is_source amount; b_src := is_source;
                b_txid := txid |} in
  if ex then map (fun m => if same m && Z.ltb eff (b_eff m) then b_upd is_source amount m else m) (new :: ms)
  else new :: ms.

Definition A_known_add (a : N) (known : list N) : list N := if memN a known then known else a :: known.

Definition stateA := (list N * list bmove)%type.

Definition A_posting (txid ins eff : Z) (st : stateA) (p : posting) : stateA :=
  let '(known, ms) := st in
  let sx := memN (p_src p) known in
  let dx := memN (p_dst p) known in
  let known := A_known_add (p_dst p) (A_known_add (p_src p) known) in
  let ms := A_insert_move ms txid ins eff (p_src p) (p_asset p) (p_amt p) true sx in
  let ms := A_insert_move ms txid ins eff (p_dst p) (p_asset p) (p_amt p) false dx in
  (known, ms).

Definition A_tx (st : stateA) (tx : txdata) (date : Z) : stateA :=
  fold_left (A_posting (t_id tx) date (t_ts tx)) (t_postings tx) st.

Definition A_step (st : stateA) (e : log) : stateA :=
  match l_data e with
  | PNew tx am =>
      let '(known, ms) := A_tx st tx (l_date e) in
      (fold_left (fun k kv => A_known_add (fst kv) k) am known, ms)
  | PRevert tx _ => A_tx st tx (l_date e)
  | PSet (TAccount a) _ => (A_known_add a (fst st), snd st)
  | _ => st
  end.

Definition A_run (Ls : list log) : stateA := fold_left A_step Ls ([], []).

(* reads *)
Definition A_assets (ms : list bmove) : list N := sort_dedup (map b_asset ms).

Definition A_volumes (ms : list bmove) (a : N) (before : option Z) : list (N * vol) :=
  flat_map (fun s => match filter (fun m => before_ok before (b_ins m) && bkey a s m) ms with
                     | m :: _ => [(b_asset m, b_pcv m)]
                     | [] => []
                     end) (A_assets ms).

Definition A_effective_volumes (ms : list bmove) (a : N) (before : option Z) : list (N * vol) :=
  flat_map (fun s => match pick_best b_eff_better (filter (fun m => before_ok before (b_eff m) && bkey a s m) ms) with
                     | Some m => [(b_asset m, b_pcev m)]
                     | None => []
                     end) (A_assets ms).

Definition A_balance (ms : list bmove) (a s : N) (before : option Z) : option Z :=
  match filter (fun m => before_ok before (b_eff m) && bkey a s m) ms with
  | m :: _ => osub (fst (b_pcv m)) (snd (b_pcv m))
  | [] => None
  end.

Definition A_latest_per_key (ms : list bmove) : list bmove :=
  flat_map (fun k => match filter (bkey (fst k) (snd k)) ms with m :: _ => [m] | [] => [] end)
           (sort_dedup_pairs (map (fun m => (b_addr m, b_asset m)) ms)).

Definition A_sum_by_asset (proj : bmove -> vol) (ms : list bmove) : list (N * vol) :=
  map (fun s => let g := filter (fun m => N.eqb (b_asset m) s) ms in
                (s, (osum (map (fun m => fst (proj m)) g), osum (map (fun m => snd (proj m)) g))))
      (sort_dedup (map b_asset ms)).

Definition A_aggregate_ledger_volumes (ms : list bmove) (before : option Z) : list (N * vol) :=
  A_sum_by_asset b_pcev (A_latest_per_key (filter (fun m => before_ok before (b_eff m)) ms)).

Definition A_aggregated_volumes (ms : list bmove) (pit : option Z) : list (N * vol) :=
  A_sum_by_asset b_pcv (A_latest_per_key (filter (fun m => before_ok pit (b_ins m)) ms)).

Definition A_tx_volumes (proj : bmove -> vol) (ms : list bmove) (txid : Z) : list ((N * N) * vol) :=
  let ms := filter (fun m => Z.eqb (b_txid m) txid) ms in
  flat_map (fun k => match rev (filter (bkey (fst k) (snd k)) ms) with
                     | m :: _ => [(k, proj m)]
                     | [] => []
                     end) (sort_dedup_pairs (map (fun m => (b_addr m, b_asset m)) ms)).

(* ---- B: accounts and their metadata revisions ------------------------------------------------------------------------ *)
Definition brev := (option Z * Z * meta)%type.            (* revision, date, metadata; newest first *)
Record bacc := { ba_addr : N; ba_ins : Z; ba_upd : Z; ba_meta : meta; ba_hist : list brev }.

Definition brev_desc (x y : brev) : bool :=
  match fst (fst x), fst (fst y) with
  | None, Some _ => true
  | Some a, Some b => Z.ltb b a
  | _, _ => false
  end.

Definition B_next_rev (h : list brev) : option Z :=
  match pick_best brev_desc h with Some r => oadd (fst (fst r)) (Some 1) | None => None end.

Definition B_find (accs : list bacc) (a : N) : option bacc :=
  match rev (filter (fun r => N.eqb (ba_addr r) a) accs) with r :: _ => Some r | [] => None end.

Definition B_upsert (accs : list bacc) (a : N) (m : option meta) (date : Z) : list bacc :=
  let m' := match m with Some x => x | None => [] end in
  match B_find accs a with
  | None => {| ba_addr := a; ba_ins := date; ba_upd := date; ba_meta := m'; ba_hist := [(Some 1, date, m')] |} :: accs
  | Some old =>
      if negb (meta_contains (ba_meta old) m') then
        let mm := meta_merge (ba_meta old) m' in
        map (fun r => if N.eqb (ba_addr r) a then
                        {| ba_addr := ba_addr old; ba_ins := ba_ins old; ba_upd := date; ba_meta := mm;
                           ba_hist := (B_next_rev (ba_hist r), date, mm) :: ba_hist r |}
                      else r) accs
      else accs
  end.

Definition B_delete (accs : list bacc) (a k : N) (date : Z) : list bacc :=
  map (fun r => if N.eqb (ba_addr r) a then
                  let mm := meta_del (ba_meta r) k in
                  {| ba_addr := ba_addr r; ba_ins := ba_ins r; ba_upd := date; ba_meta := mm;
                     ba_hist := (B_next_rev (ba_hist r), date, mm) :: ba_hist r |}
                else r) accs.

Definition B_posting (ins : Z) (am : list (N * meta)) (accs : list bacc) (p : posting) : list bacc :=
  B_upsert (B_upsert accs (p_src p) (am_get am (p_src p)) ins) (p_dst p) (am_get am (p_dst p)) ins.

Definition B_step (accs : list bacc) (e : log) : list bacc :=
  match l_data e with
  | PNew tx am =>
      fold_left (fun accs kv => B_upsert accs (fst kv) (Some (snd kv)) (t_ts tx)) am
                (fold_left (B_posting (l_date e) am) (t_postings tx) accs)
  | PRevert tx _ => fold_left (B_posting (l_date e) []) (t_postings tx) accs
  | PSet (TAccount a) m => B_upsert accs a (Some m) (l_date e)
  | PDel (TAccount a) k => B_delete accs a k (l_date e)
  | _ => accs
  end.

Definition B_run (Ls : list log) : list bacc := fold_left B_step Ls [].

Definition B_get_account (accs : list bacc) (a : N) : option meta :=
  match B_find accs a with
  | None => None
  | Some r => match pick_best brev_desc (ba_hist r) with Some h => Some (snd h) | None => Some [] end
  end.

Definition B_get_account_pit (accs : list bacc) (a : N) (pit : Z) : option (option meta) :=
  match rev (filter (fun r => N.eqb (ba_addr r) a && Z.leb (ba_ins r) pit) accs) with
  | [] => None
  | r :: _ => match pick_best brev_desc (filter (fun h => Z.ltb (snd (fst h)) pit) (ba_hist r)) with
              | Some h => Some (Some (snd h))
              | None => Some None
              end
  end.

(* ---- C: transactions and their metadata revisions ---------------------------------------------------------------------- *)
Definition crev := (Z * Z * meta)%type.                    (* revision, date, metadata; newest first *)
Record btx := { bx_id : Z; bx_ts : Z; bx_ref : option N; bx_reverted_at : option Z; bx_updated_at : option Z;
                bx_postings : list posting; bx_meta : meta; bx_hist : list crev }.

Definition crev_desc (x y : crev) : bool := Z.ltb (fst (fst y)) (fst (fst x)).

Definition C_next_rev (h : list crev) : Z :=
  match pick_best crev_desc h with Some r => fst (fst r) + 1 | None => 0 end.

Definition C_insert (txs : list btx) (tx : txdata) : list btx :=
  {| bx_id := t_id tx; bx_ts := t_ts tx; bx_ref := t_ref tx; bx_reverted_at := None; bx_updated_at := Some (t_ts tx);
     bx_postings := t_postings tx; bx_meta := t_meta tx;
     bx_hist := [(0, t_ts tx, t_meta tx); (1, t_ts tx, t_meta tx)] |} :: txs.

Definition C_update (txs : list btx) (id : Z) (f : btx -> option Z * option Z * meta) : list btx :=
  map (fun r => if Z.eqb (bx_id r) id then
                  let '(ra, ua, mm) := f r in
                  {| bx_id := bx_id r; bx_ts := bx_ts r; bx_ref := bx_ref r; bx_reverted_at := ra; bx_updated_at := ua;
                     bx_postings := bx_postings r; bx_meta := mm;
                     bx_hist := (C_next_rev (bx_hist r), match ua with Some u => u | None => 0 end, mm) :: bx_hist r |}
                else r) txs.

Definition C_step (txs : list btx) (e : log) : list btx :=
  match l_data e with
  | PNew tx _ => C_insert txs tx
  | PRevert tx rid =>
      C_update (C_insert txs tx) rid (fun r => (Some (t_ts tx), bx_updated_at r, bx_meta r))
  | PSet (TTx id) m => C_update txs id (fun r => (bx_reverted_at r, Some (l_date e), meta_merge (bx_meta r) m))
  | PDel (TTx id) k => C_update txs id (fun r => (bx_reverted_at r, Some (l_date e), meta_del (bx_meta r) k))
  | _ => txs
  end.

Definition C_run (Ls : list log) : list btx := fold_left C_step Ls [].

Definition C_find (txs : list btx) (id : Z) : option btx :=
  match rev (filter (fun r => Z.eqb (bx_id r) id) txs) with r :: _ => Some r | [] => None end.

Definition C_get_transaction (txs : list btx) (id : Z) : option tx_view :=
  match C_find txs id with
  | None => None
  | Some r =>
      Some {| v_id := bx_id r; v_ts := bx_ts r; v_ref := bx_ref r; v_postings := bx_postings r;
              v_meta := match pick_best crev_desc (bx_hist r) with Some h => Some (snd h) | None => None end;
              v_reverted := match bx_reverted_at r with Some _ => true | None => false end |}
  end.

Definition C_get_transaction_pit (txs : list btx) (id : Z) (pit : Z) : option tx_view :=
  match rev (filter (fun r => Z.eqb (bx_id r) id && Z.leb (bx_ts r) pit) txs) with
  | [] => None
  | r :: _ =>
      Some {| v_id := bx_id r; v_ts := bx_ts r; v_ref := bx_ref r; v_postings := bx_postings r;
              v_meta := match pick_best crev_desc (filter (fun h => Z.leb (snd (fst h)) pit) (bx_hist r)) with
                        | Some h => Some (snd h)
                        | None => None
                        end;
              v_reverted := match bx_reverted_at r with Some ra => Z.leb ra pit | None => false end |}
  end.

(* ---- the ledger-scoped reads of the concrete model, as one function of (ledger, query) ------------------------------- *)
(* transactions.go passes transactions.seq of the selected row to get_aggregated_*_for_transaction *)
Definition tx_volumes_by_id (proj : move -> vol) (d : db) (l : N) (id : Z) : list ((N * N) * vol) :=
  match rev (filter (tx_is l id) (d_tx d)) with
  | r :: _ => tx_volumes proj d l (x_seq r)
  | [] => []
  end.

Inductive lquery :=
| LAssets
| LVolumes (a : N) (before : option Z)
| LEffVolumes (a : N) (before : option Z)
| LBalance (a s : N) (before : option Z)
| LAggLedger (before : option Z)
| LAggBalances (pit : option Z)
| LTxVolumes (id : Z)
| LTxEffVolumes (id : Z)
| LAccount (a : N)
| LAccountPit (a : N) (pit : Z)
| LTx (id : Z)
| LTxPit (id : Z) (pit : Z).

Definition c_kvols (l : list ((N * N) * vol)) : cell :=
  CL (map (fun kv => CL [CN (fst (fst kv)); CN (snd (fst kv)); c_vol (snd kv)]) l).

Definition read (d : db) (l : N) (q : lquery) : cell :=
  match q with
  | LAssets => CL (map CN (get_all_assets d l))
  | LVolumes a b => c_vols (get_all_account_volumes d l a b)
  | LEffVolumes a b => c_vols (get_all_account_effective_volumes d l a b)
  | LBalance a s b => c_oz (get_account_balance d l a s b)
  | LAggLedger b => c_vols (aggregate_ledger_volumes d l b)
  | LAggBalances p => c_vols (aggregated_volumes d l p)
  | LTxVolumes id => c_kvols (tx_volumes_by_id m_pcv d l id)
  | LTxEffVolumes id => c_kvols (tx_volumes_by_id m_pcev d l id)
  | LAccount a => c_ometa (get_account d l a)
  | LAccountPit a p => match get_account_pit d l a p with None => CNull | Some m => CL [c_ometa m] end
  | LTx id => c_txview (get_transaction d l id)
  | LTxPit id p => c_txview (get_transaction_pit d l id p)
  end.

(* the same reads on the machines *)
Definition aread (sa : stateA) (sb : list bacc) (sc : list btx) (q : lquery) : cell :=
  match q with
  | LAssets => CL (map CN (A_assets (snd sa)))
  | LVolumes a b => c_vols (A_volumes (snd sa) a b)
  | LEffVolumes a b => c_vols (A_effective_volumes (snd sa) a b)
  | LBalance a s b => c_oz (A_balance (snd sa) a s b)
  | LAggLedger b => c_vols (A_aggregate_ledger_volumes (snd sa) b)
  | LAggBalances p => c_vols (A_aggregated_volumes (snd sa) p)
  | LTxVolumes id => c_kvols (match C_find sc id with Some _ => A_tx_volumes b_pcv (snd sa) id | None => [] end)
  | LTxEffVolumes id => c_kvols (match C_find sc id with Some _ => A_tx_volumes b_pcev (snd sa) id | None => [] end)
  | LAccount a => c_ometa (B_get_account sb a)
  | LAccountPit a p => match B_get_account_pit sb a p with None => CNull | Some m => CL [c_ometa m] end
  | LTx id => c_txview (C_get_transaction sc id)
  | LTxPit id p => c_txview (C_get_transaction_pit sc id p)
  end.
