(* M4 — the statements of C04 on the concrete model: [run L = Some d] and the reads of [d], against the oracle applied
   to [ledger_logs l L]. Each lemma combines the projection theorem (Refine/Reads) with the machine-level result
   (Proofs). The witnesses of the known findings are at the end. *)
From Coq Require Import Lia Sorting.Sorted.
From FL Require Import Storage.Model Storage.Abs Storage.Refine Storage.Reads Storage.Replay Storage.Proofs.
Local Open Scope Z_scope.

Lemma run_absA : forall L d l, run L = Some d -> WF d /\ absA l d = A_run (ledger_logs l L).
Proof. intros L d l H. destruct (run_refines L d H) as [W R]. destruct (R l) as [RA _]. auto. Qed.

(* ---- volumes, balance ------------------------------------------------------------------------------------------------------ *)
Lemma c04_volumes_partial : forall L l d a pit,
  run L = Some d ->
  no_self_transfer_on_new_account (ledger_logs l L) = true ->
  (pit <> None -> dates_monotone (ledger_logs l L) = true) ->
  get_all_account_volumes d l a pit = vols_of (replay_volumes (ledger_logs l L) a pit).
Proof.
  intros L l d a pit H Hn Hd. destruct (run_absA L d l H) as [W RA].
  rewrite (get_all_account_volumes_abs d l a pit W), RA. apply A_volumes_replay; assumption.
Qed.

Lemma c04_balance_partial : forall L l d a s,
  run L = Some d -> no_self_transfer_on_new_account (ledger_logs l L) = true ->
  get_account_balance d l a s None = replay_balance (ledger_logs l L) a s.
Proof.
  intros L l d a s H Hn. destruct (run_absA L d l H) as [W RA].
  rewrite (get_account_balance_abs d l a s None W), RA. apply A_balance_replay; assumption.
Qed.

Lemma c04_effective_partial : forall L l d a pit,
  run L = Some d ->
  no_self_transfer_on_new_account (ledger_logs l L) = true ->
  all_utc (ledger_logs l L) = true ->
  no_backdating_before_first (ledger_logs l L) = true ->
  get_all_account_effective_volumes d l a pit = vols_of (replay_effective_volumes (ledger_logs l L) a pit).
Proof.
  intros L l d a pit H Hn Hu Hb. destruct (run_absA L d l H) as [W RA].
  rewrite (get_all_account_effective_volumes_abs d l a pit W), RA. apply A_effective_volumes_replay; assumption.
Qed.

(* ---- double entry -------------------------------------------------------------------------------------------------------------- *)
Definition vol_in (vs : list (N * vol)) (s : N) : Z :=
  match find (fun kv => N.eqb (fst kv) s) vs with Some (_, (Some i, _)) => i | _ => 0 end.
Definition vol_out (vs : list (N * vol)) (s : N) : Z :=
  match find (fun kv => N.eqb (fst kv) s) vs with Some (_, (_, Some o)) => o | _ => 0 end.

(* what the per-account read reports, summed over a list of accounts *)
Definition total_in (d : db) (l : N) (accts : list N) (s : N) (pit : option Z) : Z :=
  zsum (map (fun a => vol_in (get_all_account_volumes d l a pit) s) accts).
Definition total_out (d : db) (l : N) (accts : list N) (s : N) (pit : option Z) : Z :=
  zsum (map (fun a => vol_out (get_all_account_volumes d l a pit) s) accts).

Lemma find_per_asset : forall (f : N -> option (Z * Z)) assets s,
  NoDup assets ->
  find (fun kv => N.eqb (fst kv) s) (vols_of (per_asset f assets)) =
  if existsb (N.eqb s) assets then option_map (fun v => (s, vol_of v)) (f s) else None.
Proof.
  intros f assets s Hnd. unfold vols_of, per_asset. induction assets as [|x xs IH]; [reflexivity|].
  inversion Hnd as [|? ? Hn Hr]; subst. cbn [flat_map existsb]. rewrite map_app.
  destruct (N.eqb_spec s x) as [->|Hne].
  - cbn [orb]. destruct (f x) as [v|] eqn:E; cbn [map app find fst].
    + rewrite N.eqb_refl. reflexivity.
    + rewrite (IH Hr). destruct (existsb (N.eqb x) xs) eqn:EX; [|reflexivity].
      apply existsb_exists in EX. destruct EX as [y [Hy Ey]]. apply N.eqb_eq in Ey. subst. contradiction.
  - cbn [orb]. destruct (f x) as [v|]; cbn [map app find fst].
    + assert (N.eqb x s = false) as -> by (apply N.eqb_neq; congruence). apply IH. exact Hr.
    + apply IH. exact Hr.
Qed.

Lemma sort_dedup_NoDup : forall l, NoDup (sort_dedup l).
Proof.
  intros l. pose proof (sort_dedup_sorted l) as S. induction S as [|x r S IH F]; constructor; auto.
  intros C. rewrite Forall_forall in F. specialize (F x C). lia.
Qed.

Lemma replay_vol_in : forall Ls a s pit,
  vol_in (vols_of (replay_volumes Ls a pit)) s =
  fst (rvol (filter (fun m => before_ok pit (r_ins m) && rkey a s m) (replay_moves Ls))) /\
  vol_out (vols_of (replay_volumes Ls a pit)) s =
  snd (rvol (filter (fun m => before_ok pit (r_ins m) && rkey a s m) (replay_moves Ls))).
Proof.
  intros. unfold vol_in, vol_out, replay_volumes. rewrite find_per_asset by apply sort_dedup_NoDup.
  unfold replay_volume, replay_assets.
  destruct (existsb (N.eqb s) (sort_dedup (map r_asset (replay_moves Ls)))) eqn:EX.
  - destruct (filter _ (replay_moves Ls)) as [|x t]; cbn; auto.
  - assert (filter (fun m => before_ok pit (r_ins m) && rkey a s m) (replay_moves Ls) = []) as ->; [|cbn; auto].
    apply filter_none. intros m Hm. unfold rkey. destruct (N.eqb_spec (r_asset m) s) as [E|E]; [|rewrite !andb_false_r; reflexivity].
    exfalso. assert (existsb (N.eqb s) (sort_dedup (map r_asset (replay_moves Ls))) = true) as C; [|congruence].
    apply existsb_exists. exists s. split; [|apply N.eqb_refl]. apply sort_dedup_in. rewrite <- E. apply in_map. assumption.
Qed.

Lemma c04_double_entry_partial : forall L l d accts s pit,
  run L = Some d ->
  no_self_transfer_on_new_account (ledger_logs l L) = true ->
  (pit <> None -> dates_monotone (ledger_logs l L) = true) ->
  NoDup accts ->
  (forall r, In r (d_acc d) -> a_ledger r = l -> In (a_addr r) accts) ->
  total_in d l accts s pit = total_out d l accts s pit.
Proof.
  intros L l d accts s pit H Hn Hd Hnd Hcov. unfold total_in, total_out.
  set (Ls := ledger_logs l L) in *.
  rewrite (map_ext_in' _ (fun a => fst (rvol (filter (fun m => N.eqb (r_addr m) a)
             (filter (fun m => before_ok pit (r_ins m) && N.eqb (r_asset m) s) (replay_moves Ls)))))).
  2:{ intros a _. rewrite (c04_volumes_partial L l d a pit H Hn Hd). fold Ls. rewrite (proj1 (replay_vol_in Ls a s pit)).
      rewrite filter_filter. f_equal. f_equal. apply filter_ext. intros m. unfold rkey.
      destruct (before_ok pit (r_ins m)), (N.eqb (r_addr m) a), (N.eqb (r_asset m) s); reflexivity. }
  rewrite (map_ext_in' (fun a => vol_out _ s)
             (fun a => snd (rvol (filter (fun m => N.eqb (r_addr m) a)
                (filter (fun m => before_ok pit (r_ins m) && N.eqb (r_asset m) s) (replay_moves Ls)))))).
  2:{ intros a _. rewrite (c04_volumes_partial L l d a pit H Hn Hd). fold Ls. rewrite (proj2 (replay_vol_in Ls a s pit)).
      rewrite filter_filter. f_equal. f_equal. apply filter_ext. intros m. unfold rkey.
      destruct (before_ok pit (r_ins m)), (N.eqb (r_addr m) a), (N.eqb (r_asset m) s); reflexivity. }
  (* every move of the ledger is on an account of the list *)
  assert (Hall : forall m, In m (replay_moves Ls) -> In (r_addr m) accts).
  { destruct (run_absA L d l H) as [W RA]. fold Ls in RA.
    destruct (run_inv_from Ls ([], []) []) as [k1 [_ [K _]]]; [split; [constructor|split; [intros m []|intros a; reflexivity]]|exact Hn|].
    fold (A_run Ls) in K. rewrite <- RA in K. unfold absA in K. cbn [fst snd] in K.
    intros m Hm.
    assert (In (r_addr m) (map r_addr (replay_moves_sql Ls))) as Hs.
    { change r_addr with (fun x => r_addr (set_eff0 x)). rewrite <- (map_map set_eff0 r_addr), noeff_moves, map_map.
      apply (in_map (fun x => r_addr (set_eff0 x))). assumption. }
    apply in_map_iff in Hs. destruct Hs as [m' [Ea Hm']]. apply in_rev in Hm'. rewrite <- core_run, <- RA in Hm'.
    unfold absA in Hm'. cbn [snd] in Hm'. apply in_map_iff in Hm'. destruct Hm' as [bm [Ec Hbm]].
    specialize (K bm Hbm). unfold memN in K. apply existsb_exists in K. destruct K as [x [Hx Ex]]. apply N.eqb_eq in Ex.
    unfold abs_known in Hx. apply in_map_iff in Hx. destruct Hx as [r [Er Hr]]. apply filter_In in Hr. destruct Hr as [Hr Hl].
    apply N.eqb_eq in Hl. rewrite <- Ea, <- Ec. cbn [core r_addr]. rewrite Ex, <- Er. apply Hcov; assumption. }
  set (M := filter (fun m => before_ok pit (r_ins m) && N.eqb (r_asset m) s) (replay_moves Ls)).
  assert (HallM : forall m, In m M -> In (r_addr m) accts) by (intros m Hm; apply filter_In in Hm; apply Hall; tauto).
  change (fun a => fst (rvol (filter (fun m => N.eqb (r_addr m) a) M)))
    with (fun a => zsum (map r_in (filter (fun m => N.eqb (r_addr m) a) M))).
  change (fun a => snd (rvol (filter (fun m => N.eqb (r_addr m) a) M)))
    with (fun a => zsum (map r_out (filter (fun m => N.eqb (r_addr m) a) M))).
  rewrite (partition_accounts r_in accts M Hnd HallM), (partition_accounts r_out accts M Hnd HallM).
  exact (replay_double_entry Ls (fun t a => before_ok pit t && N.eqb a s)).
Qed.

(* ---- metadata, transactions (current state) ---------------------------------------------------------------------------------- *)
Lemma c04_account_meta : forall L l d a,
  run L = Some d -> ometa_equiv (get_account d l a) (replay_account_meta (ledger_logs l L) a None).
Proof.
  intros L l d a H. destruct (run_refines L d H) as [W R]. destruct (R l) as [_ [RB _]].
  rewrite get_account_abs, RB. apply B_get_account_replay.
Qed.

Lemma c04_tx_partial : forall L l d id,
  run L = Some d -> all_utc (ledger_logs l L) = true ->
  tx_view_equiv (get_transaction d l id) (replay_tx (ledger_logs l L) id None).
Proof.
  intros L l d id H Hu. destruct (run_refines L d H) as [W R]. destruct (R l) as [_ [_ RC]].
  rewrite get_transaction_abs, RC. apply C_get_transaction_replay. exact Hu.
Qed.

(* ---- metadata and transactions as of a date ---------------------------------------------------------------------------------- *)
Lemma c04_account_meta_pit_partial : forall L l d a pit,
  run L = Some d ->
  dates_monotone (ledger_logs l L) = true ->
  script_meta_same_date (ledger_logs l L) = true ->
  pit_not_a_log_date (ledger_logs l L) pit = true ->
  opit_equiv (get_account_pit d l a pit) (replay_account_meta (ledger_logs l L) a (Some pit)).
Proof.
  intros L l d a pit H Hm Hs Hp. destruct (run_refines L d H) as [W R]. destruct (R l) as [_ [RB _]].
  rewrite get_account_pit_abs, RB. apply B_get_account_pit_replay; assumption.
Qed.

Lemma ids_nodup : forall txs l, NoDup (map (fun r => (x_ledger r, x_id r)) txs) ->
  NoDup (map x_id (filter (fun r => N.eqb (x_ledger r) l) txs)).
Proof.
  induction txs as [|x txs IH]; intros l H; cbn; [constructor|]. inversion H as [|? ? Hn Hr]; subst.
  destruct (N.eqb_spec (x_ledger x) l) as [E|E]; [|apply IH; assumption].
  cbn. constructor; [|apply IH; assumption]. intros C. apply in_map_iff in C. destruct C as [y [Ey Hy]].
  apply filter_In in Hy. destruct Hy as [Hy Ly]. apply N.eqb_eq in Ly. apply Hn.
  apply in_map_iff. exists y. split; [|assumption]. congruence.
Qed.

Lemma c04_tx_pit_partial : forall L l d id pit,
  run L = Some d ->
  all_utc (ledger_logs l L) = true ->
  dates_monotone (ledger_logs l L) = true ->
  reverted_at_most_once (ledger_logs l L) id = true ->
  tx_view_equiv (get_transaction_pit d l id pit) (replay_tx (ledger_logs l L) id (Some pit)).
Proof.
  intros L l d id pit H Hu Hm Hc. destruct (run_refines L d H) as [W R]. destruct (R l) as [_ [_ RC]].
  rewrite get_transaction_pit_abs, RC. apply C_get_transaction_pit_replay; try assumption.
  rewrite <- RC. unfold absC. rewrite map_map. cbn [btx_of bx_id]. apply ids_nodup. apply (wt_key _ _ _ (wf_tx _ W)).
Qed.

(* ---- witnesses of the known findings ------------------------------------------------------------------------------------------- *)
Definition mk_tx (id ts off : Z) (ps : list posting) : txdata :=
  {| t_id := id; t_ts := ts; t_off := off; t_ref := None; t_postings := ps; t_meta := [] |}.
Definition mk_p (s d a : N) (amt : Z) : posting := {| p_src := s; p_dst := d; p_asset := a; p_amt := amt |}.
Definition mk_new (l : N) (id date : Z) (tx : txdata) : log := {| l_ledger := l; l_id := id; l_date := date; l_data := PNew tx [] |}.

(* F-C04a: world -> world 7 on a fresh ledger: the second move starts again from (0,0) *)
Definition W_self_transfer : list log := [ mk_new 1 0 100 (mk_tx 0 100 0 [mk_p 0 0 5 7]) ].
(* F-C04b: a transaction dated before every existing move of (account, asset) gets NULL effective volumes *)
Definition W_backdated : list log :=
  [ mk_new 1 0 100 (mk_tx 0 1000 0 [mk_p 0 1 5 7]); mk_new 1 1 101 (mk_tx 1 500 0 [mk_p 0 1 5 3]) ].
(* F-C04c: "10:00:00+02:00" is stored as 10:00:00 *)
Definition W_zone : list log := [ mk_new 1 0 100 (mk_tx 0 36000 7200 [mk_p 0 1 5 7]) ].
(* F-C04d: account metadata set at date 100, read "as of" 100 *)
Definition W_meta_pit : list log := [ {| l_ledger := 1; l_id := 0; l_date := 100; l_data := PSet (TAccount 1) [(3, 4)]%N |} ].
(* F-C04g: two postings from the same source: the transaction's post-commit volumes of the source are those after the
   FIRST posting *)
Definition W_tx_volumes_first : list log := [ mk_new 1 0 100 (mk_tx 0 100 0 [mk_p 0 1 5 10; mk_p 0 2 5 5]) ].
(* F-C04i: one account moves two assets in one transaction: only one asset survives in the jsonb *)
Definition W_tx_volumes_collapse : list log := [ mk_new 1 0 100 (mk_tx 0 100 0 [mk_p 0 1 5 10; mk_p 0 1 6 5]) ].

(* ---- GetAggregatedBalances --------------------------------------------------------------------------------------------------------- *)
Lemma replay_aggregated_lookup : forall Ls pit s,
  agg_lookup (vols_of (replay_aggregated Ls pit)) s =
  option_map vol_of (some_vol (filter (fun m => before_ok pit (r_ins m) && N.eqb (r_asset m) s) (replay_moves Ls))).
Proof.
  intros. unfold agg_lookup, replay_aggregated. rewrite find_per_asset by apply sort_dedup_NoDup.
  unfold replay_assets. destruct (existsb (N.eqb s) (sort_dedup (map r_asset (replay_moves Ls)))) eqn:EX.
  - destruct (some_vol _); reflexivity.
  - assert (filter (fun m => before_ok pit (r_ins m) && N.eqb (r_asset m) s) (replay_moves Ls) = []) as ->; [|reflexivity].
    apply filter_none. intros m Hm. destruct (N.eqb_spec (r_asset m) s) as [E|E]; [|apply andb_false_r].
    exfalso. assert (existsb (N.eqb s) (sort_dedup (map r_asset (replay_moves Ls))) = true) as C; [|congruence].
    apply existsb_exists. exists s. split; [|apply N.eqb_refl]. apply sort_dedup_in. rewrite <- E. apply in_map. assumption.
Qed.

Lemma c04_aggregate_partial : forall L l d pit s,
  run L = Some d ->
  no_self_transfer_on_new_account (ledger_logs l L) = true ->
  (pit <> None -> dates_monotone (ledger_logs l L) = true) ->
  agg_lookup (aggregated_volumes d l pit) s = agg_lookup (vols_of (replay_aggregated (ledger_logs l L) pit)) s.
Proof.
  intros L l d pit s H Hn Hd. destruct (run_absA L d l H) as [W RA].
  rewrite (aggregated_volumes_abs d l pit W), RA, replay_aggregated_lookup. apply A_aggregated_lookup; assumption.
Qed.

(* what GET /aggregate/balances reports is zero for every asset: inputs = outputs over the whole ledger *)
Lemma c04_aggregate_balanced : forall L l d pit s v,
  run L = Some d ->
  no_self_transfer_on_new_account (ledger_logs l L) = true ->
  (pit <> None -> dates_monotone (ledger_logs l L) = true) ->
  agg_lookup (aggregated_volumes d l pit) s = Some v -> exists x, v = (Some x, Some x).
Proof.
  intros L l d pit s v H Hn Hd E. rewrite (c04_aggregate_partial L l d pit s H Hn Hd), replay_aggregated_lookup in E.
  destruct (some_vol _) as [w|] eqn:ES; [|discriminate]. cbn in E. inversion E; subst v.
  unfold some_vol in ES. destruct (filter _ (replay_moves (ledger_logs l L))) as [|x t] eqn:EF; [discriminate|]. inversion ES; subst w.
  pose proof (replay_double_entry (ledger_logs l L) (fun t a => before_ok pit t && N.eqb a s)) as DE. cbn zeta beta in DE.
  rewrite EF in DE. exists (fst (rvol (x :: t))). unfold vol_of. rewrite DE. reflexivity.
Qed.

Lemma c04_aggregate_refuted : exists L l d s v,
  run L = Some d /\ agg_lookup (aggregated_volumes d l None) s = Some v /\ v = (Some 7, Some 0).
Proof.
  exists W_self_transfer, 1%N. destruct (run W_self_transfer) as [d|] eqn:E; [|vm_compute in E; discriminate].
  exists d, 5%N, (Some 7, Some 0). split; [reflexivity|]. vm_compute in E. inversion E; subst d. split; reflexivity.
Qed.


Lemma c04_volumes_refuted : exists L l d a,
  run L = Some d /\ get_all_account_volumes d l a None <> vols_of (replay_volumes (ledger_logs l L) a None).
Proof.
  exists W_self_transfer, 1%N. destruct (run W_self_transfer) as [d|] eqn:E; [|vm_compute in E; discriminate].
  exists d, 0%N. split; [reflexivity|]. vm_compute in E. inversion E; subst d. vm_compute. discriminate.
Qed.

Lemma c04_balance_refuted : exists L l d a s,
  run L = Some d /\ get_account_balance d l a s None <> replay_balance (ledger_logs l L) a s.
Proof.
  exists W_self_transfer, 1%N. destruct (run W_self_transfer) as [d|] eqn:E; [|vm_compute in E; discriminate].
  exists d, 0%N, 5%N. split; [reflexivity|]. vm_compute in E. inversion E; subst d. vm_compute. discriminate.
Qed.

Lemma c04_double_entry_refuted : exists L l d accts s,
  run L = Some d /\ NoDup accts /\ (forall r, In r (d_acc d) -> a_ledger r = l -> In (a_addr r) accts) /\
  total_in d l accts s None <> total_out d l accts s None.
Proof.
  exists W_self_transfer, 1%N. destruct (run W_self_transfer) as [d|] eqn:E; [|vm_compute in E; discriminate].
  exists d, [0%N], 5%N. vm_compute in E. inversion E; subst d. split; [reflexivity|]. split; [repeat constructor; intros []|].
  split; [cbn; intros r [<-|[]] _; left; reflexivity|]. vm_compute. discriminate.
Qed.

Lemma c04_effective_refuted_backdated : exists L l d a,
  run L = Some d /\ no_self_transfer_on_new_account (ledger_logs l L) = true /\ all_utc (ledger_logs l L) = true /\
  get_all_account_effective_volumes d l a (Some 700) <> vols_of (replay_effective_volumes (ledger_logs l L) a (Some 700)).
Proof.
  exists W_backdated, 1%N. destruct (run W_backdated) as [d|] eqn:E; [|vm_compute in E; discriminate].
  exists d, 1%N. split; [reflexivity|]. vm_compute in E. inversion E; subst d. split; [reflexivity|]. split; [reflexivity|].
  vm_compute. discriminate.
Qed.

Lemma c04_effective_refuted_zone : exists L l d a,
  run L = Some d /\ no_self_transfer_on_new_account (ledger_logs l L) = true /\
  no_backdating_before_first (ledger_logs l L) = true /\
  get_all_account_effective_volumes d l a (Some 30000) <> vols_of (replay_effective_volumes (ledger_logs l L) a (Some 30000)).
Proof.
  exists W_zone, 1%N. destruct (run W_zone) as [d|] eqn:E; [|vm_compute in E; discriminate].
  exists d, 1%N. split; [reflexivity|]. vm_compute in E. inversion E; subst d. split; [reflexivity|]. split; [reflexivity|].
  vm_compute. discriminate.
Qed.

Lemma c04_tx_refuted_zone : exists L l d id,
  run L = Some d /\ ~ tx_view_equiv (get_transaction d l id) (replay_tx (ledger_logs l L) id None).
Proof.
  exists W_zone, 1%N. destruct (run W_zone) as [d|] eqn:E; [|vm_compute in E; discriminate].
  exists d, 0. split; [reflexivity|]. vm_compute in E. inversion E; subst d. vm_compute. intros [_ [C _]]. discriminate.
Qed.

(* the metadata an account had "as of" the very date it was set is not reported (strict < on the revision date) *)
Lemma c04_account_meta_pit_refuted : exists L l d a pit,
  run L = Some d /\
  get_account_pit d l a pit = Some None /\ replay_account_meta (ledger_logs l L) a (Some pit) = Some [(3, 4)]%N.
Proof.
  exists W_meta_pit, 1%N. destruct (run W_meta_pit) as [d|] eqn:E; [|vm_compute in E; discriminate].
  exists d, 1%N, 100. split; [reflexivity|]. vm_compute in E. inversion E; subst d. split; reflexivity.
Qed.

(* the volumes a transaction reports for itself *)
Lemma c04_tx_volumes_refuted_first : exists L l d,
  run L = Some d /\
  run_query d (QTxVolumes l 1) = CL [CL [CN 0; CN 5; CL [CZ 0; CZ 10]]; CL [CN 1; CN 5; CL [CZ 10; CZ 0]]; CL [CN 2; CN 5; CL [CZ 5; CZ 0]]]%N /\
  replay_volume (ledger_logs l L) 0 5 None = Some (0, 15).
Proof.
  exists W_tx_volumes_first, 1%N. destruct (run W_tx_volumes_first) as [d|] eqn:E; [|vm_compute in E; discriminate].
  exists d. split; [reflexivity|]. vm_compute in E. inversion E; subst d. split; reflexivity.
Qed.

Lemma c04_tx_volumes_refuted_collapse : exists L l d,
  run L = Some d /\
  run_query d (QTxVolumes l 1) = CL [CL [CN 0; CN 6; CL [CZ 0; CZ 5]]; CL [CN 1; CN 6; CL [CZ 5; CZ 0]]]%N /\
  replay_volume (ledger_logs l L) 0 5 None = Some (0, 10).
Proof.
  exists W_tx_volumes_collapse, 1%N. destruct (run W_tx_volumes_collapse) as [d|] eqn:E; [|vm_compute in E; discriminate].
  exists d. split; [reflexivity|]. vm_compute in E. inversion E; subst d. split; reflexivity.
Qed.

(* ---- F-C04j: the accounts listing as of a date returns one row per metadata revision dated before it --------------------------- *)
(* the class: some account visible at pit has two or more revisions dated before pit (revisions as the schema writes them: the
   per-ledger accounts machine B is a function of the ledger's log) *)
Definition several_revisions_before (Ls : list log) (pit : Z) : bool :=
  existsb (fun r => Z.leb (ba_ins r) pit &&
                    Nat.leb 2 (length (filter (fun h => Z.ltb (snd (fst h)) pit) (ba_hist r)))) (B_run Ls).

Definition W_accounts_listing : list log :=
  [ {| l_ledger := 1; l_id := 0; l_date := 100; l_data := PSet (TAccount 1) [(3, 4)]%N |};
    {| l_ledger := 1; l_id := 1; l_date := 101; l_data := PSet (TAccount 1) [(3, 5)]%N |} ].

Lemma c04_accounts_listing_pit_refuted : exists L l d pit,
  run L = Some d /\ several_revisions_before (ledger_logs l L) pit = true /\
  list_accounts_pit d l pit = [(1, Some [(3, 5)]); (1, Some [(3, 4)])]%N /\
  replay_account_meta (ledger_logs l L) 1 (Some pit) = Some [(3, 5)]%N.
Proof.
  exists W_accounts_listing, 1%N. destruct (run W_accounts_listing) as [d|] eqn:E; [|vm_compute in E; discriminate].
  exists d, 200. split; [reflexivity|]. vm_compute in E. inversion E; subst d. repeat split.
Qed.
