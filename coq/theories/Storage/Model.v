(* M4 — model of the storage projection: internal/storage/ledgerstore/migrations/0-init-schema.sql
   (tables, the row-level AFTER triggers, the write functions called from [handle_log], the read functions) and of
   the single-row SELECTs built in Go by internal/storage/ledgerstore/{accounts,transactions,balances}.go.

   Definitions only (total, computable); lemmas are in Storage/Abs.v, Storage/Proofs.v; the oracle is Storage/Replay.v;
   the property theorems are in Properties/C04.v.

   Conventions
   * ledgers, account addresses, assets, metadata keys and values, references are interned as [N]; amounts, ids,
     sequence numbers are [Z]; timestamps are [Z] microseconds ("timestamp without time zone": the wall-clock
     fields as written; a textual zone offset is carried separately in [t_off] and is IGNORED by every cast of the
     schema, as PostgreSQL does for [text::timestamp without time zone]).
   * a table is the list of its rows, NEWEST FIRST (the scan order of PostgreSQL/minipg is [rev]); bigserial
     columns draw from an explicit per-table counter (burnt also by INSERT ... ON CONFLICT DO UPDATE).
   * SQL NULL is [None]. [SELECT ... INTO] without a row assigns NULL; [IF c] takes the branch only when [c] is
     TRUE; arithmetic with NULL is NULL; a comparison with NULL filters the row out.
   * ORDER BY ... LIMIT 1 is [pick_best] (an arg-max over the selected rows), never "the head of the list".
   * an error (unique_violation, not_null_violation) aborts the INSERT INTO logs: [handle_log] returns [None].     *)
From Coq Require Export List Bool ZArith NArith.
Export ListNotations.
Local Open Scope Z_scope.

(* ---- jsonb objects with text values (metadata) -------------------------------------------------------------- *)
Definition meta := list (N * N).

Fixpoint meta_get (m : meta) (k : N) : option N :=
  match m with
  | [] => None
  | (k', v) :: r => if N.eqb k k' then Some v else meta_get r k
  end.

(* canonical insertion: strictly increasing keys are kept strictly increasing *)
Fixpoint meta_set (m : meta) (k v : N) : meta :=
  match m with
  | [] => [(k, v)]
  | (k', v') :: r =>
      if N.ltb k k' then (k, v) :: m
      else if N.eqb k k' then (k, v) :: r
      else (k', v') :: meta_set r k v
  end.

(* a || b : keys of b win *)
Definition meta_merge (a b : meta) : meta := fold_left (fun acc kv => meta_set acc (fst kv) (snd kv)) b a.
(* a - key *)
Definition meta_del (a : meta) (k : N) : meta := filter (fun kv => negb (N.eqb (fst kv) k)) a.
(* a @> b *)
Definition meta_contains (a b : meta) : bool :=
  forallb (fun kv => match meta_get a (fst kv) with Some v => N.eqb v (snd kv) | None => false end) b.

Fixpoint meta_eqb (a b : meta) : bool :=
  match a, b with
  | [], [] => true
  | (k, v) :: r, (k', v') :: r' => N.eqb k k' && N.eqb v v' && meta_eqb r r'
  | _, _ => false
  end.

(* ---- the log -------------------------------------------------------------------------------------------------- *)
Record posting := { p_src : N; p_dst : N; p_asset : N; p_amt : Z }.

Record txdata := {
  t_id : Z;
  t_ts : Z;            (* "timestamp": wall-clock fields of the text, microseconds *)
  t_off : Z;           (* zone offset of the text, microseconds east of UTC (0 for "Z") *)
  t_ref : option N;
  t_postings : list posting;
  t_meta : meta
}.

Inductive target := TAccount (a : N) | TTx (id : Z).

Inductive payload :=
| PNew (tx : txdata) (am : list (N * meta))      (* NEW_TRANSACTION: transaction, accountMetadata (jsonb key order) *)
| PRevert (tx : txdata) (reverted : Z)            (* REVERTED_TRANSACTION: transaction, revertedTransactionID *)
| PSet (t : target) (m : meta)                    (* SET_METADATA *)
| PDel (t : target) (k : N).                      (* DELETE_METADATA *)

Record log := { l_ledger : N; l_id : Z; l_date : Z; l_data : payload }.

(* ---- rows ------------------------------------------------------------------------------------------------------- *)
(* composite type volumes (inputs numeric, outputs numeric): both fields nullable *)
Definition vol := (option Z * option Z)%type.
Definition vol0 : vol := (Some 0, Some 0).
Definition volnull : vol := (None, None).

Definition oadd (a b : option Z) : option Z :=
  match a, b with Some x, Some y => Some (x + y) | _, _ => None end.
Definition osub (a b : option Z) : option Z :=
  match a, b with Some x, Some y => Some (x - y) | _, _ => None end.

Record tx_row := {
  x_seq : Z; x_ledger : N; x_id : Z; x_ts : Z; x_ref : option N;
  x_reverted_at : option Z; x_updated_at : option Z; x_postings : list posting; x_meta : meta
}.
Record txm_row := { xm_seq : Z; xm_ledger : N; xm_tx_seq : Z; xm_rev : Z; xm_date : Z; xm_meta : meta }.
Record acc_row := { a_seq : Z; a_ledger : N; a_addr : N; a_ins : Z; a_upd : Z; a_meta : meta }.
Record accm_row := { am_seq : Z; am_ledger : N; am_acc_seq : Z; am_meta : meta; am_rev : option Z; am_date : Z }.
Record move := {
  m_seq : Z; m_ledger : N; m_tx_seq : Z; m_acc_seq : Z; m_addr : N; m_asset : N; m_amount : Z;
  m_ins : Z; m_eff : Z; m_pcv : vol; m_pcev : vol; m_is_source : bool
}.
Record log_row := { g_seq : Z; g_ledger : N; g_id : Z; g_date : Z; g_data : payload }.

Record db := {
  d_tx : list tx_row; d_txm : list txm_row; d_acc : list acc_row; d_accm : list accm_row;
  d_moves : list move; d_logs : list log_row;
  s_tx : Z; s_txm : Z; s_acc : Z; s_accm : Z; s_moves : Z; s_logs : Z   (* next value of each bigserial *)
}.

Definition empty_db : db :=
  {| d_tx := []; d_txm := []; d_acc := []; d_accm := []; d_moves := []; d_logs := [];
     s_tx := 1; s_txm := 1; s_acc := 1; s_accm := 1; s_moves := 1; s_logs := 1 |}.

Definition set_tx (d : db) (l : list tx_row) (s : Z) : db :=
  {| d_tx := l; d_txm := d_txm d; d_acc := d_acc d; d_accm := d_accm d; d_moves := d_moves d; d_logs := d_logs d;
     s_tx := s; s_txm := s_txm d; s_acc := s_acc d; s_accm := s_accm d; s_moves := s_moves d; s_logs := s_logs d |}.
Definition set_txm (d : db) (l : list txm_row) (s : Z) : db :=
  {| d_tx := d_tx d; d_txm := l; d_acc := d_acc d; d_accm := d_accm d; d_moves := d_moves d; d_logs := d_logs d;
     s_tx := s_tx d; s_txm := s; s_acc := s_acc d; s_accm := s_accm d; s_moves := s_moves d; s_logs := s_logs d |}.
Definition set_acc (d : db) (l : list acc_row) (s : Z) : db :=
  {| d_tx := d_tx d; d_txm := d_txm d; d_acc := l; d_accm := d_accm d; d_moves := d_moves d; d_logs := d_logs d;
     s_tx := s_tx d; s_txm := s_txm d; s_acc := s; s_accm := s_accm d; s_moves := s_moves d; s_logs := s_logs d |}.
Definition set_accm (d : db) (l : list accm_row) (s : Z) : db :=
  {| d_tx := d_tx d; d_txm := d_txm d; d_acc := d_acc d; d_accm := l; d_moves := d_moves d; d_logs := d_logs d;
     s_tx := s_tx d; s_txm := s_txm d; s_acc := s_acc d; s_accm := s; s_moves := s_moves d; s_logs := s_logs d |}.
Definition set_moves (d : db) (l : list move) (s : Z) : db :=
  {| d_tx := d_tx d; d_txm := d_txm d; d_acc := d_acc d; d_accm := d_accm d; d_moves := l; d_logs := d_logs d;
     s_tx := s_tx d; s_txm := s_txm d; s_acc := s_acc d; s_accm := s_accm d; s_moves := s; s_logs := s_logs d |}.
Definition set_logs (d : db) (l : list log_row) (s : Z) : db :=
  {| d_tx := d_tx d; d_txm := d_txm d; d_acc := d_acc d; d_accm := d_accm d; d_moves := d_moves d; d_logs := l;
     s_tx := s_tx d; s_txm := s_txm d; s_acc := s_acc d; s_accm := s_accm d; s_moves := s_moves d; s_logs := s |}.

(* ---- ORDER BY ... LIMIT 1 ------------------------------------------------------------------------------------ *)
(* [pick_best better l]: the row of [l] that no other row beats; among rows that do not beat each other the one
   that comes first in scan order (= last in the newest-first list) would be PostgreSQL's choice for a stable
   sort; every ordering used by the schema ends in the unique [seq], so ties do not occur. *)
Fixpoint pick_best {A} (better : A -> A -> bool) (l : list A) : option A :=
  match l with
  | [] => None
  | x :: r => match pick_best better r with
              | None => Some x
              | Some y => if better x y then Some x else Some y
              end
  end.

(* order by seq desc *)
Definition by_seq_desc (x y : move) : bool := Z.ltb (m_seq y) (m_seq x).
(* order by effective_date desc, seq desc *)
Definition by_eff_seq_desc (x y : move) : bool :=
  Z.ltb (m_eff y) (m_eff x) || (Z.eqb (m_eff y) (m_eff x) && Z.ltb (m_seq y) (m_seq x)).

(* "_before is null or col <= _before" *)
Definition before_ok (before : option Z) (col : Z) : bool :=
  match before with None => true | Some b => Z.leb col b end.

(* ---- history triggers ------------------------------------------------------------------------------------------ *)
(* insert into accounts_metadata (ledger, accounts_seq, revision, date, metadata) values (...) *)
Definition insert_accm (d : db) (l : N) (acc_seq : Z) (rev : option Z) (date : Z) (m : meta) : db :=
  set_accm d ({| am_seq := s_accm d; am_ledger := l; am_acc_seq := acc_seq; am_meta := m; am_rev := rev;
                 am_date := date |} :: d_accm d) (s_accm d + 1).

(* order by revision desc: NULLS FIRST *)
Definition accm_rev_desc (x y : accm_row) : bool :=
  match am_rev x, am_rev y with
  | None, Some _ => true
  | Some a, Some b => Z.ltb b a
  | _, _ => false
  end.

(* trigger insert_account: insert_account_metadata_history *)
Definition trg_insert_account (d : db) (new : acc_row) : db :=
  insert_accm d (a_ledger new) (a_seq new) (Some 1) (a_ins new) (a_meta new).

(* trigger update_account: update_account_metadata_history;
   revision = (select revision + 1 from accounts_metadata where accounts_seq = new.seq order by revision desc limit 1) *)
Definition trg_update_account (d : db) (new : acc_row) : db :=
  let rev := match pick_best accm_rev_desc (filter (fun r => Z.eqb (am_acc_seq r) (a_seq new)) (d_accm d)) with
             | Some r => oadd (am_rev r) (Some 1)
             | None => None
             end in
  insert_accm d (a_ledger new) (a_seq new) rev (a_upd new) (a_meta new).

(* insert into transactions_metadata (...): revision is NOT NULL *)
Definition insert_txm (d : db) (l : N) (tx_seq : Z) (rev : option Z) (date : Z) (m : meta) : option db :=
  match rev with
  | None => None   (* not_null_violation *)
  | Some rv =>
      Some (set_txm d ({| xm_seq := s_txm d; xm_ledger := l; xm_tx_seq := tx_seq; xm_rev := rv; xm_date := date;
                          xm_meta := m |} :: d_txm d) (s_txm d + 1))
  end.

Definition txm_rev_desc (x y : txm_row) : bool := Z.ltb (xm_rev y) (xm_rev x).

(* trigger insert_transaction: insert_transaction_metadata_history *)
Definition trg_insert_transaction (d : db) (new : tx_row) : option db :=
  insert_txm d (x_ledger new) (x_seq new) (Some 1) (x_ts new) (x_meta new).

(* trigger update_transaction: update_transaction_metadata_history; date = new.updated_at (nullable; column NOT NULL) *)
Definition trg_update_transaction (d : db) (new : tx_row) : option db :=
  let rev := match pick_best txm_rev_desc (filter (fun r => Z.eqb (xm_tx_seq r) (x_seq new)) (d_txm d)) with
             | Some r => Some (xm_rev r + 1)
             | None => None
             end in
  match x_updated_at new with
  | None => None  (* not_null_violation on date *)
  | Some date => insert_txm d (x_ledger new) (x_seq new) rev date (x_meta new)
  end.

(* ---- write functions ---------------------------------------------------------------------------------------------- *)
Definition acc_is (l a : N) (r : acc_row) : bool := N.eqb (a_ledger r) l && N.eqb (a_addr r) a.

(* first row in scan order of "select ... from accounts where ledger = _ledger and address = _address" *)
Definition find_account (d : db) (l a : N) : option acc_row :=
  match rev (filter (acc_is l a) (d_acc d)) with r :: _ => Some r | [] => None end.

(* upsert_account(_ledger, _address, _metadata, _date) *)
Definition upsert_account (d : db) (l a : N) (m : option meta) (date : Z) : db :=
  let m' := match m with Some x => x | None => [] end in            (* coalesce(_metadata, '{}') *)
  let seq := s_acc d in                                              (* nextval, burnt on conflict too *)
  match find_account d l a with
  | None =>
      let new := {| a_seq := seq; a_ledger := l; a_addr := a; a_ins := date; a_upd := date; a_meta := m' |} in
      trg_insert_account (set_acc d (new :: d_acc d) (seq + 1)) new
  | Some old =>
      let d1 := set_acc d (d_acc d) (seq + 1) in
      if negb (meta_contains (a_meta old) m') then                   (* where not accounts.metadata @> ... *)
        let new := {| a_seq := a_seq old; a_ledger := a_ledger old; a_addr := a_addr old; a_ins := a_ins old;
                      a_upd := date; a_meta := meta_merge (a_meta old) m' |} in
        let rows := map (fun r => if Z.eqb (a_seq r) (a_seq old) then new else r) (d_acc d1) in
        trg_update_account (set_acc d1 rows (s_acc d1)) new
      else d1
  end.

(* UPDATE accounts SET ... WHERE address = _address and ledger = _ledger, then the AFTER UPDATE trigger per row *)
Definition update_accounts (d : db) (l a : N) (f : acc_row -> acc_row) : db :=
  let hit := rev (filter (acc_is l a) (d_acc d)) in
  let rows := map (fun r => if acc_is l a r then f r else r) (d_acc d) in
  fold_left (fun d r => trg_update_account d (f r)) hit (set_acc d rows (s_acc d)).

(* delete_account_metadata(_ledger, _address, _key, _date) *)
Definition delete_account_metadata (d : db) (l a k : N) (date : Z) : db :=
  update_accounts d l a (fun r => {| a_seq := a_seq r; a_ledger := a_ledger r; a_addr := a_addr r; a_ins := a_ins r;
                                     a_upd := date; a_meta := meta_del (a_meta r) k |}).

Definition tx_is (l : N) (id : Z) (r : tx_row) : bool := N.eqb (x_ledger r) l && Z.eqb (x_id r) id.

Fixpoint fold_opt {A B} (f : A -> B -> option A) (l : list B) (a : A) : option A :=
  match l with
  | [] => Some a
  | b :: r => match f a b with Some a' => fold_opt f r a' | None => None end
  end.

(* UPDATE transactions SET ... WHERE id = _id and ledger = _ledger, then the AFTER UPDATE trigger per row *)
Definition update_transactions (d : db) (l : N) (id : Z) (f : tx_row -> tx_row) : option db :=
  let hit := rev (filter (tx_is l id) (d_tx d)) in
  let rows := map (fun r => if tx_is l id r then f r else r) (d_tx d) in
  fold_opt (fun d r => trg_update_transaction d (f r)) hit (set_tx d rows (s_tx d)).

Definition tx_with (r : tx_row) (rev_at upd : option Z) (m : meta) : tx_row :=
  {| x_seq := x_seq r; x_ledger := x_ledger r; x_id := x_id r; x_ts := x_ts r; x_ref := x_ref r;
     x_reverted_at := rev_at; x_updated_at := upd; x_postings := x_postings r; x_meta := m |}.

(* update_transaction_metadata(_ledger, _id, _metadata, _date) *)
Definition update_transaction_metadata (d : db) (l : N) (id : Z) (m : meta) (date : Z) : option db :=
  update_transactions d l id (fun r => tx_with r (x_reverted_at r) (Some date) (meta_merge (x_meta r) m)).
(* delete_transaction_metadata(_ledger, _id, _key, _date) *)
Definition delete_transaction_metadata (d : db) (l : N) (id : Z) (k : N) (date : Z) : option db :=
  update_transactions d l id (fun r => tx_with r (x_reverted_at r) (Some date) (meta_del (x_meta r) k)).
(* revert_transaction(_ledger, _id, _date): updated_at is left as it is *)
Definition revert_transaction (d : db) (l : N) (id : Z) (date : Z) : option db :=
  update_transactions d l id (fun r => tx_with r (Some date) (x_updated_at r) (x_meta r)).

(* insert_move(_transactions_seq, _ledger, _insertion_date, _effective_date, _account_address, _asset, _amount,
               _is_source, _account_exists) *)
Definition bump (v : vol) (is_source : bool) (amount : Z) : vol :=
  if is_source then (fst v, oadd (snd v) (Some amount)) else (oadd (fst v) (Some amount), snd v).

Definition insert_move (d : db) (tx_seq : Z) (l : N) (ins eff : Z) (addr asset : N) (amount : Z)
           (is_source : bool) (account_exists : option bool) : option db :=
  (* select seq from accounts where ledger = _ledger and address = _account_address into _account_seq *)
  let account_seq := option_map a_seq (find_account d l addr) in
  let same (m : move) := match account_seq with
                         | Some s => Z.eqb (m_acc_seq m) s && N.eqb (m_asset m) asset
                         | None => false  (* accounts_seq = NULL *)
                         end in
  let '(pcv, pcev) :=
    match account_exists with
    | Some true =>
        match pick_best by_seq_desc (filter same (d_moves d)) with
        | None => (vol0, vol0)                                       (* if not found *)
        | Some last =>
            (m_pcv last,
             match pick_best by_eff_seq_desc (filter (fun m => same m && Z.leb (m_eff m) eff) (d_moves d)) with
             | Some e => m_pcev e
             | None => volnull                                       (* no row: NULLs are assigned *)
             end)
        end
    | _ => (vol0, vol0)
    end in
  let pcv := bump pcv is_source amount in
  let pcev := bump pcev is_source amount in
  match account_seq with
  | None => None                                                     (* accounts_seq is NOT NULL *)
  | Some aseq =>
      let seq := s_moves d in
      let new := {| m_seq := seq; m_ledger := l; m_tx_seq := tx_seq; m_acc_seq := aseq; m_addr := addr;
                    m_asset := asset; m_amount := amount; m_ins := ins; m_eff := eff; m_pcv := pcv; m_pcev := pcev;
                    m_is_source := is_source |} in
      let rows := new :: d_moves d in
      let rows :=
        match account_exists with
        | Some true =>
            let upd (m : move) :=
              {| m_seq := m_seq m; m_ledger := m_ledger m; m_tx_seq := m_tx_seq m; m_acc_seq := m_acc_seq m;
                 m_addr := m_addr m; m_asset := m_asset m; m_amount := m_amount m; m_ins := m_ins m;
                 m_eff := m_eff m; m_pcv := m_pcv m;
                 m_pcev := (oadd (fst (m_pcev m)) (Some (if is_source then 0 else amount)),
                            oadd (snd (m_pcev m)) (Some (if is_source then amount else 0)));
                 m_is_source := m_is_source m |} in
            let rows := map (fun m => if same m && Z.ltb eff (m_eff m) then upd m else m) rows in
            map (fun m => if same m && Z.eqb (m_eff m) eff && Z.ltb seq (m_seq m) then upd m else m) rows
        | _ => rows
        end in
      Some (set_moves d rows (seq + 1))
  end.

(* insert_posting(_transaction_seq, _ledger, _insertion_date, _effective_date, posting, _account_metadata) *)
Definition am_get (am : list (N * meta)) (a : N) : option meta :=
  match filter (fun kv => N.eqb (fst kv) a) am with (_, m) :: _ => Some m | [] => None end.

Definition insert_posting (d : db) (tx_seq : Z) (l : N) (ins eff : Z) (am : list (N * meta)) (p : posting)
  : option db :=
  (* select true from accounts where ... into _source_exists / _destination_exists *)
  let source_exists := option_map (fun _ => true) (find_account d l (p_src p)) in
  let destination_exists := option_map (fun _ => true) (find_account d l (p_dst p)) in
  let d := upsert_account d l (p_src p) (am_get am (p_src p)) ins in
  let d := upsert_account d l (p_dst p) (am_get am (p_dst p)) ins in
  match insert_move d tx_seq l ins eff (p_src p) (p_asset p) (p_amt p) true source_exists with
  | None => None
  | Some d => insert_move d tx_seq l ins eff (p_dst p) (p_asset p) (p_amt p) false destination_exists
  end.

(* insert_transaction(_ledger, data, _date, _account_metadata) *)
Definition insert_transaction (d : db) (l : N) (tx : txdata) (date : Z) (am : list (N * meta)) : option db :=
  if existsb (tx_is l (t_id tx)) (d_tx d) then None                 (* unique index transactions_ledger *)
  else
    let seq := s_tx d in
    let new := {| x_seq := seq; x_ledger := l; x_id := t_id tx; x_ts := t_ts tx; x_ref := t_ref tx;
                  x_reverted_at := None; x_updated_at := Some (t_ts tx); x_postings := t_postings tx;
                  x_meta := t_meta tx |} in
    match trg_insert_transaction (set_tx d (new :: d_tx d) (seq + 1)) new with
    | None => None
    | Some d =>
        match fold_opt (fun d p => insert_posting d seq l date (t_ts tx) am p) (t_postings tx) d with
        | None => None
        | Some d =>
            (* if data -> 'metadata' is not null and data ->> 'metadata' <> '()': true for every jsonb object *)
            insert_txm d l seq (Some 0) (t_ts tx) (t_meta tx)
        end
    end.

(* handle_log(): AFTER INSERT ON logs FOR EACH ROW *)
Definition handle_log (d : db) (e : log) : option db :=
  let l := l_ledger e in
  if existsb (fun g => N.eqb (g_ledger g) l && Z.eqb (g_id g) (l_id e)) (d_logs d) then None  (* logs_ledger *)
  else
    let d := set_logs d ({| g_seq := s_logs d; g_ledger := l; g_id := l_id e; g_date := l_date e;
                            g_data := l_data e |} :: d_logs d) (s_logs d + 1) in
    match l_data e with
    | PNew tx am =>
        match insert_transaction d l tx (l_date e) am with
        | None => None
        | Some d => Some (fold_left (fun d kv => upsert_account d l (fst kv) (Some (snd kv)) (t_ts tx)) am d)
        end
    | PRevert tx rid =>
        match insert_transaction d l tx (l_date e) [] with
        | None => None
        | Some d => revert_transaction d l rid (t_ts tx)
        end
    | PSet (TTx id) m => update_transaction_metadata d l id m (l_date e)
    | PSet (TAccount a) m => Some (upsert_account d l a (Some m) (l_date e))
    | PDel (TTx id) k => delete_transaction_metadata d l id k (l_date e)
    | PDel (TAccount a) k => Some (delete_account_metadata d l a k (l_date e))
    end.

Definition run_from (d : db) (L : list log) : option db := fold_opt handle_log L d.
Definition run (L : list log) : option db := run_from empty_db L.

(* ---- read functions of the schema ---------------------------------------------------------------------------- *)
(* sorted, duplicate-free list of N *)
Fixpoint ins_sorted (x : N) (l : list N) : list N :=
  match l with
  | [] => [x]
  | y :: r => if N.ltb x y then x :: l else if N.eqb x y then l else y :: ins_sorted x r
  end.
Definition sort_dedup (l : list N) : list N := fold_right ins_sorted [] l.

(* get_all_assets(_ledger): the distinct assets of the ledger's moves (interned order instead of text order) *)
Definition get_all_assets (d : db) (l : N) : list N :=
  sort_dedup (map m_asset (filter (fun m => N.eqb (m_ledger m) l) (d_moves d))).

Definition move_of (l a s : N) (m : move) : bool :=
  N.eqb (m_addr m) a && N.eqb (m_asset m) s && N.eqb (m_ledger m) l.

(* get_all_account_volumes(_ledger, _account, _before) *)
Definition get_all_account_volumes (d : db) (l a : N) (before : option Z) : list (N * vol) :=
  flat_map (fun s =>
    match pick_best by_seq_desc (filter (fun m => before_ok before (m_ins m) && move_of l a s m) (d_moves d)) with
    | Some m => [(m_asset m, m_pcv m)]
    | None => []
    end) (get_all_assets d l).

(* get_all_account_effective_volumes(_ledger, _account, _before) *)
Definition get_all_account_effective_volumes (d : db) (l a : N) (before : option Z) : list (N * vol) :=
  flat_map (fun s =>
    match pick_best by_eff_seq_desc (filter (fun m => before_ok before (m_eff m) && move_of l a s m) (d_moves d)) with
    | Some m => [(m_asset m, m_pcev m)]
    | None => []
    end) (get_all_assets d l).

(* get_account_balance(_ledger, _account, _asset, _before): NULL when there is no row *)
Definition get_account_balance (d : db) (l a s : N) (before : option Z) : option Z :=
  match pick_best by_seq_desc (filter (fun m => before_ok before (m_eff m) && move_of l a s m) (d_moves d)) with
  | Some m => osub (fst (m_pcv m)) (snd (m_pcv m))
  | None => None
  end.

(* group key (account_address, asset) lists, canonical order: by address then asset *)
Fixpoint ins_pair (x : N * N) (l : list (N * N)) : list (N * N) :=
  match l with
  | [] => [x]
  | y :: r =>
      if N.ltb (fst x) (fst y) || (N.eqb (fst x) (fst y) && N.ltb (snd x) (snd y)) then x :: l
      else if N.eqb (fst x) (fst y) && N.eqb (snd x) (snd y) then l
      else y :: ins_pair x r
  end.
Definition sort_dedup_pairs (l : list (N * N)) : list (N * N) := fold_right ins_pair [] l.

(* get_aggregated_[effective_]volumes_for_transaction(_ledger, tx): group by (account_address, asset),
   first(...) = the value of the first row of the group in scan order *)
Definition tx_volumes (proj : move -> vol) (d : db) (l : N) (tx_seq : Z) : list ((N * N) * vol) :=
  let ms := filter (fun m => Z.eqb (m_tx_seq m) tx_seq && N.eqb (m_ledger m) l) (d_moves d) in
  flat_map (fun k =>
    match rev (filter (fun m => N.eqb (m_addr m) (fst k) && N.eqb (m_asset m) (snd k)) ms) with
    | m :: _ => [(k, proj m)]
    | [] => []
    end) (sort_dedup_pairs (map (fun m => (m_addr m, m_asset m)) ms)).
Definition get_aggregated_volumes_for_transaction := tx_volumes m_pcv.
Definition get_aggregated_effective_volumes_for_transaction := tx_volumes m_pcev.

(* sum(...) over a group: NULLs are skipped, NULL when nothing was summed *)
Definition osum (l : list (option Z)) : option Z :=
  fold_left (fun acc x => match x with None => acc | Some v => Some (match acc with Some a => a + v | None => v end) end)
            l None.

(* aggregate_ledger_volumes(_ledger, _before, NULL, NULL) (not called by the Go code):
   distinct on (account_address, asset) ... order by account_address, asset, seq desc; sums of the EFFECTIVE volumes *)
Definition latest_per_key (ms : list move) : list move :=
  flat_map (fun k =>
    match pick_best by_seq_desc (filter (fun m => N.eqb (m_addr m) (fst k) && N.eqb (m_asset m) (snd k)) ms) with
    | Some m => [m]
    | None => []
    end) (sort_dedup_pairs (map (fun m => (m_addr m, m_asset m)) ms)).

Definition sum_by_asset (proj : move -> vol) (ms : list move) : list (N * vol) :=
  map (fun s => let g := filter (fun m => N.eqb (m_asset m) s) ms in
                (s, (osum (map (fun m => fst (proj m)) g), osum (map (fun m => snd (proj m)) g))))
      (sort_dedup (map m_asset ms)).

Definition aggregate_ledger_volumes (d : db) (l : N) (before : option Z) : list (N * vol) :=
  sum_by_asset m_pcev
    (latest_per_key (filter (fun m => before_ok before (m_eff m) && N.eqb (m_ledger m) l) (d_moves d))).

(* ---- single-row SELECTs built in Go ---------------------------------------------------------------------------- *)
(* balances.go GetAggregatedBalances without filter: distinct on (account_address, asset) ... order by ..., seq desc
   where ledger = ? [and insertion_date <= pit]; sums of post_commit_volumes per asset *)
Definition aggregated_volumes (d : db) (l : N) (pit : option Z) : list (N * vol) :=
  sum_by_asset m_pcv
    (latest_per_key (filter (fun m => N.eqb (m_ledger m) l && before_ok pit (m_ins m)) (d_moves d))).

(* accounts.go GetAccount: accounts left join accounts_metadata on accounts_seq = seq
   where address = ? and ledger = ? order by revision desc limit 1; coalesce(metadata, '{}').
   None = no row (the Go code then answers an empty account). *)
Definition get_account (d : db) (l a : N) : option meta :=
  match rev (filter (acc_is l a) (d_acc d)) with
  | [] => None
  | r :: _ =>
      match pick_best accm_rev_desc (filter (fun h => Z.eqb (am_acc_seq h) (a_seq r)) (d_accm d)) with
      | Some h => Some (am_meta h)
      | None => Some []
      end
  end.

(* accounts.go GetAccountWithVolumes with a PIT: where ledger = ? and insertion_date <= pit and address = ?
   left join accounts_metadata on accounts_seq = seq and accounts_metadata.date < pit order by address, revision desc
   limit 1. Result: None = no row; Some None = row with NULL metadata. *)
Definition get_account_pit (d : db) (l a : N) (pit : Z) : option (option meta) :=
  match rev (filter (fun r => acc_is l a r && Z.leb (a_ins r) pit) (d_acc d)) with
  | [] => None
  | r :: _ =>
      match pick_best accm_rev_desc
              (filter (fun h => Z.eqb (am_acc_seq h) (a_seq r) && Z.ltb (am_date h) pit) (d_accm d)) with
      | Some h => Some (Some (am_meta h))
      | None => Some None
      end
  end.

(* accounts.go GetAccountsWithVolumes with a PIT (the listing; same query as above without LIMIT 1):
   where ledger = ? and insertion_date <= pit; left join accounts_metadata on accounts_seq = seq and date < pit;
   order by address, revision desc. One row per joined revision (a row with NULL metadata when none joins). *)
Fixpoint ins_acc (x : acc_row) (l : list acc_row) : list acc_row :=
  match l with
  | [] => [x]
  | y :: r => if N.leb (a_addr x) (a_addr y) then x :: l else y :: ins_acc x r
  end.
Fixpoint ins_rev (x : accm_row) (l : list accm_row) : list accm_row :=
  match l with
  | [] => [x]
  | y :: r => if accm_rev_desc y x then y :: ins_rev x r else x :: l
  end.
Definition list_accounts_pit (d : db) (l : N) (pit : Z) : list (N * option meta) :=
  flat_map (fun r =>
    match fold_right ins_rev []
            (rev (filter (fun h => Z.eqb (am_acc_seq h) (a_seq r) && Z.ltb (am_date h) pit) (d_accm d))) with
    | [] => [(a_addr r, None)]
    | hs => map (fun h => (a_addr r, Some (am_meta h))) hs
    end)
    (fold_right ins_acc [] (rev (filter (fun r => N.eqb (a_ledger r) l && Z.leb (a_ins r) pit) (d_acc d)))).

(* what the store reports of a transaction *)
Record tx_view := { v_id : Z; v_ts : Z; v_ref : option N; v_postings : list posting; v_meta : option meta;
                    v_reverted : bool }.

(* transactions.go GetTransaction: transactions left join transactions_metadata tm on tm.transactions_seq = seq
   where id = ? and ledger = ? order by tm.revision desc limit 1 *)
Definition get_transaction (d : db) (l : N) (id : Z) : option tx_view :=
  match rev (filter (tx_is l id) (d_tx d)) with
  | [] => None
  | r :: _ =>
      let md := match pick_best txm_rev_desc (filter (fun h => Z.eqb (xm_tx_seq h) (x_seq r)) (d_txm d)) with
                | Some h => Some (xm_meta h)
                | None => None
                end in
      Some {| v_id := x_id r; v_ts := x_ts r; v_ref := x_ref r; v_postings := x_postings r; v_meta := md;
              v_reverted := match x_reverted_at r with Some _ => true | None => false end |}
  end.

(* transactions.go GetTransactionWithVolumes with a PIT (as the SQL text says; the CASE column masks reverted_at):
   where ledger = ? and timestamp <= pit and id = ?;
   left join lateral (select * from transactions_metadata where transactions.seq = transactions_seq and date <= pit
                      order by revision desc limit 1) *)
Definition get_transaction_pit (d : db) (l : N) (id : Z) (pit : Z) : option tx_view :=
  match rev (filter (fun r => tx_is l id r && Z.leb (x_ts r) pit) (d_tx d)) with
  | [] => None
  | r :: _ =>
      let md := match pick_best txm_rev_desc
                        (filter (fun h => Z.eqb (xm_tx_seq h) (x_seq r) && Z.leb (xm_date h) pit) (d_txm d)) with
                | Some h => Some (xm_meta h)
                | None => None
                end in
      Some {| v_id := x_id r; v_ts := x_ts r; v_ref := x_ref r; v_postings := x_postings r; v_meta := md;
              v_reverted := match x_reverted_at r with Some ra => Z.leb ra pit | None => false end |}
  end.

(* ---- correspondence cases ------------------------------------------------------------------------------------- *)
(* observations are rendered into one untyped cell language so that a single comparison function serves all *)
Inductive cell := CZ (z : Z) | CN (n : N) | CNull | CB (b : bool) | CL (l : list cell).

Fixpoint cell_eqb (a b : cell) : bool :=
  match a, b with
  | CZ x, CZ y => Z.eqb x y
  | CN x, CN y => N.eqb x y
  | CNull, CNull => true
  | CB x, CB y => Bool.eqb x y
  | CL x, CL y =>
      (fix go (x y : list cell) : bool :=
         match x, y with
         | [], [] => true
         | c :: r, c' :: r' => cell_eqb c c' && go r r'
         | _, _ => false
         end) x y
  | _, _ => false
  end.

Definition c_oz (o : option Z) : cell := match o with Some z => CZ z | None => CNull end.
Definition c_on (o : option N) : cell := match o with Some n => CN n | None => CNull end.
Definition c_vol (v : vol) : cell := CL [c_oz (fst v); c_oz (snd v)].
Definition c_meta (m : meta) : cell := CL (map (fun kv => CL [CN (fst kv); CN (snd kv)]) m).
Definition c_ometa (m : option meta) : cell := match m with Some m => c_meta m | None => CNull end.
Definition c_posting (p : posting) : cell := CL [CN (p_src p); CN (p_dst p); CN (p_asset p); CZ (p_amt p)].
Definition c_vols (l : list (N * vol)) : cell := CL (map (fun kv => CL [CN (fst kv); c_vol (snd kv)]) l).

(* table dumps, in scan order (oldest first) *)
Definition dump_moves (d : db) : cell :=
  CL (map (fun m => CL [CZ (m_seq m); CN (m_ledger m); CZ (m_tx_seq m); CZ (m_acc_seq m); CN (m_addr m);
                        CN (m_asset m); CZ (m_amount m); CZ (m_ins m); CZ (m_eff m); c_vol (m_pcv m);
                        c_vol (m_pcev m); CB (m_is_source m)]) (rev (d_moves d))).
Definition dump_accounts (d : db) : cell :=
  CL (map (fun r => CL [CZ (a_seq r); CN (a_ledger r); CN (a_addr r); CZ (a_ins r); CZ (a_upd r); c_meta (a_meta r)])
          (rev (d_acc d))).
Definition dump_accounts_metadata (d : db) : cell :=
  CL (map (fun r => CL [CZ (am_seq r); CN (am_ledger r); CZ (am_acc_seq r); c_meta (am_meta r); c_oz (am_rev r);
                        CZ (am_date r)]) (rev (d_accm d))).
Definition dump_transactions (d : db) : cell :=
  CL (map (fun r => CL [CZ (x_seq r); CN (x_ledger r); CZ (x_id r); CZ (x_ts r); c_on (x_ref r);
                        c_oz (x_reverted_at r); c_oz (x_updated_at r); CL (map c_posting (x_postings r));
                        c_meta (x_meta r)]) (rev (d_tx d))).
Definition dump_transactions_metadata (d : db) : cell :=
  CL (map (fun r => CL [CZ (xm_seq r); CN (xm_ledger r); CZ (xm_tx_seq r); CZ (xm_rev r); CZ (xm_date r);
                        c_meta (xm_meta r)]) (rev (d_txm d))).
Definition dump_logs (d : db) : cell :=
  CL (map (fun r => CL [CZ (g_seq r); CN (g_ledger r); CZ (g_id r); CZ (g_date r)]) (rev (d_logs d))).

Definition c_txview (v : option tx_view) : cell :=
  match v with
  | None => CNull
  | Some v => CL [CZ (v_id v); CZ (v_ts v); c_on (v_ref v); CL (map c_posting (v_postings v)); c_ometa (v_meta v);
                  CB (v_reverted v)]
  end.

(* the jsonb value of get_aggregated_*_for_transaction: aggregate_objects merges the per-(account, asset) objects
   {account: {asset: volumes}} at the TOP level, so of several assets of one account only the last group (in
   (account, asset) order) survives; a group whose volumes are NULL contributes {account: null} *)
Fixpoint json_collapse (l : list ((N * N) * vol)) : list ((N * N) * vol) :=
  match l with
  | [] => []
  | x :: r => if existsb (fun y => N.eqb (fst (fst y)) (fst (fst x))) r then json_collapse r else x :: json_collapse r
  end.
Definition c_txvols (l : list ((N * N) * vol)) : cell :=
  CL (map (fun kv => match snd kv with
                     | (Some i, Some o) => CL [CN (fst (fst kv)); CN (snd (fst kv)); CL [CZ i; CZ o]]
                     | _ => CL [CN (fst (fst kv)); CNull]
                     end) (json_collapse l)).

Inductive query :=
| QMoves | QAccounts | QAccountsMetadata | QTransactions | QTransactionsMetadata | QLogs     (* table dumps *)
| QAssets (l : N)
| QVolumes (l a : N) (before : option Z)
| QEffVolumes (l a : N) (before : option Z)
| QBalance (l a s : N) (before : option Z)
| QTxVolumes (l : N) (tx_seq : Z)
| QTxEffVolumes (l : N) (tx_seq : Z)
| QAggLedger (l : N) (before : option Z)
| QAggBalances (l : N) (pit : option Z)
| QAccount (l a : N)
| QAccountPit (l a : N) (pit : Z)
| QTx (l : N) (id : Z)
| QTxPit (l : N) (id : Z) (pit : Z)
| QAccountsPit (l : N) (pit : Z).

Definition run_query (d : db) (q : query) : cell :=
  match q with
  | QMoves => dump_moves d
  | QAccounts => dump_accounts d
  | QAccountsMetadata => dump_accounts_metadata d
  | QTransactions => dump_transactions d
  | QTransactionsMetadata => dump_transactions_metadata d
  | QLogs => dump_logs d
  | QAssets l => CL (map CN (get_all_assets d l))
  | QVolumes l a b => c_vols (get_all_account_volumes d l a b)
  | QEffVolumes l a b => c_vols (get_all_account_effective_volumes d l a b)
  | QBalance l a s b => c_oz (get_account_balance d l a s b)
  | QTxVolumes l t => c_txvols (get_aggregated_volumes_for_transaction d l t)
  | QTxEffVolumes l t => c_txvols (get_aggregated_effective_volumes_for_transaction d l t)
  | QAggLedger l b => c_vols (aggregate_ledger_volumes d l b)
  (* GetAggregatedBalances reports inputs - outputs per asset *)
  | QAggBalances l p =>
      CL (map (fun kv => CL [CN (fst kv); c_oz (osub (fst (snd kv)) (snd (snd kv)))]) (aggregated_volumes d l p))
  (* GetAccount / GetAccountWithVolumes answer an empty account when there is no row, and a NULL metadata scans
     into an empty map *)
  | QAccount l a => c_meta (match get_account d l a with Some m => m | None => [] end)
  | QAccountPit l a p => c_meta (match get_account_pit d l a p with Some (Some m) => m | _ => [] end)
  | QTx l id => c_txview (get_transaction d l id)
  | QTxPit l id p => c_txview (get_transaction_pit d l id p)
  | QAccountsPit l p => CL (map (fun kv => CL [CN (fst kv); c_ometa (snd kv)]) (list_accounts_pit d l p))
  end.

(* one case: a history, whether the stand-in database rejected its LAST entry, and what was read back *)
Record case := { c_logs : list log; c_err : bool; c_reads : list (query * cell) }.

Definition check_case (c : case) : bool :=
  match run (c_logs c) with
  | None => c_err c && match run (removelast (c_logs c)) with Some _ => true | None => false end
  | Some d => negb (c_err c) && forallb (fun qr => cell_eqb (run_query d (fst qr)) (snd qr)) (c_reads c)
  end.

Fixpoint bad_cases {A} (chk : A -> bool) (n : nat) (l : list A) : list nat :=
  match l with
  | [] => []
  | c :: r => if chk c then bad_cases chk (S n) r else n :: bad_cases chk (S n) r
  end.
