(* M4 — the per-ledger machines against the oracle of Storage/Replay.v.
   Part A: moves — structure, running totals (volumes, balance, double entry). *)
From Coq Require Import Lia Sorting.Sorted.
From FL Require Import Storage.Model Storage.Abs Storage.Refine Storage.Reads Storage.Replay.
Local Open Scope Z_scope.

(* ---- sums and lists ---------------------------------------------------------------------------------------------------- *)
Lemma zsum_app : forall a b, zsum (a ++ b) = zsum a + zsum b.
Proof.
  induction a as [|x a IH]; intros b; unfold zsum in *; cbn [app fold_right]; [reflexivity|]. rewrite IH. lia.
Qed.

Lemma zsum_rev : forall a, zsum (rev a) = zsum a.
Proof.
  induction a as [|x a IH]; cbn [rev]; [reflexivity|]. rewrite zsum_app, IH. unfold zsum. cbn [fold_right]. lia.
Qed.

Lemma filter_rev' : forall {A} (p : A -> bool) (l : list A), filter p (rev l) = rev (filter p l).
Proof.
  induction l as [|x r IH]; cbn; [reflexivity|]. rewrite filter_app, IH. cbn.
  destruct (p x); cbn; [reflexivity|]. rewrite app_nil_r. reflexivity.
Qed.

Lemma rvol_app : forall a b, rvol (a ++ b) = (fst (rvol a) + fst (rvol b), snd (rvol a) + snd (rvol b)).
Proof. intros. unfold rvol. rewrite !map_app, !zsum_app. reflexivity. Qed.

Lemma rvol_rev : forall a, rvol (rev a) = rvol a.
Proof. intros. unfold rvol. rewrite !map_rev, !zsum_rev. reflexivity. Qed.

Lemma rvol_cons : forall m a, rvol (m :: a) = (r_in m + fst (rvol a), r_out m + snd (rvol a)).
Proof. intros. reflexivity. Qed.

(* ---- sort_dedup depends on the set of elements only -------------------------------------------------------------------- *)
Lemma ins_sorted_in : forall x y l, In y (ins_sorted x l) <-> y = x \/ In y l.
Proof.
  induction l as [|z r IH]; cbn; [intuition|].
  destruct (N.ltb_spec x z); cbn; [intuition|].
  destruct (N.eqb_spec x z); cbn; [subst; intuition|]. rewrite IH. intuition.
Qed.

Lemma sort_dedup_in : forall y l, In y (sort_dedup l) <-> In y l.
Proof.
  induction l as [|x r IH]; cbn; [tauto|]. rewrite ins_sorted_in, IH. intuition.
Qed.

Lemma ins_sorted_sorted : forall x l, StronglySorted N.lt l -> StronglySorted N.lt (ins_sorted x l).
Proof.
  induction l as [|z r IH]; intros H; cbn; [constructor; constructor|].
  apply StronglySorted_inv in H. destruct H as [Hr Hz]. rewrite Forall_forall in Hz.
  destruct (N.ltb_spec x z).
  - constructor; [constructor; [assumption|apply Forall_forall; assumption]|].
    apply Forall_forall. intros y [<-|Hy]; [assumption|]. specialize (Hz y Hy). lia.
  - destruct (N.eqb_spec x z); [constructor; [assumption|apply Forall_forall; assumption]|].
    constructor; [apply IH; assumption|]. apply Forall_forall. intros y Hy.
    apply ins_sorted_in in Hy. destruct Hy as [->|Hy]; [lia|apply Hz; assumption].
Qed.

Lemma sort_dedup_sorted : forall l, StronglySorted N.lt (sort_dedup l).
Proof. induction l; cbn; [constructor|apply ins_sorted_sorted; assumption]. Qed.

Lemma sorted_ext : forall l1 l2, StronglySorted N.lt l1 -> StronglySorted N.lt l2 ->
  (forall x, In x l1 <-> In x l2) -> l1 = l2.
Proof.
  induction l1 as [|a r1 IH]; intros l2 H1 H2 E.
  - destruct l2 as [|b r2]; [reflexivity|]. exfalso. apply (E b). left; reflexivity.
  - destruct l2 as [|b r2]; [exfalso; apply (E a); left; reflexivity|].
    apply StronglySorted_inv in H1, H2. destruct H1 as [S1 F1], H2 as [S2 F2]. rewrite Forall_forall in F1, F2.
    assert (a = b) as ->.
    { destruct (proj1 (E a) (or_introl eq_refl)) as [->|Ha]; [reflexivity|].
      destruct (proj2 (E b) (or_introl eq_refl)) as [->|Hb]; [reflexivity|].
      specialize (F1 b Hb). specialize (F2 a Ha). lia. }
    f_equal. apply IH; auto. intros x. split; intros Hx.
    + destruct (proj1 (E x) (or_intror Hx)) as [<-|]; [|assumption]. specialize (F1 b Hx). lia.
    + destruct (proj2 (E x) (or_intror Hx)) as [<-|]; [|assumption]. specialize (F2 b Hx). lia.
Qed.

Lemma sort_dedup_ext : forall l1 l2, (forall x, In x l1 <-> In x l2) -> sort_dedup l1 = sort_dedup l2.
Proof.
  intros. apply sorted_ext; try apply sort_dedup_sorted. intros x. rewrite !sort_dedup_in. apply H.
Qed.

(* ---- the shape of the moves list ------------------------------------------------------------------------------------------ *)
Definition core (m : bmove) : rmove :=
  {| r_addr := b_addr m; r_asset := b_asset m; r_amount := b_amount m; r_src := b_src m; r_ins := b_ins m;
     r_eff := b_eff m |}.

(* the moves as the schema dates them: effective date = the wall-clock fields of the timestamp text *)
Definition log_rmoves_sql (e : log) : list rmove :=
  match log_tx e with
  | Some tx => flat_map (posting_rmoves (l_date e) (t_ts tx)) (t_postings tx)
  | None => []
  end.
Definition replay_moves_sql (Ls : list log) : list rmove := flat_map log_rmoves_sql Ls.

Lemma replay_moves_utc : forall Ls, all_utc Ls = true -> replay_moves_sql Ls = replay_moves Ls.
Proof.
  induction Ls as [|e Ls IH]; cbn; intros H; [reflexivity|].
  apply andb_prop in H. destruct H as [He Hr]. unfold replay_moves_sql, replay_moves in *. cbn [flat_map].
  rewrite (IH Hr). f_equal. unfold log_rmoves_sql, log_rmoves.
  destruct (log_tx e) as [tx|]; [|reflexivity]. apply Z.eqb_eq in He. unfold tx_instant. rewrite He, Z.sub_0_r.
  reflexivity.
Qed.

Definition A_im_vols (ms : list bmove) (eff : Z) (addr asset : N) (ex : bool) : vol * vol :=
  if ex then
    match filter (bkey addr asset) ms with
    | [] => (vol0, vol0)
    | last :: _ =>
        (b_pcv last,
         match pick_best b_eff_better (filter (fun m => bkey addr asset m && Z.leb (b_eff m) eff) ms) with
         | Some e => b_pcev e
         | None => volnull
         end)
    end
  else (vol0, vol0).

Definition A_im_new (ms : list bmove) (txid ins eff : Z) (addr asset : N) (amount : Z) (is_source ex : bool) : bmove :=
  let v := A_im_vols ms eff addr asset ex in
  {| b_addr := addr; b_asset := asset; b_amount := amount; b_ins := ins; b_eff := eff;
     b_pcv := bump (fst v) is_source amount; b_pcev := bump (snd v) is_source amount; b_src := is_source;
     b_txid := txid |}.

Definition A_im_g (eff : Z) (addr asset : N) (amount : Z) (is_source : bool) (m : bmove) : bmove :=
  if bkey addr asset m && Z.ltb eff (b_eff m) then b_upd is_source amount m else m.

Lemma A_insert_move_eq : forall ms txid ins eff addr asset amount is_source ex,
  A_insert_move ms txid ins eff addr asset amount is_source ex =
  let new := A_im_new ms txid ins eff addr asset amount is_source ex in
  if ex then map (A_im_g eff addr asset amount is_source) (new :: ms) else new :: ms.
Proof.
  intros. unfold A_insert_move, A_im_new, A_im_vols, A_im_g.
  destruct ex; [|reflexivity].
  destruct (filter (bkey addr asset) ms); reflexivity.
Qed.

Lemma core_g : forall eff addr asset amount is_source m, core (A_im_g eff addr asset amount is_source m) = core m.
Proof. intros. unfold A_im_g. destruct (_ && _); reflexivity. Qed.

Lemma pcv_g : forall eff addr asset amount is_source m, b_pcv (A_im_g eff addr asset amount is_source m) = b_pcv m.
Proof. intros. unfold A_im_g. destruct (_ && _); reflexivity. Qed.

Lemma core_insert : forall ms txid ins eff addr asset amount is_source ex,
  map core (A_insert_move ms txid ins eff addr asset amount is_source ex) =
  {| r_addr := addr; r_asset := asset; r_amount := amount; r_src := is_source; r_ins := ins; r_eff := eff |}
  :: map core ms.
Proof.
  intros. rewrite A_insert_move_eq. cbn zeta. destruct ex; [|reflexivity].
  rewrite map_map. cbn [map]. rewrite core_g. f_equal. apply map_ext. intros. apply core_g.
Qed.

Lemma core_posting : forall txid ins eff st p,
  map core (snd (A_posting txid ins eff st p)) = rev (posting_rmoves ins eff p) ++ map core (snd st).
Proof.
  intros. destruct st as [known ms]. unfold A_posting. cbn [snd]. rewrite !core_insert. reflexivity.
Qed.

Lemma core_tx : forall ps txid ins eff st,
  map core (snd (fold_left (A_posting txid ins eff) ps st)) =
  rev (flat_map (posting_rmoves ins eff) ps) ++ map core (snd st).
Proof.
  induction ps as [|p ps IH]; intros; cbn [fold_left flat_map]; [reflexivity|].
  rewrite IH, core_posting, rev_app_distr, app_assoc. reflexivity.
Qed.

Lemma core_step : forall st e, map core (snd (A_step st e)) = rev (log_rmoves_sql e) ++ map core (snd st).
Proof.
  intros. unfold A_step, log_rmoves_sql, log_tx.
  destruct (l_data e) as [tx am|tx rid|[a|id] m|[a|id] k]; try reflexivity.
  - unfold A_tx. destruct (fold_left _ (t_postings tx) st) as [kn ms] eqn:E. cbn [snd].
    change ms with (snd (kn, ms)). rewrite <- E. apply core_tx.
  - unfold A_tx. apply core_tx.
Qed.

Lemma core_run_from : forall Ls st,
  map core (snd (fold_left A_step Ls st)) = rev (replay_moves_sql Ls) ++ map core (snd st).
Proof.
  induction Ls as [|e Ls IH]; intros; cbn [fold_left]; [reflexivity|].
  rewrite IH, core_step. unfold replay_moves_sql. cbn [flat_map]. rewrite rev_app_distr, app_assoc. reflexivity.
Qed.

Theorem core_run : forall Ls, map core (snd (A_run Ls)) = rev (replay_moves_sql Ls).
Proof. intros. unfold A_run. rewrite core_run_from. cbn. apply app_nil_r. Qed.

(* ---- running totals -------------------------------------------------------------------------------------------------------- *)
(* every stored post_commit_volumes is the sum over the moves of the same (account, asset) up to and including it *)
Inductive pcv_ok : list bmove -> Prop :=
| pcv_nil : pcv_ok []
| pcv_cons : forall m post, pcv_ok post ->
    b_pcv m = vol_of (rvol (filter (rkey (b_addr m) (b_asset m)) (map core (m :: post)))) -> pcv_ok (m :: post).

Lemma rkey_core : forall a s m, rkey a s (core m) = bkey a s m.
Proof. reflexivity. Qed.

Lemma filter_core : forall a s ms, filter (rkey a s) (map core ms) = map core (filter (bkey a s) ms).
Proof. intros. rewrite filter_map_comm. reflexivity. Qed.

Lemma pcv_ok_head : forall a s ms last rest, pcv_ok ms ->
  filter (bkey a s) ms = last :: rest -> b_pcv last = vol_of (rvol (filter (rkey a s) (map core ms))).
Proof.
  induction ms as [|m post IH]; intros last rest H E; [discriminate|].
  inversion H as [|? ? Hp Hm]; subst. cbn [filter] in E.
  destruct (bkey a s m) eqn:K.
  - inversion E; subst last rest. rewrite Hm. unfold bkey in K. apply andb_prop in K. destruct K as [K1 K2].
    apply N.eqb_eq in K1, K2. subst. reflexivity.
  - cbn [map filter]. rewrite rkey_core, K. apply (IH last rest); assumption.
Qed.

Lemma pcv_ok_map : forall g ms, (forall m, core (g m) = core m /\ b_pcv (g m) = b_pcv m) -> pcv_ok ms -> pcv_ok (map g ms).
Proof.
  intros g ms Hg H. induction H as [|m post Hp IH Hm]; cbn; constructor; auto.
  destruct (Hg m) as [C P]. rewrite P, Hm.
  assert (b_addr (g m) = b_addr m /\ b_asset (g m) = b_asset m) as [-> ->].
  { assert (r_addr (core (g m)) = r_addr (core m) /\ r_asset (core (g m)) = r_asset (core m)) by (rewrite C; auto). auto. }
  change (map core (g m :: map g post)) with (core (g m) :: map core (map g post)).
  rewrite C, map_map. rewrite (map_ext (fun x => core (g x)) core) by (intros; apply Hg). reflexivity.
Qed.

Lemma bump_vol_of : forall v is_source amount,
  bump (vol_of v) is_source amount =
  vol_of (if is_source then (fst v, snd v + amount) else (fst v + amount, snd v)).
Proof. intros [i o] [|] amount; reflexivity. Qed.

(* inserting a move keeps the running totals right, provided a move that starts from (0,0) because the account row
   was not there when the posting began really is the first move of its (account, asset) *)
Lemma pcv_ok_insert : forall ms txid ins eff addr asset amount is_source ex,
  pcv_ok ms -> (ex = false -> filter (bkey addr asset) ms = []) ->
  pcv_ok (A_insert_move ms txid ins eff addr asset amount is_source ex).
Proof.
  intros ms txid ins eff addr asset amount is_source ex H Hfresh. rewrite A_insert_move_eq. cbn zeta.
  set (new := A_im_new ms txid ins eff addr asset amount is_source ex).
  assert (Hnew : pcv_ok (new :: ms)).
  { constructor; [assumption|].
    change (map core (new :: ms)) with (core new :: map core ms). cbn [filter].
    change (b_addr new) with addr. change (b_asset new) with asset.
    assert (Hk : rkey addr asset (core new) = true) by (unfold rkey; cbn; rewrite !N.eqb_refl; reflexivity).
    rewrite Hk, rvol_cons.
    change (r_in (core new)) with (if is_source then 0 else amount).
    change (r_out (core new)) with (if is_source then amount else 0).
    change (b_pcv new) with (bump (fst (A_im_vols ms eff addr asset ex)) is_source amount).
    unfold A_im_vols. destruct ex.
    - destruct (filter (bkey addr asset) ms) as [|last rest] eqn:EF.
      + rewrite filter_core, EF. cbn. destruct is_source; cbn; unfold vol_of; cbn; f_equal; f_equal; lia.
      + cbn [fst]. rewrite (pcv_ok_head addr asset ms last rest H EF), bump_vol_of.
        destruct (rvol _) as [i o]. destruct is_source; unfold vol_of; cbn; f_equal; f_equal; lia.
    - rewrite filter_core, (Hfresh eq_refl). cbn. destruct is_source; cbn; unfold vol_of; cbn; f_equal; f_equal; lia. }
  destruct ex; [|exact Hnew].
  apply pcv_ok_map; [|exact Hnew]. intros m. split; [apply core_g|apply pcv_g].
Qed.

(* ---- known accounts -------------------------------------------------------------------------------------------------------- *)
Lemma memN_add : forall a b k, memN a (A_known_add b k) = N.eqb a b || memN a k.
Proof.
  intros. unfold A_known_add. destruct (memN b k) eqn:E; [|reflexivity].
  destruct (N.eqb_spec a b) as [->|]; [rewrite E|]; reflexivity.
Qed.

Definition same_members (k1 k2 : list N) : Prop := forall a, memN a k1 = memN a k2.

Definition moves_known (known : list N) (ms : list bmove) : Prop := forall m, In m ms -> memN (b_addr m) known = true.

Lemma in_insert_move : forall m ms txid ins eff addr asset amount is_source ex,
  In m (A_insert_move ms txid ins eff addr asset amount is_source ex) ->
  b_addr m = addr \/ exists m0, In m0 ms /\ b_addr m = b_addr m0.
Proof.
  intros m ms txid ins eff addr asset amount is_source ex H.
  assert (In (core m) (map core (A_insert_move ms txid ins eff addr asset amount is_source ex))) as Hc by (apply in_map; assumption).
  rewrite core_insert in Hc. destruct Hc as [E|Hc].
  - left. change (b_addr m) with (r_addr (core m)). rewrite <- E. reflexivity.
  - right. apply in_map_iff in Hc. destruct Hc as [m0 [E Hm0]]. exists m0. split; [assumption|].
    change (b_addr m) with (r_addr (core m)). rewrite <- E. reflexivity.
Qed.

(* one posting *)
Lemma posting_inv : forall txid ins eff known ms p k0,
  pcv_ok ms -> moves_known known ms -> same_members known k0 ->
  negb (N.eqb (p_src p) (p_dst p) && negb (existsb (N.eqb (p_src p)) k0)) = true ->
  let st := A_posting txid ins eff (known, ms) p in
  pcv_ok (snd st) /\ moves_known (fst st) (snd st) /\ same_members (fst st) (p_src p :: p_dst p :: k0).
Proof.
  intros txid ins eff known ms p k0 Hp Hk Hs Hn. unfold A_posting. cbn [fst snd].
  assert (Hfresh : forall a ms', (forall m, In m ms' -> memN (b_addr m) known = true \/ b_addr m <> a) ->
                    memN a known = false -> forall s, filter (bkey a s) ms' = []).
  { intros a ms' Hall Hm s. apply filter_none. intros m Hin. unfold bkey.
    destruct (N.eqb_spec (b_addr m) a) as [E|E]; [|reflexivity]. exfalso.
    destruct (Hall m Hin) as [K|K]; [rewrite E in K; congruence|contradiction]. }
  set (ms1 := A_insert_move ms txid ins eff (p_src p) (p_asset p) (p_amt p) true (memN (p_src p) known)).
  assert (P1 : pcv_ok ms1).
  { apply pcv_ok_insert; [assumption|]. intros E. apply (Hfresh (p_src p) ms); [|assumption].
    intros m Hm. left. apply Hk. assumption. }
  split; [|split].
  - apply pcv_ok_insert; [assumption|]. intros E. apply (Hfresh (p_dst p) ms1); [|assumption].
    intros m Hm. apply in_insert_move in Hm. destruct Hm as [Ha|[m0 [Hm0 Ha]]].
    + right. rewrite Ha. intros C.
      rewrite negb_true_iff, andb_false_iff in Hn. destruct Hn as [Hn|Hn].
      * apply N.eqb_neq in Hn. contradiction.
      * rewrite negb_false_iff in Hn. change (existsb (N.eqb (p_src p)) k0) with (memN (p_src p) k0) in Hn.
        rewrite <- Hs, C in Hn. congruence.
    + left. rewrite Ha. apply Hk. assumption.
  - intros m Hm. rewrite !memN_add.
    apply in_insert_move in Hm. destruct Hm as [Ha|[m0 [Hm0 Ha]]]; [rewrite Ha, N.eqb_refl; reflexivity|].
    apply in_insert_move in Hm0. destruct Hm0 as [Hb|[m1 [Hm1 Hb]]].
    + rewrite Ha, Hb, N.eqb_refl, orb_true_r. reflexivity.
    + rewrite Ha, Hb, (Hk m1 Hm1), !orb_true_r. reflexivity.
  - intros a. rewrite !memN_add. unfold memN at 2. cbn [existsb]. fold (memN a k0). rewrite (Hs a).
    destruct (N.eqb a (p_dst p)), (N.eqb a (p_src p)); reflexivity.
Qed.

Lemma postings_inv : forall ps txid ins eff known ms k0,
  pcv_ok ms -> moves_known known ms -> same_members known k0 -> nst_postings k0 ps = true ->
  let st := fold_left (A_posting txid ins eff) ps (known, ms) in
  pcv_ok (snd st) /\ moves_known (fst st) (snd st) /\
  same_members (fst st) (rev (posting_accounts ps) ++ k0).
Proof.
  induction ps as [|p ps IH]; intros txid ins eff known ms k0 Hp Hk Hs Hn; cbn [fold_left].
  - cbn. auto.
  - cbn [nst_postings] in Hn. apply andb_prop in Hn. destruct Hn as [Hn1 Hn2].
    destruct (posting_inv txid ins eff known ms p k0 Hp Hk Hs Hn1) as [P1 [K1 S1]].
    destruct (A_posting txid ins eff (known, ms) p) as [known1 ms1] eqn:E. cbn [fst snd] in *.
    destruct (IH txid ins eff known1 ms1 (p_src p :: p_dst p :: k0) P1 K1 S1 Hn2) as [P2 [K2 S2]].
    split; [exact P2|]. split; [exact K2|].
    intros a. rewrite (S2 a). unfold posting_accounts. cbn [flat_map]. rewrite rev_app_distr. cbn [rev app].
    unfold memN. rewrite !existsb_app. cbn [existsb]. rewrite <- !orb_assoc.
    destruct (existsb (N.eqb a) (rev (flat_map (fun p0 => [p_src p0; p_dst p0]) ps))), (N.eqb a (p_src p)), (N.eqb a (p_dst p));
      reflexivity.
Qed.

Lemma same_members_known_fold : forall (am : list (N * meta)) known k0,
  same_members known k0 ->
  same_members (fold_left (fun k kv => A_known_add (fst kv) k) am known) (rev (map fst am) ++ k0).
Proof.
  induction am as [|kv am IH]; intros known k0 H; cbn [fold_left map rev]; [exact H|].
  intros a. rewrite (IH (A_known_add (fst kv) known) (fst kv :: k0)).
  - unfold memN. rewrite <- app_assoc. reflexivity.
  - intros b. rewrite memN_add. unfold memN at 2. cbn [existsb]. fold (memN b k0). rewrite (H b). reflexivity.
Qed.

Lemma moves_known_mono : forall k1 k2 ms, moves_known k1 ms -> (forall a, memN a k1 = true -> memN a k2 = true) ->
  moves_known k2 ms.
Proof. intros k1 k2 ms H M m Hm. apply M. apply H. assumption. Qed.

Lemma memN_perm : forall a l1 l2, (forall x, In x l1 <-> In x l2) -> memN a l1 = memN a l2.
Proof.
  intros a l1 l2 H. unfold memN. destruct (existsb (N.eqb a) l1) eqn:E1, (existsb (N.eqb a) l2) eqn:E2; try reflexivity.
  - apply existsb_exists in E1. destruct E1 as [x [Hx Ex]]. apply H in Hx.
    assert (existsb (N.eqb a) l2 = true) by (apply existsb_exists; exists x; auto). congruence.
  - apply existsb_exists in E2. destruct E2 as [x [Hx Ex]]. apply H in Hx.
    assert (existsb (N.eqb a) l1 = true) by (apply existsb_exists; exists x; auto). congruence.
Qed.

Definition invA (st : stateA) (k0 : list N) : Prop :=
  pcv_ok (snd st) /\ moves_known (fst st) (snd st) /\ same_members (fst st) k0.

Lemma step_inv : forall st e k0,
  invA st k0 ->
  match log_tx e with Some tx => nst_postings k0 (t_postings tx) | None => true end = true ->
  invA (A_step st e) (log_accounts e ++ k0).
Proof.
  intros [known ms] e k0 [Hp [Hk Hs]] Hn. unfold A_step, log_accounts, log_tx in *. cbn [fst snd] in *.
  destruct (l_data e) as [tx am|tx rid|[a|id] m|[a|id] k].
  - unfold A_tx. destruct (postings_inv (t_postings tx) (t_id tx) (l_date e) (t_ts tx) known ms k0 Hp Hk Hs Hn) as [P [K S]].
    destruct (fold_left (A_posting (t_id tx) (l_date e) (t_ts tx)) (t_postings tx) (known, ms)) as [kn1 ms1].
    unfold invA. cbn [fst snd] in *.
    pose proof (same_members_known_fold am kn1 _ S) as S2.
    split; [exact P|]. split.
    + apply (moves_known_mono kn1); [exact K|]. intros a Ha. rewrite (S2 a). rewrite (S a) in Ha.
      unfold memN in *. rewrite existsb_app. rewrite Ha. apply orb_true_r.
    + intros a. rewrite (S2 a). apply memN_perm. intros x. rewrite !in_app_iff, <- !in_rev. tauto.
  - unfold A_tx. destruct (postings_inv (t_postings tx) (t_id tx) (l_date e) (t_ts tx) known ms k0 Hp Hk Hs Hn) as [P [K S]].
    split; [exact P|]. split; [exact K|].
    intros a. rewrite (S a). apply memN_perm. intros x. rewrite !in_app_iff, <- !in_rev. tauto.
  - unfold invA. cbn [fst snd]. split; [exact Hp|]. split.
    + apply (moves_known_mono known); [exact Hk|]. intros b Hb. rewrite memN_add, Hb. apply orb_true_r.
    + intros b. rewrite memN_add. unfold memN at 2. cbn [app existsb]. fold (memN b k0). rewrite (Hs b). reflexivity.
  - split; [exact Hp|]. split; [exact Hk|exact Hs].
  - split; [exact Hp|]. split; [exact Hk|exact Hs].
  - split; [exact Hp|]. split; [exact Hk|exact Hs].
Qed.

Lemma run_inv_from : forall Ls st k0, invA st k0 -> nst_from k0 Ls = true -> exists k1, invA (fold_left A_step Ls st) k1.
Proof.
  induction Ls as [|e Ls IH]; intros st k0 H Hn; cbn [fold_left].
  - exists k0. exact H.
  - cbn [nst_from] in Hn. apply andb_prop in Hn. destruct Hn as [Hn1 Hn2].
    apply (IH (A_step st e) (log_accounts e ++ k0)); [|exact Hn2]. apply step_inv; assumption.
Qed.

Theorem run_pcv_ok : forall Ls, no_self_transfer_on_new_account Ls = true -> pcv_ok (snd (A_run Ls)).
Proof.
  intros Ls H. destruct (run_inv_from Ls ([], []) [] ) as [k1 [P _]]; [|exact H|exact P].
  split; [constructor|]. split; [intros m []|intros a; reflexivity].
Qed.

(* ---- replay moves: effective dates apart, the schema's dating and the oracle's agree ------------------------------------ *)
Definition set_eff0 (m : rmove) : rmove :=
  {| r_addr := r_addr m; r_asset := r_asset m; r_amount := r_amount m; r_src := r_src m; r_ins := r_ins m; r_eff := 0 |}.

Lemma noeff_moves : forall Ls, map set_eff0 (replay_moves_sql Ls) = map set_eff0 (replay_moves Ls).
Proof.
  induction Ls as [|e Ls IH]; [reflexivity|]. unfold replay_moves_sql, replay_moves in *. cbn [flat_map].
  rewrite !map_app, IH. f_equal. unfold log_rmoves_sql, log_rmoves. destruct (log_tx e) as [tx|]; [|reflexivity].
  induction (t_postings tx) as [|p ps IHp]; [reflexivity|]. cbn [flat_map]. rewrite !map_app, IHp. reflexivity.
Qed.

Definition ignores_eff (p : rmove -> bool) : Prop := forall m, p (set_eff0 m) = p m.

Lemma some_vol_noeff : forall p l1 l2, ignores_eff p -> map set_eff0 l1 = map set_eff0 l2 ->
  some_vol (filter p l1) = some_vol (filter p l2).
Proof.
  intros p l1 l2 Hp E.
  assert (F : map set_eff0 (filter p l1) = map set_eff0 (filter p l2)).
  { rewrite <- !(filter_ext (fun m => p (set_eff0 m)) p) by exact Hp.
    rewrite <- !filter_map_comm, E. reflexivity. }
  assert (R : forall l, rvol l = rvol (map set_eff0 l)).
  { intros l. unfold rvol. rewrite !map_map. reflexivity. }
  unfold some_vol. destruct (filter p l1) as [|x t], (filter p l2) as [|y u]; try discriminate; [reflexivity|].
  rewrite (R (x :: t)), (R (y :: u)), F. reflexivity.
Qed.

Lemma assets_noeff : forall Ls, map r_asset (replay_moves_sql Ls) = map r_asset (replay_moves Ls).
Proof.
  intros. change r_asset with (fun m => r_asset (set_eff0 m)).
  rewrite <- (map_map set_eff0 r_asset (replay_moves_sql Ls)), <- (map_map set_eff0 r_asset (replay_moves Ls)).
  rewrite noeff_moves. reflexivity.
Qed.

Theorem A_assets_replay : forall Ls, A_assets (snd (A_run Ls)) = replay_assets Ls.
Proof.
  intros. unfold A_assets, replay_assets. apply sort_dedup_ext. intros x.
  rewrite <- assets_noeff. rewrite <- (map_map core r_asset), core_run, map_rev, <- in_rev. reflexivity.
Qed.

(* ---- insertion dates along the moves list ----------------------------------------------------------------------------------- *)
Lemma StronglySorted_app_intro : forall {A} (R : A -> A -> Prop) (a b : list A),
  StronglySorted R a -> StronglySorted R b -> (forall x y, In x a -> In y b -> R x y) -> StronglySorted R (a ++ b).
Proof.
  induction a as [|x a IH]; intros b Ha Hb H; cbn; [assumption|].
  apply StronglySorted_inv in Ha. destruct Ha as [Sa Fa]. constructor.
  - apply IH; auto. intros; apply H; [right|]; assumption.
  - rewrite Forall_forall in *. intros y Hy. apply in_app_iff in Hy. destruct Hy; [apply Fa|apply H; [left|]]; auto.
Qed.

Lemma StronglySorted_rev : forall {A} (R : A -> A -> Prop) (l : list A),
  StronglySorted R l -> StronglySorted (fun x y => R y x) (rev l).
Proof.
  induction l as [|x l IH]; intros H; cbn; [constructor|].
  apply StronglySorted_inv in H. destruct H as [S F]. rewrite Forall_forall in F.
  apply StronglySorted_app_intro; [apply IH; assumption|constructor; constructor|].
  intros a b Ha [<-|[]]. apply F. apply in_rev. assumption.
Qed.

Lemma ins_sorted_from : forall Ls t, dates_monotone_from t Ls = true ->
  (forall m, In m (replay_moves_sql Ls) -> t <= r_ins m) /\
  StronglySorted (fun x y => r_ins x <= r_ins y) (replay_moves_sql Ls).
Proof.
  induction Ls as [|e Ls IH]; intros t H; cbn in H |- *.
  - split; [intros m []|constructor].
  - apply andb_prop in H. destruct H as [H1 H2]. apply Z.leb_le in H1. destruct (IH _ H2) as [B S].
    unfold replay_moves_sql. cbn [flat_map]. fold (replay_moves_sql Ls).
    assert (He : forall m, In m (log_rmoves_sql e) -> r_ins m = l_date e).
    { intros m Hm. unfold log_rmoves_sql in Hm. destruct (log_tx e) as [tx|]; [|contradiction].
      apply in_flat_map in Hm. destruct Hm as [p [_ [<-|[<-|[]]]]]; reflexivity. }
    split.
    + intros m Hm. apply in_app_iff in Hm. destruct Hm as [Hm|Hm]; [rewrite (He m Hm); lia|].
      specialize (B m Hm). lia.
    + apply StronglySorted_app_intro; [|exact S|].
      * assert (G : forall l, (forall m, In m l -> r_ins m = l_date e) -> StronglySorted (fun x y => r_ins x <= r_ins y) l).
        { induction l as [|x l IHl]; intros Hl; constructor.
          - apply IHl. intros; apply Hl; right; assumption.
          - apply Forall_forall. intros y Hy. rewrite (Hl x (or_introl eq_refl)), (Hl y (or_intror Hy)). lia. }
        apply G. exact He.
      * intros x y Hx Hy. rewrite (He x Hx). apply B. assumption.
Qed.

Lemma ins_sorted_run : forall Ls, dates_monotone Ls = true ->
  StronglySorted (fun x y => b_ins y <= b_ins x) (snd (A_run Ls)).
Proof.
  intros Ls H.
  assert (S : StronglySorted (fun x y => r_ins x <= r_ins y) (replay_moves_sql Ls)).
  { destruct Ls as [|e Ls]; [constructor|]. cbn in H.
    assert (dates_monotone_from (l_date e) (e :: Ls) = true) as H' by (cbn; rewrite Z.leb_refl; exact H).
    apply (ins_sorted_from _ _ H'). }
  apply StronglySorted_rev in S. rewrite <- core_run in S.
  remember (snd (A_run Ls)) as ms. clear -S. induction ms as [|m ms IH]; [constructor|].
  cbn in S. apply StronglySorted_inv in S. destruct S as [S F]. constructor; [apply IH; exact S|].
  rewrite Forall_forall in *. intros y Hy. apply (F (core y)). apply in_map. assumption.
Qed.

(* ---- post_commit_volumes = replay ---------------------------------------------------------------------------------------------- *)
Lemma pcv_ok_head_pit : forall a s t ms last rest, pcv_ok ms ->
  StronglySorted (fun x y => b_ins y <= b_ins x) ms ->
  filter (fun m => Z.leb (b_ins m) t && bkey a s m) ms = last :: rest ->
  b_pcv last = vol_of (rvol (filter (fun r => Z.leb (r_ins r) t && rkey a s r) (map core ms))).
Proof.
  induction ms as [|m post IH]; intros last rest H S E; [discriminate|].
  inversion H as [|? ? Hp Hm]; subst. apply StronglySorted_inv in S. destruct S as [Sp Fm].
  cbn [filter] in E. cbn [map filter]. change (r_ins (core m)) with (b_ins m). rewrite rkey_core.
  destruct (Z.leb (b_ins m) t && bkey a s m) eqn:K.
  - inversion E; subst last rest. rewrite Hm. apply andb_prop in K. destruct K as [K0 K].
    unfold bkey in K. apply andb_prop in K. destruct K as [K1 K2]. apply N.eqb_eq in K1, K2. subst.
    cbn [map filter]. rewrite rkey_core. unfold bkey at 1. rewrite !N.eqb_refl. cbn [andb].
    f_equal. f_equal. f_equal. apply filter_ext_in'. intros r Hr. apply in_map_iff in Hr. destruct Hr as [y [<- Hy]].
    rewrite Forall_forall in Fm. specialize (Fm y Hy). apply Z.leb_le in K0.
    change (r_ins (core y)) with (b_ins y). assert (Z.leb (b_ins y) t = true) as -> by (apply Z.leb_le; lia). reflexivity.
  - apply (IH last rest); assumption.
Qed.

Lemma before_none : forall (f : bool) x, before_ok None x && f = f.
Proof. reflexivity. Qed.

Theorem A_volume_replay : forall Ls a s pit,
  no_self_transfer_on_new_account Ls = true ->
  (pit <> None -> dates_monotone Ls = true) ->
  match filter (fun m => before_ok pit (b_ins m) && bkey a s m) (snd (A_run Ls)) with
  | m :: _ => Some (b_asset m, b_pcv m)
  | [] => None
  end = option_map (fun v => (s, vol_of v)) (replay_volume Ls a s pit).
Proof.
  intros Ls a s pit Hn Hd. pose proof (run_pcv_ok Ls Hn) as P.
  unfold replay_volume.
  rewrite <- (some_vol_noeff (fun m => before_ok pit (r_ins m) && rkey a s m) (replay_moves_sql Ls) (replay_moves Ls)).
  2:{ intros m. reflexivity. }
  2:{ apply noeff_moves. }
  assert (C : filter (fun r => before_ok pit (r_ins r) && rkey a s r) (map core (snd (A_run Ls))) =
              rev (filter (fun r => before_ok pit (r_ins r) && rkey a s r) (replay_moves_sql Ls))).
  { rewrite core_run, filter_rev'. reflexivity. }
  destruct (filter (fun m => before_ok pit (b_ins m) && bkey a s m) (snd (A_run Ls))) as [|m rest] eqn:EF.
  - assert (filter (fun r => before_ok pit (r_ins r) && rkey a s r) (map core (snd (A_run Ls))) = []) as Z0.
    { rewrite filter_map_comm. change (fun x => before_ok pit (r_ins (core x)) && rkey a s (core x))
        with (fun m => before_ok pit (b_ins m) && bkey a s m). rewrite EF. reflexivity. }
    rewrite Z0 in C. destruct (filter _ (replay_moves_sql Ls)) as [|x t]; [reflexivity|].
    cbn in C. destruct (rev t); discriminate.
  - assert (Hm : b_asset m = s).
    { assert (In m (filter (fun m => before_ok pit (b_ins m) && bkey a s m) (snd (A_run Ls)))) as X by (rewrite EF; left; reflexivity).
      apply filter_In in X. destruct X as [_ X]. apply andb_prop in X. destruct X as [_ X]. unfold bkey in X.
      apply andb_prop in X. destruct X as [_ X]. apply N.eqb_eq in X. exact X. }
    assert (V : b_pcv m = vol_of (rvol (filter (fun r => before_ok pit (r_ins r) && rkey a s r) (map core (snd (A_run Ls)))))).
    { destruct pit as [t|].
      - apply (pcv_ok_head_pit a s t _ m rest P); [|exact EF]. apply ins_sorted_run. apply Hd. discriminate.
      - apply (pcv_ok_head a s _ m rest P). exact EF. }
    rewrite C, rvol_rev in V.
    destruct (filter _ (replay_moves_sql Ls)) as [|x t] eqn:ER.
    + exfalso. assert (In (core m) (filter (fun r => before_ok pit (r_ins r) && rkey a s r) (map core (snd (A_run Ls))))) as X.
      { rewrite filter_map_comm. apply in_map.
        change (fun x => before_ok pit (r_ins (core x)) && rkey a s (core x)) with (fun m => before_ok pit (b_ins m) && bkey a s m).
        rewrite EF. left; reflexivity. }
      rewrite C in X. contradiction.
    + cbn [some_vol option_map]. rewrite Hm, V. reflexivity.
Qed.

Theorem A_volumes_replay : forall Ls a pit,
  no_self_transfer_on_new_account Ls = true ->
  (pit <> None -> dates_monotone Ls = true) ->
  A_volumes (snd (A_run Ls)) a pit = vols_of (replay_volumes Ls a pit).
Proof.
  intros Ls a pit Hn Hd. unfold A_volumes, replay_volumes, per_asset, vols_of. rewrite A_assets_replay.
  induction (replay_assets Ls) as [|s ss IH]; [reflexivity|]. cbn [flat_map]. rewrite map_app, IH. f_equal.
  pose proof (A_volume_replay Ls a s pit Hn Hd) as H.
  destruct (filter _ (snd (A_run Ls))) as [|m t]; destruct (replay_volume Ls a s pit) as [v|]; cbn in H |- *;
    try discriminate; [reflexivity|]. inversion H. reflexivity.
Qed.

Theorem A_balance_replay : forall Ls a s,
  no_self_transfer_on_new_account Ls = true ->
  A_balance (snd (A_run Ls)) a s None = replay_balance Ls a s.
Proof.
  intros Ls a s Hn. unfold A_balance, replay_balance.
  pose proof (A_volume_replay Ls a s None Hn ltac:(congruence)) as H.
  change (fun m => before_ok None (b_eff m) && bkey a s m) with (fun m => before_ok None (b_ins m) && bkey a s m).
  destruct (filter _ (snd (A_run Ls))) as [|m t]; destruct (replay_volume Ls a s None) as [v|]; cbn in H |- *;
    try discriminate; [reflexivity|]. inversion H as [[H1 H2]]. rewrite H2. reflexivity.
Qed.

(* ---- double entry on the oracle ------------------------------------------------------------------------------------------------- *)
Lemma rvol_balanced_postings : forall (q : Z -> N -> bool) ins eff ps,
  let ms := filter (fun m => q (r_ins m) (r_asset m)) (flat_map (posting_rmoves ins eff) ps) in
  fst (rvol ms) = snd (rvol ms).
Proof.
  intros q ins eff ps. induction ps as [|p ps IH]; [reflexivity|]. cbn zeta in *. cbn [flat_map].
  rewrite filter_app, rvol_app. cbn [fst snd]. rewrite IH. f_equal.
  cbn [posting_rmoves filter r_ins r_asset]. destruct (q ins (p_asset p)); cbn; lia.
Qed.

Theorem replay_double_entry : forall Ls (q : Z -> N -> bool),
  let ms := filter (fun m => q (r_ins m) (r_asset m)) (replay_moves Ls) in fst (rvol ms) = snd (rvol ms).
Proof.
  intros Ls q. cbn zeta. induction Ls as [|e Ls IH]; [reflexivity|]. unfold replay_moves in *. cbn [flat_map].
  rewrite filter_app, rvol_app. cbn [fst snd]. rewrite IH. f_equal.
  unfold log_rmoves. destruct (log_tx e) as [tx|]; [|reflexivity]. apply rvol_balanced_postings.
Qed.

(* summing the per-account figures over a duplicate-free list of accounts that covers the moves gives the total *)
Lemma zsum_single : forall (accts : list N) (x : N) (c : Z), NoDup accts -> In x accts ->
  zsum (map (fun a => if N.eqb x a then c else 0) accts) = c.
Proof.
  induction accts as [|a accts IH]; intros x c Hnd Hin; [contradiction|].
  inversion Hnd as [|? ? Hn Hr]; subst. unfold zsum in *. cbn [map fold_right].
  destruct Hin as [->|Hin].
  - rewrite N.eqb_refl. assert (fold_right Z.add 0 (map (fun a0 => if N.eqb x a0 then c else 0) accts) = 0) as ->; [|lia].
    clear -Hn. induction accts as [|b accts IH]; [reflexivity|]. cbn [map fold_right].
    destruct (N.eqb_spec x b) as [->|]; [exfalso; apply Hn; left; reflexivity|].
    rewrite IH; [lia|]. intros C. apply Hn. right. assumption.
  - destruct (N.eqb_spec x a) as [->|]; [contradiction|]. rewrite (IH x c Hr Hin). lia.
Qed.

Lemma zsum_map_add : forall {A} (f g : A -> Z) l, zsum (map (fun a => f a + g a) l) = zsum (map f l) + zsum (map g l).
Proof. induction l as [|x l IH]; unfold zsum in *; cbn [map fold_right]; [reflexivity|]. rewrite IH. lia. Qed.

Lemma partition_accounts : forall (proj : rmove -> Z) (accts : list N) (M : list rmove),
  NoDup accts -> (forall m, In m M -> In (r_addr m) accts) ->
  zsum (map (fun a => zsum (map proj (filter (fun m => N.eqb (r_addr m) a) M))) accts) = zsum (map proj M).
Proof.
  intros proj accts M Hnd. induction M as [|m M IH]; intros Hc.
  - cbn [filter map]. clear. induction accts as [|a accts IHa]; [reflexivity|].
    cbn [map]. change (zsum (?x :: ?l)) with (x + zsum l). rewrite IHa. reflexivity.
  - rewrite (map_ext _ (fun a => (if N.eqb (r_addr m) a then proj m else 0) +
                                  zsum (map proj (filter (fun m0 => N.eqb (r_addr m0) a) M)))).
    2:{ intros a. cbn [filter]. destruct (N.eqb (r_addr m) a); unfold zsum; cbn [map fold_right]; lia. }
    rewrite zsum_map_add, IH by (intros; apply Hc; right; assumption).
    rewrite zsum_single by (auto; apply Hc; left; reflexivity). unfold zsum. cbn [map fold_right]. reflexivity.
Qed.

(* ---- Part C: post_commit_effective_volumes ------------------------------------------------------------------------------------ *)
(* the stored effective volumes of a move are the sums over the moves of the same (account, asset) that are not later
   in (effective date, seq) order: older rows with eff <= , the row itself, newer rows with eff < *)
Definition Klt (m : bmove) (r : rmove) : bool := rkey (b_addr m) (b_asset m) r && Z.ltb (r_eff r) (b_eff m).
Definition Kle (m : bmove) (r : rmove) : bool := rkey (b_addr m) (b_asset m) r && Z.leb (r_eff r) (b_eff m).
Definition Eexp (pre : list bmove) (m : bmove) (post : list bmove) : Z * Z :=
  rvol (filter (Klt m) (map core pre) ++ filter (Kle m) (map core (m :: post))).
Definition pcev_ok (ms : list bmove) : Prop :=
  forall pre m post, ms = pre ++ m :: post -> b_pcev m = vol_of (Eexp pre m post).

Lemma K_core : forall m m', core m = core m' -> (forall r, Klt m r = Klt m' r) /\ (forall r, Kle m r = Kle m' r).
Proof.
  intros m m' H.
  assert (b_addr m = b_addr m' /\ b_asset m = b_asset m' /\ b_eff m = b_eff m') as [A [B C]].
  { change (r_addr (core m) = r_addr (core m') /\ r_asset (core m) = r_asset (core m') /\ r_eff (core m) = r_eff (core m')).
    rewrite H. auto. }
  unfold Klt, Kle. rewrite A, B, C. auto.
Qed.

Lemma pick_eff_split : forall (q : bmove -> bool) ms e,
  pick_best b_eff_better (filter q ms) = Some e ->
  exists pre post, ms = pre ++ e :: post /\ q e = true /\
    (forall x, In x pre -> q x = true -> b_eff x < b_eff e) /\
    (forall x, In x post -> q x = true -> b_eff x <= b_eff e).
Proof.
  induction ms as [|x r IH]; intros e H; [discriminate|]. cbn [filter] in H.
  destruct (q x) eqn:Q.
  - cbn [pick_best] in H. destruct (pick_best b_eff_better (filter q r)) as [y|] eqn:P.
    + destruct (IH y eq_refl) as [pre' [post' [Er [Qy [Hpre Hpost]]]]].
      unfold b_eff_better in H. destruct (Z.leb_spec (b_eff y) (b_eff x)) as [L|L]; inversion H; subst e.
      * exists [], r. split; [reflexivity|]. split; [exact Q|]. split; [intros z []|].
        intros z Hz Qz. rewrite Er in Hz. apply in_app_iff in Hz. destruct Hz as [Hz|[<-|Hz]].
        -- specialize (Hpre z Hz Qz). lia.
        -- lia.
        -- specialize (Hpost z Hz Qz). lia.
      * exists (x :: pre'), post'. split; [rewrite Er; reflexivity|]. split; [exact Qy|]. split; [|exact Hpost].
        intros z [<-|Hz] Qz; [lia|apply Hpre; assumption].
    + inversion H; subst e. apply pick_best_none in P. exists [], r. split; [reflexivity|]. split; [exact Q|].
      split; [intros z []|]. intros z Hz Qz.
      assert (In z (filter q r)) as C by (apply filter_In; auto). rewrite P in C. contradiction.
  - destruct (IH e H) as [pre' [post' [Er [Qe [Hpre Hpost]]]]].
    exists (x :: pre'), post'. split; [rewrite Er; reflexivity|]. split; [exact Qe|]. split; [|exact Hpost].
    intros z [<-|Hz] Qz; [congruence|apply Hpre; assumption].
Qed.

Lemma vol_of_bump : forall v is_source amount,
  bump (vol_of v) is_source amount = vol_of ((if is_source then 0 else amount) + fst v, (if is_source then amount else 0) + snd v).
Proof. intros [i o] [|] amount; unfold vol_of; cbn; f_equal; f_equal; lia. Qed.

Lemma b_upd_pcev : forall is_source amount m v, b_pcev m = vol_of v ->
  b_pcev (b_upd is_source amount m) = vol_of ((if is_source then 0 else amount) + fst v, (if is_source then amount else 0) + snd v).
Proof. intros is_source amount m [i o] H. unfold b_upd. cbn [b_pcev]. rewrite H. unfold vol_of. cbn. f_equal; f_equal; lia. Qed.

(* the back-dating condition at one insertion, on the machine's own list *)
Definition nbd_here (ms : list bmove) (addr asset : N) (eff : Z) : bool :=
  match filter (rkey addr asset) (map core ms) with
  | [] => true
  | same => existsb (fun m' => Z.leb (r_eff m') eff) same
  end.

Lemma pcev_ok_insert : forall ms txid ins eff addr asset amount is_source ex,
  pcev_ok ms -> (ex = false -> filter (bkey addr asset) ms = []) -> nbd_here ms addr asset eff = true ->
  pcev_ok (A_insert_move ms txid ins eff addr asset amount is_source ex).
Proof.
  intros ms txid ins eff addr asset amount is_source ex H Hfresh Hnbd. rewrite A_insert_move_eq. cbn zeta.
  set (new := A_im_new ms txid ins eff addr asset amount is_source ex).
  set (g := A_im_g eff addr asset amount is_source).
  assert (Cnew : core new = {| r_addr := addr; r_asset := asset; r_amount := amount; r_src := is_source; r_ins := ins; r_eff := eff |})
    by reflexivity.
  (* the new row *)
  assert (Hnew : b_pcev new = vol_of (Eexp [] new ms)).
  { unfold Eexp. cbn [map filter app]. change (map core (new :: ms)) with (core new :: map core ms). cbn [filter].
    assert (Kle new (core new) = true) as ->.
    { unfold Kle, rkey. rewrite Cnew. cbn. rewrite !N.eqb_refl, Z.leb_refl. reflexivity. }
    rewrite rvol_cons. rewrite Cnew at 1 2. cbn [r_in r_out r_src r_amount].
    change (b_pcev new) with (bump (snd (A_im_vols ms eff addr asset ex)) is_source amount).
    assert (Kn : forall r, Kle new r = rkey addr asset r && Z.leb (r_eff r) eff) by reflexivity.
    rewrite (filter_ext _ _ Kn).
    unfold A_im_vols. destruct ex.
    - destruct (filter (bkey addr asset) ms) as [|last rest] eqn:EF.
      + assert (filter (fun r => rkey addr asset r && Z.leb (r_eff r) eff) (map core ms) = []) as ->.
        { rewrite <- filter_filter, filter_core, EF. reflexivity. }
        cbn [snd]. destruct is_source; unfold vol_of, bump, vol0, oadd, rvol, r_in, r_out; cbn; f_equal; f_equal; lia.
      + cbn [snd].
        destruct (pick_best b_eff_better (filter (fun m => bkey addr asset m && Z.leb (b_eff m) eff) ms)) as [e|] eqn:EP.
        * destruct (pick_eff_split _ _ _ EP) as [pre [post [Ems [Qe [Hpre Hpost]]]]].
          rewrite (H pre e post Ems), vol_of_bump. f_equal.
          apply andb_prop in Qe. destruct Qe as [Ke Le]. apply Z.leb_le in Le.
          unfold bkey in Ke. apply andb_prop in Ke. destruct Ke as [Ka Ks]. apply N.eqb_eq in Ka, Ks.
          unfold Eexp. rewrite Ems, map_app, filter_app.
          assert (F1 : filter (fun r => rkey addr asset r && Z.leb (r_eff r) eff) (map core pre) = filter (Klt e) (map core pre)).
          { apply filter_ext_in'. intros r Hr. apply in_map_iff in Hr. destruct Hr as [x [<- Hx]].
            unfold Klt. rewrite Ka, Ks. rewrite rkey_core. change (r_eff (core x)) with (b_eff x).
            destruct (bkey addr asset x) eqn:Kx; [|reflexivity]. cbn [andb].
            destruct (Z.leb_spec (b_eff x) eff) as [L|L].
            - symmetry. apply Z.ltb_lt. apply Hpre; [assumption|]. rewrite Kx. cbn. apply Z.leb_le. assumption.
            - symmetry. apply Z.ltb_ge. lia. }
          assert (F2 : filter (fun r => rkey addr asset r && Z.leb (r_eff r) eff) (map core (e :: post)) =
                       filter (Kle e) (map core (e :: post))).
          { apply filter_ext_in'. intros r Hr. apply in_map_iff in Hr. destruct Hr as [x [<- Hx]].
            unfold Kle. rewrite Ka, Ks. rewrite rkey_core. change (r_eff (core x)) with (b_eff x).
            destruct (bkey addr asset x) eqn:Kx; [|reflexivity]. cbn [andb].
            destruct (Z.leb_spec (b_eff x) eff) as [L|L].
            - symmetry. apply Z.leb_le. destruct Hx as [<-|Hx]; [lia|]. apply Hpost; [assumption|].
              rewrite Kx. cbn. apply Z.leb_le. assumption.
            - symmetry. apply Z.leb_gt. lia. }
          rewrite F1, F2. reflexivity.
        * (* no row with an earlier-or-equal effective date: excluded *)
          exfalso. apply pick_best_none in EP. unfold nbd_here in Hnbd. rewrite filter_core, EF in Hnbd.
          cbn [map] in Hnbd. apply existsb_exists in Hnbd. destruct Hnbd as [r [Hr Lr]].
          change (core last :: map core rest) with (map core (last :: rest)) in Hr. rewrite <- EF in Hr.
          apply in_map_iff in Hr. destruct Hr as [x [<- Hx]]. apply filter_In in Hx. destruct Hx as [Hx Kx].
          assert (In x (filter (fun m => bkey addr asset m && Z.leb (b_eff m) eff) ms)) as C.
          { apply filter_In. split; [assumption|]. rewrite Kx. exact Lr. }
          rewrite EP in C. contradiction.
    - assert (filter (fun r => rkey addr asset r && Z.leb (r_eff r) eff) (map core ms) = []) as ->.
      { rewrite <- filter_filter, filter_core, (Hfresh eq_refl). reflexivity. }
      cbn [snd]. destruct is_source; unfold vol_of, bump, vol0, oadd, rvol, r_in, r_out; cbn; f_equal; f_equal; lia. }
  (* an older row, with the new row in front of it *)
  assert (Hold : forall pre1 m0 post0, ms = pre1 ++ m0 :: post0 ->
            Eexp (new :: pre1) m0 post0 =
            if bkey addr asset m0 && Z.ltb eff (b_eff m0)
            then ((if is_source then 0 else amount) + fst (Eexp pre1 m0 post0), (if is_source then amount else 0) + snd (Eexp pre1 m0 post0))
            else Eexp pre1 m0 post0).
  { intros pre1 m0 post0 _. unfold Eexp. change (map core (new :: pre1)) with (core new :: map core pre1). cbn [filter].
    assert (Klt m0 (core new) = bkey addr asset m0 && Z.ltb eff (b_eff m0)) as ->.
    { unfold Klt, rkey, bkey. rewrite Cnew. cbn [r_addr r_asset r_eff]. rewrite (N.eqb_sym addr), (N.eqb_sym asset). reflexivity. }
    destruct (bkey addr asset m0 && Z.ltb eff (b_eff m0)); [|reflexivity].
    cbn [app]. rewrite rvol_cons. rewrite Cnew at 1 2. cbn [r_in r_out r_src r_amount]. destruct is_source; reflexivity. }
  destruct ex.
  - (* rows later in effective date are patched *)
    intros pre' m' post' E'. change (g new :: map g ms) with (map g (new :: ms)) in E'.
    apply map_eq_app in E'. destruct E' as [pre0 [rest0 [E0 [Epre Erest]]]].
    apply map_eq_cons in Erest. destruct Erest as [m0 [post0 [Er [Em Epost]]]]. subst pre' m' post' rest0.
    assert (Eexp (map g pre0) (g m0) (map g post0) = Eexp pre0 m0 post0) as ->.
    { unfold Eexp. destruct (K_core (g m0) m0 (core_g _ _ _ _ _ m0)) as [K1 K2].
      rewrite (filter_ext _ _ K1), (filter_ext _ _ K2).
      change (map core (g m0 :: map g post0)) with (core (g m0) :: map core (map g post0)).
      rewrite !map_map. rewrite !(map_ext (fun x => core (g x)) core) by (intros; apply core_g).
      unfold g at 1. rewrite core_g. reflexivity. }
    destruct pre0 as [|x pre1]; cbn [app] in E0; inversion E0; subst.
    + assert (g new = new) as ->; [|exact Hnew].
      unfold g, A_im_g. change (b_eff new) with eff. rewrite Z.ltb_irrefl, andb_false_r. reflexivity.
    + rewrite (Hold pre1 m0 post0 eq_refl). unfold g, A_im_g.
      destruct (bkey addr asset m0 && Z.ltb eff (b_eff m0)).
      * apply b_upd_pcev. apply (H pre1 m0 post0). reflexivity.
      * apply (H pre1 m0 post0). reflexivity.
  - intros pre' m' post' E'. destruct pre' as [|x pre1]; cbn [app] in E'; inversion E'; subst.
    + exact Hnew.
    + rewrite (Hold pre1 m' post' eq_refl).
      assert (bkey addr asset m' = false) as ->.
      { destruct (bkey addr asset m') eqn:K; [|reflexivity]. exfalso.
        assert (In m' (filter (bkey addr asset) (pre1 ++ m' :: post'))) as C.
        { apply filter_In. split; [apply in_app_iff; right; left; reflexivity|exact K]. }
        rewrite (Hfresh eq_refl) in C. contradiction. }
      apply (H pre1 m' post'). reflexivity.
Qed.

Lemma posting_eff : forall txid ins eff known ms p k0 rest,
  pcev_ok ms -> moves_known known ms -> same_members known k0 ->
  negb (N.eqb (p_src p) (p_dst p) && negb (existsb (N.eqb (p_src p)) k0)) = true ->
  nbd_from (map core ms) (posting_rmoves ins eff p ++ rest) = true ->
  let st := A_posting txid ins eff (known, ms) p in
  pcev_ok (snd st) /\ nbd_from (map core (snd st)) rest = true.
Proof.
  intros txid ins eff known ms p k0 rest Hp Hk Hs Hn Hb. unfold A_posting. cbn [fst snd].
  assert (Hfresh : forall a ms', (forall m, In m ms' -> memN (b_addr m) known = true \/ b_addr m <> a) ->
                    memN a known = false -> forall s, filter (bkey a s) ms' = []).
  { intros a ms' Hall Hm s. apply filter_none. intros m Hin. unfold bkey.
    destruct (N.eqb_spec (b_addr m) a) as [E|E]; [|reflexivity]. exfalso.
    destruct (Hall m Hin) as [K|K]; [rewrite E in K; congruence|contradiction]. }
  cbn [posting_rmoves app nbd_from r_addr r_asset r_eff] in Hb.
  apply andb_prop in Hb. destruct Hb as [Hb1 Hb]. apply andb_prop in Hb. destruct Hb as [Hb2 Hb3].
  set (ms1 := A_insert_move ms txid ins eff (p_src p) (p_asset p) (p_amt p) true (memN (p_src p) known)) in *.
  assert (C1 : map core ms1 = {| r_addr := p_src p; r_asset := p_asset p; r_amount := p_amt p; r_src := true; r_ins := ins; r_eff := eff |} :: map core ms)
    by apply core_insert.
  assert (P1 : pcev_ok ms1).
  { apply pcev_ok_insert; [assumption| |].
    - intros E. apply (Hfresh (p_src p) ms); [|assumption]. intros m Hm. left. apply Hk. assumption.
    - unfold nbd_here. destruct (filter (rkey (p_src p) (p_asset p)) (map core ms)); [reflexivity|exact Hb1]. }
  split.
  - apply pcev_ok_insert; [assumption| |].
    + intros E. apply (Hfresh (p_dst p) ms1); [|assumption].
      intros m Hm. apply in_insert_move in Hm. destruct Hm as [Ha|[m0 [Hm0 Ha]]].
      * right. rewrite Ha. intros C.
        rewrite negb_true_iff, andb_false_iff in Hn. destruct Hn as [Hn|Hn].
        -- apply N.eqb_neq in Hn. contradiction.
        -- rewrite negb_false_iff in Hn. change (existsb (N.eqb (p_src p)) k0) with (memN (p_src p) k0) in Hn.
           rewrite <- Hs, C in Hn. congruence.
      * left. rewrite Ha. apply Hk. assumption.
    + unfold nbd_here. rewrite C1.
      destruct (filter (rkey (p_dst p) (p_asset p)) _); [reflexivity|exact Hb2].
  - rewrite core_insert, C1. exact Hb3.
Qed.

Lemma postings_eff : forall ps txid ins eff known ms k0 rest,
  pcv_ok ms -> pcev_ok ms -> moves_known known ms -> same_members known k0 -> nst_postings k0 ps = true ->
  nbd_from (map core ms) (flat_map (posting_rmoves ins eff) ps ++ rest) = true ->
  let st := fold_left (A_posting txid ins eff) ps (known, ms) in
  pcev_ok (snd st) /\ nbd_from (map core (snd st)) rest = true.
Proof.
  induction ps as [|p ps IH]; intros txid ins eff known ms k0 rest Hv Hp Hk Hs Hn Hb; cbn [fold_left].
  - cbn. auto.
  - cbn [nst_postings] in Hn. apply andb_prop in Hn. destruct Hn as [Hn1 Hn2].
    cbn [flat_map] in Hb. rewrite <- app_assoc in Hb.
    destruct (posting_inv txid ins eff known ms p k0 Hv Hk Hs Hn1) as [V1 [K1 S1]].
    destruct (posting_eff txid ins eff known ms p k0 _ Hp Hk Hs Hn1 Hb) as [P1 B1].
    destruct (A_posting txid ins eff (known, ms) p) as [known1 ms1] eqn:E. cbn [fst snd] in *.
    apply (IH txid ins eff known1 ms1 (p_src p :: p_dst p :: k0) rest V1 P1 K1 S1 Hn2 B1).
Qed.

Lemma step_eff : forall st e k0 rest,
  invA st k0 -> pcev_ok (snd st) ->
  match log_tx e with Some tx => nst_postings k0 (t_postings tx) | None => true end = true ->
  nbd_from (map core (snd st)) (log_rmoves_sql e ++ rest) = true ->
  pcev_ok (snd (A_step st e)) /\ nbd_from (map core (snd (A_step st e))) rest = true.
Proof.
  intros [known ms] e k0 rest [Hv [Hk Hs]] Hp Hn Hb. unfold A_step, log_rmoves_sql, log_tx in *. cbn [fst snd] in *.
  destruct (l_data e) as [tx am|tx rid|[a|id] m|[a|id] k]; cbn [app] in Hb; auto.
  - unfold A_tx.
    destruct (postings_eff (t_postings tx) (t_id tx) (l_date e) (t_ts tx) known ms k0 rest Hv Hp Hk Hs Hn Hb) as [P B].
    destruct (fold_left (A_posting (t_id tx) (l_date e) (t_ts tx)) (t_postings tx) (known, ms)) as [kn1 ms1].
    cbn [fst snd] in *. auto.
  - unfold A_tx.
    apply (postings_eff (t_postings tx) (t_id tx) (l_date e) (t_ts tx) known ms k0 rest Hv Hp Hk Hs Hn Hb).
Qed.

Lemma run_eff_from : forall Ls st k0,
  invA st k0 -> pcev_ok (snd st) -> nst_from k0 Ls = true ->
  nbd_from (map core (snd st)) (replay_moves_sql Ls) = true ->
  pcev_ok (snd (fold_left A_step Ls st)).
Proof.
  induction Ls as [|e Ls IH]; intros st k0 Hi Hp Hn Hb; cbn [fold_left]; [exact Hp|].
  cbn [nst_from] in Hn. apply andb_prop in Hn. destruct Hn as [Hn1 Hn2].
  unfold replay_moves_sql in Hb. cbn [flat_map] in Hb. fold (replay_moves_sql Ls) in Hb.
  destruct (step_eff st e k0 _ Hi Hp Hn1 Hb) as [P1 B1].
  apply (IH (A_step st e) (log_accounts e ++ k0)); auto. apply step_inv; assumption.
Qed.

Theorem run_pcev_ok : forall Ls,
  no_self_transfer_on_new_account Ls = true -> all_utc Ls = true -> no_backdating_before_first Ls = true ->
  pcev_ok (snd (A_run Ls)).
Proof.
  intros Ls Hn Hu Hb. unfold A_run. apply (run_eff_from Ls ([], []) []); auto.
  - split; [constructor|]. split; [intros m []|intros a; reflexivity].
  - intros pre m post E. destruct pre; discriminate.
  - cbn [snd map]. rewrite (replay_moves_utc Ls Hu). exact Hb.
Qed.

Theorem A_effective_volume_replay : forall Ls a s pit,
  no_self_transfer_on_new_account Ls = true -> all_utc Ls = true -> no_backdating_before_first Ls = true ->
  match pick_best b_eff_better (filter (fun m => before_ok pit (b_eff m) && bkey a s m) (snd (A_run Ls))) with
  | Some m => Some (b_asset m, b_pcev m)
  | None => None
  end = option_map (fun v => (s, vol_of v)) (replay_effective_volume Ls a s pit).
Proof.
  intros Ls a s pit Hn Hu Hb. pose proof (run_pcev_ok Ls Hn Hu Hb) as P.
  unfold replay_effective_volume. rewrite <- (replay_moves_utc Ls Hu).
  set (q := fun m => before_ok pit (b_eff m) && bkey a s m).
  set (qr := fun r => before_ok pit (r_eff r) && rkey a s r).
  assert (C : filter qr (map core (snd (A_run Ls))) = rev (filter qr (replay_moves_sql Ls))).
  { rewrite core_run, filter_rev'. reflexivity. }
  assert (Q : filter qr (map core (snd (A_run Ls))) = map core (filter q (snd (A_run Ls)))).
  { rewrite filter_map_comm. reflexivity. }
  destruct (pick_best b_eff_better (filter q (snd (A_run Ls)))) as [m|] eqn:EP.
  - destruct (pick_eff_split q _ _ EP) as [pre [post [Ems [Qm [Hpre Hpost]]]]].
    assert (Hq : before_ok pit (b_eff m) = true /\ b_addr m = a /\ b_asset m = s).
    { unfold q in Qm. apply andb_prop in Qm. destruct Qm as [Q1 Q2]. unfold bkey in Q2. apply andb_prop in Q2.
      destruct Q2 as [Q2 Q3]. apply N.eqb_eq in Q2, Q3. auto. }
    destruct Hq as [Hpit [Ha Hs]].
    assert (V : Eexp pre m post = rvol (filter qr (map core (snd (A_run Ls))))).
    { unfold Eexp. rewrite Ems, map_app, filter_app. f_equal. f_equal.
      - apply filter_ext_in'. intros r Hr. apply in_map_iff in Hr. destruct Hr as [x [<- Hx]].
        unfold Klt, qr. rewrite Ha, Hs, rkey_core. change (r_eff (core x)) with (b_eff x).
        destruct (bkey a s x) eqn:Kx; [|rewrite andb_false_r; reflexivity]. rewrite andb_true_r. cbn [andb].
        destruct (before_ok pit (b_eff x)) eqn:Bx.
        + apply Z.ltb_lt. apply Hpre; [assumption|]. unfold q. rewrite Bx, Kx. reflexivity.
        + apply Z.ltb_ge. destruct pit as [t|]; [|discriminate]. cbn in Bx, Hpit. apply Z.leb_gt in Bx. apply Z.leb_le in Hpit. lia.
      - apply filter_ext_in'. intros r Hr. apply in_map_iff in Hr. destruct Hr as [x [<- Hx]].
        unfold Kle, qr. rewrite Ha, Hs, rkey_core. change (r_eff (core x)) with (b_eff x).
        destruct (bkey a s x) eqn:Kx; [|rewrite andb_false_r; reflexivity]. rewrite andb_true_r. cbn [andb].
        destruct (before_ok pit (b_eff x)) eqn:Bx.
        + apply Z.leb_le. destruct Hx as [<-|Hx]; [lia|]. apply Hpost; [assumption|]. unfold q. rewrite Bx, Kx. reflexivity.
        + apply Z.leb_gt. destruct pit as [t|]; [|discriminate]. cbn in Bx, Hpit. apply Z.leb_gt in Bx. apply Z.leb_le in Hpit. lia. }
    rewrite (P pre m post Ems), V, C, rvol_rev, Hs.
    destruct (filter qr (replay_moves_sql Ls)) as [|x t] eqn:ER; [|reflexivity].
    exfalso. assert (In (core m) (filter qr (map core (snd (A_run Ls))))) as X.
    { rewrite Q. apply in_map. apply filter_In. split; [rewrite Ems; apply in_app_iff; right; left; reflexivity|exact Qm]. }
    rewrite C in X. contradiction.
  - apply pick_best_none in EP. rewrite Q, EP in C. cbn in C.
    destruct (filter qr (replay_moves_sql Ls)) as [|x t]; [reflexivity|]. cbn in C. destruct (rev t); discriminate.
Qed.

Theorem A_effective_volumes_replay : forall Ls a pit,
  no_self_transfer_on_new_account Ls = true -> all_utc Ls = true -> no_backdating_before_first Ls = true ->
  A_effective_volumes (snd (A_run Ls)) a pit = vols_of (replay_effective_volumes Ls a pit).
Proof.
  intros Ls a pit Hn Hu Hb. unfold A_effective_volumes, replay_effective_volumes, per_asset, vols_of. rewrite A_assets_replay.
  induction (replay_assets Ls) as [|s ss IH]; [reflexivity|]. cbn [flat_map]. rewrite map_app, IH. f_equal.
  pose proof (A_effective_volume_replay Ls a s pit Hn Hu Hb) as H.
  destruct (pick_best b_eff_better _) as [m|]; destruct (replay_effective_volume Ls a s pit) as [v|]; cbn in H |- *;
    try discriminate; [|reflexivity]. inversion H. reflexivity.
Qed.

(* ---- Part D: account metadata (current) ------------------------------------------------------------------------------------------ *)
Definition meta_equiv (a b : meta) : Prop := forall k, meta_get a k = meta_get b k.
Definition ometa_equiv (a b : option meta) : Prop :=
  match a, b with Some x, Some y => meta_equiv x y | None, None => True | _, _ => False end.

Lemma meta_get_set : forall m k v k', meta_get (meta_set m k v) k' = if N.eqb k' k then Some v else meta_get m k'.
Proof.
  induction m as [|[k0 v0] r IH]; intros k v k'; cbn [meta_set meta_get].
  - reflexivity.
  - destruct (N.ltb_spec k k0).
    + cbn [meta_get]. reflexivity.
    + destruct (N.eqb_spec k k0) as [->|Hne].
      * cbn [meta_get]. destruct (N.eqb k' k0); reflexivity.
      * cbn [meta_get]. rewrite IH. destruct (N.eqb_spec k' k0) as [->|]; [|reflexivity].
        assert (N.eqb k0 k = false) as -> by (apply N.eqb_neq; congruence). reflexivity.
Qed.

Lemma meta_get_del : forall m k k', meta_get (meta_del m k) k' = if N.eqb k' k then None else meta_get m k'.
Proof.
  induction m as [|[k0 v0] r IH]; intros k k'; cbn [meta_del filter meta_get fst].
  - destruct (N.eqb k' k); reflexivity.
  - destruct (N.eqb_spec k0 k) as [->|Hne]; cbn [negb].
    + fold (meta_del r k). rewrite IH. destruct (N.eqb_spec k' k); reflexivity.
    + cbn [meta_get]. fold (meta_del r k). rewrite IH. destruct (N.eqb_spec k' k0) as [->|]; [|reflexivity].
      assert (N.eqb k0 k = false) as -> by (apply N.eqb_neq; assumption). reflexivity.
Qed.

(* the last binding of a key in an update list *)
Fixpoint last_binding (b : meta) (k : N) : option N :=
  match b with
  | [] => None
  | (k', v) :: r => match last_binding r k with Some x => Some x | None => if N.eqb k k' then Some v else None end
  end.

Lemma meta_get_merge : forall b a k,
  meta_get (meta_merge a b) k = match last_binding b k with Some v => Some v | None => meta_get a k end.
Proof.
  unfold meta_merge. induction b as [|[k0 v0] r IH]; intros a k; cbn [fold_left last_binding fst snd]; [reflexivity|].
  rewrite IH. destruct (last_binding r k); [reflexivity|]. rewrite meta_get_set. destruct (N.eqb k k0); reflexivity.
Qed.

Lemma merge_equiv : forall a a' b, meta_equiv a a' -> meta_equiv (meta_merge a b) (meta_merge a' b).
Proof. intros a a' b H k. rewrite !meta_get_merge, (H k). reflexivity. Qed.

Lemma del_equiv : forall a a' k, meta_equiv a a' -> meta_equiv (meta_del a k) (meta_del a' k).
Proof. intros a a' k H k'. rewrite !meta_get_del, (H k'). reflexivity. Qed.

Lemma contains_merge : forall a b, meta_contains a b = true -> meta_equiv (meta_merge a b) a.
Proof.
  intros a b H k. rewrite meta_get_merge. unfold meta_contains in H. rewrite forallb_forall in H.
  induction b as [|[k0 v0] r IH]; cbn [last_binding]; [reflexivity|].
  assert (Hr : forall x, In x r -> match meta_get a (fst x) with Some v => N.eqb v (snd x) | None => false end = true)
    by (intros; apply H; right; assumption).
  specialize (IH Hr). destruct (last_binding r k); [exact IH|].
  destruct (N.eqb_spec k k0) as [->|]; [|reflexivity].
  specialize (H (k0, v0) (or_introl eq_refl)). cbn in H. destruct (meta_get a k0); [|discriminate].
  apply N.eqb_eq in H. subst. reflexivity.
Qed.

Lemma meta_equiv_refl : forall a, meta_equiv a a.
Proof. intros a k. reflexivity. Qed.
Lemma meta_equiv_trans : forall a b c, meta_equiv a b -> meta_equiv b c -> meta_equiv a c.
Proof. intros a b c H1 H2 k. rewrite (H1 k). apply H2. Qed.
Lemma meta_equiv_sym : forall a b, meta_equiv a b -> meta_equiv b a.
Proof. intros a b H k. symmetry. apply H. Qed.

Lemma pick_best_head : forall {A} (b : A -> A -> bool) x r, (forall y, In y r -> b x y = true) -> pick_best b (x :: r) = Some x.
Proof.
  intros A b x r H. cbn. destruct (pick_best b r) as [z|] eqn:E; [|reflexivity].
  apply pick_best_in in E. rewrite (H z E). reflexivity.
Qed.

(* the newest revision carries the largest revision number and the current metadata *)
Definition hist_ok (r : bacc) : Prop :=
  exists n d rest, ba_hist r = (Some n, d, ba_meta r) :: rest /\
                   forall h, In h rest -> exists k, fst (fst h) = Some k /\ k < n.

Lemma hist_ok_pick : forall r, hist_ok r ->
  exists h, pick_best brev_desc (ba_hist r) = Some h /\ snd h = ba_meta r /\ hd_error (ba_hist r) = Some h.
Proof.
  intros r [n [d [rest [E H]]]]. rewrite E. exists (Some n, d, ba_meta r). split; [|split; reflexivity].
  apply pick_best_head. intros y Hy. destruct (H y Hy) as [k [Ek Lk]]. unfold brev_desc. cbn [fst].
  rewrite Ek. apply Z.ltb_lt. assumption.
Qed.

Lemma hist_ok_next : forall r d mm,
  hist_ok r ->
  hist_ok {| ba_addr := ba_addr r; ba_ins := ba_ins r; ba_upd := d; ba_meta := mm;
             ba_hist := (B_next_rev (ba_hist r), d, mm) :: ba_hist r |}.
Proof.
  intros r d mm H. destruct (hist_ok_pick r H) as [h0 [P [_ Hd]]]. destruct H as [n [d0 [rest [E H]]]].
  unfold B_next_rev. rewrite P. rewrite E in Hd. inversion Hd; subst h0. rewrite E. cbn [hd fst oadd ba_hist ba_meta].
  exists (n + 1), d, ((Some n, d0, ba_meta r) :: rest). split; [reflexivity|].
  intros h [<-|Hh]; cbn [fst].
  - exists n. split; [reflexivity|lia].
  - destruct (H h Hh) as [k [Ek Lk]]. exists k. split; [assumption|lia].
Qed.

Definition accs_ok (accs : list bacc) : Prop := NoDup (map ba_addr accs) /\ forall r, In r accs -> hist_ok r.

Definition rel_acc (a : N) (accs : list bacc) (st : option meta) : Prop :=
  ometa_equiv (option_map ba_meta (B_find accs a)) st.

Lemma B_find_spec : forall accs a r, B_find accs a = Some r -> In r accs /\ ba_addr r = a.
Proof.
  unfold B_find. intros accs a r H. destruct (rev (filter _ accs)) as [|x t] eqn:E; [discriminate|].
  inversion H; subst x. apply in_rev_hd in E. apply filter_In in E. destruct E as [Hin Hp]. apply N.eqb_eq in Hp. auto.
Qed.

Lemma B_find_none : forall accs a, B_find accs a = None -> forall r, In r accs -> ba_addr r <> a.
Proof.
  unfold B_find. intros accs a H r Hr E. destruct (rev (filter (fun r => N.eqb (ba_addr r) a) accs)) as [|x t] eqn:EF; [|discriminate].
  assert (In r (filter (fun r => N.eqb (ba_addr r) a) accs)) as C by (apply filter_In; split; [assumption|apply N.eqb_eq; assumption]).
  apply in_rev in C. rewrite EF in C. contradiction.
Qed.

Lemma B_find_cons_new : forall accs x a, B_find accs (ba_addr x) = None ->
  B_find (x :: accs) a = if N.eqb (ba_addr x) a then Some x else B_find accs a.
Proof.
  intros accs x a Hn. unfold B_find. cbn [filter]. destruct (N.eqb_spec (ba_addr x) a) as [E|E]; [|reflexivity].
  cbn [rev]. subst a. unfold B_find in Hn. destruct (rev (filter _ accs)) as [|y t]; [reflexivity|discriminate].
Qed.

Lemma B_find_map : forall (f : bacc -> bacc) accs a, (forall r, ba_addr (f r) = ba_addr r) ->
  B_find (map f accs) a = option_map f (B_find accs a).
Proof.
  intros f accs a H. unfold B_find. rewrite filter_map_comm, <- map_rev.
  rewrite (filter_ext (fun x => N.eqb (ba_addr (f x)) a) (fun r => N.eqb (ba_addr r) a)) by (intros; rewrite H; reflexivity).
  destruct (rev (filter _ accs)); reflexivity.
Qed.

Lemma B_upsert_rel : forall accs x m date a st,
  accs_ok accs -> rel_acc a accs st ->
  accs_ok (B_upsert accs x m date) /\
  rel_acc a (B_upsert accs x m date) (if N.eqb x a then apply_set (match m with Some y => y | None => [] end) st else st).
Proof.
  intros accs x m date a st [Hnd Hh] Hr. unfold B_upsert. set (m' := match m with Some y => y | None => [] end).
  destruct (B_find accs x) as [old|] eqn:EF.
  - destruct (B_find_spec _ _ _ EF) as [Hin Ha].
    destruct (negb (meta_contains (ba_meta old) m')) eqn:EC.
    + set (f := fun r => if N.eqb (ba_addr r) x then
                   {| ba_addr := ba_addr old; ba_ins := ba_ins old; ba_upd := date; ba_meta := meta_merge (ba_meta old) m';
                      ba_hist := (B_next_rev (ba_hist r), date, meta_merge (ba_meta old) m') :: ba_hist r |} else r).
      assert (Hf : forall r, ba_addr (f r) = ba_addr r).
      { intros r. unfold f. destruct (N.eqb_spec (ba_addr r) x) as [E|]; [cbn; congruence|reflexivity]. }
      split.
      * split.
        -- rewrite map_map. rewrite (map_ext _ ba_addr) by exact Hf. exact Hnd.
        -- intros r Hr'. apply in_map_iff in Hr'. destruct Hr' as [r0 [<- Hr0]]. unfold f.
           destruct (N.eqb_spec (ba_addr r0) x) as [E|]; [|apply Hh; assumption].
           assert (r0 = old) as -> by (apply (NoDup_map_inj ba_addr accs); auto; congruence).
           apply (hist_ok_next old date (meta_merge (ba_meta old) m')). apply Hh. assumption.
      * unfold rel_acc in *. rewrite (B_find_map f accs a Hf).
        destruct (N.eqb_spec x a) as [<-|Hne].
        -- rewrite EF in *. cbn [option_map] in *. unfold f. rewrite Ha, N.eqb_refl. cbn [ba_meta].
           destruct st as [s|]; [|contradiction]. cbn. apply merge_equiv. exact Hr.
        -- destruct (B_find accs a) as [r|] eqn:EFa; cbn [option_map] in *; [|exact Hr].
           destruct (B_find_spec _ _ _ EFa) as [_ Hra]. unfold f.
           assert (N.eqb (ba_addr r) x = false) as -> by (apply N.eqb_neq; congruence). exact Hr.
    + split; [split; assumption|]. unfold rel_acc in *.
      destruct (N.eqb_spec x a) as [<-|Hne]; [|exact Hr].
      rewrite EF in *. cbn [option_map] in *. destruct st as [s|]; [|contradiction]. cbn.
      apply negb_false_iff in EC. apply meta_equiv_sym.
      apply (meta_equiv_trans _ (meta_merge (ba_meta old) m')); [apply merge_equiv; apply meta_equiv_sym; exact Hr|].
      apply contains_merge. exact EC.
  - set (new := {| ba_addr := x; ba_ins := date; ba_upd := date; ba_meta := m'; ba_hist := [(Some 1, date, m')] |}).
    split.
    + split.
      * cbn. constructor; [|exact Hnd]. intros C. apply in_map_iff in C. destruct C as [r [E Hin]].
        apply (B_find_none _ _ EF r Hin). exact E.
      * intros r [<-|Hin]; [|apply Hh; assumption]. exists 1, date, []. split; [reflexivity|intros h []].
    + unfold rel_acc in *. rewrite (B_find_cons_new accs new a EF). cbn [ba_addr new].
      destruct (N.eqb_spec x a) as [<-|Hne]; [|exact Hr].
      rewrite EF in Hr. cbn in Hr. destruct st; [contradiction|]. cbn. apply meta_equiv_refl.
Qed.

Lemma B_delete_rel : forall accs x k date a st,
  accs_ok accs -> rel_acc a accs st ->
  accs_ok (B_delete accs x k date) /\ rel_acc a (B_delete accs x k date) (if N.eqb x a then apply_del k st else st).
Proof.
  intros accs x k date a st [Hnd Hh] Hr. unfold B_delete.
  set (f := fun r => if N.eqb (ba_addr r) x then
                 {| ba_addr := ba_addr r; ba_ins := ba_ins r; ba_upd := date; ba_meta := meta_del (ba_meta r) k;
                    ba_hist := (B_next_rev (ba_hist r), date, meta_del (ba_meta r) k) :: ba_hist r |} else r).
  assert (Hf : forall r, ba_addr (f r) = ba_addr r).
  { intros r. unfold f. destruct (N.eqb (ba_addr r) x); reflexivity. }
  split.
  - split.
    + rewrite map_map. rewrite (map_ext _ ba_addr) by exact Hf. exact Hnd.
    + intros r Hr'. apply in_map_iff in Hr'. destruct Hr' as [r0 [<- Hr0]]. unfold f.
      destruct (N.eqb (ba_addr r0) x); [|apply Hh; assumption].
      apply (hist_ok_next r0 date (meta_del (ba_meta r0) k)). apply Hh. assumption.
  - unfold rel_acc in *. rewrite (B_find_map f accs a Hf).
    destruct (B_find accs a) as [r|] eqn:EFa; cbn [option_map] in *.
    + destruct (B_find_spec _ _ _ EFa) as [_ Hra]. unfold f. rewrite Hra, (N.eqb_sym a x).
      destruct (N.eqb x a); [|exact Hr]. cbn [ba_meta]. destruct st as [s|]; [|contradiction]. cbn. apply del_equiv. exact Hr.
    + destruct (N.eqb x a); [|exact Hr]. destruct st; [contradiction|exact I].
Qed.


Lemma B_posting_rel : forall ins am accs p a st,
  accs_ok accs -> rel_acc a accs st ->
  accs_ok (B_posting ins am accs p) /\
  rel_acc a (B_posting ins am accs p)
          (touch a (match am_get am a with Some m => m | None => [] end) st [p_src p; p_dst p]).
Proof.
  intros ins am accs p a st Ho Hr. unfold B_posting, touch. cbn [fold_left].
  remember (am_get am (p_src p)) as ms eqn:Ems. remember (am_get am (p_dst p)) as md eqn:Emd.
  destruct (B_upsert_rel accs (p_src p) ms ins a st Ho Hr) as [O1 R1].
  destruct (B_upsert_rel _ (p_dst p) md ins a _ O1 R1) as [O2 R2].
  split; [exact O2|].
  destruct (N.eqb_spec (p_src p) a) as [E1|E1]; destruct (N.eqb_spec (p_dst p) a) as [E2|E2];
    try rewrite E1 in Ems; try rewrite E2 in Emd; subst; exact R2.
Qed.

Lemma B_postings_rel : forall ps ins am accs a st,
  accs_ok accs -> rel_acc a accs st ->
  accs_ok (fold_left (B_posting ins am) ps accs) /\
  rel_acc a (fold_left (B_posting ins am) ps accs)
          (touch a (match am_get am a with Some m => m | None => [] end) st (posting_accounts ps)).
Proof.
  induction ps as [|p ps IH]; intros ins am accs a st Ho Hr; cbn [fold_left]; [split; assumption|].
  destruct (B_posting_rel ins am accs p a st Ho Hr) as [O1 R1].
  destruct (IH ins am _ a _ O1 R1) as [O2 R2]. split; [exact O2|].
  unfold posting_accounts. cbn [flat_map]. unfold touch in *. rewrite fold_left_app. exact R2.
Qed.

Lemma B_am_rel : forall (am : list (N * meta)) date accs a st,
  accs_ok accs -> rel_acc a accs st ->
  accs_ok (fold_left (fun accs kv => B_upsert accs (fst kv) (Some (snd kv)) date) am accs) /\
  rel_acc a (fold_left (fun accs kv => B_upsert accs (fst kv) (Some (snd kv)) date) am accs)
          (fold_left (fun st kv => if N.eqb (fst kv) a then apply_set (snd kv) st else st) am st).
Proof.
  induction am as [|kv am IH]; intros date accs a st Ho Hr; cbn [fold_left]; [split; assumption|].
  destruct (B_upsert_rel accs (fst kv) (Some (snd kv)) date a st Ho Hr) as [O1 R1].
  apply (IH date _ a _ O1 R1).
Qed.

Lemma B_step_rel : forall accs e a st,
  accs_ok accs -> rel_acc a accs st -> accs_ok (B_step accs e) /\ rel_acc a (B_step accs e) (acc_meta_step a st e).
Proof.
  intros accs e a st Ho Hr. unfold B_step, acc_meta_step.
  destruct (l_data e) as [tx am|tx rid|[x|id] m|[x|id] k]; try (split; assumption).
  - destruct (B_postings_rel (t_postings tx) (l_date e) am accs a st Ho Hr) as [O1 R1].
    apply (B_am_rel am (t_ts tx) _ a _ O1 R1).
  - apply (B_postings_rel (t_postings tx) (l_date e) [] accs a st Ho Hr).
  - apply (B_upsert_rel accs x (Some m) (l_date e) a st Ho Hr).
  - apply (B_delete_rel accs x k (l_date e) a st Ho Hr).
Qed.

Lemma B_run_rel_from : forall Ls accs a st,
  accs_ok accs -> rel_acc a accs st ->
  accs_ok (fold_left B_step Ls accs) /\ rel_acc a (fold_left B_step Ls accs) (fold_left (acc_meta_step a) Ls st).
Proof.
  induction Ls as [|e Ls IH]; intros accs a st Ho Hr; cbn [fold_left]; [split; assumption|].
  destruct (B_step_rel accs e a st Ho Hr) as [O1 R1]. apply (IH _ a _ O1 R1).
Qed.

Theorem B_get_account_replay : forall Ls a,
  ometa_equiv (B_get_account (B_run Ls) a) (replay_account_meta Ls a None).
Proof.
  intros Ls a. unfold replay_account_meta, B_run.
  rewrite (filter_ext (fun e => before_ok None (l_date e)) (fun _ => true)) by reflexivity.
  assert (filter (fun _ : log => true) Ls = Ls) as -> by (induction Ls; cbn; congruence).
  destruct (B_run_rel_from Ls [] a None) as [[_ Hh] R].
  - split; [constructor|intros r []].
  - exact I.
  - unfold rel_acc in R. unfold B_get_account.
    destruct (B_find (fold_left B_step Ls []) a) as [r|] eqn:EF; cbn [option_map] in R; [|exact R].
    destruct (B_find_spec _ _ _ EF) as [Hin _]. destruct (hist_ok_pick r (Hh r Hin)) as [h0 [P [M _]]].
    rewrite P, M. exact R.
Qed.

(* ---- Part E: transactions (current) -------------------------------------------------------------------------------------------- *)
Definition thist_ok (r : btx) : Prop :=
  exists h, pick_best crev_desc (bx_hist r) = Some h /\ snd h = bx_meta r /\
            forall h', In h' (bx_hist r) -> fst (fst h') <= fst (fst h).

Lemma thist_ok_next : forall r ra ua mm,
  thist_ok r ->
  thist_ok {| bx_id := bx_id r; bx_ts := bx_ts r; bx_ref := bx_ref r; bx_reverted_at := ra; bx_updated_at := ua;
              bx_postings := bx_postings r; bx_meta := mm;
              bx_hist := (C_next_rev (bx_hist r), match ua with Some u => u | None => 0 end, mm) :: bx_hist r |}.
Proof.
  intros r ra ua mm [h [P [M Hmax]]]. unfold C_next_rev. rewrite P. cbn [bx_hist bx_meta].
  exists (fst (fst h) + 1, match ua with Some u => u | None => 0 end, mm). split; [|split; [reflexivity|]].
  - apply pick_best_head. intros y Hy. unfold crev_desc. cbn [fst]. apply Z.ltb_lt. specialize (Hmax y Hy). lia.
  - intros h' [<-|Hh']; cbn [fst]; [lia|]. specialize (Hmax h' Hh'). lia.
Qed.

(* the store's oldest row with id [id] against the oracle's state for [id] *)
Definition rel_tx (id : Z) (txs : list btx) (st : option rtx) : Prop :=
  match C_find txs id, st with
  | None, None => True
  | Some r, Some s =>
      bx_id r = rt_id s /\ bx_ts r = rt_instant s /\ bx_ref r = rt_ref s /\ bx_postings r = rt_postings s /\
      meta_equiv (bx_meta r) (rt_meta s) /\
      (match bx_reverted_at r with Some _ => true | None => false end) = rt_reverted s /\ thist_ok r
  | _, _ => False
  end.

Lemma C_find_insert : forall txs tx id,
  C_find (C_insert txs tx) id =
  match C_find txs id with
  | Some r => Some r
  | None => if Z.eqb (t_id tx) id then Some (hd {| bx_id := 0; bx_ts := 0; bx_ref := None; bx_reverted_at := None;
                                                  bx_updated_at := None; bx_postings := []; bx_meta := []; bx_hist := [] |}
                                                (C_insert txs tx)) else None
  end.
Proof.
  intros. unfold C_find, C_insert. cbn [filter bx_id hd].
  destruct (Z.eqb (t_id tx) id); [|destruct (rev (filter _ txs)); reflexivity].
  cbn [rev]. destruct (rev (filter (fun r => Z.eqb (bx_id r) id) txs)); reflexivity.
Qed.

Lemma C_find_map : forall (f : btx -> btx) txs id, (forall r, bx_id (f r) = bx_id r) ->
  C_find (map f txs) id = option_map f (C_find txs id).
Proof.
  intros f txs id H. unfold C_find. rewrite filter_map_comm, <- map_rev.
  rewrite (filter_ext (fun x => Z.eqb (bx_id (f x)) id) (fun r => Z.eqb (bx_id r) id)) by (intros; rewrite H; reflexivity).
  destruct (rev (filter _ txs)); reflexivity.
Qed.

Lemma C_find_id : forall txs id r, C_find txs id = Some r -> bx_id r = id.
Proof.
  unfold C_find. intros txs id r H. destruct (rev (filter _ txs)) as [|x t] eqn:E; [discriminate|].
  inversion H; subst x. apply in_rev_hd in E. apply filter_In in E. destruct E as [_ E]. apply Z.eqb_eq in E. exact E.
Qed.

Lemma C_update_find : forall txs id' g id,
  C_find (C_update txs id' g) id =
  option_map (fun r => if Z.eqb (bx_id r) id' then
                         let '(ra, ua, mm) := g r in
                         {| bx_id := bx_id r; bx_ts := bx_ts r; bx_ref := bx_ref r; bx_reverted_at := ra; bx_updated_at := ua;
                            bx_postings := bx_postings r; bx_meta := mm;
                            bx_hist := (C_next_rev (bx_hist r), match ua with Some u => u | None => 0 end, mm) :: bx_hist r |}
                       else r) (C_find txs id).
Proof.
  intros. unfold C_update. apply C_find_map. intros r. destruct (Z.eqb (bx_id r) id'); [|reflexivity].
  destruct (g r) as [[ra ua] mm]. reflexivity.
Qed.

Lemma C_insert_rel : forall txs tx id st,
  t_off tx = 0 -> rel_tx id txs st ->
  rel_tx id (C_insert txs tx)
         (match st with None => if Z.eqb (t_id tx) id then Some (rtx_new tx) else None | _ => st end).
Proof.
  intros txs tx id st Hu Hr. unfold rel_tx in *. rewrite C_find_insert.
  destruct (C_find txs id) as [r|]; destruct st as [s|]; try contradiction; [exact Hr|].
  destruct (Z.eqb (t_id tx) id); [|exact I].
  unfold C_insert. cbn [hd bx_id bx_ts bx_ref bx_postings bx_meta bx_reverted_at rtx_new rt_id rt_instant rt_ref rt_postings rt_meta rt_reverted].
  unfold tx_instant. rewrite Hu, Z.sub_0_r.
  repeat split; try reflexivity. exists (1, t_ts tx, t_meta tx). cbn [bx_hist bx_meta].
  split; [reflexivity|]. split; [reflexivity|]. intros h' [<-|[<-|[]]]; cbn; lia.
Qed.

Lemma C_update_rel : forall txs id' g id st (fs : rtx -> rtx),
  rel_tx id txs st ->
  (forall r s, bx_id r = id' -> id' = id ->
     let '(ra, ua, mm) := g r in
     meta_equiv (bx_meta r) (rt_meta s) ->
     (match bx_reverted_at r with Some _ => true | None => false end) = rt_reverted s ->
     rt_id (fs s) = rt_id s /\ rt_instant (fs s) = rt_instant s /\ rt_ref (fs s) = rt_ref s /\ rt_postings (fs s) = rt_postings s /\
     meta_equiv mm (rt_meta (fs s)) /\ (match ra with Some _ => true | None => false end) = rt_reverted (fs s)) ->
  rel_tx id (C_update txs id' g) (if Z.eqb id' id then option_map fs st else st).
Proof.
  intros txs id' g id st fs Hr Hg. unfold rel_tx in *. rewrite C_update_find.
  destruct (C_find txs id) as [r|] eqn:EF; destruct st as [s|]; try contradiction.
  2:{ destruct (Z.eqb id' id); exact I. }
  cbn [option_map]. pose proof (C_find_id _ _ _ EF) as Hid. rewrite Hid, (Z.eqb_sym id id').
  destruct (Z.eqb_spec id' id) as [E|E]; [|exact Hr]. cbn [option_map].
  destruct Hr as [R1 [R2 [R3 [R4 [R5 [R6 R7]]]]]].
  specialize (Hg r s (eq_trans Hid (eq_sym E)) E). destruct (g r) as [[ra ua] mm].
  destruct (Hg R5 R6) as [G1 [G2 [G3 [G4 [G5 G6]]]]].
  cbn [bx_id bx_ts bx_ref bx_postings bx_meta bx_reverted_at].
  repeat split; try congruence; try assumption.
  pose proof (thist_ok_next r ra ua mm R7) as T. rewrite Hid in T. exact T.
Qed.

Lemma C_step_rel : forall txs e id st,
  match log_tx e with Some tx => t_off tx = 0 | None => True end ->
  rel_tx id txs st -> rel_tx id (C_step txs e) (tx_step id None st e).
Proof.
  intros txs e id st Hu Hr. unfold C_step, tx_step, log_tx in *.
  destruct (l_data e) as [tx am|tx rid|[x|id'] m|[x|id'] k]; try exact Hr.
  - apply C_insert_rel; assumption.
  - rewrite andb_true_r.
    apply (C_update_rel _ rid _ id _ rtx_revert (C_insert_rel txs tx id st Hu Hr)).
    intros r s _ _. cbn. intros M F. repeat split; auto.
  - rewrite andb_true_r.
    apply (C_update_rel _ id' _ id _ (rtx_meta (fun x => meta_merge x m)) Hr).
    intros r s _ _. cbn. intros M F. repeat split; auto. apply merge_equiv. exact M.
  - rewrite andb_true_r.
    apply (C_update_rel _ id' _ id _ (rtx_meta (fun x => meta_del x k)) Hr).
    intros r s _ _. cbn. intros M F. repeat split; auto. apply del_equiv. exact M.
Qed.

Lemma C_run_rel_from : forall Ls txs id st,
  all_utc Ls = true -> rel_tx id txs st -> rel_tx id (fold_left C_step Ls txs) (fold_left (tx_step id None) Ls st).
Proof.
  induction Ls as [|e Ls IH]; intros txs id st Hu Hr; cbn [fold_left]; [exact Hr|].
  cbn [all_utc forallb] in Hu. apply andb_prop in Hu. destruct Hu as [H1 H2].
  apply IH; [exact H2|]. apply C_step_rel; [|exact Hr]. destruct (log_tx e); [apply Z.eqb_eq; exact H1|exact I].
Qed.

Definition tx_view_equiv (v : option tx_view) (s : option rtx) : Prop :=
  match v, s with
  | None, None => True
  | Some v, Some s =>
      v_id v = rt_id s /\ v_ts v = rt_instant s /\ v_ref v = rt_ref s /\ v_postings v = rt_postings s /\
      (exists m, v_meta v = Some m /\ meta_equiv m (rt_meta s)) /\ v_reverted v = rt_reverted s
  | _, _ => False
  end.

Theorem C_get_transaction_replay : forall Ls id,
  all_utc Ls = true -> tx_view_equiv (C_get_transaction (C_run Ls) id) (replay_tx Ls id None).
Proof.
  intros Ls id Hu. pose proof (C_run_rel_from Ls [] id None Hu I) as R.
  unfold rel_tx, C_run, replay_tx, C_get_transaction in *.
  destruct (C_find (fold_left C_step Ls []) id) as [r|]; destruct (fold_left (tx_step id None) Ls None) as [s|];
    try contradiction; [|exact I].
  cbn [before_ok]. destruct R as [R1 [R2 [R3 [R4 [R5 [R6 [h [P [M _]]]]]]]]].
  cbn [tx_view_equiv v_id v_ts v_ref v_postings v_meta v_reverted]. rewrite P.
  repeat split; try assumption. exists (snd h). split; [reflexivity|]. rewrite M. exact R5.
Qed.

(* ---- Part F: account metadata as of a date ------------------------------------------------------------------------------------ *)
Definition opit_equiv (x : option (option meta)) (y : option meta) : Prop :=
  match x, y with
  | None, None => True
  | Some (Some m), Some m' => meta_equiv m m'
  | _, _ => False
  end.

Local Notation hist_before pit := (fun h : option Z * Z * meta => Z.ltb (snd (fst h)) pit).

Lemma B_get_account_pit_map : forall (f : bacc -> bacc) accs a pit,
  (forall r, In r accs -> ba_addr (f r) = ba_addr r /\ ba_ins (f r) = ba_ins r /\
     option_map snd (pick_best brev_desc (filter (hist_before pit) (ba_hist (f r)))) =
     option_map snd (pick_best brev_desc (filter (hist_before pit) (ba_hist r)))) ->
  B_get_account_pit (map f accs) a pit = B_get_account_pit accs a pit.
Proof.
  intros f accs a pit H. unfold B_get_account_pit. rewrite filter_map_comm, <- map_rev.
  rewrite (filter_ext_in' (fun x => N.eqb (ba_addr (f x)) a && Z.leb (ba_ins (f x)) pit) (fun r => N.eqb (ba_addr r) a && Z.leb (ba_ins r) pit)).
  2:{ intros r Hr. destruct (H r Hr) as [-> [-> _]]. reflexivity. }
  destruct (rev (filter _ accs)) as [|r t] eqn:E; [reflexivity|]. cbn [map].
  assert (In r accs) as Hr. { apply in_rev_hd in E. apply filter_In in E. tauto. }
  destruct (H r Hr) as [_ [_ P]].
  destruct (pick_best brev_desc (filter (hist_before pit) (ba_hist (f r)))) as [h|];
    destruct (pick_best brev_desc (filter (hist_before pit) (ba_hist r))) as [h'|]; cbn in P; inversion P; reflexivity.
Qed.

Lemma B_upsert_after : forall accs x m date a pit, accs_ok accs -> pit < date ->
  B_get_account_pit (B_upsert accs x m date) a pit = B_get_account_pit accs a pit.
Proof.
  intros accs x m date a pit [Hnd Hh] Hd. unfold B_upsert. set (m' := match m with Some y => y | None => [] end).
  destruct (B_find accs x) as [old|] eqn:EF.
  - destruct (B_find_spec _ _ _ EF) as [Hin Ha].
    destruct (negb (meta_contains (ba_meta old) m')); [|reflexivity].
    apply B_get_account_pit_map. intros r Hr.
    destruct (N.eqb_spec (ba_addr r) x) as [E|E]; [|auto].
    assert (r = old) as -> by (apply (NoDup_map_inj ba_addr accs); auto; congruence).
    cbn [ba_addr ba_ins ba_hist filter fst snd].
    assert (Z.ltb date pit = false) as -> by (apply Z.ltb_ge; lia). auto.
  - unfold B_get_account_pit. cbn [filter ba_ins ba_addr].
    assert (Z.leb date pit = false) as -> by (apply Z.leb_gt; lia). rewrite andb_false_r. reflexivity.
Qed.

Lemma B_delete_after : forall accs x k date a pit, pit < date ->
  B_get_account_pit (B_delete accs x k date) a pit = B_get_account_pit accs a pit.
Proof.
  intros accs x k date a pit Hd. unfold B_delete. apply B_get_account_pit_map. intros r Hr.
  destruct (N.eqb (ba_addr r) x); [|auto]. cbn [ba_addr ba_ins ba_hist filter fst snd].
  assert (Z.ltb date pit = false) as -> by (apply Z.ltb_ge; lia). auto.
Qed.

Lemma accs_ok_step : forall accs e, accs_ok accs -> accs_ok (B_step accs e).
Proof.
  intros accs e H.
  (* rel_acc is needed by B_step_rel only as a carrier: use the state the relation holds for *)
  assert (exists st, rel_acc 0%N accs st) as [st R].
  { unfold rel_acc. destruct (B_find accs 0%N) as [r|]; [exists (Some (ba_meta r)); cbn; apply meta_equiv_refl|exists None; exact I]. }
  apply (B_step_rel accs e 0%N st H R).
Qed.

Lemma B_upserts_after : forall (am : list (N * meta)) accs date a pit, accs_ok accs -> pit < date ->
  accs_ok (fold_left (fun accs kv => B_upsert accs (fst kv) (Some (snd kv)) date) am accs) /\
  B_get_account_pit (fold_left (fun accs kv => B_upsert accs (fst kv) (Some (snd kv)) date) am accs) a pit =
  B_get_account_pit accs a pit.
Proof.
  induction am as [|kv am IH]; intros accs date a pit Ho Hd; cbn [fold_left]; [auto|].
  assert (O1 : accs_ok (B_upsert accs (fst kv) (Some (snd kv)) date)).
  { assert (exists st, rel_acc 0%N accs st) as [st R].
    { unfold rel_acc. destruct (B_find accs 0%N) as [r|]; [exists (Some (ba_meta r)); cbn; apply meta_equiv_refl|exists None; exact I]. }
    apply (B_upsert_rel accs (fst kv) (Some (snd kv)) date 0%N st Ho R). }
  destruct (IH _ date a pit O1 Hd) as [O2 E2]. split; [exact O2|]. rewrite E2. apply B_upsert_after; assumption.
Qed.

Lemma B_postings_after : forall ps ins am accs a pit, accs_ok accs -> pit < ins ->
  accs_ok (fold_left (B_posting ins am) ps accs) /\
  B_get_account_pit (fold_left (B_posting ins am) ps accs) a pit = B_get_account_pit accs a pit.
Proof.
  induction ps as [|p ps IH]; intros ins am accs a pit Ho Hd; cbn [fold_left]; [auto|].
  assert (exists st, rel_acc 0%N accs st) as [st R].
  { unfold rel_acc. destruct (B_find accs 0%N) as [r|]; [exists (Some (ba_meta r)); cbn; apply meta_equiv_refl|exists None; exact I]. }
  destruct (B_posting_rel ins am accs p 0%N st Ho R) as [O1 _].
  destruct (IH ins am _ a pit O1 Hd) as [O2 E2]. split; [exact O2|]. rewrite E2. unfold B_posting.
  assert (O0 : accs_ok (B_upsert accs (p_src p) (am_get am (p_src p)) ins)) by (apply (B_upsert_rel accs _ _ ins 0%N st Ho R)).
  rewrite B_upsert_after by assumption. apply B_upsert_after; assumption.
Qed.

Definition entry_dates_ok (e : log) : bool :=
  match l_data e with PNew tx am => match am with [] => true | _ => Z.eqb (t_ts tx) (l_date e) end | _ => true end.

Lemma B_step_after : forall accs e a pit, accs_ok accs -> pit < l_date e -> entry_dates_ok e = true ->
  B_get_account_pit (B_step accs e) a pit = B_get_account_pit accs a pit.
Proof.
  intros accs e a pit Ho Hd He. unfold B_step, entry_dates_ok in *.
  destruct (l_data e) as [tx am|tx rid|[x|id] m|[x|id] k]; try reflexivity.
  - destruct (B_postings_after (t_postings tx) (l_date e) am accs a pit Ho Hd) as [O1 E1].
    destruct am as [|kv am']; [exact E1|]. apply Z.eqb_eq in He.
    destruct (B_upserts_after (kv :: am') _ (t_ts tx) a pit O1 ltac:(lia)) as [_ E2]. rewrite E2. exact E1.
  - apply (B_postings_after (t_postings tx) (l_date e) [] accs a pit Ho Hd).
  - apply B_upsert_after; assumption.
  - apply B_delete_after; assumption.
Qed.

(* before the date: everything the machine holds is dated before it *)
Definition dated_before (pit : Z) (accs : list bacc) : Prop :=
  forall r, In r accs -> ba_ins r < pit /\ forall h, In h (ba_hist r) -> snd (fst h) < pit.

Lemma dated_before_upsert : forall pit accs x m date, accs_ok accs -> date < pit -> dated_before pit accs ->
  dated_before pit (B_upsert accs x m date).
Proof.
  intros pit accs x m date [Hnd Hh] Hd H. unfold B_upsert. set (m' := match m with Some y => y | None => [] end).
  destruct (B_find accs x) as [old|] eqn:EF.
  - destruct (B_find_spec _ _ _ EF) as [Hin Ha].
    destruct (negb (meta_contains (ba_meta old) m')); [|exact H].
    intros r Hr. apply in_map_iff in Hr. destruct Hr as [r0 [<- Hr0]].
    destruct (N.eqb (ba_addr r0) x); [|apply H; assumption]. cbn [ba_ins ba_hist].
    split; [apply (H old Hin)|]. intros h [<-|Hh0]; [cbn; exact Hd|apply (H r0 Hr0); assumption].
  - intros r [<-|Hr]; [|apply H; assumption]. cbn. split; [exact Hd|]. intros h [<-|[]]. cbn. exact Hd.
Qed.

Lemma dated_before_delete : forall pit accs x k date, date < pit -> dated_before pit accs -> dated_before pit (B_delete accs x k date).
Proof.
  intros pit accs x k date Hd H r Hr. unfold B_delete in Hr. apply in_map_iff in Hr. destruct Hr as [r0 [<- Hr0]].
  destruct (N.eqb (ba_addr r0) x); [|apply H; assumption]. cbn [ba_ins ba_hist].
  split; [apply (H r0 Hr0)|]. intros h [<-|Hh0]; [cbn; exact Hd|apply (H r0 Hr0); assumption].
Qed.

Lemma dated_before_step : forall pit accs e, accs_ok accs -> l_date e < pit -> entry_dates_ok e = true ->
  dated_before pit accs -> dated_before pit (B_step accs e).
Proof.
  intros pit accs e Ho Hd He H. unfold B_step, entry_dates_ok in *.
  assert (Hps : forall ps am accs0, accs_ok accs0 -> dated_before pit accs0 ->
            accs_ok (fold_left (B_posting (l_date e) am) ps accs0) /\ dated_before pit (fold_left (B_posting (l_date e) am) ps accs0)).
  { induction ps as [|p ps IH]; intros am accs0 O D; cbn [fold_left]; [auto|].
    assert (exists st, rel_acc 0%N accs0 st) as [st R].
    { unfold rel_acc. destruct (B_find accs0 0%N) as [r|]; [exists (Some (ba_meta r)); cbn; apply meta_equiv_refl|exists None; exact I]. }
    destruct (B_posting_rel (l_date e) am accs0 p 0%N st O R) as [O1 _].
    apply IH; [exact O1|]. unfold B_posting.
    assert (O0 : accs_ok (B_upsert accs0 (p_src p) (am_get am (p_src p)) (l_date e))) by (apply (B_upsert_rel accs0 _ _ _ 0%N st O R)).
    apply dated_before_upsert; [exact O0|exact Hd|]. apply dated_before_upsert; assumption. }
  destruct (l_data e) as [tx am|tx rid|[x|id] m|[x|id] k]; try exact H.
  - destruct (Hps (t_postings tx) am accs Ho H) as [O1 D1].
    destruct am as [|kv am']; [exact D1|]. apply Z.eqb_eq in He. rewrite He.
    generalize dependent (fold_left (B_posting (l_date e) (kv :: am')) (t_postings tx) accs). clear -Hd.
    induction (kv :: am') as [|kv0 am0 IH]; intros accs0 O D; cbn [fold_left]; [exact D|].
    apply IH.
    + assert (exists st, rel_acc 0%N accs0 st) as [st R].
      { unfold rel_acc. destruct (B_find accs0 0%N) as [r|]; [exists (Some (ba_meta r)); cbn; apply meta_equiv_refl|exists None; exact I]. }
      apply (B_upsert_rel accs0 _ _ _ 0%N st O R).
    + apply dated_before_upsert; assumption.
  - apply (Hps (t_postings tx) [] accs Ho H).
  - apply dated_before_upsert; assumption.
  - apply dated_before_delete; assumption.
Qed.

Lemma B_pit_of_current : forall accs a pit, accs_ok accs -> dated_before pit accs ->
  B_get_account_pit accs a pit = option_map Some (B_get_account accs a).
Proof.
  intros accs a pit [Hnd Hh] D. unfold B_get_account_pit, B_get_account, B_find.
  rewrite (filter_ext_in' (fun r => N.eqb (ba_addr r) a && Z.leb (ba_ins r) pit) (fun r => N.eqb (ba_addr r) a)).
  2:{ intros r Hr. destruct (D r Hr) as [I _]. assert (Z.leb (ba_ins r) pit = true) as -> by (apply Z.leb_le; lia). apply andb_true_r. }
  destruct (rev (filter (fun r => N.eqb (ba_addr r) a) accs)) as [|r t] eqn:E; [reflexivity|].
  assert (In r accs) as Hr. { apply in_rev_hd in E. apply filter_In in E. tauto. }
  assert (filter (hist_before pit) (ba_hist r) = ba_hist r) as ->.
  { destruct (D r Hr) as [_ Dh]. induction (ba_hist r) as [|h t' IHt]; [reflexivity|]. cbn [filter].
    assert (Z.ltb (snd (fst h)) pit = true) as -> by (apply Z.ltb_lt; apply Dh; left; reflexivity).
    f_equal. apply IHt. intros h' Hh'. apply Dh. right. assumption. }
  destruct (hist_ok_pick r (Hh r Hr)) as [h0 [P _]]. rewrite P. reflexivity.
Qed.

(* with log dates that never go back, the entries dated up to pit are a prefix *)
Lemma mono_lower : forall Ls t, dates_monotone_from t Ls = true -> forall e, In e Ls -> t <= l_date e.
Proof.
  induction Ls as [|x r IH]; intros t H e He; [contradiction|]. cbn in H. apply andb_prop in H. destruct H as [H1 H2].
  apply Z.leb_le in H1. destruct He as [<-|He]; [exact H1|]. specialize (IH _ H2 e He). lia.
Qed.

Lemma mono_split : forall Ls t pit, dates_monotone_from t Ls = true ->
  Ls = filter (fun e => Z.leb (l_date e) pit) Ls ++ filter (fun e => negb (Z.leb (l_date e) pit)) Ls.
Proof.
  induction Ls as [|x r IH]; intros t pit H; [reflexivity|]. cbn in H. apply andb_prop in H. destruct H as [H1 H2].
  cbn [filter]. destruct (Z.leb_spec (l_date x) pit) as [L|L]; cbn [negb].
  - cbn [app]. f_equal. apply (IH _ pit H2).
  - assert (filter (fun e => Z.leb (l_date e) pit) r = []) as ->.
    { apply filter_none. intros e He. apply Z.leb_gt. pose proof (mono_lower r _ H2 e He). lia. }
    cbn [app]. f_equal.
    assert (filter (fun e => negb (Z.leb (l_date e) pit)) r = r) as ->; [|reflexivity].
    assert (Hall : forall e, In e r -> negb (Z.leb (l_date e) pit) = true).
    { intros e He. pose proof (mono_lower r _ H2 e He). apply negb_true_iff. apply Z.leb_gt. lia. }
    clear -Hall. induction r as [|y r IHr]; [reflexivity|]. cbn [filter]. rewrite (Hall y (or_introl eq_refl)). f_equal.
    apply IHr. intros e He. apply Hall. right. assumption.
Qed.

Lemma B_fold_before : forall L accs pit, accs_ok accs -> dated_before pit accs ->
  (forall e, In e L -> l_date e < pit /\ entry_dates_ok e = true) ->
  accs_ok (fold_left B_step L accs) /\ dated_before pit (fold_left B_step L accs).
Proof.
  induction L as [|e L IH]; intros accs pit Ho Hd H; cbn [fold_left]; [auto|].
  destruct (H e (or_introl eq_refl)) as [H1 H2].
  apply IH; [apply accs_ok_step; assumption|apply dated_before_step; assumption|].
  intros e' He'. apply H. right. assumption.
Qed.

Lemma B_fold_after : forall L accs a pit, accs_ok accs ->
  (forall e, In e L -> pit < l_date e /\ entry_dates_ok e = true) ->
  B_get_account_pit (fold_left B_step L accs) a pit = B_get_account_pit accs a pit.
Proof.
  induction L as [|e L IH]; intros accs a pit Ho H; cbn [fold_left]; [reflexivity|].
  destruct (H e (or_introl eq_refl)) as [H1 H2].
  rewrite IH; [apply B_step_after; assumption|apply accs_ok_step; assumption|].
  intros e' He'. apply H. right. assumption.
Qed.

Theorem B_get_account_pit_replay : forall Ls a pit,
  dates_monotone Ls = true -> script_meta_same_date Ls = true -> pit_not_a_log_date Ls pit = true ->
  opit_equiv (B_get_account_pit (B_run Ls) a pit) (replay_account_meta Ls a (Some pit)).
Proof.
  intros Ls a pit Hm Hs Hp.
  set (L1 := filter (fun e => Z.leb (l_date e) pit) Ls).
  set (L2 := filter (fun e => negb (Z.leb (l_date e) pit)) Ls).
  assert (Esplit : Ls = L1 ++ L2).
  { destruct Ls as [|e0 r]; [reflexivity|]. apply (mono_split (e0 :: r) (l_date e0)). cbn. rewrite Z.leb_refl. exact Hm. }
  assert (Hok : forall e, In e Ls -> entry_dates_ok e = true /\ l_date e <> pit).
  { intros e He. unfold script_meta_same_date, pit_not_a_log_date in *. rewrite forallb_forall in Hs, Hp.
    split; [exact (Hs e He)|]. specialize (Hp e He). apply negb_true_iff in Hp. apply Z.eqb_neq. exact Hp. }
  assert (H1 : forall e, In e L1 -> l_date e < pit /\ entry_dates_ok e = true).
  { intros e He. apply filter_In in He. destruct He as [He Le]. apply Z.leb_le in Le. destruct (Hok e He). split; [lia|assumption]. }
  assert (H2 : forall e, In e L2 -> pit < l_date e /\ entry_dates_ok e = true).
  { intros e He. apply filter_In in He. destruct He as [He Le]. apply negb_true_iff in Le. apply Z.leb_gt in Le.
    destruct (Hok e He). split; [lia|assumption]. }
  assert (Ok0 : accs_ok ([] : list bacc)) by (split; [constructor|intros r []]).
  destruct (B_fold_before L1 [] pit Ok0 ltac:(intros r []) H1) as [O1 D1].
  unfold B_run. rewrite Esplit at 1. rewrite fold_left_app, (B_fold_after L2 _ a pit O1 H2), (B_pit_of_current _ a pit O1 D1).
  pose proof (B_get_account_replay L1 a) as R. unfold B_run in R.
  assert (replay_account_meta Ls a (Some pit) = replay_account_meta L1 a None) as ->.
  { unfold replay_account_meta. cbn [before_ok]. fold L1. f_equal.
    clear. induction L1 as [|x l IHl]; [reflexivity|]. cbn [filter]. f_equal. exact IHl. }
  destruct (B_get_account (fold_left B_step L1 []) a) as [m|]; destruct (replay_account_meta L1 a None) as [m'|]; cbn in R |- *; auto.
Qed.

(* ---- Part G: a transaction as of a date ------------------------------------------------------------------------------------------ *)
Local Notation rev_before pit := (fun h : Z * Z * meta => Z.leb (snd (fst h)) pit).

Definition is_revert_of (id : Z) (e : log) : bool :=
  match l_data e with PRevert _ rid => Z.eqb rid id | _ => false end.

(* the oldest row with id [id] against the oracle's state as of [pit]; [lo]: a lower bound of the dates still to come;
   [left]: the entries still to come *)
Definition relp_tx (pit : Z) (id : Z) (lo : Z) (left : list log) (txs : list btx) (st : option rtx) : Prop :=
  match C_find txs id, st with
  | None, None => True
  | Some r, Some s =>
      bx_id r = rt_id s /\ bx_ts r = rt_instant s /\ bx_ref r = rt_ref s /\ bx_postings r = rt_postings s /\
      (exists u, bx_updated_at r = Some u /\ (u = bx_ts r \/ u <= lo) /\
                 (bx_ts r <= pit -> u <= pit -> meta_equiv (bx_meta r) (rt_meta s))) /\
      (exists top, pick_best crev_desc (bx_hist r) = Some top /\ forall h, In h (bx_hist r) -> fst (fst h) <= fst (fst top)) /\
      (bx_ts r <= pit -> exists h, pick_best crev_desc (filter (rev_before pit) (bx_hist r)) = Some h /\ meta_equiv (snd h) (rt_meta s)) /\
      (match bx_reverted_at r with
       | Some ra => rt_reverted s = Z.leb ra pit /\ filter (is_revert_of id) left = []
       | None => rt_reverted s = false
       end)
  | _, _ => False
  end.

Lemma relp_weaken : forall pit id lo lo' left left' txs st,
  lo <= lo' -> (filter (is_revert_of id) left = [] -> filter (is_revert_of id) left' = []) ->
  relp_tx pit id lo left txs st -> relp_tx pit id lo' left' txs st.
Proof.
  intros pit id lo lo' left left' txs st Hlo Hl H. unfold relp_tx in *.
  destruct (C_find txs id) as [r|]; destruct st as [s|]; auto.
  destruct H as [H1 [H2 [H3 [H4 [[u [U1 [U2 U3]]] [H6 [H7 H8]]]]]]].
  repeat split; auto.
  - exists u. split; [exact U1|]. split; [|exact U3]. destruct U2; [left; assumption|right; lia].
  - destruct (bx_reverted_at r); [|exact H8]. destruct H8. split; auto.
Qed.

Lemma C_insert_relp : forall pit id lo left txs tx st,
  t_off tx = 0 -> relp_tx pit id lo left txs st ->
  relp_tx pit id lo left (C_insert txs tx)
          (match st with None => if Z.eqb (t_id tx) id then Some (rtx_new tx) else None | _ => st end).
Proof.
  intros pit id lo left txs tx st Hu Hr. unfold relp_tx in *. rewrite C_find_insert.
  destruct (C_find txs id) as [r|]; destruct st as [s|]; try contradiction; [exact Hr|].
  destruct (Z.eqb (t_id tx) id); [|exact I].
  unfold C_insert. cbn [hd bx_id bx_ts bx_ref bx_postings bx_meta bx_reverted_at bx_updated_at bx_hist rtx_new rt_id rt_instant rt_ref
                        rt_postings rt_meta rt_reverted].
  unfold tx_instant. rewrite Hu, Z.sub_0_r.
  split; [reflexivity|]. split; [reflexivity|]. split; [reflexivity|]. split; [reflexivity|]. split; [|split; [|split; [|reflexivity]]].
  - exists (t_ts tx). split; [reflexivity|]. split; [left; reflexivity|]. intros _ _. apply meta_equiv_refl.
  - exists (1, t_ts tx, t_meta tx). split; [reflexivity|]. intros h [<-|[<-|[]]]; cbn; lia.
  - intros Hv. cbn [filter fst snd]. assert (Z.leb (t_ts tx) pit = true) as -> by (apply Z.leb_le; exact Hv).
    exists (1, t_ts tx, t_meta tx). split; [reflexivity|apply meta_equiv_refl].
Qed.

(* one UPDATE of the row: new reverted_at / updated_at / metadata and one more revision dated by the new updated_at *)
Lemma C_update_relp : forall pit id lo leftb left txs id' g st (fs : rtx -> rtx) lo',
  relp_tx pit id lo leftb txs st ->
  (forall r s u, bx_id r = id -> id' = id -> bx_updated_at r = Some u ->
     (u = bx_ts r \/ u <= lo) ->
     let '(ra, ua, mm) := g r in
     rt_id (fs s) = rt_id s /\ rt_instant (fs s) = rt_instant s /\ rt_ref (fs s) = rt_ref s /\ rt_postings (fs s) = rt_postings s /\
     (exists u', ua = Some u' /\ (u' = bx_ts r \/ u' <= lo') /\
        (* the new revision, when it is visible at pit, carries the oracle's metadata; otherwise the oracle's is unchanged *)
        (bx_ts r <= pit -> (u <= pit -> meta_equiv (bx_meta r) (rt_meta s)) ->
           (u' <= pit -> meta_equiv mm (rt_meta (fs s))) /\ (pit < u' -> meta_equiv (rt_meta (fs s)) (rt_meta s)))) /\
     (match bx_reverted_at r, ra with
      | None, None => rt_reverted s = false -> rt_reverted (fs s) = false
      | None, Some a => rt_reverted s = false -> filter (is_revert_of id) left = [] /\ rt_reverted (fs s) = Z.leb a pit
      | Some b, Some a => filter (is_revert_of id) leftb = [] ->
                          a = b /\ rt_reverted (fs s) = rt_reverted s /\ filter (is_revert_of id) left = []
      | Some _, None => False
      end)) ->
  lo <= lo' -> (filter (is_revert_of id) leftb = [] -> filter (is_revert_of id) left = []) ->
  relp_tx pit id lo' left (C_update txs id' g) (if Z.eqb id' id then option_map fs st else st).
Proof.
  intros pit id lo leftb left txs id' g st fs lo' Hr Hg Hlo Hleft. unfold relp_tx in *. rewrite C_update_find.
  destruct (C_find txs id) as [r|] eqn:EF; destruct st as [s|]; try contradiction.
  2:{ destruct (Z.eqb id' id); exact I. }
  cbn [option_map]. pose proof (C_find_id _ _ _ EF) as Hid. rewrite Hid, (Z.eqb_sym id id').
  destruct (Z.eqb_spec id' id) as [E|E].
  2:{ destruct Hr as [H1 [H2 [H3 [H4 [[u [U1 [U2 U3]]] [H6 [H7 H8]]]]]]]. repeat split; auto.
      - exists u. split; [exact U1|]. split; [|exact U3]. destruct U2; [left; assumption|right; lia].
      - destruct (bx_reverted_at r); [|exact H8]. destruct H8. split; auto. }
  cbn [option_map].
  destruct Hr as [R1 [R2 [R3 [R4 [[u [U1 [U2 U3]]] [[top [T1 T2]] [R7 R8]]]]]]].
  specialize (Hg r s u Hid E U1 U2). destruct (g r) as [[ra ua] mm].
  destruct Hg as [G1 [G2 [G3 [G4 [[u' [Eu [Ub Gm]]] Grev]]]]]. subst ua.
  cbn [bx_id bx_ts bx_ref bx_postings bx_meta bx_reverted_at bx_updated_at bx_hist].
  split; [congruence|]. split; [congruence|]. split; [congruence|]. split; [congruence|].
  assert (Hnext : C_next_rev (bx_hist r) = fst (fst top) + 1) by (unfold C_next_rev; rewrite T1; reflexivity).
  split; [|split; [|split]].
  - exists u'. split; [reflexivity|]. split; [exact Ub|]. intros Hv Hu'. destruct (Gm Hv (U3 Hv)) as [A _]. apply A. exact Hu'.
  - exists (C_next_rev (bx_hist r), u', mm). split.
    + apply pick_best_head. intros y Hy. unfold crev_desc. cbn [fst]. apply Z.ltb_lt. specialize (T2 y Hy). lia.
    + intros h [<-|Hh]; cbn [fst]; [lia|]. specialize (T2 h Hh). lia.
  - intros Hv. destruct (Gm Hv (U3 Hv)) as [A B]. cbn [filter fst snd].
    destruct (Z.leb_spec u' pit) as [L|L].
    + exists (C_next_rev (bx_hist r), u', mm). split; [|apply A; exact L].
      apply pick_best_head. intros y Hy. apply filter_In in Hy. destruct Hy as [Hy _].
      unfold crev_desc. cbn [fst]. apply Z.ltb_lt. specialize (T2 y Hy). lia.
    + destruct (R7 Hv) as [h [P M]]. exists h. split; [exact P|].
      apply (meta_equiv_trans _ (rt_meta s)); [exact M|apply meta_equiv_sym; apply B; exact L].
  - destruct (bx_reverted_at r) as [b|]; destruct ra as [a|]; try contradiction.
    + destruct R8 as [R8a R8b]. destruct (Grev R8b) as [-> [Gr Gl]]. split; [congruence|exact Gl].
    + destruct (Grev R8) as [Gl Gr]. split; assumption.
    + apply Grev. exact R8.
Qed.

Lemma C_step_relp : forall pit id lo left txs e st,
  match log_tx e with Some tx => t_off tx = 0 | None => True end ->
  lo <= l_date e -> (length (filter (is_revert_of id) (e :: left)) <= 1)%nat ->
  relp_tx pit id lo (e :: left) txs st ->
  relp_tx pit id (l_date e) left (C_step txs e) (tx_step id (Some pit) st e).
Proof.
  intros pit id lo left txs e st Hu Hlo Hcnt Hr.
  assert (Hsub : filter (is_revert_of id) (e :: left) = [] -> filter (is_revert_of id) left = []).
  { cbn [filter]. destruct (is_revert_of id e); [discriminate|auto]. }
  unfold C_step, tx_step, log_tx in *. cbn [before_ok].
  destruct (l_data e) as [tx am|tx rid|[x|id'] m|[x|id'] k] eqn:ED.
  - apply (relp_weaken pit id lo (l_date e) (e :: left) left); auto. apply C_insert_relp; assumption.
  - pose proof (C_insert_relp pit id lo (e :: left) txs tx st Hu Hr) as Hi.
    set (st1 := match st with None => if Z.eqb (t_id tx) id then Some (rtx_new tx) else None | _ => st end) in *.
    set (fs := fun s => if Z.leb (tx_instant tx) pit then rtx_revert s else s).
    assert (Efs : (if Z.eqb rid id && Z.leb (tx_instant tx) pit then option_map rtx_revert st1 else st1) =
                  (if Z.eqb rid id then option_map fs st1 else st1)).
    { unfold fs. destruct (Z.eqb rid id), (Z.leb (tx_instant tx) pit), st1; reflexivity. }
    rewrite Efs.
    apply (C_update_relp pit id lo (e :: left) left _ rid _ st1 fs (l_date e) Hi); auto.
    intros r s u Hid Erid HU HUb. cbn zeta.
    assert (Hinst : tx_instant tx = t_ts tx) by (unfold tx_instant; rewrite Hu; lia).
    assert (Hmeta : rt_meta (fs s) = rt_meta s) by (unfold fs; destruct (Z.leb _ pit); reflexivity).
    split; [unfold fs; destruct (Z.leb _ pit); reflexivity|]. split; [unfold fs; destruct (Z.leb _ pit); reflexivity|].
    split; [unfold fs; destruct (Z.leb _ pit); reflexivity|]. split; [unfold fs; destruct (Z.leb _ pit); reflexivity|].
    split.
    + exists u. split; [exact HU|]. split; [destruct HUb; [left; assumption|right; lia]|].
      intros Hv Hm. rewrite Hmeta. split; [exact Hm|intros _; apply meta_equiv_refl].
    + assert (Hleft0 : filter (is_revert_of id) left = []).
      { cbn [filter] in Hcnt. unfold is_revert_of at 1 in Hcnt. rewrite ED, Erid, Z.eqb_refl in Hcnt. cbn [length] in Hcnt.
        destruct (filter (is_revert_of id) left); [reflexivity|cbn in Hcnt; lia]. }
      destruct (bx_reverted_at r) as [b|].
      * intros C. exfalso. cbn [filter] in C. unfold is_revert_of at 1 in C. rewrite ED, Erid, Z.eqb_refl in C. discriminate.
      * intros Hf. split; [exact Hleft0|]. unfold fs. rewrite Hinst. destruct (Z.leb (t_ts tx) pit); [reflexivity|exact Hf].
  - exact (relp_weaken pit id lo (l_date e) (e :: left) left txs st Hlo Hsub Hr).
  - set (fs := fun s => if Z.leb (l_date e) pit then rtx_meta (fun x => meta_merge x m) s else s).
    assert (Efs : (if Z.eqb id' id && Z.leb (l_date e) pit then option_map (rtx_meta (fun x => meta_merge x m)) st else st) =
                  (if Z.eqb id' id then option_map fs st else st)).
    { unfold fs. destruct (Z.eqb id' id), (Z.leb (l_date e) pit), st; reflexivity. }
    rewrite Efs.
    apply (C_update_relp pit id lo (e :: left) left _ id' _ st fs (l_date e) Hr); auto.
    intros r s u Hid Eid HU HUb. cbn zeta.
    split; [unfold fs; destruct (Z.leb _ pit); reflexivity|]. split; [unfold fs; destruct (Z.leb _ pit); reflexivity|].
    split; [unfold fs; destruct (Z.leb _ pit); reflexivity|]. split; [unfold fs; destruct (Z.leb _ pit); reflexivity|].
    split.
    + exists (l_date e). split; [reflexivity|]. split; [right; lia|].
      intros Hv Hm. split.
      * intros Hd. unfold fs. assert (Z.leb (l_date e) pit = true) as -> by (apply Z.leb_le; exact Hd). cbn [rtx_meta rt_meta].
        apply merge_equiv. apply Hm. destruct HUb as [->|HUb]; lia.
      * intros Hd. unfold fs. assert (Z.leb (l_date e) pit = false) as -> by (apply Z.leb_gt; exact Hd). apply meta_equiv_refl.
    + destruct (bx_reverted_at r) as [b|].
      * intros C. split; [reflexivity|]. split; [unfold fs; destruct (Z.leb _ pit); reflexivity|apply Hsub; exact C].
      * intros Hf. unfold fs. destruct (Z.leb _ pit); exact Hf.
  - exact (relp_weaken pit id lo (l_date e) (e :: left) left txs st Hlo Hsub Hr).
  - set (fs := fun s => if Z.leb (l_date e) pit then rtx_meta (fun x => meta_del x k) s else s).
    assert (Efs : (if Z.eqb id' id && Z.leb (l_date e) pit then option_map (rtx_meta (fun x => meta_del x k)) st else st) =
                  (if Z.eqb id' id then option_map fs st else st)).
    { unfold fs. destruct (Z.eqb id' id), (Z.leb (l_date e) pit), st; reflexivity. }
    rewrite Efs.
    apply (C_update_relp pit id lo (e :: left) left _ id' _ st fs (l_date e) Hr); auto.
    intros r s u Hid Eid HU HUb. cbn zeta.
    split; [unfold fs; destruct (Z.leb _ pit); reflexivity|]. split; [unfold fs; destruct (Z.leb _ pit); reflexivity|].
    split; [unfold fs; destruct (Z.leb _ pit); reflexivity|]. split; [unfold fs; destruct (Z.leb _ pit); reflexivity|].
    split.
    + exists (l_date e). split; [reflexivity|]. split; [right; lia|].
      intros Hv Hm. split.
      * intros Hd. unfold fs. assert (Z.leb (l_date e) pit = true) as -> by (apply Z.leb_le; exact Hd). cbn [rtx_meta rt_meta].
        apply del_equiv. apply Hm. destruct HUb as [->|HUb]; lia.
      * intros Hd. unfold fs. assert (Z.leb (l_date e) pit = false) as -> by (apply Z.leb_gt; exact Hd). apply meta_equiv_refl.
    + destruct (bx_reverted_at r) as [b|].
      * intros C. split; [reflexivity|]. split; [unfold fs; destruct (Z.leb _ pit); reflexivity|apply Hsub; exact C].
      * intros Hf. unfold fs. destruct (Z.leb _ pit); exact Hf.
Qed.

Lemma C_run_relp_from : forall pit id Ls lo txs st,
  all_utc Ls = true -> dates_monotone_from lo Ls = true -> (length (filter (is_revert_of id) Ls) <= 1)%nat ->
  relp_tx pit id lo Ls txs st ->
  exists lo', relp_tx pit id lo' [] (fold_left C_step Ls txs) (fold_left (tx_step id (Some pit)) Ls st).
Proof.
  intros pit id. induction Ls as [|e Ls IH]; intros lo txs st Hu Hm Hc Hr; cbn [fold_left]; [exists lo; exact Hr|].
  cbn [all_utc forallb] in Hu. apply andb_prop in Hu. destruct Hu as [Hu1 Hu2].
  cbn [dates_monotone_from] in Hm. apply andb_prop in Hm. destruct Hm as [Hm1 Hm2]. apply Z.leb_le in Hm1.
  apply (IH (l_date e)); auto.
  - cbn [filter] in Hc. destruct (is_revert_of id e); cbn [length] in Hc; lia.
  - apply (C_step_relp pit id lo); auto. destruct (log_tx e); [apply Z.eqb_eq; exact Hu1|exact I].
Qed.

Lemma filter_id_unique : forall txs id, NoDup (map bx_id txs) ->
  filter (fun r => Z.eqb (bx_id r) id) txs = match C_find txs id with Some r => [r] | None => [] end.
Proof.
  intros txs id Hnd. unfold C_find.
  assert (H : forall l, NoDup (map bx_id l) -> (length (filter (fun r => Z.eqb (bx_id r) id) l) <= 1)%nat).
  { induction l as [|x l IHl]; intros N; cbn; [lia|]. inversion N as [|? ? Hn Hr]; subst.
    destruct (Z.eqb_spec (bx_id x) id) as [E|E]; [|apply IHl; assumption]. cbn [length].
    rewrite filter_none; [cbn; lia|]. intros y Hy. apply Z.eqb_neq. intros C. apply Hn. rewrite E, <- C. apply in_map. assumption. }
  specialize (H txs Hnd). destruct (filter (fun r => Z.eqb (bx_id r) id) txs) as [|x [|y t]]; cbn in *; try reflexivity. lia.
Qed.

Theorem C_get_transaction_pit_replay : forall Ls id pit,
  all_utc Ls = true -> dates_monotone Ls = true -> reverted_at_most_once Ls id = true ->
  NoDup (map bx_id (C_run Ls)) ->
  tx_view_equiv (C_get_transaction_pit (C_run Ls) id pit) (replay_tx Ls id (Some pit)).
Proof.
  intros Ls id pit Hu Hm Hc Hnd.
  assert (Hm' : dates_monotone_from (match Ls with e :: _ => l_date e | [] => 0 end) Ls = true).
  { destruct Ls as [|e r]; [reflexivity|]. cbn. rewrite Z.leb_refl. exact Hm. }
  unfold reverted_at_most_once in Hc. apply Nat.leb_le in Hc.
  destruct (C_run_relp_from pit id Ls _ [] None Hu Hm' Hc I) as [lo' R].
  fold (C_run Ls) in R. unfold C_get_transaction_pit, replay_tx, relp_tx in *.
  rewrite <- (filter_filter (fun r => Z.leb (bx_ts r) pit) (fun r => Z.eqb (bx_id r) id)), (filter_id_unique _ id Hnd).
  destruct (C_find (C_run Ls) id) as [r|]; destruct (fold_left (tx_step id (Some pit)) Ls None) as [s|]; try contradiction; [|exact I].
  destruct R as [R1 [R2 [R3 [R4 [_ [_ [R7 R8]]]]]]]. cbn [filter before_ok]. rewrite <- R2.
  destruct (Z.leb_spec (bx_ts r) pit) as [L|L]; cbn [rev app]; [|exact I].
  destruct (R7 L) as [h [P M]].
  cbn [tx_view_equiv v_id v_ts v_ref v_postings v_meta v_reverted]. rewrite P.
  split; [exact R1|]. split; [exact R2|]. split; [exact R3|]. split; [exact R4|].
  split; [exists (snd h); split; [reflexivity|exact M]|].
  destruct (bx_reverted_at r); [destruct R8 as [R8 _]; congruence|congruence].
Qed.

(* ---- Part H: GetAggregatedBalances ---------------------------------------------------------------------------------------------- *)
Definition lt2 (x y : N * N) : Prop := (fst x < fst y)%N \/ (fst x = fst y /\ (snd x < snd y)%N).

Lemma ins_pair_in : forall x y l, In y (ins_pair x l) <-> y = x \/ In y l.
Proof.
  induction l as [|z r IH]; cbn; [intuition|].
  destruct (N.ltb (fst x) (fst z) || N.eqb (fst x) (fst z) && N.ltb (snd x) (snd z)); cbn; [intuition|].
  destruct (N.eqb_spec (fst x) (fst z)) as [E1|E1]; cbn [andb].
  - destruct (N.eqb_spec (snd x) (snd z)) as [E2|E2]; cbn.
    + assert (x = z) as -> by (destruct x, z; cbn in *; congruence). intuition.
    + rewrite IH. intuition.
  - cbn. rewrite IH. intuition.
Qed.

Lemma sort_dedup_pairs_in : forall y l, In y (sort_dedup_pairs l) <-> In y l.
Proof. induction l as [|x r IH]; cbn; [tauto|]. rewrite ins_pair_in, IH. intuition. Qed.

Lemma ins_pair_sorted : forall x l, StronglySorted lt2 l -> StronglySorted lt2 (ins_pair x l).
Proof.
  induction l as [|z r IH]; intros H; cbn; [constructor; constructor|].
  apply StronglySorted_inv in H. destruct H as [Hr Hz]. rewrite Forall_forall in Hz.
  destruct (N.ltb_spec (fst x) (fst z)) as [L1|L1]; cbn [orb].
  - constructor; [constructor; [assumption|apply Forall_forall; assumption]|].
    apply Forall_forall. intros y [<-|Hy]; [left; assumption|]. specialize (Hz y Hy). unfold lt2 in *. lia.
  - destruct (N.eqb_spec (fst x) (fst z)) as [E1|E1]; cbn [andb].
    + destruct (N.ltb_spec (snd x) (snd z)) as [L2|L2].
      * constructor; [constructor; [assumption|apply Forall_forall; assumption]|].
        apply Forall_forall. intros y [<-|Hy]; [right; auto|]. specialize (Hz y Hy). unfold lt2 in *. lia.
      * destruct (N.eqb_spec (snd x) (snd z)) as [E2|E2]; [constructor; [assumption|apply Forall_forall; assumption]|].
        constructor; [apply IH; assumption|]. apply Forall_forall. intros y Hy. apply ins_pair_in in Hy.
        destruct Hy as [->|Hy]; [unfold lt2; lia|apply Hz; assumption].
    + constructor; [apply IH; assumption|]. apply Forall_forall. intros y Hy. apply ins_pair_in in Hy.
      destruct Hy as [->|Hy]; [unfold lt2; lia|apply Hz; assumption].
Qed.

Lemma sort_dedup_pairs_NoDup : forall l, NoDup (sort_dedup_pairs l).
Proof.
  intros l. assert (S : StronglySorted lt2 (sort_dedup_pairs l)).
  { induction l; cbn; [constructor|apply ins_pair_sorted; assumption]. }
  induction S as [|x r S IH F]; constructor; auto. intros C. rewrite Forall_forall in F. specialize (F x C). unfold lt2 in F. lia.
Qed.

Definition bk (m : bmove) : N * N := (b_addr m, b_asset m).

Lemma bkey_bk : forall m m', bkey (fst (bk m)) (snd (bk m)) m' = true <-> bk m' = bk m.
Proof.
  intros m m'. unfold bkey, bk. cbn. rewrite andb_true_iff, !N.eqb_eq. split; [intros [-> ->]; reflexivity|intros E; inversion E; auto].
Qed.

(* the latest move of every (account, asset) *)
Lemma latest_spec : forall F,
  (forall m, In m (A_latest_per_key F) -> exists rest, filter (bkey (b_addr m) (b_asset m)) F = m :: rest) /\
  NoDup (map bk (A_latest_per_key F)) /\
  (forall x, In x F -> exists m, In m (A_latest_per_key F) /\ bk m = bk x).
Proof.
  intros F. unfold A_latest_per_key. fold bk.
  set (K := sort_dedup_pairs (map bk F)).
  assert (Hk : forall k m rest, filter (bkey (fst k) (snd k)) F = m :: rest -> bk m = k /\ In m F).
  { intros k m rest E. assert (In m (filter (bkey (fst k) (snd k)) F)) as X by (rewrite E; left; reflexivity).
    apply filter_In in X. destruct X as [Hin Hb]. unfold bkey in Hb. apply andb_prop in Hb. destruct Hb as [A B].
    apply N.eqb_eq in A, B. split; [unfold bk; destruct k; cbn in *; congruence|exact Hin]. }
  split; [|split].
  - intros m Hm. apply in_flat_map in Hm. destruct Hm as [k [_ Hm]].
    destruct (filter (bkey (fst k) (snd k)) F) as [|m0 rest] eqn:E; [contradiction|]. destruct Hm as [<-|[]].
    destruct (Hk k m0 rest E) as [Ek _]. exists rest. rewrite <- E. f_equal. unfold bk in Ek. rewrite <- Ek. reflexivity.
  - assert (G : forall Ks, NoDup Ks ->
              NoDup (map bk (flat_map (fun k => match filter (bkey (fst k) (snd k)) F with m :: _ => [m] | [] => [] end) Ks)) /\
              forall m, In m (flat_map (fun k => match filter (bkey (fst k) (snd k)) F with m :: _ => [m] | [] => [] end) Ks) -> In (bk m) Ks).
    { induction Ks as [|k Ks IH]; intros N; cbn [flat_map map]; [split; [constructor|intros m []]|].
      inversion N as [|? ? Hn Hr]; subst. destruct (IH Hr) as [I1 I2].
      destruct (filter (bkey (fst k) (snd k)) F) as [|m0 rest] eqn:E; cbn [app map].
      - split; [exact I1|]. intros m Hm. right. apply I2. exact Hm.
      - destruct (Hk k m0 rest E) as [Ek _]. split.
        + constructor; [|exact I1]. intros C. apply in_map_iff in C. destruct C as [m' [E' Hm']]. apply Hn. rewrite <- Ek, <- E'. apply I2. exact Hm'.
        + intros m [<-|Hm]; [left; symmetry; exact Ek|right; apply I2; exact Hm]. }
    apply (G K). apply sort_dedup_pairs_NoDup.
  - intros x Hx. assert (In (bk x) K) as HK by (apply sort_dedup_pairs_in; apply in_map; assumption).
    destruct (filter (bkey (fst (bk x)) (snd (bk x))) F) as [|m0 rest] eqn:E.
    + exfalso. assert (In x (filter (bkey (fst (bk x)) (snd (bk x))) F)) as C by (apply filter_In; split; [assumption|apply bkey_bk; reflexivity]).
      rewrite E in C. contradiction.
    + destruct (Hk (bk x) m0 rest E) as [Ek _]. exists m0. split; [|exact Ek].
      apply in_flat_map. exists (bk x). split; [exact HK|]. rewrite E. left. reflexivity.
Qed.

Lemma osum_somes : forall l, l <> [] -> osum (map Some l) = Some (zsum l).
Proof.
  intros l Hne. unfold osum.
  assert (G : forall l acc, fold_left (fun acc x => match x with None => acc | Some v => Some (match acc with Some a => a + v | None => v end) end)
                              (map Some l) (Some acc) = Some (acc + zsum l)).
  { induction l0 as [|x l0 IH]; intros acc; cbn [map fold_left]; [unfold zsum; cbn; f_equal; lia|].
    rewrite IH. unfold zsum. cbn [fold_right]. f_equal. lia. }
  destruct l as [|x l]; [congruence|]. cbn [map fold_left]. rewrite G. unfold zsum. cbn [fold_right]. reflexivity.
Qed.

Definition agg_lookup (l : list (N * vol)) (s : N) : option vol := option_map snd (find (fun kv => N.eqb (fst kv) s) l).

Lemma find_map_self : forall (F : N -> vol) SL s,
  find (fun kv => N.eqb (fst kv) s) (map (fun s' => (s', F s')) SL) = if existsb (N.eqb s) SL then Some (s, F s) else None.
Proof.
  induction SL as [|x SL IH]; intros s; cbn [map find existsb fst]; [reflexivity|].
  rewrite (N.eqb_sym s x). destruct (N.eqb_spec x s) as [->|]; [reflexivity|]. cbn [orb]. apply IH.
Qed.

(* the moves dated up to pit, newest first *)
Definition upto (pit : option Z) (ms : list bmove) : list bmove := filter (fun m => before_ok pit (b_ins m)) ms.

Lemma latest_pcv : forall ms pit m rest,
  pcv_ok ms -> (pit <> None -> StronglySorted (fun x y => b_ins y <= b_ins x) ms) ->
  filter (bkey (b_addr m) (b_asset m)) (upto pit ms) = m :: rest ->
  b_pcv m = vol_of (rvol (filter (rkey (b_addr m) (b_asset m)) (map core (upto pit ms)))).
Proof.
  intros ms pit m rest P S E. unfold upto in *. rewrite filter_filter in E.
  destruct pit as [t|].
  - rewrite (pcv_ok_head_pit (b_addr m) (b_asset m) t ms m rest P (S ltac:(discriminate)) E).
    f_equal. f_equal.
    rewrite (filter_map_comm core (rkey (b_addr m) (b_asset m))), filter_filter, (filter_map_comm core). reflexivity.
  - rewrite (pcv_ok_head (b_addr m) (b_asset m) ms m rest P).
    + rewrite (filter_ext (fun m0 => before_ok None (b_ins m0)) (fun _ => true)) by reflexivity.
      assert (forall l : list bmove, filter (fun _ => true) l = l) as Hid by (induction l; cbn; congruence). rewrite Hid. reflexivity.
    + rewrite <- E. apply filter_ext. intros x. reflexivity.
Qed.

Lemma NoDup_map_filter : forall {A B} (f : A -> B) (p : A -> bool) l, NoDup (map f l) -> NoDup (map f (filter p l)).
Proof.
  induction l as [|x l IH]; cbn; intros H; [constructor|]. inversion H as [|? ? Hn Hr]; subst.
  destruct (p x); [|apply IH; assumption]. cbn. constructor; [|apply IH; assumption].
  intros C. apply Hn. apply in_map_iff in C. destruct C as [y [E Hy]]. apply filter_In in Hy. rewrite <- E. apply in_map. tauto.
Qed.

Lemma nodup_addr_same_asset : forall (G : list bmove) s,
  NoDup (map bk G) -> (forall g, In g G -> b_asset g = s) -> NoDup (map b_addr G).
Proof.
  induction G as [|g t IH]; cbn; intros s N1 H; [constructor|]. inversion N1 as [|? ? Hn Hr]; subst.
  constructor; [|apply (IH s); [assumption|intros; apply H; right; assumption]].
  intros C. apply Hn. apply in_map_iff in C. destruct C as [g' [E Hg']]. apply in_map_iff. exists g'. split; [|assumption].
  unfold bk. rewrite E, (H g (or_introl eq_refl)), (H g' (or_intror Hg')). reflexivity.
Qed.

Lemma some_vol_rev : forall X, some_vol (rev X) = match X with [] => None | _ => Some (rvol X) end.
Proof.
  intros [|x t]; [reflexivity|]. unfold some_vol. destruct (rev (x :: t)) as [|y l] eqn:R.
  - apply (f_equal (@length _)) in R. rewrite rev_length in R. discriminate.
  - rewrite <- R, rvol_rev. reflexivity.
Qed.

Theorem A_aggregated_lookup : forall Ls pit s,
  no_self_transfer_on_new_account Ls = true -> (pit <> None -> dates_monotone Ls = true) ->
  agg_lookup (A_aggregated_volumes (snd (A_run Ls)) pit) s =
  option_map vol_of (some_vol (filter (fun m => before_ok pit (r_ins m) && N.eqb (r_asset m) s) (replay_moves Ls))).
Proof.
  intros Ls pit s Hn Hd. pose proof (run_pcv_ok Ls Hn) as P.
  assert (S : pit <> None -> StronglySorted (fun x y => b_ins y <= b_ins x) (snd (A_run Ls))) by (intros C; apply ins_sorted_run; auto).
  set (ms := snd (A_run Ls)) in *. unfold A_aggregated_volumes. fold (upto pit ms). set (F := upto pit ms).
  destruct (latest_spec F) as [L1 [L2 L3]]. set (LL := A_latest_per_key F) in *.
  (* the oracle's side, on the machine's own list *)
  rewrite <- (some_vol_noeff (fun m => before_ok pit (r_ins m) && N.eqb (r_asset m) s) (replay_moves_sql Ls) (replay_moves Ls))
    by (try (intros m; reflexivity); apply noeff_moves).
  set (X := filter (fun r => N.eqb (r_asset r) s) (map core F)).
  assert (EX : rev X = filter (fun m => before_ok pit (r_ins m) && N.eqb (r_asset m) s) (replay_moves_sql Ls)).
  { rewrite <- (rev_involutive (replay_moves_sql Ls)), <- core_run, filter_rev'. f_equal. fold ms.
    unfold X, F, upto. rewrite !(filter_map_comm core), filter_filter. reflexivity. }
  rewrite <- EX.
  rewrite some_vol_rev. clear EX.
  (* the store's side *)
  unfold agg_lookup, A_sum_by_asset. rewrite find_map_self.
  set (G := filter (fun m => N.eqb (b_asset m) s) LL).
  assert (HG : existsb (N.eqb s) (sort_dedup (map b_asset LL)) = match G with [] => false | _ => true end).
  { destruct G as [|g t] eqn:EG.
    - destruct (existsb _ _) eqn:EX; [|reflexivity]. apply existsb_exists in EX. destruct EX as [x [Hx Ex]]. apply N.eqb_eq in Ex. subst x.
      apply (proj1 (sort_dedup_in _ _)) in Hx. apply in_map_iff in Hx. destruct Hx as [m [Em Hm]].
      assert (In m G) as C by (apply filter_In; split; [assumption|apply N.eqb_eq; assumption]). rewrite EG in C. contradiction.
    - apply existsb_exists. exists s. split; [|apply N.eqb_refl]. apply (proj2 (sort_dedup_in _ _)).
      assert (In g G) as C by (rewrite EG; left; reflexivity). apply filter_In in C. destruct C as [C1 C2]. apply N.eqb_eq in C2.
      rewrite <- C2. apply in_map. assumption. }
  rewrite HG.
  (* accounts of the asset *)
  assert (HGin : forall g, In g G -> In g LL /\ b_asset g = s).
  { intros g Hg. apply filter_In in Hg. destruct Hg as [A B]. apply N.eqb_eq in B. auto. }
  assert (Hpcv : forall g, In g G -> b_pcv g = vol_of (rvol (filter (fun r => N.eqb (r_addr r) (b_addr g)) X))).
  { intros g Hg. destruct (HGin g Hg) as [Hl Ha]. destruct (L1 g Hl) as [rest E].
    rewrite (latest_pcv ms pit g rest P S E). fold F. unfold X. rewrite filter_filter. f_equal. f_equal.
    apply filter_ext. intros r. unfold rkey. rewrite Ha. apply andb_comm. }
  assert (Hnd : NoDup (map b_addr G)).
  { apply (nodup_addr_same_asset G s); [apply NoDup_map_filter; exact L2|]. intros g Hg. apply HGin. exact Hg. }
  assert (Hcov : forall r, In r X -> In (r_addr r) (map b_addr G)).
  { intros r Hr. unfold X in Hr. apply filter_In in Hr. destruct Hr as [Hr Ha]. apply N.eqb_eq in Ha.
    apply in_map_iff in Hr. destruct Hr as [x [Ex Hx]]. destruct (L3 x Hx) as [m [Hm Em]].
    apply in_map_iff. exists m. unfold bk in Em. inversion Em as [[E1 E2]]. split; [rewrite E1, <- Ex; reflexivity|].
    apply filter_In. split; [exact Hm|]. apply N.eqb_eq. rewrite E2, <- Ha, <- Ex. reflexivity. }
  destruct G as [|g0 t0] eqn:EG.
  - (* no account holds the asset up to pit *)
    destruct X as [|x tx] eqn:EX; [reflexivity|]. exfalso. apply (Hcov x). left. reflexivity.
  - assert (Xne : X <> []).
    { destruct (HGin g0 (or_introl eq_refl)) as [Hl Ha]. destruct (L1 g0 Hl) as [rest E].
      assert (In g0 F) as Hf. { assert (In g0 (filter (bkey (b_addr g0) (b_asset g0)) F)) as Y by (rewrite E; left; reflexivity). apply filter_In in Y. tauto. }
      intros C. assert (In (core g0) X) as Y; [|rewrite C in Y; contradiction].
      unfold X. apply filter_In. split; [apply in_map; assumption|]. apply N.eqb_eq. exact Ha. }
    destruct X as [|x tx] eqn:EX; [congruence|]. rewrite <- EX in *. rewrite <- EG in *. cbn [option_map snd]. f_equal.
    assert (Hin : map (fun m => fst (b_pcv m)) G = map Some (map (fun a => zsum (map r_in (filter (fun r => N.eqb (r_addr r) a) X))) (map b_addr G))).
    { rewrite !map_map. apply map_ext_in'. intros g Hg. rewrite (Hpcv g Hg). reflexivity. }
    assert (Hout : map (fun m => snd (b_pcv m)) G = map Some (map (fun a => zsum (map r_out (filter (fun r => N.eqb (r_addr r) a) X))) (map b_addr G))).
    { rewrite !map_map. apply map_ext_in'. intros g Hg. rewrite (Hpcv g Hg). reflexivity. }
    rewrite Hin, Hout.
    assert (Gne : map b_addr G <> []) by (rewrite EG; discriminate).
    rewrite !osum_somes by (intros C; apply Gne; destruct (map b_addr G); [reflexivity|discriminate]).
    rewrite (partition_accounts r_in _ X Hnd Hcov), (partition_accounts r_out _ X Hnd Hcov). reflexivity.
Qed.
