(* M4 — every ledger-scoped read of the concrete model is the same read on the per-ledger machines, applied to the
   projection of the database ([read_abs]). Together with [run_refines] this gives [read_run]: what a ledger reads
   is a function of that ledger's own log entries only. *)
From Coq Require Import Lia Sorting.Sorted.
From FL Require Import Storage.Model Storage.Abs Storage.Refine.
Local Open Scope Z_scope.

Section MovesReads.
  Variables (l : N) (tid : Z -> Z) (ms : list move).
  Hypothesis Hs : StronglySorted seq_desc ms.
  Local Notation bm := (bmove_of tid).

  Lemma sorted_bool : forall p, StronglySorted (fun x y => by_seq_desc x y = true) (filter p ms).
  Proof.
    intros p. apply StronglySorted_filter. clear -Hs.
    induction Hs; constructor; auto.
    rewrite Forall_forall in *. intros y Hy. unfold by_seq_desc. apply Z.ltb_lt. apply H. assumption.
  Qed.

  Lemma seq_pick_abs : forall (p : move -> bool) (q : bmove -> bool),
    (forall m, In m ms -> p m = is_l l m && q (bm m)) ->
    option_map bm (pick_best by_seq_desc (filter p ms)) = hd_error (filter q (abs_moves l tid ms)).
  Proof.
    intros p q H. rewrite pick_best_sorted by apply sorted_bool.
    rewrite <- hd_error_map. f_equal. apply abs_filter. exact H.
  Qed.

  Lemma eff_pick_abs : forall (p : move -> bool) (q : bmove -> bool),
    (forall m, In m ms -> p m = is_l l m && q (bm m)) ->
    option_map bm (pick_best by_eff_seq_desc (filter p ms)) = pick_best b_eff_better (filter q (abs_moves l tid ms)).
  Proof.
    intros p q H. rewrite <- (abs_filter l tid p q ms H). rewrite pick_best_map. f_equal.
    apply (pick_best_ext_sorted seq_desc).
    - apply StronglySorted_filter. exact Hs.
    - intros x y Hxy. unfold seq_desc in Hxy. unfold by_eff_seq_desc, b_eff_better, bmove_of; cbn.
      destruct (Z.ltb_spec (m_eff y) (m_eff x)), (Z.eqb_spec (m_eff y) (m_eff x)), (Z.leb_spec (m_eff y) (m_eff x));
        cbn; try lia; try reflexivity.
  Qed.

  Lemma move_of_split : forall a s m (c : bool),
    c && move_of l a s m = is_l l m && (c && bkey a s (bm m)).
  Proof.
    intros. unfold move_of, is_l, bkey, bmove_of; cbn.
    destruct c, (N.eqb (m_addr m) a), (N.eqb (m_asset m) s), (N.eqb (m_ledger m) l); reflexivity.
  Qed.

  Lemma assets_abs : sort_dedup (map m_asset (filter (fun m => N.eqb (m_ledger m) l) ms)) = A_assets (abs_moves l tid ms).
  Proof. unfold A_assets, abs_moves. rewrite map_map. reflexivity. Qed.

  Lemma volumes_abs : forall a before assets,
    flat_map (fun s =>
      match pick_best by_seq_desc (filter (fun m => before_ok before (m_ins m) && move_of l a s m) ms) with
      | Some m => [(m_asset m, m_pcv m)] | None => [] end) assets =
    flat_map (fun s => match filter (fun m => before_ok before (b_ins m) && bkey a s m) (abs_moves l tid ms) with
                       | m :: _ => [(b_asset m, b_pcv m)] | [] => [] end) assets.
  Proof.
    intros. apply flat_map_ext. intros s.
    rewrite (hd_error_match (filter _ (abs_moves l tid ms))).
    rewrite <- (seq_pick_abs (fun m => before_ok before (m_ins m) && move_of l a s m)).
    2:{ intros m _. apply move_of_split. }
    destruct (pick_best by_seq_desc _); reflexivity.
  Qed.

  Lemma effective_volumes_abs : forall a before assets,
    flat_map (fun s =>
      match pick_best by_eff_seq_desc (filter (fun m => before_ok before (m_eff m) && move_of l a s m) ms) with
      | Some m => [(m_asset m, m_pcev m)] | None => [] end) assets =
    flat_map (fun s => match pick_best b_eff_better
                               (filter (fun m => before_ok before (b_eff m) && bkey a s m) (abs_moves l tid ms)) with
                       | Some m => [(b_asset m, b_pcev m)] | None => [] end) assets.
  Proof.
    intros. apply flat_map_ext. intros s.
    rewrite <- (eff_pick_abs (fun m => before_ok before (m_eff m) && move_of l a s m)).
    2:{ intros m _. apply move_of_split. }
    destruct (pick_best by_eff_seq_desc _); reflexivity.
  Qed.

  Lemma balance_abs : forall a s before,
    match pick_best by_seq_desc (filter (fun m => before_ok before (m_eff m) && move_of l a s m) ms) with
    | Some m => osub (fst (m_pcv m)) (snd (m_pcv m)) | None => None end =
    A_balance (abs_moves l tid ms) a s before.
  Proof.
    intros. unfold A_balance. rewrite (hd_error_match (filter _ (abs_moves l tid ms))).
    rewrite <- (seq_pick_abs (fun m => before_ok before (m_eff m) && move_of l a s m)).
    2:{ intros m _. apply move_of_split. }
    destruct (pick_best by_seq_desc _); reflexivity.
  Qed.
End MovesReads.

Lemma sorted_filter_seq : forall p ms, StronglySorted seq_desc ms -> StronglySorted seq_desc (filter p ms).
Proof. intros. apply StronglySorted_filter. assumption. Qed.

Lemma latest_per_key_abs : forall tid ms, StronglySorted seq_desc ms ->
  A_latest_per_key (map (bmove_of tid) ms) = map (bmove_of tid) (latest_per_key ms).
Proof.
  intros tid ms Hs. unfold A_latest_per_key, latest_per_key. rewrite map_map. cbn [bmove_of b_addr b_asset].
  induction (sort_dedup_pairs (map (fun m => (m_addr m, m_asset m)) ms)) as [|k ks IH]; [reflexivity|].
  cbn [flat_map]. rewrite map_app, IH. f_equal.
  rewrite (pick_best_sorted by_seq_desc) by (apply sorted_bool; assumption).
  rewrite filter_map_comm. unfold bkey. cbn [bmove_of b_addr b_asset].
  destruct (filter _ ms); reflexivity.
Qed.

Lemma sum_by_asset_abs : forall tid (proj : move -> vol) (proj' : bmove -> vol) ms,
  (forall m, proj' (bmove_of tid m) = proj m) ->
  A_sum_by_asset proj' (map (bmove_of tid) ms) = sum_by_asset proj ms.
Proof.
  intros tid proj proj' ms H. unfold A_sum_by_asset, sum_by_asset. rewrite map_map. cbn [bmove_of b_asset].
  apply map_ext. intros s. rewrite filter_map_comm, !map_map. cbn [bmove_of b_asset].
  f_equal. f_equal; f_equal; apply map_ext; intros m; rewrite H; reflexivity.
Qed.

(* ---- transactions: finding the row ------------------------------------------------------------------------------------ *)
Lemma C_find_abs : forall l d id,
  C_find (absC l d) id = option_map (btx_of (d_txm d)) (hd_error (rev (filter (tx_is l id) (d_tx d)))).
Proof.
  intros. unfold C_find, absC. rewrite filter_map_comm, filter_filter, <- map_rev.
  replace (filter (fun x => N.eqb (x_ledger x) l && Z.eqb (bx_id (btx_of (d_txm d) x)) id) (d_tx d))
    with (filter (tx_is l id) (d_tx d)) by (apply filter_ext_in'; reflexivity).
  destruct (rev (filter (tx_is l id) (d_tx d))); reflexivity.
Qed.

Lemma txid_of_in : forall txs r, NoDup (map x_seq txs) -> In r txs -> txid_of txs (x_seq r) = x_id r.
Proof.
  intros txs r Hnd Hr. unfold txid_of.
  rewrite (filter_unique (fun r0 => Z.eqb (x_seq r0) (x_seq r)) txs r); auto.
  - apply Z.eqb_refl.
  - intros y Hy E. apply Z.eqb_eq in E. apply (NoDup_map_inj x_seq txs); auto.
  - apply (NoDup_of_map _ _ Hnd).
Qed.

Lemma tx_volumes_abs : forall d l id proj proj',
  WF d -> (forall m, proj' (bmove_of (txid_of (d_tx d)) m) = proj m) ->
  tx_volumes_by_id proj d l id =
  match C_find (absC l d) id with Some _ => A_tx_volumes proj' (snd (absA l d)) id | None => [] end.
Proof.
  intros d l id proj proj' W Hp. unfold tx_volumes_by_id. rewrite C_find_abs.
  destruct (rev (filter (tx_is l id) (d_tx d))) as [|r t] eqn:E; [reflexivity|]. cbn [hd_error option_map].
  apply in_rev_hd in E. apply filter_In in E. destruct E as [Hr Hp2]. unfold tx_is in Hp2.
  apply andb_prop in Hp2. destruct Hp2 as [Hl Hid]. apply N.eqb_eq in Hl. apply Z.eqb_eq in Hid.
  unfold tx_volumes, A_tx_volumes, absA. cbn [snd].
  set (tid := txid_of (d_tx d)).
  assert (Hf : map (bmove_of tid) (filter (fun m => Z.eqb (m_tx_seq m) (x_seq r) && N.eqb (m_ledger m) l) (d_moves d)) =
               filter (fun m => Z.eqb (b_txid m) id) (abs_moves l tid (d_moves d))).
  { apply abs_filter. intros m Hm. unfold is_l. cbn [bmove_of b_txid].
    destruct (N.eqb_spec (m_ledger m) l) as [El|El]; [|rewrite andb_false_r; reflexivity].
    rewrite andb_true_r. cbn [andb].
    destruct (wf_movetx _ W m Hm) as [r' [Hr' [Hs' Hl']]].
    unfold tid. rewrite <- Hs', (txid_of_in _ _ (wt_seq _ _ _ (wf_tx _ W)) Hr').
    destruct (Z.eqb_spec (x_seq r') (x_seq r)) as [E1|E1].
    - assert (r' = r) as -> by (apply (NoDup_map_inj x_seq (d_tx d)); auto; apply (wf_tx _ W)).
      symmetry. apply Z.eqb_eq. assumption.
    - symmetry. apply Z.eqb_neq. intros E2. apply E1. f_equal.
      apply (NoDup_map_inj (fun r => (x_ledger r, x_id r)) (d_tx d)); auto. apply (wf_tx _ W). cbn. congruence. }
  rewrite <- Hf. rewrite map_map. cbn [bmove_of b_addr b_asset].
  apply flat_map_ext. intros k. rewrite filter_map_comm, <- map_rev. unfold bkey. cbn [bmove_of b_addr b_asset].
  destruct (rev (filter _ _)) as [|m t']; [reflexivity|]. cbn [map]. rewrite Hp. reflexivity.
Qed.

(* ---- accounts and transactions ---------------------------------------------------------------------------------------- *)
Lemma get_account_abs : forall d l a, get_account d l a = B_get_account (absB l d) a.
Proof.
  intros. unfold get_account, B_get_account. rewrite B_find_abs. unfold find_account.
  destruct (rev (filter (acc_is l a) (d_acc d))) as [|r t]; [reflexivity|]. cbn [option_map].
  unfold bacc_of at 1. cbn [ba_hist]. rewrite <- accm_rev_map.
  destruct (pick_best accm_rev_desc _); reflexivity.
Qed.

Lemma get_account_pit_abs : forall d l a pit, get_account_pit d l a pit = B_get_account_pit (absB l d) a pit.
Proof.
  intros. unfold get_account_pit, B_get_account_pit, absB.
  rewrite filter_map_comm, filter_filter, <- map_rev.
  replace (filter (fun x => N.eqb (a_ledger x) l &&
                            (N.eqb (ba_addr (bacc_of (d_accm d) x)) a && Z.leb (ba_ins (bacc_of (d_accm d) x)) pit)) (d_acc d))
    with (filter (fun r => acc_is l a r && Z.leb (a_ins r) pit) (d_acc d)).
  2:{ apply filter_ext_in'. intros r _. unfold acc_is. cbn. rewrite andb_assoc. reflexivity. }
  destruct (rev (filter _ (d_acc d))) as [|r t]; [reflexivity|]. cbn [map].
  unfold bacc_of at 1. cbn [ba_hist]. rewrite filter_map_comm, filter_filter. cbn [brev_of fst snd].
  rewrite <- accm_rev_map. destruct (pick_best accm_rev_desc _); reflexivity.
Qed.

Lemma get_transaction_abs : forall d l id, get_transaction d l id = C_get_transaction (absC l d) id.
Proof.
  intros. unfold get_transaction, C_get_transaction. rewrite C_find_abs.
  destruct (rev (filter (tx_is l id) (d_tx d))) as [|r t]; [reflexivity|]. cbn [hd_error option_map].
  unfold btx_of. cbn [bx_id bx_ts bx_ref bx_postings bx_hist bx_reverted_at]. rewrite <- txm_rev_map.
  destruct (pick_best txm_rev_desc _); reflexivity.
Qed.

Lemma get_transaction_pit_abs : forall d l id pit,
  get_transaction_pit d l id pit = C_get_transaction_pit (absC l d) id pit.
Proof.
  intros. unfold get_transaction_pit, C_get_transaction_pit, absC.
  rewrite filter_map_comm, filter_filter, <- map_rev.
  replace (filter (fun x => N.eqb (x_ledger x) l &&
                            (Z.eqb (bx_id (btx_of (d_txm d) x)) id && Z.leb (bx_ts (btx_of (d_txm d) x)) pit)) (d_tx d))
    with (filter (fun r => tx_is l id r && Z.leb (x_ts r) pit) (d_tx d)).
  2:{ apply filter_ext_in'. intros r _. unfold tx_is. cbn. rewrite andb_assoc. reflexivity. }
  destruct (rev (filter _ (d_tx d))) as [|r t]; [reflexivity|]. cbn [map].
  unfold btx_of. cbn [bx_id bx_ts bx_ref bx_postings bx_hist bx_reverted_at].
  rewrite filter_map_comm, filter_filter. cbn [crev_of fst snd].
  rewrite <- txm_rev_map. destruct (pick_best txm_rev_desc _); reflexivity.
Qed.

(* ---- the moves reads, as equations between lists ------------------------------------------------------------------------ *)
Lemma get_all_assets_abs : forall d l, get_all_assets d l = A_assets (snd (absA l d)).
Proof. intros. unfold get_all_assets, absA. cbn [snd]. apply assets_abs. Qed.

Lemma get_all_account_volumes_abs : forall d l a before, WF d ->
  get_all_account_volumes d l a before = A_volumes (snd (absA l d)) a before.
Proof.
  intros d l a before W. pose proof (wm_sorted _ _ _ _ (wf_moves _ W)) as Hs.
  unfold get_all_account_volumes, get_all_assets, A_volumes, absA. cbn [snd].
  rewrite (assets_abs l (txid_of (d_tx d))), (volumes_abs l (txid_of (d_tx d)) _ Hs). reflexivity.
Qed.

Lemma get_all_account_effective_volumes_abs : forall d l a before, WF d ->
  get_all_account_effective_volumes d l a before = A_effective_volumes (snd (absA l d)) a before.
Proof.
  intros d l a before W. pose proof (wm_sorted _ _ _ _ (wf_moves _ W)) as Hs.
  unfold get_all_account_effective_volumes, get_all_assets, A_effective_volumes, absA. cbn [snd].
  rewrite (assets_abs l (txid_of (d_tx d))), (effective_volumes_abs l (txid_of (d_tx d)) _ Hs). reflexivity.
Qed.

Lemma get_account_balance_abs : forall d l a s before, WF d ->
  get_account_balance d l a s before = A_balance (snd (absA l d)) a s before.
Proof.
  intros d l a s before W. pose proof (wm_sorted _ _ _ _ (wf_moves _ W)) as Hs.
  unfold get_account_balance, absA. cbn [snd]. apply (balance_abs l (txid_of (d_tx d)) _ Hs).
Qed.

Lemma aggregated_volumes_abs : forall d l pit, WF d ->
  aggregated_volumes d l pit = A_aggregated_volumes (snd (absA l d)) pit.
Proof.
  intros d l pit W. pose proof (wm_sorted _ _ _ _ (wf_moves _ W)) as Hs.
  unfold aggregated_volumes, A_aggregated_volumes, absA. cbn [snd].
  rewrite <- (abs_filter l (txid_of (d_tx d)) (fun m => N.eqb (m_ledger m) l && before_ok pit (m_ins m))).
  2:{ intros m _. reflexivity. }
  rewrite latest_per_key_abs by (apply sorted_filter_seq; exact Hs).
  rewrite (sum_by_asset_abs _ m_pcv) by reflexivity. reflexivity.
Qed.

Lemma aggregate_ledger_volumes_abs : forall d l before, WF d ->
  aggregate_ledger_volumes d l before = A_aggregate_ledger_volumes (snd (absA l d)) before.
Proof.
  intros d l before W. pose proof (wm_sorted _ _ _ _ (wf_moves _ W)) as Hs.
  unfold aggregate_ledger_volumes, A_aggregate_ledger_volumes, absA. cbn [snd].
  rewrite <- (abs_filter l (txid_of (d_tx d)) (fun m => before_ok before (m_eff m) && N.eqb (m_ledger m) l)).
  2:{ intros m _. unfold is_l. cbn. apply andb_comm. }
  rewrite latest_per_key_abs by (apply sorted_filter_seq; exact Hs).
  rewrite (sum_by_asset_abs _ m_pcev) by reflexivity. reflexivity.
Qed.

(* ---- all reads ------------------------------------------------------------------------------------------------------------ *)
Theorem read_abs : forall d l q, WF d -> read d l q = aread (absA l d) (absB l d) (absC l d) q.
Proof.
  intros d l q W.
  pose proof (wm_sorted _ _ _ _ (wf_moves _ W)) as Hs.
  destruct q; cbn [read aread].
  - rewrite get_all_assets_abs. reflexivity.
  - rewrite get_all_account_volumes_abs by exact W. reflexivity.
  - rewrite get_all_account_effective_volumes_abs by exact W. reflexivity.
  - rewrite get_account_balance_abs by exact W. reflexivity.
  - rewrite aggregate_ledger_volumes_abs by exact W. reflexivity.
  - rewrite aggregated_volumes_abs by exact W. reflexivity.
  - rewrite (tx_volumes_abs d l id m_pcv b_pcv W) by reflexivity. reflexivity.
  - rewrite (tx_volumes_abs d l id m_pcev b_pcev W) by reflexivity. reflexivity.
  - rewrite get_account_abs. reflexivity.
  - rewrite get_account_pit_abs. reflexivity.
  - rewrite get_transaction_abs. reflexivity.
  - rewrite get_transaction_pit_abs. reflexivity.
Qed.

(* what ledger [l] reads after the history [L] depends on [ledger_logs l L] only *)
Definition mread (Ls : list log) (q : lquery) : cell := aread (A_run Ls) (B_run Ls) (C_run Ls) q.

Theorem read_run : forall L d l q, run L = Some d -> read d l q = mread (ledger_logs l L) q.
Proof.
  intros L d l q H. destruct (run_refines L d H) as [W R]. destruct (R l) as [RA [RB RC]].
  rewrite (read_abs d l q W), RA, RB, RC. reflexivity.
Qed.

Theorem storage_isolation : forall L1 e L2 l d1 d2 q,
  l_ledger e <> l -> run (L1 ++ e :: L2) = Some d1 -> run (L1 ++ L2) = Some d2 -> read d1 l q = read d2 l q.
Proof.
  intros L1 e L2 l d1 d2 q Hne H1 H2.
  rewrite (read_run _ _ l q H1), (read_run _ _ l q H2). f_equal.
  unfold ledger_logs. rewrite !filter_app. cbn [filter].
  assert (N.eqb (l_ledger e) l = false) as -> by (apply N.eqb_neq; assumption). reflexivity.
Qed.
