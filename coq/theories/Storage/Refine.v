(* M4 — the concrete model of the schema projects onto the per-ledger machines of Storage/Abs.v.
   Part 1: list lemmas, the abstraction functions, the well-formedness invariant of the tables. *)
From Coq Require Import Lia Sorting.Sorted.
From FL Require Import Storage.Model Storage.Abs.
Local Open Scope Z_scope.

(* ---- lists --------------------------------------------------------------------------------------------------------- *)
Lemma filter_map_comm : forall {A B} (f : A -> B) (p : B -> bool) (l : list A),
  filter p (map f l) = map f (filter (fun x => p (f x)) l).
Proof. induction l as [|x r IH]; cbn; [reflexivity|]. destruct (p (f x)); cbn; rewrite IH; reflexivity. Qed.

Lemma filter_filter : forall {A} (p q : A -> bool) (l : list A),
  filter p (filter q l) = filter (fun x => q x && p x) l.
Proof.
  induction l as [|x r IH]; cbn; [reflexivity|].
  destruct (q x); cbn; [destruct (p x)|]; rewrite IH; reflexivity.
Qed.

Lemma filter_ext_in' : forall {A} (p q : A -> bool) (l : list A),
  (forall x, In x l -> p x = q x) -> filter p l = filter q l.
Proof.
  induction l as [|x r IH]; cbn; intros H; [reflexivity|].
  rewrite (H x (or_introl eq_refl)), IH; [reflexivity|]. intros; apply H; right; assumption.
Qed.

Lemma filter_none : forall {A} (p : A -> bool) (l : list A), (forall x, In x l -> p x = false) -> filter p l = [].
Proof.
  induction l as [|x r IH]; cbn; intros H; [reflexivity|].
  rewrite (H x (or_introl eq_refl)). apply IH. intros; apply H; right; assumption.
Qed.

Lemma map_ext_in' : forall {A B} (f g : A -> B) (l : list A), (forall x, In x l -> f x = g x) -> map f l = map g l.
Proof.
  induction l as [|x r IH]; cbn; intros H; [reflexivity|].
  rewrite (H x (or_introl eq_refl)), IH; [reflexivity|]. intros; apply H; right; assumption.
Qed.

Lemma map_id_in : forall {A} (f : A -> A) (l : list A), (forall x, In x l -> f x = x) -> map f l = l.
Proof. intros. rewrite <- (map_id l) at 2. apply map_ext_in'. assumption. Qed.

(* a row-wise UPDATE that does not touch what the filter looks at *)
Lemma filter_map_upd : forall {A} (p : A -> bool) (g : A -> A) (l : list A),
  (forall x, p (g x) = p x) -> filter p (map g l) = map g (filter p l).
Proof. intros. rewrite filter_map_comm. f_equal. apply filter_ext_in'. intros; apply H. Qed.

Lemma in_rev_hd : forall {A} (l : list A) (x : A) (r : list A), rev l = x :: r -> In x l.
Proof. intros A l x r H. apply in_rev. rewrite H. left; reflexivity. Qed.

Lemma existsb_filter_nil : forall {A} (p : A -> bool) (l : list A), existsb p l = false <-> filter p l = [].
Proof.
  induction l as [|x r IH]; cbn; [tauto|]. destruct (p x); cbn; [split; discriminate|]. exact IH.
Qed.

(* ---- pick_best ----------------------------------------------------------------------------------------------------- *)
Lemma pick_best_in : forall {A} (b : A -> A -> bool) (l : list A) (x : A), pick_best b l = Some x -> In x l.
Proof.
  induction l as [|y r IH]; cbn; intros x H; [discriminate|].
  destruct (pick_best b r) as [z|] eqn:E.
  - destruct (b y z); inversion H; subst; [left; reflexivity | right; apply IH; reflexivity].
  - inversion H; left; reflexivity.
Qed.

Lemma pick_best_none : forall {A} (b : A -> A -> bool) (l : list A), pick_best b l = None -> l = [].
Proof.
  destruct l as [|y r]; cbn; [reflexivity|]. destruct (pick_best b r) as [z|]; [destruct (b y z)|]; discriminate.
Qed.

(* when every row beats all the rows after it, ORDER BY ... LIMIT 1 is the head *)
Lemma pick_best_sorted : forall {A} (b : A -> A -> bool) (l : list A),
  StronglySorted (fun x y => b x y = true) l -> pick_best b l = hd_error l.
Proof.
  intros A b l H. destruct l as [|x r]; [reflexivity|]. cbn.
  apply StronglySorted_inv in H. destruct H as [_ H].
  destruct (pick_best b r) as [z|] eqn:E; [|reflexivity].
  apply pick_best_in in E. rewrite Forall_forall in H. rewrite (H z E). reflexivity.
Qed.

Lemma StronglySorted_filter : forall {A} (R : A -> A -> Prop) (p : A -> bool) (l : list A),
  StronglySorted R l -> StronglySorted R (filter p l).
Proof.
  induction l as [|x r IH]; cbn; intros H; [constructor|].
  apply StronglySorted_inv in H. destruct H as [Hr Hx].
  destruct (p x); [|apply IH; assumption].
  constructor; [apply IH; assumption|].
  rewrite Forall_forall in *. intros y Hy. apply filter_In in Hy. apply Hx. tauto.
Qed.

Lemma pick_best_map : forall {A B} (f : A -> B) (b : B -> B -> bool) (l : list A),
  pick_best b (map f l) = option_map f (pick_best (fun x y => b (f x) (f y)) l).
Proof.
  induction l as [|x r IH]; cbn; [reflexivity|]. rewrite IH.
  destruct (pick_best _ r) as [z|]; cbn; [destruct (b (f x) (f z))|]; reflexivity.
Qed.

(* two orderings that agree whenever the first argument stands before the second in the list *)
Lemma pick_best_ext_sorted : forall {A} (R : A -> A -> Prop) (b1 b2 : A -> A -> bool) (l : list A),
  StronglySorted R l -> (forall x y, R x y -> b1 x y = b2 x y) -> pick_best b1 l = pick_best b2 l.
Proof.
  induction l as [|x r IH]; intros HS Hb; [reflexivity|]. cbn.
  apply StronglySorted_inv in HS. destruct HS as [Hr Hx].
  rewrite <- (IH Hr Hb).
  destruct (pick_best b1 r) as [z|] eqn:E; [|reflexivity].
  apply pick_best_in in E. rewrite Forall_forall in Hx. rewrite (Hb x z (Hx z E)). reflexivity.
Qed.

Lemma hd_error_map : forall {A B} (f : A -> B) (l : list A), hd_error (map f l) = option_map f (hd_error l).
Proof. destruct l; reflexivity. Qed.

Lemma hd_error_match : forall {A B} (l : list A) (n : B) (c : A -> B),
  match l with [] => n | x :: _ => c x end = match hd_error l with None => n | Some x => c x end.
Proof. destruct l; reflexivity. Qed.

(* ---- abstraction functions ------------------------------------------------------------------------------------------- *)
Definition txid_of (txs : list tx_row) (seq : Z) : Z :=
  match filter (fun r => Z.eqb (x_seq r) seq) txs with r :: _ => x_id r | [] => 0 end.

Definition bmove_of (tid : Z -> Z) (m : move) : bmove :=
  {| b_addr := m_addr m; b_asset := m_asset m; b_amount := m_amount m; b_ins := m_ins m; b_eff := m_eff m;
     b_pcv := m_pcv m; b_pcev := m_pcev m; b_src := m_is_source m; b_txid := tid (m_tx_seq m) |}.

Definition is_l (l : N) (m : move) : bool := N.eqb (m_ledger m) l.

Definition abs_moves (l : N) (tid : Z -> Z) (ms : list move) : list bmove := map (bmove_of tid) (filter (is_l l) ms).
Definition abs_known (l : N) (accs : list acc_row) : list N :=
  map a_addr (filter (fun r => N.eqb (a_ledger r) l) accs).

Definition absA (l : N) (d : db) : stateA := (abs_known l (d_acc d), abs_moves l (txid_of (d_tx d)) (d_moves d)).

Definition brev_of (h : accm_row) : brev := (am_rev h, am_date h, am_meta h).
Definition bacc_of (hs : list accm_row) (r : acc_row) : bacc :=
  {| ba_addr := a_addr r; ba_ins := a_ins r; ba_upd := a_upd r; ba_meta := a_meta r;
     ba_hist := map brev_of (filter (fun h => Z.eqb (am_acc_seq h) (a_seq r)) hs) |}.
Definition absB (l : N) (d : db) : list bacc :=
  map (bacc_of (d_accm d)) (filter (fun r => N.eqb (a_ledger r) l) (d_acc d)).

Definition crev_of (h : txm_row) : crev := (xm_rev h, xm_date h, xm_meta h).
Definition btx_of (hs : list txm_row) (r : tx_row) : btx :=
  {| bx_id := x_id r; bx_ts := x_ts r; bx_ref := x_ref r; bx_reverted_at := x_reverted_at r;
     bx_updated_at := x_updated_at r; bx_postings := x_postings r; bx_meta := x_meta r;
     bx_hist := map crev_of (filter (fun h => Z.eqb (xm_tx_seq h) (x_seq r)) hs) |}.
Definition absC (l : N) (d : db) : list btx :=
  map (btx_of (d_txm d)) (filter (fun r => N.eqb (x_ledger r) l) (d_tx d)).

(* ---- well-formedness of the tables ------------------------------------------------------------------------------------ *)
Definition seq_desc (x y : move) : Prop := m_seq y < m_seq x.

Record WFacc (accs : list acc_row) (hs : list accm_row) (s : Z) : Prop := {
  wa_bound : forall r, In r accs -> a_seq r < s;
  wa_seq : NoDup (map a_seq accs);
  wa_key : NoDup (map (fun r => (a_ledger r, a_addr r)) accs);
  wa_hist : forall h, In h hs -> am_acc_seq h < s
}.

Record WFtx (txs : list tx_row) (hs : list txm_row) (s : Z) : Prop := {
  wt_bound : forall r, In r txs -> x_seq r < s;
  wt_seq : NoDup (map x_seq txs);
  wt_key : NoDup (map (fun r => (x_ledger r, x_id r)) txs);
  wt_hist : forall h, In h hs -> xm_tx_seq h < s
}.

(* a move refers to the account row of its own (ledger, address) *)
Definition move_acc_ok (accs : list acc_row) (m : move) : Prop :=
  exists r, In r accs /\ a_seq r = m_acc_seq m /\ a_ledger r = m_ledger m /\ a_addr r = m_addr m.

Record WFmoves (ms : list move) (s : Z) (accs : list acc_row) (stx : Z) : Prop := {
  wm_sorted : StronglySorted seq_desc ms;
  wm_bound : forall m, In m ms -> m_seq m < s;
  wm_acc : forall m, In m ms -> move_acc_ok accs m;
  wm_tx : forall m, In m ms -> m_tx_seq m < stx
}.

(* a move refers to a transaction row of its own ledger *)
Definition move_tx_ok (txs : list tx_row) (m : move) : Prop :=
  exists r, In r txs /\ x_seq r = m_tx_seq m /\ x_ledger r = m_ledger m.

Record WF (d : db) : Prop := {
  wf_acc : WFacc (d_acc d) (d_accm d) (s_acc d);
  wf_tx : WFtx (d_tx d) (d_txm d) (s_tx d);
  wf_moves : WFmoves (d_moves d) (s_moves d) (d_acc d) (s_tx d);
  wf_movetx : forall m, In m (d_moves d) -> move_tx_ok (d_tx d) m
}.

Lemma WF_empty : WF empty_db.
Proof.
  constructor; [constructor | constructor | constructor | ]; cbn; try (intros; contradiction); try constructor.
Qed.

(* ---- unique rows ------------------------------------------------------------------------------------------------------ *)
Lemma NoDup_map_inj : forall {A B} (f : A -> B) (l : list A) (x y : A),
  NoDup (map f l) -> In x l -> In y l -> f x = f y -> x = y.
Proof.
  induction l as [|z r IH]; cbn; intros x y H Hx Hy E; [contradiction|].
  inversion H as [|? ? Hn Hr]; subst.
  destruct Hx as [->|Hx], Hy as [->|Hy]; try reflexivity.
  - exfalso; apply Hn. rewrite E. apply in_map; assumption.
  - exfalso; apply Hn. rewrite <- E. apply in_map; assumption.
  - apply IH; assumption.
Qed.

Lemma find_account_spec : forall d l a r,
  find_account d l a = Some r -> In r (d_acc d) /\ a_ledger r = l /\ a_addr r = a.
Proof.
  unfold find_account. intros d l a r H.
  destruct (rev (filter (acc_is l a) (d_acc d))) as [|x t] eqn:E; [discriminate|]. inversion H; subst x.
  apply in_rev_hd in E. apply filter_In in E. destruct E as [Hin Hp].
  unfold acc_is in Hp. apply andb_prop in Hp. destruct Hp as [H1 H2].
  apply N.eqb_eq in H1, H2. auto.
Qed.

Lemma find_account_none : forall d l a,
  find_account d l a = None -> forall r, In r (d_acc d) -> acc_is l a r = false.
Proof.
  unfold find_account. intros d l a H r Hin.
  destruct (rev (filter (acc_is l a) (d_acc d))) as [|x t] eqn:E; [|discriminate].
  destruct (acc_is l a r) eqn:P; [|reflexivity].
  assert (In r (filter (acc_is l a) (d_acc d))) as Hf by (apply filter_In; auto).
  apply in_rev in Hf. rewrite E in Hf. contradiction.
Qed.

Lemma find_account_some_of_in : forall d l a r,
  NoDup (map (fun r => (a_ledger r, a_addr r)) (d_acc d)) ->
  In r (d_acc d) -> a_ledger r = l -> a_addr r = a -> find_account d l a = Some r.
Proof.
  intros d l a r Hnd Hin Hl Ha.
  destruct (find_account d l a) as [r'|] eqn:E.
  - apply find_account_spec in E. destruct E as [Hin' [Hl' Ha']].
    f_equal. apply (NoDup_map_inj (fun r => (a_ledger r, a_addr r)) (d_acc d)); auto. cbn. congruence.
  - pose proof (find_account_none _ _ _ E r Hin) as F. unfold acc_is in F. subst.
    rewrite !N.eqb_refl in F. discriminate.
Qed.

(* ---- Part 2: insert_move ------------------------------------------------------------------------------------------------ *)
Lemma abs_filter : forall l tid (p : move -> bool) (q : bmove -> bool) (ms : list move),
  (forall m, In m ms -> p m = is_l l m && q (bmove_of tid m)) ->
  map (bmove_of tid) (filter p ms) = filter q (abs_moves l tid ms).
Proof.
  intros l tid p q ms H. unfold abs_moves. rewrite filter_map_comm, filter_filter. f_equal.
  apply filter_ext_in'. exact H.
Qed.

Definition c_upd (is_source : bool) (amount : Z) (m : move) : move :=
  {| m_seq := m_seq m; m_ledger := m_ledger m; m_tx_seq := m_tx_seq m; m_acc_seq := m_acc_seq m;
     m_addr := m_addr m; m_asset := m_asset m; m_amount := m_amount m; m_ins := m_ins m;
     m_eff := m_eff m; m_pcv := m_pcv m;
     m_pcev := (oadd (fst (m_pcev m)) (Some (if is_source then 0 else amount)),
                oadd (snd (m_pcev m)) (Some (if is_source then amount else 0)));
     m_is_source := m_is_source m |}.

Definition c_same (aseq : Z) (asset : N) (m : move) : bool := Z.eqb (m_acc_seq m) aseq && N.eqb (m_asset m) asset.

(* the rows of moves after insert_move, given the account row *)
Definition im_vols (ms : list move) (aseq : Z) (eff : Z) (asset : N) (ex : option bool) : vol * vol :=
  match ex with
  | Some true =>
      match pick_best by_seq_desc (filter (c_same aseq asset) ms) with
      | None => (vol0, vol0)
      | Some last =>
          (m_pcv last,
           match pick_best by_eff_seq_desc (filter (fun m => c_same aseq asset m && Z.leb (m_eff m) eff) ms) with
           | Some e => m_pcev e
           | None => volnull
           end)
      end
  | _ => (vol0, vol0)
  end.

Definition im_new (d : db) (tx_seq : Z) (l : N) (ins eff : Z) (addr asset : N) (amount : Z) (is_source : bool)
           (ex : option bool) (aseq : Z) : move :=
  let v := im_vols (d_moves d) aseq eff asset ex in
  {| m_seq := s_moves d; m_ledger := l; m_tx_seq := tx_seq; m_acc_seq := aseq; m_addr := addr;
     m_asset := asset; m_amount := amount; m_ins := ins; m_eff := eff; m_pcv := bump (fst v) is_source amount;
     m_pcev := bump (snd v) is_source amount; m_is_source := is_source |}.

Definition im_rows (d : db) (new : move) (eff : Z) (asset : N) (amount : Z) (is_source : bool) (ex : option bool)
           (aseq : Z) : list move :=
  match ex with
  | Some true =>
      map (fun m => if c_same aseq asset m && Z.eqb (m_eff m) eff && Z.ltb (m_seq new) (m_seq m)
                    then c_upd is_source amount m else m)
          (map (fun m => if c_same aseq asset m && Z.ltb eff (m_eff m) then c_upd is_source amount m else m)
               (new :: d_moves d))
  | _ => new :: d_moves d
  end.

Lemma insert_move_eq : forall d tx_seq l ins eff addr asset amount is_source ex acc,
  find_account d l addr = Some acc ->
  insert_move d tx_seq l ins eff addr asset amount is_source ex =
  Some (set_moves d (im_rows d (im_new d tx_seq l ins eff addr asset amount is_source ex (a_seq acc)) eff asset amount
                             is_source ex (a_seq acc)) (s_moves d + 1)).
Proof.
  intros. unfold insert_move. rewrite H. cbn [option_map].
  unfold im_rows, im_new, im_vols, c_same, c_upd.
  destruct ex as [[|]|]; cbn [fst snd]; try reflexivity.
  destruct (pick_best by_seq_desc _) as [last|]; cbn [fst snd]; reflexivity.
Qed.

Lemma sorted_map_seq : forall (g : move -> move) (ms : list move),
  (forall m, m_seq (g m) = m_seq m) -> StronglySorted seq_desc ms -> StronglySorted seq_desc (map g ms).
Proof.
  intros g ms Hseq S. induction S as [|x r S IH Hx]; cbn; constructor; auto.
  rewrite Forall_forall in *. intros y Hy. apply in_map_iff in Hy. destruct Hy as [y0 [<- Hy0]].
  unfold seq_desc. rewrite !Hseq. apply Hx. assumption.
Qed.

Section InsertMove.
  Variables (d : db) (tx_seq : Z) (l : N) (ins eff : Z) (addr asset : N) (amount : Z) (is_source : bool)
            (ex : option bool) (acc : acc_row) (stx : Z) (tid : Z -> Z).
  Hypothesis Hwa : WFacc (d_acc d) (d_accm d) (s_acc d).
  Hypothesis Hwm : WFmoves (d_moves d) (s_moves d) (d_acc d) stx.
  Hypothesis Hacc : find_account d l addr = Some acc.
  Hypothesis Htx : tx_seq < stx.

  Local Notation aseq := (a_seq acc).
  Local Notation new := (im_new d tx_seq l ins eff addr asset amount is_source ex aseq).
  Local Notation rows := (im_rows d new eff asset amount is_source ex aseq).
  Local Notation bm := (bmove_of tid).

  Lemma im_acc_facts : In acc (d_acc d) /\ a_ledger acc = l /\ a_addr acc = addr.
  Proof. apply find_account_spec. exact Hacc. Qed.

  Lemma im_same_iff : forall m, move_acc_ok (d_acc d) m ->
    c_same aseq asset m = is_l l m && bkey addr asset (bm m).
  Proof.
    intros m [r [Hr [Hs [Hl Ha]]]].
    destruct im_acc_facts as [Hin [Hal Haa]].
    unfold c_same, is_l, bkey, bmove_of; cbn.
    destruct (Z.eqb (m_acc_seq m) aseq) eqn:E.
    - apply Z.eqb_eq in E. assert (r = acc) as ->.
      { apply (NoDup_map_inj a_seq (d_acc d)); auto. apply Hwa. congruence. }
      rewrite <- Hl, <- Ha, Hal, Haa, !N.eqb_refl. reflexivity.
    - destruct (N.eqb (m_ledger m) l) eqn:E1; [|reflexivity].
      destruct (N.eqb (m_addr m) addr) eqn:E2; [|reflexivity].
      apply N.eqb_eq in E1, E2. exfalso.
      assert (r = acc) as ->.
      { apply (NoDup_map_inj (fun r => (a_ledger r, a_addr r)) (d_acc d)); auto. apply Hwa. cbn. congruence. }
      apply Z.eqb_neq in E. apply E. congruence.
  Qed.

  Lemma im_new_ok : move_acc_ok (d_acc d) new.
  Proof. destruct im_acc_facts as [Hin [Hal Haa]]. exists acc. unfold im_new; cbn. auto. Qed.

  Lemma im_sorted_filter : forall p, StronglySorted (fun x y => by_seq_desc x y = true) (filter p (d_moves d)).
  Proof.
    intros p. apply StronglySorted_filter.
    pose proof (wm_sorted _ _ _ _ Hwm) as S. clear -S.
    induction S; constructor; auto.
    rewrite Forall_forall in *. intros y Hy. unfold by_seq_desc. apply Z.ltb_lt. apply H. assumption.
  Qed.

  (* the two lookups *)
  Lemma im_lookup_last :
    option_map bm (pick_best by_seq_desc (filter (c_same aseq asset) (d_moves d))) =
    hd_error (filter (bkey addr asset) (abs_moves l tid (d_moves d))).
  Proof.
    rewrite pick_best_sorted by apply im_sorted_filter.
    rewrite <- hd_error_map. f_equal. apply abs_filter.
    intros m Hm. apply im_same_iff. apply (wm_acc _ _ _ _ Hwm). assumption.
  Qed.

  Lemma im_lookup_eff :
    option_map bm (pick_best by_eff_seq_desc (filter (fun m => c_same aseq asset m && Z.leb (m_eff m) eff) (d_moves d))) =
    pick_best b_eff_better (filter (fun m => bkey addr asset m && Z.leb (b_eff m) eff) (abs_moves l tid (d_moves d))).
  Proof.
    rewrite <- (abs_filter l tid (fun m => c_same aseq asset m && Z.leb (m_eff m) eff)).
    2:{ intros m Hm. rewrite im_same_iff by (apply (wm_acc _ _ _ _ Hwm); assumption).
        cbn. rewrite andb_assoc. reflexivity. }
    rewrite pick_best_map. f_equal.
    apply (pick_best_ext_sorted seq_desc).
    - apply StronglySorted_filter. apply Hwm.
    - intros x y Hxy. unfold seq_desc in Hxy. unfold by_eff_seq_desc, b_eff_better, bmove_of; cbn.
      destruct (Z.ltb_spec (m_eff y) (m_eff x)), (Z.eqb_spec (m_eff y) (m_eff x)), (Z.leb_spec (m_eff y) (m_eff x));
        cbn; try lia; try reflexivity.
  Qed.

  Lemma im_vols_abs :
    im_vols (d_moves d) aseq eff asset ex =
    match ex with
    | Some true =>
        match filter (bkey addr asset) (abs_moves l tid (d_moves d)) with
        | [] => (vol0, vol0)
        | last :: _ =>
            (b_pcv last,
             match pick_best b_eff_better
                     (filter (fun m => bkey addr asset m && Z.leb (b_eff m) eff) (abs_moves l tid (d_moves d))) with
             | Some e => b_pcev e
             | None => volnull
             end)
        end
    | _ => (vol0, vol0)
    end.
  Proof.
    unfold im_vols. destruct ex as [[|]|]; try reflexivity.
    rewrite (hd_error_match (filter (bkey addr asset) _)). rewrite <- im_lookup_last, <- im_lookup_eff.
    destruct (pick_best by_seq_desc _) as [last|]; cbn; [|reflexivity].
    destruct (pick_best by_eff_seq_desc _) as [e|]; reflexivity.
  Qed.

  (* the second UPDATE (same effective date, larger seq) touches no row: the new row has the largest seq *)
  Lemma im_second_update_noop : forall ms,
    (forall m, In m ms -> m_seq m <= m_seq new) ->
    map (fun m => if c_same aseq asset m && Z.eqb (m_eff m) eff && Z.ltb (m_seq new) (m_seq m)
                  then c_upd is_source amount m else m) ms = ms.
  Proof.
    intros ms H. apply map_id_in. intros m Hm.
    assert (Z.ltb (m_seq new) (m_seq m) = false) as -> by (apply Z.ltb_ge; apply H; assumption).
    rewrite andb_false_r. reflexivity.
  Qed.

  Lemma im_rows_eq :
    rows = match ex with
           | Some true => map (fun m => if c_same aseq asset m && Z.ltb eff (m_eff m) then c_upd is_source amount m else m)
                              (new :: d_moves d)
           | _ => new :: d_moves d
           end.
  Proof.
    unfold im_rows. destruct ex as [[|]|]; try reflexivity.
    apply im_second_update_noop. intros m Hm. apply in_map_iff in Hm. destruct Hm as [m0 [E Hm0]].
    assert (m_seq m = m_seq m0) as -> by (subst m; destruct (_ && _); reflexivity).
    destruct Hm0 as [<-|Hm0]; [apply Z.le_refl|].
    pose proof (wm_bound _ _ _ _ Hwm m0 Hm0) as Hb. cbn [im_new m_seq]. lia.
  Qed.

  Lemma im_abs_same_ledger :
    abs_moves l tid rows =
    A_insert_move (abs_moves l tid (d_moves d)) (tid tx_seq) ins eff addr asset amount is_source
                  (match ex with Some true => true | _ => false end).
  Proof.
    rewrite im_rows_eq. unfold A_insert_move.
    assert (bm new = {| b_addr := addr; b_asset := asset; b_amount := amount; b_ins := ins; b_eff := eff;
                        b_pcv := bump (fst (im_vols (d_moves d) aseq eff asset ex)) is_source amount;
                        b_pcev := bump (snd (im_vols (d_moves d) aseq eff asset ex)) is_source amount;
                        b_src := is_source; b_txid := tid tx_seq |}) as Hnew by reflexivity.
    assert (is_l l new = true) as Hl by (unfold is_l, im_new; cbn; apply N.eqb_refl).
    rewrite im_vols_abs in Hnew.
    pose proof im_new_ok as Hnok.
    remember new as nw eqn:Enw. clear Enw.
    destruct ex as [[|]|].
    - (* account existed *)
      set (g := fun m => if c_same aseq asset m && Z.ltb eff (m_eff m) then c_upd is_source amount m else m).
      set (g' := fun m => if bkey addr asset m && Z.ltb eff (b_eff m) then b_upd is_source amount m else m).
      assert (Hg : forall m, move_acc_ok (d_acc d) m -> is_l l m = true -> bm (g m) = g' (bm m)).
      { intros m Hok Hml. unfold g, g'. rewrite (im_same_iff m Hok), Hml. cbn [andb].
        change (b_eff (bm m)) with (m_eff m). destruct (bkey addr asset (bm m) && Z.ltb eff (m_eff m)); reflexivity. }
      unfold abs_moves in *.
      rewrite filter_map_upd by (intros m; unfold g, is_l; destruct (_ && _); reflexivity).
      rewrite map_map.
      cbn [filter]. rewrite Hl. cbn [map].
      destruct (filter (bkey addr asset) (map bm (filter (is_l l) (d_moves d)))) as [|last t] eqn:EF;
        cbn [fst snd] in Hnew |- *.
      + rewrite (Hg nw Hnok Hl), Hnew. f_equal.
        rewrite map_map.
        apply map_ext_in'. intros m Hm. apply filter_In in Hm. destruct Hm as [Hm Hml].
        apply Hg; [apply (wm_acc _ _ _ _ Hwm); assumption | assumption].
      + rewrite (Hg nw Hnok Hl), Hnew. f_equal.
        rewrite map_map.
        apply map_ext_in'. intros m Hm. apply filter_In in Hm. destruct Hm as [Hm Hml].
        apply Hg; [apply (wm_acc _ _ _ _ Hwm); assumption | assumption].
    - unfold abs_moves. cbn [filter]. rewrite Hl. cbn [map]. rewrite Hnew. reflexivity.
    - unfold abs_moves. cbn [filter]. rewrite Hl. cbn [map]. rewrite Hnew. reflexivity.
  Qed.

  Lemma im_abs_other_ledger : forall l', l' <> l -> abs_moves l' tid rows = abs_moves l' tid (d_moves d).
  Proof.
    intros l' Hne. rewrite im_rows_eq. unfold abs_moves. f_equal.
    assert (is_l l' new = false) as Hl.
    { unfold is_l, im_new; cbn. apply N.eqb_neq. congruence. }
    destruct ex as [[|]|]; try (cbn [filter]; rewrite Hl; reflexivity).
    set (g := fun m => if c_same aseq asset m && Z.ltb eff (m_eff m) then c_upd is_source amount m else m).
    rewrite filter_map_upd by (intros m; unfold g, is_l; destruct (_ && _); reflexivity).
    cbn [filter]. rewrite Hl. apply map_id_in. intros m Hm. apply filter_In in Hm. destruct Hm as [Hm Hml].
    unfold g. rewrite im_same_iff by (apply (wm_acc _ _ _ _ Hwm); assumption).
    unfold is_l in *. apply N.eqb_eq in Hml. assert (N.eqb (m_ledger m) l = false) as -> by (apply N.eqb_neq; congruence).
    reflexivity.
  Qed.

  Lemma im_wf : WFmoves rows (s_moves d + 1) (d_acc d) stx.
  Proof.
    rewrite im_rows_eq.
    set (g := fun m => if c_same aseq asset m && Z.ltb eff (m_eff m) then c_upd is_source amount m else m).
    assert (Hbase : WFmoves (new :: d_moves d) (s_moves d + 1) (d_acc d) stx).
    { constructor.
      - constructor; [apply Hwm|]. apply Forall_forall. intros m Hm. unfold seq_desc, im_new; cbn.
        apply (wm_bound _ _ _ _ Hwm). assumption.
      - intros m [<-|Hm]; [unfold im_new; cbn; lia|]. pose proof (wm_bound _ _ _ _ Hwm m Hm). lia.
      - intros m [<-|Hm]; [apply im_new_ok | apply (wm_acc _ _ _ _ Hwm); assumption].
      - intros m [<-|Hm]; [unfold im_new; cbn; assumption | apply (wm_tx _ _ _ _ Hwm); assumption]. }
    assert (Hg : WFmoves (map g (new :: d_moves d)) (s_moves d + 1) (d_acc d) stx).
    { assert (Hseq : forall m, m_seq (g m) = m_seq m) by (intros m; unfold g; destruct (_ && _); reflexivity).
      constructor.
      - apply sorted_map_seq; [exact Hseq | apply Hbase].
      - intros m Hm. apply in_map_iff in Hm. destruct Hm as [m0 [<- Hm0]]. rewrite Hseq.
        apply (wm_bound _ _ _ _ Hbase). assumption.
      - intros m Hm. apply in_map_iff in Hm. destruct Hm as [m0 [<- Hm0]].
        destruct (wm_acc _ _ _ _ Hbase m0 Hm0) as [r Hr]. exists r. unfold g. destruct (_ && _); exact Hr.
      - intros m Hm. apply in_map_iff in Hm. destruct Hm as [m0 [<- Hm0]].
        pose proof (wm_tx _ _ _ _ Hbase m0 Hm0). unfold g. destruct (_ && _); assumption. }
    destruct ex as [[|]|]; assumption.
  Qed.

  Lemma im_rows_src : forall m, In m rows ->
    exists m0, (m0 = new \/ In m0 (d_moves d)) /\ m_tx_seq m = m_tx_seq m0 /\ m_ledger m = m_ledger m0.
  Proof.
    rewrite im_rows_eq. intros m Hm.
    destruct ex as [[|]|].
    - apply in_map_iff in Hm. destruct Hm as [m0 [<- Hm0]]. exists m0.
      split; [destruct Hm0; auto|]. destruct (_ && _); split; reflexivity.
    - exists m. split; [destruct Hm; auto|split; reflexivity].
    - exists m. split; [destruct Hm; auto|split; reflexivity].
  Qed.
End InsertMove.

(* ---- Part 3: accounts ---------------------------------------------------------------------------------------------------- *)
Definition is_la (l : N) (r : acc_row) : bool := N.eqb (a_ledger r) l.

Lemma B_find_abs : forall l d a,
  B_find (absB l d) a = option_map (bacc_of (d_accm d)) (find_account d l a).
Proof.
  intros. unfold B_find, absB, find_account.
  rewrite filter_map_comm, filter_filter, <- map_rev.
  replace (filter (fun x => N.eqb (a_ledger x) l && N.eqb (ba_addr (bacc_of (d_accm d) x)) a) (d_acc d))
    with (filter (acc_is l a) (d_acc d)) by (apply filter_ext_in'; reflexivity).
  destruct (rev (filter (acc_is l a) (d_acc d))); reflexivity.
Qed.

Lemma memN_known : forall l d a,
  memN a (abs_known l (d_acc d)) = match find_account d l a with Some _ => true | None => false end.
Proof.
  intros. unfold memN, abs_known.
  destruct (find_account d l a) as [r|] eqn:E.
  - apply find_account_spec in E. destruct E as [Hin [Hl Ha]].
    apply existsb_exists. exists (a_addr r). split; [|subst; apply N.eqb_refl].
    apply in_map. apply filter_In. split; [assumption|]. apply N.eqb_eq. assumption.
  - destruct (existsb _ _) eqn:X; [|reflexivity]. apply existsb_exists in X. destruct X as [x [Hx Hax]].
    apply in_map_iff in Hx. destruct Hx as [r [<- Hr]]. apply filter_In in Hr. destruct Hr as [Hin Hl].
    pose proof (find_account_none _ _ _ E r Hin) as F. unfold acc_is in F. rewrite Hl in F.
    rewrite N.eqb_sym in Hax. rewrite Hax in F. discriminate.
Qed.

(* "one account row is rewritten and one revision is appended": the shape of both UPDATE paths *)
Definition acc_rewrite (d : db) (old new : acc_row) (s : Z) : db :=
  trg_update_account (set_acc d (map (fun r => if Z.eqb (a_seq r) (a_seq old) then new else r) (d_acc d)) s) new.

Definition same_id (old new : acc_row) : Prop :=
  a_seq new = a_seq old /\ a_ledger new = a_ledger old /\ a_addr new = a_addr old /\ a_ins new = a_ins old.

Lemma accm_rev_map : forall hs,
  option_map brev_of (pick_best accm_rev_desc hs) = pick_best brev_desc (map brev_of hs).
Proof. intros. rewrite pick_best_map. reflexivity. Qed.

Section AccRewrite.
  Variables (d : db) (old new : acc_row) (s : Z).
  Hypothesis Hw : WFacc (d_acc d) (d_accm d) (s_acc d).
  Hypothesis Hin : In old (d_acc d).
  Hypothesis Hid : same_id old new.
  Hypothesis Hs : s_acc d <= s.

  Local Notation upd := (fun r => if Z.eqb (a_seq r) (a_seq old) then new else r).
  Local Notation d' := (acc_rewrite d old new s).

  Lemma ar_unfold :
    d_acc d' = map upd (d_acc d) /\ s_acc d' = s /\
    d_accm d' = {| am_seq := s_accm d; am_ledger := a_ledger new; am_acc_seq := a_seq new; am_meta := a_meta new;
                   am_rev := match pick_best accm_rev_desc (filter (fun r => Z.eqb (am_acc_seq r) (a_seq new)) (d_accm d)) with
                             | Some r => oadd (am_rev r) (Some 1) | None => None end;
                   am_date := a_upd new |} :: d_accm d /\
    d_moves d' = d_moves d /\ s_moves d' = s_moves d /\ d_tx d' = d_tx d /\ d_txm d' = d_txm d /\ s_tx d' = s_tx d /\
    s_txm d' = s_txm d /\ d_logs d' = d_logs d /\ s_logs d' = s_logs d.
  Proof. cbn. repeat split; reflexivity. Qed.

  Lemma ar_upd_id : forall r, In r (d_acc d) ->
    a_seq (upd r) = a_seq r /\ a_ledger (upd r) = a_ledger r /\ a_addr (upd r) = a_addr r.
  Proof.
    intros r Hr. destruct Hid as [H1 [H2 [H3 H4]]].
    destruct (Z.eqb_spec (a_seq r) (a_seq old)) as [E|E]; [|auto].
    assert (r = old) as -> by (apply (NoDup_map_inj a_seq (d_acc d)); auto; apply Hw). auto.
  Qed.

  Lemma ar_wf : WFacc (d_acc d') (d_accm d') (s_acc d').
  Proof.
    destruct ar_unfold as [E1 [E2 [E3 _]]]. rewrite E1, E2, E3. clear E1 E2 E3.
    assert (Hseq : map a_seq (map upd (d_acc d)) = map a_seq (d_acc d)).
    { rewrite map_map. apply map_ext_in'. intros r Hr. apply ar_upd_id. assumption. }
    assert (Hkey : map (fun r => (a_ledger r, a_addr r)) (map upd (d_acc d)) = map (fun r => (a_ledger r, a_addr r)) (d_acc d)).
    { rewrite map_map. apply map_ext_in'. intros r Hr. destruct (ar_upd_id r Hr) as [_ [-> ->]]. reflexivity. }
    constructor.
    - intros r Hr. apply in_map_iff in Hr. destruct Hr as [r0 [<- Hr0]].
      destruct (ar_upd_id r0 Hr0) as [-> _]. pose proof (wa_bound _ _ _ Hw r0 Hr0). lia.
    - rewrite Hseq. apply Hw.
    - rewrite Hkey. apply Hw.
    - intros h [<-|Hh]; cbn.
      + destruct Hid as [-> _]. pose proof (wa_bound _ _ _ Hw old Hin). lia.
      + pose proof (wa_hist _ _ _ Hw h Hh). lia.
  Qed.

  Lemma ar_known : forall l, abs_known l (d_acc d') = abs_known l (d_acc d).
  Proof.
    intros l. destruct ar_unfold as [E1 _]. rewrite E1. unfold abs_known.
    rewrite filter_map_comm, map_map.
    replace (filter (fun x => N.eqb (a_ledger (upd x)) l) (d_acc d)) with (filter (fun r => N.eqb (a_ledger r) l) (d_acc d)).
    2:{ apply filter_ext_in'. intros r Hr. destruct (ar_upd_id r Hr) as [_ [-> _]]. reflexivity. }
    apply map_ext_in'. intros r Hr. apply filter_In in Hr. destruct Hr as [Hr _].
    destruct (ar_upd_id r Hr) as [_ [_ ->]]. reflexivity.
  Qed.

  Lemma ar_move_acc : forall m, move_acc_ok (d_acc d) m -> move_acc_ok (d_acc d') m.
  Proof.
    intros m [r [Hr [H1 [H2 H3]]]]. destruct ar_unfold as [E1 _]. rewrite E1.
    exists (upd r). split; [apply in_map_iff; exists r; split; [reflexivity|assumption]|].
    destruct (ar_upd_id r Hr) as [-> [-> ->]]. auto.
  Qed.

  Lemma ar_find : forall l a, (find_account d' l a = None <-> find_account d l a = None).
  Proof.
    intros l a.
    pose proof (memN_known l d' a) as M1. pose proof (memN_known l d a) as M2. rewrite ar_known in M1.
    destruct (find_account d' l a), (find_account d l a); split; intros; try reflexivity; try discriminate; congruence.
  Qed.

  (* the revision row hangs on [old]'s history only *)
  Lemma ar_absB_same : forall l, a_ledger old = l ->
    absB l d' =
    map (fun r => if N.eqb (ba_addr r) (a_addr old) then
                    {| ba_addr := a_addr new; ba_ins := a_ins new; ba_upd := a_upd new; ba_meta := a_meta new;
                       ba_hist := (B_next_rev (ba_hist r), a_upd new, a_meta new) :: ba_hist r |}
                  else r) (absB l d).
  Proof.
    intros l Hl. unfold absB. destruct ar_unfold as [E1 [_ [E3 _]]]. rewrite E1, E3. clear E1 E3.
    rewrite filter_map_comm, !map_map.
    replace (filter (fun x => N.eqb (a_ledger (upd x)) l) (d_acc d)) with (filter (fun r => N.eqb (a_ledger r) l) (d_acc d)).
    2:{ apply filter_ext_in'. intros r Hr. destruct (ar_upd_id r Hr) as [_ [-> _]]. reflexivity. }
    apply map_ext_in'. intros r Hr. apply filter_In in Hr. destruct Hr as [Hr Hrl]. apply N.eqb_eq in Hrl.
    destruct Hid as [I1 [I2 [I3 I4]]].
    destruct (Z.eqb_spec (a_seq r) (a_seq old)) as [E|E].
    - assert (r = old) as -> by (apply (NoDup_map_inj a_seq (d_acc d)); auto; apply Hw).
      cbn [bacc_of ba_addr]. rewrite N.eqb_refl. unfold bacc_of at 1. cbn [filter am_acc_seq].
      rewrite I1, Z.eqb_refl. cbn [map]. f_equal.
      f_equal. unfold brev_of at 1. cbn [am_rev am_date am_meta]. f_equal. f_equal.
      unfold B_next_rev. unfold bacc_of at 1. cbn [ba_hist]. rewrite <- accm_rev_map.
      destruct (pick_best accm_rev_desc _); reflexivity.
    - assert (N.eqb (ba_addr (bacc_of (d_accm d) r)) (a_addr old) = false) as ->.
      { cbn. apply N.eqb_neq. intros Ha. apply E. f_equal.
        apply (NoDup_map_inj (fun r => (a_ledger r, a_addr r)) (d_acc d)); auto. apply Hw. cbn. congruence. }
      unfold bacc_of. f_equal. cbn [filter am_acc_seq]. rewrite I1.
      assert (Z.eqb (a_seq old) (a_seq r) = false) as -> by (apply Z.eqb_neq; congruence). reflexivity.
  Qed.

  Lemma ar_absB_other : forall l, a_ledger old <> l -> absB l d' = absB l d.
  Proof.
    intros l Hl. unfold absB. destruct ar_unfold as [E1 [_ [E3 _]]]. rewrite E1, E3. clear E1 E3.
    rewrite filter_map_comm, !map_map.
    replace (filter (fun x => N.eqb (a_ledger (upd x)) l) (d_acc d)) with (filter (fun r => N.eqb (a_ledger r) l) (d_acc d)).
    2:{ apply filter_ext_in'. intros r Hr. destruct (ar_upd_id r Hr) as [_ [-> _]]. reflexivity. }
    apply map_ext_in'. intros r Hr. apply filter_In in Hr. destruct Hr as [Hr Hrl]. apply N.eqb_eq in Hrl.
    destruct Hid as [I1 [I2 [I3 I4]]].
    destruct (Z.eqb_spec (a_seq r) (a_seq old)) as [E|E].
    - assert (r = old) as -> by (apply (NoDup_map_inj a_seq (d_acc d)); auto; apply Hw). congruence.
    - unfold bacc_of. f_equal. cbn [filter am_acc_seq]. rewrite I1.
      assert (Z.eqb (a_seq old) (a_seq r) = false) as -> by (apply Z.eqb_neq; congruence). reflexivity.
  Qed.
End AccRewrite.

Definition frame_acc (d d' : db) : Prop :=
  d_moves d' = d_moves d /\ s_moves d' = s_moves d /\ d_tx d' = d_tx d /\ d_txm d' = d_txm d /\ s_tx d' = s_tx d /\
  s_txm d' = s_txm d /\ d_logs d' = d_logs d /\ s_logs d' = s_logs d.

Lemma frame_acc_refl : forall d, frame_acc d d.
Proof. intros; repeat split. Qed.

Lemma frame_acc_trans : forall d1 d2 d3, frame_acc d1 d2 -> frame_acc d2 d3 -> frame_acc d1 d3.
Proof. unfold frame_acc. intros d1 d2 d3 H1 H2. intuition congruence. Qed.

Definition bump_acc (d : db) : db := set_acc d (d_acc d) (s_acc d + 1).

(* everything the later lemmas need to know about one account operation *)
Record acc_step (l : N) (d d' : db) (known' : list N -> list N) (accs' : list bacc -> list bacc) : Prop := {
  as_wf : WFacc (d_acc d') (d_accm d') (s_acc d');
  as_frame : frame_acc d d';
  as_moves : forall m, move_acc_ok (d_acc d) m -> move_acc_ok (d_acc d') m;
  as_known : abs_known l (d_acc d') = known' (abs_known l (d_acc d));
  as_known_other : forall l', l' <> l -> abs_known l' (d_acc d') = abs_known l' (d_acc d);
  as_B : absB l d' = accs' (absB l d);
  as_B_other : forall l', l' <> l -> absB l' d' = absB l' d;
  as_mono : forall l' a', find_account d l' a' <> None -> find_account d' l' a' <> None
}.

Lemma known_add_present : forall a k, memN a k = true -> A_known_add a k = k.
Proof. intros. unfold A_known_add. rewrite H. reflexivity. Qed.

Lemma upsert_account_step : forall d l a m date,
  WFacc (d_acc d) (d_accm d) (s_acc d) ->
  acc_step l d (upsert_account d l a m date) (A_known_add a) (fun accs => B_upsert accs a m date) /\
  find_account (upsert_account d l a m date) l a <> None.
Proof.
  intros d l a m date Hw. unfold upsert_account.
  set (m' := match m with Some x => x | None => [] end).
  destruct (find_account d l a) as [old|] eqn:EF.
  - (* conflict: the row exists *)
    destruct (find_account_spec _ _ _ _ EF) as [Hin [Hl Ha]].
    assert (Hw1 : WFacc (d_acc (bump_acc d)) (d_accm (bump_acc d)) (s_acc (bump_acc d))).
    { constructor; cbn; try apply Hw.
      - intros r Hr. pose proof (wa_bound _ _ _ Hw r Hr). lia.
      - intros h Hh. pose proof (wa_hist _ _ _ Hw h Hh). lia. }
    assert (Hmem : memN a (abs_known l (d_acc d)) = true) by (rewrite memN_known, EF; reflexivity).
    fold (bump_acc d).
    destruct (negb (meta_contains (a_meta old) m')) eqn:EC.
    + set (new := {| a_seq := a_seq old; a_ledger := a_ledger old; a_addr := a_addr old; a_ins := a_ins old;
                     a_upd := date; a_meta := meta_merge (a_meta old) m' |}).
      change (trg_update_account _ new) with (acc_rewrite (bump_acc d) old new (s_acc (bump_acc d))).
      assert (Hid : same_id old new) by (repeat split).
      assert (Hs : s_acc (bump_acc d) <= s_acc (bump_acc d)) by lia.
      assert (Hin1 : In old (d_acc (bump_acc d))) by exact Hin.
      split.
      * constructor.
        -- apply ar_wf; assumption.
        -- repeat split.
        -- intros mv Hmv. apply (ar_move_acc (bump_acc d) old new _ Hw1 Hin1 Hid). exact Hmv.
        -- rewrite (ar_known (bump_acc d) old new _ Hw1 Hin1 Hid). cbn. rewrite known_add_present; auto.
        -- intros l' _. apply (ar_known (bump_acc d) old new _ Hw1 Hin1 Hid).
        -- rewrite (ar_absB_same (bump_acc d) old new _ Hw1 Hin1 Hid l Hl).
           unfold B_upsert. fold m'. rewrite B_find_abs, EF. cbn [option_map].
           change (ba_meta (bacc_of (d_accm d) old)) with (a_meta old). rewrite EC.
           change (absB l (bump_acc d)) with (absB l d). rewrite Ha. reflexivity.
        -- intros l' Hl'. apply (ar_absB_other (bump_acc d) old new _ Hw1 Hin1 Hid). congruence.
        -- intros l' a' Hf C. apply (ar_find (bump_acc d) old new _ Hw1 Hin1 Hid) in C. apply Hf. exact C.
      * intros C. apply (ar_find (bump_acc d) old new _ Hw1 Hin1 Hid) in C.
        change (find_account (bump_acc d) l a) with (find_account d l a) in C. congruence.
    + split.
      * constructor; try assumption; try (repeat split; fail); try reflexivity; auto.
        -- cbn. rewrite known_add_present; auto.
        -- change (absB l (bump_acc d)) with (absB l d). unfold B_upsert. fold m'.
           rewrite B_find_abs, EF. cbn [option_map]. change (ba_meta (bacc_of (d_accm d) old)) with (a_meta old).
           rewrite EC. reflexivity.
      * change (find_account (bump_acc d) l a) with (find_account d l a). congruence.
  - (* a new row, then the AFTER INSERT trigger *)
    set (new := {| a_seq := s_acc d; a_ledger := l; a_addr := a; a_ins := date; a_upd := date; a_meta := m' |}).
    assert (Hnone : forall r, In r (d_acc d) -> acc_is l a r = false) by (apply find_account_none; assumption).
    assert (Hmem : memN a (abs_known l (d_acc d)) = false) by (rewrite memN_known, EF; reflexivity).
    assert (Hfn : forall l' a', find_account (trg_insert_account (set_acc d (new :: d_acc d) (s_acc d + 1)) new) l' a' =
                   match find_account d l' a' with Some r => Some r | None => if acc_is l' a' new then Some new else None end).
    { intros l' a'. unfold find_account. cbn [trg_insert_account insert_accm set_accm set_acc d_acc filter].
      destruct (acc_is l' a' new); cbn [rev]; destruct (rev (filter (acc_is l' a') (d_acc d))); reflexivity. }
    split.
    + constructor.
      * constructor; cbn.
        -- intros r [<-|Hr]; cbn; [lia|]. pose proof (wa_bound _ _ _ Hw r Hr). lia.
        -- constructor; [|apply Hw]. intros C. apply in_map_iff in C. destruct C as [r [E Hr]].
           pose proof (wa_bound _ _ _ Hw r Hr). lia.
        -- constructor; [|apply Hw]. intros C. apply in_map_iff in C. destruct C as [r [E Hr]].
           pose proof (Hnone r Hr) as F. unfold acc_is in F. inversion E as [[E1 E2]]. rewrite E1, E2, !N.eqb_refl in F.
           discriminate.
        -- intros h [<-|Hh]; cbn; [lia|]. pose proof (wa_hist _ _ _ Hw h Hh). lia.
      * repeat split.
      * intros mv [r [Hr Hrest]]. exists r. split; [right; exact Hr | exact Hrest].
      * cbn. unfold abs_known. cbn [filter a_ledger]. rewrite N.eqb_refl. cbn [map a_addr].
        unfold A_known_add. fold (abs_known l (d_acc d)). rewrite Hmem. reflexivity.
      * intros l' Hl'. cbn. unfold abs_known. cbn [filter a_ledger].
        assert (N.eqb l l' = false) as -> by (apply N.eqb_neq; congruence). reflexivity.
      * unfold B_upsert. fold m'. rewrite B_find_abs, EF. cbn [option_map].
        unfold absB, new. cbn [trg_insert_account insert_accm set_accm set_acc d_acc d_accm filter a_ledger].
        rewrite N.eqb_refl. cbn [map]. f_equal.
        -- unfold bacc_of. cbn [a_addr a_ins a_upd a_meta a_seq filter am_acc_seq]. rewrite Z.eqb_refl.
           rewrite filter_none; [reflexivity|]. intros h Hh. apply Z.eqb_neq.
           pose proof (wa_hist _ _ _ Hw h Hh). lia.
        -- apply map_ext_in'. intros r Hr. apply filter_In in Hr. destruct Hr as [Hr _].
           unfold bacc_of. f_equal. cbn [filter am_acc_seq a_seq].
           assert (Z.eqb (s_acc d) (a_seq r) = false) as ->; [|reflexivity].
           apply Z.eqb_neq. pose proof (wa_bound _ _ _ Hw r Hr). lia.
      * intros l' Hl'. unfold absB, new.
        cbn [trg_insert_account insert_accm set_accm set_acc d_acc d_accm filter a_ledger].
        assert (N.eqb l l' = false) as -> by (apply N.eqb_neq; congruence).
        apply map_ext_in'. intros r Hr. apply filter_In in Hr. destruct Hr as [Hr _].
        unfold bacc_of. f_equal. cbn [filter am_acc_seq a_seq].
        assert (Z.eqb (s_acc d) (a_seq r) = false) as ->; [|reflexivity].
        apply Z.eqb_neq. pose proof (wa_bound _ _ _ Hw r Hr). lia.
      * intros l' a' Hf. rewrite Hfn. destruct (find_account d l' a'); [discriminate|contradiction].
    + rewrite Hfn, EF. unfold acc_is, new; cbn. rewrite !N.eqb_refl. discriminate.
Qed.

Lemma filter_unique : forall {A} (p : A -> bool) (l : list A) (x : A),
  In x l -> p x = true -> (forall y, In y l -> p y = true -> y = x) -> NoDup l -> filter p l = [x].
Proof.
  induction l as [|z r IH]; intros x Hin Hp Hu Hnd; [contradiction|].
  inversion Hnd as [|? ? Hn Hr]; subst. cbn.
  destruct Hin as [->|Hin].
  - rewrite Hp. f_equal. apply filter_none. intros y Hy. destruct (p y) eqn:E; [|reflexivity].
    exfalso. apply Hn. rewrite <- (Hu y (or_intror Hy) E). assumption.
  - destruct (p z) eqn:E.
    + exfalso. apply Hn. rewrite (Hu z (or_introl eq_refl) E). assumption.
    + apply IH; auto. intros y Hy. apply Hu. right; assumption.
Qed.

Lemma NoDup_of_map : forall {A B} (f : A -> B) (l : list A), NoDup (map f l) -> NoDup l.
Proof.
  induction l as [|x r IH]; cbn; intros H; constructor; inversion H; subst; auto.
  intros C. apply H2. apply in_map. assumption.
Qed.

Lemma filter_acc_is_unique : forall d l a old,
  NoDup (map (fun r => (a_ledger r, a_addr r)) (d_acc d)) ->
  In old (d_acc d) -> a_ledger old = l -> a_addr old = a -> filter (acc_is l a) (d_acc d) = [old].
Proof.
  intros d l a old Hnd Hin Hl Ha. apply filter_unique; auto.
  - unfold acc_is. subst. rewrite !N.eqb_refl. reflexivity.
  - intros y Hy Hp. unfold acc_is in Hp. apply andb_prop in Hp. destruct Hp as [H1 H2]. apply N.eqb_eq in H1, H2.
    apply (NoDup_map_inj (fun r => (a_ledger r, a_addr r)) (d_acc d)); auto. cbn. congruence.
  - apply (NoDup_of_map _ _ Hnd).
Qed.

Lemma delete_account_metadata_step : forall d l a k date,
  WFacc (d_acc d) (d_accm d) (s_acc d) ->
  acc_step l d (delete_account_metadata d l a k date) (fun kn => kn) (fun accs => B_delete accs a k date).
Proof.
  intros d l a k date Hw. unfold delete_account_metadata.
  set (f := fun r => {| a_seq := a_seq r; a_ledger := a_ledger r; a_addr := a_addr r; a_ins := a_ins r;
                        a_upd := date; a_meta := meta_del (a_meta r) k |}).
  unfold update_accounts.
  destruct (find_account d l a) as [old|] eqn:EF.
  - destruct (find_account_spec _ _ _ _ EF) as [Hin [Hl Ha]].
    rewrite (filter_acc_is_unique d l a old (wa_key _ _ _ Hw) Hin Hl Ha). cbn [rev app fold_left].
    replace (map (fun r => if acc_is l a r then f r else r) (d_acc d))
      with (map (fun r => if Z.eqb (a_seq r) (a_seq old) then f old else r) (d_acc d)).
    2:{ apply map_ext_in'. intros r Hr. unfold acc_is.
        destruct (Z.eqb_spec (a_seq r) (a_seq old)) as [E|E].
        - assert (r = old) as -> by (apply (NoDup_map_inj a_seq (d_acc d)); auto; apply Hw).
          rewrite Hl, Ha, !N.eqb_refl. reflexivity.
        - destruct (N.eqb_spec (a_ledger r) l) as [E1|E1]; [|reflexivity].
          destruct (N.eqb_spec (a_addr r) a) as [E2|E2]; [|reflexivity]. exfalso. apply E. f_equal.
          apply (NoDup_map_inj (fun r => (a_ledger r, a_addr r)) (d_acc d)); auto. apply Hw. cbn. congruence. }
    change (trg_update_account _ (f old)) with (acc_rewrite d old (f old) (s_acc d)).
    assert (Hid : same_id old (f old)) by (repeat split).
    assert (Hs : s_acc d <= s_acc d) by lia.
    constructor.
    + apply ar_wf; assumption.
    + repeat split.
    + intros mv Hmv. apply (ar_move_acc d old (f old) _ Hw Hin Hid). exact Hmv.
    + apply (ar_known d old (f old) _ Hw Hin Hid).
    + intros l' _. apply (ar_known d old (f old) _ Hw Hin Hid).
    + rewrite (ar_absB_same d old (f old) _ Hw Hin Hid l Hl). unfold B_delete.
      apply map_ext_in'. intros r Hr. unfold absB in Hr. apply in_map_iff in Hr. destruct Hr as [r0 [<- Hr0]].
      apply filter_In in Hr0. destruct Hr0 as [Hr0 Hr0l]. apply N.eqb_eq in Hr0l.
      cbn [bacc_of ba_addr]. rewrite Ha.
      destruct (N.eqb_spec (a_addr r0) a) as [E|E]; [|reflexivity].
      assert (r0 = old) as -> by (apply (NoDup_map_inj (fun r => (a_ledger r, a_addr r)) (d_acc d)); auto;
                                  [apply Hw | cbn; congruence]).
      reflexivity.
    + intros l' Hl'. apply (ar_absB_other d old (f old) _ Hw Hin Hid). congruence.
    + intros l' a' Hf C. apply (ar_find d old (f old) _ Hw Hin Hid) in C. apply Hf. exact C.
  - assert (Hnone : forall r, In r (d_acc d) -> acc_is l a r = false) by (apply find_account_none; assumption).
    rewrite (filter_none _ _ Hnone). cbn [rev fold_left].
    rewrite (map_id_in _ (d_acc d)) by (intros r Hr; rewrite (Hnone r Hr); reflexivity).
    constructor; cbn; try assumption; try (repeat split; fail); try reflexivity; auto.
    unfold B_delete. symmetry. apply map_id_in. intros r Hr. unfold absB in Hr.
    apply in_map_iff in Hr. destruct Hr as [r0 [<- Hr0]]. apply filter_In in Hr0. destruct Hr0 as [Hr0 Hr0l].
    pose proof (Hnone r0 Hr0) as F. unfold acc_is in F. rewrite Hr0l in F. cbn in F |- *. rewrite F. reflexivity.
Qed.

(* ---- Part 4: transactions ---------------------------------------------------------------------------------------------- *)
Definition frame_tx (d d' : db) : Prop :=
  d_moves d' = d_moves d /\ s_moves d' = s_moves d /\ d_acc d' = d_acc d /\ d_accm d' = d_accm d /\ s_acc d' = s_acc d /\
  s_accm d' = s_accm d /\ d_logs d' = d_logs d /\ s_logs d' = s_logs d.

Record tx_step (l : N) (d d' : db) (txs' : list btx -> list btx) : Prop := {
  ts_wf : WFtx (d_tx d') (d_txm d') (s_tx d');
  ts_frame : frame_tx d d';
  ts_stx : s_tx d <= s_tx d';
  ts_tid : forall seq, seq < s_tx d -> txid_of (d_tx d') seq = txid_of (d_tx d) seq;
  ts_rows : forall r, In r (d_tx d) -> exists r', In r' (d_tx d') /\ x_seq r' = x_seq r /\ x_ledger r' = x_ledger r;
  ts_C : absC l d' = txs' (absC l d);
  ts_C_other : forall l', l' <> l -> absC l' d' = absC l' d
}.

Lemma txm_rev_map : forall hs,
  option_map crev_of (pick_best txm_rev_desc hs) = pick_best crev_desc (map crev_of hs).
Proof. intros. rewrite pick_best_map. reflexivity. Qed.

Lemma filter_tx_is_unique : forall d l id old,
  NoDup (map (fun r => (x_ledger r, x_id r)) (d_tx d)) ->
  In old (d_tx d) -> x_ledger old = l -> x_id old = id -> filter (tx_is l id) (d_tx d) = [old].
Proof.
  intros d l id old Hnd Hin Hl Ha. apply filter_unique; auto.
  - unfold tx_is. subst. rewrite N.eqb_refl, Z.eqb_refl. reflexivity.
  - intros y Hy Hp. unfold tx_is in Hp. apply andb_prop in Hp. destruct Hp as [H1 H2].
    apply N.eqb_eq in H1. apply Z.eqb_eq in H2.
    apply (NoDup_map_inj (fun r => (x_ledger r, x_id r)) (d_tx d)); auto. cbn. congruence.
  - apply (NoDup_of_map _ _ Hnd).
Qed.

Lemma txid_of_map : forall (g : tx_row -> tx_row) txs seq,
  (forall r, x_seq (g r) = x_seq r /\ x_id (g r) = x_id r) -> txid_of (map g txs) seq = txid_of txs seq.
Proof.
  intros g txs seq H. unfold txid_of. rewrite filter_map_comm.
  replace (filter (fun x => Z.eqb (x_seq (g x)) seq) txs) with (filter (fun r => Z.eqb (x_seq r) seq) txs).
  2:{ apply filter_ext_in'. intros r _. destruct (H r) as [-> _]. reflexivity. }
  destruct (filter _ txs) as [|r t]; cbn; [reflexivity|]. apply H.
Qed.

Lemma update_transactions_step : forall d l id fa fu fm g d',
  WFtx (d_tx d) (d_txm d) (s_tx d) ->
  (forall hs r, g (btx_of hs r) = (fa r, fu r, fm r)) ->
  update_transactions d l id (fun r => tx_with r (fa r) (fu r) (fm r)) = Some d' ->
  tx_step l d d' (fun txs => C_update txs id g).
Proof.
  intros d l id fa fu fm g d' Hw Hg.
  set (f := fun r => tx_with r (fa r) (fu r) (fm r)). unfold update_transactions.
  destruct (filter (tx_is l id) (d_tx d)) as [|old t] eqn:EF.
  - (* no such transaction: nothing happens *)
    cbn [rev fold_opt]. intros E. inversion E; subst d'; clear E.
    assert (Hnone : forall r, In r (d_tx d) -> tx_is l id r = false).
    { intros r Hr. destruct (tx_is l id r) eqn:P; [|reflexivity].
      assert (In r (filter (tx_is l id) (d_tx d))) as C by (apply filter_In; auto). rewrite EF in C. contradiction. }
    rewrite (map_id_in _ (d_tx d)) by (intros r Hr; rewrite (Hnone r Hr); reflexivity).
    constructor; cbn; try assumption; try (repeat split; fail); try reflexivity; try lia.
    + intros r Hr. exists r. auto.
    + unfold C_update. symmetry. apply map_id_in. intros r Hr. unfold absC in Hr.
      apply in_map_iff in Hr. destruct Hr as [r0 [<- Hr0]]. apply filter_In in Hr0. destruct Hr0 as [Hr0 Hr0l].
      pose proof (Hnone r0 Hr0) as F. unfold tx_is in F. rewrite Hr0l in F. cbn in F |- *. rewrite F. reflexivity.
  - assert (Hino : In old (filter (tx_is l id) (d_tx d))) by (rewrite EF; left; reflexivity).
    apply filter_In in Hino. destruct Hino as [Hin Hp]. unfold tx_is in Hp. apply andb_prop in Hp.
    destruct Hp as [Hl Hid]. apply N.eqb_eq in Hl. apply Z.eqb_eq in Hid.
    rewrite (filter_tx_is_unique d l id old (wt_key _ _ _ Hw) Hin Hl Hid) in EF. inversion EF; subst t. clear EF.
    cbn [rev app fold_opt].
    replace (map (fun r => if tx_is l id r then f r else r) (d_tx d))
      with (map (fun r => if Z.eqb (x_seq r) (x_seq old) then f old else r) (d_tx d)).
    2:{ apply map_ext_in'. intros r Hr. unfold tx_is.
        destruct (Z.eqb_spec (x_seq r) (x_seq old)) as [E|E].
        - assert (r = old) as -> by (apply (NoDup_map_inj x_seq (d_tx d)); auto; apply Hw).
          rewrite Hl, Hid, N.eqb_refl, Z.eqb_refl. reflexivity.
        - destruct (N.eqb_spec (x_ledger r) l) as [E1|E1]; [|reflexivity].
          destruct (Z.eqb_spec (x_id r) id) as [E2|E2]; [|reflexivity]. exfalso. apply E. f_equal.
          apply (NoDup_map_inj (fun r => (x_ledger r, x_id r)) (d_tx d)); auto. apply Hw. cbn. congruence. }
    set (upd := fun r => if Z.eqb (x_seq r) (x_seq old) then f old else r).
    unfold trg_update_transaction. cbn [d_txm set_tx x_seq f tx_with x_updated_at x_ledger x_meta].
    destruct (pick_best txm_rev_desc (filter (fun r => Z.eqb (xm_tx_seq r) (x_seq old)) (d_txm d))) as [top|] eqn:EP.
    2:{ destruct (fu old); cbn; discriminate. }
    destruct (fu old) as [u|] eqn:EU; [|discriminate].
    cbn [insert_txm]. intros E. inversion E; subst d'; clear E.
    assert (Hupd : forall r, In r (d_tx d) ->
              x_seq (upd r) = x_seq r /\ x_ledger (upd r) = x_ledger r /\ x_id (upd r) = x_id r).
    { intros r Hr. unfold upd. destruct (Z.eqb_spec (x_seq r) (x_seq old)) as [E|E]; [|auto].
      assert (r = old) as -> by (apply (NoDup_map_inj x_seq (d_tx d)); auto; apply Hw). cbn. auto. }
    assert (Hfl : forall l', filter (fun x => N.eqb (x_ledger (upd x)) l') (d_tx d) =
                             filter (fun r => N.eqb (x_ledger r) l') (d_tx d)).
    { intros l'. apply filter_ext_in'. intros r Hr. destruct (Hupd r Hr) as [_ [-> _]]. reflexivity. }
    constructor; cbn [d_tx d_txm s_tx set_txm set_tx].
    + constructor.
      * intros r Hr. apply in_map_iff in Hr. destruct Hr as [r0 [<- Hr0]].
        destruct (Hupd r0 Hr0) as [-> _]. apply Hw. assumption.
      * rewrite map_map. rewrite (map_ext_in' _ x_seq); [apply Hw|]. intros r Hr. apply Hupd. assumption.
      * rewrite map_map. rewrite (map_ext_in' _ (fun r => (x_ledger r, x_id r))); [apply Hw|].
        intros r Hr. destruct (Hupd r Hr) as [_ [-> ->]]. reflexivity.
      * intros h [<-|Hh]; cbn; [apply Hw; assumption | apply Hw; assumption].
    + repeat split.
    + lia.
    + intros seq _. unfold txid_of. rewrite filter_map_comm.
      replace (filter (fun x => Z.eqb (x_seq (upd x)) seq) (d_tx d)) with (filter (fun r => Z.eqb (x_seq r) seq) (d_tx d)).
      2:{ apply filter_ext_in'. intros r Hr. destruct (Hupd r Hr) as [-> _]. reflexivity. }
      destruct (filter (fun r => Z.eqb (x_seq r) seq) (d_tx d)) as [|r t] eqn:EQ; cbn; [reflexivity|].
      assert (In r (d_tx d)) as Hr. { assert (In r (filter (fun r => Z.eqb (x_seq r) seq) (d_tx d))) as X by (rewrite EQ; left; reflexivity). apply filter_In in X. tauto. }
      apply Hupd. assumption.
    + intros r Hr. exists (upd r). split; [apply in_map_iff; exists r; auto|]. destruct (Hupd r Hr) as [-> [-> _]]. auto.
    + unfold absC, C_update. cbn [d_tx d_txm set_txm set_tx]. rewrite filter_map_comm, Hfl, !map_map.
      apply map_ext_in'. intros r Hr. apply filter_In in Hr. destruct Hr as [Hr Hrl]. apply N.eqb_eq in Hrl.
      unfold upd. destruct (Z.eqb_spec (x_seq r) (x_seq old)) as [E|E].
      * assert (r = old) as -> by (apply (NoDup_map_inj x_seq (d_tx d)); auto; apply Hw).
        cbn [btx_of bx_id]. rewrite Hid, Z.eqb_refl. rewrite Hg, EU.
        unfold btx_of, f, tx_with.
        cbn [x_id x_ts x_ref x_reverted_at x_updated_at x_postings x_meta x_seq filter xm_tx_seq
             bx_ts bx_ref bx_postings bx_hist].
        rewrite Z.eqb_refl. cbn [map]. unfold crev_of at 1. cbn [xm_rev xm_date xm_meta].
        rewrite EU. f_equal; [congruence|]. f_equal. f_equal. f_equal.
        unfold C_next_rev. rewrite <- txm_rev_map, EP. reflexivity.
      * assert (Z.eqb (bx_id (btx_of (d_txm d) r)) id = false) as ->.
        { cbn. apply Z.eqb_neq. intros Ha. apply E. f_equal.
          apply (NoDup_map_inj (fun r => (x_ledger r, x_id r)) (d_tx d)); auto. apply Hw. cbn. congruence. }
        unfold btx_of. f_equal. cbn [filter xm_tx_seq f tx_with x_seq].
        assert (Z.eqb (x_seq old) (x_seq r) = false) as -> by (apply Z.eqb_neq; congruence). reflexivity.
    + intros l' Hl'. unfold absC. cbn [d_tx d_txm set_txm set_tx]. rewrite filter_map_comm, Hfl, !map_map.
      apply map_ext_in'. intros r Hr. apply filter_In in Hr. destruct Hr as [Hr Hrl]. apply N.eqb_eq in Hrl.
      unfold upd. destruct (Z.eqb_spec (x_seq r) (x_seq old)) as [E|E].
      * assert (r = old) as -> by (apply (NoDup_map_inj x_seq (d_tx d)); auto; apply Hw). congruence.
      * unfold btx_of. f_equal. cbn [filter xm_tx_seq f tx_with x_seq].
        assert (Z.eqb (x_seq old) (x_seq r) = false) as -> by (apply Z.eqb_neq; congruence). reflexivity.
Qed.

(* ---- Part 5: insert_posting ------------------------------------------------------------------------------------------- *)
Definition frame_post (d d' : db) : Prop :=
  d_tx d' = d_tx d /\ d_txm d' = d_txm d /\ s_tx d' = s_tx d /\ s_txm d' = s_txm d /\ d_logs d' = d_logs d /\
  s_logs d' = s_logs d.

Lemma frame_post_refl : forall d, frame_post d d.
Proof. intros; repeat split. Qed.
Lemma frame_post_trans : forall a b c, frame_post a b -> frame_post b c -> frame_post a c.
Proof. unfold frame_post. intros a b c H1 H2. intuition congruence. Qed.

Lemma find_account_ext : forall d d' l a, d_acc d' = d_acc d -> find_account d' l a = find_account d l a.
Proof. intros. unfold find_account. rewrite H. reflexivity. Qed.

Lemma absB_ext : forall d d' l, d_acc d' = d_acc d -> d_accm d' = d_accm d -> absB l d' = absB l d.
Proof. intros. unfold absB. rewrite H, H0. reflexivity. Qed.

Record WFam (d : db) (stx : Z) : Prop := {
  wam_acc : WFacc (d_acc d) (d_accm d) (s_acc d);
  wam_moves : WFmoves (d_moves d) (s_moves d) (d_acc d) stx;
  wam_tx : forall m, In m (d_moves d) -> move_tx_ok (d_tx d) m
}.

Lemma WFmoves_accs : forall ms s accs accs' stx,
  WFmoves ms s accs stx -> (forall m, move_acc_ok accs m -> move_acc_ok accs' m) -> WFmoves ms s accs' stx.
Proof. intros ms s accs accs' stx H Hm. destruct H. constructor; auto. Qed.

(* the per-ledger picture of the accounts+moves part of a database *)
Definition viewA (l : N) (tid : Z -> Z) (d : db) : stateA := (abs_known l (d_acc d), abs_moves l tid (d_moves d)).

Lemma insert_posting_step : forall d tx_seq l ins eff am p stx tid,
  WFam d stx -> tx_seq < stx ->
  (exists r, In r (d_tx d) /\ x_seq r = tx_seq /\ x_ledger r = l) ->
  exists d', insert_posting d tx_seq l ins eff am p = Some d' /\ WFam d' stx /\ frame_post d d' /\
    viewA l tid d' = A_posting (tid tx_seq) ins eff (viewA l tid d) p /\
    (forall l', l' <> l -> viewA l' tid d' = viewA l' tid d) /\
    absB l d' = B_posting ins am (absB l d) p /\
    (forall l', l' <> l -> absB l' d' = absB l' d) /\
    (forall l' a', find_account d l' a' <> None -> find_account d' l' a' <> None).
Proof.
  intros d tx_seq l ins eff am p stx tid [Hwa Hwm Hmt] Htx Htxrow. unfold insert_posting.
  set (sx := option_map (fun _ => true) (find_account d l (p_src p))).
  set (dx := option_map (fun _ => true) (find_account d l (p_dst p))).
  destruct (upsert_account_step d l (p_src p) (am_get am (p_src p)) ins Hwa) as [S1 F1].
  set (d1 := upsert_account d l (p_src p) (am_get am (p_src p)) ins) in *.
  destruct (upsert_account_step d1 l (p_dst p) (am_get am (p_dst p)) ins (as_wf _ _ _ _ _ S1)) as [S2 F2].
  set (d2 := upsert_account d1 l (p_dst p) (am_get am (p_dst p)) ins) in *.
  destruct (as_frame _ _ _ _ _ S1) as [M1 [SM1 [T1 [TM1 [ST1 [STM1 [L1 SL1]]]]]]].
  destruct (as_frame _ _ _ _ _ S2) as [M2 [SM2 [T2 [TM2 [ST2 [STM2 [L2 SL2]]]]]]].
  (* first move *)
  assert (Hwm2 : WFmoves (d_moves d2) (s_moves d2) (d_acc d2) stx).
  { rewrite M2, M1, SM2, SM1. apply (WFmoves_accs _ _ (d_acc d)); [assumption|].
    intros m Hm. apply (as_moves _ _ _ _ _ S2). apply (as_moves _ _ _ _ _ S1). assumption. }
  destruct (find_account d2 l (p_src p)) as [acs|] eqn:EA1.
  2:{ exfalso. apply (as_mono _ _ _ _ _ S2 l (p_src p)); assumption. }
  rewrite (insert_move_eq d2 tx_seq l ins eff (p_src p) (p_asset p) (p_amt p) true sx acs EA1).
  set (new1 := im_new d2 tx_seq l ins eff (p_src p) (p_asset p) (p_amt p) true sx (a_seq acs)).
  set (rows1 := im_rows d2 new1 eff (p_asset p) (p_amt p) true sx (a_seq acs)).
  set (d3 := set_moves d2 rows1 (s_moves d2 + 1)).
  assert (Hwm3 : WFmoves (d_moves d3) (s_moves d3) (d_acc d3) stx).
  { apply (im_wf d2 tx_seq l ins eff (p_src p) (p_asset p) (p_amt p) true sx acs stx); auto. }
  assert (Hwa3 : WFacc (d_acc d3) (d_accm d3) (s_acc d3)) by apply S2.
  destruct (find_account d3 l (p_dst p)) as [acd|] eqn:EA2.
  2:{ exfalso. rewrite (find_account_ext d2 d3) in EA2 by reflexivity. apply F2. assumption. }
  rewrite (insert_move_eq d3 tx_seq l ins eff (p_dst p) (p_asset p) (p_amt p) false dx acd EA2).
  set (new2 := im_new d3 tx_seq l ins eff (p_dst p) (p_asset p) (p_amt p) false dx (a_seq acd)).
  set (rows2 := im_rows d3 new2 eff (p_asset p) (p_amt p) false dx (a_seq acd)).
  set (d4 := set_moves d3 rows2 (s_moves d3 + 1)).
  exists d4. split; [reflexivity|].
  assert (Hsx : match sx with Some true => true | _ => false end = memN (p_src p) (abs_known l (d_acc d))).
  { rewrite memN_known. unfold sx. destruct (find_account d l (p_src p)); reflexivity. }
  assert (Hdx : match dx with Some true => true | _ => false end = memN (p_dst p) (abs_known l (d_acc d))).
  { rewrite memN_known. unfold dx. destruct (find_account d l (p_dst p)); reflexivity. }
  split; [|split; [|split; [|split; [|split; [|split]]]]].
  - constructor; [exact Hwa3| |].
    + apply (im_wf d3 tx_seq l ins eff (p_dst p) (p_asset p) (p_amt p) false dx acd stx); auto.
    + assert (Hmt3 : forall m, In m (d_moves d3) -> move_tx_ok (d_tx d) m).
      { intros m Hm. cbn [d_moves d3 set_moves] in Hm.
        destruct (im_rows_src d2 tx_seq l ins eff (p_src p) (p_asset p) (p_amt p) true sx acs stx Hwm2 m Hm)
          as [m0 [[->|Hm0] [E1 E2]]].
        - destruct Htxrow as [r [Hr [Hs Hl]]]. exists r. rewrite E1, E2. cbn. auto.
        - rewrite M2, M1 in Hm0. destruct (Hmt m0 Hm0) as [r [Hr [Hs Hl]]]. exists r. rewrite E1, E2. auto. }
      intros m Hm. cbn [d_moves d_tx d4 set_moves] in Hm |- *.
      change (d_tx d3) with (d_tx d2). rewrite T2, T1.
      destruct (im_rows_src d3 tx_seq l ins eff (p_dst p) (p_asset p) (p_amt p) false dx acd stx Hwm3 m Hm)
        as [m0 [[->|Hm0] [E1 E2]]].
      * destruct Htxrow as [r [Hr [Hs Hl]]]. exists r. rewrite E1, E2. cbn. auto.
      * destruct (Hmt3 m0 Hm0) as [r [Hr [Hs Hl]]]. exists r. rewrite E1, E2. auto.
  - unfold frame_post. cbn. rewrite T2, T1, TM2, TM1, ST2, ST1, STM2, STM1, L2, L1, SL2, SL1. repeat split.
  - unfold viewA, A_posting. cbn [d_acc d_moves d4 d3 set_moves].
    rewrite (as_known _ _ _ _ _ S2), (as_known _ _ _ _ _ S1). f_equal.
    unfold rows2, new2.
    rewrite (im_abs_same_ledger d3 tx_seq l ins eff (p_dst p) (p_asset p) (p_amt p) false dx acd stx tid Hwa3 Hwm3 EA2).
    cbn [d_moves d3 set_moves]. unfold rows1, new1.
    rewrite (im_abs_same_ledger d2 tx_seq l ins eff (p_src p) (p_asset p) (p_amt p) true sx acs stx tid (as_wf _ _ _ _ _ S2) Hwm2 EA1).
    rewrite M2, M1, Hsx, Hdx. reflexivity.
  - intros l' Hl'. unfold viewA. cbn [d_acc d_moves d4 d3 set_moves].
    rewrite (as_known_other _ _ _ _ _ S2 l' Hl'), (as_known_other _ _ _ _ _ S1 l' Hl'). f_equal.
    unfold rows2, new2.
    rewrite (im_abs_other_ledger d3 tx_seq l ins eff (p_dst p) (p_asset p) (p_amt p) false dx acd stx tid Hwa3 Hwm3 EA2 l' Hl').
    cbn [d_moves d3 set_moves]. unfold rows1, new1.
    rewrite (im_abs_other_ledger d2 tx_seq l ins eff (p_src p) (p_asset p) (p_amt p) true sx acs stx tid (as_wf _ _ _ _ _ S2) Hwm2 EA1 l' Hl').
    rewrite M2, M1. reflexivity.
  - rewrite (absB_ext d2 d4) by reflexivity. unfold B_posting.
    rewrite (as_B _ _ _ _ _ S2), (as_B _ _ _ _ _ S1). reflexivity.
  - intros l' Hl'. rewrite (absB_ext d2 d4) by reflexivity.
    rewrite (as_B_other _ _ _ _ _ S2 l' Hl'), (as_B_other _ _ _ _ _ S1 l' Hl'). reflexivity.
  - intros l' a' Hf. rewrite (find_account_ext d2 d4) by reflexivity.
    apply (as_mono _ _ _ _ _ S2). apply (as_mono _ _ _ _ _ S1). assumption.
Qed.

Lemma postings_step : forall ps d tx_seq l ins eff am stx tid,
  WFam d stx -> tx_seq < stx ->
  (exists r, In r (d_tx d) /\ x_seq r = tx_seq /\ x_ledger r = l) ->
  exists d', fold_opt (fun d p => insert_posting d tx_seq l ins eff am p) ps d = Some d' /\ WFam d' stx /\
    frame_post d d' /\
    viewA l tid d' = fold_left (A_posting (tid tx_seq) ins eff) ps (viewA l tid d) /\
    (forall l', l' <> l -> viewA l' tid d' = viewA l' tid d) /\
    absB l d' = fold_left (B_posting ins am) ps (absB l d) /\
    (forall l', l' <> l -> absB l' d' = absB l' d).
Proof.
  induction ps as [|p ps IH]; intros d tx_seq l ins eff am stx tid Hw Htx Htxrow.
  - exists d. cbn. split; [reflexivity|]. split; [exact Hw|]. split; [apply frame_post_refl|].
    split; [reflexivity|]. split; [reflexivity|]. split; reflexivity.
  - destruct (insert_posting_step d tx_seq l ins eff am p stx tid Hw Htx Htxrow)
      as [d1 [E1 [W1 [F1 [A1 [A1o [B1 [B1o _]]]]]]]].
    assert (Htxrow1 : exists r, In r (d_tx d1) /\ x_seq r = tx_seq /\ x_ledger r = l).
    { destruct F1 as [-> _]. exact Htxrow. }
    destruct (IH d1 tx_seq l ins eff am stx tid W1 Htx Htxrow1) as [d2 [E2 [W2 [F2 [A2 [A2o [B2 B2o]]]]]]].
    exists d2. cbn [fold_opt fold_left]. rewrite E1. split; [exact E2|]. split; [exact W2|].
    split; [eapply frame_post_trans; eassumption|].
    split; [rewrite A2, A1; reflexivity|].
    split; [intros l' Hl'; rewrite (A2o l' Hl'), (A1o l' Hl'); reflexivity|].
    split; [rewrite B2, B1; reflexivity|].
    intros l' Hl'. rewrite (B2o l' Hl'), (B1o l' Hl'). reflexivity.
Qed.

(* ---- Part 6: insert_transaction and handle_log ------------------------------------------------------------------------- *)
Lemma abs_moves_tid_ext : forall l tid1 tid2 ms,
  (forall m, In m ms -> tid1 (m_tx_seq m) = tid2 (m_tx_seq m)) -> abs_moves l tid1 ms = abs_moves l tid2 ms.
Proof.
  intros. unfold abs_moves. apply map_ext_in'. intros m Hm. apply filter_In in Hm. destruct Hm as [Hm _].
  unfold bmove_of. rewrite (H m Hm). reflexivity.
Qed.

Lemma txid_of_cons_old : forall new txs seq, x_seq new <> seq -> txid_of (new :: txs) seq = txid_of txs seq.
Proof.
  intros. unfold txid_of. cbn [filter]. assert (Z.eqb (x_seq new) seq = false) as -> by (apply Z.eqb_neq; assumption).
  reflexivity.
Qed.

Lemma txid_of_cons_new : forall new txs, txid_of (new :: txs) (x_seq new) = x_id new.
Proof. intros. unfold txid_of. cbn [filter]. rewrite Z.eqb_refl. reflexivity. Qed.

Lemma existsb_tx_is_false : forall l id txs, existsb (tx_is l id) txs = false ->
  forall r, In r txs -> (x_ledger r, x_id r) <> (l, id).
Proof.
  intros l id txs H r Hr E. inversion E; subst.
  assert (existsb (tx_is (x_ledger r) (x_id r)) txs = true) as C.
  { apply existsb_exists. exists r. split; [assumption|]. unfold tx_is. rewrite N.eqb_refl, Z.eqb_refl. reflexivity. }
  congruence.
Qed.

(* the tables of transactions after INSERT INTO transactions + its trigger + the explicit revision 0 *)
Lemma tx_insert_tables : forall txs txm s l tx k1 k0,
  WFtx txs txm s -> existsb (tx_is l (t_id tx)) txs = false ->
  let new := {| x_seq := s; x_ledger := l; x_id := t_id tx; x_ts := t_ts tx; x_ref := t_ref tx;
                x_reverted_at := None; x_updated_at := Some (t_ts tx); x_postings := t_postings tx; x_meta := t_meta tx |} in
  let h1 := {| xm_seq := k1; xm_ledger := l; xm_tx_seq := s; xm_rev := 1; xm_date := t_ts tx; xm_meta := t_meta tx |} in
  let h0 := {| xm_seq := k0; xm_ledger := l; xm_tx_seq := s; xm_rev := 0; xm_date := t_ts tx; xm_meta := t_meta tx |} in
  WFtx (new :: txs) (h0 :: h1 :: txm) (s + 1) /\
  map (btx_of (h0 :: h1 :: txm)) (filter (fun r => N.eqb (x_ledger r) l) (new :: txs)) =
    C_insert (map (btx_of txm) (filter (fun r => N.eqb (x_ledger r) l) txs)) tx /\
  (forall l', l' <> l -> map (btx_of (h0 :: h1 :: txm)) (filter (fun r => N.eqb (x_ledger r) l') (new :: txs)) =
                        map (btx_of txm) (filter (fun r => N.eqb (x_ledger r) l') txs)).
Proof.
  intros txs txm s l tx k1 k0 Hw Hex new h1 h0.
  assert (Hold : forall r, In r txs -> btx_of (h0 :: h1 :: txm) r = btx_of txm r).
  { intros r Hr. unfold btx_of. f_equal. cbn [filter xm_tx_seq h0 h1].
    assert (Z.eqb s (x_seq r) = false) as ->; [|reflexivity].
    apply Z.eqb_neq. pose proof (wt_bound _ _ _ Hw r Hr). lia. }
  split; [|split].
  - constructor.
    + intros r [<-|Hr]; cbn; [lia|]. pose proof (wt_bound _ _ _ Hw r Hr). lia.
    + cbn. constructor; [|apply Hw]. intros C. apply in_map_iff in C. destruct C as [r [E Hr]].
      pose proof (wt_bound _ _ _ Hw r Hr). lia.
    + cbn. constructor; [|apply Hw]. intros C. apply in_map_iff in C. destruct C as [r [E Hr]].
      apply (existsb_tx_is_false _ _ _ Hex r Hr). exact E.
    + intros h [<-|[<-|Hh]]; cbn; try lia. pose proof (wt_hist _ _ _ Hw h Hh). lia.
  - cbn [filter x_ledger new]. rewrite N.eqb_refl. cbn [map]. unfold C_insert. f_equal.
    + unfold btx_of. cbn [x_id x_ts x_ref x_reverted_at x_updated_at x_postings x_meta x_seq new filter xm_tx_seq h0 h1].
      rewrite Z.eqb_refl. cbn [map]. rewrite filter_none; [reflexivity|].
      intros h Hh. apply Z.eqb_neq. pose proof (wt_hist _ _ _ Hw h Hh). lia.
    + apply map_ext_in'. intros r Hr. apply filter_In in Hr. apply Hold. tauto.
  - intros l' Hl'. cbn [filter x_ledger new]. assert (N.eqb l l' = false) as -> by (apply N.eqb_neq; congruence).
    apply map_ext_in'. intros r Hr. apply filter_In in Hr. apply Hold. tauto.
Qed.

Definition absA_step (l : N) (d d' : db) (e : log) : Prop :=
  absA l d' = if N.eqb (l_ledger e) l then A_step (absA l d) e else absA l d.
Definition absB_step (l : N) (d d' : db) (e : log) : Prop :=
  absB l d' = if N.eqb (l_ledger e) l then B_step (absB l d) e else absB l d.
Definition absC_step (l : N) (d d' : db) (e : log) : Prop :=
  absC l d' = if N.eqb (l_ledger e) l then C_step (absC l d) e else absC l d.

Lemma absC_ext : forall d d' l, d_tx d' = d_tx d -> d_txm d' = d_txm d -> absC l d' = absC l d.
Proof. intros. unfold absC. rewrite H, H0. reflexivity. Qed.

(* insert_transaction, for the ledger of the entry and for the other ledgers *)
Lemma insert_transaction_step : forall d l tx date am d',
  WF d -> insert_transaction d l tx date am = Some d' ->
  WF d' /\ d_logs d' = d_logs d /\ s_logs d' = s_logs d /\
  absA l d' = A_tx (absA l d) tx date /\ (forall l', l' <> l -> absA l' d' = absA l' d) /\
  absB l d' = fold_left (B_posting date am) (t_postings tx) (absB l d) /\ (forall l', l' <> l -> absB l' d' = absB l' d) /\
  absC l d' = C_insert (absC l d) tx /\ (forall l', l' <> l -> absC l' d' = absC l' d).
Proof.
  intros d l tx date am d' [Wa Wt Wm Wmt] H. unfold insert_transaction in H.
  destruct (existsb (tx_is l (t_id tx)) (d_tx d)) eqn:Hex; [discriminate|].
  set (new := {| x_seq := s_tx d; x_ledger := l; x_id := t_id tx; x_ts := t_ts tx; x_ref := t_ref tx;
                 x_reverted_at := None; x_updated_at := Some (t_ts tx); x_postings := t_postings tx;
                 x_meta := t_meta tx |}) in *.
  unfold trg_insert_transaction in H. unfold insert_txm in H at 1.
  cbn [x_ledger x_seq x_ts x_meta new set_tx d_txm s_txm] in H.
  set (d1 := set_txm (set_tx d (new :: d_tx d) (s_tx d + 1)) _ (s_txm d + 1)) in H.
  set (tid := txid_of (d_tx d1)).
  assert (W1 : WFam d1 (s_tx d + 1)).
  { constructor; [exact Wa| |].
    - destruct Wm as [S B A T]. constructor; auto. intros m Hm. pose proof (T m Hm). cbn. lia.
    - intros m Hm. destruct (Wmt m Hm) as [r [Hr Hrest]]. exists r. split; [right; exact Hr|exact Hrest]. }
  assert (Hrow1 : exists r, In r (d_tx d1) /\ x_seq r = s_tx d /\ x_ledger r = l).
  { exists new. split; [left; reflexivity|split; reflexivity]. }
  destruct (postings_step (t_postings tx) d1 (s_tx d) l date (t_ts tx) am (s_tx d + 1) tid W1 ltac:(lia) Hrow1)
    as [d2 [E2 [W2 [F2 [A2 [A2o [B2 B2o]]]]]]].
  rewrite E2 in H. unfold insert_txm in H. inversion H; subst d'; clear H.
  destruct F2 as [T2 [TM2 [ST2 [STM2 [L2 SL2]]]]].
  destruct (tx_insert_tables (d_tx d) (d_txm d) (s_tx d) l tx (s_txm d) (s_txm d2) Wt Hex) as [Wt3 [C3 C3o]].
  fold new in Wt3, C3, C3o.
  assert (Htid_old : forall m, In m (d_moves d) -> tid (m_tx_seq m) = txid_of (d_tx d) (m_tx_seq m)).
  { intros m Hm. unfold tid. cbn [d1 d_tx set_txm set_tx]. apply txid_of_cons_old. cbn.
    pose proof (wm_tx _ _ _ _ Wm m Hm). lia. }
  assert (Htid_new : tid (s_tx d) = t_id tx) by (unfold tid; cbn [d1 d_tx set_txm set_tx]; apply (txid_of_cons_new new)).
  assert (V1 : forall l', viewA l' tid d1 = absA l' d).
  { intros l'. unfold viewA, absA. cbn [d1 d_acc d_moves set_txm set_tx]. f_equal. apply abs_moves_tid_ext. exact Htid_old. }
  split; [|split; [|split; [|split; [|split; [|split; [|split; [|split]]]]]]].
  - constructor; cbn [d_acc d_accm s_acc d_tx d_txm s_tx d_moves s_moves set_txm].
    + apply W2.
    + rewrite T2, TM2, ST2. exact Wt3.
    + rewrite ST2. apply W2.
    + apply W2.
  - cbn. rewrite L2. reflexivity.
  - cbn. rewrite SL2. reflexivity.
  - unfold absA at 1. cbn [d_acc d_tx d_moves set_txm]. rewrite T2. fold tid. fold (viewA l tid d2).
    rewrite A2, Htid_new, V1. reflexivity.
  - intros l' Hl'. unfold absA at 1. cbn [d_acc d_tx d_moves set_txm]. rewrite T2. fold tid. fold (viewA l' tid d2).
    rewrite (A2o l' Hl'), V1. reflexivity.
  - rewrite (absB_ext d2) by reflexivity. rewrite B2. reflexivity.
  - intros l' Hl'. rewrite (absB_ext d2) by reflexivity. rewrite (B2o l' Hl'). reflexivity.
  - unfold absC at 1. cbn [d_tx d_txm set_txm]. rewrite T2, TM2. exact C3.
  - intros l' Hl'. unfold absC at 1. cbn [d_tx d_txm set_txm]. rewrite T2, TM2. exact (C3o l' Hl').
Qed.

(* lifting the account-only and transaction-only operations to the whole database *)
Lemma acc_step_lift : forall l d d' kn ac,
  WF d -> acc_step l d d' kn ac ->
  WF d' /\ d_logs d' = d_logs d /\ s_logs d' = s_logs d /\
  absA l d' = (kn (fst (absA l d)), snd (absA l d)) /\ (forall l', l' <> l -> absA l' d' = absA l' d) /\
  absB l d' = ac (absB l d) /\ (forall l', l' <> l -> absB l' d' = absB l' d) /\
  (forall l', absC l' d' = absC l' d).
Proof.
  intros l d d' kn ac [Wa Wt Wm Wmt] S.
  destruct (as_frame _ _ _ _ _ S) as [M [SM [T [TM [ST [STM [L SL]]]]]]].
  split; [|split; [|split; [|split; [|split; [|split; [|split]]]]]]; auto.
  - constructor.
    + apply S.
    + rewrite T, TM, ST. exact Wt.
    + rewrite M, SM, ST. apply (WFmoves_accs _ _ (d_acc d)); [exact Wm|]. apply S.
    + rewrite M, T. exact Wmt.
  - unfold absA. cbn [fst snd]. rewrite (as_known _ _ _ _ _ S), M, T. reflexivity.
  - intros l' Hl'. unfold absA. rewrite (as_known_other _ _ _ _ _ S l' Hl'), M, T. reflexivity.
  - apply S.
  - apply S.
  - intros l'. apply absC_ext; assumption.
Qed.

Lemma tx_step_lift : forall l d d' tc,
  WF d -> tx_step l d d' tc ->
  WF d' /\ d_logs d' = d_logs d /\ s_logs d' = s_logs d /\
  (forall l', absA l' d' = absA l' d) /\ (forall l', absB l' d' = absB l' d) /\
  absC l d' = tc (absC l d) /\ (forall l', l' <> l -> absC l' d' = absC l' d).
Proof.
  intros l d d' tc [Wa Wt Wm Wmt] S.
  destruct (ts_frame _ _ _ _ S) as [M [SM [A [AM [SA [SAM [L SL]]]]]]].
  split; [|split; [|split; [|split; [|split; [|split]]]]]; auto.
  - constructor.
    + rewrite A, AM, SA. exact Wa.
    + apply S.
    + rewrite M, SM, A. destruct Wm as [S1 B1 A1 T1]. constructor; auto.
      intros m Hm. pose proof (T1 m Hm). pose proof (ts_stx _ _ _ _ S). lia.
    + rewrite M. intros m Hm. destruct (Wmt m Hm) as [r [Hr [Hs Hl]]].
      destruct (ts_rows _ _ _ _ S r Hr) as [r' [Hr' [Hs' Hl']]]. exists r'. split; [exact Hr'|]. split; congruence.
  - intros l'. unfold absA. rewrite A, M. f_equal. apply abs_moves_tid_ext.
    intros m Hm. apply (ts_tid _ _ _ _ S). apply (wm_tx _ _ _ _ Wm). assumption.
  - intros l'. apply absB_ext; assumption.
  - apply S.
  - apply S.
Qed.

Lemma upserts_fold : forall (am : list (N * meta)) d l date,
  WF d ->
  let d' := fold_left (fun d kv => upsert_account d l (fst kv) (Some (snd kv)) date) am d in
  WF d' /\ d_logs d' = d_logs d /\ s_logs d' = s_logs d /\
  absA l d' = (fold_left (fun k kv => A_known_add (fst kv) k) am (fst (absA l d)), snd (absA l d)) /\
  (forall l', l' <> l -> absA l' d' = absA l' d) /\
  absB l d' = fold_left (fun accs kv => B_upsert accs (fst kv) (Some (snd kv)) date) am (absB l d) /\
  (forall l', l' <> l -> absB l' d' = absB l' d) /\
  (forall l', absC l' d' = absC l' d).
Proof.
  induction am as [|kv am IH]; intros d l date W; cbn [fold_left].
  - split; [exact W|]. split; [reflexivity|]. split; [reflexivity|].
    split; [destruct (absA l d); reflexivity|]. split; [reflexivity|]. split; [reflexivity|]. split; reflexivity.
  - destruct (upsert_account_step d l (fst kv) (Some (snd kv)) date (wf_acc _ W)) as [S _].
    destruct (acc_step_lift _ _ _ _ _ W S) as [W1 [L1 [SL1 [A1 [A1o [B1 [B1o C1]]]]]]].
    specialize (IH (upsert_account d l (fst kv) (Some (snd kv)) date) l date W1). cbn zeta in IH.
    destruct IH as [W2 [L2 [SL2 [A2 [A2o [B2 [B2o C2]]]]]]].
    split; [exact W2|]. split; [congruence|]. split; [congruence|].
    split; [rewrite A2, A1; reflexivity|].
    split; [intros l' Hl'; rewrite (A2o l' Hl'), (A1o l' Hl'); reflexivity|].
    split; [rewrite B2, B1; reflexivity|].
    split; [intros l' Hl'; rewrite (B2o l' Hl'), (B1o l' Hl'); reflexivity|].
    intros l'. rewrite C2, C1. reflexivity.
Qed.

Theorem handle_log_step : forall d e d',
  WF d -> handle_log d e = Some d' ->
  WF d' /\ forall l, absA_step l d d' e /\ absB_step l d d' e /\ absC_step l d d' e.
Proof.
  intros d e d' W H. unfold handle_log in H.
  destruct (existsb _ (d_logs d)); [discriminate|].
  set (d0 := set_logs d _ (s_logs d + 1)) in H.
  assert (W0 : WF d0) by (destruct W as [Wa Wt Wm Wmt]; constructor; assumption).
  assert (A0 : forall l, absA l d0 = absA l d) by reflexivity.
  assert (B0 : forall l, absB l d0 = absB l d) by reflexivity.
  assert (C0 : forall l, absC l d0 = absC l d) by reflexivity.
  unfold absA_step, absB_step, absC_step, A_step, B_step, C_step.
  destruct (l_data e) as [tx am|tx rid|[a|id] m|[a|id] k] eqn:ED.
  - (* NEW_TRANSACTION *)
    destruct (insert_transaction d0 (l_ledger e) tx (l_date e) am) as [d1|] eqn:E1; [|discriminate].
    inversion H; subst d'; clear H.
    destruct (insert_transaction_step _ _ _ _ _ _ W0 E1) as [W1 [_ [_ [A1 [A1o [B1 [B1o [C1 C1o]]]]]]]].
    destruct (upserts_fold am d1 (l_ledger e) (t_ts tx) W1) as [W2 [_ [_ [A2 [A2o [B2 [B2o C2]]]]]]].
    split; [exact W2|]. intros l. destruct (N.eqb_spec (l_ledger e) l) as [<-|Hne].
    + split; [|split].
      * rewrite A2, A1, A0. destruct (A_tx (absA (l_ledger e) d) tx (l_date e)); reflexivity.
      * rewrite B2, B1, B0. reflexivity.
      * rewrite C2, C1, C0. reflexivity.
    + assert (l <> l_ledger e) as Hne' by congruence.
      split; [|split].
      * rewrite (A2o l Hne'), (A1o l Hne'), A0. reflexivity.
      * rewrite (B2o l Hne'), (B1o l Hne'), B0. reflexivity.
      * rewrite C2, (C1o l Hne'), C0. reflexivity.
  - (* REVERTED_TRANSACTION *)
    destruct (insert_transaction d0 (l_ledger e) tx (l_date e) []) as [d1|] eqn:E1; [|discriminate].
    destruct (insert_transaction_step _ _ _ _ _ _ W0 E1) as [W1 [_ [_ [A1 [A1o [B1 [B1o [C1 C1o]]]]]]]].
    unfold revert_transaction in H.
    pose proof (update_transactions_step d1 (l_ledger e) rid (fun _ => Some (t_ts tx)) x_updated_at x_meta
                  (fun r => (Some (t_ts tx), bx_updated_at r, bx_meta r)) d' (wf_tx _ W1) ltac:(reflexivity) H) as S.
    destruct (tx_step_lift _ _ _ _ W1 S) as [W2 [_ [_ [A2 [B2 [C2 C2o]]]]]].
    split; [exact W2|]. intros l. destruct (N.eqb_spec (l_ledger e) l) as [<-|Hne].
    + split; [|split].
      * rewrite A2, A1, A0. reflexivity.
      * rewrite B2, B1, B0. reflexivity.
      * rewrite C2, C1, C0. reflexivity.
    + assert (l <> l_ledger e) as Hne' by congruence.
      split; [|split].
      * rewrite A2, (A1o l Hne'), A0. reflexivity.
      * rewrite B2, (B1o l Hne'), B0. reflexivity.
      * rewrite (C2o l Hne'), (C1o l Hne'), C0. reflexivity.
  - (* SET_METADATA on an account *)
    inversion H; subst d'; clear H.
    destruct (upsert_account_step d0 (l_ledger e) a (Some m) (l_date e) (wf_acc _ W0)) as [S _].
    destruct (acc_step_lift _ _ _ _ _ W0 S) as [W1 [_ [_ [A1 [A1o [B1 [B1o C1]]]]]]].
    split; [exact W1|]. intros l. destruct (N.eqb_spec (l_ledger e) l) as [<-|Hne].
    + split; [|split]; [rewrite A1, A0 | rewrite B1, B0 | rewrite C1, C0]; reflexivity.
    + assert (l <> l_ledger e) as Hne' by congruence.
      split; [|split]; [rewrite (A1o l Hne'), A0 | rewrite (B1o l Hne'), B0 | rewrite C1, C0]; reflexivity.
  - (* SET_METADATA on a transaction *)
    unfold update_transaction_metadata in H.
    pose proof (update_transactions_step d0 (l_ledger e) id x_reverted_at (fun _ => Some (l_date e))
                  (fun r => meta_merge (x_meta r) m)
                  (fun r => (bx_reverted_at r, Some (l_date e), meta_merge (bx_meta r) m)) d' (wf_tx _ W0)
                  ltac:(reflexivity) H) as S.
    destruct (tx_step_lift _ _ _ _ W0 S) as [W2 [_ [_ [A2 [B2 [C2 C2o]]]]]].
    split; [exact W2|]. intros l. destruct (N.eqb_spec (l_ledger e) l) as [<-|Hne].
    + split; [|split]; [rewrite A2, A0 | rewrite B2, B0 | rewrite C2, C0]; reflexivity.
    + assert (l <> l_ledger e) as Hne' by congruence.
      split; [|split]; [rewrite A2, A0 | rewrite B2, B0 | rewrite (C2o l Hne'), C0]; reflexivity.
  - (* DELETE_METADATA on an account *)
    inversion H; subst d'; clear H.
    pose proof (delete_account_metadata_step d0 (l_ledger e) a k (l_date e) (wf_acc _ W0)) as S.
    destruct (acc_step_lift _ _ _ _ _ W0 S) as [W1 [_ [_ [A1 [A1o [B1 [B1o C1]]]]]]].
    split; [exact W1|]. intros l. destruct (N.eqb_spec (l_ledger e) l) as [<-|Hne].
    + split; [|split]; [rewrite A1, A0; destruct (absA (l_ledger e) d) | rewrite B1, B0 | rewrite C1, C0]; reflexivity.
    + assert (l <> l_ledger e) as Hne' by congruence.
      split; [|split]; [rewrite (A1o l Hne'), A0 | rewrite (B1o l Hne'), B0 | rewrite C1, C0]; reflexivity.
  - (* DELETE_METADATA on a transaction *)
    unfold delete_transaction_metadata in H.
    pose proof (update_transactions_step d0 (l_ledger e) id x_reverted_at (fun _ => Some (l_date e))
                  (fun r => meta_del (x_meta r) k)
                  (fun r => (bx_reverted_at r, Some (l_date e), meta_del (bx_meta r) k)) d' (wf_tx _ W0)
                  ltac:(reflexivity) H) as S.
    destruct (tx_step_lift _ _ _ _ W0 S) as [W2 [_ [_ [A2 [B2 [C2 C2o]]]]]].
    split; [exact W2|]. intros l. destruct (N.eqb_spec (l_ledger e) l) as [<-|Hne].
    + split; [|split]; [rewrite A2, A0 | rewrite B2, B0 | rewrite C2, C0]; reflexivity.
    + assert (l <> l_ledger e) as Hne' by congruence.
      split; [|split]; [rewrite A2, A0 | rewrite B2, B0 | rewrite (C2o l Hne'), C0]; reflexivity.
Qed.

(* ---- the projection theorem ---------------------------------------------------------------------------------------------- *)
Theorem run_from_refines : forall L d0 d,
  WF d0 -> run_from d0 L = Some d ->
  WF d /\ forall l,
    absA l d = fold_left A_step (ledger_logs l L) (absA l d0) /\
    absB l d = fold_left B_step (ledger_logs l L) (absB l d0) /\
    absC l d = fold_left C_step (ledger_logs l L) (absC l d0).
Proof.
  induction L as [|e L IH]; intros d0 d W H; unfold run_from in *; cbn [fold_opt] in H.
  - inversion H; subst. split; [exact W|]. intros l. cbn. auto.
  - destruct (handle_log d0 e) as [d1|] eqn:E1; [|discriminate].
    destruct (handle_log_step _ _ _ W E1) as [W1 S1].
    destruct (IH d1 d W1 H) as [W2 S2]. split; [exact W2|]. intros l.
    destruct (S1 l) as [A1 [B1 C1]]. destruct (S2 l) as [A2 [B2 C2]].
    unfold absA_step, absB_step, absC_step in *. unfold ledger_logs in *. cbn [filter].
    destruct (N.eqb (l_ledger e) l); cbn [fold_left]; rewrite A2, B2, C2, A1, B1, C1; auto.
Qed.

Theorem run_refines : forall L d,
  run L = Some d ->
  WF d /\ forall l, absA l d = A_run (ledger_logs l L) /\ absB l d = B_run (ledger_logs l L) /\
                    absC l d = C_run (ledger_logs l L).
Proof. intros L d H. exact (run_from_refines L empty_db d WF_empty H). Qed.
