(* M4 — the oracle: what replaying ONE ledger's log entries, in order, says the read API must report.
   Definitions only. Nothing here looks at tables, sequence numbers, triggers or stored running totals: volumes are
   sums over the postings of the log, metadata is the fold of the metadata-affecting entries, a transaction is
   reverted when a REVERTED_TRANSACTION entry names it.

   Times: an entry's insertion date is [l_date]; a transaction's effective date is the INSTANT its timestamp text
   denotes, [t_ts - t_off] (the schema keeps [t_ts] and drops the offset).                                          *)
From FL Require Export Storage.Model.
Local Open Scope Z_scope.

Definition zsum (l : list Z) : Z := fold_right Z.add 0 l.

(* ---- moves ----------------------------------------------------------------------------------------------------------- *)
Record rmove := { r_addr : N; r_asset : N; r_amount : Z; r_src : bool; r_ins : Z; r_eff : Z }.

Definition tx_instant (tx : txdata) : Z := t_ts tx - t_off tx.

Definition posting_rmoves (ins eff : Z) (p : posting) : list rmove :=
  [ {| r_addr := p_src p; r_asset := p_asset p; r_amount := p_amt p; r_src := true; r_ins := ins; r_eff := eff |};
    {| r_addr := p_dst p; r_asset := p_asset p; r_amount := p_amt p; r_src := false; r_ins := ins; r_eff := eff |} ].

Definition log_tx (e : log) : option txdata :=
  match l_data e with PNew tx _ => Some tx | PRevert tx _ => Some tx | _ => None end.

Definition log_rmoves (e : log) : list rmove :=
  match log_tx e with
  | Some tx => flat_map (posting_rmoves (l_date e) (tx_instant tx)) (t_postings tx)
  | None => []
  end.

(* all moves of the ledger, in log order *)
Definition replay_moves (Ls : list log) : list rmove := flat_map log_rmoves Ls.

Definition r_in (m : rmove) : Z := if r_src m then 0 else r_amount m.
Definition r_out (m : rmove) : Z := if r_src m then r_amount m else 0.
Definition rvol (ms : list rmove) : Z * Z := (zsum (map r_in ms), zsum (map r_out ms)).
Definition rkey (a s : N) (m : rmove) : bool := N.eqb (r_addr m) a && N.eqb (r_asset m) s.

Definition some_vol (ms : list rmove) : option (Z * Z) := match ms with [] => None | _ => Some (rvol ms) end.

(* volumes of (account, asset): the moves inserted no later than [pit] / effective no later than [pit] *)
Definition replay_volume (Ls : list log) (a s : N) (pit : option Z) : option (Z * Z) :=
  some_vol (filter (fun m => before_ok pit (r_ins m) && rkey a s m) (replay_moves Ls)).
Definition replay_effective_volume (Ls : list log) (a s : N) (pit : option Z) : option (Z * Z) :=
  some_vol (filter (fun m => before_ok pit (r_eff m) && rkey a s m) (replay_moves Ls)).

Definition replay_assets (Ls : list log) : list N := sort_dedup (map r_asset (replay_moves Ls)).

Definition per_asset (f : N -> option (Z * Z)) (assets : list N) : list (N * (Z * Z)) :=
  flat_map (fun s => match f s with Some v => [(s, v)] | None => [] end) assets.

Definition replay_volumes (Ls : list log) (a : N) (pit : option Z) : list (N * (Z * Z)) :=
  per_asset (fun s => replay_volume Ls a s pit) (replay_assets Ls).
Definition replay_effective_volumes (Ls : list log) (a : N) (pit : option Z) : list (N * (Z * Z)) :=
  per_asset (fun s => replay_effective_volume Ls a s pit) (replay_assets Ls).

Definition replay_balance (Ls : list log) (a s : N) : option Z :=
  option_map (fun v => fst v - snd v) (replay_volume Ls a s None).

(* GET /aggregate/balances: per asset, over all accounts *)
Definition replay_aggregated (Ls : list log) (pit : option Z) : list (N * (Z * Z)) :=
  per_asset (fun s => some_vol (filter (fun m => before_ok pit (r_ins m) && N.eqb (r_asset m) s) (replay_moves Ls)))
            (replay_assets Ls).

(* the image of the replay values in the cells of the store *)
Definition vol_of (v : Z * Z) : vol := (Some (fst v), Some (snd v)).
Definition vols_of (l : list (N * (Z * Z))) : list (N * vol) := map (fun kv => (fst kv, vol_of (snd kv))) l.

(* ---- account metadata ------------------------------------------------------------------------------------------------ *)
Definition posting_accounts (ps : list posting) : list N := flat_map (fun p => [p_src p; p_dst p]) ps.

Definition apply_set (m : meta) (st : option meta) : option meta :=
  match st with Some x => Some (meta_merge x m) | None => Some m end.
Definition apply_del (k : N) (st : option meta) : option meta := option_map (fun x => meta_del x k) st.

Definition memb (a : N) (l : list N) : bool := existsb (N.eqb a) l.

(* the effect of one entry on account [a]; [None] = the account does not exist (yet) *)
Definition touch (a : N) (m : meta) (st : option meta) (accounts : list N) : option meta :=
  fold_left (fun st x => if N.eqb x a then apply_set m st else st) accounts st.

Definition acc_meta_step (a : N) (st : option meta) (e : log) : option meta :=
  match l_data e with
  | PNew tx am =>
      (* every posting touches its source and its destination, merging what the script set for that account;
         then every entry of accountMetadata is merged *)
      let st := touch a (match am_get am a with Some m => m | None => [] end) st (posting_accounts (t_postings tx)) in
      fold_left (fun st kv => if N.eqb (fst kv) a then apply_set (snd kv) st else st) am st
  | PRevert tx _ => touch a [] st (posting_accounts (t_postings tx))
  | PSet (TAccount a') m => if N.eqb a' a then apply_set m st else st
  | PDel (TAccount a') k => if N.eqb a' a then apply_del k st else st
  | _ => st
  end.

(* metadata of account [a] as of [pit]: the entries dated no later than [pit], in log order *)
Definition replay_account_meta (Ls : list log) (a : N) (pit : option Z) : option meta :=
  fold_left (acc_meta_step a) (filter (fun e => before_ok pit (l_date e)) Ls) None.

(* ---- transactions ------------------------------------------------------------------------------------------------------ *)
Record rtx := { rt_id : Z; rt_instant : Z; rt_ref : option N; rt_postings : list posting; rt_meta : meta;
                rt_reverted : bool }.

Definition rtx_new (tx : txdata) : rtx :=
  {| rt_id := t_id tx; rt_instant := tx_instant tx; rt_ref := t_ref tx; rt_postings := t_postings tx;
     rt_meta := t_meta tx; rt_reverted := false |}.
Definition rtx_meta (f : meta -> meta) (r : rtx) : rtx :=
  {| rt_id := rt_id r; rt_instant := rt_instant r; rt_ref := rt_ref r; rt_postings := rt_postings r;
     rt_meta := f (rt_meta r); rt_reverted := rt_reverted r |}.
Definition rtx_revert (r : rtx) : rtx :=
  {| rt_id := rt_id r; rt_instant := rt_instant r; rt_ref := rt_ref r; rt_postings := rt_postings r;
     rt_meta := rt_meta r; rt_reverted := true |}.

(* the effect of one entry on transaction [id]; metadata entries dated after [pit] and reverts effective after
   [pit] are not seen *)
Definition tx_step (id : Z) (pit : option Z) (st : option rtx) (e : log) : option rtx :=
  match l_data e with
  | PNew tx _ => match st with None => if Z.eqb (t_id tx) id then Some (rtx_new tx) else None | _ => st end
  | PRevert tx rid =>
      let st := match st with None => if Z.eqb (t_id tx) id then Some (rtx_new tx) else None | _ => st end in
      if Z.eqb rid id && before_ok pit (tx_instant tx) then option_map rtx_revert st else st
  | PSet (TTx id') m =>
      if Z.eqb id' id && before_ok pit (l_date e) then option_map (rtx_meta (fun x => meta_merge x m)) st else st
  | PDel (TTx id') k =>
      if Z.eqb id' id && before_ok pit (l_date e) then option_map (rtx_meta (fun x => meta_del x k)) st else st
  | _ => st
  end.

(* transaction [id] as of [pit]: invisible when its own effective instant is after [pit] *)
Definition replay_tx (Ls : list log) (id : Z) (pit : option Z) : option rtx :=
  match fold_left (tx_step id pit) Ls None with
  | Some r => if before_ok pit (rt_instant r) then Some r else None
  | None => None
  end.

(* ---- executable classes of histories --------------------------------------------------------------------------------- *)
(* log dates never go back *)
Fixpoint dates_monotone_from (t : Z) (Ls : list log) : bool :=
  match Ls with
  | [] => true
  | e :: r => Z.leb t (l_date e) && dates_monotone_from (l_date e) r
  end.
Definition dates_monotone (Ls : list log) : bool :=
  match Ls with [] => true | e :: r => dates_monotone_from (l_date e) r end.

(* every timestamp is written in UTC *)
Definition all_utc (Ls : list log) : bool :=
  forallb (fun e => match log_tx e with Some tx => Z.eqb (t_off tx) 0 | None => true end) Ls.

(* accounts the ledger knows after the entries (any entry that creates the accounts row) *)
Definition log_accounts (e : log) : list N :=
  match l_data e with
  | PNew tx am => posting_accounts (t_postings tx) ++ map fst am
  | PRevert tx _ => posting_accounts (t_postings tx)
  | PSet (TAccount a) _ => [a]
  | _ => []
  end.

(* F-C04a: no posting from an account to itself while that account is not yet known *)
Fixpoint nst_postings (known : list N) (ps : list posting) : bool :=
  match ps with
  | [] => true
  | p :: r => negb (N.eqb (p_src p) (p_dst p) && negb (existsb (N.eqb (p_src p)) known))
              && nst_postings (p_src p :: p_dst p :: known) r
  end.
Fixpoint nst_from (known : list N) (Ls : list log) : bool :=
  match Ls with
  | [] => true
  | e :: r =>
      match log_tx e with Some tx => nst_postings known (t_postings tx) | None => true end
      && nst_from (log_accounts e ++ known) r
  end.
Definition no_self_transfer_on_new_account (Ls : list log) : bool := nst_from [] Ls.

(* F-C04b: no move of (account, asset) is effective earlier than every earlier move of (account, asset) *)
Fixpoint nbd_from (seen : list rmove) (ms : list rmove) : bool :=
  match ms with
  | [] => true
  | m :: r =>
      let same := filter (rkey (r_addr m) (r_asset m)) seen in
      (match same with [] => true | _ => existsb (fun m' => Z.leb (r_eff m') (r_eff m)) same end)
      && nbd_from (m :: seen) r
  end.
Definition no_backdating_before_first (Ls : list log) : bool := nbd_from [] (replay_moves Ls).

(* account metadata written by a script is dated by the log date: true when the transaction carries no account
   metadata or is not given a timestamp of its own (F-C04h otherwise) *)
Definition script_meta_same_date (Ls : list log) : bool :=
  forallb (fun e => match l_data e with
                    | PNew tx am => match am with [] => true | _ => Z.eqb (t_ts tx) (l_date e) end
                    | _ => true
                    end) Ls.

(* the point in time is not itself the date of an entry (F-C04d: revisions written AT pit are not seen) *)
Definition pit_not_a_log_date (Ls : list log) (pit : Z) : bool :=
  forallb (fun e => negb (Z.eqb (l_date e) pit)) Ls.

(* a transaction is reverted at most once (the engine refuses a second revert: property C10) *)
Definition reverted_at_most_once (Ls : list log) (id : Z) : bool :=
  Nat.leb (length (filter (fun e => match l_data e with PRevert _ rid => Z.eqb rid id | _ => false end) Ls)) 1.
