// obs-bulk drives the real v2 bulk handler (through v2.NewRouter) and ProcessBulk with a scripted backend,
// on generated bulk requests, writes the observations as Coq cases for Bulk/Model.v and applies the C18 oracle.
package main

import (
	"bytes"
	"context"
	"encoding/json"
	"fmt"
	"math/big"
	"net/http"
	"net/http/httptest"
	"strconv"
	"strings"

	ledger "github.com/formancehq/ledger/internal"
	v2 "github.com/formancehq/ledger/internal/api/v2"
	"github.com/formancehq/ledger/internal/engine"
	"github.com/formancehq/ledger/internal/engine/command"
	"github.com/formancehq/ledger/internal/machine"
	"github.com/formancehq/ledger/internal/opentelemetry/metrics"
	"github.com/formancehq/ledger/verifx/fakeapi"
	"github.com/formancehq/ledger/verifx/vx"
	"github.com/formancehq/stack/libs/go-libs/auth"
	"github.com/formancehq/stack/libs/go-libs/health"
	"github.com/pkg/errors"
)

type elem struct {
	Act  string `json:"act"`  // CREATE_TRANSACTION, ..., or an unknown string
	IK   string `json:"ik"`   // "" or k1..k3
	Data string `json:"data"` // ok | bad
	Out  string `json:"out"`  // succ | insufficient | command | notfound | other
	Bad  int    `json:"bad"`  // which malformed body
	Opt  int    `json:"opt"`  // optional fields of a well-formed body: 0 spelled with their default, 1 set, 2 absent
	Bare bool   `json:"bare"` // CREATE_TRANSACTION: valid JSON of the right type without postings and without script
}

type input struct {
	Cont bool   `json:"continueOnFailure"`
	// ContSp: how the HTTP request spells the parameter ("-" = absent); consistent with Cont (true only for a
	// lower-cased "1" or "true")
	ContSp string `json:"continueOnFailure_spelling,omitempty"`
	Els    []elem `json:"elements"`
	// CancelAt: the request's context is cancelled while element CancelAt-1 is being executed (0 = never); the client
	// going away does not change what the bulk does or answers
	CancelAt int `json:"cancel_context_during_element,omitempty"`
}

var actions = []string{v2.ActionCreateTransaction, v2.ActionAddMetadata, v2.ActionRevertTransaction, v2.ActionDeleteMetadata}
var unknowns = []string{"FROBNICATE", "", "create_transaction", "CREATE_TRANSACTION ", "DELETE"}
var outs = []string{"succ", "insufficient", "command", "notfound", "other", "same", "same"}

func coqAct(a string) string {
	switch a {
	case v2.ActionCreateTransaction:
		return "ACreate"
	case v2.ActionAddMetadata:
		return "AAddMeta"
	case v2.ActionRevertTransaction:
		return "ARevert"
	case v2.ActionDeleteMetadata:
		return "ADelMeta"
	}
	return "AUnknown"
}
func coqOut(o string) string {
	return map[string]string{"succ": "OSucc", "insufficient": "OInsufficient", "command": "OCommand", "notfound": "ONotFound", "other": "OOther", "same": "OSame"}[o]
}
func coqCode(c string) string {
	switch c {
	case "":
		return "ENone"
	case v2.ErrInsufficientFund:
		return "EInsufficientFund"
	case v2.ErrValidation:
		return "EValidation"
	case "NOT_FOUND":
		return "ENotFound"
	case "INTERNAL":
		return "EInternal"
	}
	return "EInternal (* unmapped: " + c + " *)"
}
func ikN(k string) uint64 {
	if k == "" {
		return 0
	}
	if n, err := strconv.Atoi(k[1:]); err == nil && k[0] == 'k' {
		return uint64(n)
	}
	h := uint64(1000) // any other spelling: a number of its own (blanks, letter case)
	for i := 0; i < len(k); i++ {
		h = h*131 + uint64(k[i])
	}
	return h
}

// body of element i; the element index is embedded so the scripted backend can recognise the call
func dataFor(i int, e elem) string {
	if e.Data == "bad" {
		if e.Bad%4 == 3 {
			return "" // no `data` member at all (`"data": null` is not undecodable: it decodes to the zero request)
		}
		switch coqAct(e.Act) {
		case "ACreate":
			return []string{`"x"`, `{"postings": 3}`, `[1]`}[e.Bad%3]
		case "ARevert":
			return []string{`"x"`, `{"id": "abc"}`, `{"id": 1, "force": "yes"}`}[e.Bad%3]
		case "AAddMeta":
			return []string{`"x"`, `{"targetType": "TRANSACTION", "targetId": "notanumber", "metadata": {}}`, `{"targetType": "ACCOUNT", "targetId": "a", "metadata": 3}`}[e.Bad%3]
		case "ADelMeta":
			return []string{`"x"`, `{"targetType": "TRANSACTION", "targetId": "notanumber", "key": "k"}`, `{"targetType": "ACCOUNT", "targetId": "a", "key": 4}`}[e.Bad%3]
		}
		return `"x"`
	}
	switch coqAct(e.Act) {
	case "ACreate":
		if e.Bare {
			if e.Opt%3 == 1 {
				return fmt.Sprintf(`{"reference":"e%d","metadata":{"m":"%d"}}`, i, i)
			}
			return fmt.Sprintf(`{"reference":"e%d"}`, i)
		}
		switch e.Opt % 3 {
		case 1:
			return fmt.Sprintf(`{"postings":[{"source":"world","destination":"bank","amount":100,"asset":"USD"}],"reference":"e%d","metadata":{"m":"%d"}}`, i, i)
		case 0:
			return fmt.Sprintf(`{"postings":[{"source":"world","destination":"bank","amount":100,"asset":"USD"}],"reference":"e%d","metadata":{}}`, i)
		}
		return fmt.Sprintf(`{"postings":[{"source":"world","destination":"bank","amount":100,"asset":"USD"}],"reference":"e%d"}`, i)
	case "ARevert":
		switch e.Opt % 3 {
		case 1:
			return fmt.Sprintf(`{"id": %d, "force": true}`, i)
		case 2:
			return fmt.Sprintf(`{"id": %d}`, i)
		}
		return fmt.Sprintf(`{"id": %d, "force": false}`, i)
	case "AAddMeta":
		if e.Opt%3 == 2 && e.Bad%2 == 1 {
			// an empty metadata object is a valid write too; the element is recognised by its target
			return fmt.Sprintf(`{"targetType":"ACCOUNT","targetId":"acc-e%d","metadata":{}}`, i)
		}
		extra := ""
		if e.Opt%3 == 1 {
			extra = fmt.Sprintf(`,"x":"%d"`, i)
		}
		if i%2 == 0 {
			return fmt.Sprintf(`{"targetType":"ACCOUNT","targetId":"acc","metadata":{"e":"%d"%s}}`, i, extra)
		}
		return fmt.Sprintf(`{"targetType":"TRANSACTION","targetId":7,"metadata":{"e":"%d"%s}}`, i, extra)
	case "ADelMeta":
		if i%2 == 0 {
			return fmt.Sprintf(`{"targetType":"ACCOUNT","targetId":"acc","key":"e%d"}`, i)
		}
		return fmt.Sprintf(`{"targetType":"TRANSACTION","targetId":7,"key":"e%d"}`, i)
	}
	return fmt.Sprintf(`{"e": %d}`, i)
}

func body(in input) string {
	var parts []string
	for i, e := range in.Els {
		a, _ := json.Marshal(e.Act)
		k, _ := json.Marshal(e.IK)
		if d := dataFor(i, e); d == "" {
			parts = append(parts, fmt.Sprintf(`{"action":%s,"ik":%s}`, a, k))
		} else {
			parts = append(parts, fmt.Sprintf(`{"action":%s,"ik":%s,"data":%s}`, a, k, d))
		}
	}
	return "[" + strings.Join(parts, ",") + "]"
}

type obsCall struct {
	Idx int
	Act string
	IK  string
	Own string // "" or: which parameter of the call is not what the element alone defines
}

// ownRequest: does the backend call carry exactly the optional parameters its own element spells out?
func ownRequest(c fakeapi.WriteCall, i int, e elem) string {
	switch c.Kind {
	case "REVERT_TRANSACTION":
		if c.Force != (e.Opt%3 == 1) {
			return fmt.Sprintf("revert:force=%v", c.Force)
		}
	case "ADD_METADATA":
		if e.Opt%3 == 2 && e.Bad%2 == 1 {
			if len(c.Meta) != 0 {
				return fmt.Sprintf("add-metadata:metadata=%v", c.Meta)
			}
			return ""
		}
		want := map[string]string{"e": fmt.Sprint(i)}
		if e.Opt%3 == 1 {
			want["x"] = fmt.Sprint(i)
		}
		if len(c.Meta) != len(want) {
			return fmt.Sprintf("add-metadata:metadata=%v", c.Meta)
		}
		for k, v := range want {
			if c.Meta[k] != v {
				return fmt.Sprintf("add-metadata:metadata=%v", c.Meta)
			}
		}
	case "CREATE_TRANSACTION":
		if c.Script == nil {
			return ""
		}
		if e.Bare != (c.Script.Plain == "") {
			return fmt.Sprintf("create:script=%q", c.Script.Plain)
		}
		if e.Opt%3 == 1 {
			if len(c.Script.Metadata) != 1 || c.Script.Metadata["m"] != fmt.Sprint(i) {
				return fmt.Sprintf("create:metadata=%v", c.Script.Metadata)
			}
		} else if len(c.Script.Metadata) != 0 {
			return fmt.Sprintf("create:metadata=%v", c.Script.Metadata)
		}
	}
	return ""
}
type obsRes struct {
	Type string
	Code string
	Tag  int // -1 = none
}
type observation struct {
	Calls   []obsCall
	Results []obsRes
	Flag    bool
	Err     bool
	Status  int
	NilRes  bool
}

func idxOf(c fakeapi.WriteCall) int {
	switch c.Kind {
	case "CREATE_TRANSACTION":
		n, err := strconv.Atoi(strings.TrimPrefix(c.Script.Reference, "e"))
		if err != nil {
			return -1
		}
		return n
	case "REVERT_TRANSACTION":
		return int(c.ID.Int64())
	case "ADD_METADATA":
		if id, ok := c.TargetID.(string); ok && strings.HasPrefix(id, "acc-e") && len(c.Meta) == 0 {
			if n, err := strconv.Atoi(id[5:]); err == nil {
				return n
			}
		}
		n, err := strconv.Atoi(c.Meta["e"])
		if err != nil {
			return -1
		}
		return n
	case "DELETE_METADATA":
		n, err := strconv.Atoi(strings.TrimPrefix(c.Key, "e"))
		if err != nil {
			return -1
		}
		return n
	}
	return -1
}

func backendFor(in input, cancel ...context.CancelFunc) *fakeapi.Ledger {
	l := &fakeapi.Ledger{}
	l.Decide = func(c fakeapi.WriteCall) (*ledger.Transaction, error) {
		i := idxOf(c)
		if in.CancelAt > 0 && i == in.CancelAt-1 && len(cancel) > 0 {
			cancel[0]()
		}
		if i < 0 || i >= len(in.Els) {
			return nil, errors.New("fail-unknown")
		}
		msg := fmt.Sprintf("fail-%d", i)
		switch in.Els[i].Out {
		case "succ":
			tx := ledger.NewTransaction().WithID(big.NewInt(int64(i)))
			return tx, nil
		case "insufficient":
			return nil, errors.Wrap(machine.NewErrInsufficientFund("%s", msg), "running numscript")
		case "command":
			return nil, engine.NewCommandError(errors.New(msg))
		case "notfound":
			if c.Kind == "ADD_METADATA" {
				return nil, errors.Wrap(command.VerifErrSaveMetaTransactionNotFound(), msg)
			}
			if c.Kind == "DELETE_METADATA" {
				return nil, errors.Wrap(command.VerifErrDeleteMetaTransactionNotFound(), msg)
			}
			return nil, errors.New(msg)
		case "same":
			return nil, errors.New("boom") // the same text for every element: nothing identifies the failing one
		default:
			return nil, errors.New(msg)
		}
	}
	return l
}

func tagOfErr(desc string) int {
	if j := strings.Index(desc, "fail-"); j >= 0 {
		s := desc[j+5:]
		k := 0
		for k < len(s) && s[k] >= '0' && s[k] <= '9' {
			k++
		}
		if n, err := strconv.Atoi(s[:k]); err == nil {
			return n
		}
	}
	return -1
}

func callsOf(l *fakeapi.Ledger, in input) []obsCall {
	var cs []obsCall
	for _, c := range l.Writes {
		oc := obsCall{Idx: idxOf(c), Act: c.Kind, IK: c.Params.IdempotencyKey}
		if oc.Idx >= 0 && oc.Idx < len(in.Els) && in.Els[oc.Idx].Data != "bad" {
			oc.Own = ownRequest(c, oc.Idx, in.Els[oc.Idx])
		}
		cs = append(cs, oc)
	}
	return cs
}

// direct call of ProcessBulk
func runDirect(in input) (ob observation, panicked string) {
	defer func() {
		if r := recover(); r != nil {
			panicked = fmt.Sprint(r)
		}
	}()
	var b v2.Bulk
	if err := json.Unmarshal([]byte(body(in)), &b); err != nil {
		panic("harness: body does not decode: " + err.Error())
	}
	ctx, cancel := context.WithCancel(context.Background())
	defer cancel()
	l := backendFor(in, cancel)
	res, flag, err := v2.ProcessBulk(ctx, l, b, in.Cont)
	ob.Calls = callsOf(l, in)
	ob.Flag, ob.Err, ob.NilRes = flag, err != nil, res == nil
	for _, r := range res {
		o := obsRes{Type: r.ResponseType, Code: r.ErrorCode, Tag: -1}
		if r.ResponseType == "ERROR" {
			o.Tag = tagOfErr(r.ErrorDescription)
		} else if tx, ok := r.Data.(*ledger.Transaction); ok && tx != nil {
			o.Tag = int(tx.ID.Int64())
		}
		ob.Results = append(ob.Results, o)
	}
	return
}

// through the real router and bulkHandler
func runHTTP(in input) (ob observation, raw string) {
	hctx, hcancel := context.WithCancel(context.Background())
	defer hcancel()
	l := backendFor(in, hcancel)
	router := v2.NewRouter(&fakeapi.Backend{L: l}, &health.HealthController{}, metrics.NewNoOpRegistry(), auth.NewNoAuth())
	url := "/ledger0/_bulk"
	switch {
	case in.ContSp == "-":
	case in.ContSp != "":
		url += "?continueOnFailure=" + in.ContSp
	case in.Cont:
		url += "?continueOnFailure=true"
	}
	req := httptest.NewRequest(http.MethodPost, url, bytes.NewBufferString(body(in)))
	rec := httptest.NewRecorder()
	router.ServeHTTP(rec, req.WithContext(hctx))
	ob.Status = rec.Code
	ob.Calls = callsOf(l, in)
	raw = rec.Body.String()
	var resp struct {
		Data []struct {
			ErrorCode        string          `json:"errorCode"`
			ErrorDescription string          `json:"errorDescription"`
			ResponseType     string          `json:"responseType"`
			Data             json.RawMessage `json:"data"`
		} `json:"data"`
	}
	if err := json.Unmarshal(rec.Body.Bytes(), &resp); err != nil {
		ob.Err = true
		return
	}
	ob.NilRes = resp.Data == nil
	for _, r := range resp.Data {
		o := obsRes{Type: r.ResponseType, Code: r.ErrorCode, Tag: -1}
		if r.ResponseType == "ERROR" {
			o.Tag = tagOfErr(r.ErrorDescription)
		} else if len(r.Data) > 0 {
			var tx struct {
				ID *big.Int `json:"id"`
			}
			if json.Unmarshal(r.Data, &tx) == nil && tx.ID != nil {
				o.Tag = int(tx.ID.Int64())
			}
		}
		ob.Results = append(ob.Results, o)
	}
	return
}

func isInvalid(e elem) bool { return coqAct(e.Act) == "AUnknown" || e.Data == "bad" }
func failsEl(e elem) bool   { return isInvalid(e) || e.Out != "succ" }

// oracle: C18 stated directly on the observables of one run
func oracle(r *vx.Run, in input, ob observation, via string) {
	sigIn := func() string {
		cause := "backend-outcomes-only"
		for _, e := range in.Els {
			if e.Data == "bad" && coqAct(e.Act) != "AUnknown" {
				cause = "undecodable-data"
			}
		}
		for _, e := range in.Els {
			if coqAct(e.Act) == "AUnknown" {
				cause = "unknown-action"
			}
		}
		return cause
	}
	// processed prefix
	n := len(in.Els)
	if !in.Cont {
		for i, e := range in.Els {
			if failsEl(e) {
				n = i + 1
				break
			}
		}
	}
	// order
	last := -1
	for _, c := range ob.Calls {
		if c.Idx <= last {
			r.FailSized("order:"+via+":"+sigIn(), in, fmt.Sprintf("calls not in request order: %v", ob.Calls), len(in.Els))
			return
		}
		last = c.Idx
		if c.Idx >= 0 && c.Idx < len(in.Els) && (c.Act != in.Els[c.Idx].Act || c.IK != in.Els[c.Idx].IK) {
			r.FailSized("call-content:"+via+":"+sigIn(), in, fmt.Sprintf("call %v does not match element", c), len(in.Els))
			return
		}
		if c.Own != "" {
			kind := strings.SplitN(c.Own, "=", 2)[0]
			r.FailSized("own-request:"+via+":"+kind, in, fmt.Sprintf("element %d reaches the backend with %s, which is not what the element says", c.Idx, c.Own), len(in.Els))
			if strings.HasPrefix(kind, "revert:") {
				r.FailP("C10", "bulk:revert-element-runs-with-a-force-flag-it-does-not-carry:"+via, in, fmt.Sprintf("element %d: %s", c.Idx, c.Own), len(in.Els))
			}
			return
		}
	}
	// every valid processed element is called exactly once, nothing else
	want := 0
	for i := 0; i < n; i++ {
		if !isInvalid(in.Els[i]) {
			want++
		}
	}
	if len(ob.Calls) != want {
		r.FailSized("calls-count:"+via+":"+sigIn(), in, fmt.Sprintf("%d calls, expected %d", len(ob.Calls), want), len(in.Els))
		return
	}
	// stop
	if !in.Cont {
		for _, c := range ob.Calls {
			if c.Idx >= n {
				r.FailSized("stop:"+via+":"+sigIn(), in, fmt.Sprintf("element %d executed after the first failure", c.Idx), len(in.Els))
				return
			}
		}
	}
	// positions
	if len(ob.Results) != n {
		r.FailSized("positions:"+via+":"+sigIn(), in, fmt.Sprintf("%d results for %d processed elements", len(ob.Results), n), len(in.Els))
		return
	}
	for i, res := range ob.Results {
		e := in.Els[i]
		if failsEl(e) != (res.Type == "ERROR") || (res.Type != "ERROR" && res.Type != e.Act) || (res.Tag >= 0 && res.Tag != i) {
			r.FailSized("positions:"+via+":"+sigIn(), in, fmt.Sprintf("result %d = %+v is not about element %d", i, res, i), len(in.Els))
			return
		}
	}
	// flag
	anyFail := false
	for i := 0; i < n; i++ {
		anyFail = anyFail || failsEl(in.Els[i])
	}
	if via == "http" {
		if (ob.Status == 400) != anyFail || (ob.Status != 400 && ob.Status != 200) {
			r.FailSized("flag:"+via+":"+sigIn(), in, fmt.Sprintf("status %d, some element failed = %v", ob.Status, anyFail), len(in.Els))
		}
	} else if (ob.Flag || ob.Err) != anyFail {
		r.FailSized("flag:"+via+":"+sigIn(), in, fmt.Sprintf("errorsInBulk=%v err=%v, some element failed = %v", ob.Flag, ob.Err, anyFail), len(in.Els))
	}
}

func coqCase(in input, d, h observation) string {
	var els, calls, ress []string
	for _, e := range in.Els {
		dk := "DOk"
		if e.Data == "bad" {
			dk = "DBad"
		}
		els = append(els, fmt.Sprintf("{| e_act := %s; e_ik := %s; e_data := %s; e_out := %s |}", coqAct(e.Act), vx.CoqN(ikN(e.IK)), dk, coqOut(e.Out)))
	}
	for _, c := range d.Calls {
		calls = append(calls, fmt.Sprintf("(%d, %s, %s)", c.Idx, coqAct(c.Act), vx.CoqN(ikN(c.IK))))
	}
	for _, x := range d.Results {
		t := "RError"
		if x.Type != "ERROR" {
			t = "RAction " + coqAct(x.Type)
		}
		ress = append(ress, fmt.Sprintf("(%s, %s, %s)", t, coqCode(x.Code), vx.CoqOpt(vx.CoqNat(x.Tag), x.Tag >= 0)))
	}
	return fmt.Sprintf("(%s, %s, {| ob_calls := %s; ob_results := %s; ob_flag := %s; ob_err := %s; ob_status := %d |})",
		vx.CoqBool(in.Cont), vx.CoqList(els), vx.CoqList(calls), vx.CoqList(ress), vx.CoqBool(d.Flag), vx.CoqBool(d.Err || d.NilRes && len(in.Els) > 0 && false), h.Status)
}

func sameObs(a, b observation) bool {
	if len(a.Calls) != len(b.Calls) || len(a.Results) != len(b.Results) {
		return false
	}
	for i := range a.Calls {
		if a.Calls[i] != b.Calls[i] {
			return false
		}
	}
	for i := range a.Results {
		if a.Results[i] != b.Results[i] {
			return false
		}
	}
	return true
}

func one(r *vx.Run, in input) {
	d, p := runDirect(in)
	if p != "" {
		r.FailSized("panic:direct", in, p, len(in.Els))
		return
	}
	h, raw := runHTTP(in)
	oracle(r, in, d, "direct")
	oracle(r, in, h, "http")
	if !sameObs(d, h) {
		r.FailSized("handler-differs-from-ProcessBulk", in, "http body: "+raw, len(in.Els))
	}
	key, _ := json.Marshal(in)
	nontrivial := false
	for _, e := range in.Els {
		r.Count("act:" + coqAct(e.Act))
		if failsEl(e) {
			nontrivial = true
			r.Count("failing-element")
		}
	}
	r.Count(fmt.Sprintf("len:%d", len(in.Els)))
	r.Case(coqCase(in, d, h), in, string(key), nontrivial && len(in.Els) >= 2)
}

func genElem(g *vx.Rng) elem {
	e := elem{Act: actions[g.Intn(4)], Data: "ok", Out: "succ", Bad: g.Intn(12), Opt: g.Intn(3)}
	if g.Chance(1, 6) {
		e.Act = unknowns[g.Intn(len(unknowns))]
	}
	if g.Chance(1, 7) {
		e.Data = "bad"
	}
	if g.Chance(1, 3) {
		e.Out = outs[1+g.Intn(6)]
	}
	if g.Chance(1, 2) {
		e.IK = fmt.Sprintf("k%d", 1+g.Intn(3))
		if g.Chance(1, 4) { // keys are text: blanks and letter case belong to them
			e.IK = []string{e.IK + " ", " " + e.IK, "K" + e.IK[1:], " ", "\t"}[g.Intn(5)]
		}
	}
	e.Bare = e.Act == v2.ActionCreateTransaction && g.Chance(1, 4)
	return e
}

func main() {
	r := vx.Start("C18", "bulk")
	r.Cases("From FL Require Import Bulk.Model.\n", "bool * list element * obs", 400)
	r.Sum.Rule = "bulk requests over the 4 actions + unknown action strings x decodable/undecodable data x 5 backend outcomes x idempotency keys x continueOnFailure; each is run through ProcessBulk and through the real v2 router; non-trivial = at least 2 elements and at least one failing element; distinct by the JSON of the input"
	docs, replayOnly := r.Inputs()
	for _, d := range docs {
		var in input
		if err := json.Unmarshal(d, &in); err == nil {
			one(r, in)
		}
	}
	if replayOnly {
		r.Finish()
		return
	}
	// exhaustive small space: all lists up to length L over (5 action classes x ok/bad x succ/fail), both flags
	L := 3
	if r.Thorough() {
		L = 4
	}
	type cls struct {
		act, data, out string
	}
	var classes []cls
	for _, a := range append(append([]string{}, actions...), "FROBNICATE") {
		for _, dk := range []string{"ok", "bad"} {
			for _, o := range []string{"succ", "other", "same"} {
				if (a == "FROBNICATE" || dk == "bad") && o != "succ" {
					continue
				}
				classes = append(classes, cls{a, dk, o})
			}
		}
	}
	var rec func(prefix []elem, depth int)
	rec = func(prefix []elem, depth int) {
		for _, cont := range []bool{false, true} {
			one(r, input{Cont: cont, Els: append([]elem{}, prefix...)})
		}
		if depth == L {
			return
		}
		for _, c := range classes {
			rec(append(prefix, elem{Act: c.act, Data: c.data, Out: c.out, Bad: depth}), depth+1)
		}
	}
	rec(nil, 0)
	// random longer lists with all outcome classes and keys
	g := vx.NewRng(r.Seed)
	N := 600
	if r.Thorough() {
		N = 20000
	}
	for k := 0; k < N; k++ {
		n := 1 + g.Intn(9)
		in := input{Cont: g.Bool()}
		if in.Cont {
			in.ContSp = []string{"", "true", "TRUE", "True", "1"}[g.Intn(5)]
		} else {
			in.ContSp = []string{"-", "-", "false", "FALSE", "False", "0", "no", "off", "=", "2", "yes"}[g.Intn(11)]
			if in.ContSp == "=" {
				in.ContSp = "%20" // a blank value
			}
		}
		if g.Chance(1, 6) {
			in.CancelAt = 1 + g.Intn(n)
		}
		if k%40 == 39 && !r.Thorough() || k%400 == 399 {
			n = 60 + g.Intn(200) // a long bulk
		}
		for i := 0; i < n; i++ {
			in.Els = append(in.Els, genElem(g))
		}
		one(r, in)
	}
	r.Finish()
}
