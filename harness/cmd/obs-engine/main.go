// obs-engine: the real command.Commander under the deterministic scheduler of harness/engx, on scenarios of
// concurrent writes; exhaustive / sampled interleavings, crash and store-failure injection; oracles for
// C02 C05 C06 C07 C10 C11 C14 C16 stated on what reached the disk, the responses and the published events.
package main

import (
	"context"
	"encoding/json"
	"fmt"
	"math/big"
	"os"
	"sort"
	"strings"
	"sync"
	"time"

	ledger "github.com/formancehq/ledger/internal"
	"github.com/formancehq/ledger/internal/bus"
	"github.com/formancehq/ledger/internal/engine/command"
	"github.com/formancehq/ledger/internal/engine/utils/batching"
	"github.com/formancehq/ledger/verifx/engx"
	"github.com/formancehq/ledger/verifx/vx"
)

// Scenario: a history executed sequentially first (setup), then concurrent requests explored under schedules.
type Scenario struct {
	Name    string     `json:"name"`
	Setup   []engx.Req `json:"setup"`
	Reqs    []engx.Req `json:"reqs"`
	Fail    bool       `json:"allow_store_failure,omitempty"`
	Crash   bool       `json:"allow_crash,omitempty"`
	Cancel  bool       `json:"allow_cancel,omitempty"`
	FailCtx bool       `json:"allow_store_failure_ctx_canceled,omitempty"`
	Budget  int        `json:"budget,omitempty"`
	// ReadFail: kinds of store read ("ik", "ref", "tx", "balance", "account") that fail with a transient error while
	// the requests run (not during the setup): every request that needs such a read must fail and leave nothing
	ReadFail []string `json:"read_fail,omitempty"`
	// ReadFailChoice: the scheduler may choose read_fail(t) (once per execution): the next store read of request t fails
	// with a transient error. Replayed on the model (AResumeReadFail), unlike the scenario-wide switch above.
	ReadFailChoice bool `json:"allow_read_fail,omitempty"`
	// Close: the scheduler may shut the commander down gracefully once (Commander.Close): close / close_ok / close_fail
	Close bool `json:"allow_close,omitempty"`
	// Directed: schedules given by choice names ("start(1)", "cancel(1)", "persist_ok(-1)"; "resume(0)*" = as long as
	// that choice is enabled), executed (and replayed on the model) before the search; once a script is used up the
	// first enabled choice is taken
	Directed [][]string `json:"directed,omitempty"`
}

type Exec struct {
	Schedule     []int                  `json:"schedule"`
	Counts       []int                  `json:"-"`
	Choices      []string               `json:"choices"`
	Responses    []engx.Response        `json:"responses"`
	Trace        []engx.Event           `json:"trace,omitempty"`
	Disk         []*ledger.ChainedLog   `json:"-"`
	Batches      [][]*ledger.ChainedLog `json:"-"`
	Published    []engx.Published       `json:"-"`
	Fault        string                 `json:"fault,omitempty"`
	LostAck      int                    `json:"lost_ack"`
	LostAckSet   bool                   `json:"lost_ack_set,omitempty"`
	Stuck        bool                   `json:"stuck,omitempty"`
	FinalCount   int                    `json:"-"` // choices left when the execution stopped
	Shadow       []string               `json:"-"` // reads on which storage.InMemoryStore (fed the same batches) differs from the log
	SetupLen     int                    `json:"setup_len"`
	SetupChoices []engx.Choice          `json:"-"`
	MainChoices  []engx.Choice          `json:"-"`
}

func send(amount int, src, dst string) string {
	return fmt.Sprintf("send [USD %d] (\n  source = %s\n  destination = %s\n)\n", amount, src, dst)
}

// run executes the scenario following the schedule prefix (then always choice 0).
func run(sc Scenario, prefix []int, keepTrace bool) Exec { return runDirected(sc, prefix, nil, keepTrace) }

// runDirected: the choices named by the script come first (see Scenario.Directed), then the prefix applies.
func runDirected(sc Scenario, prefix []int, script []string, keepTrace bool) Exec {
	disk := &engx.Disk{}
	var setupChoices []engx.Choice
	// setup: sequential, uncontrolled interleaving is impossible with one thread at a time
	if len(sc.Setup) > 0 {
		s := engx.New(disk, sc.Setup)
		for !s.Done() && s.Fault == "" {
			// strictly one request after the other: finish what runs, persist, only then start the next
			en := s.Enabled()
			pick := en[0]
			for _, want := range []string{"resume", "persist_ok", "start"} {
				found := false
				for _, c := range en {
					if c.Kind == want {
						pick, found = c, true
						break
					}
				}
				if found {
					break
				}
			}
			setupChoices = append(setupChoices, pick)
			s.Do(pick)
		}
		s.Close()
	}
	ex := Exec{SetupLen: len(disk.Logs), SetupChoices: setupChoices}
	s := engx.New(disk, sc.Reqs)
	s.AllowFail, s.AllowCrash, s.AllowCancel, s.AllowFailCtx = sc.Fail, sc.Crash, sc.Cancel, sc.FailCtx
	s.AllowReadFail = sc.ReadFailChoice
	s.AllowClose = sc.Close
	if len(sc.ReadFail) > 0 {
		s.ReadFail = map[string]bool{}
		for _, k := range sc.ReadFail {
			s.ReadFail[k] = true
		}
	}
	step := 0
	for s.Fault == "" {
		en := s.Enabled()
		if len(en) == 0 {
			break
		}
		k := 0
		if step < len(prefix) {
			k = prefix[step]
		}
		if k >= len(en) {
			k = 0
		}
		if len(script) > 0 {
			k = -1
			for len(script) > 0 && k < 0 {
				name, star := script[0], false
				if strings.HasSuffix(name, "*") {
					name, star = name[:len(name)-1], true
				}
				for i, c := range en {
					if c.String() == name {
						k = i
					}
				}
				if k < 0 && !star {
					s.Fault = fmt.Sprintf("directed schedule: %s is not enabled after %v (enabled: %v)", name, ex.Choices, en)
					break
				}
				if k < 0 || !star {
					script = script[1:]
				}
			}
			if s.Fault != "" {
				break
			}
			if k < 0 {
				k = 0
			}
		}
		ex.Schedule = append(ex.Schedule, k)
		ex.Counts = append(ex.Counts, len(en))
		ex.Choices = append(ex.Choices, en[k].String())
		ex.MainChoices = append(ex.MainChoices, s.Do(en[k]))
		step++
		if step > 400 {
			s.Fault = "schedule too long"
		}
	}
	ex.Stuck = s.Stuck()
	ex.FinalCount = len(s.Enabled())
	ex.Fault = s.Fault
	ex.LostAck, ex.LostAckSet = s.LostAck, s.LostAckSet
	ex.Responses = s.Responses()
	ex.Disk = append([]*ledger.ChainedLog{}, disk.Logs...)
	ex.Batches = disk.Batches
	ex.Shadow = append([]string{}, disk.ShadowDiffs...)
	ex.Published = s.Published
	if keepTrace {
		ex.Trace = s.Trace
	}
	s.Close()
	return ex
}

// next advances the odometer over the observed branching factors; nil when exhausted.
func next(schedule, counts []int) []int {
	for i := len(schedule) - 1; i >= 0; i-- {
		if schedule[i]+1 < counts[i] {
			n := append([]int{}, schedule[:i]...)
			return append(n, schedule[i]+1)
		}
	}
	return nil
}

// ---- oracles -----------------------------------------------------------------------------------------------

func txOf(l *ledger.ChainedLog) *ledger.Transaction {
	switch p := l.Data.(type) {
	case ledger.NewTransactionLogPayload:
		return p.Transaction
	case ledger.RevertedTransactionLogPayload:
		return p.RevertTransaction
	}
	return nil
}

type failure struct{ prop, sig, detail string }

func oracles(sc Scenario, ex Exec) []failure {
	var fs []failure
	add := func(p, sig, d string) { fs = append(fs, failure{p, sig, d}) }
	// C05: ids 0,1,2,..., hash chain, transaction ids 0,1,2,... in log order
	var prev *ledger.ChainedLog
	nextTx := int64(0)
	for i, l := range ex.Disk {
		if l.ID.Cmp(big.NewInt(int64(i))) != 0 {
			add("C05", "log-ids-not-contiguous", fmt.Sprintf("position %d holds log id %s", i, l.ID))
			break
		}
		cp := *l
		cp.Hash = nil
		cp.ID = big.NewInt(0) // ComputeHash runs before the id is assigned
		cp.ComputeHash(prev)
		if string(cp.Hash) != string(l.Hash) {
			add("C05", "hash-chain-broken", fmt.Sprintf("log %d: stored hash is not the digest of the previous hash and its content", i))
			break
		}
		prev = l
		if tx := txOf(l); tx != nil {
			if tx.ID.Cmp(big.NewInt(nextTx)) != 0 {
				add("C05", "tx-ids-not-contiguous", fmt.Sprintf("log %d carries transaction id %s, expected %d", i, tx.ID, nextTx))
				break
			}
			nextTx++
		}
	}
	// C02: serial validity of the committed history (posting-level floor, world and forced reverts unbounded)
	bal := map[string]*big.Int{}
	get := func(a, s string) *big.Int {
		if bal[a+"/"+s] == nil {
			bal[a+"/"+s] = big.NewInt(0)
		}
		return bal[a+"/"+s]
	}
	forced := map[string]bool{}
	for i, r := range sc.Reqs {
		if r.Kind == "revert" && r.Force && ex.Responses[i].OK {
			forced[ex.Responses[i].TxID] = true
		}
	}
	for _, r := range sc.Setup {
		_ = r
	}
	unb := scriptUnbounded(sc)
	for i, l := range ex.Disk {
		tx := txOf(l)
		if tx == nil {
			continue
		}
		for _, p := range tx.Postings {
			if p.Source != "world" && !forced[tx.ID.String()] && !unb[p.Source] && i >= ex.SetupLen {
				avail := get(p.Source, p.Asset)
				if avail.Sign() < 0 {
					avail = big.NewInt(0)
				}
				if p.Amount.Cmp(avail) > 0 {
					add("C02", "committed-history-not-serially-valid", fmt.Sprintf("log %d (tx %s) takes %s from %s which holds %s at that position of the log", i, tx.ID, p.Amount, p.Source, get(p.Source, p.Asset)))
				}
			}
			get(p.Source, p.Asset).Sub(get(p.Source, p.Asset), p.Amount)
			get(p.Destination, p.Asset).Add(get(p.Destination, p.Asset), p.Amount)
		}
	}
	// C11 / C07 / C10: at most one entry per reference / idempotency key / reverted transaction
	refs, iks, revs := map[string]int{}, map[string]int{}, map[string]int{}
	for _, l := range ex.Disk {
		if tx := txOf(l); tx != nil && tx.Reference != "" {
			refs[tx.Reference]++
		}
		if l.IdempotencyKey != "" {
			iks[l.IdempotencyKey]++
		}
		if p, ok := l.Data.(ledger.RevertedTransactionLogPayload); ok {
			revs[p.RevertedTransactionID.String()]++
		}
	}
	for k, n := range refs {
		if n > 1 {
			add("C11", "reference-committed-twice", fmt.Sprintf("%d transactions carry reference %q", n, k))
		}
	}
	for k, n := range iks {
		if n > 1 {
			add("C07", "idempotency-key-took-effect-twice", fmt.Sprintf("%d log entries carry key %q", n, k))
		}
	}
	for k, n := range revs {
		if n > 1 {
			add("C10", "transaction-reverted-twice", fmt.Sprintf("%d revert entries for transaction %s", n, k))
		}
	}
	// C11: a creation that is refused because its reference is taken -- committed, or reserved by a request still in
	// flight -- is refused with the conflict error, not with whatever the reservation happened to say
	for i, r := range sc.Reqs {
		if r.Reference == "" || ex.Responses[i].OK || !strings.HasPrefix(ex.Responses[i].Err, "other:") {
			continue
		}
		competitor := false
		for j, q := range sc.Reqs {
			competitor = competitor || (j != i && q.Reference == r.Reference)
		}
		for _, q := range sc.Setup {
			competitor = competitor || q.Reference == r.Reference
		}
		if competitor {
			add("C11", "reference-taken-not-answered-with-a-conflict", fmt.Sprintf("request %d (reference %q) is refused with %q", i, r.Reference, ex.Responses[i].Err))
		}
	}
	// C07: writes with a key that report success agree on the outcome, and the key is on the entry
	byIK := map[string][]int{}
	for i, r := range sc.Reqs {
		if r.IK != "" && !r.DryRun && ex.Responses[i].OK {
			byIK[r.IK] = append(byIK[r.IK], i)
		}
	}
	for k, is := range byIK {
		if iks[k] == 0 {
			add("C07", "idempotency-key-not-recorded:"+sc.Reqs[is[0]].Kind, fmt.Sprintf("a %s with key %q succeeded but no log entry carries the key", sc.Reqs[is[0]].Kind, k))
		}
		for _, i := range is[1:] {
			if ex.Responses[i].TxID != ex.Responses[is[0]].TxID {
				sig := "same-key-different-outcome"
				if sc.Reqs[i].Kind != sc.Reqs[is[0]].Kind {
					sig += ":idempotency-key-stored-by-another-kind-of-write"
				}
				add("C07", sig, fmt.Sprintf("key %q: tx %s and tx %s", k, ex.Responses[is[0]].TxID, ex.Responses[i].TxID))
			} else if a, b := ex.Responses[is[0]].Content, ex.Responses[i].Content; a != "" && b != "" && a != b {
				add("C07", "same-key-different-content", fmt.Sprintf("key %q: answered %s, later answered %s", k, a, b))
			}
		}
	}
	// C07: a success under a key is the outcome of THIS request: the entry stored under the key has the request's kind
	// and target (revert: the same reverted transaction; metadata: same target and content)
	for i, r := range sc.Reqs {
		if r.IK == "" || !ex.Responses[i].OK {
			continue
		}
		for _, l := range ex.Disk {
			if l.IdempotencyKey == r.IK && !isOutcome(r, l) {
				add("C07", "key-reused-for-a-different-request-accepted:"+r.Kind, fmt.Sprintf("request %d (%s) answered success under key %q, which stores %s", i, contentKey(r), r.IK, entryKey(l)))
				break
			}
		}
	}
	// C06: acknowledged => persisted at response time; one entry per successful non-replayed write; no orphan
	produced := 0
	for i, r := range sc.Reqs {
		resp := ex.Responses[i]
		if !resp.OK || r.DryRun {
			continue
		}
		found := false
		for j, l := range ex.Disk {
			if j >= resp.Persisted {
				break
			}
			if matches(r, resp, l) {
				found = true
			}
		}
		if !found {
			sig := "acknowledged-but-not-persisted:" + r.Kind
			if r.IK != "" {
				for _, l := range ex.Disk {
					if l.IdempotencyKey == r.IK && !matchesKind(r, l) {
						sig += ":idempotency-key-stored-by-another-kind-of-write"
						break
					}
				}
			}
			add("C06", sig, fmt.Sprintf("request %d (%s) answered success with %d entries on disk, none of them its own", i, r.Kind, resp.Persisted))
		}
	}
	_ = produced
	okWrites := 0
	for i, r := range sc.Reqs {
		if ex.Responses[i].OK && !r.DryRun {
			okWrites++
		}
	}
	newEntries := len(ex.Disk) - ex.SetupLen
	crashed := 0
	for _, r := range ex.Responses {
		if r.Err == "crashed" {
			crashed++
		}
	}
	distinctAcked := map[string]bool{}
	for i, r := range sc.Reqs {
		if ex.Responses[i].OK && !r.DryRun {
			distinctAcked[fmt.Sprint(r.Kind, "/", ex.Responses[i].TxID, "/", r.IK, "/", i*boolInt(r.IK == ""))] = true
		}
	}
	if newEntries > len(sc.Reqs) {
		add("C06", "more-entries-than-requests", fmt.Sprintf("%d new entries for %d requests", newEntries, len(sc.Reqs)))
	}
	if crashed == 0 && newEntries > len(distinctAcked) {
		add("C06", "entry-without-successful-request", fmt.Sprintf("%d new entries, %d acknowledged distinct writes, nobody crashed", newEntries, len(distinctAcked)))
	}
	// C06: a write that reported an error (and did not die) leaves no entry: per content class, no more entries than
	// requests that may legitimately have produced one (answered success, or died with the process)
	classes := map[string][2]int{}
	for i, r := range sc.Reqs {
		if r.DryRun {
			continue
		}
		k := contentKey(r)
		c := classes[k]
		if ex.Responses[i].OK || ex.Responses[i].Err == "crashed" {
			c[0]++
		}
		classes[k] = c
	}
	for _, l := range ex.Disk[ex.SetupLen:] {
		k := entryKey(l)
		c := classes[k]
		c[1]++
		classes[k] = c
	}
	for k, c := range classes {
		if c[1] > c[0] {
			add("C06", "rejected-write-left-an-entry", fmt.Sprintf("%d entries of content %s, but only %d such requests succeeded or died", c[1], k, c[0]))
		}
	}
	// C13: every stored entry survives the JSON round trip and re-verifies against its predecessor
	var prevRT *ledger.ChainedLog
	for i, l := range ex.Disk {
		js, err := json.Marshal(l)
		if err != nil {
			add("C13", "engine-entry-does-not-marshal", fmt.Sprintf("log %d: %v", i, err))
			break
		}
		back := &ledger.ChainedLog{}
		if err := json.Unmarshal(js, back); err != nil {
			add("C13", "engine-entry-does-not-read-back", fmt.Sprintf("log %d: %v", i, err))
			break
		}
		re := back.Log
		chained := re.ChainLog(prevRT)
		if string(chained.Hash) != string(l.Hash) {
			add("C13", "engine-entry-hash-does-not-verify-after-readback", fmt.Sprintf("log %d (%s, key %q): the hash recomputed from the read-back content and the previous hash differs from the stored hash", i, l.Type, l.IdempotencyKey))
			break
		}
		prevRT = back
	}
	// C14: a dry run leaves nothing behind
	for i, r := range sc.Reqs {
		if !r.DryRun {
			continue
		}
		for _, p := range ex.Published {
			if p.Tid == i {
				add("C14", "preview-published-an-event", fmt.Sprintf("request %d is a dry run and published %s", i, p.Kind))
				add("C16", "event-for-a-preview", fmt.Sprintf("request %d is a dry run and published %s", i, p.Kind))
			}
		}
	}
	// C16: events after persistence, faithful, at least once
	for _, p := range ex.Published {
		if p.Tid >= 0 && p.Tid < len(sc.Reqs) && sc.Reqs[p.Tid].DryRun {
			continue
		}
		switch p.Kind {
		case "committed":
			ok := false
			for _, l := range p.Persisted {
				if pl, is := l.Data.(ledger.NewTransactionLogPayload); is && pl.Transaction.ID.Cmp(p.Tx.ID) == 0 && samePostings(pl.Transaction.Postings, p.Tx.Postings) {
					ok = true
				}
			}
			if !ok {
				add("C16", "committed-event-without-persisted-entry", fmt.Sprintf("event for tx %s published with %d entries on disk, none matching", p.Tx.ID, len(p.Persisted)))
			}
		case "saved_metadata", "deleted_metadata":
			ok := false
			for _, l := range p.Persisted {
				switch l.Data.(type) {
				case ledger.SetMetadataLogPayload:
					ok = ok || p.Kind == "saved_metadata"
				case ledger.DeleteMetadataLogPayload:
					ok = ok || p.Kind == "deleted_metadata"
				}
			}
			if !ok {
				sig := "metadata-event-without-persisted-entry"
				if p.Tid >= 0 && p.Tid < len(sc.Reqs) && sc.Reqs[p.Tid].IK != "" {
					for _, l := range p.Persisted {
						if l.IdempotencyKey == sc.Reqs[p.Tid].IK && !matchesKind(sc.Reqs[p.Tid], l) {
							sig += ":idempotency-key-stored-by-another-kind-of-write"
							break
						}
					}
				}
				add("C16", sig, fmt.Sprintf("%s event published with no such entry on disk", p.Kind))
			}
		case "reverted":
			ok := false
			for _, l := range p.Persisted {
				if pl, is := l.Data.(ledger.RevertedTransactionLogPayload); is && p.Tx != nil && p.Reverted != nil &&
					pl.RevertTransaction.ID.Cmp(p.Tx.ID) == 0 && pl.RevertedTransactionID.Cmp(p.Reverted.ID) == 0 {
					ok = true
				}
			}
			if !ok {
				rv, rt := "?", "?"
				if p.Reverted != nil {
					rv = p.Reverted.ID.String()
				}
				if p.Tx != nil {
					rt = p.Tx.ID.String()
				}
				sig := "reverted-event-not-faithful"
				if p.Tid >= 0 && p.Tid < len(sc.Reqs) && sc.Reqs[p.Tid].IK != "" {
					for _, l := range p.Persisted {
						if pl, is := l.Data.(ledger.RevertedTransactionLogPayload); is && l.IdempotencyKey == sc.Reqs[p.Tid].IK &&
							pl.RevertedTransactionID.Cmp(big.NewInt(sc.Reqs[p.Tid].RevertID)) != 0 {
							sig = "reverted-event-not-faithful:idempotency-key-reused-for-a-revert-of-another-transaction"
						}
					}
				}
				add("C16", sig, fmt.Sprintf("event says reverted=%s revert=%s; no persisted revert entry says so", rv, rt))
			}
		}
	}
	for i, r := range sc.Reqs {
		if !ex.Responses[i].OK || r.DryRun {
			continue
		}
		n := 0
		for _, p := range ex.Published {
			if p.Tid == i {
				n++
			}
		}
		if n == 0 {
			add("C16", "persisted-change-never-published:"+r.Kind, fmt.Sprintf("request %d succeeded and published nothing", i))
		}
	}
	// C16: every persisted change is published at least once -- stated on the entries: when no request died with the
	// process (a dead request publishes nothing), every entry the requests of this execution put on disk has an event of
	// its kind (and, for a transaction / revert, of its transaction id)
	dead := false
	for _, r := range ex.Responses {
		dead = dead || r.Err == "crashed"
	}
	if !dead && ex.Fault == "" {
		metaEvents := map[string]int{}
		for _, p := range ex.Published {
			if p.Kind == "saved_metadata" || p.Kind == "deleted_metadata" {
				metaEvents[p.Kind]++
			}
		}
		metaEntries := map[string]int{}
		for j, l := range ex.Disk[ex.SetupLen:] {
			switch l.Data.(type) {
			case ledger.SetMetadataLogPayload:
				metaEntries["saved_metadata"]++
			case ledger.DeleteMetadataLogPayload:
				metaEntries["deleted_metadata"]++
			default:
				tx, found := txOf(l), false
				for _, p := range ex.Published {
					found = found || (p.Tx != nil && tx != nil && p.Tx.ID.Cmp(tx.ID) == 0)
				}
				if !found {
					add("C16", "persisted-entry-never-published:"+l.Type.String(), fmt.Sprintf("log %d (%s) is on disk, nobody died, and no event carries its transaction", ex.SetupLen+j, l.Type))
				}
			}
		}
		for k, n := range metaEntries {
			if metaEvents[k] < n {
				add("C16", "persisted-entry-never-published:"+k, fmt.Sprintf("%d %s entries written, %d such events", n, k, metaEvents[k]))
			}
		}
	}
	if ex.Stuck {
		add("C06", "deadlock", "requests remain and nothing is enabled")
	}
	for i, r := range ex.Responses {
		if r.Panic != "" {
			sig := "request-panicked"
			if sc.Reqs[i].IK != "" {
				for _, l := range ex.Disk {
					if l.IdempotencyKey == sc.Reqs[i].IK && !matchesKind(sc.Reqs[i], l) {
						sig += ":idempotency-key-stored-by-another-kind-of-write"
						break
					}
				}
			}
			add("C06", sig, fmt.Sprintf("request %d: %s", i, r.Panic))
		}
	}
	return fs
}

func contentKey(r engx.Req) string {
	switch r.Kind {
	case "create":
		ps := r.ModelPostings
		if len(ps) == 0 {
			ps = r.Postings
		}
		var b strings.Builder
		for _, p := range ps {
			fmt.Fprintf(&b, "%s>%s:%d;", p.Source, p.Destination, p.Amount)
		}
		return fmt.Sprintf("create ref=%q ik=%q %s", r.Reference, r.IK, b.String())
	case "revert":
		return fmt.Sprintf("revert %d ik=%q", r.RevertID, r.IK)
	case "savemeta":
		return fmt.Sprintf("savemeta %s %s ik=%q", r.Target, r.TargetID, r.IK)
	}
	return fmt.Sprintf("delmeta %s %s %s ik=%q", r.Target, r.TargetID, r.Key, r.IK)
}

func entryKey(l *ledger.ChainedLog) string {
	switch p := l.Data.(type) {
	case ledger.NewTransactionLogPayload:
		var b strings.Builder
		for _, x := range p.Transaction.Postings {
			fmt.Fprintf(&b, "%s>%s:%s;", x.Source, x.Destination, x.Amount)
		}
		return fmt.Sprintf("create ref=%q ik=%q %s", p.Transaction.Reference, l.IdempotencyKey, b.String())
	case ledger.RevertedTransactionLogPayload:
		return fmt.Sprintf("revert %s ik=%q", p.RevertedTransactionID, l.IdempotencyKey)
	case ledger.SetMetadataLogPayload:
		return fmt.Sprintf("savemeta %s %v ik=%q", p.TargetType, p.TargetID, l.IdempotencyKey)
	case ledger.DeleteMetadataLogPayload:
		return fmt.Sprintf("delmeta %s %v %s ik=%q", p.TargetType, p.TargetID, p.Key, l.IdempotencyKey)
	}
	return "?"
}

// isOutcome: the stored entry is the outcome of this request, as the engine compares them before replaying a key
func isOutcome(r engx.Req, l *ledger.ChainedLog) bool {
	switch p := l.Data.(type) {
	case ledger.NewTransactionLogPayload:
		return r.Kind == "create"
	case ledger.RevertedTransactionLogPayload:
		return r.Kind == "revert" && p.RevertedTransactionID.Cmp(big.NewInt(r.RevertID)) == 0
	case ledger.SetMetadataLogPayload:
		return r.Kind == "savemeta" && metaName("savemeta", p.TargetType, fmt.Sprint(p.TargetID), p.Metadata, "") == metaName("savemeta", r.Target, r.TargetID, r.Meta, "")
	case ledger.DeleteMetadataLogPayload:
		return r.Kind == "delmeta" && metaName("delmeta", p.TargetType, fmt.Sprint(p.TargetID), nil, p.Key) == metaName("delmeta", r.Target, r.TargetID, nil, r.Key)
	}
	return false
}

func matchesKind(r engx.Req, l *ledger.ChainedLog) bool {
	switch l.Data.(type) {
	case ledger.NewTransactionLogPayload:
		return r.Kind == "create"
	case ledger.RevertedTransactionLogPayload:
		return r.Kind == "revert"
	case ledger.SetMetadataLogPayload:
		return r.Kind == "savemeta"
	case ledger.DeleteMetadataLogPayload:
		return r.Kind == "delmeta"
	}
	return false
}

func boolInt(b bool) int {
	if b {
		return 1
	}
	return 0
}

func samePostings(a, b ledger.Postings) bool {
	if len(a) != len(b) {
		return false
	}
	for i := range a {
		if a[i].Source != b[i].Source || a[i].Destination != b[i].Destination || a[i].Asset != b[i].Asset || a[i].Amount.Cmp(b[i].Amount) != 0 {
			return false
		}
	}
	return true
}

func matches(r engx.Req, resp engx.Response, l *ledger.ChainedLog) bool {
	switch r.Kind {
	case "create":
		p, ok := l.Data.(ledger.NewTransactionLogPayload)
		return ok && p.Transaction.ID.String() == resp.TxID && (resp.Tx == nil || samePostings(p.Transaction.Postings, resp.Tx.Postings))
	case "revert":
		p, ok := l.Data.(ledger.RevertedTransactionLogPayload)
		return ok && p.RevertTransaction.ID.String() == resp.TxID
	case "savemeta":
		p, ok := l.Data.(ledger.SetMetadataLogPayload)
		return ok && p.TargetType == r.Target && fmt.Sprint(p.TargetID) == r.TargetID
	case "delmeta":
		p, ok := l.Data.(ledger.DeleteMetadataLogPayload)
		return ok && p.TargetType == r.Target && fmt.Sprint(p.TargetID) == r.TargetID && p.Key == r.Key
	}
	return false
}

// accounts a scenario's scripts grant unbounded overdraft to (the floor oracle must not judge them)
func scriptUnbounded(sc Scenario) map[string]bool {
	m := map[string]bool{}
	for _, r := range append(append([]engx.Req{}, sc.Setup...), sc.Reqs...) {
		if i := strings.Index(r.Script, "allowing unbounded overdraft"); i >= 0 {
			for _, a := range []string{"alice", "bob", "carol", "cfg"} {
				if strings.Contains(r.Script, "@"+a+" allowing unbounded") {
					m[a] = true
				}
			}
		}
	}
	return m
}

// ---- scenarios ----------------------------------------------------------------------------------------------

func fund(acc string, amt int) engx.Req {
	return engx.Req{Kind: "create", Script: send(amt, "@world", "@"+acc), ModelPostings: []engx.PostingReq{{Source: "world", Destination: acc, Asset: "USD", Amount: int64(amt)}}}
}

// xfer: a one-posting script request together with its meaning for the model
func xfer(amt int, src, dst string) engx.Req {
	return engx.Req{Kind: "create", Script: send(amt, "@"+src, "@"+dst), ModelPostings: []engx.PostingReq{{Source: src, Destination: dst, Asset: "USD", Amount: int64(amt)}}}
}
func with(r engx.Req, f func(*engx.Req)) engx.Req { f(&r); return r }

func scenarios() []Scenario {
	meta := engx.Req{Kind: "savemeta", Target: "ACCOUNT", TargetID: "cfg", Meta: map[string]string{"src": "alice"}}
	viaMeta := with(xfer(100, "alice", "bob"), func(r *engx.Req) {
		r.Script = "vars {\n  account $x = meta(@cfg, \"src\")\n}\n" + send(100, "$x", "@bob")
	})
	viaVar := with(xfer(100, "alice", "bob"), func(r *engx.Req) {
		r.Script = "vars {\n  account $x\n}\n" + send(100, "$x", "@bob")
		r.Vars = map[string]string{"x": "alice"}
	})
	// a fee from @world first, then the whole of alice's balance
	worldFirst := func(dst string) engx.Req {
		return engx.Req{Kind: "create", Script: send(1, "@world", "@fees") + send(100, "@alice", "@"+dst),
			ModelPostings: []engx.PostingReq{{Source: "world", Destination: "fees", Asset: "USD", Amount: 1}, {Source: "alice", Destination: dst, Asset: "USD", Amount: 100}}}
	}
	// both halves of the amount from accounts named only inside an allotment source
	allotSrc := func(dst string) engx.Req {
		return engx.Req{Kind: "create", Script: fmt.Sprintf("send [USD 100] (\n  source = {\n    50%% from @alice\n    50%% from @dave\n  }\n  destination = @%s\n)\n", dst),
			ModelPostings: []engx.PostingReq{{Source: "alice", Destination: dst, Asset: "USD", Amount: 50}, {Source: "dave", Destination: dst, Asset: "USD", Amount: 50}}}
	}
	ref := func(r engx.Req, x string) engx.Req { r.Reference = x; return r }
	ik := func(r engx.Req, x string) engx.Req { r.IK = x; return r }
	dry := func(r engx.Req) engx.Req { r.DryRun = true; return r }
	metaA := engx.Req{Kind: "savemeta", Target: "ACCOUNT", TargetID: "alice", Meta: map[string]string{"a": "1"}}
	// request 0 holds the locks until it is done, request 1 has queued and is granted by 0's release; only then is 1 cancelled
	grantedThenCancelled := []string{"start(0)", "resume(0)*", "start(1)", "resume(1)*", "persist_ok(-1)", "resume(0)*", "cancel(1)", "resume(1)"}
	// the same with request 2 queued behind 1: when 1 gives its grant back the queue is re-checked and 2 is granted
	regrant := []string{"start(0)", "resume(0)*", "start(1)", "resume(1)*", "start(2)", "resume(2)*", "persist_ok(-1)", "resume(0)*", "cancel(1)", "resume(1)", "resume(2)*"}
	return []Scenario{
		{Name: "double-spend-literal", Setup: []engx.Req{fund("alice", 100)}, Reqs: []engx.Req{xfer(100, "alice", "bob"), xfer(100, "alice", "carol")}},
		{Name: "double-spend-variable", Setup: []engx.Req{fund("alice", 100)}, Reqs: []engx.Req{viaVar, xfer(100, "alice", "carol")}},
		{Name: "double-spend-metadata", Setup: []engx.Req{fund("alice", 100), meta}, Reqs: []engx.Req{viaMeta, xfer(100, "alice", "carol")}},
		{Name: "chain-spend", Setup: []engx.Req{fund("alice", 100)}, Reqs: []engx.Req{xfer(60, "alice", "bob"), xfer(50, "bob", "carol"), xfer(60, "alice", "carol")}, Budget: 300},
		{Name: "same-reference", Setup: []engx.Req{fund("alice", 300)}, Reqs: []engx.Req{ref(xfer(10, "alice", "bob"), "ref1"), ref(xfer(20, "alice", "carol"), "ref1")}},
		{Name: "same-reference-loser-fails", Setup: []engx.Req{fund("alice", 5)}, Reqs: []engx.Req{ref(xfer(10, "alice", "bob"), "ref1"), ref(xfer(1, "alice", "carol"), "ref1")}},
		{Name: "same-ik-create", Setup: []engx.Req{fund("alice", 300)}, Reqs: []engx.Req{ik(xfer(10, "alice", "bob"), "k1"), ik(xfer(10, "alice", "bob"), "k1")}},
		{Name: "same-ik-savemeta", Reqs: []engx.Req{ik(metaA, "k2"), ik(metaA, "k2")}},
		{Name: "same-ik-delmeta", Setup: []engx.Req{metaA}, Reqs: []engx.Req{
			{Kind: "delmeta", Target: "ACCOUNT", TargetID: "alice", Key: "a", IK: "k4"}, {Kind: "delmeta", Target: "ACCOUNT", TargetID: "alice", Key: "a", IK: "k4"}}},
		{Name: "racing-reverts", Setup: []engx.Req{fund("alice", 100), xfer(40, "alice", "bob")}, Reqs: []engx.Req{
			{Kind: "revert", RevertID: 1}, {Kind: "revert", RevertID: 1}}},
		{Name: "revert-vs-spend", Setup: []engx.Req{fund("alice", 100), xfer(40, "alice", "bob")}, Reqs: []engx.Req{
			{Kind: "revert", RevertID: 1}, xfer(40, "bob", "carol")}},
		{Name: "revert-forced", Setup: []engx.Req{fund("alice", 100), xfer(40, "alice", "bob"), xfer(40, "bob", "carol")}, Reqs: []engx.Req{
			{Kind: "revert", RevertID: 1, Force: true}, ik(engx.Req{Kind: "revert", RevertID: 2}, "k5")}},
		{Name: "preview-then-real", Setup: []engx.Req{fund("alice", 100)}, Reqs: []engx.Req{dry(xfer(10, "alice", "bob")), xfer(10, "alice", "bob")}},
		{Name: "preview-kinds", Setup: []engx.Req{fund("alice", 100), xfer(5, "alice", "bob")}, Reqs: []engx.Req{
			dry(engx.Req{Kind: "revert", RevertID: 1}), dry(metaA), xfer(1, "alice", "bob")}, Budget: 300},
		{Name: "two-writers-chain", Setup: []engx.Req{fund("alice", 100), fund("bob", 100)}, Reqs: []engx.Req{
			xfer(1, "alice", "carol"), xfer(1, "bob", "carol"), metaA}},
		{Name: "meta-on-transaction", Setup: []engx.Req{fund("alice", 100)}, Reqs: []engx.Req{
			{Kind: "savemeta", Target: "TRANSACTION", TargetID: "0", Meta: map[string]string{"a": "1"}},
			{Kind: "savemeta", Target: "TRANSACTION", TargetID: "7", Meta: map[string]string{"a": "1"}}}},
		{Name: "ik-reuse-different-revert", Setup: []engx.Req{fund("alice", 100), xfer(10, "alice", "bob"), xfer(10, "alice", "bob"), ik(engx.Req{Kind: "revert", RevertID: 1}, "k9")},
			Reqs: []engx.Req{ik(engx.Req{Kind: "revert", RevertID: 2}, "k9")}, Budget: 10},
		{Name: "ik-reuse-across-kinds", Setup: []engx.Req{fund("alice", 100), ik(xfer(10, "alice", "bob"), "k6"), ik(metaA, "k8")},
			Reqs: []engx.Req{ik(metaA, "k6"), ik(engx.Req{Kind: "delmeta", Target: "ACCOUNT", TargetID: "alice", Key: "a"}, "k6"), ik(xfer(1, "alice", "bob"), "k8")}, Budget: 60},
		{Name: "same-reference-one-with-ik", Setup: []engx.Req{fund("alice", 300)}, Reqs: []engx.Req{
			ref(xfer(10, "alice", "bob"), "r5"), ik(ref(xfer(20, "alice", "carol"), "r5"), "k10")}},
		{Name: "reference-after-revert", Setup: []engx.Req{fund("alice", 300), ref(xfer(10, "alice", "bob"), "r6"), engx.Req{Kind: "revert", RevertID: 1}},
			Reqs: []engx.Req{ref(xfer(20, "alice", "carol"), "r6")}, Budget: 10},
		{Name: "restart-after-revert", Setup: []engx.Req{fund("alice", 300), xfer(10, "alice", "bob"), xfer(20, "alice", "bob"), engx.Req{Kind: "revert", RevertID: 1}},
			Reqs: []engx.Req{xfer(1, "alice", "carol"), xfer(2, "alice", "carol")}, Budget: 60},
		// a key that stored a metadata write, reused for a metadata write of the same kind on another target / with other
		// content / another key to delete: refused; the exact request again: replayed
		{Name: "ik-reuse-metadata-other-target", Setup: []engx.Req{fund("alice", 100), ik(metaA, "k31"),
			ik(engx.Req{Kind: "delmeta", Target: "ACCOUNT", TargetID: "alice", Key: "a"}, "k36"),
			ik(engx.Req{Kind: "savemeta", Target: "TRANSACTION", TargetID: "0", Meta: map[string]string{"a": "1"}}, "k37")}, Budget: 80,
			Reqs: []engx.Req{
				ik(engx.Req{Kind: "savemeta", Target: "ACCOUNT", TargetID: "bob", Meta: map[string]string{"a": "1"}}, "k31"),
				ik(engx.Req{Kind: "savemeta", Target: "ACCOUNT", TargetID: "alice", Meta: map[string]string{"a": "2"}}, "k31"),
				ik(engx.Req{Kind: "savemeta", Target: "ACCOUNT", TargetID: "alice", Meta: map[string]string{"b": "1"}}, "k31"),
				ik(metaA, "k31"),
				ik(engx.Req{Kind: "delmeta", Target: "ACCOUNT", TargetID: "alice", Key: "b"}, "k36"),
				ik(engx.Req{Kind: "savemeta", Target: "TRANSACTION", TargetID: "1", Meta: map[string]string{"a": "1"}}, "k37")},
			Directed: [][]string{{"start(0)", "resume(0)*", "start(1)", "resume(1)*", "start(2)", "resume(2)*", "start(3)", "resume(3)*", "start(4)", "resume(4)*"}}},
		// the exact request again under its key after a restart (the setup runs in its own commander generation), and
		// with a crash in between: every kind replays its stored outcome, nothing is written twice
		{Name: "ik-reuse-same-kind-after-restart", Setup: []engx.Req{fund("alice", 100), ik(xfer(10, "alice", "bob"), "k32"),
			ik(engx.Req{Kind: "revert", RevertID: 1}, "k33"), ik(metaA, "k34"), ik(engx.Req{Kind: "delmeta", Target: "ACCOUNT", TargetID: "alice", Key: "a"}, "k35")},
			Crash: true, Budget: 80,
			Reqs: []engx.Req{ik(xfer(10, "alice", "bob"), "k32"), ik(engx.Req{Kind: "revert", RevertID: 1}, "k33"), ik(metaA, "k34"),
				ik(engx.Req{Kind: "delmeta", Target: "ACCOUNT", TargetID: "alice", Key: "a"}, "k35")},
			Directed: [][]string{{"start(0)", "resume(0)*", "start(1)", "resume(1)*", "start(2)", "resume(2)*", "start(3)", "resume(3)*"},
				{"start(0)", "start(1)", "crash(-1)", "start(2)", "resume(2)*", "start(3)", "resume(3)*"}}},
		{Name: "three-same-ik", Setup: []engx.Req{fund("alice", 300)}, Budget: 500, Reqs: []engx.Req{
			ik(xfer(10, "alice", "bob"), "k7"), ik(xfer(10, "alice", "bob"), "k7"), ik(xfer(10, "alice", "bob"), "k7")}},
		{Name: "three-same-reference", Setup: []engx.Req{fund("alice", 300)}, Budget: 500, Reqs: []engx.Req{
			ref(xfer(10, "alice", "bob"), "r7"), ref(xfer(20, "alice", "carol"), "r7"), ref(xfer(30, "alice", "carol"), "r7")}},
		{Name: "three-racing-reverts", Setup: []engx.Req{fund("alice", 100), xfer(40, "alice", "bob")}, Budget: 500, Reqs: []engx.Req{
			{Kind: "revert", RevertID: 1, Force: true}, {Kind: "revert", RevertID: 1, Force: true}, {Kind: "revert", RevertID: 1, Force: true}}},
		{Name: "metadata-only-then-restart", Setup: []engx.Req{metaA, engx.Req{Kind: "savemeta", Target: "ACCOUNT", TargetID: "bob", Meta: map[string]string{"b": "2"}}}, Reqs: []engx.Req{
			metaA, fund("alice", 5)}, Budget: 120},
		{Name: "cancel-after-handoff", Setup: []engx.Req{fund("alice", 100)}, Cancel: true, Budget: 160, Reqs: []engx.Req{
			ref(xfer(100, "alice", "bob"), "r8"), ref(xfer(100, "alice", "carol"), "r8")}},
		{Name: "cancel-spend-race", Setup: []engx.Req{fund("alice", 100)}, Cancel: true, Budget: 160, Reqs: []engx.Req{
			xfer(100, "alice", "bob"), xfer(100, "alice", "carol")}},
		// a request waiting for its account locks gives up when its context is done (DefaultLocker.Lock); directed
		// schedules: cancelled while queued / before it starts locking (with and without contention) / after the
		// grant and before it resumes (the select may then take either branch: repeated)
		{Name: "cancel-while-queued", Setup: []engx.Req{fund("alice", 100)}, Cancel: true, Budget: 120, Reqs: []engx.Req{
			xfer(60, "alice", "bob"), ik(ref(xfer(30, "alice", "carol"), "r10"), "k10")},
			Directed: [][]string{
				{"start(0)", "resume(0)*", "start(1)", "resume(1)*", "cancel(1)", "resume(1)", "persist_ok(-1)", "resume(0)*"},
				{"start(0)", "resume(0)*", "start(1)", "cancel(1)", "resume(1)*", "persist_ok(-1)", "resume(0)*"},
				{"start(0)", "resume(0)", "resume(0)", "start(1)", "resume(1)", "resume(1)", "cancel(1)", "resume(0)*", "resume(1)*", "persist_ok(-1)", "resume(0)*"},
				{"start(1)", "cancel(1)", "resume(1)*", "persist_ok(-1)", "resume(1)*", "start(0)", "resume(0)*", "persist_ok(-1)", "resume(0)*"},
				{"start(1)", "resume(1)*", "cancel(1)", "start(0)", "resume(0)*", "persist_ok(-1)", "resume(1)*", "resume(0)*"},
				grantedThenCancelled, grantedThenCancelled, grantedThenCancelled, grantedThenCancelled, grantedThenCancelled, grantedThenCancelled,
			}},
		{Name: "cancel-queued-three", Setup: []engx.Req{fund("alice", 100)}, Cancel: true, Budget: 120, Reqs: []engx.Req{
			xfer(60, "alice", "bob"), ik(ref(xfer(30, "alice", "carol"), "r11"), "k11"), xfer(10, "alice", "bob")},
			Directed: [][]string{regrant, regrant, regrant, regrant, regrant, regrant,
				{"start(0)", "resume(0)*", "start(1)", "resume(1)*", "start(2)", "resume(2)*", "cancel(2)", "resume(2)", "persist_ok(-1)", "resume(0)*", "resume(1)*", "persist_ok(-1)", "resume(1)*"},
			}},
		{Name: "cancel-then-retry-same-key", Setup: []engx.Req{fund("alice", 100)}, Cancel: true, Budget: 120, Reqs: []engx.Req{
			xfer(60, "alice", "bob"), ik(ref(xfer(30, "alice", "carol"), "r12"), "k12"), ik(ref(xfer(30, "alice", "carol"), "r12"), "k12")},
			Directed: [][]string{
				{"start(0)", "resume(0)*", "start(1)", "resume(1)*", "cancel(1)", "resume(1)", "start(2)", "resume(2)*", "persist_ok(-1)", "resume(0)*", "resume(2)*", "persist_ok(-1)", "resume(2)*"},
				{"start(0)", "resume(0)*", "start(1)", "resume(1)*", "start(2)", "resume(2)*", "cancel(1)", "resume(1)", "persist_ok(-1)", "resume(0)*"},
			}},
		// the first attempt is cancelled while its entry waits in the batcher; the retry with the same key arrives before
		// anything is persisted (an unchanged engine keeps the key reserved until the entry is on disk)
		{Name: "cancel-at-wait-then-retry-same-key", Setup: []engx.Req{fund("alice", 100)}, Cancel: true, Budget: 160, Reqs: []engx.Req{
			ik(xfer(30, "alice", "carol"), "k14"), ik(xfer(30, "alice", "carol"), "k14")},
			Directed: [][]string{
				{"start(0)", "resume(0)*", "cancel(0)", "start(1)", "resume(1)*", "persist_ok(-1)", "resume(0)*", "resume(1)*", "persist_ok(-1)", "resume(1)*"},
				{"start(0)", "resume(0)*", "cancel(0)", "resume(0)*", "start(1)", "resume(1)*", "persist_ok(-1)", "resume(1)*", "persist_ok(-1)", "resume(1)*"},
			}},
		{Name: "cancel-at-wait-then-retry-same-reference", Setup: []engx.Req{fund("alice", 100)}, Cancel: true, Budget: 160, Reqs: []engx.Req{
			ref(xfer(30, "alice", "carol"), "r14"), ref(xfer(30, "alice", "carol"), "r14")},
			Directed: [][]string{
				{"start(0)", "resume(0)*", "cancel(0)", "start(1)", "resume(1)*", "persist_ok(-1)", "resume(0)*", "resume(1)*", "persist_ok(-1)", "resume(1)*"},
			}},
		{Name: "cancel-at-wait-then-revert-again", Setup: []engx.Req{fund("alice", 100), xfer(40, "alice", "bob"), fund("bob", 100)}, Cancel: true, Budget: 160, Reqs: []engx.Req{
			{Kind: "revert", RevertID: 1}, {Kind: "revert", RevertID: 1}},
			Directed: [][]string{
				{"start(0)", "resume(0)*", "cancel(0)", "start(1)", "resume(1)*", "persist_ok(-1)", "resume(0)*", "resume(1)*", "persist_ok(-1)", "resume(1)*"},
				{"start(0)", "resume(0)*", "cancel(0)", "resume(0)*", "start(1)", "resume(1)*", "persist_ok(-1)", "resume(1)*", "persist_ok(-1)", "resume(1)*"},
			}},
		{Name: "cancel-queued-revert", Setup: []engx.Req{fund("alice", 100), xfer(40, "alice", "bob")}, Cancel: true, Budget: 160, Reqs: []engx.Req{
			xfer(10, "bob", "carol"), ik(engx.Req{Kind: "revert", RevertID: 1}, "k13"), {Kind: "revert", RevertID: 1}},
			Directed: [][]string{
				{"start(0)", "resume(0)*", "start(1)", "resume(1)*", "cancel(1)", "resume(1)", "start(2)", "resume(2)*", "persist_ok(-1)", "resume(0)*", "resume(2)*", "persist_ok(-1)", "resume(2)*"},
			}},
		{Name: "store-failure-context-canceled", Setup: []engx.Req{fund("alice", 100)}, FailCtx: true, Budget: 40, Reqs: []engx.Req{
			metaA, xfer(10, "alice", "bob")}},
		// previews overlapping real writes on OTHER accounts (no lock keeps them apart): nothing of the preview may stay
		{Name: "preview-disjoint-real", Setup: []engx.Req{fund("alice", 100), fund("carol", 100)}, Budget: 300, Reqs: []engx.Req{
			dry(xfer(10, "alice", "bob")), xfer(10, "carol", "dave"), xfer(5, "carol", "erin")}},
		{Name: "two-previews-then-real", Setup: []engx.Req{fund("alice", 100), fund("carol", 100)}, Budget: 300, Reqs: []engx.Req{
			dry(xfer(10, "alice", "bob")), dry(xfer(10, "carol", "dave")), xfer(5, "erin", "frank"), xfer(5, "world", "erin")}},
		{Name: "preview-same-reference-between-reals", Setup: []engx.Req{fund("alice", 100), fund("carol", 100), fund("erin", 100)}, Budget: 400, Reqs: []engx.Req{
			ref(xfer(10, "alice", "bob"), "r30"), dry(ref(xfer(10, "carol", "dave"), "r30")), ref(xfer(10, "erin", "frank"), "r30")}},
		{Name: "preview-same-key-between-reals", Setup: []engx.Req{fund("alice", 100), fund("carol", 100), fund("erin", 100)}, Budget: 400, Reqs: []engx.Req{
			ik(xfer(10, "alice", "bob"), "k30"), dry(ik(xfer(10, "carol", "dave"), "k30")), ik(xfer(10, "alice", "bob"), "k30")}},
		{Name: "preview-revert-between-reverts", Setup: []engx.Req{fund("alice", 100), xfer(40, "alice", "bob")}, Budget: 400, Reqs: []engx.Req{
			{Kind: "revert", RevertID: 1}, dry(engx.Req{Kind: "revert", RevertID: 1}), {Kind: "revert", RevertID: 1}}},
		// scripts in which @world is used as a source BEFORE the contended account (lock lists are built in resource order)
		{Name: "double-spend-after-world-source", Setup: []engx.Req{fund("alice", 100)}, Reqs: []engx.Req{worldFirst("bob"), worldFirst("carol")}},
		{Name: "double-spend-allotment-source", Setup: []engx.Req{fund("alice", 50), fund("dave", 50)}, Reqs: []engx.Req{allotSrc("bob"), allotSrc("carol")}},
		// references that are not "clean" text, retried one after the other and after a restart
		{Name: "reference-with-blanks-retry", Setup: []engx.Req{fund("alice", 300), ref(xfer(10, "alice", "bob"), " r40 "), ref(xfer(10, "alice", "bob"), "R41\t")},
			Reqs: []engx.Req{ref(xfer(10, "alice", "bob"), " r40 "), ref(xfer(10, "alice", "bob"), "R41\t"), ref(xfer(10, "alice", "bob"), "r40")}},
		// a preview that carries a key which has already taken effect is answered the recorded outcome, like any replay
		{Name: "preview-under-a-used-key", Setup: []engx.Req{fund("alice", 100), ik(xfer(10, "alice", "bob"), "k31"), xfer(5, "alice", "bob")}, Budget: 60, Reqs: []engx.Req{
			dry(ik(xfer(10, "alice", "bob"), "k31")), ik(xfer(10, "alice", "bob"), "k31")}},
		// a transaction already reverted, reverted again under keys never seen before (forced, and with funds back on the account)
		{Name: "revert-again-under-a-fresh-key", Setup: []engx.Req{fund("alice", 100), xfer(40, "alice", "bob"), engx.Req{Kind: "revert", RevertID: 1}, fund("bob", 100)}, Budget: 80, Reqs: []engx.Req{
			ik(engx.Req{Kind: "revert", RevertID: 1, Force: true}, "k50"), ik(engx.Req{Kind: "revert", RevertID: 1}, "k51"), {Kind: "revert", RevertID: 1}}},
		// a preview that is REFUSED (after it took its locks) and a real write on the same accounts afterwards
		{Name: "refused-preview-then-real", Setup: []engx.Req{fund("alice", 100)}, Budget: 120, Reqs: []engx.Req{
			dry(xfer(500, "alice", "bob")), xfer(50, "alice", "bob"), dry(engx.Req{Kind: "revert", RevertID: 7})}},
		// a posting from an account to itself changes no balance: what the store reports afterwards still bounds the next spend
		{Name: "self-posting-then-overspend", Setup: []engx.Req{fund("alice", 100), xfer(100, "alice", "alice")}, Budget: 80, Reqs: []engx.Req{
			xfer(150, "alice", "bob"), xfer(60, "alice", "alice"), xfer(100, "alice", "carol")}},
		// two keyed writes persisted in ONE batch (they are appended while an earlier batch is in the store), then each key retried
		{Name: "two-keys-in-one-batch-then-retries", Setup: []engx.Req{fund("alice", 100), fund("carol", 100), fund("erin", 100)}, Budget: 200, Reqs: []engx.Req{
			xfer(5, "erin", "frank"), ik(xfer(10, "alice", "bob"), "k60"), ik(ref(xfer(10, "carol", "dave"), "r61"), "k61"), ik(xfer(10, "alice", "bob"), "k60"), ik(ref(xfer(10, "carol", "dave"), "r61"), "k61")},
			Directed: [][]string{
				{"start(0)", "resume(0)*", "start(1)", "resume(1)*", "start(2)", "resume(2)*", "persist_ok(-1)", "persist_ok(-1)", "resume(0)*", "resume(1)*", "resume(2)*", "start(3)", "resume(3)*", "start(4)", "resume(4)*"},
			}},
		// keys longer than any column would hold, with a multi-byte character across the 255/256 byte boundary
		{Name: "long-idempotency-keys", Setup: []engx.Req{fund("alice", 100)}, Budget: 40, Reqs: []engx.Req{
			ik(xfer(1, "alice", "bob"), strings.Repeat("k", 254)+"é"), ik(metaA, strings.Repeat("m", 253)+"日本"), ik(xfer(1, "alice", "bob"), strings.Repeat("k", 254)+"é"),
			ik(xfer(2, "alice", "bob"), strings.Repeat("k", 600))}},
		// a keyed transaction, its revert, then the same keyed request again: it is answered what it was answered before
		{Name: "retry-under-the-key-after-the-revert", Setup: []engx.Req{fund("alice", 100)}, Budget: 60, Reqs: []engx.Req{
			ik(xfer(10, "alice", "bob"), "k70"), {Kind: "revert", RevertID: 1}, ik(xfer(10, "alice", "bob"), "k70"),
			{Kind: "savemeta", Target: "TRANSACTION", TargetID: "1", Meta: map[string]string{"note": "x"}}, ik(xfer(10, "alice", "bob"), "k70")},
			Directed: [][]string{
				{"start(0)", "resume(0)*", "persist_ok(-1)", "resume(0)*", "start(1)", "resume(1)*", "persist_ok(-1)", "resume(1)*", "start(2)", "resume(2)*", "start(3)", "resume(3)*", "persist_ok(-1)", "resume(3)*", "start(4)", "resume(4)*"},
			}},
		// three spenders of one balance: one holds the locks, two queue behind it (a release must grant them one by one)
		{Name: "three-spenders", Setup: []engx.Req{fund("alice", 100)}, Budget: 400, Reqs: []engx.Req{
			xfer(100, "alice", "bob"), xfer(100, "alice", "carol"), xfer(100, "alice", "dave")},
			Directed: [][]string{
				{"start(0)", "resume(0)*", "start(1)", "resume(1)*", "start(2)", "resume(2)*", "persist_ok(-1)", "resume(0)*", "resume(1)*", "resume(2)*", "persist_ok(-1)", "resume(1)*", "resume(2)*"},
			}},
		{Name: "three-spenders-partial", Setup: []engx.Req{fund("alice", 100)}, Budget: 300, Reqs: []engx.Req{
			xfer(40, "alice", "bob"), xfer(40, "alice", "carol"), xfer(40, "alice", "dave")},
			Directed: [][]string{
				{"start(0)", "resume(0)*", "start(1)", "resume(1)*", "start(2)", "resume(2)*", "persist_ok(-1)", "resume(0)*", "resume(1)*", "resume(2)*", "persist_ok(-1)", "resume(1)*", "resume(2)*", "persist_ok(-1)", "resume(2)*"},
			}},
		// idempotency keys that are not "clean" text: surrounding blanks, inner blanks, case; a retry after a restart
		{Name: "ik-with-blanks-retry", Setup: []engx.Req{fund("alice", 300), ik(xfer(10, "alice", "bob"), " k20 "), ik(xfer(10, "alice", "bob"), "K21\t")},
			Reqs: []engx.Req{ik(xfer(10, "alice", "bob"), " k20 "), ik(xfer(10, "alice", "bob"), "K21\t"), ik(xfer(10, "alice", "bob"), "k20")}},
		// transient failures of the store reads the write path depends on. read_fail(t) is a scheduler choice (the next
		// store read of request t fails), replayed on the model (AResumeReadFail): the request fails and leaves nothing,
		// with two exceptions the model states as the code behaves: SaveMeta ignores a failed GetTransaction and writes,
		// DeleteMetadata reports "not found". Directed schedules first, then the search over all points.
		{Name: "read-failure-ik", Setup: []engx.Req{fund("alice", 300), ik(xfer(10, "alice", "bob"), "k22")}, ReadFailChoice: true, Budget: 60,
			Reqs: []engx.Req{ik(xfer(10, "alice", "bob"), "k22"), ik(metaA, "k23")},
			Directed: [][]string{
				{"start(0)", "read_fail(0)", "start(1)", "resume(1)*", "persist_ok(-1)", "resume(1)*"}, // the lookup of a REPLAY fails: no second effect
				{"start(1)", "read_fail(1)", "start(0)", "resume(0)*"},
			}},
		{Name: "read-failure-reference", Setup: []engx.Req{fund("alice", 300), ref(xfer(10, "alice", "bob"), "r22")}, ReadFailChoice: true, Budget: 60,
			Reqs: []engx.Req{ref(xfer(20, "alice", "bob"), "r22"), ik(ref(xfer(5, "alice", "bob"), "r23"), "k30")},
			Directed: [][]string{
				{"start(0)", "read_fail(0)", "start(1)", "resume(1)*", "persist_ok(-1)", "resume(1)*"},
				{"start(1)", "resume(1)", "resume(1)", "read_fail(1)", "start(0)", "resume(0)*"},
			}},
		{Name: "read-failure-transaction", Setup: []engx.Req{fund("alice", 300), xfer(10, "alice", "bob"), engx.Req{Kind: "revert", RevertID: 1}}, ReadFailChoice: true, Budget: 60,
			Reqs: []engx.Req{{Kind: "revert", RevertID: 1}, ik(engx.Req{Kind: "savemeta", Target: "TRANSACTION", TargetID: "7", Meta: map[string]string{"a": "1"}}, "k24"),
				ik(engx.Req{Kind: "delmeta", Target: "TRANSACTION", TargetID: "0", Key: "a"}, "k25")},
			Directed: [][]string{
				{"start(0)", "read_fail(0)"},
				{"start(1)", "resume(1)", "read_fail(1)", "resume(1)*", "persist_ok(-1)", "resume(1)*"}, // SaveMeta on a missing transaction: written
				{"start(1)", "resume(1)*"}, // ... and refused when the read answers
				{"start(2)", "resume(2)", "read_fail(2)"}, // DeleteMetadata on an existing transaction: "not found"
			}},
		{Name: "read-failure-balance", Setup: []engx.Req{fund("alice", 50)}, ReadFailChoice: true, Budget: 60,
			Reqs: []engx.Req{xfer(100, "alice", "bob"), xfer(10, "alice", "bob")},
			Directed: [][]string{
				{"start(0)", "resume(0)", "read_fail(0)", "start(1)", "resume(1)*", "persist_ok(-1)", "resume(1)*"},
				{"start(1)", "resume(1)", "read_fail(1)"},
			}},
		// the balance read fails under the locks while a second spender is queued behind them: released, waiter granted
		{Name: "read-failure-balance-queued", Setup: []engx.Req{fund("alice", 100)}, ReadFailChoice: true, Budget: 60,
			Reqs: []engx.Req{xfer(100, "alice", "bob"), xfer(100, "alice", "carol")},
			Directed: [][]string{
				{"start(0)", "resume(0)", "start(1)", "resume(1)*", "read_fail(0)", "resume(1)*", "persist_ok(-1)", "resume(1)*"},
			}},
		// compile-time read of account metadata (ResolveResources) fails: answered as a compilation failure
		{Name: "read-failure-account", Setup: []engx.Req{fund("alice", 100), meta}, ReadFailChoice: true, Budget: 60,
			Reqs: []engx.Req{ik(viaMeta, "k26"), ref(viaMeta, "r26")},
			Directed: [][]string{
				{"start(0)", "resume(0)", "read_fail(0)", "start(1)", "resume(1)*", "persist_ok(-1)", "resume(1)*"},
				{"start(1)", "resume(1)", "read_fail(1)", "start(0)", "resume(0)*", "persist_ok(-1)", "resume(0)*"},
			}},
		// a key lookup fails while ANOTHER request holds the reference the failing request would have taken next: the
		// failing request must give back its key only; the holder's reference stays reserved (a third request conflicts)
		{Name: "read-failure-while-reserved", Setup: []engx.Req{fund("alice", 300)}, ReadFailChoice: true, Budget: 80,
			Reqs: []engx.Req{ref(xfer(10, "alice", "bob"), "r27"), ik(ref(xfer(20, "alice", "bob"), "r27"), "k27"), ref(xfer(30, "alice", "bob"), "r27")},
			Directed: [][]string{
				{"start(0)", "resume(0)*", "start(1)", "read_fail(1)", "start(2)", "resume(2)*", "persist_ok(-1)", "resume(0)*"},
				{"start(1)", "start(0)", "resume(0)*", "read_fail(1)", "persist_ok(-1)", "resume(0)*"},
			}},
		// contenders on the same key / revert while the holder's read fails: the contender was already answered busy
		{Name: "read-failure-contended", Setup: []engx.Req{fund("alice", 300), xfer(10, "alice", "bob")}, ReadFailChoice: true, Budget: 80,
			Reqs: []engx.Req{ik(xfer(10, "alice", "bob"), "k28"), ik(xfer(10, "alice", "bob"), "k28"), {Kind: "revert", RevertID: 1}, {Kind: "revert", RevertID: 1}},
			Directed: [][]string{
				{"start(0)", "start(1)", "read_fail(0)", "resume(1)*"},
				{"start(2)", "start(3)", "read_fail(2)", "resume(3)*"},
			}},
		// a read failure, then a retry of the same request with the same key (and reference)
		{Name: "read-failure-then-retry", Setup: []engx.Req{fund("alice", 300)}, ReadFailChoice: true, Budget: 60,
			Reqs: []engx.Req{ik(ref(xfer(10, "alice", "bob"), "r29"), "k29"), ik(ref(xfer(10, "alice", "bob"), "r29"), "k29")},
			Directed: [][]string{
				{"start(0)", "read_fail(0)", "start(1)", "resume(1)*", "persist_ok(-1)", "resume(1)*"},
				{"start(0)", "resume(0)", "resume(0)", "read_fail(0)", "start(1)", "resume(1)*", "persist_ok(-1)", "resume(1)*"},
				{"start(0)", "resume(0)", "resume(0)", "resume(0)", "resume(0)", "resume(0)", "read_fail(0)", "start(1)", "resume(1)*", "persist_ok(-1)", "resume(1)*"},
			}},
		// reads in the FIRST region of a request (no yield point before them: a metadata write on a transaction without a
		// key, a meta() script without key and reference) cannot be failed by the scheduler choice: scenario-wide switch,
		// oracle only
		{Name: "read-failure-first-region", Setup: []engx.Req{fund("alice", 300), xfer(10, "alice", "bob"), meta}, ReadFail: []string{"tx", "account"}, Budget: 40,
			Reqs: []engx.Req{{Kind: "delmeta", Target: "TRANSACTION", TargetID: "1", Key: "a"}, viaMeta}},
		// graceful shutdown (Commander.Close): the batch inside the store call is written (close_ok) or fails (close_fail),
		// nobody is acknowledged, what is queued behind it is dropped, the next generation boots from the disk
		{Name: "close-batch-and-queue", Setup: []engx.Req{fund("alice", 100)}, Close: true, Budget: 80,
			Reqs: []engx.Req{xfer(10, "alice", "bob"), fund("carol", 5), metaA},
			Directed: [][]string{
				{"start(0)", "resume(0)*", "start(1)", "resume(1)*", "start(2)", "resume(2)*", "close_ok(-1)"},
				{"start(0)", "resume(0)*", "start(1)", "resume(1)*", "start(2)", "resume(2)*", "close_fail(-1)"},
				{"start(0)", "resume(0)", "resume(0)", "start(1)", "close(-1)", "start(2)", "resume(2)*", "persist_ok(-1)", "resume(2)*"},
				{"start(0)", "resume(0)*", "persist_ok(-1)", "start(1)", "resume(1)*", "close_ok(-1)", "start(2)", "resume(2)*", "persist_ok(-1)", "resume(2)*"},
			}},
		{Name: "close-then-same-key", Setup: []engx.Req{fund("alice", 100)}, Close: true, Budget: 80,
			Reqs: []engx.Req{ik(ref(xfer(10, "alice", "bob"), "r40"), "k40"), ik(ref(xfer(10, "alice", "bob"), "r40"), "k40"), fund("carol", 5)},
			Directed: [][]string{
				{"start(2)", "resume(2)*", "start(0)", "resume(0)*", "close_ok(-1)", "start(1)", "resume(1)*", "persist_ok(-1)", "resume(1)*"}, // dropped: the retry commits
				{"start(0)", "resume(0)*", "close_ok(-1)", "start(1)", "resume(1)*"},                                                       // written, never acknowledged: the retry replays
				{"start(0)", "resume(0)*", "close_fail(-1)", "start(1)", "resume(1)*", "persist_ok(-1)", "resume(1)*"},
			}},
		{Name: "close-during-revert", Setup: []engx.Req{fund("alice", 100), xfer(40, "alice", "bob")}, Close: true, Budget: 80,
			Reqs: []engx.Req{{Kind: "revert", RevertID: 1}, {Kind: "revert", RevertID: 1}},
			Directed: [][]string{
				{"start(0)", "resume(0)*", "close_fail(-1)", "start(1)", "resume(1)*", "persist_ok(-1)", "resume(1)*"},
				{"start(0)", "resume(0)*", "close_ok(-1)", "start(1)", "resume(1)*"},
				{"start(0)", "resume(0)", "resume(0)", "close(-1)", "start(1)", "resume(1)*", "persist_ok(-1)", "resume(1)*"},
			}},
		{Name: "crash-points", Setup: []engx.Req{fund("alice", 100)}, Crash: true, Fail: true, Reqs: []engx.Req{
			ik(xfer(10, "alice", "bob"), "k3"), ik(xfer(10, "alice", "bob"), "k3"),
			{Kind: "delmeta", Target: "ACCOUNT", TargetID: "alice", Key: "a"}}},
		{Name: "crash-retry-reference", Setup: []engx.Req{fund("alice", 100)}, Crash: true, Reqs: []engx.Req{
			ref(xfer(10, "alice", "bob"), "r9"), ref(xfer(10, "alice", "bob"), "r9")}},
	}
}

// ---- Coq rendering of one execution -----------------------------------------------------------------------

type names struct{ acc, ik, ref, meta map[string]int }

func newNames() *names {
	return &names{acc: map[string]int{"world": 0}, ik: map[string]int{"": 0}, ref: map[string]int{"": 0}, meta: map[string]int{"": 0}}
}

// metaName: what a metadata write writes where (the model's rq_meta / e_meta), as the code compares a stored log
// with a request: target type, target id, and the metadata map / the key
func metaName(kind, target, id string, md map[string]string, key string) string {
	switch kind {
	case "savemeta":
		ks := make([]string, 0, len(md))
		for k := range md {
			ks = append(ks, k)
		}
		sort.Strings(ks)
		var b strings.Builder
		fmt.Fprintf(&b, "S|%s|%s|", target, id)
		for _, k := range ks {
			fmt.Fprintf(&b, "%q=%q;", k, md[k])
		}
		return b.String()
	case "delmeta":
		return fmt.Sprintf("D|%s|%s|%q", target, id, key)
	}
	return ""
}
func idx(m map[string]int, k string) int {
	if v, ok := m[k]; ok {
		return v
	}
	m[k] = len(m)
	return m[k]
}
func (n *names) postings(ps []engx.PostingReq) string {
	var xs []string
	for _, p := range ps {
		xs = append(xs, fmt.Sprintf("(%d%%N, %d%%N, %d%%Z)", idx(n.acc, p.Source), idx(n.acc, p.Destination), p.Amount))
	}
	return "[" + strings.Join(xs, "; ") + "]"
}
func (n *names) request(r engx.Req) string {
	kind := map[string]string{"create": "KCreate", "revert": "KRevert", "savemeta": "KSaveMeta", "delmeta": "KDelMeta"}[r.Kind]
	ps := r.ModelPostings
	if len(ps) == 0 {
		ps = r.Postings
	}
	target := "None"
	if r.Target == ledger.MetaTargetTypeTransaction {
		target = "(Some " + r.TargetID + ")"
	}
	unb := r.Unb
	if r.Kind == "revert" {
		unb = r.Force
	}
	return fmt.Sprintf("{| rq_kind := %s; rq_ik := %d%%N; rq_ref := %d%%N; rq_dry := %v; rq_postings := %s; rq_unb := %v; rq_revert := %d; rq_target_tx := %s; rq_meta := %d%%N |}",
		kind, idx(n.ik, r.IK), idx(n.ref, r.Reference), r.DryRun, n.postings(ps), unb, r.RevertID, target,
		idx(n.meta, metaName(r.Kind, r.Target, r.TargetID, r.Meta, r.Key)))
}
func (n *names) action(c engx.Choice, reqs []engx.Req, off int) string {
	switch c.Kind {
	case "start":
		return fmt.Sprintf("AStart %d %s", c.Tid+off, n.request(reqs[c.Tid]))
	case "resume":
		if c.Via == "cancelled" {
			return fmt.Sprintf("AResumeCancelled %d", c.Tid+off) // the lock select took its ctx.Done() branch
		}
		return fmt.Sprintf("AResume %d", c.Tid+off)
	case "cancel":
		return fmt.Sprintf("ACancel %d", c.Tid+off)
	case "read_fail":
		return fmt.Sprintf("AResumeReadFail %d", c.Tid+off)
	case "close", "close_fail":
		return "AClose"
	case "close_ok":
		return "ACloseOk"
	case "persist_ok":
		return "APersistOk"
	case "persist_fail":
		return "APersistFail"
	}
	return "ACrash"
}
func optNat(s string) string {
	if s == "" {
		return "None"
	}
	return "(Some " + s + ")"
}

func coqCase(sc Scenario, ex Exec) string {
	n := newNames()
	var setup, reqs, steps, disk, resps, events []string
	for _, c := range ex.SetupChoices {
		setup = append(setup, n.action(c, sc.Setup, 0))
	}
	for i, r := range sc.Reqs {
		reqs = append(reqs, fmt.Sprintf("(%d, %s)", 100+i, n.request(r)))
	}
	for i, c := range ex.MainChoices {
		steps = append(steps, fmt.Sprintf("(%s, %d)", n.action(c, sc.Reqs, 100), ex.Counts[i]))
	}
	for _, l := range ex.Disk {
		kind, txid, ps, ref, rev, mn := "KSaveMeta", "None", "[]", 0, "None", ""
		switch p := l.Data.(type) {
		case ledger.SetMetadataLogPayload:
			mn = metaName("savemeta", p.TargetType, fmt.Sprint(p.TargetID), p.Metadata, "")
		case ledger.NewTransactionLogPayload:
			kind, txid, ref = "KCreate", "(Some "+p.Transaction.ID.String()+")", idx(n.ref, p.Transaction.Reference)
			ps = n.ledgerPostings(p.Transaction.Postings)
		case ledger.RevertedTransactionLogPayload:
			kind, txid, ref = "KRevert", "(Some "+p.RevertTransaction.ID.String()+")", idx(n.ref, p.RevertTransaction.Reference)
			ps = n.ledgerPostings(p.RevertTransaction.Postings)
			rev = "(Some " + p.RevertedTransactionID.String() + ")"
		case ledger.DeleteMetadataLogPayload:
			kind = "KDelMeta"
			mn = metaName("delmeta", p.TargetType, fmt.Sprint(p.TargetID), nil, p.Key)
		}
		disk = append(disk, fmt.Sprintf("{| oe_id := %s; oe_kind := %s; oe_txid := %s; oe_postings := %s; oe_ref := %d%%N; oe_ik := %d%%N; oe_reverts := %s; oe_meta := %d%%N |}",
			l.ID.String(), kind, txid, ps, ref, idx(n.ik, l.IdempotencyKey), rev, idx(n.meta, mn)))
	}
	for i, r := range ex.Responses {
		var x string
		switch {
		case r.OK:
			x = "ROk " + optNat(r.TxID)
		case r.Err == "crashed":
			x = "RCrashed"
		default:
			cls, ok := map[string]string{"ik-busy": "EIkBusy", "conflict": "EConflict", "not-found": "ENotFound", "already-reverted": "EAlreadyReverted",
				"revert-occurring": "ERevertOccurring", "insufficient": "EInsufficient", "no-postings": "ENoPostings", "lock-cancelled": "ELockCancelled",
				"store-read": "EStoreRead", "compilation-failed": "ECompilationFailed", "key-reused": "EKeyReused"}[r.Err]
			if !ok {
				x = "None (* " + strings.ReplaceAll(r.Err, "*)", "") + " *)" // an answer the model has no class for: never agrees
			} else {
				x = "RErr " + cls
			}
		}
		if r.Panic != "" {
			resps = append(resps, fmt.Sprintf("(%d, None (* panic *))", 100+i)) // the model has no panicking request
			continue
		}
		if r.Err == "" && !r.OK {
			continue // never started
		}
		if !strings.HasPrefix(x, "None") {
			x = "Some (" + x + ")"
		}
		resps = append(resps, fmt.Sprintf("(%d, %s)", 100+i, x))
	}
	for _, p := range ex.Published {
		kind := map[string]string{"committed": "KCreate", "reverted": "KRevert", "saved_metadata": "KSaveMeta", "deleted_metadata": "KDelMeta"}[p.Kind]
		tx, rv := "None", "None"
		if p.Tx != nil {
			tx = "(Some " + p.Tx.ID.String() + ")"
		}
		if p.Reverted != nil {
			rv = "(Some " + p.Reverted.ID.String() + ")"
		}
		events = append(events, fmt.Sprintf("(%d, %s, %s, %s)", 100+p.Tid, kind, tx, rv))
	}
	var metaReaders []string // the requests whose script reads account metadata when it is compiled
	for i, r := range sc.Reqs {
		if r.Kind == "create" && strings.Contains(r.Script, "meta(") {
			metaReaders = append(metaReaders, fmt.Sprint(100+i))
		}
	}
	j := func(xs []string) string { return "[" + strings.Join(xs, ";\n      ") + "]" }
	return fmt.Sprintf("{| ec_setup := %s;\n   ec_reqs := %s;\n   ec_allow_fail := %v; ec_allow_crash := %v; ec_max_crashes := 1;\n   ec_allow_cancel := %v; ec_max_cancels := 1;\n   ec_allow_close := %v; ec_allow_read_fail := %v; ec_max_read_fails := 1; ec_meta_readers := [%s];\n   ec_steps := %s;\n   ec_final_choices := %d;\n   ec_disk := %s;\n   ec_resps := %s;\n   ec_events := %s |}",
		j(setup), j(reqs), sc.Fail, sc.Crash, sc.Cancel, sc.Close, sc.ReadFailChoice, strings.Join(metaReaders, "; "), j(steps), ex.FinalCount, j(disk), j(resps), j(events))
}

func (n *names) ledgerPostings(ps ledger.Postings) string {
	var xs []string
	for _, p := range ps {
		xs = append(xs, fmt.Sprintf("(%d%%N, %d%%N, %s%%Z)", idx(n.acc, p.Source), idx(n.acc, p.Destination), p.Amount.String()))
	}
	return "[" + strings.Join(xs, "; ") + "]"
}

// ---- C14: differential runs with / without a preview (sequential histories, as the property quantifies) ----

type seqResult struct {
	Disk   []string
	Events []string
	Resps  []string
}

func canonEntry(l *ledger.ChainedLog) string {
	var b strings.Builder
	fmt.Fprintf(&b, "id=%s type=%s ik=%q", l.ID, l.Type, l.IdempotencyKey)
	if tx := txOf(l); tx != nil {
		fmt.Fprintf(&b, " tx=%s ref=%q", tx.ID, tx.Reference)
		for _, p := range tx.Postings {
			fmt.Fprintf(&b, " %s>%s:%s", p.Source, p.Destination, p.Amount)
		}
	}
	if p, ok := l.Data.(ledger.RevertedTransactionLogPayload); ok {
		fmt.Fprintf(&b, " reverts=%s", p.RevertedTransactionID)
	}
	return b.String()
}

// runSequential executes the requests one after the other on one disk; skip[i] requests are executed but their
// response / events are left out of the result (the preview itself); restartAt >= 0 restarts the commander there.
func runSequential(reqs []engx.Req, skip map[int]bool, restartAt int) (seqResult, string) {
	disk := &engx.Disk{}
	var res seqResult
	i := 0
	for i < len(reqs) {
		j := len(reqs)
		if restartAt > i {
			j = restartAt
		}
		chunk := reqs[i:j]
		s := engx.New(disk, chunk)
		for !s.Done() && s.Fault == "" {
			en := s.Enabled()
			pick := en[0]
			for _, want := range []string{"resume", "persist_ok", "start"} {
				found := false
				for _, c := range en {
					if c.Kind == want {
						pick, found = c, true
						break
					}
				}
				if found {
					break
				}
			}
			s.Do(pick)
		}
		if s.Fault != "" {
			s.Close()
			return res, s.Fault
		}
		for k, r := range s.Responses() {
			if skip[i+k] {
				continue
			}
			res.Resps = append(res.Resps, fmt.Sprintf("ok=%v err=%s tx=%s", r.OK, r.Err, r.TxID))
		}
		for _, p := range s.Published {
			if skip[i+p.Tid] {
				res.Events = append(res.Events, "PREVIEW-EVENT:"+p.Kind)
				continue
			}
			tx := ""
			if p.Tx != nil {
				tx = p.Tx.ID.String()
			}
			res.Events = append(res.Events, p.Kind+":"+tx)
		}
		s.Close()
		i = j
	}
	for _, l := range disk.Logs {
		res.Disk = append(res.Disk, canonEntry(l))
	}
	return res, ""
}

func genHistory(g *vx.Rng, n int, txSoFar *int) []engx.Req {
	accs := []string{"alice", "bob", "carol"}
	var h []engx.Req
	for k := 0; k < n; k++ {
		switch c := g.Intn(10); {
		case c < 2:
			h = append(h, fund(accs[g.Intn(3)], 10+g.Intn(90)))
			*txSoFar++
		case c < 6:
			r := xfer(1+g.Intn(60), accs[g.Intn(3)], accs[g.Intn(3)])
			if g.Chance(1, 4) {
				r.Reference = fmt.Sprintf("r%d", g.Intn(3))
			}
			if g.Chance(1, 4) {
				r.IK = fmt.Sprintf("k%d", g.Intn(3))
			}
			h = append(h, r)
			*txSoFar++ // may fail; ids then differ, which is fine: both runs see the same
		case c < 8:
			h = append(h, engx.Req{Kind: "revert", RevertID: int64(g.Intn(*txSoFar + 1)), Force: g.Chance(1, 3)})
		case c < 9:
			q := engx.Req{Kind: "savemeta", Target: "ACCOUNT", TargetID: accs[g.Intn(3)], Meta: map[string]string{"k": fmt.Sprint(g.Intn(3))}}
			if g.Chance(1, 2) { // on a transaction that may not exist
				q.Target, q.TargetID = "TRANSACTION", fmt.Sprint(g.Intn(*txSoFar+3))
			}
			if g.Chance(1, 3) {
				q.IK = fmt.Sprintf("k%d", g.Intn(3)) // possibly a key another request stored
			}
			h = append(h, q)
		default:
			q := engx.Req{Kind: "delmeta", Target: "ACCOUNT", TargetID: accs[g.Intn(3)], Key: "k"}
			if g.Chance(1, 2) {
				q.Target, q.TargetID = "TRANSACTION", fmt.Sprint(g.Intn(*txSoFar+3))
			}
			if g.Chance(1, 3) {
				q.IK = fmt.Sprintf("k%d", g.Intn(3))
			}
			h = append(h, q)
		}
	}
	return h
}

func eqs(a, b []string) bool {
	if len(a) != len(b) {
		return false
	}
	for i := range a {
		if a[i] != b[i] {
			return false
		}
	}
	return true
}

func previewDifferential(r *vx.Run, n int) {
	g := vx.NewRng(r.Seed ^ 0xC14)
	for k := 0; k < n; k++ {
		txs := 0
		h1 := append([]engx.Req{fund("alice", 100)}, genHistory(g, g.Intn(4), &txs)...)
		txs++
		q := genHistory(g, 1, &txs)[0]
		q.DryRun = true
		h2 := genHistory(g, 1+g.Intn(4), &txs)
		with := append(append(append([]engx.Req{}, h1...), q), h2...)
		without := append(append([]engx.Req{}, h1...), h2...)
		restart := -1
		if g.Chance(1, 3) {
			restart = len(h1) + 1 + g.Intn(len(h2))
		}
		a, f1 := runSequential(with, map[int]bool{len(h1): true}, restart)
		restartB := restart
		if restartB > 0 {
			restartB--
		}
		b, f2 := runSequential(without, nil, restartB)
		in := map[string]any{"h1": h1, "preview": q, "h2": h2, "restart_at": restart}
		if f1 != "" || f2 != "" {
			r.Count("harness-fault")
			continue
		}
		r.Count("preview-differential")
		r.Count("preview-kind:" + q.Kind)
		size := len(with)
		for _, e := range a.Events {
			if strings.HasPrefix(e, "PREVIEW-EVENT") {
				r.FailP("C14", "preview-published-an-event", in, e, size)
				r.FailP("C16", "event-for-a-preview", in, e, size)
			}
		}
		var evA []string
		for _, e := range a.Events {
			if !strings.HasPrefix(e, "PREVIEW-EVENT") {
				evA = append(evA, e)
			}
		}
		if !eqs(a.Disk, b.Disk) {
			sig := "preview-changed-the-log"
			if len(a.Disk) == len(b.Disk) {
				sig = "preview-consumed-a-transaction-id"
			}
			r.FailP("C14", sig, in, fmt.Sprintf("with preview: %v | without: %v", a.Disk, b.Disk), size)
		} else if !eqs(a.Resps, b.Resps) {
			r.FailP("C14", "later-requests-answer-differently", in, fmt.Sprintf("with preview: %v | without: %v", a.Resps, b.Resps), size)
		} else if !eqs(evA, b.Events) {
			r.FailP("C14", "later-events-differ", in, fmt.Sprintf("with preview: %v | without: %v", evA, b.Events), size)
		}
		// the preview answers what the real write would answer
		real := q
		real.DryRun = false
		c, f3 := runSequential(append(append([]engx.Req{}, h1...), real), nil, -1)
		d, f4 := runSequential(append(append([]engx.Req{}, h1...), q), nil, -1)
		if f3 == "" && f4 == "" && len(c.Resps) > 0 && len(d.Resps) > 0 && c.Resps[len(c.Resps)-1] != d.Resps[len(d.Resps)-1] {
			r.FailP("C14", "preview-answers-differently-from-the-real-write:"+q.Kind, in, fmt.Sprintf("real: %s | preview: %s", c.Resps[len(c.Resps)-1], d.Resps[len(d.Resps)-1]), size)
		}
		key, _ := json.Marshal(in)
		r.Case("", in, "pd:"+string(key), true)
	}
}

// ---- the batcher alone, with a small maximal batch size ----------------------------------------------------
// The Commander fixes the batch size at 4096, which no scenario reaches; the cut of an over-long queue is exercised
// here on the real batching.Batcher with sizes 1..4: n items are appended while the first batch is held in the
// runner; every item must reach the runner exactly once, in order, and its callback must fire exactly once, after
// the batch that carries it returned.
func batcherDirect(r *vx.Run) {
	for maxBatch := 1; maxBatch <= 4; maxBatch++ {
		for n := 1; n <= 9; n++ {
			var mu sync.Mutex
			var batches [][]int
			returned := map[int]bool{}
			cbCount := map[int]int{}
			early := ""
			gate := make(chan struct{})
			b := batching.NewBatcher[int](func(ctx context.Context, items ...int) error {
				mu.Lock()
				batches = append(batches, append([]int{}, items...))
				mu.Unlock()
				<-gate
				mu.Lock()
				for _, it := range items {
					returned[it] = true
				}
				mu.Unlock()
				return nil
			}, 1, maxBatch)
			ctx, cancel := context.WithCancel(context.Background())
			go func() {
				defer func() { _ = recover() }()
				b.Run(ctx)
			}()
			for i := 1; i <= n; i++ {
				i := i
				b.Append(i, func() {
					mu.Lock()
					cbCount[i]++
					if !returned[i] {
						early = fmt.Sprintf("callback of item %d fired before the batch carrying it returned", i)
					}
					mu.Unlock()
				})
			}
			deadline := time.Now().Add(2 * time.Second)
			for time.Now().Before(deadline) {
				select {
				case gate <- struct{}{}:
				default:
					time.Sleep(200 * time.Microsecond)
				}
				mu.Lock()
				done := 0
				for i := 1; i <= n; i++ {
					if cbCount[i] > 0 {
						done++
					}
				}
				mu.Unlock()
				if done == n {
					break
				}
			}
			time.Sleep(2 * time.Millisecond)
			cancel()
			mu.Lock()
			var flat []int
			for _, bt := range batches {
				flat = append(flat, bt...)
			}
			in := map[string]any{"max_batch_size": maxBatch, "items": n, "batches": batches}
			good := len(flat) == n
			for i := range flat {
				good = good && flat[i] == i+1
			}
			if !good {
				r.FailP("C05", "batcher:entries-not-delivered-exactly-once-in-order", in, fmt.Sprintf("runner received %v", batches), n)
				r.FailP("C06", "batcher:entries-not-delivered-exactly-once-in-order", in, fmt.Sprintf("runner received %v", batches), n)
			}
			for i := 1; i <= n; i++ {
				if cbCount[i] != 1 {
					r.FailP("C06", "batcher:completion-callback-not-fired-exactly-once", in, fmt.Sprintf("callback of item %d fired %d times", i, cbCount[i]), n)
					break
				}
			}
			if early != "" {
				r.FailP("C06", "batcher:acknowledged-before-persisted", in, early, n)
			}
			for _, bt := range batches {
				if len(bt) > maxBatch {
					r.FailP("C05", "batcher:batch-larger-than-maximum", in, fmt.Sprint(bt), n)
				}
			}
			mu.Unlock()
			r.Count("batcher-direct")
			r.Case("", in, fmt.Sprint("batcher", maxBatch, n), n > maxBatch)
		}
	}
}

type previewFail struct {
	f    failure
	in   map[string]any
	size int
}

// batcherShutdown: the real Batcher closed (graceful shutdown, Commander.Close) while one batch is inside the store call
// and further entries are queued behind it: an entry's completion callback (= the acknowledgement of its request) may
// fire only if the store call carrying it returned; entries still queued are never acknowledged.
func batcherShutdown(r *vx.Run) {
	for maxBatch := 1; maxBatch <= 3; maxBatch++ {
		for n := 2; n <= 6; n++ {
			var mu sync.Mutex
			var batches [][]int
			returned := map[int]bool{}
			cbCount := map[int]int{}
			early := ""
			gate := make(chan struct{})
			entered := make(chan struct{}, 16)
			b := batching.NewBatcher[int](func(ctx context.Context, items ...int) error {
				mu.Lock()
				batches = append(batches, append([]int{}, items...))
				mu.Unlock()
				entered <- struct{}{}
				<-gate
				mu.Lock()
				for _, it := range items {
					returned[it] = true
				}
				mu.Unlock()
				return nil
			}, 1, maxBatch)
			ctx, cancel := context.WithCancel(context.Background())
			go func() {
				defer func() { _ = recover() }()
				b.Run(ctx)
			}()
			cb := func(i int) func() {
				return func() {
					mu.Lock()
					cbCount[i]++
					if !returned[i] {
						early = fmt.Sprintf("callback of item %d fired although no store call carrying it returned", i)
					}
					mu.Unlock()
				}
			}
			b.Append(1, cb(1))
			select {
			case <-entered:
			case <-time.After(2 * time.Second):
			}
			for i := 2; i <= n; i++ {
				b.Append(i, cb(i)) // queued behind the batch in flight
			}
			closed := make(chan struct{})
			go func() {
				defer func() { _ = recover() }()
				b.Close()
				close(closed)
			}()
			time.Sleep(3 * time.Millisecond)
			// let every store call that is (or gets) entered return
			deadline := time.Now().Add(2 * time.Second)
		loop:
			for time.Now().Before(deadline) {
				select {
				case gate <- struct{}{}:
				case <-closed:
					break loop
				case <-time.After(200 * time.Microsecond):
				}
			}
			time.Sleep(5 * time.Millisecond)
			cancel()
			mu.Lock()
			in := map[string]any{"max_batch_size": maxBatch, "items": n, "batches": batches, "shutdown": "close while the first batch is in the store call"}
			if early != "" {
				r.FailP("C06", "batcher:shutdown-acknowledges-an-entry-never-persisted", in, early, n)
				// the Commander publishes a request's event when its acknowledgement arrives: an acknowledgement without
				// persistence is an event for a change that was never committed
				r.FailP("C16", "batcher:shutdown-acknowledges-an-entry-never-persisted:its-event-is-published-without-an-entry", in, early, n)
			}
			for i := 1; i <= n; i++ {
				if cbCount[i] > 1 {
					r.FailP("C06", "batcher:completion-callback-not-fired-exactly-once", in, fmt.Sprintf("callback of item %d fired %d times", i, cbCount[i]), n)
					break
				}
			}
			mu.Unlock()
			r.Count("batcher-shutdown")
			r.Case("", in, fmt.Sprint("batcher-shutdown", maxBatch, n), true)
		}
	}
}

// freeRunningDuplicates: the reservation of a key / a reference is one atomic step that has no yield point inside, so
// the deterministic scheduler cannot split it. Here the real Commander runs WITHOUT the scheduler (store writes at once)
// and G goroutines released together submit the same key, or the same reference, round after round: at most one takes effect.
func freeRunningDuplicates(r *vx.Run) {
	rounds, G := 400, 8
	if r.Thorough() {
		rounds = 6000
	}
	disk := &engx.Disk{}
	store := &engx.Store{D: disk}
	c := command.New(store, command.NewDefaultLocker(), command.NewCompiler(64), command.NewReferencer(), bus.NewNoOpMonitor())
	if err := c.Init(context.Background()); err != nil {
		return
	}
	ctx, cancel := context.WithCancel(context.Background())
	defer cancel()
	go func() {
		defer func() { _ = recover() }()
		c.Run(ctx)
	}()
	script := func(i int) ledger.RunScript {
		return ledger.RunScript{Script: ledger.Script{Plain: fmt.Sprintf("send [USD 1] (\n  source = @world\n  destination = @acc%d\n)\n", i)}}
	}
	for round := 0; round < rounds; round++ {
		byKey := round%2 == 0
		key, ref := "", ""
		if byKey {
			key = fmt.Sprintf("dup-key-%d", round)
		} else {
			ref = fmt.Sprintf("dup-ref-%d", round)
		}
		before := len(disk.Logs)
		start := make(chan struct{})
		var wg sync.WaitGroup
		var okCount int64
		var mu sync.Mutex
		ids := map[string]bool{}
		for g := 0; g < G; g++ {
			wg.Add(1)
			go func(g int) {
				defer wg.Done()
				defer func() { _ = recover() }()
				sc := script(g)
				sc.Reference = ref
				<-start
				tx, err := c.CreateTransaction(context.Background(), command.Parameters{IdempotencyKey: key}, sc)
				if err == nil && tx != nil {
					mu.Lock()
					okCount++
					ids[tx.ID.String()] = true
					mu.Unlock()
				}
			}(g)
		}
		close(start)
		done := make(chan struct{})
		go func() { wg.Wait(); close(done) }()
		select {
		case <-done:
		case <-time.After(20 * time.Second):
			r.Count("free-running:timeout")
			return
		}
		added := len(disk.Logs) - before
		in := map[string]any{"round": round, "goroutines": G, "same": map[bool]string{true: "idempotency key", false: "reference"}[byKey]}
		if added > 1 {
			if byKey {
				r.FailP("C07", "free-running:idempotency-key-took-effect-more-than-once", in, fmt.Sprintf("%d entries written under one key by %d concurrent duplicates", added, G), G)
			} else {
				r.FailP("C11", "free-running:reference-committed-more-than-once", in, fmt.Sprintf("%d transactions committed with one reference by %d concurrent duplicates", added, G), G)
			}
		}
		if byKey && len(ids) > 1 {
			r.FailP("C07", "free-running:successes-under-one-key-report-different-transactions", in, fmt.Sprint(ids), G)
		}
		r.Count("free-running-duplicates")
	}
	r.Case("", map[string]any{"free_running_rounds": rounds}, "free-running", true)
}

func main() {
	r := vx.Start("C02", "engine")
	r.Cases("From FL Require Import Engine.Corr.\nClose Scope Z_scope.\nOpen Scope nat_scope.\n", "ecase", 120)
	r.Sum.Rule = "scenarios of concurrent writes on the real Commander (real locker, batcher, referencer, compiler, machine) over a log-fold store; each scenario is explored over its interleavings at the verifhook yield points (exhaustive up to the budget, then seeded random), with crash / store-failure injection where enabled; non-trivial = an execution in which at least two requests overlapped (a request started before another finished); distinct by the choice sequence"
	var scs []Scenario
	docs, replayOnly := r.Inputs()
	for _, d := range docs {
		var sc Scenario
		if json.Unmarshal(d, &sc) == nil && len(sc.Reqs) > 0 {
			scs = append(scs, sc)
		}
	}
	if !replayOnly {
		scs = append(scs, scenarios()...)
	}
	budget := 300
	if r.Thorough() {
		budget = 6000
	}
	scale := 1
	if r.Thorough() {
		scale = 12
	}
	only := os.Getenv("VERIF_SCENARIO")
	for _, sc := range scs {
		if only != "" && sc.Name != only {
			continue
		}
		b := budget
		if sc.Budget > 0 {
			b = sc.Budget * scale
		}
		prefix := []int{}
		n, faults := 0, 0
		exhaustive := false
		// how many executions are replayed on the model: the first of the depth-first search, the first of the
		// random phase (they differ early in the schedule, where the search varies last), every directed one
		quotaDFS, quotaRandom, quotaDirected := 40, 20, 1000
		if r.Thorough() {
			quotaDFS, quotaRandom = 400, 200
		}
		g := vx.NewRng(r.Seed + uint64(len(sc.Name)))
		hasDry := false
		for _, q := range sc.Reqs {
			hasDry = hasDry || q.DryRun
		}
		var withPreview []previewFail
		exploreD := func(prefix []int, script []string, quota *int) Exec {
			ex := runDirected(sc, prefix, script, false)
			n++
			if ex.Fault != "" && ex.LostAckSet {
				// not a scheduling artefact: the request's entry is on disk, it was resumed, and it never returned.
				// Re-execute once before reporting.
				again := run(sc, ex.Schedule, false)
				if again.LostAckSet {
					r.FailP("C06", "persisted-write-never-answered:"+sc.Reqs[ex.LostAck].Kind, map[string]any{"scenario": sc, "schedule": ex.Schedule, "choices": ex.Choices},
						fmt.Sprintf("request %d: its log entry is persisted, yet the request never gets its persistence signal (reproduced on re-execution)", ex.LostAck), len(ex.Schedule))
				}
			}
			if ex.Fault != "" {
				faults++
				r.Count("harness-fault")
				if os.Getenv("VERIF_DEBUG") != "" {
					ex2 := runDirected(sc, ex.Schedule, nil, true)
					fmt.Fprintln(os.Stderr, "FAULT", ex.Fault, ex.Choices, "rerun fault:", ex2.Fault)
					for _, e := range ex2.Trace {
						fmt.Fprintln(os.Stderr, "   ", e.Tid, e.Point, e.KV)
					}
				}
				return ex
			}
			for _, d := range ex.Shadow {
				// the repository's in-memory store is one of the stores the engine runs on (C05, C07, C10 anchor it): fed the
				// batches the engine wrote, it must answer the engine's reads as the log does
				kind := strings.SplitN(d, "|", 2)[0]
				for _, prop := range []string{"C02", "C05", "C07", "C10"} {
					r.FailP(prop, "inmemory-store:"+kind+"-read-differs-from-the-log", map[string]any{"scenario": sc, "schedule": ex.Schedule, "choices": ex.Choices}, d, len(ex.Schedule))
				}
			}
			for _, f := range oracles(sc, ex) {
				in := map[string]any{"scenario": sc, "schedule": ex.Schedule, "choices": ex.Choices, "responses": ex.Responses}
				r.FailP(f.prop, f.sig, in, f.detail, len(ex.Schedule))
				if hasDry && f.prop != "C14" {
					withPreview = append(withPreview, previewFail{f, in, len(ex.Schedule)})
				}
			}
			r.Count("scenario:" + sc.Name)
			if os.Getenv("VERIF_DEBUG") != "" {
				js, _ := json.Marshal(ex.Responses)
				fmt.Fprintln(os.Stderr, "EXEC", ex.Choices, string(js), len(ex.Disk))
			}
			coq := ""
			modelled := !sc.FailCtx && len(sc.ReadFail) == 0 // this scenario offers a choice / a store behaviour the model does not have
			for _, c := range ex.MainChoices {
				if c.Kind == "persist_fail_ctx" {
					modelled = false // a store failure of kind context.Canceled is outside the model: oracle only
				}
			}
			if *quota > 0 && modelled {
				coq = coqCase(sc, ex)
				*quota--
			}
			r.Case(coq, map[string]any{"scenario": sc, "schedule": ex.Schedule, "choices": ex.Choices}, fmt.Sprint(sc.Name, ex.Schedule), overlapped(ex))
			return ex
		}
		explore := func(prefix []int) Exec { return exploreD(prefix, nil, &quotaDFS) }
		for _, script := range sc.Directed {
			ex := exploreD(nil, script, &quotaDirected)
			if ex.Fault == "" {
				r.Count("directed-schedule")
			}
		}
		n = 0
		// depth-first over the observed branching factors (stateless search by re-execution)
		for n < b && faults < 6 {
			ex := explore(prefix)
			prefix = next(ex.Schedule, ex.Counts)
			if prefix == nil {
				exhaustive = true
				break
			}
		}
		// budget exhausted: seeded random schedules on top
		if !exhaustive {
			for k := 0; k < b/2 && faults < 6; k++ {
				rp := make([]int, 80)
				for i := range rp {
					rp[i] = g.Intn(5)
				}
				exploreD(rp, nil, &quotaRandom)
			}
		}
		if len(withPreview) > 0 {
			// C14: something went wrong in executions that contain a preview. Control: the same scenario without its
			// previews. What also goes wrong there is not the preview's doing; what goes wrong only with the preview is.
			ctl := sc
			ctl.Name, ctl.Directed, ctl.Reqs = sc.Name+" (control: previews removed)", nil, nil
			for _, q := range sc.Reqs {
				if !q.DryRun {
					ctl.Reqs = append(ctl.Reqs, q)
				}
			}
			ctlSigs := map[string]bool{}
			cp := []int{}
			for k := 0; k < 250 && cp != nil && len(ctl.Reqs) > 0; k++ {
				ex := run(ctl, cp, false)
				if ex.Fault != "" {
					break
				}
				for _, f := range oracles(ctl, ex) {
					ctlSigs[f.prop+":"+f.sig] = true
				}
				cp = next(ex.Schedule, ex.Counts)
			}
			reported := map[string]bool{}
			for _, pf := range withPreview {
				key := pf.f.prop + ":" + pf.f.sig
				if !ctlSigs[key] && !reported[key] {
					reported[key] = true
					r.FailP("C14", "preview-enables:"+key, pf.in, "only with the preview in the execution (not in any of the explored executions of the same requests without it): "+pf.f.detail, pf.size)
				}
			}
		}
		r.Sum.Notes = append(r.Sum.Notes, fmt.Sprintf("%s: %d schedules, %d harness faults, exhaustive=%v", sc.Name, n, faults, exhaustive))
	}
	if only == "" || only == "free-running" {
		freeRunningDuplicates(r)
	}
	if only == "" || only == "batcher-direct" {
		batcherDirect(r)
		batcherShutdown(r)
	}
	if only == "" || only == "preview-differential" {
		n := 120
		if r.Thorough() {
			n = 3000
		}
		previewDifferential(r, n)
	}
	r.Finish()
}

func overlapped(ex Exec) bool {
	started := 0
	for _, c := range ex.Choices {
		if strings.HasPrefix(c, "start") {
			started++
			if started >= 2 {
				return true
			}
		}
	}
	return started >= 2
}
