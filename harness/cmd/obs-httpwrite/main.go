// obs-httpwrite: sequential histories of write requests sent through the REAL HTTP routers and controllers (v1 and
// v2: Idempotency-Key header, dryRun / preview parameters, postings vs script bodies, force / disableChecks, bulk)
// to the REAL Commander over a log-fold store. Ties the glue between API and engine (getCommandParameters, ToRunScript,
// TxToScriptData, error mapping) to the properties C06 C07 C09 C14 C16 with oracles on disk, responses and events.
package main

import (
	"bytes"
	"context"
	"encoding/json"
	"fmt"
	"math/big"
	"net/http"
	"net/http/httptest"
	"sort"
	"strings"
	"time"

	"github.com/ThreeDotsLabs/watermill/message"
	ledger "github.com/formancehq/ledger/internal"
	"github.com/formancehq/ledger/internal/api"
	"github.com/formancehq/ledger/internal/bus"
	"github.com/formancehq/ledger/pkg/events"
	"github.com/formancehq/ledger/internal/engine"
	"github.com/formancehq/ledger/internal/engine/command"
	"github.com/formancehq/ledger/internal/opentelemetry/metrics"
	"github.com/formancehq/ledger/internal/storage/ledgerstore"
	"github.com/formancehq/ledger/internal/storage/sqlutils"
	"github.com/formancehq/ledger/verifx/engx"
	"github.com/formancehq/ledger/verifx/fakeapi"
	"github.com/formancehq/ledger/verifx/vx"
	"github.com/formancehq/stack/libs/go-libs/auth"
	"github.com/formancehq/stack/libs/go-libs/health"
)

// event: one message as the REAL bus monitor (internal/bus: ledgerMonitor + message.go + libs/publish) put it on the
// publisher, decoded from the JSON a subscriber receives
type event struct {
	Kind     string // committed | saved_metadata | reverted | deleted_metadata
	Topic    string
	TxID     string
	Reverted string
	DiskLen  int
	Payload  json.RawMessage
}

// recorder is the message.Publisher handed to bus.NewLedgerMonitor
type recorder struct {
	disk   *engx.Disk
	events *[]event
}

func (p recorder) Close() error { return nil }
func (p recorder) Publish(topic string, msgs ...*message.Message) error {
	for _, m := range msgs {
		var em struct {
			Type    string          `json:"type"`
			Payload json.RawMessage `json:"payload"`
		}
		e := event{Topic: topic, DiskLen: len(p.disk.Logs)}
		if err := json.Unmarshal(m.Payload, &em); err != nil {
			e.Kind = "undecodable:" + err.Error()
			*p.events = append(*p.events, e)
			continue
		}
		e.Payload = em.Payload
		switch em.Type {
		case events.EventTypeCommittedTransactions:
			e.Kind = "committed"
			var c bus.CommittedTransactions
			if json.Unmarshal(em.Payload, &c) == nil && len(c.Transactions) == 1 && c.Transactions[0].ID != nil {
				e.TxID = c.Transactions[0].ID.String()
			}
		case events.EventTypeSavedMetadata:
			e.Kind = "saved_metadata"
		case events.EventTypeRevertedTransaction:
			e.Kind = "reverted"
			var c bus.RevertedTransaction
			if json.Unmarshal(em.Payload, &c) == nil && c.RevertTransaction.ID != nil && c.RevertedTransaction.ID != nil {
				e.TxID, e.Reverted = c.RevertTransaction.ID.String(), c.RevertedTransaction.ID.String()
			}
		case events.EventTypeDeletedMetadata:
			e.Kind = "deleted_metadata"
		default:
			e.Kind = "unknown-type:" + em.Type
		}
		if topic != em.Type {
			e.Kind += ":topic-differs"
		}
		*p.events = append(*p.events, e)
	}
	return nil
}

// canon: JSON value with object keys sorted (json.Marshal of map[string]any sorts) for comparison of contents
func canon(v any) string {
	b, err := json.Marshal(v)
	if err != nil {
		return "unmarshalable:" + err.Error()
	}
	var x any
	if json.Unmarshal(b, &x) != nil {
		return string(b)
	}
	b, _ = json.Marshal(x)
	return string(b)
}

func emptyIfNull(s string) string {
	if s == "null" {
		return "{}"
	}
	return s
}

// faithful: does the event carry the content of the persisted entry l? "" or what differs
func faithful(e event, l *ledger.ChainedLog) string {
	var pl map[string]json.RawMessage
	if err := json.Unmarshal(e.Payload, &pl); err != nil {
		return "payload-not-an-object"
	}
	get := func(k string) string {
		var x any
		if json.Unmarshal(pl[k], &x) != nil {
			return "absent"
		}
		b, _ := json.Marshal(x)
		return string(b)
	}
	if get("ledger") != `"l0"` {
		return "ledger"
	}
	switch d := l.Data.(type) {
	case ledger.NewTransactionLogPayload:
		if e.Kind != "committed" {
			return "kind"
		}
		if get("transactions") != canon([]ledger.Transaction{*d.Transaction}) {
			return "transaction"
		}
		if emptyIfNull(get("accountMetadata")) != emptyIfNull(canon(d.AccountMetadata)) {
			return "account-metadata"
		}
	case ledger.RevertedTransactionLogPayload:
		if e.Kind != "reverted" {
			return "kind"
		}
		if get("revertTransaction") != canon(*d.RevertTransaction) {
			return "revert-transaction"
		}
		var rt struct {
			ID *big.Int `json:"id"`
		}
		if json.Unmarshal(pl["revertedTransaction"], &rt) != nil || rt.ID == nil || rt.ID.Cmp(d.RevertedTransactionID) != 0 {
			return "reverted-transaction"
		}
	case ledger.SetMetadataLogPayload:
		if e.Kind != "saved_metadata" {
			return "kind"
		}
		if get("targetType") != canon(d.TargetType) || get("targetId") != canon(fmt.Sprint(d.TargetID)) {
			return "target"
		}
		if emptyIfNull(get("metadata")) != emptyIfNull(canon(d.Metadata)) {
			return "metadata"
		}
	case ledger.DeleteMetadataLogPayload:
		if e.Kind != "deleted_metadata" {
			return "kind"
		}
		var tid any
		_ = json.Unmarshal(pl["targetId"], &tid)
		if get("targetType") != canon(d.TargetType) || fmt.Sprint(tid) != fmt.Sprint(d.TargetID) || get("key") != canon(d.Key) {
			return "target-or-key"
		}
	}
	return ""
}

type hreq struct {
	API     string            `json:"api"`  // v1 | v2
	Kind    string            `json:"kind"` // create | script | revert | accmeta | delaccmeta | txmeta | deltxmeta | bulk
	Dry     string            `json:"dry"`  // value of the dryRun / preview parameter ("" = absent)
	IK      string            `json:"ik"`
	Posts   [][4]string       `json:"postings,omitempty"` // src dst asset amount
	Ref     string            `json:"reference,omitempty"`
	Meta    map[string]string `json:"metadata,omitempty"`
	TxID    int               `json:"txid,omitempty"`
	Force   bool              `json:"force,omitempty"`
	Account string            `json:"account,omitempty"`
	Key     string            `json:"key,omitempty"`
	AccMeta string            `json:"set_account_meta,omitempty"` // script: also set_account_meta(@<dst>, "tag", <this>)
	TS      string            `json:"timestamp,omitempty"`        // create / script: the transaction's timestamp as the client spells it
}

func isDry(v string) bool {
	u := strings.ToUpper(v)
	return u == "YES" || u == "TRUE" || v == "1"
}

type world struct {
	disk   *engx.Disk
	events []event
	router http.Handler
	cancel context.CancelFunc
}

func boot(disk *engx.Disk) *world {
	w := &world{disk: disk}
	store := &engx.Store{D: disk}
	c := command.New(store, command.NewDefaultLocker(), command.NewCompiler(64), command.NewReferencer(), bus.NewLedgerMonitor(recorder{disk, &w.events}, "l0"))
	if err := c.Init(context.Background()); err != nil {
		panic(err)
	}
	ctx, cancel := context.WithCancel(context.Background())
	w.cancel = cancel
	go func() {
		defer func() { _ = recover() }()
		c.Run(ctx)
	}()
	l := &fakeapi.Ledger{}
	l.Decide = func(call fakeapi.WriteCall) (*ledger.Transaction, error) {
		switch call.Kind {
		case "CREATE_TRANSACTION":
			tx, err := c.CreateTransaction(context.Background(), call.Params, *call.Script)
			return tx, engine.NewCommandError(err)
		case "REVERT_TRANSACTION":
			tx, err := c.RevertTransaction(context.Background(), call.Params, call.ID, call.Force)
			return tx, engine.NewCommandError(err)
		case "ADD_METADATA":
			return nil, engine.NewCommandError(c.SaveMeta(context.Background(), call.Params, call.TargetType, call.TargetID, call.Meta))
		default:
			return nil, engine.NewCommandError(c.DeleteMetadata(context.Background(), call.Params, call.TargetType, call.TargetID, call.Key))
		}
	}
	// single-transaction reads: the store's rule "the transaction with this id whose timestamp is not after the point in time"
	l.GetTx = func(q ledgerstore.GetTransactionQuery) (*ledger.ExpandedTransaction, error) {
		for _, lg := range disk.Logs {
			if tx := txOf(lg); tx != nil && q.ID != nil && tx.ID.Cmp(q.ID) == 0 {
				if q.PIT != nil && !q.PIT.IsZero() && tx.Timestamp.After(*q.PIT) {
					break
				}
				return &ledger.ExpandedTransaction{Transaction: *tx}, nil
			}
		}
		return nil, sqlutils.ErrNotFound
	}
	w.router = api.NewRouter(&fakeapi.Backend{L: l}, &health.HealthController{}, metrics.NewNoOpRegistry(), auth.NewNoAuth(), false)
	return w
}

func (q hreq) http() *http.Request {
	base := "/api/ledger/l0"
	param := "preview"
	if q.API == "v2" {
		base, param = "/api/ledger/v2/l0", "dryRun"
	}
	qs := ""
	add := func(k, v string) {
		if qs == "" {
			qs = "?"
		} else {
			qs += "&"
		}
		qs += k + "=" + v
	}
	if q.Dry != "" {
		add(param, q.Dry)
	}
	var method, path, body string
	postings := func() string {
		var ps []string
		for _, p := range q.Posts {
			ps = append(ps, fmt.Sprintf(`{"source":%q,"destination":%q,"asset":%q,"amount":%s}`, p[0], p[1], p[2], p[3]))
		}
		return "[" + strings.Join(ps, ",") + "]"
	}
	md, _ := json.Marshal(q.Meta)
	if q.Meta == nil {
		md = []byte("{}")
	}
	switch q.Kind {
	case "create":
		method, path = "POST", base+"/transactions"
		body = fmt.Sprintf(`{"postings":%s,"reference":%q,"metadata":%s}`, postings(), q.Ref, md)
		if q.TS != "" {
			body = fmt.Sprintf(`{"postings":%s,"reference":%q,"metadata":%s,"timestamp":%q}`, postings(), q.Ref, md, q.TS)
		}
	case "script":
		method, path = "POST", base+"/transactions"
		p := q.Posts[0]
		plain := fmt.Sprintf("send [%s %s] (\n  source = @%s\n  destination = @%s\n)\n", p[2], p[3], p[0], p[1])
		if q.AccMeta != "" {
			plain += fmt.Sprintf("set_account_meta(@%s, \"tag\", %q)\nset_account_meta(@auditor, \"seen\", %q)\n", p[1], q.AccMeta, q.AccMeta)
		}
		js, _ := json.Marshal(plain)
		body = fmt.Sprintf(`{"script":{"plain":%s},"reference":%q,"metadata":%s}`, js, q.Ref, md)
	case "revert":
		method, path = "POST", fmt.Sprintf("%s/transactions/%d/revert", base, q.TxID)
		if q.Force {
			if q.API == "v2" {
				add("force", "true")
			} else {
				add("disableChecks", "true")
			}
		}
	case "accmeta":
		method, path, body = "POST", base+"/accounts/"+q.Account+"/metadata", string(md)
	case "delaccmeta":
		method, path = "DELETE", base+"/accounts/"+q.Account+"/metadata/"+q.Key
	case "txmeta":
		method, path, body = "POST", fmt.Sprintf("%s/transactions/%d/metadata", base, q.TxID), string(md)
	case "deltxmeta":
		method, path = "DELETE", fmt.Sprintf("%s/transactions/%d/metadata/%s", base, q.TxID, q.Key)
	}
	r := httptest.NewRequest(method, path+qs, bytes.NewBufferString(body))
	if q.IK != "" {
		r.Header.Set("Idempotency-Key", q.IK)
	}
	r.Header.Set("Content-Type", "application/json")
	return r
}

type result struct {
	Status int
	TxID   string
}

func txOf(l *ledger.ChainedLog) *ledger.Transaction {
	switch p := l.Data.(type) {
	case ledger.NewTransactionLogPayload:
		return p.Transaction
	case ledger.RevertedTransactionLogPayload:
		return p.RevertTransaction
	}
	return nil
}

func runHistory(r *vx.Run, h []hreq) {
	disk := &engx.Disk{}
	w := boot(disk)
	defer w.cancel()
	seenIK := map[string]result{}
	storedBy := map[string]hreq{} // the request whose outcome a key stores
	size := len(h)
	for i, q := range h {
		if q.API == "v1" && (q.Kind == "delaccmeta") {
			continue // v1 has no such route
		}
		before, evBefore := len(disk.Logs), len(w.events)
		rec := httptest.NewRecorder()
		var pan string
		answered := make(chan struct{})
		go func() {
			defer close(answered)
			defer func() {
				if e := recover(); e != nil {
					pan = fmt.Sprint(e)
				}
			}()
			w.router.ServeHTTP(rec, q.http())
		}()
		in0 := map[string]any{"history": h, "failing_request": i}
		select {
		case <-answered:
		case <-time.After(10 * time.Second):
			// a sequential history: nothing else is running, so nothing this request could be waiting for will ever happen
			refusedPreview := false
			for _, p := range h[:i] {
				refusedPreview = refusedPreview || isDry(p.Dry)
			}
			if refusedPreview {
				r.FailP("C14", "http:request-never-answered-after-a-preview:"+q.API+":"+q.Kind, in0, "the request blocks for ever (something an earlier preview left behind: a lock, a reservation)", size)
			}
			r.FailP("C06", "http:request-never-answered:"+q.API+":"+q.Kind, in0, "a lone request in a sequential history blocks for ever", size)
			key, _ := json.Marshal(h)
			r.Case("", map[string]any{"history": h}, string(key), len(h) >= 3)
			return
		}
		if first, stored := storedBy[q.IK]; q.IK != "" && stored && !sameRequest(first, q) {
			// the key stores the outcome of a DIFFERENT request: refused with an error response (which status code is not what C06/C07/C16 are about), nothing written, nothing
			// published (a preview is refused too: the key is looked up before anything else)
			r.Count("http:key-reused-for-a-different-request")
			switch {
			case pan != "":
				r.FailP("C06", "http:key-reused-for-a-different-request:panic:"+q.API+":"+q.Kind, in0, pan, size)
			case rec.Code >= 200 && rec.Code < 300:
				r.FailP("C07", "http:key-reused-for-a-different-request-accepted:"+q.API+":"+q.Kind, in0, fmt.Sprintf("key %q stores the outcome of %s %s; status %d", q.IK, first.API, first.Kind, rec.Code), size)
			case rec.Code < 400:
				r.FailP("C06", "http:key-reused-for-a-different-request:not-an-error:"+q.API+":"+q.Kind, in0, fmt.Sprintf("status %d", rec.Code), size)
			}
			if len(disk.Logs) != before {
				r.FailP("C07", "http:key-reused-for-a-different-request-wrote:"+q.API+":"+q.Kind, in0, fmt.Sprintf("%d new entries", len(disk.Logs)-before), size)
			}
			if len(w.events) != evBefore {
				r.FailP("C16", "http:key-reused-for-a-different-request-published:"+q.API+":"+q.Kind, in0, fmt.Sprint(w.events[evBefore:]), size)
			}
			continue
		}
		if pan != "" {
			// a handler that panics answers 500 (the Recoverer): an error. It must not have left an entry or an event.
			if len(disk.Logs) != before {
				r.FailP("C06", "http:panic-after-the-entry-was-persisted:"+q.API+":"+q.Kind, in0, fmt.Sprintf("%d new entries, then panic: %s", len(disk.Logs)-before, pan), size)
			}
			if len(w.events) != evBefore && len(disk.Logs) == before {
				r.FailP("C16", "http:event-without-entry-from-a-panicking-request:"+q.API+":"+q.Kind, in0, pan, size)
			}
			continue
		}
		res := result{Status: rec.Code}
		var body struct {
			Data json.RawMessage `json:"data"`
		}
		if json.Unmarshal(rec.Body.Bytes(), &body) == nil && len(body.Data) > 0 {
			var one struct {
				ID *big.Int `json:"id"`
			}
			var many []struct {
				ID *big.Int `json:"id"`
			}
			if json.Unmarshal(body.Data, &one) == nil && one.ID != nil {
				res.TxID = one.ID.String()
			} else if json.Unmarshal(body.Data, &many) == nil && len(many) > 0 && many[0].ID != nil {
				res.TxID = many[0].ID.String() // v1 answers a list
			}
		}
		ok := rec.Code >= 200 && rec.Code < 300
		added := len(disk.Logs) - before
		newEvents := w.events[evBefore:]
		in := map[string]any{"history": h, "failing_request": i}
		dry := isDry(q.Dry)
		r.Count("http:" + q.API + ":" + q.Kind)
		if dry {
			r.Count("http:dry")
		}
		switch {
		case dry:
			if added != 0 {
				r.FailP("C14", "http:preview-wrote-a-log-entry:"+q.API+":"+q.Kind, in, fmt.Sprintf("%s=%s wrote %d entries", map[string]string{"v1": "preview", "v2": "dryRun"}[q.API], q.Dry, added), size)
			}
			if len(newEvents) != 0 {
				r.FailP("C14", "http:preview-published-an-event:"+q.API+":"+q.Kind, in, fmt.Sprint(newEvents), size)
				r.FailP("C16", "http:event-for-a-preview:"+q.API+":"+q.Kind, in, fmt.Sprint(newEvents), size)
			}
		case ok:
			prev, replay := seenIK[q.IK]
			if q.IK != "" && replay {
				if added != 0 {
					r.FailP("C07", "http:idempotency-key-took-effect-twice:"+q.API+":"+q.Kind, in, fmt.Sprintf("key %q: %d new entries on a retry", q.IK, added), size)
				}
				if prev.TxID != res.TxID {
					r.FailP("C07", "http:same-key-different-outcome:"+q.API+":"+q.Kind, in, fmt.Sprintf("key %q: %q then %q", q.IK, prev.TxID, res.TxID), size)
				}
			} else {
				if added != 1 {
					r.FailP("C06", "http:success-without-exactly-one-entry:"+q.API+":"+q.Kind, in, fmt.Sprintf("status %d, %d new entries (a value of the preview parameter that is not a yes must not be a preview: %q)", rec.Code, added, q.Dry), size)
				} else {
					l := disk.Logs[len(disk.Logs)-1]
					if l.IdempotencyKey != q.IK {
						r.FailP("C07", "http:idempotency-key-not-recorded:"+q.API+":"+q.Kind, in, fmt.Sprintf("header %q, entry %q", q.IK, l.IdempotencyKey), size)
					}
					if tx := txOf(l); tx != nil && (q.Kind == "create" || q.Kind == "script") {
						good := len(tx.Postings) == len(q.Posts) && tx.Reference == q.Ref
						for k := range q.Posts {
							if !good {
								break
							}
							p := tx.Postings[k]
							good = p.Source == q.Posts[k][0] && p.Destination == q.Posts[k][1] && p.Asset == q.Posts[k][2] && p.Amount.String() == q.Posts[k][3]
						}
						for k, v := range q.Meta {
							good = good && tx.Metadata[k] == v
						}
						if !good {
							r.FailP("C09", "http:committed-transaction-differs-from-request:"+q.API+":"+q.Kind, in, fmt.Sprintf("committed %+v ref=%q meta=%v", tx.Postings, tx.Reference, tx.Metadata), size)
						}
						if res.TxID != tx.ID.String() {
							r.FailP("C06", "http:answer-differs-from-entry:"+q.API+":"+q.Kind, in, fmt.Sprintf("answered %q, entry %s", res.TxID, tx.ID), size)
						}
						if q.TS != "" && q.Kind == "create" {
							if want, err := time.Parse(time.RFC3339Nano, q.TS); err == nil && !tx.Timestamp.Time.Equal(want) {
								r.FailP("C09", "http:committed-timestamp-is-not-the-requested-instant:"+q.API, in, fmt.Sprintf("requested %s, committed %s", q.TS, tx.Timestamp.Time.Format(time.RFC3339Nano)), size)
							}
						}
						// a read started after the response sees the write (default point in time = now)
						for _, base := range []string{"/api/ledger/l0", "/api/ledger/v2/l0"} {
							rr := httptest.NewRecorder()
							w.router.ServeHTTP(rr, httptest.NewRequest("GET", fmt.Sprintf("%s/transactions/%s", base, tx.ID), nil))
							if rr.Code != 200 {
								r.FailP("C06", "http:read-after-the-response-does-not-see-the-write:"+map[string]string{"/api/ledger/l0": "v1", "/api/ledger/v2/l0": "v2"}[base], in, fmt.Sprintf("GET transaction %s right after its creation was acknowledged: status %d %s", tx.ID, rr.Code, rr.Body.String()), size)
							}
						}
					}
				}
				if len(newEvents) == 0 && added == 1 {
					r.FailP("C16", "http:persisted-change-never-published:"+q.API+":"+q.Kind, in, "no event", size)
				}
				if added == 1 {
					for _, e := range newEvents {
						if d := faithful(e, disk.Logs[len(disk.Logs)-1]); d != "" {
							r.FailP("C16", "http:event-content-differs-from-entry:"+d+":"+q.API+":"+q.Kind, in, fmt.Sprintf("event %s %s", e.Kind, e.Payload), size)
						}
					}
				}
				if q.IK != "" {
					seenIK[q.IK] = res
					if added == 1 {
						storedBy[q.IK] = q
					}
				}
			}
			if q.IK != "" && replay {
				// a request answered from its key may publish again; what it publishes is the stored entry's content
				for _, l := range disk.Logs {
					if l.IdempotencyKey != q.IK {
						continue
					}
					for _, e := range newEvents {
						if d := faithful(e, l); d != "" {
							r.FailP("C16", "http:replayed-event-content-differs-from-entry:"+d+":"+q.API+":"+q.Kind, in, fmt.Sprintf("event %s %s", e.Kind, e.Payload), size)
						}
					}
					break
				}
			}
			for _, e := range newEvents {
				if strings.Contains(e.Kind, ":") {
					r.FailP("C16", "http:malformed-event:"+strings.SplitN(e.Kind, ":", 2)[0], in, e.Kind, size)
				}
				if e.Kind == "reverted" && e.Reverted != fmt.Sprint(q.TxID) && !replay {
					r.FailP("C16", "http:reverted-event-not-faithful:"+q.API, in, fmt.Sprintf("%+v for a revert of %d", e, q.TxID), size)
				}
			}
		default:
			if added != 0 {
				r.FailP("C06", "http:rejected-write-left-an-entry:"+q.API+":"+q.Kind, in, fmt.Sprintf("status %d, %d new entries", rec.Code, added), size)
			}
		}
	}
	for _, d := range disk.ShadowDiffs {
		kind := strings.SplitN(d, "|", 2)[0]
		r.FailP("C07", "inmemory-store:"+kind+"-read-differs-from-the-log", map[string]any{"history": h}, d, size)
	}
	key, _ := json.Marshal(h)
	r.Case("", map[string]any{"history": h}, string(key), len(h) >= 3)
}

// sameRequest: q is the request whose outcome the key stores, as the engine compares them (kind and target: any two
// transaction creations; reverts of the same transaction; metadata writes on the same target with the same content)
func sameRequest(first, q hreq) bool {
	class := func(k string) string {
		if k == "script" {
			return "create"
		}
		return k
	}
	if class(first.Kind) != class(q.Kind) {
		return false
	}
	sameMeta := len(first.Meta) == len(q.Meta)
	for k, v := range first.Meta {
		sameMeta = sameMeta && q.Meta[k] == v
	}
	switch class(q.Kind) {
	case "create":
		return true
	case "revert":
		return first.TxID == q.TxID
	case "accmeta":
		return first.Account == q.Account && sameMeta
	case "txmeta":
		return first.TxID == q.TxID && sameMeta
	case "delaccmeta":
		return first.Account == q.Account && first.Key == q.Key
	case "deltxmeta":
		return first.TxID == q.TxID && first.Key == q.Key
	}
	return false
}

func gen(g *vx.Rng) []hreq {
	accs := []string{"alice", "bob", "carol"}
	dries := []string{"", "", "", "true", "TRUE", "yes", "1", "false", "no", "0"}
	var h []hreq
	api := []string{"v1", "v2"}[g.Intn(2)]
	h = append(h, hreq{API: api, Kind: "create", Posts: [][4]string{{"world", "alice", "USD", "100"}}})
	txs := 1
	n := 3 + g.Intn(6)
	var keyed []hreq
	for k := 0; k < n; k++ {
		// an idempotency key is reused for an exact retry of the same request (replayed), and, 1 in 6, for a DIFFERENT
		// request of the same or another kind (refused: client error, nothing written, nothing published)
		if len(keyed) > 0 && g.Chance(1, 4) {
			h = append(h, keyed[g.Intn(len(keyed))])
			continue
		}
		q := hreq{API: []string{"v1", "v2"}[g.Intn(2)], Dry: dries[g.Intn(len(dries))]}
		if g.Chance(1, 3) {
			q.IK = fmt.Sprintf("key-%d", k)
		}
		reuse := ""
		if len(keyed) > 0 && g.Chance(1, 6) {
			reuse = keyed[g.Intn(len(keyed))].IK
		}
		switch c := g.Intn(10); {
		case c < 4:
			q.Kind = "create"
			m := 1 + g.Intn(2)
			for j := 0; j < m; j++ {
				amt := 1 + g.Intn(30)
				if g.Chance(1, 5) {
					amt = 500 // more than anybody holds: refused (after the accounts were locked), as a real write or as a preview
				}
				q.Posts = append(q.Posts, [4]string{accs[g.Intn(3)], accs[g.Intn(3)], "USD", fmt.Sprint(amt)})
			}
			if g.Chance(1, 3) {
				q.Ref = fmt.Sprintf("ref-%d", g.Intn(4))
				if g.Chance(1, 3) { // references are text: blanks around them belong to them
					q.Ref = []string{" order 42 ", "invoice-7 ", " lead", "a  b"}[g.Intn(4)] + fmt.Sprint(g.Intn(3))
				}
			}
			if g.Chance(1, 2) {
				q.Meta = map[string]string{"k": fmt.Sprint(g.Intn(5))}
			}
			if g.Chance(1, 3) {
				q.TS = []string{"2023-03-04T10:00:00Z", "1965-03-04T10:00:00Z", "1970-01-01T00:00:00Z", "1969-12-31T23:59:59.5Z", "2023-03-04T10:00:00.123456+02:00", "0001-01-01T00:00:01Z", "1900-02-28T12:00:00-05:00"}[g.Intn(7)]
			}
			txs++
		case c < 5:
			q.Kind = "script"
			q.Posts = [][4]string{{accs[g.Intn(3)], accs[g.Intn(3)], "USD", fmt.Sprint(1 + g.Intn(30))}}
			if g.Chance(1, 2) {
				q.AccMeta = fmt.Sprintf("v%d", g.Intn(5))
			}
			if g.Chance(1, 2) && q.IK == "" {
				q.IK = fmt.Sprintf("key-%d", k)
			}
			txs++
		case c < 7:
			q.Kind, q.TxID, q.Force = "revert", g.Intn(txs+1), g.Chance(1, 3)
		case c < 8:
			q.Kind, q.Account, q.Meta = "accmeta", accs[g.Intn(3)], map[string]string{[]string{"k", "j", "role"}[g.Intn(3)]: fmt.Sprint(g.Intn(3))}
			if g.Chance(1, 4) {
				q.Meta = map[string]string{} // an empty object is a valid metadata write: persisted, hence published
			}
		case c < 9:
			q.Kind, q.TxID, q.Meta = "txmeta", g.Intn(txs+1), map[string]string{[]string{"k", "j", "role"}[g.Intn(3)]: fmt.Sprint(g.Intn(3))}
			if g.Chance(1, 4) {
				q.Meta = map[string]string{}
			}
		default:
			q.API, q.Kind, q.Account, q.Key = "v2", "delaccmeta", accs[g.Intn(3)], "k"
		}
		if reuse != "" {
			q.IK = reuse
			h = append(h, q)
			continue
		}
		h = append(h, q)
		if q.IK != "" && !isDry(q.Dry) {
			keyed = append(keyed, q)
		}
	}
	if g.Chance(1, 3) {
		// two posting lists over the same accounts that differ only in which sends go which way: each commits its own
		a, b := accs[g.Intn(3)], accs[(g.Intn(2)+1)%3]
		if a == b {
			b = accs[(g.Intn(3)+1)%3]
		}
		api := []string{"v1", "v2"}[g.Intn(2)]
		h = append(h, hreq{API: api, Kind: "create", Posts: [][4]string{{"world", a, "USD", "100"}, {"world", b, "USD", "100"}}})
		h = append(h, hreq{API: api, Kind: "create", Posts: [][4]string{{a, b, "USD", "10"}, {a, b, "USD", "20"}, {b, a, "USD", "30"}}})
		h = append(h, hreq{API: api, Kind: "create", Posts: [][4]string{{a, b, "USD", "10"}, {b, a, "USD", "20"}, {a, b, "USD", "30"}}})
		h = append(h, hreq{API: api, Kind: "create", Posts: [][4]string{{b, a, "USD", "10"}, {a, b, "USD", "20"}, {a, b, "USD", "30"}}})
	}
	return h
}

// crashed: the answer of a handler that panicked. chi's Recoverer (v2) answers a bare 500 without a body (an error
// the handler merely does not map to a client error is a 500 WITH an INTERNAL body: poor, but a defined answer, not a
// crash); a panic inside an Error() method swallowed by fmt shows as "%!s(PANIC=" / "%!v(PANIC=" in the text.
func crashed(rec *httptest.ResponseRecorder) bool {
	body := rec.Body.String()
	return (rec.Code == 500 && strings.TrimSpace(body) == "") || strings.Contains(body, "(PANIC=")
}

// varsShapes: `script.vars` of a create request as a client may spell it (C12: no variable map can crash the engine; the
// API's decoding of the map is part of that path): every JSON shape, through v1, v2 and a bulk element. No panic; a 2xx
// answer means exactly one entry, anything else none.
func varsShapes(r *vx.Run) {
	plain := "vars {\n  monetary $val\n  account $dst\n}\nsend $val (\n  source = @world\n  destination = $dst\n)\n"
	shapes := []string{
		`{"val":"USD 10","dst":"alice"}`, `{"val":{"asset":"USD","amount":10},"dst":"alice"}`, `{"val":{"asset":"USD/2","amount":100},"dst":"alice"}`,
		`{"val":{"amount":100},"dst":"alice"}`, `{"val":{"asset":2,"amount":100},"dst":"alice"}`, `{"val":{"asset":null,"amount":1},"dst":"alice"}`,
		`{"val":{"asset":{"a":1},"amount":1},"dst":"alice"}`, `{"val":{"asset":"USD"},"dst":"alice"}`, `{"val":{"asset":"USD","amount":"10"},"dst":"alice"}`,
		`{"val":{"asset":"USD","amount":1.5},"dst":"alice"}`, `{"val":{"asset":"USD","amount":-1},"dst":"alice"}`, `{"val":{"asset":"USD","amount":1e30},"dst":"alice"}`,
		`{"val":{"asset":"USD","amount":null},"dst":"alice"}`, `{"val":{"asset":"USD","amount":[1]},"dst":"alice"}`, `{"val":{},"dst":"alice"}`,
		`{"val":null,"dst":"alice"}`, `{"val":[1],"dst":"alice"}`, `{"val":5,"dst":"alice"}`, `{"val":true,"dst":"alice"}`, `{"val":"USD 10","dst":5}`,
		`{"val":"USD 10","dst":null}`, `{"val":"USD 10","dst":{"a":"b"}}`, `{"val":"USD 10","dst":["alice"]}`, `{"val":"USD 10"}`, `{}`, `null`, `"x"`, `[1]`, `5`,
		`{"val":"USD 10","dst":"alice","extra":{"deep":{"deeper":[1,2,{"x":null}]}}}`, `{"val":"10","dst":"alice"}`, `{"val":"USD","dst":"alice"}`, `{"val":"USD 1 2","dst":"alice"}`,
	}
	for _, api := range []string{"v1", "v2", "bulk"} {
		for _, vars := range shapes {
			disk := &engx.Disk{}
			w := boot(disk)
			js, _ := json.Marshal(plain)
			data := fmt.Sprintf(`{"script":{"plain":%s,"vars":%s}}`, js, vars)
			method, path, body := "POST", "/api/ledger/l0/transactions", data
			switch api {
			case "v2":
				path = "/api/ledger/v2/l0/transactions"
			case "bulk":
				path, body = "/api/ledger/v2/l0/_bulk", `[{"action":"CREATE_TRANSACTION","data":`+data+`}]`
			}
			req := httptest.NewRequest(method, path, bytes.NewBufferString(body))
			req.Header.Set("Content-Type", "application/json")
			rec := httptest.NewRecorder()
			pan := ""
			func() {
				defer func() {
					if e := recover(); e != nil {
						pan = fmt.Sprint(e)
					}
				}()
				w.router.ServeHTTP(rec, req)
			}()
			in := map[string]any{"api": api, "vars": json.RawMessage(vars), "script": plain}
			ok := rec.Code >= 200 && rec.Code < 300 && api != "bulk"
			switch {
			case pan != "":
				r.FailP("C12", "http:panic-decoding-or-running-script-vars:"+api, in, pan, len(vars))
			case crashed(rec):
				// the router's Recoverer turns a panic of the handler into a bare 500
				r.FailP("C12", "http:internal-error-decoding-or-running-script-vars:"+api, in, fmt.Sprintf("status %d body %s", rec.Code, rec.Body.String()), len(vars))
			case ok && len(disk.Logs) != 1:
				r.FailP("C06", "http:success-without-exactly-one-entry:"+api+":script-vars", in, fmt.Sprintf("status %d, %d entries", rec.Code, len(disk.Logs)), len(vars))
			case !ok && api != "bulk" && len(disk.Logs) != 0:
				r.FailP("C06", "http:rejected-write-left-an-entry:"+api+":script-vars", in, fmt.Sprintf("status %d, %d entries", rec.Code, len(disk.Logs)), len(vars))
			}
			w.cancel()
			r.Count("http:script-vars-shape")
			r.Case("", in, api+vars, true)
		}
	}
}

// scriptShapes: script TEXTS as a client may send them through the real v1 / v2 / bulk handlers to the real Commander
// (C12): many print statements, scripts that stop in the middle of a statement, comments only, empty, very long. Every
// request is answered (no hang, no panic, no internal error); a 2xx answer means exactly one entry, anything else none.
func scriptShapes(r *vx.Run) {
	send := "send [USD 10] (\n  source = @world\n  destination = @alice\n)\n"
	prints := func(n int) string { return strings.Repeat("print 1 + 1\n", n) + send }
	shapes := map[string]string{
		"prints-0": prints(0), "prints-1": prints(1), "prints-15": prints(15), "prints-16": prints(16), "prints-17": prints(17), "prints-40": prints(40), "prints-300": prints(300),
		"truncated-send": "send [USD 100] (\n", "truncated-vars": "vars {\n\taccount $a\n", "truncated-source": "send [USD 100] (\n  source = ", "truncated-monetary": "send [USD ",
		"truncated-destination": "send [USD 1] (\n  source = @world\n  destination = {\n    50% to @a\n", "only-comment": "// nothing\n", "only-block-comment": "/* nothing */", "empty": "", "blank": " \n\t",
		"unterminated-comment": "/* never closed\n" + send, "unterminated-string": "set_tx_meta(\"k, 1)\n" + send,
		"long-1000-sends": strings.Repeat(send, 1000), "long-account-name": "send [USD 1] (\n  source = @world\n  destination = @" + strings.Repeat("a", 5000) + "\n)\n",
		"deep-nesting": "send [USD 8] (\n  source = " + strings.Repeat("{ ", 60) + "@world" + strings.Repeat(" }", 60) + "\n  destination = @alice\n)\n",
		"fail-statement": "fail\n", "print-only": "print 7\n", "meta-only": "set_tx_meta(\"k\", 1)\n",
	}
	names := make([]string, 0, len(shapes))
	for n := range shapes {
		names = append(names, n)
	}
	sort.Strings(names)
	for _, api := range []string{"v1", "v2", "bulk"} {
		for _, name := range names {
			plain := shapes[name]
			disk := &engx.Disk{}
			w := boot(disk)
			js, _ := json.Marshal(plain)
			data := fmt.Sprintf(`{"script":{"plain":%s}}`, js)
			path, body := "/api/ledger/l0/transactions", data
			switch api {
			case "v2":
				path = "/api/ledger/v2/l0/transactions"
			case "bulk":
				path, body = "/api/ledger/v2/l0/_bulk", `[{"action":"CREATE_TRANSACTION","data":`+data+`}]`
			}
			req := httptest.NewRequest("POST", path, bytes.NewBufferString(body))
			req.Header.Set("Content-Type", "application/json")
			rec := httptest.NewRecorder()
			pan := ""
			answered := make(chan struct{})
			go func() {
				defer close(answered)
				defer func() {
					if e := recover(); e != nil {
						pan = fmt.Sprint(e)
					}
				}()
				w.router.ServeHTTP(rec, req)
			}()
			in := map[string]any{"api": api, "shape": name, "script_bytes": len(plain)}
			if len(plain) < 400 {
				in["script"] = plain
			}
			select {
			case <-answered:
				ok := rec.Code >= 200 && rec.Code < 300 && api != "bulk"
				switch {
				case pan != "":
					r.FailP("C12", "http:panic-on-a-script-text:"+api+":"+name, in, pan, len(name))
				case crashed(rec):
					r.FailP("C12", "http:internal-error-on-a-script-text:"+api+":"+name, in, fmt.Sprintf("status %d body %.300s", rec.Code, rec.Body.String()), len(name))
				case ok && len(disk.Logs) != 1:
					r.FailP("C06", "http:success-without-exactly-one-entry:"+api+":script-text", in, fmt.Sprintf("status %d, %d entries", rec.Code, len(disk.Logs)), len(name))
				case !ok && api != "bulk" && len(disk.Logs) != 0:
					r.FailP("C06", "http:rejected-write-left-an-entry:"+api+":script-text", in, fmt.Sprintf("status %d, %d entries", rec.Code, len(disk.Logs)), len(name))
				}
			case <-time.After(10 * time.Second):
				r.FailP("C12", "http:script-request-never-answered:"+api+":"+name, in, "the engine hangs on this script", len(name))
			}
			w.cancel()
			r.Count("http:script-text-shape")
			r.Case("", in, api+":"+name, true)
		}
	}
}

// bulkKeys: bulks of create elements with and without idempotency keys through the real bulk handler to the real Commander:
// every acknowledged element has its own entry, carrying exactly the key the element spells out (C06, C07)
func bulkKeys(r *vx.Run) {
	for _, iks := range [][]string{{"", ""}, {"k1", ""}, {"", "k1"}, {"k1", "k2"}, {"k1", "", "k2"}, {"k1", "", ""}, {"", "k1", ""}, {"k1", "k2", ""}, {"k1", "", "k1"}} {
		for _, cont := range []string{"", "?continueOnFailure=true"} {
			disk := &engx.Disk{}
			w := boot(disk)
			var els []string
			for i, k := range iks {
				els = append(els, fmt.Sprintf(`{"action":"CREATE_TRANSACTION","ik":%q,"data":{"postings":[{"source":"world","destination":"acc%d","asset":"USD","amount":%d}]}}`, k, i, 10+i))
			}
			req := httptest.NewRequest("POST", "/api/ledger/v2/l0/_bulk"+cont, bytes.NewBufferString("["+strings.Join(els, ",")+"]"))
			req.Header.Set("Content-Type", "application/json")
			rec := httptest.NewRecorder()
			w.router.ServeHTTP(rec, req)
			in := map[string]any{"bulk_idempotency_keys": iks, "query": cont}
			// the third element of {"k1","","k1"} reuses k1 for a DIFFERENT request: refused; everything else is written
			want := len(iks)
			if len(iks) == 3 && iks[2] == "k1" && iks[0] == "k1" {
				want = 2
			}
			if len(disk.Logs) != want {
				r.FailP("C06", "http:bulk-elements-and-entries-differ", in, fmt.Sprintf("%d entries for %d elements that must each write one (status %d, body %.300s)", len(disk.Logs), want, rec.Code, rec.Body.String()), len(iks))
			}
			for i, l := range disk.Logs {
				if i < len(iks) && l.IdempotencyKey != iks[i] && len(disk.Logs) == want {
					r.FailP("C07", "http:bulk-entry-carries-a-key-its-element-does-not", in, fmt.Sprintf("entry %d has key %q, element has %q", i, l.IdempotencyKey, iks[i]), len(iks))
				}
			}
			w.cancel()
			r.Count("http:bulk-keys")
			r.Case("", in, fmt.Sprint(iks, cont), true)
		}
	}
}

func main() {
	r := vx.Start("C14", "httpwrite")
	r.Sum.Rule = "sequential histories of write requests through the real v1/v2 routers and controllers to the real Commander over a log-fold store: postings and script bodies, reverts (force / disableChecks), account and transaction metadata, with Idempotency-Key headers and every spelling of the dryRun / preview parameter; non-trivial = at least 3 requests; distinct by the JSON of the history"
	docs, replayOnly := r.Inputs()
	for _, d := range docs {
		var w struct {
			History []hreq `json:"history"`
		}
		if json.Unmarshal(d, &w) == nil && len(w.History) > 0 {
			runHistory(r, w.History)
		}
	}
	if replayOnly {
		r.Finish()
		return
	}
	n := 300
	if r.Thorough() {
		n = 8000
	}
	g := vx.NewRng(r.Seed)
	for i := 0; i < n; i++ {
		runHistory(r, gen(g.Fork()))
	}
	varsShapes(r)
	bulkKeys(r)
	scriptShapes(r)
	r.Sum.Shards = []string{}
	r.Finish()
}
