// obs-lock drives the real command.DefaultLocker of the working tree under a deterministic scheduler
// (internal/verifhook yield points, build tag verif): every Lock call runs in its own goroutine, goroutines
// are parked at the yield points of lock.go and exactly one of them runs at any time. Schedules (arrival,
// release, cancellation, wake-up of a waiter, the cancellation branch of Lock) are enumerated exhaustively
// for small programs and drawn from the seed for larger ones. Every executed schedule is (a) judged by the
// C15 oracle stated on the observables of the implementation and (b) written as a Coq case: the trace is
// replayed step by step through Lock/Model.v inside coqc and must produce the same grants, the same
// fast-path/queue decisions, the same outcome per request and the same final lock table.
package main

import (
	"context"
	"encoding/json"
	"fmt"
	"io"
	"os"
	"runtime"
	"strings"
	"sync"
	"sync/atomic"
	"time"

	"github.com/formancehq/ledger/internal/engine/command"
	"github.com/formancehq/ledger/internal/verifhook"
	"github.com/formancehq/ledger/verifx/vx"
	"github.com/formancehq/stack/libs/go-libs/logging"
	"github.com/sirupsen/logrus"
)

// ---- inputs ---------------------------------------------------------------------------------------------

type reqSpec struct {
	R   []int `json:"r"`   // accounts asked for reading (duplicates allowed, as in the Go slices)
	W   []int `json:"w"`   // accounts asked for writing
	Pre bool  `json:"pre"` // the context is already cancelled when Lock is called
}

// one scheduler decision. k: start | release | cancel | wake | abort; i: request number (arrival order)
type act struct {
	K string `json:"k"`
	I int    `json:"i"`
	B string `json:"b,omitempty"` // for wake: the select branch that was taken (done | acquired)
}

type input struct {
	Accounts int       `json:"accounts"`
	Reqs     []reqSpec `json:"reqs"`
	Sched    []act     `json:"sched"`
	// a hit of the free-running stress search (not a deterministic schedule): seed, round in which it showed
	Stress *stressHit `json:"stress,omitempty"`
}

type stressHit struct {
	Seed       uint64 `json:"seed"`
	Round      int    `json:"round"`
	Rounds     int    `json:"rounds"`
	Workers    int    `json:"workers"`
	Iterations int    `json:"iterations_per_worker_per_round"`
	LockCalls  int64  `json:"lock_calls_until_hit"`
	Note       string `json:"note"`
}

// ---- one execution ---------------------------------------------------------------------------------------

const (
	phNot   = iota
	phEnq   // parked at lock.enqueued (in the model: inside the select)
	phDone  // parked at lock.select.done (the select took <-ctx.Done())
	phHold  // Lock returned the unlock function
	phRel   // unlock called
	phFail  // Lock returned an error
	phStuck // the goroutine never came back (stall)
)

type event struct {
	k     int
	kind  string // parked | returned | released | panic
	point string
	err   bool
	msg   string
}

type rstate struct {
	spec      reqSpec
	phase     int
	granted   bool // a lock.grant notification named this request's intent
	cancelled bool
	bothReady bool // woken while granted and cancelled
	ctx       context.Context
	cancel    context.CancelFunc
	resume    chan struct{}
	cmd       chan struct{}
}

type step struct {
	A      act
	Coq    string // action as a Coq term
	Obs    string // observation as a Coq term
	Grants []int
}

type exec struct {
	locker   *command.DefaultLocker
	prog     []reqSpec // requests in arrival order; reqs[k] exists once request k has been started
	reqs     []*rstate
	events   chan event
	mu       sync.Mutex
	intentOf map[any]int
	grants   []int
	notes    []string
	trace    []step
	stalled  bool
	probing  bool // every request of the program has finished; the accounts are being probed
	fails    []failure
	nacc     int
	both     int
}

type failure struct{ sig, detail string }

type reqCtxKey struct{}
type reqCtx struct {
	e *exec
	k int
}

var discardLogger = func() logging.Logger {
	l := logrus.New()
	l.SetOutput(io.Discard)
	return logging.NewLogrus(l)
}()

var stallTimeout = 10 * time.Second

// size of the stress search: rounds x GOMAXPROCS workers x stressIters Lock calls
const (
	stressIters          = 400
	stressRoundsQuick    = 40
	stressRoundsThorough = 600
)

func accName(a int) string { return fmt.Sprintf("acc:%d", a) }
func accNames(as []int) []string {
	out := make([]string, 0, len(as))
	for _, a := range as {
		out = append(out, accName(a))
	}
	return out
}

// the process-global handler: dispatches on the context of the goroutine that reached the point
func handler(ctx context.Context, point string, kv ...any) {
	rc, _ := ctx.Value(reqCtxKey{}).(*reqCtx)
	if rc == nil {
		if st, _ := ctx.Value(stressCtxKey{}).(*stressRound); st != nil {
			st.yield(point)
		}
		return
	}
	e := rc.e
	var intent any
	for i := 0; i+1 < len(kv); i += 2 {
		if kv[i] == "intent" {
			intent = kv[i+1]
		}
	}
	switch point {
	case "lock.enqueued", "lock.select.done":
		// outside the locker mutex: park until the scheduler resumes this request
		if point == "lock.enqueued" {
			e.mu.Lock()
			e.intentOf[intent] = rc.k
			e.mu.Unlock()
		}
		e.events <- event{k: rc.k, kind: "parked", point: point}
		<-e.reqs[rc.k].resume
	case "lock.grant":
		// under the locker mutex: record only
		e.mu.Lock()
		if k, ok := e.intentOf[intent]; ok {
			e.grants = append(e.grants, k)
		} else {
			e.grants = append(e.grants, -1)
		}
		e.mu.Unlock()
	default:
		// lock.fast, lock.select.acquired, lock.release: nothing to decide here
	}
}

func newExec(nacc int) *exec {
	return &exec{locker: command.NewDefaultLocker(), events: make(chan event, 16), intentOf: map[any]int{}, nacc: nacc}
}

func (e *exec) add(spec reqSpec) int {
	k := len(e.reqs)
	rs := &rstate{spec: spec, resume: make(chan struct{}), cmd: make(chan struct{})}
	base := logging.ContextWithLogger(context.Background(), discardLogger)
	base = context.WithValue(base, reqCtxKey{}, &reqCtx{e: e, k: k})
	rs.ctx, rs.cancel = context.WithCancel(base)
	if spec.Pre {
		rs.cancel()
		rs.cancelled = true
	}
	e.reqs = append(e.reqs, rs)
	return k
}

func (e *exec) runReq(k int) {
	rs := e.reqs[k]
	defer func() {
		if r := recover(); r != nil {
			e.events <- event{k: k, kind: "panic", msg: fmt.Sprint(r)}
		}
	}()
	unlock, err := e.locker.Lock(rs.ctx, command.Accounts{Read: accNames(rs.spec.R), Write: accNames(rs.spec.W)})
	e.events <- event{k: k, kind: "returned", err: err != nil}
	if err != nil {
		return
	}
	<-rs.cmd
	unlock(rs.ctx)
	e.events <- event{k: k, kind: "released"}
}

// wait for the one goroutine that is running to park, return or finish
func (e *exec) wait() (event, bool) {
	t := time.NewTimer(stallTimeout)
	defer t.Stop()
	select {
	case ev := <-e.events:
		return ev, true
	case <-t.C:
		return event{}, false
	}
}

func (e *exec) takeGrants() []int {
	e.mu.Lock()
	g := e.grants
	e.grants = nil
	e.mu.Unlock()
	for _, k := range g {
		if k >= 0 && k < len(e.reqs) {
			e.reqs[k].granted = true
		}
	}
	return g
}

func (e *exec) fail(sig, detail string) { e.fails = append(e.fails, failure{sig, detail}) }

func coqAccts(as []int) string {
	xs := make([]string, 0, len(as))
	for _, a := range as {
		xs = append(xs, vx.CoqN(uint64(a)))
	}
	return vx.CoqList(xs)
}
func coqNats(ks []int) string {
	xs := make([]string, 0, len(ks))
	for _, k := range ks {
		if k < 0 {
			xs = append(xs, "999")
		} else {
			xs = append(xs, vx.CoqNat(k))
		}
	}
	return vx.CoqList(xs)
}

// enabled scheduler decisions, in a canonical order (by request, then kind)
func (e *exec) enabled(nextStart int, nprog int) []act {
	var out []act
	for k, rs := range e.reqs {
		switch rs.phase {
		case phEnq:
			if !rs.cancelled {
				out = append(out, act{K: "cancel", I: k})
			}
			if rs.granted || rs.cancelled {
				out = append(out, act{K: "wake", I: k})
			}
		case phDone:
			out = append(out, act{K: "abort", I: k})
		case phHold:
			out = append(out, act{K: "release", I: k})
		}
	}
	if nextStart < nprog {
		out = append(out, act{K: "start", I: nextStart})
	}
	return out
}

func isEnabled(en []act, a act) bool {
	for _, x := range en {
		if x.K == a.K && x.I == a.I {
			return true
		}
	}
	return false
}

// perform one decision on the real locker and record what was observed
func (e *exec) do(a act) {
	if a.K == "start" && a.I == len(e.reqs) && a.I < len(e.prog) {
		e.add(e.prog[a.I])
	}
	if a.I >= len(e.reqs) {
		return
	}
	rs := e.reqs[a.I]
	e.takeGrants()
	st := step{A: a}
	switch a.K {
	case "start":
		st.Coq = fmt.Sprintf("ALock %s %s %s", coqAccts(rs.spec.R), coqAccts(rs.spec.W), vx.CoqBool(rs.spec.Pre))
		go e.runReq(a.I)
	case "release":
		st.Coq = fmt.Sprintf("ARelease %d", a.I)
		rs.cmd <- struct{}{}
	case "cancel":
		st.Coq = fmt.Sprintf("ACancel %d", a.I)
		st.Obs = "OSkip"
		rs.cancel()
		rs.cancelled = true
		e.trace = append(e.trace, st)
		return
	case "wake":
		if rs.granted && rs.cancelled {
			rs.bothReady = true
			e.both++
		}
		rs.resume <- struct{}{}
	case "abort":
		st.Coq = fmt.Sprintf("AAbort %d", a.I)
		rs.resume <- struct{}{}
	}
	ev, ok := e.wait()
	if !ok {
		e.stalled = true
		rs.phase = phStuck
		e.fail("stall:"+a.K, fmt.Sprintf("request %d did not reach a yield point or return within %s after %q", a.I, stallTimeout, a.K))
		st.Obs = "OSkip"
		if st.Coq == "" {
			st.Coq = fmt.Sprintf("AWake %d false", a.I)
		}
		e.trace = append(e.trace, st)
		return
	}
	g := e.takeGrants()
	st.Grants = g
	if ev.kind == "panic" {
		rs.phase = phStuck
		e.stalled = true
		e.fail("panic:"+a.K, ev.msg)
	}
	switch a.K {
	case "start":
		switch {
		case ev.kind == "parked" && ev.point == "lock.enqueued":
			rs.phase = phEnq
			st.Obs = "OQueued"
		case ev.kind == "returned" && !ev.err:
			rs.phase = phHold
			st.Obs = "OFast"
		case ev.kind == "returned" && ev.err:
			rs.phase = phFail
			st.Obs = "OSkip"
			e.fail("cancel:error-without-waiting", fmt.Sprintf("Lock of request %d returned an error on the fast path", a.I))
		default:
			st.Obs = "OSkip"
		}
	case "release":
		if ev.kind == "released" {
			rs.phase = phRel
		}
		st.Obs = "OGrants " + coqNats(g)
	case "wake":
		switch {
		case ev.kind == "parked" && ev.point == "lock.select.done":
			rs.phase = phDone
			st.A.B = "done"
			st.Coq = fmt.Sprintf("AWake %d true", a.I)
		case ev.kind == "returned" && !ev.err:
			rs.phase = phHold
			st.A.B = "acquired"
			st.Coq = fmt.Sprintf("AWake %d false", a.I)
		default:
			st.Coq = fmt.Sprintf("AWake %d false", a.I)
			if ev.kind == "returned" {
				rs.phase = phFail
			}
		}
		st.Obs = "OSkip"
	case "abort":
		if ev.kind == "returned" && ev.err {
			rs.phase = phFail
		} else if ev.kind == "returned" {
			rs.phase = phHold
			e.fail("cancel:success-after-ctx-branch", fmt.Sprintf("request %d took <-ctx.Done() and Lock returned no error", a.I))
		}
		st.Obs = "OGrants " + coqNats(g)
	}
	e.trace = append(e.trace, st)
	e.oracleStep(a)
}

func conflict(a, b reqSpec) (bool, string) {
	in := func(x int, l []int) bool {
		for _, y := range l {
			if x == y {
				return true
			}
		}
		return false
	}
	for _, x := range a.W {
		if in(x, b.W) {
			return true, "write-write"
		}
		if in(x, b.R) {
			return true, "read-write"
		}
	}
	for _, x := range b.W {
		if in(x, a.R) {
			return true, "read-write"
		}
	}
	return false, ""
}

// owner: the implementation said the request has its accounts (fast path, or a grant notification) and the
// request has neither released them nor returned an error
func (e *exec) owner(k int) bool {
	rs := e.reqs[k]
	switch rs.phase {
	case phHold:
		return true
	case phEnq, phDone:
		return rs.granted
	}
	return false
}

// the property stated on what the implementation showed, after every decision
func (e *exec) oracleStep(a act) {
	// exclusion on the API: two requests between "Lock returned" and "unlock called"
	for i := range e.reqs {
		for j := i + 1; j < len(e.reqs); j++ {
			if e.reqs[i].phase == phHold && e.reqs[j].phase == phHold {
				if c, kind := conflict(e.reqs[i].spec, e.reqs[j].spec); c {
					e.fail("exclusion:"+kind, fmt.Sprintf("requests %d and %d hold conflicting accounts at the same time (after %s %d)", i, j, a.K, a.I))
				}
			}
		}
	}
	// progress: a request still waiting must conflict with a request that owns its accounts now
	if !e.probing && (a.K == "start" || a.K == "release" || a.K == "abort") {
		for w, rs := range e.reqs {
			if (rs.phase == phEnq || rs.phase == phDone) && !rs.granted {
				blocked := false
				for h := range e.reqs {
					if h != w && e.owner(h) {
						if c, _ := conflict(e.reqs[h].spec, rs.spec); c {
							blocked = true
						}
					}
				}
				if !blocked {
					e.fail("progress:waiter-unblocked-after-"+a.K, fmt.Sprintf("request %d is still waiting after %s %d although no owner conflicts with it", w, a.K, a.I))
				}
			}
		}
	}
	// cancellation: an error only for a cancelled context
	if a.K == "abort" || a.K == "wake" {
		rs := e.reqs[a.I]
		if rs.phase == phFail && !rs.cancelled {
			e.fail("cancel:error-without-cancel", fmt.Sprintf("Lock of request %d returned an error but its context was never cancelled", a.I))
		}
	}
}

type outcome struct {
	in       input
	trace    []step
	fin      []string
	free     bool
	fails    []failure
	choices  [][2]int // (choice, number of enabled decisions) at every decision point of the explored part
	enqueued int
	both     int
	stalled  bool
	diverged bool // a scripted decision was not enabled
}

type chooser func(en []act) (act, bool)

// run one program under the chooser, then drain everything, then probe every account
func execute(nacc int, prog []reqSpec, choose chooser) outcome {
	e := newExec(nacc)
	e.prog = append([]reqSpec{}, prog...)
	var out outcome
	nextStart := 0
	for !e.stalled {
		en := e.enabled(nextStart, len(prog))
		if len(en) == 0 {
			break
		}
		a, ok := choose(en)
		if !ok {
			break
		}
		if a.K == "start" {
			nextStart++
		}
		e.do(a)
	}
	started := nextStart
	e.prog = e.prog[:started]
	// drain: wake, abort, release until nothing is left; a waiter nobody blocks is cancelled (and reported by the oracle)
	for guard := 0; !e.stalled && guard < 1000; guard++ {
		en := e.enabled(len(prog), len(prog))
		var pick *act
		for _, k := range []string{"wake", "abort", "release", "cancel"} {
			for i := range en {
				if en[i].K == k {
					pick = &en[i]
					break
				}
			}
			if pick != nil {
				break
			}
		}
		if pick == nil {
			break
		}
		e.do(*pick)
	}
	// probes: with every request finished, each account must be free (a write lock on it alone is granted at once)
	out.free = true
	e.probing = true
	if !e.stalled {
		for a := 0; a < nacc; a++ {
			k := len(e.prog)
			e.prog = append(e.prog, reqSpec{W: []int{a}})
			e.do(act{K: "start", I: k})
			if e.stalled {
				break
			}
			if e.reqs[k].phase == phHold {
				e.do(act{K: "release", I: k})
				continue
			}
			out.free = false
			cause := "no-cancellation"
			for i := 0; i < started; i++ {
				rs := e.reqs[i]
				if rs.phase == phFail && rs.granted {
					cause = "failed-request-was-granted"
					if rs.bothReady {
						cause = "failed-request-was-granted-select-both-ready"
					}
				}
			}
			e.fail("leak:"+cause, fmt.Sprintf("every request has finished but account %d is still locked: a fresh write lock on it has to wait", a))
			// get the probe out again
			if e.reqs[k].phase != phEnq {
				continue
			}
			e.do(act{K: "cancel", I: k})
			e.do(act{K: "wake", I: k})
			if e.reqs[k].phase == phDone {
				e.do(act{K: "abort", I: k})
			} else if e.reqs[k].phase == phHold {
				e.do(act{K: "release", I: k})
			}
		}
	}
	for _, rs := range e.reqs {
		switch {
		case rs.phase == phRel:
			out.fin = append(out.fin, "Released")
		case rs.phase == phFail:
			out.fin = append(out.fin, "Failed")
		case rs.phase == phHold:
			out.fin = append(out.fin, "Holding")
		case rs.phase == phEnq && rs.granted:
			out.fin = append(out.fin, "Granted")
		case rs.phase == phEnq:
			out.fin = append(out.fin, "Waiting")
		case rs.phase == phDone && rs.granted:
			out.fin = append(out.fin, "AbortGranted")
		case rs.phase == phDone:
			out.fin = append(out.fin, "Aborting")
		default:
			out.fin = append(out.fin, "Idle")
		}
	}
	for _, s := range e.trace {
		if s.A.K == "start" && s.A.I < started && s.Obs == "OQueued" {
			out.enqueued++
		}
	}
	out.trace, out.fails, out.both, out.stalled = e.trace, e.fails, e.both, e.stalled
	out.in = input{Accounts: nacc, Reqs: prog[:started]}
	for _, s := range e.trace {
		if s.A.I < started {
			out.in.Sched = append(out.in.Sched, s.A)
		}
	}
	return out
}

// a scripted schedule (corpus, replay, re-execution of a failure): decisions that are not enabled are skipped
func scripted(sched []act, diverged *bool) chooser {
	pos := 0
	return func(en []act) (act, bool) {
		for pos < len(sched) {
			a := sched[pos]
			pos++
			if isEnabled(en, a) {
				return a, true
			}
			*diverged = true
		}
		return act{}, false
	}
}

func sameBranches(want []act, got []step) bool {
	var w, g []string
	for _, a := range want {
		if a.K == "wake" && a.B != "" {
			w = append(w, fmt.Sprintf("%d:%s", a.I, a.B))
		}
	}
	for _, s := range got {
		if s.A.K == "wake" && len(g) < len(w) {
			g = append(g, fmt.Sprintf("%d:%s", s.A.I, s.A.B))
		}
	}
	return strings.Join(w, ",") == strings.Join(g, ",")
}

// run a scripted input; when the runtime's choice in a select with both channels ready differs from the
// recorded one, run it again (that choice is the only thing the scheduler does not control)
func runScripted(in input) outcome {
	var out outcome
	for try := 0; try < 200; try++ {
		div := false
		out = execute(in.Accounts, in.Reqs, scripted(in.Sched, &div))
		out.diverged = div
		if sameBranches(in.Sched, out.trace) {
			break
		}
	}
	return out
}

func coqCase(o outcome) string {
	var steps []string
	for _, s := range o.trace {
		steps = append(steps, fmt.Sprintf("(%s, %s)", s.Coq, s.Obs))
	}
	var accts []int
	for a := 0; a < o.in.Accounts; a++ {
		accts = append(accts, a)
	}
	return fmt.Sprintf("(%s, %s, %s, %s)", vx.CoqList(steps), vx.CoqList(o.fin), coqAccts(accts), vx.CoqBool(o.free))
}

type runner struct {
	r        *vx.Run
	seen     map[string]bool
	nonrepro int
	stalls   int
}

func (rn *runner) record(o outcome) {
	r := rn.r
	if o.stalled {
		rn.stalls++
	}
	sigs := map[string]bool{}
	for _, f := range o.fails {
		if sigs[f.sig] {
			continue
		}
		sigs[f.sig] = true
		// re-execute before reporting: the same schedule must fail the same way
		again := runScripted(o.in)
		ok := false
		for _, g := range again.fails {
			if g.sig == f.sig {
				ok = true
			}
		}
		if !ok {
			// includes a stall that does not happen again: an overloaded machine, not the locker
			rn.nonrepro++
			continue
		}
		r.FailP("C15", f.sig, o.in, f.detail, len(o.trace)+100*o.both)
	}
	key, _ := json.Marshal(o.in)
	if rn.seen[string(key)+coqCase(o)] {
		return
	}
	rn.seen[string(key)+coqCase(o)] = true
	r.Count(fmt.Sprintf("requests:%d", len(o.in.Reqs)))
	if o.enqueued > 0 {
		r.Count("schedules-with-a-waiter")
	}
	if o.both > 0 {
		r.Count("select-with-both-channels-ready")
	}
	var queue []int // waiting requests in arrival order, from the observed events
	for _, s := range o.trace {
		r.Count("action:" + s.A.K)
		if s.A.K == "start" && s.Obs == "OQueued" {
			queue = append(queue, s.A.I)
		}
		if len(s.Grants) > 0 {
			skipped := false
			var rest []int
			for _, w := range queue {
				g := false
				for _, x := range s.Grants {
					g = g || x == w
				}
				if g && len(rest) > 0 {
					skipped = true
				}
				if !g {
					rest = append(rest, w)
				}
			}
			queue = rest
			if skipped {
				r.Count("pass-granted-a-waiter-behind-a-skipped-one")
			}
			if s.A.K == "release" && s.A.I < len(o.in.Reqs) && len(o.in.Reqs[s.A.I].W) == 0 && len(o.in.Reqs[s.A.I].R) >= 2 {
				r.Count("release-of-a-multi-account-reader-granted-a-waiter")
			}
		}
		if s.A.K == "abort" {
			var rest []int
			for _, w := range queue {
				if w != s.A.I {
					rest = append(rest, w)
				}
			}
			queue = rest
		}
		if len(s.Grants) > 0 {
			r.Count(fmt.Sprintf("grants-in-one-pass:%d", len(s.Grants)))
		}
		if s.A.K == "abort" && len(s.Obs) > len("OGrants []") {
			r.Count("abort-that-granted-others")
		}
		if s.A.K == "wake" {
			r.Count("wake-branch:" + s.A.B)
		}
	}
	for i, rs := range o.in.Reqs {
		if rs.Pre {
			r.Count("pre-cancelled-context")
		}
		if i < len(o.fin) && o.fin[i] == "Failed" {
			r.Count("request-failed")
		}
	}
	r.Case(coqCase(o), o.in, string(key), o.enqueued > 0)
}

// depth-first enumeration of the maximal schedules of one program by re-execution, at most limit of them;
// returns whether the enumeration was complete
func (rn *runner) dfs(nacc int, prog []reqSpec, limit int) bool {
	var prefix []int
	for n := 0; n < limit; n++ {
		var choices [][2]int
		pos := 0
		o := execute(nacc, prog, func(en []act) (act, bool) {
			c := 0
			if pos < len(prefix) {
				c = prefix[pos]
				if c >= len(en) {
					c = len(en) - 1
				}
			}
			pos++
			choices = append(choices, [2]int{c, len(en)})
			return en[c], true
		})
		rn.record(o)
		if rn.stalls >= 3 {
			return false
		}
		p := len(choices) - 1
		for p >= 0 && choices[p][0]+1 >= choices[p][1] {
			p--
		}
		if p < 0 {
			return true
		}
		prefix = prefix[:0]
		for i := 0; i < p; i++ {
			prefix = append(prefix, choices[i][0])
		}
		prefix = append(prefix, choices[p][0]+1)
	}
	return false
}

// seeded random schedules; stop: probability (in 1/32) of abandoning the schedule at a decision point so that
// the drain phase (a fixed policy) takes over from arbitrary intermediate states
func (rn *runner) random(nacc int, prog []reqSpec, n int, g *vx.Rng) {
	for i := 0; i < n && rn.stalls < 3; i++ {
		h := g.Fork()
		o := execute(nacc, prog, func(en []act) (act, bool) {
			if h.Chance(1, 32) {
				return act{}, false
			}
			return en[h.Intn(len(en))], true
		})
		rn.record(o)
	}
}

func genReq(g *vx.Rng, nacc int) reqSpec {
	var sp reqSpec
	pick := func() []int {
		var l []int
		switch g.Intn(8) {
		case 0:
		case 1, 2, 3, 4:
			l = append(l, g.Intn(nacc))
		case 5, 6:
			l = append(l, g.Intn(nacc), g.Intn(nacc))
		default:
			for a := 0; a < nacc; a++ {
				l = append(l, a)
			}
		}
		return l
	}
	sp.W = pick()
	switch g.Intn(4) {
	case 0: // as the commander does: every source is also in the read list
		sp.R = append(append([]int{}, sp.W...), pick()...)
	case 1:
		sp.R = nil
	default:
		sp.R = pick()
	}
	sp.Pre = g.Chance(1, 7)
	return sp
}

func curated() (progs [][]reqSpec, naccs []int) {
	w := func(a ...int) reqSpec { return reqSpec{W: a} }
	rd := func(a ...int) reqSpec { return reqSpec{R: a} }
	rw := func(r []int, wr []int) reqSpec { return reqSpec{R: r, W: wr} }
	pre := func(s reqSpec) reqSpec { s.Pre = true; return s }
	add := func(n int, p ...reqSpec) { progs = append(progs, p); naccs = append(naccs, n) }
	add(1, w(0), w(0))
	add(1, w(0), pre(w(0)))
	add(1, w(0), w(0), w(0))
	add(1, w(0), rd(0), rd(0))
	add(1, rd(0), rd(0), w(0))
	add(1, rw([]int{0}, []int{0}), rw([]int{0}, []int{0}), rd(0))
	add(2, w(0), rd(0, 1), w(1))
	add(2, rw([]int{0}, []int{1}), rw([]int{1}, []int{0}), w(0, 1))
	add(2, w(0), w(1), w(0, 1))
	add(2, w(0, 1), w(0), w(1))
	add(2, w(0), pre(w(0)), rd(0, 0))
	add(2, rd(0, 0), w(0), rd(0))
	add(2, w(0), w(1), w(0), w(1))
	add(2, w(0), rd(1), w(0), w(1))
	add(2, rd(0), w(1), w(0), rd(1))
	add(3, w(0, 1), w(2), w(0), rw([]int{1}, []int{2}))
	// read-only requests over several accounts, accounts shared between readers, writers queued behind them:
	// a writer must be granted by the release that frees its last conflicting account, whichever readers remain
	add(2, rd(0, 1), rd(1), w(0))
	add(2, rd(1, 0), rd(0), w(1), rd(0, 1))
	add(3, rd(0, 1), rd(1), rd(2, 1), w(0, 2))
	add(3, rd(0, 2, 1), rd(1, 2), w(0), w(2))
	return
}

// the readers/writers family: read-only requests with 2-3 distinct read accounts (empty write list, random
// order), accounts shared between several readers, writers with 1-2 accounts queued behind them
func genReadersWriters(g *vx.Rng, nacc, n int) []reqSpec {
	perm := func(k int) []int {
		as := make([]int, nacc)
		for i := range as {
			as[i] = i
		}
		for i := nacc - 1; i > 0; i-- {
			j := g.Intn(i + 1)
			as[i], as[j] = as[j], as[i]
		}
		if k > nacc {
			k = nacc
		}
		return as[:k]
	}
	var prog []reqSpec
	readers := 2 + g.Intn(2)
	if readers > n-1 {
		readers = n - 1
	}
	for i := 0; i < n; i++ {
		var sp reqSpec
		switch {
		case i < readers && i == 0:
			sp.R = perm(2 + g.Intn(2))
		case i < readers:
			sp.R = perm(1 + g.Intn(3))
		default:
			sp.W = perm(1 + g.Intn(2))
			if g.Chance(1, 5) {
				sp.R = perm(1)
			}
		}
		sp.Pre = g.Chance(1, 12)
		prog = append(prog, sp)
	}
	// sometimes a late reader arrives behind the writers
	if g.Chance(1, 3) && len(prog) > 2 {
		prog[len(prog)-1] = reqSpec{R: perm(2)}
	}
	return prog
}

// ---- free-running stress search ----------------------------------------------------------------------------
// No scheduler: the workers run on all cores and the handler never parks anybody. It only perturbs timing at
// the yield points, and the logger handed to the locker through the context (lock.go logs "Unlock accounts",
// "Lock acquired", "Intent lock" while it holds its mutex) stretches the critical section of a release by a
// few microseconds. This reaches interleavings inside regions that contain no yield point (a goroutine blocked
// on the locker mutex while a releasing holder grants). It is a SEARCH: which interleavings happen depends on
// the Go scheduler, a miss proves nothing, a hit is a real violation observed on the real code.

type stressCtxKey struct{}

var stressCtr uint64

func stressRand() uint64 {
	z := atomic.AddUint64(&stressCtr, 0x9E3779B97F4A7C15)
	z = (z ^ (z >> 30)) * 0xBF58476D1CE4E5B9
	z = (z ^ (z >> 27)) * 0x94D049BB133111EB
	return z ^ (z >> 31)
}

func spinFor(d time.Duration) {
	t := time.Now()
	for time.Since(t) < d {
	}
}

type stressRound struct {
	slots []atomic.Pointer[context.CancelFunc] // the cancel functions of the calls in flight, one per worker
}

func (st *stressRound) cancelSome(n int) {
	for i := 0; i < n; i++ {
		if c := st.slots[int(stressRand()%uint64(len(st.slots)))].Load(); c != nil {
			(*c)()
		}
	}
}

func (st *stressRound) yield(point string) {
	x := stressRand()
	switch point {
	case "lock.release":
		// cancellation right around a release
		if x&3 != 0 {
			st.cancelSome(1 + int(x>>8)%3)
		}
	case "lock.select.done":
		switch x & 3 {
		case 0:
			runtime.Gosched()
		case 1:
			spinFor(time.Duration(x>>8%8) * time.Microsecond)
		}
	case "lock.grant":
		// under the locker mutex: a short delay only
		if x&1 == 0 {
			spinFor(time.Duration(x>>8%6) * time.Microsecond)
		}
	case "lock.enqueued":
		if x&7 == 0 {
			runtime.Gosched()
		}
	}
}

// the logger the locker finds in the context: silent; "Unlock accounts" is logged by intent.unlock under the
// locker mutex, between giving the accounts back and recheck
type stressLogger struct{ st *stressRound }

func (l stressLogger) Debugf(f string, args ...any) {
	if f == "Unlock accounts" {
		x := stressRand()
		if x&1 == 0 {
			l.st.cancelSome(1)
		}
		spinFor(time.Duration(2+x>>8%12) * time.Microsecond)
	}
}
func (l stressLogger) Infof(string, ...any)                       {}
func (l stressLogger) Errorf(string, ...any)                      {}
func (l stressLogger) Debug(...any)                               {}
func (l stressLogger) Info(...any)                                {}
func (l stressLogger) Error(...any)                               {}
func (l stressLogger) WithFields(map[string]any) logging.Logger   { return l }
func (l stressLogger) WithField(string, any) logging.Logger       { return l }
func (l stressLogger) WithContext(context.Context) logging.Logger { return l }

type stressResult struct {
	calls, errs, rounds int64
	fails               []failure
	hit                 *stressHit
}

// rounds x workers x iters Lock calls on a fresh locker per round; after each round every account is probed
func stress(r *vx.Run, seed uint64, rounds, workers, iters int) stressResult {
	var res stressResult
	const nacc = 3
	var calls, errs atomic.Int64
	for round := 0; round < rounds && res.hit == nil; round++ {
		locker := command.NewDefaultLocker()
		st := &stressRound{slots: make([]atomic.Pointer[context.CancelFunc], workers)}
		base := logging.ContextWithLogger(context.Background(), stressLogger{st})
		base = context.WithValue(base, stressCtxKey{}, st)
		parent, cancelAll := context.WithCancel(base)
		var readers, writers [nacc]atomic.Int32
		var exclFail, errFail atomic.Pointer[string]
		var progress atomic.Int64
		var wg sync.WaitGroup
		for w := 0; w < workers; w++ {
			wg.Add(1)
			go func(w int) {
				defer wg.Done()
				g := vx.NewRng(seed*7919 + uint64(round)*1000003 + uint64(w))
				used := 2 + g.Intn(2) // this worker works on 2 or 3 accounts
				for it := 0; it < iters; it++ {
					var rd, wr []int
					switch g.Intn(6) {
					case 0:
						rd = []int{g.Intn(used)}
					case 1:
						rd = []int{g.Intn(used), g.Intn(used)}
					case 2, 3:
						wr = []int{g.Intn(used)}
					case 4: // as the commander: sources are read and written
						a := g.Intn(used)
						rd, wr = []int{a, g.Intn(used)}, []int{a}
					default:
						wr = []int{g.Intn(used), g.Intn(used)}
					}
					ctx, cancel := context.WithCancel(parent)
					mode := g.Intn(8)
					switch {
					case mode == 0: // already cancelled
						cancel()
					case mode <= 5: // may be cancelled by anybody at any moment (releasers, other workers)
						st.slots[w].Store(&cancel)
					}
					if g.Chance(1, 4) {
						st.cancelSome(1)
					}
					calls.Add(1)
					unlock, err := locker.Lock(ctx, command.Accounts{Read: accNames(rd), Write: accNames(wr)})
					st.slots[w].Store(nil)
					if err != nil {
						errs.Add(1)
						if ctx.Err() == nil {
							m := fmt.Sprintf("round %d worker %d iteration %d: Lock returned %q although its context is not cancelled", round, w, it, err.Error())
							errFail.CompareAndSwap(nil, &m)
						}
						cancel()
						progress.Add(1)
						continue
					}
					// critical section: per-account counters
					inW := func(a int) bool {
						for _, x := range wr {
							if x == a {
								return true
							}
						}
						return false
					}
					seenW := map[int]bool{}
					for _, a := range wr {
						if seenW[a] {
							continue
						}
						seenW[a] = true
						if n := writers[a].Add(1); n != 1 || readers[a].Load() != 0 {
							m := fmt.Sprintf("round %d worker %d iteration %d: write holder of account %d sees %d writers and %d readers", round, w, it, a, n, readers[a].Load())
							exclFail.CompareAndSwap(nil, &m)
						}
					}
					for _, a := range rd {
						if inW(a) {
							continue
						}
						readers[a].Add(1)
						if n := writers[a].Load(); n != 0 {
							m := fmt.Sprintf("round %d worker %d iteration %d: read holder of account %d sees %d writers", round, w, it, a, n)
							exclFail.CompareAndSwap(nil, &m)
						}
					}
					if g.Chance(1, 3) {
						runtime.Gosched()
					}
					for _, a := range rd {
						if !inW(a) {
							readers[a].Add(-1)
						}
					}
					for a := range seenW {
						writers[a].Add(-1)
					}
					unlock(ctx)
					cancel()
					progress.Add(1)
				}
			}(w)
		}
		done := make(chan struct{})
		go func() { wg.Wait(); close(done) }()
		// the run is bounded by iterations; the clock only notices that nothing moves any more (a leaked lock
		// blocks every uncancelled request for ever): then everything outstanding is cancelled and the probe decides
		stuck := false
		last, idle := int64(-1), 0
	waitLoop:
		for {
			select {
			case <-done:
				break waitLoop
			case <-time.After(500 * time.Millisecond):
				if p := progress.Load(); p == last {
					idle++
					if idle >= 6 {
						stuck = true
						cancelAll()
						idle = -1000000
					}
				} else {
					last, idle = p, 0
				}
			}
		}
		cancelAll()
		res.rounds++
		if m := exclFail.Load(); m != nil {
			res.fails = append(res.fails, failure{"exclusion:stress:conflicting-holders", *m})
		}
		if m := errFail.Load(); m != nil {
			res.fails = append(res.fails, failure{"cancel:stress:error-without-cancel", *m})
		}
		// every holder has released, every failed call has returned: each account must be free
		for a := 0; a < nacc; a++ {
			free := false
			for _, d := range []time.Duration{2 * time.Second, 10 * time.Second} {
				pctx, pcancel := context.WithTimeout(logging.ContextWithLogger(context.Background(), discardLogger), d)
				unlock, err := locker.Lock(pctx, command.Accounts{Write: []string{accName(a)}})
				pcancel()
				if err == nil {
					unlock(context.Background())
					free = true
					break
				}
			}
			if !free {
				res.fails = append(res.fails, failure{"leak:stress:failed-request-kept-its-lock",
					fmt.Sprintf("stress round %d (seed %d, %d workers x %d iterations, %d Lock calls so far, workers stuck: %v): all workers are done, every successful Lock was released, but a fresh write lock on account %d is not granted within 2 s and again 10 s", round, seed, workers, iters, calls.Load(), stuck, a)})
				break
			}
		}
		if len(res.fails) > 0 {
			res.hit = &stressHit{Seed: seed, Round: round, Rounds: rounds, Workers: workers, Iterations: iters, LockCalls: calls.Load(),
				Note: "free-running stress search: the interleaving is chosen by the Go scheduler; re-running with the same seed reproduces the workload, not necessarily the interleaving"}
		}
	}
	res.calls, res.errs = calls.Load(), errs.Load()
	return res
}

func runStress(r *vx.Run, seed uint64, rounds, workers, iters int) {
	t0 := time.Now()
	res := stress(r, seed, rounds, workers, iters)
	r.Sum.Distribution["stress:lock-calls"] += int(res.calls)
	r.Sum.Distribution["stress:lock-calls-that-returned-an-error"] += int(res.errs)
	r.Sum.Distribution["stress:rounds"] += int(res.rounds)
	r.Sum.Notes = append(r.Sum.Notes, fmt.Sprintf("stress search (non-deterministic): %d rounds x %d workers x %d iterations, %d Lock calls, %d cancelled, %.1fs, GOMAXPROCS=%d",
		res.rounds, workers, iters, res.calls, res.errs, time.Since(t0).Seconds(), runtime.GOMAXPROCS(0)))
	if len(r.Sum.Samples) < 3 {
		r.Sum.Samples = append(r.Sum.Samples, input{Stress: &stressHit{Seed: seed, Rounds: rounds, Workers: workers, Iterations: iters, LockCalls: res.calls}})
	}
	for _, f := range res.fails {
		r.FailP("C15", f.sig, input{Stress: res.hit}, f.detail, 1000)
	}
}

func main() {
	r := vx.Start("C15", "lock")
	verifhook.SetHandler(handler)
	r.Cases("From FL Require Import Lock.Model.\n", "list (action * sobs) * list status * list N * bool", 300)
	r.Sum.Rule = "schedules of the real DefaultLocker under the yield-point scheduler: programs of 2-5 Lock requests (read/write lists over 1-3 accounts, duplicates and read+write of one account included, contexts cancelled before/while waiting/after a grant) x every order of start, release, cancel, wake (either select branch), abort; exhaustive depth-first for the curated programs, seeded random otherwise; then drain and a write-lock probe on every account; non-trivial = at least one request had to wait in the queue; distinct by program + executed trace. PLUS a free-running stress SEARCH (non-deterministic, not part of the tie, no Coq cases): all cores loop over Lock/unlock with random read/write lists over 2-3 accounts and contexts cancelled at random moments, already cancelled, and right around a release; the hooks only perturb timing; fixed number of iterations; oracle: per-account holder counters, and after each round a fresh write lock on every account within 2 s; a hit is a real violation, a miss proves nothing"
	rn := &runner{r: r, seen: map[string]bool{}}
	docs, replayOnly := r.Inputs()
	for _, d := range docs {
		var in input
		if err := json.Unmarshal(d, &in); err == nil && in.Stress != nil && replayOnly {
			h := in.Stress
			runStress(r, h.Seed, h.Rounds, h.Workers, h.Iterations)
			continue
		}
		if err := json.Unmarshal(d, &in); err == nil && len(in.Reqs) > 0 {
			if in.Accounts <= 0 {
				in.Accounts = 1
			}
			o := runScripted(in)
			o.in = in // report under the input as given
			rn.record(o)
		}
	}
	if replayOnly {
		r.Finish()
		return
	}
	dfsLimit, nRandProg, perProg := 450, 220, 60
	if r.Thorough() {
		dfsLimit, nRandProg, perProg = 60000, 2500, 250
	}
	complete := 0
	progs, naccs := curated()
	for i, p := range progs {
		if rn.dfs(naccs[i], p, dfsLimit) {
			complete++
		} else {
			g := vx.NewRng(r.Seed*1000003 + uint64(i))
			rn.random(naccs[i], p, dfsLimit/3, g)
		}
	}
	g := vx.NewRng(r.Seed)
	for i := 0; i < nRandProg && rn.stalls < 3; i++ {
		nacc := 1 + g.Intn(3)
		n := 2 + g.Intn(4)
		var prog []reqSpec
		if i%3 == 1 {
			if nacc < 2 {
				nacc = 2
			}
			if n < 3 {
				n = 3
			}
			prog = genReadersWriters(g, nacc, n)
			r.Count("program:readers-writers-family")
		} else {
			for j := 0; j < n; j++ {
				prog = append(prog, genReq(g, nacc))
			}
		}
		rn.random(nacc, prog, perProg, g.Fork())
	}
	// second part: the free-running stress search (sized by iterations, not by the clock)
	workers := runtime.GOMAXPROCS(0)
	if workers < 4 {
		workers = 4
	}
	if r.Thorough() {
		runStress(r, r.Seed, stressRoundsThorough, workers, stressIters)
	} else {
		runStress(r, r.Seed, stressRoundsQuick, workers, stressIters)
	}
	r.Sum.Exhaustive = false
	r.Sum.Notes = append(r.Sum.Notes, fmt.Sprintf("curated programs enumerated completely: %d of %d (limit %d schedules each)", complete, len(progs), dfsLimit))
	if rn.nonrepro > 0 {
		r.Sum.Notes = append(r.Sum.Notes, fmt.Sprintf("oracle failures not reproduced on re-execution (not reported): %d", rn.nonrepro))
	}
	if rn.stalls > 0 {
		r.Sum.Notes = append(r.Sum.Notes, fmt.Sprintf("executions in which a goroutine never came back: %d", rn.stalls))
	}
	r.Finish()
	if rn.stalls > 0 {
		// goroutines of stalled executions are still blocked inside the locker
		os.Exit(0)
	}
}
