// Entry path: strings that reach a log payload or its envelope WITHOUT having passed through a JSON decoder (which
// would have replaced invalid bytes): URL path parameters of the metadata routes and the Idempotency-Key header, and —
// for a Go caller of the engine — every string argument of the Commander. Requests are sent through the real router
// (v1, v2) to a real Commander over the repository's in-memory store, or to the Commander directly; every entry the
// Commander wrote is then read back and re-verified with the same oracles as the generated chains.
package main

import (
	"bytes"
	"context"
	"crypto/sha256"
	"encoding/json"
	"fmt"
	"math/big"
	"net/http"
	"net/http/httptest"
	"net/url"
	"strings"
	"unicode/utf8"

	ledger "github.com/formancehq/ledger/internal"
	"github.com/formancehq/ledger/internal/api"
	"github.com/formancehq/ledger/internal/bus"
	"github.com/formancehq/ledger/internal/engine"
	"github.com/formancehq/ledger/internal/engine/command"
	"github.com/formancehq/ledger/internal/opentelemetry/metrics"
	"github.com/formancehq/ledger/internal/storage"
	"github.com/formancehq/ledger/verifx/fakeapi"
	"github.com/formancehq/ledger/verifx/vx"
	"github.com/formancehq/stack/libs/go-libs/auth"
	"github.com/formancehq/stack/libs/go-libs/health"
	"github.com/formancehq/stack/libs/go-libs/metadata"
)

// one request of the entry path. String fields are percent-escaped (%FF is the byte 0xFF) so that a replay file, which
// is JSON, can carry bytes that are not UTF-8; over HTTP the escaped form is what is put into the URL path.
type entryReq struct {
	Via     string            `json:"via"`  // http-v1 | http-v2 | commander
	Kind    string            `json:"kind"` // create | accmeta | txmeta | delaccmeta | deltxmeta | revert
	Account string            `json:"account,omitempty"`
	Key     string            `json:"key,omitempty"`
	IK      string            `json:"ik,omitempty"`
	Ref     string            `json:"reference,omitempty"`
	Meta    map[string]string `json:"metadata,omitempty"` // keys and values escaped; commander only (a body is JSON-decoded)
	TxID    int64             `json:"txid,omitempty"`
}

func unesc(s string) string {
	u, err := url.PathUnescape(s)
	if err != nil {
		return s
	}
	return u
}

// the positions of a request that hold invalid UTF-8 once unescaped
func invalidPositions(q entryReq) []string {
	var ps []string
	add := func(p, s string) {
		if !utf8.ValidString(unesc(s)) {
			ps = append(ps, p)
		}
	}
	add("account-address", q.Account)
	if q.Kind == "delaccmeta" || q.Kind == "deltxmeta" {
		add("delete-key", q.Key)
	}
	add("idempotency-key", q.IK)
	add("reference", q.Ref)
	for _, k := range vx.SortedKeys(q.Meta) {
		add("metadata-key", k)
		add("metadata-value", q.Meta[k])
	}
	seen := map[string]bool{}
	var out []string
	for _, p := range ps {
		if !seen[p] {
			seen[p] = true
			out = append(out, p)
		}
	}
	return out
}

type recStore struct {
	*storage.InMemoryStore
	written []*ledger.ChainedLog
}

func (s *recStore) InsertLogs(ctx context.Context, logs ...*ledger.ChainedLog) error {
	s.written = append(s.written, logs...)
	return s.InMemoryStore.InsertLogs(ctx, logs...)
}

type entryWorld struct {
	store  *recStore
	cmd    *command.Commander
	router http.Handler
	cancel context.CancelFunc
}

func bootEntry() *entryWorld {
	w := &entryWorld{store: &recStore{InMemoryStore: storage.NewInMemoryStore()}}
	c := command.New(w.store, command.NewDefaultLocker(), command.NewCompiler(64), command.NewReferencer(), bus.NewNoOpMonitor())
	if err := c.Init(context.Background()); err != nil {
		panic(err)
	}
	ctx, cancel := context.WithCancel(context.Background())
	w.cancel = cancel
	go func() {
		defer func() { _ = recover() }()
		c.Run(ctx)
	}()
	w.cmd = c
	l := &fakeapi.Ledger{}
	l.Decide = func(call fakeapi.WriteCall) (*ledger.Transaction, error) {
		wrap := func(err error) error {
			if err == nil {
				return nil
			}
			return engine.NewCommandError(err)
		}
		switch call.Kind {
		case "CREATE_TRANSACTION":
			tx, err := c.CreateTransaction(context.Background(), call.Params, *call.Script)
			return tx, wrap(err)
		case "REVERT_TRANSACTION":
			tx, err := c.RevertTransaction(context.Background(), call.Params, call.ID, call.Force)
			return tx, wrap(err)
		case "ADD_METADATA":
			return nil, wrap(c.SaveMeta(context.Background(), call.Params, call.TargetType, call.TargetID, call.Meta))
		default:
			return nil, wrap(c.DeleteMetadata(context.Background(), call.Params, call.TargetType, call.TargetID, call.Key))
		}
	}
	w.router = api.NewRouter(&fakeapi.Backend{L: l}, &health.HealthController{}, metrics.NewNoOpRegistry(), auth.NewNoAuth(), false)
	return w
}

const plainScript = "send [USD 100] (\n  source = @world\n  destination = @bank\n)\n"

func (w *entryWorld) do(q entryReq) (status string) {
	defer func() {
		if r := recover(); r != nil {
			status = "panic: " + fmt.Sprint(r)
		}
	}()
	if q.Via == "commander" {
		p := command.Parameters{IdempotencyKey: unesc(q.IK)}
		var md metadata.Metadata
		if q.Meta != nil {
			md = metadata.Metadata{}
			for k, v := range q.Meta {
				md[unesc(k)] = unesc(v)
			}
		}
		var err error
		ctx := context.Background()
		switch q.Kind {
		case "create":
			_, err = w.cmd.CreateTransaction(ctx, p, ledger.RunScript{Script: ledger.Script{Plain: plainScript}, Reference: unesc(q.Ref), Metadata: md})
		case "revert":
			_, err = w.cmd.RevertTransaction(ctx, p, big.NewInt(q.TxID), true)
		case "accmeta":
			err = w.cmd.SaveMeta(ctx, p, ledger.MetaTargetTypeAccount, unesc(q.Account), md)
		case "txmeta":
			err = w.cmd.SaveMeta(ctx, p, ledger.MetaTargetTypeTransaction, big.NewInt(q.TxID), md)
		case "delaccmeta":
			err = w.cmd.DeleteMetadata(ctx, p, ledger.MetaTargetTypeAccount, unesc(q.Account), unesc(q.Key))
		case "deltxmeta":
			err = w.cmd.DeleteMetadata(ctx, p, ledger.MetaTargetTypeTransaction, big.NewInt(q.TxID), unesc(q.Key))
		}
		if err != nil {
			return "error"
		}
		return "ok"
	}
	base := "/api/ledger/l0"
	if q.Via == "http-v2" {
		base = "/api/ledger/v2/l0"
	}
	var method, path, body string
	switch q.Kind {
	case "create":
		js, _ := json.Marshal(plainScript)
		method, path, body = "POST", base+"/transactions", fmt.Sprintf(`{"script":{"plain":%s}}`, js)
	case "revert":
		method, path = "POST", fmt.Sprintf("%s/transactions/%d/revert", base, q.TxID)
	case "accmeta":
		method, path, body = "POST", base+"/accounts/"+q.Account+"/metadata", `{"k":"v"}`
	case "txmeta":
		method, path, body = "POST", fmt.Sprintf("%s/transactions/%d/metadata", base, q.TxID), `{"k":"v"}`
	case "delaccmeta":
		method, path = "DELETE", base+"/accounts/"+q.Account+"/metadata/"+q.Key
	case "deltxmeta":
		method, path = "DELETE", fmt.Sprintf("%s/transactions/%d/metadata/%s", base, q.TxID, q.Key)
	}
	r, err := http.NewRequest(method, "http://ledger.local"+path, bytes.NewBufferString(body))
	if err != nil {
		return "unroutable"
	}
	if q.IK != "" {
		r.Header["Idempotency-Key"] = []string{unesc(q.IK)}
	}
	r.Header.Set("Content-Type", "application/json")
	rec := httptest.NewRecorder()
	w.router.ServeHTTP(rec, r)
	return fmt.Sprintf("%d", rec.Code)
}

// read back and re-verify what the Commander wrote (JSON path; row path in a UTC and in a non-UTC session)
func verifyWritten(logs []*ledger.ChainedLog) []failure {
	var fails []failure
	fail := func(i int, sig, detail string) { fails = append(fails, failure{sig, detail, i}) }
	rowZones := []sessionZone{zones[0], zones[2]}
	var prev, prevJ *ledger.ChainedLog
	prevR := make([]*ledger.ChainedLog, len(rowZones))
	okJ := true
	okR := []bool{true, true}
	for i, c := range logs {
		js, err := json.Marshal(c)
		if err != nil {
			fail(i, "marshal-error", err.Error())
			return fails
		}
		if hin, err := hashInput(prev, c); err == nil {
			if sum := sha256.Sum256(hin); !bytes.Equal(sum[:], c.Hash) {
				fail(i, "hash-input", "the stored hash is not SHA-256 of (previous hash, entry with id 0 and hash null)")
			}
		}
		oj := readJSON(js)
		switch oj.kind {
		case "panic", "err":
			fail(i, "readback:json", oj.msg)
			okJ = false
		default:
			if d := sameEntry(c, oj.entry); d != "" {
				fail(i, "roundtrip:json", d+" differs after the round trip")
			}
			if js2, err := json.Marshal(oj.entry); err != nil || !bytes.Equal(js, js2) {
				fail(i, "remarshal:json", fmt.Sprintf("%s\n%s", js, js2))
			}
			if okJ {
				if re, p := rechain(prevJ, oj.entry.Log); p != "" || !bytes.Equal(re.Hash, c.Hash) || re.ID.Cmp(c.ID) != 0 {
					fail(i, "rehash:json", fmt.Sprintf("re-chaining the entry read back does not give the stored hash %x", c.Hash))
				}
			}
			prevJ = oj.entry
		}
		for zi, zone := range rowZones {
			row, _, err := storeRow(c, zone)
			if err != nil {
				fail(i, "store-error", err.Error())
				okR[zi] = false
				continue
			}
			or := readRow(row)
			if or.kind != "ok" {
				fail(i, "readback:row", or.msg)
				okR[zi] = false
				continue
			}
			if d := sameEntry(c, or.entry); d != "" {
				fail(i, "roundtrip:row", d+" differs after the round trip")
			}
			if okR[zi] {
				if re, p := rechain(prevR[zi], or.entry.Log); p != "" || !bytes.Equal(re.Hash, c.Hash) || re.ID.Cmp(c.ID) != 0 {
					fail(i, "rehash:row", fmt.Sprintf("re-chaining the entry read back does not give the stored hash %x", c.Hash))
				}
			}
			prevR[zi] = or.entry
		}
		prev = c
	}
	return fails
}

type entryInput struct {
	Entry []entryReq `json:"entry"`
}

func entrySize(in entryInput) int {
	js, _ := json.Marshal(in)
	return len(in.Entry)*100000 + len(js)
}

// runs the requests on a fresh ledger; returns failures keyed by the request that wrote the failing entry
func runEntry(in entryInput) (fails map[int][]failure, wrote []int, statuses []string) {
	w := bootEntry()
	defer w.cancel()
	owner := []int{} // request index of each written entry
	for qi, q := range in.Entry {
		before := len(w.store.written)
		statuses = append(statuses, w.do(q))
		n := len(w.store.written) - before
		wrote = append(wrote, n)
		for k := 0; k < n; k++ {
			owner = append(owner, qi)
		}
	}
	fails = map[int][]failure{}
	for _, f := range verifyWritten(w.store.written) {
		fails[owner[f.at]] = append(fails[owner[f.at]], f)
	}
	return
}

func oneEntry(r *vx.Run, in entryInput) {
	fails, wrote, statuses := runEntry(in)
	for qi, q := range in.Entry {
		pos := invalidPositions(q)
		cls := "valid-utf8"
		if len(pos) > 0 {
			cls = "invalid-utf8:" + strings.Join(pos, "+")
		}
		outcome := "refused"
		if wrote[qi] > 0 {
			outcome = "written"
		}
		r.Count("entry:" + q.Via + ":" + q.Kind + ":" + cls + ":" + outcome)
		_ = statuses
		reported := map[string]bool{}
		for _, f := range fails[qi] {
			sig := "entry:" + f.sig + ":" + q.Kind
			if len(pos) > 0 {
				sig = "invalid-utf8:" + strings.Join(pos, "+") // one class per position; the clause that fails is in the detail
			}
			if reported[sig] {
				continue
			}
			reported[sig] = true
			// shrink: a transaction to act on (when the request needs one) and the request itself
			small := entryInput{Entry: []entryReq{q}}
			if q.Kind == "txmeta" || q.Kind == "deltxmeta" || q.Kind == "revert" {
				small = entryInput{Entry: []entryReq{{Via: "commander", Kind: "create"}, q}}
			}
			fs, _, _ := runEntry(small)
			still := false
			for _, g := range fs[len(small.Entry)-1] {
				if g.sig == f.sig {
					still = true
				}
			}
			if still {
				r.FailP("C13", sig, small, fmt.Sprintf("%s: %s request (%s) answered %s and wrote an entry: %s", f.sig, q.Kind, q.Via, statuses[qi], f.detail), entrySize(small))
			} else {
				r.FailP("C13", sig, in, fmt.Sprintf("%s: request %d: %s", f.sig, qi, f.detail), entrySize(in))
			}
		}
	}
	r.Sum.Evaluations += len(in.Entry)
	if len(r.Sum.Samples) < 3 {
		r.Sum.Samples = append(r.Sum.Samples, in)
	}
}

// byte strings that are not UTF-8: lone 0xFF, lone continuation byte, truncated 2-, 3- and 4-byte sequences, a surrogate
// half encoded as bytes (CESU-style), overlong forms of '/' and NUL, a code point above U+10FFFF; each also embedded
var badUTF8 = []string{"%FF", "%80", "%C3", "%E2%82", "%F0%9F%98", "%ED%A0%80", "%ED%BF%BF", "%C0%AF", "%E0%80%AF", "%C0%80", "%F4%90%80%80",
	"a%FFb", "k%C3", "%C3%28", "users%3A%FF"}

func genEntry(g *vx.Rng) entryInput {
	bad := func() string { return badUTF8[g.Intn(len(badUTF8))] }
	good := func() string { return []string{"k", "caf%C3%A9", "%EF%BF%BD", "a%20b", "%E2%80%A8"}[g.Intn(5)] }
	in := entryInput{Entry: []entryReq{{Via: "commander", Kind: "create"}}}
	n := 1 + g.Intn(4)
	for i := 0; i < n; i++ {
		via := []string{"http-v1", "http-v2", "commander"}[g.Intn(3)]
		q := entryReq{Via: via, Account: "bank", Key: good()}
		if g.Chance(1, 3) {
			q.IK = fmt.Sprintf("ik-%d", i)
		}
		kinds := []string{"accmeta", "txmeta", "delaccmeta", "deltxmeta", "create"}
		q.Kind = kinds[g.Intn(len(kinds))]
		if via == "http-v1" && (q.Kind == "delaccmeta" || q.Kind == "deltxmeta") {
			// v1 has no route to delete account metadata, and its route to delete transaction metadata hands the
			// Commander a uint64 where it asserts *big.Int (the handler panics, nothing is written)
			q.Kind = "txmeta"
		}
		if via == "commander" {
			q.Meta = map[string]string{"k": "v"}
		}
		// at most one position gets bytes that are not UTF-8
		switch g.Intn(8) {
		case 0:
			if q.Kind == "delaccmeta" || q.Kind == "deltxmeta" {
				q.Key = bad()
			}
		case 1:
			if q.Kind == "delaccmeta" || (via == "commander" && q.Kind == "accmeta") {
				q.Account = bad()
			}
		case 2:
			q.IK = bad()
		case 3:
			if via == "commander" && (q.Kind == "accmeta" || q.Kind == "txmeta" || q.Kind == "create") {
				q.Meta = map[string]string{bad(): "v"}
			}
		case 4:
			if via == "commander" && (q.Kind == "accmeta" || q.Kind == "txmeta" || q.Kind == "create") {
				q.Meta = map[string]string{"k": bad()}
			}
		case 5:
			if via == "commander" && q.Kind == "create" {
				q.Ref = bad()
			}
		}
		in.Entry = append(in.Entry, q)
	}
	return in
}

// every position once, with a lone 0xFF, through every way in that can carry it
func entryBasics() []entryInput {
	seed := entryReq{Via: "commander", Kind: "create"}
	var out []entryInput
	add := func(q entryReq) { out = append(out, entryInput{Entry: []entryReq{seed, q}}) }
	for _, via := range []string{"http-v1", "http-v2", "commander"} {
		if via != "http-v1" {
			add(entryReq{Via: via, Kind: "deltxmeta", Key: "%FF"})
			add(entryReq{Via: via, Kind: "deltxmeta", Key: "k", IK: "%FF"})
			add(entryReq{Via: via, Kind: "deltxmeta", Key: "%EF%BF%BD", IK: "caf%C3%A9"}) // control: valid, a genuine U+FFFD
		}
		add(entryReq{Via: via, Kind: "txmeta", IK: "a%FF", Meta: map[string]string{"k": "v"}})
		add(entryReq{Via: via, Kind: "accmeta", Account: "bank", IK: "%C3", Meta: map[string]string{"k": "v"}})
		add(entryReq{Via: via, Kind: "create", IK: "%ED%A0%80"})
		if via != "http-v1" {
			add(entryReq{Via: via, Kind: "delaccmeta", Account: "bank", Key: "%FF"})
			add(entryReq{Via: via, Kind: "delaccmeta", Account: "%FF", Key: "k"})
		}
		add(entryReq{Via: via, Kind: "txmeta", IK: "caf%C3%A9%EF%BF%BD", Meta: map[string]string{"k": "v"}}) // control
	}
	add(entryReq{Via: "commander", Kind: "accmeta", Account: "%FF", Meta: map[string]string{"k": "v"}})
	add(entryReq{Via: "commander", Kind: "accmeta", Account: "bank", Meta: map[string]string{"%FF": "v"}})
	add(entryReq{Via: "commander", Kind: "txmeta", Meta: map[string]string{"k": "%FF"}})
	add(entryReq{Via: "commander", Kind: "create", Ref: "%FF"})
	add(entryReq{Via: "commander", Kind: "create", Meta: map[string]string{"%C0%AF": "v"}})
	add(entryReq{Via: "commander", Kind: "create", Meta: map[string]string{"k": "%E2%82"}})
	return out
}
