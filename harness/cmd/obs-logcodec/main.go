// obs-logcodec drives the real log codec of the working tree: logs of every kind are built with the real
// constructors, chained with the real Log.ChainLog, marshalled with encoding/json, stored the way
// ledgerstore.InsertLogs fills the columns of the logs table (type name, json.Marshal(Data) through RawMessage
// into a jsonb column, Time.Value, BigInt.Value), read back through json.Unmarshal(ChainedLog) and through
// Logs.ToCore (HydrateLog), and re-chained. The C13 oracle is applied to what comes back; every entry is also
// written as a Coq case for LogCodec/Model.v (to_json, of_json, of_row, hash input bytes).
package main

import (
	"bytes"
	"crypto/sha256"
	"encoding/base64"
	"encoding/json"
	"fmt"
	"io"
	"math/big"
	"regexp"
	"sort"
	"strings"
	"time"
	_ "time/tzdata" // named session zones (DST) without a system zoneinfo

	ledger "github.com/formancehq/ledger/internal"
	"github.com/formancehq/ledger/internal/storage/ledgerstore"
	"github.com/formancehq/ledger/verifx/vx"
	"github.com/formancehq/stack/libs/go-libs/bun/bunpaginate"
	"github.com/formancehq/stack/libs/go-libs/metadata"
)

// ---- inputs (JSON, replayable) ------------------------------------------------------------------------------

type postingSpec struct {
	Source      string `json:"source"`
	Destination string `json:"destination"`
	Amount      string `json:"amount"` // decimal
	Asset       string `json:"asset"`
}

type txSpec struct {
	Postings  []postingSpec     `json:"postings"`
	Metadata  map[string]string `json:"metadata"`  // null = nil map
	Timestamp string            `json:"timestamp"` // as sent to the API; goes through ledger.ParseTime
	Now       bool              `json:"now"`       // no timestamp sent: the commander takes ledger.Now() (Timestamp says which instant)
	Reference string            `json:"reference"`
	ID        string            `json:"id"`
	Reverted  bool              `json:"reverted"`
}

type logSpec struct {
	Kind       string                       `json:"kind"`   // NEW | REV | SET | DEL
	Target     string                       `json:"target"` // ACCOUNT | TRANSACTION (SET, DEL)
	Account    string                       `json:"account"`
	TxID       string                       `json:"txId"`
	Metadata   map[string]string            `json:"metadata"`
	AccountMD  map[string]map[string]string `json:"accountMetadata"`
	Key        string                       `json:"key"`
	RevertedID string                       `json:"revertedId"`
	Tx         *txSpec                      `json:"tx"`
	Date       string                       `json:"date"` // the commander dates logs with Now(): UTC, microseconds
	IK         string                       `json:"ik"`
}

type input struct {
	Logs []logSpec `json:"logs"`
}

func bigOf(s string) *big.Int {
	z, ok := new(big.Int).SetString(s, 10)
	if !ok {
		return big.NewInt(0)
	}
	return z
}

// ---- building the real logs ----------------------------------------------------------------------------------

type rejected struct{ why string }

// a time made the way ledger.Now() makes one: time.Now().UTC().Round(DatePrecision), at the given instant
func nowAt(text string) (ledger.Time, error) {
	t, err := time.Parse(time.RFC3339Nano, text)
	if err != nil {
		return ledger.Time{}, err
	}
	return ledger.Time{Time: t.UTC().Round(ledger.DatePrecision)}, nil
}

func buildTx(s *txSpec) (*ledger.Transaction, *rejected) {
	var (
		ts  ledger.Time
		err error
	)
	if s.Now {
		ts, err = nowAt(s.Timestamp)
	} else {
		ts, err = ledger.ParseTime(s.Timestamp)
	}
	if err != nil {
		return nil, &rejected{"timestamp"}
	}
	ps := make([]ledger.Posting, 0, len(s.Postings))
	for _, p := range s.Postings {
		ps = append(ps, ledger.NewPosting(p.Source, p.Destination, p.Asset, bigOf(p.Amount)))
	}
	// as commander.exec assembles it
	tx := ledger.NewTransaction().
		WithPostings(ps...).
		WithMetadata(metadata.Metadata(s.Metadata)).
		WithDate(ts).
		WithID(bigOf(s.ID)).
		WithReference(s.Reference)
	if s.Postings != nil && len(s.Postings) == 0 {
		tx.Postings = ledger.Postings{} // empty, not nil
	}
	tx.Reverted = s.Reverted
	return tx, nil
}

func buildLog(s logSpec) (*ledger.Log, *rejected) {
	at, err := nowAt(s.Date) // the commander dates logs with ledger.Now()
	if err != nil {
		return nil, &rejected{"date"}
	}
	var l *ledger.Log
	switch s.Kind {
	case "NEW":
		tx, rej := buildTx(s.Tx)
		if rej != nil {
			return nil, rej
		}
		var am map[string]metadata.Metadata
		if s.AccountMD != nil {
			am = map[string]metadata.Metadata{}
			for k, v := range s.AccountMD {
				am[k] = metadata.Metadata(v)
			}
		}
		l = ledger.NewTransactionLogWithDate(tx, am, at)
	case "REV":
		tx, rej := buildTx(s.Tx)
		if rej != nil {
			return nil, rej
		}
		l = ledger.NewRevertedTransactionLog(at, bigOf(s.RevertedID), tx)
	case "SET":
		if s.Target == "TRANSACTION" {
			l = ledger.NewSetMetadataLog(at, ledger.SetMetadataLogPayload{TargetType: ledger.MetaTargetTypeTransaction, TargetID: bigOf(s.TxID), Metadata: metadata.Metadata(s.Metadata)})
		} else {
			l = ledger.NewSetMetadataLog(at, ledger.SetMetadataLogPayload{TargetType: ledger.MetaTargetTypeAccount, TargetID: s.Account, Metadata: metadata.Metadata(s.Metadata)})
		}
	case "DEL":
		if s.Target == "TRANSACTION" {
			l = ledger.NewDeleteMetadataLog(at, ledger.DeleteMetadataLogPayload{TargetType: ledger.MetaTargetTypeTransaction, TargetID: bigOf(s.TxID), Key: s.Key})
		} else {
			l = ledger.NewDeleteMetadataLog(at, ledger.DeleteMetadataLogPayload{TargetType: ledger.MetaTargetTypeAccount, TargetID: s.Account, Key: s.Key})
		}
	default:
		return nil, &rejected{"kind"}
	}
	if s.IK != "" {
		l = l.WithIdempotencyKey(s.IK)
	}
	return l, nil
}

// ---- ordered JSON values ---------------------------------------------------------------------------------------

type jv struct {
	k    byte // n(ull) b(ool) i(nteger) l(iteral number) s(tring) a(rray) o(bject)
	b    bool
	s    string
	arr  []jv
	keys []string
	vals []jv
}

var intRe = regexp.MustCompile(`^-?(0|[1-9][0-9]*)$`)

func parseJSON(data []byte) (jv, error) {
	dec := json.NewDecoder(bytes.NewReader(data))
	dec.UseNumber()
	v, err := parseValue(dec)
	if err != nil {
		return jv{}, err
	}
	if _, err := dec.Token(); err != io.EOF {
		return jv{}, fmt.Errorf("trailing data")
	}
	return v, nil
}

func parseValue(dec *json.Decoder) (jv, error) {
	tok, err := dec.Token()
	if err != nil {
		return jv{}, err
	}
	switch t := tok.(type) {
	case nil:
		return jv{k: 'n'}, nil
	case bool:
		return jv{k: 'b', b: t}, nil
	case json.Number:
		if intRe.MatchString(string(t)) {
			return jv{k: 'i', s: string(t)}, nil
		}
		return jv{k: 'l', s: string(t)}, nil
	case string:
		return jv{k: 's', s: t}, nil
	case json.Delim:
		if t == '[' {
			out := jv{k: 'a'}
			for dec.More() {
				x, err := parseValue(dec)
				if err != nil {
					return jv{}, err
				}
				out.arr = append(out.arr, x)
			}
			_, err := dec.Token()
			return out, err
		}
		if t == '{' {
			out := jv{k: 'o'}
			for dec.More() {
				kt, err := dec.Token()
				if err != nil {
					return jv{}, err
				}
				ks, ok := kt.(string)
				if !ok {
					return jv{}, fmt.Errorf("object key is not a string")
				}
				x, err := parseValue(dec)
				if err != nil {
					return jv{}, err
				}
				out.keys = append(out.keys, ks)
				out.vals = append(out.vals, x)
			}
			_, err := dec.Token()
			return out, err
		}
	}
	return jv{}, fmt.Errorf("unexpected token %v", tok)
}

// jsonb: object members without duplicates (last wins), ordered by key length then bytes
func jsonbNorm(v jv) jv {
	switch v.k {
	case 'a':
		out := jv{k: 'a'}
		for _, x := range v.arr {
			out.arr = append(out.arr, jsonbNorm(x))
		}
		return out
	case 'o':
		last := map[string]int{}
		for i, k := range v.keys {
			last[k] = i
		}
		keys := make([]string, 0, len(last))
		for k := range last {
			keys = append(keys, k)
		}
		sort.Slice(keys, func(i, j int) bool {
			if len(keys[i]) != len(keys[j]) {
				return len(keys[i]) < len(keys[j])
			}
			return keys[i] < keys[j]
		})
		out := jv{k: 'o'}
		for _, k := range keys {
			out.keys = append(out.keys, k)
			out.vals = append(out.vals, jsonbNorm(v.vals[last[k]]))
		}
		return out
	}
	return v
}

// text as PostgreSQL prints a jsonb value (", " and ": " separators)
func (v jv) text(b *strings.Builder) {
	switch v.k {
	case 'n':
		b.WriteString("null")
	case 'b':
		if v.b {
			b.WriteString("true")
		} else {
			b.WriteString("false")
		}
	case 'i', 'l':
		b.WriteString(v.s)
	case 's':
		js, _ := json.Marshal(v.s)
		b.Write(js)
	case 'a':
		b.WriteString("[")
		for i, x := range v.arr {
			if i > 0 {
				b.WriteString(", ")
			}
			x.text(b)
		}
		b.WriteString("]")
	case 'o':
		b.WriteString("{")
		for i, k := range v.keys {
			if i > 0 {
				b.WriteString(", ")
			}
			js, _ := json.Marshal(k)
			b.Write(js)
			b.WriteString(": ")
			v.vals[i].text(b)
		}
		b.WriteString("}")
	}
}

func (v jv) coq(b *strings.Builder) {
	switch v.k {
	case 'n':
		b.WriteString("JNull")
	case 'b':
		b.WriteString("JBool " + vx.CoqBool(v.b))
	case 'i':
		b.WriteString("JNum " + vx.CoqZ(v.s))
	case 'l':
		b.WriteString("JLit " + coqStr(v.s))
	case 's':
		b.WriteString("JStr " + coqStr(v.s))
	case 'a':
		b.WriteString("JArr [")
		for i, x := range v.arr {
			if i > 0 {
				b.WriteString("; ")
			}
			x.coq(b)
		}
		b.WriteString("]")
	case 'o':
		b.WriteString("JObj [")
		for i, k := range v.keys {
			if i > 0 {
				b.WriteString("; ")
			}
			b.WriteString("(" + coqStr(k) + ", ")
			v.vals[i].coq(b)
			b.WriteString(")")
		}
		b.WriteString("]")
	}
}

func (v jv) coqString() string {
	var b strings.Builder
	v.coq(&b)
	return b.String()
}

// a Coq string term for arbitrary bytes: printable ASCII in literals, everything else byte by byte
func coqStr(s string) string {
	plain := true
	for i := 0; i < len(s); i++ {
		if s[i] < 0x20 || s[i] >= 0x7f {
			plain = false
			break
		}
	}
	if plain {
		return "\"" + strings.ReplaceAll(s, "\"", "\"\"") + "\"%string"
	}
	var parts []string
	i := 0
	for i < len(s) {
		j := i
		for j < len(s) && s[j] >= 0x20 && s[j] < 0x7f {
			j++
		}
		if j > i {
			parts = append(parts, "\""+strings.ReplaceAll(s[i:j], "\"", "\"\"")+"\"%string")
			i = j
			continue
		}
		for j < len(s) && (s[j] < 0x20 || s[j] >= 0x7f) {
			j++
		}
		var nums []string
		for _, c := range []byte(s[i:j]) {
			nums = append(nums, fmt.Sprintf("%d", c))
		}
		parts = append(parts, "bytes_to_string ["+strings.Join(nums, ";")+"]")
		i = j
	}
	out := parts[len(parts)-1]
	for k := len(parts) - 2; k >= 0; k-- {
		out = "append (" + parts[k] + ") (" + out + ")"
	}
	return "(" + out + ")"
}

// ---- canonical rendering of a Go ChainedLog as a model entry ---------------------------------------------------

type unrepresentable struct{ what string }

func timeText(t ledger.Time) string { return t.Format(ledger.DateFormat) }

func coqMeta(m metadata.Metadata) string {
	if m == nil {
		return "None"
	}
	var xs []string
	for _, k := range vx.SortedKeys(m) {
		xs = append(xs, "("+coqStr(k)+", "+coqStr(m[k])+")")
	}
	return "(Some " + vx.CoqList(xs) + ")"
}

func coqAMeta(m ledger.AccountMetadata) string {
	if m == nil {
		return "None"
	}
	var xs []string
	for _, k := range vx.SortedKeys(m) {
		xs = append(xs, "("+coqStr(k)+", "+coqMeta(m[k])+")")
	}
	return "(Some " + vx.CoqList(xs) + ")"
}

func coqTx(tx *ledger.Transaction) string {
	if tx == nil {
		panic(unrepresentable{"nil transaction"})
	}
	if tx.ID == nil {
		panic(unrepresentable{"nil transaction id"})
	}
	ps := []string{}
	for _, p := range tx.Postings {
		if p.Amount == nil {
			panic(unrepresentable{"nil amount"})
		}
		ps = append(ps, fmt.Sprintf("{| p_src := %s; p_dst := %s; p_amount := %s; p_asset := %s |}", coqStr(p.Source), coqStr(p.Destination), vx.CoqZ(p.Amount.String()), coqStr(p.Asset)))
	}
	pl := "None"
	if tx.Postings != nil {
		pl = "(Some " + vx.CoqList(ps) + ")"
	}
	return fmt.Sprintf("(mk_tx %s %s %s %s %s %s)",
		pl, coqMeta(tx.Metadata), coqStr(timeText(tx.Timestamp)), coqStr(tx.Reference), vx.CoqZ(tx.ID.String()), vx.CoqBool(tx.Reverted))
}

func coqTarget(tt string, id any) string {
	switch tt {
	case ledger.MetaTargetTypeAccount:
		s, ok := id.(string)
		if !ok {
			panic(unrepresentable{fmt.Sprintf("account target id of type %T", id)})
		}
		return "(TAccount " + coqStr(s) + ")"
	case ledger.MetaTargetTypeTransaction:
		switch v := id.(type) {
		case *big.Int:
			if v == nil {
				panic(unrepresentable{"nil transaction target id"})
			}
			return "(TTx " + vx.CoqZ(v.String()) + ")"
		case uint64:
			return "(TTx " + vx.CoqZ(new(big.Int).SetUint64(v).String()) + ")"
		}
		panic(unrepresentable{fmt.Sprintf("transaction target id of type %T", id)})
	}
	panic(unrepresentable{"target type " + tt})
}

func coqPayload(l *ledger.ChainedLog) string {
	switch p := l.Data.(type) {
	case ledger.NewTransactionLogPayload:
		if l.Type != ledger.NewTransactionLogType {
			panic(unrepresentable{"type/payload mismatch"})
		}
		return "PNewTx tc " + coqTx(p.Transaction) + " " + coqAMeta(p.AccountMetadata)
	case ledger.RevertedTransactionLogPayload:
		if l.Type != ledger.RevertedTransactionLogType {
			panic(unrepresentable{"type/payload mismatch"})
		}
		if p.RevertedTransactionID == nil {
			panic(unrepresentable{"nil reverted id"})
		}
		return "PReverted tc " + vx.CoqZ(p.RevertedTransactionID.String()) + " " + coqTx(p.RevertTransaction)
	case ledger.SetMetadataLogPayload:
		if l.Type != ledger.SetMetadataLogType {
			panic(unrepresentable{"type/payload mismatch"})
		}
		return "PSetMeta tc " + coqTarget(p.TargetType, p.TargetID) + " " + coqMeta(p.Metadata)
	case ledger.DeleteMetadataLogPayload:
		if l.Type != ledger.DeleteMetadataLogType {
			panic(unrepresentable{"type/payload mismatch"})
		}
		return "PDelMeta tc " + coqTarget(p.TargetType, p.TargetID) + " " + coqStr(p.Key)
	}
	panic(unrepresentable{fmt.Sprintf("payload of type %T", l.Data)})
}

func coqEntry(l *ledger.ChainedLog) (s string, unrep string) {
	defer func() {
		if r := recover(); r != nil {
			if u, ok := r.(unrepresentable); ok {
				s, unrep = "", u.what
				return
			}
			panic(r)
		}
	}()
	if l.ID == nil {
		panic(unrepresentable{"nil id"})
	}
	h := "None"
	if l.Hash != nil {
		h = "(Some " + coqStr(base64.StdEncoding.EncodeToString(l.Hash)) + ")"
	}
	return fmt.Sprintf("(mk_entry (%s) %s %s %s %s)",
		coqPayload(l), coqStr(timeText(l.Date)), coqStr(l.IdempotencyKey), vx.CoqZ(l.ID.String()), h), ""
}

// ---- read-back outcomes ------------------------------------------------------------------------------------------

type outcome struct {
	kind  string // ok | err | panic
	entry *ledger.ChainedLog
	msg   string
}

func (o outcome) coq(same string) string {
	switch o.kind {
	case "ok":
		s, unrep := coqEntry(o.entry)
		if unrep != "" {
			return "DErr (* decoded value outside the model: " + strings.ReplaceAll(unrep, "*", "") + " *)"
		}
		if s == same {
			return "DSame"
		}
		return "(DOk " + s + ")"
	case "err":
		return "DErr"
	}
	return "DPanic"
}

func readJSON(js []byte) (o outcome) {
	defer func() {
		if r := recover(); r != nil {
			o = outcome{kind: "panic", msg: fmt.Sprint(r)}
		}
	}()
	var rt ledger.ChainedLog
	if err := json.Unmarshal(js, &rt); err != nil {
		return outcome{kind: "err", msg: err.Error()}
	}
	return outcome{kind: "ok", entry: &rt}
}

// the logs table row as InsertLogs fills it and PostgreSQL returns it
// sessionZone: how the driver expresses the instants it returns. A `timestamp` column comes back as its wall clock
// in a zero-offset zone; a `timestamptz` column (the bun model of Logs declares the date so) comes back as the same
// instant in the TimeZone of the session, which is whatever the server / database / role / PGTZ say.
type sessionZone struct {
	name string
	loc  *time.Location
}

func sessionZones() []sessionZone {
	zs := []sessionZone{
		{"wallclock+0000", time.FixedZone("", 0)},
		{"UTC", time.UTC},
		{"+02:00", time.FixedZone("", 2*3600)},
		{"-05:30", time.FixedZone("", -(5*3600 + 1800))},
		{"+14:00", time.FixedZone("", 14*3600)},
	}
	for _, n := range []string{"Europe/Paris", "America/New_York", "Australia/Lord_Howe"} {
		if l, err := time.LoadLocation(n); err == nil {
			zs = append(zs, sessionZone{n, l})
		}
	}
	return zs
}

var zones = sessionZones()

func storeRow(c *ledger.ChainedLog, zone sessionZone) (row *ledgerstore.Logs, dataBack jv, err error) {
	data, err := json.Marshal(c.Data) // InsertLogs
	if err != nil {
		return nil, jv{}, err
	}
	dv, err := ledgerstore.RawMessage(data).Value() // the data argument of the COPY statement
	if err != nil {
		return nil, jv{}, err
	}
	parsed, err := parseJSON([]byte(dv.(string)))
	if err != nil {
		return nil, jv{}, err
	}
	dataBack = jsonbNorm(parsed)
	var tb strings.Builder
	dataBack.text(&tb)

	idv, err := (*bunpaginate.BigInt)(c.ID).Value()
	if err != nil {
		return nil, jv{}, err
	}
	id := bunpaginate.NewInt()
	if err := id.Scan(idv); err != nil {
		return nil, jv{}, err
	}

	datev, err := c.Date.Value()
	if err != nil {
		return nil, jv{}, err
	}
	// the column keeps the instant at microsecond precision (the text written is ledger.Now()-made: UTC, so the wall
	// clock of a `timestamp` column and the instant of a `timestamptz` column coincide); the driver hands it back as a
	// time.Time in the zone of the session
	wall, err := time.Parse(time.RFC3339Nano, datev.(string))
	if err != nil {
		return nil, jv{}, err
	}
	y, mo, d := wall.Date()
	hh, mi, ss := wall.Clock()
	back := time.Date(y, mo, d, hh, mi, ss, wall.Nanosecond()/1000*1000, time.FixedZone("", 0)).In(zone.loc)
	var date ledger.Time
	if err := date.Scan(back); err != nil {
		return nil, jv{}, err
	}
	var hash []byte
	if c.Hash != nil {
		hash = append([]byte{}, c.Hash...)
	}
	return &ledgerstore.Logs{
		ID:             id,
		Type:           c.Type.String(),
		Hash:           hash,
		Date:           date,
		Data:           []byte(tb.String()),
		IdempotencyKey: c.IdempotencyKey,
	}, dataBack, nil
}

func readRow(row *ledgerstore.Logs) (o outcome) {
	defer func() {
		if r := recover(); r != nil {
			o = outcome{kind: "panic", msg: fmt.Sprint(r)}
		}
	}()
	return outcome{kind: "ok", entry: row.ToCore()}
}

// ---- comparisons ------------------------------------------------------------------------------------------------

func sameTime(a, b ledger.Time) bool {
	_, oa := a.Zone()
	_, ob := b.Zone()
	return a.Equal(b) && oa == ob && timeText(a) == timeText(b)
}

func sameMeta(a, b metadata.Metadata) bool {
	if (a == nil) != (b == nil) || len(a) != len(b) {
		return false
	}
	for k, v := range a {
		if w, ok := b[k]; !ok || w != v {
			return false
		}
	}
	return true
}

func sameTx(a, b *ledger.Transaction) string {
	if a == nil || b == nil {
		if a == b {
			return ""
		}
		return "transaction nil"
	}
	if len(a.Postings) != len(b.Postings) || (a.Postings == nil) != (b.Postings == nil) {
		return "postings length"
	}
	for i := range a.Postings {
		p, q := a.Postings[i], b.Postings[i]
		if p.Source != q.Source || p.Destination != q.Destination || p.Asset != q.Asset {
			return "posting account/asset"
		}
		if p.Amount == nil || q.Amount == nil || p.Amount.Cmp(q.Amount) != 0 {
			return "posting amount"
		}
	}
	if !sameMeta(a.Metadata, b.Metadata) {
		return "transaction metadata"
	}
	if !sameTime(a.Timestamp, b.Timestamp) {
		return "transaction timestamp"
	}
	if a.Reference != b.Reference {
		return "reference"
	}
	if a.ID == nil || b.ID == nil || a.ID.Cmp(b.ID) != 0 {
		return "transaction id"
	}
	if a.Reverted != b.Reverted {
		return "reverted flag"
	}
	return ""
}

func idValue(v any) (kind string, z *big.Int, s string) {
	switch x := v.(type) {
	case string:
		return "string", nil, x
	case *big.Int:
		if x == nil {
			return "nil", nil, ""
		}
		return "int", x, ""
	case uint64:
		return "int", new(big.Int).SetUint64(x), ""
	}
	return fmt.Sprintf("%T", v), nil, ""
}

func sameTarget(ta string, ia any, tb string, ib any) string {
	if ta != tb {
		return "target type"
	}
	ka, za, sa := idValue(ia)
	kb, zb, sb := idValue(ib)
	if ka != kb {
		return "target id type (" + ka + " became " + kb + ")"
	}
	if ka == "int" && za.Cmp(zb) != 0 || ka == "string" && sa != sb {
		return "target id"
	}
	if ka != "int" && ka != "string" {
		return "target id type " + ka
	}
	return ""
}

// "" when b is a (the log read back unchanged), else which part differs
func sameEntry(a, b *ledger.ChainedLog) string {
	if a.Type != b.Type {
		return "type"
	}
	if !sameTime(a.Date, b.Date) {
		return "date"
	}
	if a.IdempotencyKey != b.IdempotencyKey {
		return "idempotency key"
	}
	if a.ID == nil || b.ID == nil || a.ID.Cmp(b.ID) != 0 {
		return "id"
	}
	if !bytes.Equal(a.Hash, b.Hash) || (a.Hash == nil) != (b.Hash == nil) {
		return "hash"
	}
	switch p := a.Data.(type) {
	case ledger.NewTransactionLogPayload:
		q, ok := b.Data.(ledger.NewTransactionLogPayload)
		if !ok {
			return fmt.Sprintf("payload type %T", b.Data)
		}
		if d := sameTx(p.Transaction, q.Transaction); d != "" {
			return d
		}
		if (p.AccountMetadata == nil) != (q.AccountMetadata == nil) || len(p.AccountMetadata) != len(q.AccountMetadata) {
			return "account metadata"
		}
		for k, v := range p.AccountMetadata {
			if w, ok := q.AccountMetadata[k]; !ok || !sameMeta(v, w) {
				return "account metadata"
			}
		}
	case ledger.RevertedTransactionLogPayload:
		q, ok := b.Data.(ledger.RevertedTransactionLogPayload)
		if !ok {
			return fmt.Sprintf("payload type %T", b.Data)
		}
		if p.RevertedTransactionID == nil || q.RevertedTransactionID == nil || p.RevertedTransactionID.Cmp(q.RevertedTransactionID) != 0 {
			return "reverted transaction id"
		}
		if d := sameTx(p.RevertTransaction, q.RevertTransaction); d != "" {
			return d
		}
	case ledger.SetMetadataLogPayload:
		q, ok := b.Data.(ledger.SetMetadataLogPayload)
		if !ok {
			return fmt.Sprintf("payload type %T", b.Data)
		}
		if d := sameTarget(p.TargetType, p.TargetID, q.TargetType, q.TargetID); d != "" {
			return d
		}
		if !sameMeta(p.Metadata, q.Metadata) {
			return "metadata"
		}
	case ledger.DeleteMetadataLogPayload:
		q, ok := b.Data.(ledger.DeleteMetadataLogPayload)
		if !ok {
			return fmt.Sprintf("payload type %T", b.Data)
		}
		if d := sameTarget(p.TargetType, p.TargetID, q.TargetType, q.TargetID); d != "" {
			return d
		}
		if p.Key != q.Key {
			return "key"
		}
	default:
		return fmt.Sprintf("payload type %T", a.Data)
	}
	return ""
}

// the bytes ComputeHash must have fed to SHA-256: previous.Hash, then the entry with id 0 and hash null
func hashInput(prev, c *ledger.ChainedLog) ([]byte, error) {
	var buf bytes.Buffer
	enc := json.NewEncoder(&buf)
	if prev != nil {
		if err := enc.Encode(prev.Hash); err != nil {
			return nil, err
		}
	}
	cp := *c
	cp.ID = big.NewInt(0)
	cp.Hash = nil
	if err := enc.Encode(&cp); err != nil {
		return nil, err
	}
	return buf.Bytes(), nil
}

func rechain(prev *ledger.ChainedLog, l ledger.Log) (c *ledger.ChainedLog, p string) {
	defer func() {
		if r := recover(); r != nil {
			p = fmt.Sprint(r)
		}
	}()
	return l.ChainLog(prev), ""
}

// ---- one chain ---------------------------------------------------------------------------------------------------

type failure struct {
	sig    string
	detail string
	at     int
}

func cls(s logSpec) string {
	if s.Kind == "SET" || s.Kind == "DEL" {
		return s.Kind + ":" + s.Target
	}
	return s.Kind
}

func panicClass(msg string) string {
	switch {
	case strings.Contains(msg, "unknown type"):
		return "unknown-type"
	case strings.Contains(msg, "hydrating log data"):
		return "hydrate-error"
	}
	return "other"
}

func errClass(msg string) string {
	switch {
	case strings.Contains(msg, "ParseUint"):
		return "parse-uint"
	case strings.Contains(msg, "parsing time"):
		return "parse-time"
	}
	return "other"
}

func inputSize(in input) int {
	js, _ := json.Marshal(in)
	return len(in.Logs)*100000 + len(js)
}

// runs the chain on the real code; returns oracle failures, Coq cases (one per entry), and whether it was rejected
func runChain(in input) (fails []failure, cases []string, rej string, stats map[string]int) {
	stats = map[string]int{}
	logs := make([]*ledger.Log, 0, len(in.Logs))
	for _, s := range in.Logs {
		l, r := buildLog(s)
		if r != nil {
			return nil, nil, r.why, stats
		}
		logs = append(logs, l)
	}
	fail := func(i int, sig, detail string) { fails = append(fails, failure{sig, detail, i}) }

	var prev, prevJ *ledger.ChainedLog              // as written; as read back through JSON
	prevR := make([]*ledger.ChainedLog, len(zones)) // as read back through the row, per session zone
	okJ := true
	okR := make([]bool, len(zones))
	for zi := range okR {
		okR[zi] = true
	}
	for i, l := range logs {
		spec := in.Logs[i]
		c, p := rechain(prev, *l) // commander.chainLog: log.ChainLog(lastLog)
		if p != "" {
			fail(i, "chain-panic:"+cls(spec), p)
			return
		}
		// the times involved satisfy the assumption of the model: ParseTime(Format(t)) = t
		times := []ledger.Time{c.Date}
		switch pl := c.Data.(type) {
		case ledger.NewTransactionLogPayload:
			times = append(times, pl.Transaction.Timestamp)
		case ledger.RevertedTransactionLogPayload:
			times = append(times, pl.RevertTransaction.Timestamp)
		}
		for _, t := range times {
			back, err := ledger.ParseTime(timeText(t))
			if err != nil {
				fail(i, "time-text:accepted-timestamp-cannot-be-parsed-back", fmt.Sprintf("%q: %v", timeText(t), err))
			} else if !sameTime(back, t) {
				fail(i, "time-text:parse-of-format-differs", fmt.Sprintf("%q became %q", timeText(t), timeText(back)))
			}
		}

		js, err := json.Marshal(c)
		if err != nil {
			fail(i, "marshal-error:"+cls(spec), err.Error())
			return
		}
		jval, err := parseJSON(js)
		if err != nil {
			fail(i, "marshal-invalid-json:"+cls(spec), err.Error())
			return
		}
		// the hash covers previous hash, type, data, date, idempotency key
		hin, err := hashInput(prev, c)
		if err != nil {
			fail(i, "marshal-error:"+cls(spec), err.Error())
			return
		}
		sum := sha256.Sum256(hin)
		if !bytes.Equal(sum[:], c.Hash) {
			fail(i, "hash-input:"+cls(spec), "the stored hash is not SHA-256 of (previous hash, entry with id 0 and hash null) as encoding/json writes them")
		}
		wantID := big.NewInt(0)
		if prev != nil {
			wantID = new(big.Int).Add(prev.ID, big.NewInt(1))
		}
		if c.ID == nil || c.ID.Cmp(wantID) != 0 {
			fail(i, "chain-id:"+cls(spec), fmt.Sprintf("id %v, expected %v", c.ID, wantID))
		}

		// read back: JSON form
		oj := readJSON(js)
		stats["json:"+oj.kind]++
		switch oj.kind {
		case "panic":
			fail(i, "readback:json:"+cls(spec)+":panic:"+panicClass(oj.msg), oj.msg)
			okJ = false
		case "err":
			fail(i, "readback:json:"+cls(spec)+":error:"+errClass(oj.msg), oj.msg)
			okJ = false
		default:
			if d := sameEntry(c, oj.entry); d != "" {
				fail(i, "roundtrip:json:"+cls(spec)+":changed", d)
			}
			if js2, err := json.Marshal(oj.entry); err != nil || !bytes.Equal(js, js2) {
				fail(i, "roundtrip:json:"+cls(spec)+":remarshal-differs", fmt.Sprintf("%s\n%s", js, js2))
			}
			if okJ {
				re, p := rechain(prevJ, oj.entry.Log)
				if p != "" {
					fail(i, "rehash:json:"+cls(spec)+":panic", p)
				} else if !bytes.Equal(re.Hash, c.Hash) || re.ID.Cmp(c.ID) != 0 {
					fail(i, "rehash:json:"+cls(spec), fmt.Sprintf("re-chaining the entry read back gives id %v hash %x, stored id %v hash %x", re.ID, re.Hash, c.ID, c.Hash))
				}
			}
			prevJ = oj.entry
		}

		// read back: stored row, once per session time zone of the driver; the first zone feeds the Coq case
		var or outcome
		var dataBack jv
		for zi, zone := range zones {
			sfx := ""
			if zi > 1 {
				sfx = ":session-zone-not-utc"
			}
			row, db, err := storeRow(c, zone)
			var oz outcome
			if err != nil {
				fail(i, "store-error:"+cls(spec), err.Error())
				oz = outcome{kind: "err", msg: err.Error()}
				okR[zi] = false
			} else {
				oz = readRow(row)
				stats["row:"+oz.kind]++
				switch oz.kind {
				case "panic":
					fail(i, "readback:row:"+cls(spec)+":panic:"+panicClass(oz.msg), oz.msg)
					okR[zi] = false
				default:
					if d := sameEntry(c, oz.entry); d != "" {
						fail(i, "roundtrip:row:"+cls(spec)+":changed"+sfx, fmt.Sprintf("%s (session zone %s: date written %s, read back %s)", d, zone.name, timeText(c.Date), timeText(oz.entry.Date)))
					}
					if okR[zi] {
						re, p := rechain(prevR[zi], oz.entry.Log)
						if p != "" {
							fail(i, "rehash:row:"+cls(spec)+":panic", p)
						} else if !bytes.Equal(re.Hash, c.Hash) || re.ID.Cmp(c.ID) != 0 {
							fail(i, "rehash:row:"+cls(spec)+sfx, fmt.Sprintf("session zone %s: re-chaining the entry read back gives id %v hash %x, stored id %v hash %x", zone.name, re.ID, re.Hash, c.ID, c.Hash))
						}
					}
					prevR[zi] = oz.entry
				}
			}
			if zi == 0 {
				or, dataBack = oz, db
			}
		}

		// the Coq case
		es, unrep := coqEntry(c)
		if unrep == "" {
			prevH := "None"
			if prev != nil {
				prevH = "(Some " + coqStr(base64.StdEncoding.EncodeToString(prev.Hash)) + ")"
			}
			cases = append(cases, fmt.Sprintf("mk_case %s\n   %s\n   (%s)\n   %s\n   (%s)\n   %s\n   %s",
				prevH, es, jval.coqString(), oj.coq(es), dataBack.coqString(), or.coq(es), coqStr(string(hin))))
		} else {
			cases = append(cases, "")
		}
		prev = c
	}
	return
}

func one(r *vx.Run, in input) {
	fails, cases, rej, stats := runChain(in)
	if rej != "" {
		r.Count("rejected-by-ParseTime:" + rej)
		return
	}
	for k, v := range stats {
		r.Sum.Distribution[k] += v
	}
	reported := map[string]bool{}
	for _, f := range fails {
		if reported[f.sig] {
			continue
		}
		reported[f.sig] = true
		// shrink: the failing entry alone, if that fails in the same way
		small := input{Logs: []logSpec{in.Logs[f.at]}}
		shrunk := false
		if len(in.Logs) > 1 {
			fs, _, _, _ := runChain(small)
			for _, g := range fs {
				if g.sig == f.sig {
					r.FailP("C13", f.sig, small, g.detail, inputSize(small))
					shrunk = true
					break
				}
			}
		}
		if !shrunk {
			r.FailP("C13", f.sig, in, fmt.Sprintf("entry %d: %s", f.at, f.detail), inputSize(in))
		}
	}
	r.Count(fmt.Sprintf("chain-length:%d", len(in.Logs)))
	for i, s := range in.Logs {
		r.Count("kind:" + cls(s))
		if i < len(cases) && cases[i] != "" {
			sub := input{Logs: in.Logs[:i+1]}
			key, _ := json.Marshal(sub)
			r.Case(cases[i], sub, string(key), true)
		}
	}
}

// ---- generators ----------------------------------------------------------------------------------------------------

var strPool = []string{
	"", "a", "k", "key", "value", "users:001", "world", "bank", "orders:2023:x", "USD", "EUR/2", "COIN",
	"with space", "quote\"inside", "back\\slash", "<html>&amp;", "tab\there", "line\nbreak", "cr\rhere", "\x01\x1f", "\x7f",
	"\b\f", "é", "日本語", "emoji😀", "\u2028sep\u2029", "Ünïcödé ключ", "null", "0", "-1", "1e3", "{\"a\":1}", "[1,2]", "a/b", "%ff", "ﬁ",
	"targetType", "metadata", "ACCOUNT", "transaction", strings.Repeat("x", 255),
}

var addrPool = []string{"world", "bank", "users:001", "users:002", "orders:a:b", "_x", "A", "payments:0123456789"}
var assetPool = []string{"USD", "EUR/2", "COIN", "BTC/8", "A", "X0/6"}

func genStr(g *vx.Rng) string {
	if g.Chance(3, 4) {
		return strPool[g.Intn(len(strPool))]
	}
	// random valid UTF-8 without NUL (PostgreSQL rejects \u0000 in jsonb and text at insertion)
	n := g.Intn(12)
	var b strings.Builder
	for i := 0; i < n; i++ {
		switch g.Intn(6) {
		case 0:
			b.WriteRune(rune(1 + g.Intn(0x7f)))
		case 1:
			b.WriteRune(rune(0x80 + g.Intn(0x780)))
		case 2:
			x := rune(0x800 + g.Intn(0xF800))
			if x >= 0xD800 && x <= 0xDFFF {
				x = 0x2028
			}
			b.WriteRune(x)
		case 3:
			b.WriteRune(rune(0x10000 + g.Intn(0x100000)))
		default:
			{
				const pool = "abcXYZ019_:\"\\<>&/ "
				b.WriteByte(pool[g.Intn(len(pool))])
			}
		}
	}
	return b.String()
}

func genMeta(g *vx.Rng) map[string]string {
	switch g.Intn(6) {
	case 0:
		return nil
	case 1:
		return map[string]string{}
	}
	m := map[string]string{}
	n := 1 + g.Intn(4)
	for i := 0; i < n; i++ {
		m[genStr(g)] = genStr(g)
	}
	return m
}

func genAccountMeta(g *vx.Rng) map[string]map[string]string {
	switch g.Intn(5) {
	case 0:
		return nil
	case 1:
		return map[string]map[string]string{}
	}
	m := map[string]map[string]string{}
	n := 1 + g.Intn(3)
	for i := 0; i < n; i++ {
		k := addrPool[g.Intn(len(addrPool))]
		if g.Chance(1, 5) {
			k = genStr(g)
		}
		m[k] = genMeta(g)
	}
	return m
}

func pow2(n uint) *big.Int { return new(big.Int).Lsh(big.NewInt(1), n) }

func genAmount(g *vx.Rng) string {
	switch g.Intn(10) {
	case 0:
		return "0"
	case 1:
		return "1"
	case 2:
		return pow2(53).Add(pow2(53), big.NewInt(1)).String()
	case 3:
		return pow2(63).String()
	case 4:
		return pow2(64).String()
	case 5:
		return pow2(200).String()
	case 6:
		return new(big.Int).Sub(pow2(256), big.NewInt(1)).String()
	case 7:
		return "1000000000000000000000"
	}
	z := new(big.Int)
	bits := 1 + g.Intn(220)
	for i := 0; i < bits; i += 64 {
		z.Lsh(z, 64)
		z.Or(z, new(big.Int).SetUint64(g.U64()))
	}
	z.Rsh(z, uint(g.Intn(64)))
	return z.String()
}

// transaction ids: the counter of the commander starts at 0; large values to cross 2^53, 2^63 and 2^64
func genID(g *vx.Rng, beyond64 bool) string {
	switch g.Intn(12) {
	case 0:
		return "0"
	case 1:
		return new(big.Int).Add(pow2(53), big.NewInt(1)).String()
	case 2:
		return pow2(63).String()
	case 3:
		return new(big.Int).Sub(pow2(64), big.NewInt(1)).String()
	case 4:
		if beyond64 {
			return pow2(64).String()
		}
	case 5:
		if beyond64 {
			return new(big.Int).Add(pow2(70), big.NewInt(int64(g.Intn(1000)))).String()
		}
	}
	return fmt.Sprintf("%d", g.Intn(100000))
}

var zonePool = []string{"Z", "Z", "Z", "+00:00", "-00:00", "+02:00", "-05:30", "+14:00", "-12:00", "+23:59", "-23:59", "+05:45"}

// timestamps as a client may send them (RFC3339 with up to 9 fractional digits and any numeric zone)
func genTimestamp(g *vx.Rng) string {
	if g.Chance(1, 60) {
		// rounds up to the year 10000
		if g.Bool() {
			return "9999-12-31T23:59:59.9999995Z"
		}
		return "9999-12-31T23:59:59.999999999" + zonePool[g.Intn(len(zonePool))]
	}
	switch g.Intn(14) {
	case 0:
		return "0000-01-01T00:00:00Z"
	case 1:
		return "0001-01-01T00:00:00Z"
	case 2:
		return "9999-12-31T23:59:59.999999Z"
	case 3:
		return "9999-12-31T23:59:59.9999994Z"
	case 4:
		return "9999-12-31T23:59:59.9999985" + zonePool[g.Intn(len(zonePool))]
	case 6:
		return "2024-02-29T23:59:59.9999995" + zonePool[g.Intn(len(zonePool))]
	case 7:
		return "0000-01-01T00:00:00+14:00"
	case 8:
		return "1969-12-31T23:59:59.999999499Z"
	}
	frac := ""
	if nd := g.Intn(10); nd > 0 {
		sep := "."
		if g.Chance(1, 10) {
			sep = ","
		}
		frac = sep
		for i := 0; i < nd; i++ {
			frac += string(rune('0' + g.Intn(10)))
		}
	}
	return fmt.Sprintf("%04d-%02d-%02dT%02d:%02d:%02d%s%s", g.Intn(10000), 1+g.Intn(12), 1+g.Intn(28), g.Intn(24), g.Intn(60), g.Intn(60), frac, zonePool[g.Intn(len(zonePool))])
}

// log dates are ledger.Now(): UTC, microseconds
func genDate(g *vx.Rng) string {
	switch g.Intn(8) {
	case 0:
		return "0001-01-01T00:00:00Z"
	case 1:
		return "9999-12-31T23:59:59.999999Z"
	case 2:
		return "1970-01-01T00:00:00Z"
	}
	return fmt.Sprintf("%04d-%02d-%02dT%02d:%02d:%02d.%09dZ", 1990+g.Intn(60), 1+g.Intn(12), 1+g.Intn(28), g.Intn(24), g.Intn(60), g.Intn(60), g.Intn(1000000000))
}

func genTx(g *vx.Rng) *txSpec {
	t := &txSpec{Metadata: genMeta(g), Timestamp: genTimestamp(g), ID: genID(g, true), Reverted: g.Chance(1, 8)}
	if g.Chance(1, 4) {
		t.Timestamp, t.Now = genDate(g), true
	}
	n := 1 + g.Intn(3)
	if g.Chance(1, 20) {
		n = 0
	}
	if n > 0 || g.Bool() {
		t.Postings = []postingSpec{}
	}
	for i := 0; i < n; i++ {
		t.Postings = append(t.Postings, postingSpec{addrPool[g.Intn(len(addrPool))], addrPool[g.Intn(len(addrPool))], genAmount(g), assetPool[g.Intn(len(assetPool))]})
	}
	if g.Chance(1, 2) {
		t.Reference = genStr(g)
	}
	return t
}

func genLog(g *vx.Rng) logSpec {
	s := logSpec{Date: genDate(g)}
	if g.Chance(1, 2) {
		s.IK = genStr(g)
	}
	switch g.Intn(6) {
	case 0:
		s.Kind, s.Tx, s.AccountMD = "NEW", genTx(g), genAccountMeta(g)
	case 1:
		s.Kind, s.Tx, s.RevertedID = "REV", genTx(g), genID(g, true)
	case 2:
		s.Kind, s.Target, s.Account, s.Metadata = "SET", "ACCOUNT", addrPool[g.Intn(len(addrPool))], genMeta(g)
		if g.Chance(1, 4) {
			s.Account = genStr(g)
		}
	case 3:
		s.Kind, s.Target, s.TxID, s.Metadata = "SET", "TRANSACTION", genID(g, true), genMeta(g)
	case 4:
		s.Kind, s.Target, s.Account, s.Key = "DEL", "ACCOUNT", addrPool[g.Intn(len(addrPool))], genStr(g)
		if g.Chance(1, 4) {
			s.Account = genStr(g)
		}
	default:
		s.Kind, s.Target, s.TxID, s.Key = "DEL", "TRANSACTION", genID(g, true), genStr(g)
	}
	return s
}

func main() {
	r := vx.Start("C13", "logcodec")
	r.Sum.Samples = []any{}
	r.Cases("From FL Require Import LogCodec.Model.\n", "case", 150)
	r.Sum.Rule = "chains of logs of the 6 shapes (new transaction, reverted, set/delete metadata on account/transaction) built with the real constructors, " +
		"chained by the real ChainLog, marshalled, stored as InsertLogs fills the row (jsonb member order), read back by json.Unmarshal and by Logs.ToCore, re-chained; " +
		"one case per entry; all are non-trivial (each reaches HydrateLog and ComputeHash); distinct by the JSON of the chain prefix"
	docs, replayOnly := r.Inputs()
	for _, d := range docs {
		var in input
		if err := json.Unmarshal(d, &in); err == nil && len(in.Logs) > 0 {
			one(r, in)
		}
		var ein entryInput
		if err := json.Unmarshal(d, &ein); err == nil && len(ein.Entry) > 0 {
			oneEntry(r, ein)
		}
	}
	if replayOnly {
		r.Finish()
		return
	}
	// every shape once, alone and in one chain, with plain values
	base := &txSpec{Postings: []postingSpec{{"world", "bank", "100", "USD"}}, Metadata: map[string]string{}, Timestamp: "2023-05-17T10:00:00Z", ID: "0"}
	shapes := []logSpec{
		{Kind: "NEW", Tx: base, AccountMD: map[string]map[string]string{}, Date: "2023-05-17T10:00:00.000001Z"},
		{Kind: "REV", Tx: base, RevertedID: "0", Date: "2023-05-17T10:00:01Z"},
		{Kind: "SET", Target: "ACCOUNT", Account: "bank", Metadata: map[string]string{"k": "v"}, Date: "2023-05-17T10:00:02Z"},
		{Kind: "SET", Target: "TRANSACTION", TxID: "0", Metadata: map[string]string{"k": "v"}, Date: "2023-05-17T10:00:03Z", IK: "ik"},
		{Kind: "DEL", Target: "ACCOUNT", Account: "bank", Key: "k", Date: "2023-05-17T10:00:04Z"},
		{Kind: "DEL", Target: "TRANSACTION", TxID: "0", Key: "k", Date: "2023-05-17T10:00:05Z", IK: "ik2"},
	}
	for _, s := range shapes {
		one(r, input{Logs: []logSpec{s}})
	}
	one(r, input{Logs: shapes})
	// every pair of shapes in both orders (the previous hash enters the hash of the next)
	for _, a := range shapes {
		for _, b := range shapes {
			one(r, input{Logs: []logSpec{a, b}})
		}
	}

	// strings that enter without a JSON decoder (URL path, header, Go callers), through the real router and Commander
	for _, ein := range entryBasics() {
		oneEntry(r, ein)
	}
	ge := vx.NewRng(r.Seed ^ 0xC13E)
	NE := 80
	if r.Thorough() {
		NE = 2000
	}
	for k := 0; k < NE; k++ {
		oneEntry(r, genEntry(ge))
	}

	g := vx.NewRng(r.Seed)
	N := 260
	if r.Thorough() {
		N = 9000
	}
	for k := 0; k < N; k++ {
		n := 1 + g.Intn(5)
		if g.Chance(1, 3) {
			n = 1
		}
		in := input{}
		for i := 0; i < n; i++ {
			in.Logs = append(in.Logs, genLog(g))
		}
		one(r, in)
	}
	r.Finish()
}
