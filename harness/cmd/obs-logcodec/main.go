package main

import (
	"encoding/json"
	"fmt"
	"math/big"

	ledger "github.com/formancehq/ledger/internal"
	"github.com/formancehq/ledger/internal/storage/ledgerstore"
	"github.com/formancehq/stack/libs/go-libs/metadata"
)

func try(name string, f func()) {
	defer func() {
		if r := recover(); r != nil {
			fmt.Println(name, "PANIC:", r)
		}
	}()
	f()
}

func main() {
	for _, s := range []string{"9999-12-31T23:59:59.9999996Z", "0000-01-01T00:00:00Z", "0000-01-01T00:00:00+14:00", "2023-01-01T10:00:00.1234565+02:00", "2023-01-01T10:00:00.1234564-00:00", "0001-01-01T00:00:00Z", "2023-01-01T10:00:00.12+23:59", "2023-01-01T10:00:00,12Z", "2023-01-01t10:00:00z"} {
		t, err := ledger.ParseTime(s)
		if err != nil {
			fmt.Println(s, "ERR", err)
			continue
		}
		f := t.Format(ledger.DateFormat)
		t2, err2 := ledger.ParseTime(f)
		fmt.Println(s, "->", f, "reparse:", err2, t2.Equal(t), t2.Format(ledger.DateFormat) == f)
	}
	big70 := new(big.Int).Lsh(big.NewInt(1), 70)
	tx := ledger.NewTransaction().WithPostings(ledger.NewPosting("world", "a<b>& ", "USD/2", new(big.Int).Lsh(big.NewInt(1), 200))).WithMetadata(metadata.Metadata{"k\"": "v\\", "": "é"}).WithIDUint64(3)
	logs := []*ledger.Log{
		ledger.NewTransactionLog(tx, map[string]metadata.Metadata{"a": {"x": "y"}, "b": nil}).WithIdempotencyKey("ik"),
		ledger.NewRevertedTransactionLog(ledger.Now(), big.NewInt(3), tx),
		ledger.NewSetMetadataOnAccountLog(ledger.Now(), "acc", nil),
		ledger.NewSetMetadataOnTransactionLog(ledger.Now(), big.NewInt(5), metadata.Metadata{}),
		ledger.NewSetMetadataOnTransactionLog(ledger.Now(), big70, metadata.Metadata{}),
		ledger.NewDeleteMetadataLog(ledger.Now(), ledger.DeleteMetadataLogPayload{TargetType: "ACCOUNT", TargetID: "acc", Key: "k"}),
		ledger.NewDeleteMetadataLog(ledger.Now(), ledger.DeleteMetadataLogPayload{TargetType: "TRANSACTION", TargetID: big.NewInt(1 << 60), Key: "k"}),
	}
	var prev *ledger.ChainedLog
	for i, l := range logs {
		c := l.ChainLog(prev)
		prev = c
		js, _ := json.Marshal(c)
		fmt.Println(i, string(js))
		try("unmarshal", func() {
			var rt ledger.ChainedLog
			err := json.Unmarshal(js, &rt)
			fmt.Printf("  unmarshal err=%v data=%#v\n", err, rt.Data)
		})
		try("tocore", func() {
			data, _ := json.Marshal(c.Data)
			row := ledgerstore.Logs{Type: c.Type.String(), Data: data, Date: c.Date, IdempotencyKey: c.IdempotencyKey, Hash: c.Hash}
			rt := row.ToCore()
			fmt.Printf("  tocore data=%#v\n", rt.Data)
		})
	}
}
