// obs-numscript: the real Numscript compiler and machine on generated programs x variable maps x stores,
// observed as Coq cases for Numscript/Corr.v (bytecode, resources, lock sets, run outcome), plus the oracles of
// C01 (floor), C03 (conservation / caps / shares, partial), C08 (determinism across recompilation and reuse of a
// compiled program), C12 (no panic, bounded time, defined error classes).
package main

import (
	"context"
	"encoding/json"
	"errors"
	"fmt"
	"math/big"
	"os"
	"sort"
	"strings"
	"time"

	ledger "github.com/formancehq/ledger/internal"
	"github.com/formancehq/ledger/internal/engine/command"
	"github.com/formancehq/ledger/internal/machine"
	"github.com/formancehq/ledger/internal/machine/script/compiler"
	"github.com/formancehq/ledger/internal/machine/vm"
	"github.com/formancehq/ledger/internal/machine/vm/program"
	"github.com/formancehq/ledger/verifx/nsx"
	"github.com/formancehq/ledger/verifx/vx"
	"github.com/formancehq/stack/libs/go-libs/metadata"
)

type runObs struct {
	Stage    string // compile vars resolve balances run done
	Class    string // eclass constructor when Stage != done
	Panic    string
	Involved []string
	Sources  []string
	Postings []vm.Posting
	TxMeta   map[string]machine.Value
	AccMeta  map[machine.AccountAddress]map[string]machine.Value
	Printed  []machine.Value
	Vars     map[string]machine.Value
	AllVars  map[string]machine.Value // every declared variable (plain, meta(), balance()) after resolution
	Prog     *program.Program
	Elapsed  time.Duration
}

func classify(stage string, err error) string {
	switch stage {
	case "vars":
		return "EInvalidVars"
	case "resolve":
		if errors.Is(err, &machine.ErrMissingMetadata{}) {
			return "EMissingMeta"
		}
		return "EResolveOther"
	case "balances":
		if errors.Is(err, &machine.ErrNegativeAmount{}) {
			return "ENegBalance"
		}
		return "EResolveOther"
	}
	switch {
	case errors.Is(err, &machine.ErrInsufficientFund{}):
		return "EInsufficient"
	case errors.Is(err, &machine.ErrInvalidScript{}):
		return "EInvalidScript"
	case errors.Is(err, machine.ErrScriptFailed):
		return "EScriptFailed"
	case errors.Is(err, machine.ErrResourceNotFound):
		return "EResNotFound"
	case errors.Is(err, &machine.ErrMetadataOverride{}):
		return "EMetaOverride"
	}
	return "EOtherRun"
}

func storeOf(in nsx.Input) vm.StaticStore {
	st := vm.StaticStore{}
	ensure := func(a string) *vm.AccountWithBalances {
		if st[a] == nil {
			st[a] = &vm.AccountWithBalances{Account: ledger.Account{Address: a, Metadata: metadata.Metadata{}}, Balances: map[string]*big.Int{}}
		}
		return st[a]
	}
	for a, m := range in.Balances {
		for s, v := range m {
			b, ok := new(big.Int).SetString(v, 10)
			if ok {
				ensure(a).Balances[s] = b
			}
		}
	}
	for a, m := range in.Meta {
		for k, v := range m {
			ensure(a).Metadata[k] = v
		}
	}
	return st
}

// runProgram runs the pipeline after compilation on the given program.
func runProgram(prog *program.Program, in nsx.Input) (ob runObs) {
	ob.Prog = prog
	stage := "vars"
	defer func() {
		if r := recover(); r != nil {
			ob.Stage, ob.Panic = stage, fmt.Sprint(r)
		}
	}()
	m := vm.NewMachine(*prog)
	done := make(chan struct{})
	m.Printer = func(c chan machine.Value) {
		for v := range c {
			ob.Printed = append(ob.Printed, v)
		}
		close(done)
	}
	vars := map[string]string{}
	for k, v := range in.Vars {
		vars[k] = v
	}
	if err := m.SetVarsFromJSON(vars); err != nil {
		ob.Stage, ob.Class = "vars", classify("vars", err)
		return
	}
	ob.Vars = m.Vars
	st := storeOf(in)
	stage = "resolve"
	inv, src, err := m.ResolveResources(context.Background(), st)
	if err != nil {
		ob.Stage, ob.Class = "resolve", classify("resolve", err)
		return
	}
	ob.Involved, ob.Sources = inv, src
	stage = "balances"
	if err := m.ResolveBalances(context.Background(), st); err != nil {
		ob.Stage, ob.Class = "balances", classify("balances", err)
		return
	}
	ob.AllVars = map[string]machine.Value{}
	for i, res := range prog.Resources {
		if i >= len(m.Resources) {
			break
		}
		switch res := res.(type) {
		case program.Variable:
			ob.AllVars[res.Name] = m.Resources[i]
		case program.VariableAccountMetadata:
			ob.AllVars[res.Name] = m.Resources[i]
		case program.VariableAccountBalance:
			ob.AllVars[res.Name] = m.Resources[i]
		}
	}
	stage = "run"
	extra := metadata.Metadata{}
	for k, v := range in.ExtraMeta {
		extra[k] = v
	}
	res, err := vm.Run(m, ledger.RunScript{Script: ledger.Script{Plain: in.Script, Vars: in.Vars}, Metadata: extra})
	<-done
	if err != nil {
		ob.Stage, ob.Class = "run", classify("run", err)
		return
	}
	ob.Stage = "done"
	ob.TxMeta, ob.AccMeta = m.TxMeta, m.AccountsMeta
	// the postings observed are those vm.Run RETURNS (what the engine commits), not the machine's internal list
	ob.Postings = nil
	for _, p := range res.Postings {
		ob.Postings = append(ob.Postings, vm.Posting{Source: p.Source, Destination: p.Destination, Asset: p.Asset, Amount: (*machine.MonetaryInt)(p.Amount)})
	}
	// the transaction metadata vm.Run returns has exactly the keys the script set plus the request's extra metadata
	if len(res.Metadata) != len(m.TxMeta)+len(extra) {
		ob.Stage, ob.Class = "run", "EResultMetadataDiffers"
	}
	for acc, kv := range m.AccountsMeta {
		if len(res.AccountMetadata[string(acc)]) != len(kv) {
			ob.Stage, ob.Class = "run", "EResultAccountMetadataDiffers"
		}
	}
	return
}

func compileSafe(script string) (p *program.Program, err error, panicked string) {
	defer func() {
		if r := recover(); r != nil {
			panicked = fmt.Sprint(r)
		}
	}()
	p, err = compiler.Compile(script)
	return
}

func observe(in nsx.Input) (ob runObs) {
	t0 := time.Now()
	defer func() { ob.Elapsed = time.Since(t0) }()
	prog, err, pan := compileSafe(in.Script)
	if pan != "" {
		return runObs{Stage: "compile", Panic: pan}
	}
	if err != nil {
		return runObs{Stage: "compile", Class: "ECompile"}
	}
	return runProgram(prog, in)
}

func safeValueFromString(t machine.Type, raw string) (v machine.Value, err error) {
	defer func() {
		if r := recover(); r != nil {
			err = fmt.Errorf("panic: %v", r)
		}
	}()
	return machine.NewValueFromString(t, raw)
}

// ---- Coq rendering -------------------------------------------------------------------------------------

var types = []struct {
	t machine.Type
	c string
}{{machine.TypeAccount, "TAccount"}, {machine.TypeAsset, "TAsset"}, {machine.TypeNumber, "TNumber"}, {machine.TypeString, "TString"}, {machine.TypeMonetary, "TMonetary"}, {machine.TypePortion, "TPortion"}}

func coqCase(in nsx.Input, ast *nsx.Script, ob runObs) string {
	n := nsx.NewNames()
	script := n.Script(ast)
	prog := "None"
	if ob.Prog != nil {
		prog = "(Some " + n.Program(ob.Prog) + ")"
	}
	vars := "None"
	if ob.Vars != nil {
		var xs []string
		for _, k := range vx.SortedKeys(ob.Vars) {
			xs = append(xs, "("+n.V(k)+", "+n.Value(ob.Vars[k])+")")
		}
		vars = "(Some [" + strings.Join(xs, "; ") + "])"
	}
	var bal, meta, parse []string
	for _, a := range vx.SortedKeys(in.Balances) {
		for _, s := range vx.SortedKeys(in.Balances[a]) {
			b, ok := new(big.Int).SetString(in.Balances[a][s], 10)
			if ok {
				bal = append(bal, fmt.Sprintf("(%s, %s, %s)", n.A(a), n.S(s), nsx.Z(b)))
			}
		}
	}
	raws := map[string]bool{}
	for _, a := range vx.SortedKeys(in.Meta) {
		for _, k := range vx.SortedKeys(in.Meta[a]) {
			meta = append(meta, fmt.Sprintf("(%s, %s, %s)", n.A(a), n.St(k), n.St(in.Meta[a][k])))
			raws[in.Meta[a][k]] = true
		}
	}
	for _, raw := range vx.SortedKeys(raws) {
		for _, t := range types {
			v, err := safeValueFromString(t.t, raw)
			if err == nil {
				parse = append(parse, fmt.Sprintf("(%s, %s, Some %s)", t.c, n.St(raw), n.Value(v)))
			}
		}
	}
	var extra []string
	for _, k := range vx.SortedKeys(in.ExtraMeta) {
		extra = append(extra, n.St(k))
	}
	// observation
	var inv, src []string
	seen := map[uint64]bool{}
	var invN []uint64
	for _, a := range ob.Involved {
		var x uint64
		fmt.Sscanf(n.A(a), "%d", &x)
		if !seen[x] {
			seen[x] = true
			invN = append(invN, x)
		}
	}
	sort.Slice(invN, func(i, j int) bool { return invN[i] < invN[j] })
	for _, x := range invN {
		inv = append(inv, fmt.Sprintf("%d%%N", x))
	}
	for _, a := range ob.Sources {
		if a == "" {
			src = append(src, "None")
		} else {
			src = append(src, "(Some "+n.A(a)+")")
		}
	}
	run := ""
	switch {
	case ob.Panic != "":
		run = "OPanic"
	case ob.Stage == "done":
		var ps, tm, am, pr []string
		for _, p := range ob.Postings {
			ps = append(ps, fmt.Sprintf("{| p_src := %s; p_dst := %s; p_asset := %s; p_amount := %s |}", n.A(p.Source), n.A(p.Destination), n.S(p.Asset), nsx.Z((*big.Int)(p.Amount))))
		}
		for _, k := range vx.SortedKeys(ob.TxMeta) {
			tm = append(tm, "("+n.St(k)+", "+n.Value(ob.TxMeta[k])+")")
		}
		accs := map[string]map[string]machine.Value{}
		for a, m := range ob.AccMeta {
			accs[string(a)] = m
		}
		for _, a := range vx.SortedKeys(accs) {
			for _, k := range vx.SortedKeys(accs[a]) {
				am = append(am, "("+n.A(a)+", "+n.St(k)+", "+n.Value(accs[a][k])+")")
			}
		}
		for _, v := range ob.Printed {
			pr = append(pr, n.Value(v))
		}
		run = fmt.Sprintf("ODone {| res_posts := [%s]; res_txmeta := [%s]; res_accmeta := [%s]; res_printed := [%s] |}",
			strings.Join(ps, "; "), strings.Join(tm, "; "), strings.Join(am, "; "), strings.Join(pr, "; "))
	default:
		run = "OErr " + ob.Class
	}
	return fmt.Sprintf("{| n_script := %s;\n   n_vars := %s;\n   n_store := {| st_bal := [%s]; st_meta := [%s]; st_parse := [%s] |};\n   n_extra := [%s];\n   n_prog := %s;\n   n_obs := {| ob_involved := [%s]; ob_sources := [%s]; ob_run := %s |} |}",
		script, vars, strings.Join(bal, "; "), strings.Join(meta, "; "), strings.Join(parse, "; "), strings.Join(extra, "; "), prog,
		strings.Join(inv, "; "), strings.Join(src, "; "), run)
}

// ---- oracles ----------------------------------------------------------------------------------------------

// grants: account -> "inf" or max bounded overdraft named anywhere in the script for that account
func collectGrants(ast *nsx.Script, vars map[string]machine.Value) (unbounded map[string]bool, bounded map[string]*big.Int) {
	unbounded, bounded = map[string]bool{}, map[string]*big.Int{}
	accName := func(e *nsx.Expr) string {
		switch e.K {
		case "acc":
			return e.Text
		case "var":
			if v, ok := vars[e.Text].(machine.AccountAddress); ok {
				return string(v)
			}
		}
		return ""
	}
	var evalMon func(e *nsx.Expr) *big.Int
	evalMon = func(e *nsx.Expr) *big.Int {
		switch e.K {
		case "mon":
			b, _ := new(big.Int).SetString(e.Text, 10)
			return b
		case "var":
			if v, ok := vars[e.Text].(machine.Monetary); ok && v.Amount != nil {
				return (*big.Int)(v.Amount)
			}
		case "addsub":
			l, r := evalMon(e.L), evalMon(e.R)
			if l == nil || r == nil {
				return nil
			}
			if e.Add {
				return new(big.Int).Add(l, r)
			}
			return new(big.Int).Sub(l, r)
		}
		return nil
	}
	var walk func(s *nsx.Source)
	walk = func(s *nsx.Source) {
		switch s.K {
		case "account":
			a := accName(s.Acc)
			if a == "" {
				return
			}
			if s.Ov == "unbounded" {
				unbounded[a] = true
			} else if s.Ov == "specific" {
				if m := evalMon(s.OvE); m != nil {
					if cur, ok := bounded[a]; !ok || cur.Cmp(m) < 0 {
						bounded[a] = m
					}
				} else {
					unbounded[a] = true // cannot evaluate the grant: do not judge this account
				}
			}
		case "maxed":
			walk(s.Src)
		case "inorder":
			for _, x := range s.Srcs {
				walk(x)
			}
		}
	}
	for _, st := range ast.Stmts {
		if st.K == "send" {
			if st.Src.Src != nil {
				walk(st.Src.Src)
			}
			for _, a := range st.Src.Allot {
				walk(a.S)
			}
		}
	}
	return
}

func oracles(r *vx.Run, in nsx.Input, ast *nsx.Script, ob runObs) {
	size := len(in.Script)
	// C12: no panic, bounded time, a defined class
	if ob.Panic != "" {
		site := ob.Panic
		if len(site) > 60 {
			site = site[:60]
		}
		r.FailP("C12", "panic:"+ob.Stage+":"+site, in, ob.Panic, size)
	}
	if ob.Elapsed > 2*time.Second {
		r.FailP("C12", "slow:"+ob.Stage, in, ob.Elapsed.String(), size)
	}
	// C08: a script all of whose sends draw on an unbounded source (@world or unbounded overdraft) and whose
	// amounts are non-negative can always be funded: "insufficient funds" is then not what the source text defines
	if ast != nil && ob.Stage == "run" && ob.Class == "EInsufficient" && allUnbounded(ast) {
		cause := "other"
		if keptThenMax(ast) {
			cause = "kept-entry-before-later-max-in-ordered-destination"
		}
		r.FailP("C08", "spurious-insufficient-funds:"+cause, in, "every send has an unbounded source, yet the run fails with insufficient funds", size)
	}
	if ob.Stage != "done" || ast == nil {
		return
	}
	// C02 (lock sets, theorems C02_locks_*): what the Commander write-locks is involvedSources and read-locks is
	// involvedAccounts; every account a posting debits must be write-locked, every account it touches read-locked
	{
		src, inv := map[string]bool{}, map[string]bool{}
		for _, a := range ob.Sources {
			src[a] = true
		}
		for _, a := range ob.Involved {
			inv[a] = true
		}
		for _, p := range ob.Postings {
			if p.Source != "world" && (*big.Int)(p.Amount).Sign() != 0 && !src[p.Source] {
				r.FailP("C02", "lockset:debited-account-not-write-locked", in, fmt.Sprintf("posting %+v, involvedSources %v", p, ob.Sources), size)
				break
			}
			if (p.Source != "world" && !inv[p.Source]) || (p.Destination != "world" && !inv[p.Destination]) {
				r.FailP("C02", "lockset:touched-account-not-read-locked", in, fmt.Sprintf("posting %+v, involvedAccounts %v", p, ob.Involved), size)
				break
			}
		}
	}
	// C03 (b): no negative posting
	for _, p := range ob.Postings {
		if (*big.Int)(p.Amount).Sign() < 0 {
			r.FailP("C03", "negative-posting", in, fmt.Sprintf("%+v", p), size)
		}
	}
	// C03 (a): conservation for scripts whose sends all state a literal amount and keep nothing back
	if want, ok := statedTotals(ast); ok {
		got := map[string]*big.Int{}
		for _, p := range ob.Postings {
			if got[p.Asset] == nil {
				got[p.Asset] = big.NewInt(0)
			}
			got[p.Asset].Add(got[p.Asset], (*big.Int)(p.Amount))
		}
		for asset, w := range want {
			g := got[asset]
			if g == nil {
				g = big.NewInt(0)
			}
			if g.Cmp(w) != 0 {
				r.FailP("C03", "conservation:postings-do-not-add-up-to-the-stated-amount", in, fmt.Sprintf("asset %s: sends state %s, postings move %s", asset, w, g), size)
			}
		}
	}
	// C03 (e): one send from a flat ordered list of plain literal accounts: a later source contributes only when
	// every earlier one has given its whole (positive) balance
	if len(ast.Stmts) == 1 && ast.Stmts[0].K == "send" && ast.Stmts[0].Src.Src != nil && ast.Stmts[0].Src.Src.K == "inorder" && ast.Stmts[0].Mon != nil && ast.Stmts[0].Mon.K == "mon" {
		flat := true
		var names []string
		for _, x := range ast.Stmts[0].Src.Src.Srcs {
			if x.K != "account" || x.Ov != "none" || x.Acc.K != "acc" || x.Acc.Text == "world" {
				flat = false
				break
			}
			names = append(names, x.Acc.Text)
		}
		if flat {
			asset := ast.Stmts[0].Mon.Asset.Text
			gave := map[string]*big.Int{}
			for _, p := range ob.Postings {
				if gave[p.Source] == nil {
					gave[p.Source] = big.NewInt(0)
				}
				gave[p.Source].Add(gave[p.Source], (*big.Int)(p.Amount))
			}
			exhausted := true
			for _, a := range names {
				have := big.NewInt(0)
				if v, ok := in.Balances[a][asset]; ok {
					have, _ = new(big.Int).SetString(v, 10)
				}
				if have.Sign() < 0 {
					have = big.NewInt(0)
				}
				g := gave[a]
				if g == nil {
					g = big.NewInt(0)
				}
				if g.Sign() > 0 && !exhausted {
					r.FailP("C03", "order:later-source-contributes-before-an-earlier-one-is-exhausted", in, fmt.Sprintf("%s gives %s although an earlier source still holds funds", a, g), size)
					break
				}
				if g.Cmp(have) < 0 {
					exhausted = false
				}
			}
		}
	}
	// C03 (e'): one send of a literal amount from an ordered list whose entries are plain literal accounts, possibly
	// capped by a literal `max` and possibly naming the same account again: entry by entry, each gives what is still
	// asked for, up to its cap and up to what its account still holds at that point
	if len(ast.Stmts) == 1 && ast.Stmts[0].K == "send" && ast.Stmts[0].Src.Src != nil && ast.Stmts[0].Src.Src.K == "inorder" && ast.Stmts[0].Mon != nil && ast.Stmts[0].Mon.K == "mon" {
		asset := ast.Stmts[0].Mon.Asset.Text
		rem, okAmt := new(big.Int).SetString(ast.Stmts[0].Mon.Text, 10)
		type entry struct {
			acc string
			cap *big.Int
		}
		var entries []entry
		// the destination is one plain account: everything taken is posted (nothing is kept back and repaid)
		simple := okAmt && ast.Stmts[0].Mon.Asset.K == "asset" && ast.Stmts[0].Dest != nil && ast.Stmts[0].Dest.K == "account"
		for _, x := range ast.Stmts[0].Src.Src.Srcs {
			e := entry{}
			if x.K == "maxed" && x.Max != nil && x.Max.K == "mon" && x.Max.Asset.K == "asset" && x.Max.Asset.Text == asset && x.Src != nil {
				c, ok := new(big.Int).SetString(x.Max.Text, 10)
				if !ok {
					simple = false
					break
				}
				e.cap, x = c, x.Src
			}
			if x.K != "account" || x.Ov != "none" || x.Acc == nil || x.Acc.K != "acc" || x.Acc.Text == "world" {
				simple = false
				break
			}
			e.acc = x.Acc.Text
			entries = append(entries, e)
		}
		if simple && len(entries) > 0 {
			avail, want := map[string]*big.Int{}, map[string]*big.Int{}
			for _, e := range entries {
				if avail[e.acc] == nil {
					have := big.NewInt(0)
					if v, ok := in.Balances[e.acc][asset]; ok {
						have, _ = new(big.Int).SetString(v, 10)
					}
					if have == nil || have.Sign() < 0 {
						have = big.NewInt(0)
					}
					avail[e.acc], want[e.acc] = have, big.NewInt(0)
				}
				take := new(big.Int).Set(rem)
				if e.cap != nil && e.cap.Cmp(take) < 0 {
					take.Set(e.cap)
				}
				if avail[e.acc].Cmp(take) < 0 {
					take.Set(avail[e.acc])
				}
				avail[e.acc].Sub(avail[e.acc], take)
				want[e.acc].Add(want[e.acc], take)
				rem.Sub(rem, take)
			}
			gave := map[string]*big.Int{}
			for _, p := range ob.Postings {
				if gave[p.Source] == nil {
					gave[p.Source] = big.NewInt(0)
				}
				gave[p.Source].Add(gave[p.Source], (*big.Int)(p.Amount))
			}
			if rem.Sign() == 0 {
				for a, w := range want {
					g := gave[a]
					if g == nil {
						g = big.NewInt(0)
					}
					if g.Cmp(w) != 0 {
						r.FailP("C03", "order:capped-ordered-source:account-gives-other-than-its-turns-allow", in, fmt.Sprintf("%s gives %s, its entries allow exactly %s", a, g, w), size)
						break
					}
				}
			}
		}
	}
	// C03 (f): a script that ENDS with `send [A *]` from one plain account (no overdraft) to destinations that keep
	// nothing back leaves that account with nothing of A: whatever earlier statements took from it and handed back
	// (kept funds, unused funding) is the account's again when the last send runs
	if n := len(ast.Stmts); n > 0 && ast.Stmts[n-1].K == "send" && ast.Stmts[n-1].All != nil && ast.Stmts[n-1].All.K == "asset" {
		last := ast.Stmts[n-1]
		saves := false
		for _, st := range ast.Stmts {
			saves = saves || st.K == "save" // a save withholds funds from later statements on purpose
		}
		if !saves && last.Src != nil && last.Src.Src != nil && last.Src.Src.K == "account" && last.Src.Src.Ov == "none" && last.Src.Src.Acc != nil &&
			last.Src.Src.Acc.K == "acc" && last.Src.Src.Acc.Text != "world" && !destKeeps(last.Dest) && !destMayCredit(last.Dest, last.Src.Src.Acc.Text) {
			acc, asset := last.Src.Src.Acc.Text, last.All.Text
			bal := big.NewInt(0)
			if v, ok := in.Balances[acc][asset]; ok {
				if x, ok := new(big.Int).SetString(v, 10); ok {
					bal = x
				}
			}
			for _, p := range ob.Postings {
				if p.Asset != asset {
					continue
				}
				if p.Source == acc {
					bal.Sub(bal, (*big.Int)(p.Amount))
				}
				if p.Destination == acc {
					bal.Add(bal, (*big.Int)(p.Amount))
				}
			}
			if bal.Sign() > 0 {
				r.FailP("C03", "send-all:leaves-funds-behind", in, fmt.Sprintf("after the final `send [%s *]` from @%s the account still holds %s", asset, acc, bal), size)
			}
		}
	}
	// C01: floor
	unb, bnd := collectGrants(ast, ob.AllVars)
	running := map[string]*big.Int{}
	get := func(a, s string) *big.Int {
		k := a + "\x00" + s
		if v, ok := running[k]; ok {
			return v
		}
		b := big.NewInt(0)
		if m, ok := in.Balances[a]; ok {
			if v, ok := m[s]; ok {
				b, _ = new(big.Int).SetString(v, 10)
			}
		}
		running[k] = b
		return b
	}
	for i, p := range ob.Postings {
		amt := (*big.Int)(p.Amount)
		if p.Source != "world" && !unb[p.Source] {
			avail := new(big.Int).Set(get(p.Source, p.Asset))
			if g, ok := bnd[p.Source]; ok && g.Sign() > 0 {
				avail.Add(avail, g)
			}
			if avail.Sign() < 0 {
				avail = big.NewInt(0)
			}
			if amt.Cmp(avail) > 0 {
				r.FailP("C01", "overdraw", in, fmt.Sprintf("posting %d takes %s from %s which has %s available", i, amt, p.Source, avail), size)
				for _, st := range ast.Stmts {
					if st.K == "send" && st.All != nil {
						r.FailP("C03", "send-all-moves-more-than-its-sources-can-provide", in, fmt.Sprintf("posting %d takes %s from %s which can provide %s", i, amt, p.Source, avail), size)
						break
					}
				}
				break
			}
		}
		k := p.Source + "\x00" + p.Asset
		running[k] = new(big.Int).Sub(get(p.Source, p.Asset), amt)
		k2 := p.Destination + "\x00" + p.Asset
		running[k2] = new(big.Int).Add(get(p.Destination, p.Asset), amt)
	}
	perSendFloor(r, in, ast, ob, size)
}

// ---- C01, the floor per send statement (Coq: C01_floor_per_send, Properties/C01_per_send.v) -------------------
// The theorem: cut the postings of an accepted run into one group per statement; a posting of the group of a send takes
// at most max 0 (balance when reached, all earlier postings of the whole script applied + the overdraft granted by the
// clauses written in THAT send). The machine's output does not carry the grouping, so this oracle judges only scripts for
// which the grouping can be recomputed from the source text: every send is `send [ASSET n]` with literal asset and
// amount, literal source accounts and literal overdraft bounds, and keeps nothing back. Such a send moves exactly n of
// ASSET (conservation, C03), and all of its postings are in ASSET (OP_TAKE checks the asset), so the posting list is cut
// by cumulative amount. Postings of amount 0 can be attributed to either neighbour: they pass any floor and move nothing.
type sendGrants struct {
	asset  string
	amount *big.Int
	unb    map[string]bool     // account named with `allowing unbounded overdraft` in this send
	upto   map[string]*big.Int // account \x00 asset of the bound -> largest `overdraft up to` in this send
}

func literalSend(st nsx.Stmt) (g sendGrants, ok bool) {
	if st.K != "send" || st.All != nil || st.Mon == nil || st.Mon.K != "mon" || st.Mon.Asset == nil || st.Mon.Asset.K != "asset" ||
		st.Src == nil || st.Dest == nil || leavesLeftover(nsx.Kod{D: st.Dest}) {
		return g, false
	}
	n, okn := new(big.Int).SetString(st.Mon.Text, 10)
	if !okn || n.Sign() < 0 {
		return g, false
	}
	g = sendGrants{asset: st.Mon.Asset.Text, amount: n, unb: map[string]bool{}, upto: map[string]*big.Int{}}
	var walk func(s *nsx.Source) bool
	walk = func(s *nsx.Source) bool {
		if s == nil {
			return false
		}
		switch s.K {
		case "account":
			if s.Acc == nil || s.Acc.K != "acc" {
				return false
			}
			switch s.Ov {
			case "unbounded":
				g.unb[s.Acc.Text] = true
			case "specific":
				if s.OvE == nil || s.OvE.K != "mon" || s.OvE.Asset == nil || s.OvE.Asset.K != "asset" {
					return false
				}
				m, okm := new(big.Int).SetString(s.OvE.Text, 10)
				if !okm {
					return false
				}
				k := s.Acc.Text + "\x00" + s.OvE.Asset.Text
				if cur, have := g.upto[k]; !have || cur.Cmp(m) < 0 {
					g.upto[k] = m
				}
			}
			return true
		case "maxed":
			return walk(s.Src)
		case "inorder":
			for _, x := range s.Srcs {
				if !walk(x) {
					return false
				}
			}
			return true
		}
		return false
	}
	if st.Src.Src != nil {
		if !walk(st.Src.Src) {
			return g, false
		}
	}
	for _, a := range st.Src.Allot {
		if !walk(a.S) {
			return g, false
		}
	}
	return g, true
}

func perSendFloor(r *vx.Run, in nsx.Input, ast *nsx.Script, ob runObs, size int) {
	var sends []sendGrants
	var stmtNo []int
	for i, st := range ast.Stmts {
		switch st.K {
		case "send":
			g, ok := literalSend(st)
			if !ok {
				return
			}
			sends = append(sends, g)
			stmtNo = append(stmtNo, i+1)
		case "fail":
			return
		}
		// print / save / metadata statements append no posting (proved: the group of a non-send statement is empty)
	}
	if len(sends) == 0 {
		return
	}
	// pass 1: cut. group[i] = index into sends of the send posting i belongs to (-1: amount 0, not attributed)
	group := make([]int, len(ob.Postings))
	pos := 0
	for j, g := range sends {
		moved := new(big.Int)
		for moved.Cmp(g.amount) < 0 {
			if pos >= len(ob.Postings) {
				return // the postings do not add up to the stated amounts: conservation's business (C03), no grouping
			}
			p := ob.Postings[pos]
			amt := (*big.Int)(p.Amount)
			switch {
			case amt.Sign() < 0:
				return
			case amt.Sign() == 0:
				group[pos] = -1
			default:
				if p.Asset != g.asset {
					return
				}
				moved.Add(moved, amt)
				if moved.Cmp(g.amount) > 0 {
					return
				}
				group[pos] = j
			}
			pos++
		}
	}
	for ; pos < len(ob.Postings); pos++ {
		if (*big.Int)(ob.Postings[pos].Amount).Sign() != 0 {
			return
		}
		group[pos] = -1
	}
	// pass 2: replay on the store balances with the grants of the posting's own send
	running := map[string]*big.Int{}
	get := func(a, s string) *big.Int {
		k := a + "\x00" + s
		if v, ok := running[k]; ok {
			return v
		}
		b := big.NewInt(0)
		if m, ok := in.Balances[a]; ok {
			if v, ok := m[s]; ok {
				b, _ = new(big.Int).SetString(v, 10)
			}
		}
		running[k] = b
		return b
	}
	for i, p := range ob.Postings {
		amt := (*big.Int)(p.Amount)
		if j := group[i]; j >= 0 && p.Source != "world" && !sends[j].unb[p.Source] {
			bal := get(p.Source, p.Asset)
			granted := big.NewInt(0)
			if g, ok := sends[j].upto[p.Source+"\x00"+p.Asset]; ok && g.Sign() > 0 {
				granted = g
			}
			avail := new(big.Int).Add(bal, granted)
			if avail.Sign() < 0 {
				avail = big.NewInt(0)
			}
			if amt.Cmp(avail) > 0 {
				r.FailP("C01", "overdraw:per-send", in, fmt.Sprintf("statement %d (send [%s %s]): posting %d takes %s %s from %s, whose balance at that point (store balance and all earlier postings of the script replayed) is %s and to which this send grants an overdraft of %s: at most %s may be taken",
					stmtNo[j], sends[j].asset, sends[j].amount, i, amt, p.Asset, p.Source, bal, granted, avail), size)
				return
			}
		}
		running[p.Source+"\x00"+p.Asset] = new(big.Int).Sub(get(p.Source, p.Asset), amt)
		running[p.Destination+"\x00"+p.Asset] = new(big.Int).Add(get(p.Destination, p.Asset), amt)
	}
}

// statedTotals: per asset, the sum of the literal amounts of the sends, when every send is `send [ASSET n]` with a
// literal asset and no destination keeps anything back
func statedTotals(ast *nsx.Script) (map[string]*big.Int, bool) {
	tot := map[string]*big.Int{}
	for _, st := range ast.Stmts {
		if st.K != "send" {
			continue
		}
		if st.All != nil || st.Mon == nil || st.Mon.K != "mon" || st.Mon.Asset.K != "asset" || leavesLeftover(nsx.Kod{D: st.Dest}) {
			return nil, false
		}
		n, ok := new(big.Int).SetString(st.Mon.Text, 10)
		if !ok {
			return nil, false
		}
		if tot[st.Mon.Asset.Text] == nil {
			tot[st.Mon.Asset.Text] = big.NewInt(0)
		}
		tot[st.Mon.Asset.Text].Add(tot[st.Mon.Asset.Text], n)
	}
	return tot, len(tot) > 0
}

func hasFallback(s *nsx.Source) bool {
	switch s.K {
	case "account":
		return s.Ov == "unbounded" || (s.Acc.K == "acc" && s.Acc.Text == "world")
	case "inorder":
		return len(s.Srcs) > 0 && hasFallback(s.Srcs[len(s.Srcs)-1])
	}
	return false
}

func nonNegLiteral(e *nsx.Expr) bool { return e != nil && e.K == "mon" }

func allUnbounded(ast *nsx.Script) bool {
	n := 0
	for _, st := range ast.Stmts {
		switch st.K {
		case "send":
			n++
			if st.All != nil || !nonNegLiteral(st.Mon) {
				return false
			}
			if st.Src.Src != nil {
				if !hasFallback(st.Src.Src) {
					return false
				}
			} else {
				for _, a := range st.Src.Allot {
					if !hasFallback(a.S) {
						return false
					}
				}
			}
		case "save", "fail":
			return false
		}
	}
	return n > 0
}

// leavesLeftover: the entry does not send everything it is given (kept, or a destination containing kept)
func leavesLeftover(k nsx.Kod) bool {
	if k.Kept {
		return true
	}
	d := k.D
	switch d.K {
	case "inorder":
		for _, m := range d.Maxes {
			if leavesLeftover(m.K) {
				return true
			}
		}
		return leavesLeftover(*d.Rem)
	case "allot":
		for _, a := range d.Allot {
			if leavesLeftover(a.K) {
				return true
			}
		}
	}
	return false
}

// keptThenMax: some ordered destination has an entry that keeps funds back followed by a later entry
func keptThenMax(ast *nsx.Script) bool {
	var walk func(d *nsx.Dest) bool
	walkK := func(k nsx.Kod) bool { return !k.Kept && walk(k.D) }
	walk = func(d *nsx.Dest) bool {
		switch d.K {
		case "inorder":
			kept := false
			for _, m := range d.Maxes {
				if kept {
					return true
				}
				if leavesLeftover(m.K) {
					kept = true
				}
				if walkK(m.K) {
					return true
				}
			}
			return walkK(*d.Rem)
		case "allot":
			for _, a := range d.Allot {
				if walkK(a.K) {
					return true
				}
			}
		}
		return false
	}
	for _, st := range ast.Stmts {
		if st.K == "send" && walk(st.Dest) {
			return true
		}
	}
	return false
}

// C08/C12: a compiled program is reusable and recompilation is deterministic
func sameObs(a, b runObs) bool {
	if a.Stage != b.Stage || a.Class != b.Class || (a.Panic == "") != (b.Panic == "") || len(a.Postings) != len(b.Postings) {
		return false
	}
	for i := range a.Postings {
		x, y := a.Postings[i], b.Postings[i]
		if x.Source != y.Source || x.Destination != y.Destination || x.Asset != y.Asset || (*big.Int)(x.Amount).Cmp((*big.Int)(y.Amount)) != 0 {
			return false
		}
	}
	return true
}

// the engine's compilation cache (command.Compiler: gcache keyed by a digest of the text), in three sizes; every
// script of the run goes through all of them and must get what a fresh compilation gives
var caches = []*command.Compiler{command.NewCompiler(1), command.NewCompiler(2), command.NewCompiler(64)}

func sameProgram(a, b *program.Program) bool {
	if (a == nil) != (b == nil) {
		return false
	}
	if a == nil {
		return true
	}
	if string(a.Instructions) != string(b.Instructions) || len(a.Resources) != len(b.Resources) {
		return false
	}
	n1, n2 := nsx.NewNames(), nsx.NewNames()
	return n1.Program(a) == n2.Program(b)
}

func cacheCheck(r *vx.Run, in nsx.Input, script string) {
	fresh, ferr, pan := compileSafe(script)
	if pan != "" {
		return
	}
	for i, c := range caches {
		got, err := c.Compile(script)
		if (err == nil) != (ferr == nil) || (err == nil && !sameProgram(got, fresh)) {
			in2 := in
			in2.Script = script
			r.FailP("C08", fmt.Sprintf("cache:differs-from-fresh-compilation:size-%d", []int{1, 2, 64}[i]), in2,
				"command.Compiler returned a program (or error) other than compiler.Compile of the same text", len(script))
			// the same fact read as C12's last clause: what an earlier execution left in the engine (its cache entry)
			// changes what a later request runs
			r.FailP("C12", "residue:an-earlier-script-left-in-the-cache-is-run-for-another-text", in2,
				"the engine's compiler hands this text the program (or error) of a different text compiled before", len(script))
		}
	}
}

// whitespace variants of a script: other texts, possibly other programs, that a cache must keep apart
func variants(script string) []string {
	var vs []string
	if i := strings.Index(script, "\"a b\""); i >= 0 {
		vs = append(vs, script[:i]+"\"a  b\""+script[i+5:])
	}
	if strings.Contains(script, "\n  ") {
		vs = append(vs, strings.ReplaceAll(script, "\n  ", "\n "))
	}
	vs = append(vs, strings.Join(strings.Fields(script), " "))
	return vs
}

// destKeeps: does the destination keep anything back (a `kept` anywhere in it)?
func destKeeps(d *nsx.Dest) bool {
	if d == nil {
		return false
	}
	kod := func(k nsx.Kod) bool { return k.Kept || destKeeps(k.D) }
	for _, m := range d.Maxes {
		if kod(m.K) {
			return true
		}
	}
	if d.Rem != nil && kod(*d.Rem) {
		return true
	}
	for _, a := range d.Allot {
		if kod(a.K) {
			return true
		}
	}
	return false
}

// destMayCredit: may the destination credit the account (it names it, or names an account through a variable)?
func destMayCredit(d *nsx.Dest, acc string) bool {
	if d == nil {
		return false
	}
	if d.K == "account" {
		return d.E == nil || d.E.K != "acc" || d.E.Text == acc
	}
	kod := func(k nsx.Kod) bool { return !k.Kept && destMayCredit(k.D, acc) }
	for _, m := range d.Maxes {
		if kod(m.K) {
			return true
		}
	}
	if d.Rem != nil && kod(*d.Rem) {
		return true
	}
	for _, a := range d.Allot {
		if kod(a.K) {
			return true
		}
	}
	return false
}

// portionSpellings (C03: "a send moves exactly what it says"): the fraction a portion literal or variable DENOTES is
// decided by its text; the model receives portions already parsed by the real parser, so that parser is checked here
// against an independent reading of the text: d.ddd% = digits / 10^(fraction digits) / 100, n/d = n/d.
func portionSpellings(r *vx.Run) {
	pct := []string{"0%", "1%", "50%", "100%", "12.5%", "2.05%", "10.01%", "0.05%", "1.005%", "00.50%", "99.999%", "33.333333333333333333%", "0.0%", "7.10%", "100.0%", "100.01%", "250%"}
	frac := []string{"1/2", "1/3", "3/7", "0/1", "7/7", "2/4", "10/100", "3/2", "1/0", "007/14", "1 / 2", "1 /2", "123456789012345678901234567890/246913578024691357802469135780"}
	for _, sp := range append(pct, frac...) {
		var want *big.Rat
		if strings.HasSuffix(sp, "%") {
			body := strings.TrimSuffix(sp, "%")
			ip, fp, _ := strings.Cut(body, ".")
			num, ok := new(big.Int).SetString(ip+fp, 10)
			if ok {
				den := new(big.Int).Exp(big.NewInt(10), big.NewInt(int64(len(fp)+2)), nil)
				want = new(big.Rat).SetFrac(num, den)
			}
		} else {
			parts := strings.Split(strings.ReplaceAll(sp, " ", ""), "/")
			n, ok1 := new(big.Int).SetString(parts[0], 10)
			d, ok2 := new(big.Int).SetString(parts[1], 10)
			if ok1 && ok2 && d.Sign() != 0 {
				want = new(big.Rat).SetFrac(n, d)
			}
		}
		in := map[string]any{"portion": sp}
		var got *machine.Portion
		var err error
		pan := ""
		func() {
			defer func() {
				if x := recover(); x != nil {
					pan = fmt.Sprint(x)
				}
			}()
			got, err = machine.ParsePortionSpecific(sp)
		}()
		valid := want != nil && want.Sign() >= 0 && want.Cmp(big.NewRat(1, 1)) <= 0
		switch {
		case pan != "":
			r.FailP("C12", "panic:parse-portion", in, pan, len(sp))
		case valid && (err != nil || got == nil || got.Specific == nil):
			r.FailP("C03", "portion-text-refused", in, fmt.Sprint(err), len(sp))
		case valid && got.Specific.Cmp(want) != 0:
			r.FailP("C03", "portion-text-read-as-another-fraction", in, fmt.Sprintf("%q denotes %s, the parser reads %s", sp, want.RatString(), got.Specific.RatString()), len(sp))
		case !valid && err == nil && got != nil && got.Specific != nil && (want == nil || got.Specific.Cmp(want) != 0 || got.Specific.Cmp(big.NewRat(1, 1)) > 0):
			r.FailP("C03", "portion-text-outside-0-1-accepted", in, got.Specific.RatString(), len(sp))
		}
		r.Count("portion-spelling")
	}
}

// valueSpellings: the same for the other variable types whose text denotes a number: the model receives variable
// values already parsed by the real `NewValueFromString` (glue), so what that parser reads is checked here against the
// text: a monetary is `<asset> <decimal digits>`, a number is decimal digits; an account / asset / string is its text.
func valueSpellings(r *vx.Run) {
	digits := []string{"0", "7", "100", "0100", "007", "08", "00", "18446744073709551616", "18446744073709551617", "340282366920938463463374607431768211457", "1000000000000000000000000000000"}
	for _, d := range digits {
		want, _ := new(big.Int).SetString(d, 10)
		for _, typ := range []string{"monetary", "number"} {
			text, mt := "USD "+d, machine.TypeMonetary
			if typ == "number" {
				text, mt = d, machine.TypeNumber
			}
			in := map[string]any{"type": typ, "text": text}
			var v machine.Value
			var err error
			pan := ""
			func() {
				defer func() {
					if x := recover(); x != nil {
						pan = fmt.Sprint(x)
					}
				}()
				v, err = machine.NewValueFromString(mt, text)
			}()
			if pan != "" {
				r.FailP("C12", "panic:parse-"+typ, in, pan, len(text))
				continue
			}
			if err != nil {
				// leading zeros: JSON numbers do not allow them (number); a monetary amount is plain digits
				if typ == "monetary" || !(len(d) > 1 && d[0] == '0') {
					r.FailP("C03", "value-text-refused:"+typ, in, err.Error(), len(text))
				}
				continue
			}
			var got *big.Int
			switch x := v.(type) {
			case machine.Monetary:
				got = (*big.Int)(x.Amount)
				if string(x.Asset) != "USD" {
					r.FailP("C03", "value-text-read-as-another-value:monetary-asset", in, string(x.Asset), len(text))
				}
			case *machine.MonetaryInt:
				got = (*big.Int)(x)
			}
			if got == nil || got.Cmp(want) != 0 {
				r.FailP("C03", "value-text-read-as-another-value:"+typ, in, fmt.Sprintf("%q denotes %s, the parser reads %v", text, want, got), len(text))
			}
			r.Count("value-spelling")
		}
	}
	for _, text := range []string{"a", "a:b", "world", "World", "users:001:wallet", "x_y", "A-1"} {
		if v, err := machine.NewValueFromString(machine.TypeAccount, text); err == nil && string(v.(machine.AccountAddress)) != text {
			r.FailP("C03", "value-text-read-as-another-value:account", map[string]any{"text": text}, fmt.Sprint(v), len(text))
		}
	}
	for _, text := range []string{"USD", "EUR/2", "COIN", "BTC/8"} {
		if v, err := machine.NewValueFromString(machine.TypeAsset, text); err != nil || string(v.(machine.Asset)) != text {
			r.FailP("C03", "value-text-read-as-another-value:asset", map[string]any{"text": text}, fmt.Sprint(v, err), len(text))
		}
	}
}

type firstOb struct {
	in nsx.Input
	ob runObs
}

// the first executions of the run (corpus entries and canaries first), re-executed at the end of the run
var firstObs []firstOb

func one(r *vx.Run, in nsx.Input) {
	cacheCheck(r, in, in.Script)
	for _, v := range variants(in.Script) {
		cacheCheck(r, in, v)
	}
	cacheCheck(r, in, in.Script)
	ob := observe(in)
	if len(firstObs) < 60 {
		firstObs = append(firstObs, firstOb{in, ob})
	}
	ast := nsx.Parse(in.Script)
	oracles(r, in, ast, ob)
	if ob.Prog != nil && ob.Panic == "" {
		again := runProgram(ob.Prog, in) // the same *Program value, as a cache would hand out
		if !sameObs(ob, again) {
			r.FailP("C12", "residue:second-run-differs", in, fmt.Sprintf("first %s/%s second %s/%s", ob.Stage, ob.Class, again.Stage, again.Class), len(in.Script))
			r.FailP("C08", "cache:second-run-differs", in, fmt.Sprintf("first %s/%s second %s/%s", ob.Stage, ob.Class, again.Stage, again.Class), len(in.Script))
		}
	}
	r.Count("stage:" + ob.Stage)
	if ob.Class != "" {
		r.Count("class:" + ob.Class)
	}
	if ob.Panic != "" {
		r.Count("panic")
	}
	if ast == nil {
		r.Count("syntax-error")
		// the harness's own run of the generated lexer + parser (its own error listener) found lexical or syntax errors:
		// such a text is not a program; the compiler must refuse it, whatever is left after skipping the bad characters
		if ob.Stage != "compile" && ob.Panic == "" {
			r.FailP("C08", "text-with-lexical-or-syntax-errors-was-compiled", in, fmt.Sprintf("stage %s class %s postings %v", ob.Stage, ob.Class, ob.Postings), len(in.Script))
			r.FailP("C12", "text-with-lexical-or-syntax-errors-was-compiled", in, fmt.Sprintf("stage %s class %s", ob.Stage, ob.Class), len(in.Script))
		}
		r.Case("", in, in.Script, false)
		return
	}
	key, _ := json.Marshal(in)
	nontrivial := ob.Stage == "done" && len(ob.Postings) > 0 || ob.Class == "EInsufficient"
	r.Case(coqCase(in, ast, ob), in, string(key), nontrivial)
}

// boundaryFamily: small systematic scripts around the limits of what an account may give: two or three takes from
// the same account with none / bounded / unbounded overdraft, amounts at balance+overdraft -1, 0, +1, with an
// optional credit in between, as two sends, as an ordered source, and as two portions of one allotment source.
func boundaryFamily() []nsx.Input {
	var out []nsx.Input
	ovs := []string{"", " allowing overdraft up to [USD 5]", " allowing unbounded overdraft"}
	send := func(amt int64, src, dst string) string {
		if amt < 0 {
			amt = 0
		}
		return fmt.Sprintf("send [USD %d] (\n  source = %s\n  destination = %s\n)\n", amt, src, dst)
	}
	for _, b := range []int64{-5, 0, 10} {
		bal := map[string]map[string]string{"a": {"USD": fmt.Sprint(b)}, "c": {"USD": "4"}}
		for i1, ov1 := range ovs {
			for i2, ov2 := range ovs {
				lim1 := b
				if i1 == 1 {
					lim1 += 5
				}
				x1s := []int64{0, 3, lim1}
				if i1 == 2 {
					x1s = append(x1s, lim1+7) // the unbounded source really goes below its balance
				}
				for _, x1 := range x1s {
					for _, d := range []int64{-1, 0, 1, 5, 6} {
						lim2 := b - x1
						if i2 == 1 {
							lim2 += 5
						}
						x2 := lim2 + d
						if x2 < 0 {
							continue
						}
						two := send(x1, "@a"+ov1, "@b") + send(x2, "@a"+ov2, "@b")
						out = append(out, nsx.Input{Script: two, Vars: map[string]string{}, Balances: bal, Meta: map[string]map[string]string{}, Note: "boundary:two-sends"})
						if d == 0 {
							mid := send(x1, "@a"+ov1, "@b") + send(2, "@world", "@a") + send(x2+2, "@a"+ov2, "@b")
							out = append(out, nsx.Input{Script: mid, Vars: map[string]string{}, Balances: bal, Meta: map[string]map[string]string{}, Note: "boundary:credit-between"})
						}
					}
				}
				if i1 == 2 {
					continue
				}
				for _, x := range []int64{b + 4, b + 5, b + 6, b + 9, b + 10, b + 11} {
					if x < 0 {
						continue
					}
					ordered := fmt.Sprintf("send [USD %d] (\n  source = {\n    max [USD 3] from @a%s\n    @c\n  }\n  destination = @b\n)\n", x, ov1) + send(x, "@a"+ov2, "@b")
					out = append(out, nsx.Input{Script: ordered, Vars: map[string]string{}, Balances: bal, Meta: map[string]map[string]string{}, Note: "boundary:ordered"})
					allot := fmt.Sprintf("send [USD %d] (\n  source = {\n    1/2 from @a%s\n    1/2 from @a%s\n  }\n  destination = @b\n)\n", x, ov1, ov2)
					out = append(out, nsx.Input{Script: allot, Vars: map[string]string{}, Balances: bal, Meta: map[string]map[string]string{}, Note: "boundary:allotment-same-account"})
				}
			}
		}
	}
	// ordered sources that cap an account and come back to it later, another account in between
	for _, b := range []int64{0, 4, 100} {
		for _, cb := range []int64{0, 10} {
			bal := map[string]map[string]string{"a": {"USD": fmt.Sprint(b)}, "c": {"USD": fmt.Sprint(cb)}}
			for _, amt := range []int64{3, 5, 6, 12, 15, 16, 110} {
				for _, shape := range []string{
					"    max [USD 5] from @a\n    @c\n    @a\n",
					"    max [USD 5] from @a\n    max [USD 3] from @c\n    max [USD 5] from @a\n    @c\n",
					"    @c\n    max [USD 5] from @a\n    @c\n    @a\n",
					"    max [USD 5] from {\n      @a\n      @c\n    }\n    @a\n",
				} {
					sc := fmt.Sprintf("send [USD %d] (\n  source = {\n%s  }\n  destination = @b\n)\n", amt, shape)
					out = append(out, nsx.Input{Script: sc, Vars: map[string]string{}, Balances: bal, Meta: map[string]map[string]string{}, Note: "boundary:capped-ordered-source-revisits-account"})
					// and a later send that relies on what the first one handed back to the account
					for _, later := range []string{"send [USD *] (\n  source = @a\n  destination = @d\n)\n", fmt.Sprintf("send [USD %d] (\n  source = @a\n  destination = @d\n)\n", b+50)} {
						out = append(out, nsx.Input{Script: sc + later, Vars: map[string]string{}, Balances: bal, Meta: map[string]map[string]string{}, Note: "boundary:capped-ordered-source-revisits-account"})
					}
					// percentages with a zero right after the decimal point
					if amt == 110 {
						pc := fmt.Sprintf("send [USD 10000] (\n  source = @world\n  destination = {\n    %s to @b\n    remaining to @d\n  }\n)\n", []string{"2.05%", "10.01%", "0.05%", "1.005%"}[len(out)%4])
						out = append(out, nsx.Input{Script: pc, Vars: map[string]string{}, Balances: bal, Meta: map[string]map[string]string{}, Note: "boundary:capped-ordered-source-revisits-account"})
					}
				}
			}
		}
	}
	// a portioned source with @world in FRONT of an ordinary account, part of the funding handed back (kept), then a
	// later send that draws on the account: what was handed back is the account's again
	for _, kept := range []string{"    max [USD 10] to @b\n    remaining kept\n", "    max [USD 60] to @b\n    remaining kept\n", "    remaining to @b\n"} {
		for _, second := range []string{"send [USD *] (\n  source = @a\n  destination = @d\n)\n", "send [USD 80] (\n  source = @a\n  destination = @d\n)\n", "send [USD 51] (\n  source = @a\n  destination = @d\n)\n"} {
			for _, srcs := range []string{"    50% from @world\n    50% from @a\n", "    50% from @a\n    50% from @world\n", "    1/4 from @world\n    1/4 from @a\n    remaining from @c\n"} {
				sc := "send [USD 100] (\n  source = {\n" + srcs + "  }\n  destination = {\n" + kept + "  }\n)\n" + second
				bal := map[string]map[string]string{"a": {"USD": "100"}, "c": {"USD": "100"}}
				out = append(out, nsx.Input{Script: sc, Vars: map[string]string{}, Balances: bal, Meta: map[string]map[string]string{}, Note: "boundary:world-in-front-of-a-portioned-source-kept"})
			}
		}
	}
	// a valid program with one foreign character or stray token added: not a program any more
	base := "send [USD 100] (\n  source = @world\n  destination = @alice\n)\n"
	for _, junk := range []string{"[USD 100.]", "[USD 100€]", "[USD 100]!", "@alice!", "@alice;", "@alice #", "@world extra", "[USD 1_00]", "[USD 0x10]", "[USD 1e3]", "[usd 100]", "[USD 100]]", "@alice\x00", "@alice`", "[USD 100 ]~"} {
		for _, sc := range []string{strings.Replace(base, "[USD 100]", junk, 1), strings.Replace(base, "@alice", junk, 1), base + junk + "\n"} {
			if sc != base {
				out = append(out, nsx.Input{Script: sc, Vars: map[string]string{}, Balances: map[string]map[string]string{}, Meta: map[string]map[string]string{}, Note: "boundary:foreign-character"})
			}
		}
	}
	// number literals as a script may spell them: leading zeros are decimal digits, nothing else is a number
	for _, lit := range []string{"0", "00", "007", "0100", "08", "09", "010", "100", "0000000000000000000001", "18446744073709551616", "18446744073709551617", "36893488147419103233", "340282366920938463463374607431768211457"} {
		sc := "send [USD " + lit + "] (\n  source = @world\n  destination = @alice\n)\n"
		out = append(out, nsx.Input{Script: sc, Vars: map[string]string{}, Balances: map[string]map[string]string{}, Meta: map[string]map[string]string{}, Note: "boundary:number-literal"})
		sc = "send [USD " + lit + "] (\n  source = @a\n  destination = @alice\n)\n"
		out = append(out, nsx.Input{Script: sc, Vars: map[string]string{}, Balances: map[string]map[string]string{"a": {"USD": "5"}}, Meta: map[string]map[string]string{}, Note: "boundary:number-literal"})
		sc = "set_tx_meta(\"n\", " + lit + " + 1)\nsend [USD 1] (\n  source = @world\n  destination = @alice\n)\n"
		out = append(out, nsx.Input{Script: sc, Vars: map[string]string{}, Balances: map[string]map[string]string{}, Meta: map[string]map[string]string{}, Note: "boundary:number-literal"})
		sc = "send [USD 10] (\n  source = @a allowing overdraft up to [USD " + lit + "] - [USD 3]\n  destination = @alice\n)\n"
		out = append(out, nsx.Input{Script: sc, Vars: map[string]string{}, Balances: map[string]map[string]string{"a": {"USD": "5"}}, Meta: map[string]map[string]string{}, Note: "boundary:number-literal"})
	}
	// an account that is source AND destination of one send, then a later send that relies on what came back
	for _, b := range []int64{0, 30, 100} {
		bal := map[string]map[string]string{"a": {"USD": fmt.Sprint(b)}, "c": {"USD": "50"}}
		for _, first := range []string{
			"send [USD 30] (\n  source = @a\n  destination = @a\n)\n",
			"send [USD 60] (\n  source = {\n    @a\n    @c\n  }\n  destination = @a\n)\n",
			"send [USD 40] (\n  source = @c\n  destination = {\n    50% to @c\n    remaining to @a\n  }\n)\n",
			"send [USD 30] (\n  source = @a allowing overdraft up to [USD 50]\n  destination = @a\n)\n",
		} {
			for _, second := range []string{"send [USD *] (\n  source = @a\n  destination = @b\n)\n", "send [USD 100] (\n  source = @a\n  destination = @b\n)\n", "send [USD 31] (\n  source = @a\n  destination = @b\n)\n", ""} {
				out = append(out, nsx.Input{Script: first + second, Vars: map[string]string{}, Balances: bal, Meta: map[string]map[string]string{}, Note: "boundary:self-posting-then-spend"})
			}
		}
	}
	// the same source -> destination pair twice in one script, the source refilled in between: the postings stay in the order
	// in which they were checked
	for _, amts := range [][3]int64{{50, 50, 50}, {50, 20, 60}, {10, 25, 25}, {0, 5, 5}} {
		sc := send(amts[0], "@a", "@b") + send(amts[1], "@c", "@a") + send(amts[2], "@a", "@b")
		out = append(out, nsx.Input{Script: sc, Vars: map[string]string{}, Balances: map[string]map[string]string{"a": {"USD": "50"}, "c": {"USD": "50"}}, Meta: map[string]map[string]string{}, Note: "boundary:same-pair-twice-with-refill"})
		sc = send(amts[0], "@a", "@b") + send(amts[1], "@world", "@a") + send(amts[2], "@a", "@b") + send(amts[0], "@a", "@b")
		out = append(out, nsx.Input{Script: sc, Vars: map[string]string{}, Balances: map[string]map[string]string{"a": {"USD": "50"}}, Meta: map[string]map[string]string{}, Note: "boundary:same-pair-twice-with-refill"})
	}
	// accounts whose address merely STARTS like the world account are ordinary accounts
	for _, acc := range []string{"world:fees", "world:reserve", "worldwide", "world_", "worl"} {
		for _, sc := range []string{
			"send [USD 100] (\n  source = @" + acc + "\n  destination = @b\n)\n",
			"send [USD 50] (\n  source = {\n    @a\n    @" + acc + "\n  }\n  destination = @b\n)\n",
			"send [USD 15] (\n  source = @" + acc + " allowing overdraft up to [USD 5]\n  destination = @b\n)\n",
			"send [USD *] (\n  source = @" + acc + "\n  destination = @b\n)\n",
		} {
			out = append(out, nsx.Input{Script: sc, Vars: map[string]string{}, Balances: map[string]map[string]string{"a": {"USD": "30"}, acc: {"USD": "10"}}, Meta: map[string]map[string]string{}, Note: "boundary:world-like-account"})
		}
	}
	// two monetary literals of one asset whose amounts agree in their low 64 bits (or low 32), as amount, cap and overdraft
	for _, pair := range [][2]string{{"5", "18446744073709551621"}, {"18446744073709551621", "5"}, {"0", "18446744073709551616"}, {"7", "4294967303"}, {"5", "340282366920938463463374607431768211461"}} {
		bal := map[string]map[string]string{"a": {"USD": "100"}, "c": {"USD": "36893488147419103232"}}
		for _, sc := range []string{
			"send [USD " + pair[0] + "] (\n  source = @c\n  destination = @b\n)\nsend [USD " + pair[1] + "] (\n  source = @c\n  destination = @d\n)\n",
			"send [USD " + pair[1] + "] (\n  source = {\n    max [USD " + pair[0] + "] from @a\n    @world\n  }\n  destination = @b\n)\n",
			"send [USD " + pair[0] + "] (\n  source = @a allowing overdraft up to [USD " + pair[1] + "]\n  destination = @b\n)\nsend [USD 200] (\n  source = @a allowing overdraft up to [USD " + pair[0] + "]\n  destination = @b\n)\n",
			"set_tx_meta(\"m\", [USD " + pair[0] + "])\nsend [USD " + pair[1] + "] (\n  source = @world\n  destination = @b\n)\n",
		} {
			out = append(out, nsx.Input{Script: sc, Vars: map[string]string{}, Balances: bal, Meta: map[string]map[string]string{}, Note: "boundary:literals-equal-in-low-bits"})
		}
	}
	// accounts whose name is `world` up to letter case are ordinary, funded accounts — as literals and through variables
	for _, acc := range []string{"World", "WORLD", "wOrld"} {
		bal := map[string]map[string]string{acc: {"USD": "100"}, "b": {"USD": "50"}}
		for _, sc := range []string{
			"send [USD *] (\n  source = @" + acc + "\n  destination = @d\n)\n",
			"send [USD 130] (\n  source = @" + acc + "\n  destination = @d\n)\n",
			"send [USD 30] (\n  source = {\n    @" + acc + "\n    @b\n  }\n  destination = @d\n)\n",
			"vars {\n  account $first\n}\nsend [USD 30] (\n  source = {\n    $first\n    @b\n  }\n  destination = @d\n)\n",
			"vars {\n  account $first\n}\nsend [USD 130] (\n  source = $first\n  destination = @d\n)\n",
		} {
			in := nsx.Input{Script: sc, Vars: map[string]string{}, Balances: bal, Meta: map[string]map[string]string{}, Note: "boundary:world-letter-case"}
			if strings.Contains(sc, "$first") {
				in.Vars = map[string]string{"first": acc}
			}
			out = append(out, in)
		}
	}
	// save between two takes: what a save keeps back is never handed out again, whatever the sign of the balance
	for _, b := range []int64{-5, 0, 10} {
		bal := map[string]map[string]string{"a": {"USD": fmt.Sprint(b)}, "c": {"USD": "4"}}
		for i1, ov1 := range ovs {
			for _, ov2 := range ovs[:2] {
				lim1 := b
				if i1 == 1 {
					lim1 += 5
				}
				for _, x1 := range []int64{0, lim1} {
					if x1 < 0 {
						continue
					}
					for _, sv := range []string{"[USD 0]", "[USD 1]", "[USD 100]", "[USD *]"} {
						for _, d := range []int64{-1, 0, 1, 4, 5, 6, 10} {
							x2 := b - x1 + d
							if x2 < 0 {
								continue
							}
							sc := send(x1, "@a"+ov1, "@b") + "save " + sv + " from @a\n" + send(x2, "@a"+ov2, "@b")
							out = append(out, nsx.Input{Script: sc, Vars: map[string]string{}, Balances: bal, Meta: map[string]map[string]string{}, Note: "boundary:save-between"})
						}
						// saved, then credited, then spent; and the next script must not see anything of it
						sc := "save " + sv + " from @a\n" + send(7, "@world", "@a") + send(3, "@a"+ov2, "@b")
						out = append(out, nsx.Input{Script: sc, Vars: map[string]string{}, Balances: bal, Meta: map[string]map[string]string{}, Note: "boundary:save-then-credit"})
						sc = send(x1, "@a"+ov1, "@b") + "save " + sv + " from @a\n" + send(7, "@c", "@a") + send(2, "@a", "@c")
						out = append(out, nsx.Input{Script: sc, Vars: map[string]string{}, Balances: bal, Meta: map[string]map[string]string{}, Note: "boundary:save-then-credit"})
					}
				}
			}
		}
	}
	// variable values as a client or the metadata table may spell them: every declarable type x well-formed and
	// malformed spellings, given directly and through meta(); the script uses the variable where its type allows
	uses := map[string]string{
		"account":  "send [USD 1] (\n  source = @world\n  destination = $v\n)\n",
		"asset":    "send [$v 1] (\n  source = @world\n  destination = @b\n)\n",
		"number":   "set_tx_meta(\"n\", $v)\nsend [USD 1] (\n  source = @world\n  destination = @b\n)\n",
		"monetary": "send $v (\n  source = @world\n  destination = @b\n)\n",
		"portion":  "send [USD 10] (\n  source = @world\n  destination = {\n    $v to @b\n    remaining to @c\n  }\n)\n",
		"string":   "set_tx_meta(\"s\", $v)\n",
	}
	spellings := []string{"", " ", "0", "1", "100", "-1", "1.5", "1e3", "007", "18446744073709551616", "340282366920938463463374607431768211456",
		"USD", "USD 1", "USD 0", "USD -5", "USD 1 2", " USD 5", "USD  5", "USD 5 ", "USD 1.5", "5 USD", "USD/2 10", "USD/2 0010", "usd 5", "USD/ 5",
		"USD 99999999999999999999999999999999", "EUR/2", "USD/99999999999999999999", "a", "a:b", "a::b", ":", "a b", "@a", "world", "WORLD", "é",
		"1/2", "3/2", "1/0", "0/1", "-1/2", "1/", "/2", "50%", "101%", "0%", "100%", "12.5%", "%", "0.5", "null", "true", "[]", "{}", "\"x\"", "\\"}
	for _, ty := range []string{"account", "asset", "number", "monetary", "portion", "string"} {
		for _, sp := range spellings {
			sc := "vars {\n  " + ty + " $v\n}\n" + uses[ty]
			out = append(out, nsx.Input{Script: sc, Vars: map[string]string{"v": sp}, Balances: map[string]map[string]string{}, Meta: map[string]map[string]string{}, Note: "boundary:variable-spelling"})
			sc = "vars {\n  " + ty + " $v = meta(@cfg, \"k\")\n}\n" + uses[ty]
			out = append(out, nsx.Input{Script: sc, Vars: map[string]string{}, Balances: map[string]map[string]string{}, Meta: map[string]map[string]string{"cfg": {"k": sp}}, Note: "boundary:variable-spelling-meta"})
		}
	}
	// many ordered sources (fundings of more than a dozen parts) under destinations that keep something back
	for _, n := range []int{3, 12, 13, 14, 20} {
		var srcs strings.Builder
		bal := map[string]map[string]string{}
		for i := 1; i <= n; i++ {
			fmt.Fprintf(&srcs, "    @s%02d\n", i)
			bal[fmt.Sprintf("s%02d", i)] = map[string]string{"USD": "10"}
		}
		for _, kept := range []int{0, 5, 35} {
			for _, amt := range []int{10*n - 7, 10 * n} {
				sc := fmt.Sprintf("send [USD %d] (\n  source = {\n%s  }\n  destination = {\n    max [USD %d] kept\n    remaining to @x\n  }\n)\n", amt, srcs.String(), kept)
				out = append(out, nsx.Input{Script: sc, Vars: map[string]string{}, Balances: bal, Meta: map[string]map[string]string{}, Note: "boundary:many-ordered-sources-kept"})
				sc2 := fmt.Sprintf("send [USD %d] (\n  source = {\n%s  }\n  destination = {\n    1/3 kept\n    remaining to {\n      max [USD 7] to @y\n      remaining to @x\n    }\n  }\n)\n", amt, srcs.String())
				out = append(out, nsx.Input{Script: sc2, Vars: map[string]string{}, Balances: bal, Meta: map[string]map[string]string{}, Note: "boundary:many-ordered-sources-kept"})
			}
		}
	}
	return out
}

var soupTokens = []string{"vars", "{", "}", "(", ")", "[", "]", "send", "source", "destination", "=", "max", "from", "to", "kept",
	"remaining", "allowing overdraft up to", "allowing unbounded overdraft", "save", "print", "fail", "set_tx_meta", "set_account_meta",
	"meta", "balance", "account", "monetary", "portion", "number", "string", "asset", "@a", "@world", "@x:y", "$v", "$w", "USD", "EUR/2",
	"1/2", "50%", "1/0", "100%", "0", "7", "18446744073709551617", "\"k\"", "\"a b\"", ",", "+", "-", "*", "\n", "\n", "\n", "//c\n", "/*", "*/", "%", "\t", "\r\n"}

func tokenSoup(g *vx.Rng) string {
	var b strings.Builder
	switch g.Intn(10) {
	case 0: // raw bytes
		n := g.Intn(200)
		for i := 0; i < n; i++ {
			b.WriteByte(byte(g.Intn(256)))
		}
	case 1: // a valid skeleton with one token replaced
		toks := strings.Fields("send [ USD 10 ] ( \n source = @a \n destination = @b \n )")
		toks[g.Intn(len(toks))] = soupTokens[g.Intn(len(soupTokens))]
		b.WriteString(strings.ReplaceAll(strings.Join(toks, " "), "\\n", "\n"))
	default:
		n := 1 + g.Intn(60)
		for i := 0; i < n; i++ {
			b.WriteString(soupTokens[g.Intn(len(soupTokens))])
			if g.Chance(3, 4) {
				b.WriteByte(' ')
			}
		}
	}
	return b.String()
}

// resourceLimitScript: a valid script that allocates exactly k distinct resources: k/2 lines set_tx_meta("k<i>", <i>)
// (a string and a number each; `0` is the number 0 for ever after) and, for odd k, one account.
func resourceLimitScript(k int) string {
	var b strings.Builder
	for i := 0; i < k/2; i++ {
		fmt.Fprintf(&b, "set_tx_meta(\"k%d\", %d)\n", i, i)
	}
	if k%2 == 1 {
		b.WriteString("set_account_meta(@acc, \"k0\", 0)\n")
	}
	return b.String()
}

// resourceLimitFamily (C12, thorough tier only: the compiler's constant lookup is quadratic, one such script takes
// 10-20 s to compile). The model refuses the allocation that would make the table longer than max_resources = 65 536
// (Numscript/Compiler.v append_resource; Numscript/ResourceLimit.v: every address handed out fits 16 bits), which is
// what keeps a program.Address (uint16) from wrapping onto resource 0. Here the real compiler meets scripts with
// exactly 65 535, 65 536, 65 537 and 65 538 distinct resources: it accepts exactly those the model accepts, an accepted
// program has at most 65 536 resources, and neither compiling nor running one panics.
func resourceLimitFamily(r *vx.Run) {
	const limit = 65536
	for _, k := range []int{limit - 1, limit, limit + 1, limit + 2} {
		in := nsx.Input{Script: resourceLimitScript(k), Vars: map[string]string{}, Balances: map[string]map[string]string{}, Meta: map[string]map[string]string{}, Note: fmt.Sprintf("resource-limit:%d", k)}
		ob := observe(in)
		r.Count(fmt.Sprintf("resource-limit:%d:%s", k, ob.Stage))
		r.Case("", nsx.Input{Note: in.Note}, in.Note, false)
		size := len(in.Script)
		if ob.Panic != "" {
			site := ob.Panic
			if len(site) > 60 {
				site = site[:60]
			}
			r.FailP("C12", "panic:"+ob.Stage+":"+site, in, fmt.Sprintf("script with exactly %d distinct resources: %s", k, ob.Panic), size)
			continue
		}
		if ob.Elapsed > 5*time.Minute {
			r.FailP("C12", "slow:"+ob.Stage, in, ob.Elapsed.String(), size)
		}
		accepted := ob.Stage != "compile"
		switch {
		case accepted && k > limit:
			n := -1
			if ob.Prog != nil {
				n = len(ob.Prog.Resources)
			}
			r.FailP("C12", "resource-limit:accepted-beyond-the-address-space", in, fmt.Sprintf("a script with %d distinct resources compiled (program has %d resources; addresses are 16 bits): stage %s class %s", k, n, ob.Stage, ob.Class), size)
		case !accepted && k <= limit:
			r.FailP("C12", "resource-limit:refused-within-the-limit", in, fmt.Sprintf("a script with %d distinct resources was refused (class %s); the model accepts up to %d", k, ob.Class, limit), size)
		case accepted && (ob.Prog == nil || len(ob.Prog.Resources) != k):
			r.FailP("C12", "resource-limit:table-length", in, fmt.Sprintf("expected %d resources in the compiled program", k), size)
		case accepted && ob.Stage != "done":
			r.FailP("C12", "resource-limit:run", in, fmt.Sprintf("a valid script with %d resources ended at stage %s class %s", k, ob.Stage, ob.Class), size)
		case accepted && len(ob.TxMeta) != k/2:
			r.FailP("C12", "resource-limit:metadata", in, fmt.Sprintf("expected %d transaction metadata keys, got %d", k/2, len(ob.TxMeta)), size)
		}
	}
}

func main() {
	r := vx.Start("C08", "numscript")
	r.Cases("From FL Require Import Numscript.Corr.\nClose Scope Z_scope.\nOpen Scope nat_scope.\n", "ncase", 250)
	r.Sum.Rule = "random Numscript programs over the whole grammar (vars with meta/balance origins, nested ordered/capped/portioned sources and destinations, kept/remaining, save, metadata, print, fail; 1 in 25 choices deliberately ill-formed) x variable maps x balance tables (0, negative, > 2^64) x account metadata; each compiled and run by the real compiler and machine; non-trivial = the run produced at least one posting or ended with insufficient funds; distinct by the JSON of the whole input"
	docs, replayOnly := r.Inputs()
	for _, d := range docs {
		var in nsx.Input
		if err := json.Unmarshal(d, &in); err == nil {
			one(r, in)
		}
	}
	if replayOnly {
		r.Finish()
		return
	}
	N := 1500
	if r.Thorough() {
		N = 40000
	}
	g := vx.NewRng(r.Seed)
	// malformed stream (C12, "every byte string"): token soups and random bytes through the real front end, compiler
	// and, when they happen to compile, the machine; only {panic, time, error class} are observed
	M := 1500
	if r.Thorough() {
		M = 60000
	}
	mg := vx.NewRng(r.Seed ^ 0xBAD)
	for i := 0; i < M; i++ {
		in := nsx.Input{Script: tokenSoup(mg), Vars: map[string]string{}, Balances: map[string]map[string]string{}, Meta: map[string]map[string]string{}, Note: "malformed"}
		ob := observe(in)
		oracles(r, in, nil, ob)
		r.Count("malformed:" + ob.Stage)
		r.Case("", in, in.Script, false)
	}
	portionSpellings(r)
	valueSpellings(r)
	fam := boundaryFamily()
	for i, in := range fam {
		// quick tier: a seeded third of the family; thorough: all of it
		if r.Thorough() || g.Intn(3) == 0 || i%97 == 0 || strings.HasPrefix(in.Note, "boundary:variable-spelling") || in.Note == "boundary:save-then-credit" || in.Note == "boundary:world-in-front-of-a-portioned-source-kept" || in.Note == "boundary:capped-ordered-source-revisits-account" || in.Note == "boundary:foreign-character" || in.Note == "boundary:number-literal" || in.Note == "boundary:self-posting-then-spend" || in.Note == "boundary:same-pair-twice-with-refill" || in.Note == "boundary:world-like-account" || in.Note == "boundary:literals-equal-in-low-bits" || in.Note == "boundary:world-letter-case" {
			one(r, in)
			r.Count("boundary-family")
		}
	}
	for i := 0; i < N; i++ {
		gen := nsx.NewG(g.Fork())
		one(r, gen.Case())
	}
	// ill-typed stream (C12 "meaningless but syntactically valid", C08 rejection): grammatical scripts in which about
	// one choice in seven puts an expression of an arbitrary type where an account or a monetary is expected
	W := 400
	if r.Thorough() {
		W = 10000
	}
	wg := vx.NewRng(r.Seed ^ 0x111)
	for i := 0; i < W; i++ {
		gen := nsx.NewG(wg.Fork())
		gen.BadRate, gen.Wild = 7, true
		in := gen.Case()
		in.Note = "ill-typed"
		one(r, in)
		r.Count("ill-typed-stream")
	}
	if r.Thorough() || os.Getenv("VERIF_RESLIMIT") == "1" {
		resourceLimitFamily(r)
	}
	// nothing of one execution may survive into another (C12 determinism, C08): the first executions of the run,
	// repeated at its end, must give what they gave
	for _, fo := range firstObs {
		again := observe(fo.in)
		if !sameObs(fo.ob, again) {
			r.FailP("C12", "residue:later-run-differs", fo.in, fmt.Sprintf("at first %s/%s %v, at the end of the run %s/%s %v", fo.ob.Stage, fo.ob.Class, fo.ob.Postings, again.Stage, again.Class, again.Postings), len(fo.in.Script))
			r.FailP("C08", "residue:later-run-differs", fo.in, fmt.Sprintf("at first %s/%s, at the end of the run %s/%s", fo.ob.Stage, fo.ob.Class, again.Stage, again.Class), len(fo.in.Script))
			break
		}
	}
	r.Finish()
}
