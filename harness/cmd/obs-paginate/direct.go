package main

// Suites that call libs/bun/bunpaginate directly: UsingColumn / UsingOffset over the table-serving driver,
// the cursor codec, GetPageSize.

import (
	"context"
	"database/sql"
	"database/sql/driver"
	"fmt"
	"net/http/httptest"
	"net/url"
	"strconv"

	"github.com/formancehq/ledger/verifx/fakesql/tabledrv"
	"github.com/formancehq/ledger/verifx/vx"
	sharedapi "github.com/formancehq/stack/libs/go-libs/api"
	"github.com/formancehq/stack/libs/go-libs/bun/bunpaginate"
	"github.com/uptrace/bun"
	"github.com/uptrace/bun/dialect/pgdialect"
)

type item struct {
	bun.BaseModel `bun:"items,alias:items"`
	ID            *bunpaginate.BigInt `bun:"id,type:numeric"`
}

func itemsDB(rows []int64) (*tabledrv.DB, *bun.DB) {
	d := tabledrv.New()
	d.Strict = true
	t := &tabledrv.Table{Cols: []string{"id"}}
	for _, k := range rows {
		t.Rows = append(t.Rows, []driver.Value{strconv.FormatInt(k, 10)})
	}
	d.Tables["items"] = t
	return d, bun.NewDB(sql.OpenDB(d.Connector()), pgdialect.New(), bun.WithDiscardUnknownColumns())
}

// pageObs is one api.Cursor as observed, cursors read from their wire form by the harness.
type pageObs struct {
	Panic    string
	Err      string
	Data     []int64
	PageSize int
	HasMore  bool
	Prev     *qdesc
	Next     *qdesc
	PrevRaw  string
	NextRaw  string
	Unread   string // a cursor of this page the harness could not read ("filter": the filter is not in it)
}

func keysOf(items []item) []int64 {
	out := make([]int64, 0, len(items))
	for _, it := range items {
		out = append(out, it.ID.ToMathBig().Int64())
	}
	return out
}

func readCursors(p *pageObs, offset bool) {
	for _, side := range []struct {
		raw string
		to  **qdesc
	}{{p.PrevRaw, &p.Prev}, {p.NextRaw, &p.Next}} {
		if side.raw == "" {
			continue
		}
		w, err := decodeWire(side.raw)
		if err != nil {
			p.Unread = "not-base64-json"
			continue
		}
		d, why := qdescFromWire(w, offset)
		if why != "" {
			p.Unread = why
			continue
		}
		*side.to = d
	}
}

func callCol(db *bun.DB, q colQuery) (p pageObs) {
	defer func() {
		if r := recover(); r != nil {
			p = pageObs{Panic: fmt.Sprint(r)}
		}
	}()
	c, err := bunpaginate.UsingColumn[colOpts, item](context.Background(), db.NewSelect().Table("items"), q)
	if err != nil {
		return pageObs{Err: err.Error()}
	}
	p = pageObs{Data: keysOf(c.Data), PageSize: c.PageSize, HasMore: c.HasMore, PrevRaw: c.Previous, NextRaw: c.Next}
	readCursors(&p, false)
	return p
}

func callOff(db *bun.DB, q offQuery) (p pageObs) {
	defer func() {
		if r := recover(); r != nil {
			p = pageObs{Panic: fmt.Sprint(r)}
		}
	}()
	c, err := bunpaginate.UsingOffset[colOpts, item](context.Background(), db.NewSelect().Table("items").OrderExpr("id ASC"), q)
	if err != nil {
		return pageObs{Err: err.Error()}
	}
	p = pageObs{Data: keysOf(c.Data), PageSize: c.PageSize, HasMore: c.HasMore, PrevRaw: c.Previous, NextRaw: c.Next}
	readCursors(&p, true)
	return p
}

func coqObsCol(p pageObs) (string, bool) {
	pr, ok1 := coqOptQ(p.Prev)
	nx, ok2 := coqOptQ(p.Next)
	return fmt.Sprintf("{| oc_panic := %s; oc_data := %s; oc_size := %d; oc_has_more := %s; oc_previous := %s; oc_next := %s |}",
		vx.CoqBool(p.Panic != ""), coqZs(p.Data), p.PageSize, vx.CoqBool(p.HasMore), pr, nx), ok1 && ok2
}
func coqObsOff(p pageObs) (string, bool) {
	pr, ok1 := coqOptQ(p.Prev)
	nx, ok2 := coqOptQ(p.Next)
	return fmt.Sprintf("{| oo_data := %s; oo_size := %d; oo_has_more := %s; oo_previous := %s; oo_next := %s |}",
		coqZs(p.Data), p.PageSize, vx.CoqBool(p.HasMore), pr, nx), ok1 && ok2
}

// emitCol records one UsingColumn call as a Coq case (when everything in it is representable).
func emitCol(r *vx.Run, in any, key string, rows []int64, q qdesc, p pageObs, nontrivial bool) {
	qs, ok1 := q.coq()
	os, ok2 := coqObsCol(p)
	if q.Filter.weight() > coqFilterLimit {
		r.Count("col-call-oracle-only-big-filter")
		r.Case("", in, key, nontrivial)
		return
	}
	if !ok1 || !ok2 || p.Unread != "" || p.Err != "" {
		r.Count("col-call-not-emitted")
		r.Case("", in, key, false)
		return
	}
	r.Case(fmt.Sprintf("CaseCol %s %s %s", coqZs(rows), qs, os), in, key, nontrivial)
}
func emitOff(r *vx.Run, in any, key string, rows []int64, q qdesc, p pageObs, nontrivial bool) {
	qs, ok1 := q.coq()
	os, ok2 := coqObsOff(p)
	if q.Filter.weight() > coqFilterLimit {
		r.Count("off-call-oracle-only-big-filter")
		r.Case("", in, key, nontrivial)
		return
	}
	if !ok1 || !ok2 || p.Unread != "" || p.Err != "" || p.Panic != "" {
		r.Count("off-call-not-emitted")
		r.Case("", in, key, false)
		return
	}
	r.Case(fmt.Sprintf("CaseOff %s %s %s", coqZs(rows), qs, os), in, key, nontrivial)
}

func filterClass(f *fexpr) string {
	if f == nil {
		return "no-filter"
	}
	return "filter"
}

// ---- column walk ---------------------------------------------------------------------------------------

// colWalk: first page, then `next` until hasMore=false (step bound), then back along `previous`; every call is
// a Coq case; the oracle states C17 on what was seen. Hypotheses of the theorem (distinct keys, size >= 1) that
// do not hold for the input switch the oracle off (the calls still go to the model).
func colWalk(r *vx.Run, in input) {
	d, db := itemsDB(in.Rows)
	_ = d
	pit := in.Pit
	q0 := qdesc{Size: in.Size, Column: "id", Order: in.Order, Filter: in.Filter, OptSize: in.Size, Pit: pit}
	cls := filterClass(in.Filter)
	oracleOn := noDup(in.Rows) && in.Size >= 1
	size := len(in.Rows) + int(in.Size)
	fail := func(sig, detail string) { r.FailSized(sig, in, detail, size) }
	key := func(step string) string {
		return fmt.Sprintf("colwalk/%v/%d/%s/%s/%s", in.Rows, in.Size, in.Order, cls, step)
	}

	// the first query goes through the codec like every other (the description the model gets is read back
	// from the wire form the real encoder produced)
	real := q0.realCol()
	cur := q0
	if w, err := decodeWire(bunpaginate.EncodeCursor(real)); err == nil {
		if dd, why := qdescFromWire(w, false); why == "" {
			cur = *dd
		} else if why == "filter" {
			fail("cursor-loses-filter:encode:"+cls, "the encoded first query does not contain its filter: "+bunpaginate.EncodeCursor(real))
			return
		}
	}
	var pages []pageObs
	bound := len(in.Rows) + 3
	ended := false
	for step := 0; step < bound; step++ {
		p := callCol(db, real)
		emitCol(r, in, key(fmt.Sprint("fwd", step)), in.Rows, cur, p, len(in.Rows) > int(in.Size) && in.Size >= 1)
		if p.Panic != "" || p.Err != "" {
			if oracleOn {
				fail("walk:panic-or-error:"+cls, p.Panic+p.Err)
			}
			return
		}
		if p.Unread == "filter" {
			fail("cursor-loses-filter:next:"+cls, "a cursor handed out does not contain the filter of the query: "+p.NextRaw+" "+p.PrevRaw)
			return
		}
		pages = append(pages, p)
		if !p.HasMore {
			ended = true
			break
		}
		var nq colQuery
		if err := bunpaginate.UnmarshalCursor(p.NextRaw, &nq); err != nil {
			fail("cursor-rejected:next:"+cls, "UnmarshalCursor refuses a cursor handed out by UsingColumn: "+err.Error())
			return
		}
		if p.Next == nil {
			fail("walk:hasMore-without-next:"+cls, "hasMore=true and no readable next cursor")
			return
		}
		real, cur = nq, *p.Next
	}
	if !oracleOn {
		r.Count("colwalk-hypothesis-off")
		return
	}
	if !ended {
		fail("walk:endless:"+cls, fmt.Sprintf("hasMore still true after %d pages over %d rows", bound, len(in.Rows)))
		return
	}
	var all []int64
	for i, p := range pages {
		all = append(all, p.Data...)
		if i < len(pages)-1 && len(p.Data) != int(in.Size) {
			fail("walk:short-page:"+cls, fmt.Sprintf("page %d has %d items, page size %d, and is not the last", i, len(p.Data), in.Size))
			return
		}
		if p.PageSize != int(in.Size) {
			fail("walk:page-size-field:"+cls, fmt.Sprintf("page %d reports pageSize %d", i, p.PageSize))
			return
		}
	}
	want := sortedKeys(in.Rows, in.Order)
	if !eqKeys(all, want) {
		fail("walk:"+diffClass(all, want)+":"+cls, fmt.Sprintf("pages %v, expected the concatenation to be %v", pagesData(pages), want))
		return
	}
	// the library's own client, bunpaginate.Iterate, sees the same enumeration
	{
		var got []int64
		calls := 0
		err := bunpaginate.Iterate(context.Background(), q0.realCol(),
			func(ctx context.Context, q colQuery) (*sharedapi.Cursor[item], error) {
				calls++
				if calls > bound {
					return nil, fmt.Errorf("harness: step bound")
				}
				return bunpaginate.UsingColumn[colOpts, item](ctx, db.NewSelect().Table("items"), q)
			},
			func(c *sharedapi.Cursor[item]) error {
				got = append(got, keysOf(c.Data)...)
				return nil
			})
		if err != nil {
			fail("iterate:error:"+cls, err.Error())
			return
		}
		if !eqKeys(got, want) {
			fail("iterate:"+diffClass(got, want)+":"+cls, fmt.Sprintf("Iterate saw %v, expected %v", got, want))
			return
		}
		r.Count("iterate-ok")
	}
	if len(in.Rows) > 0 && len(pages[len(pages)-1].Data) == 0 {
		fail("walk:empty-last-page:"+cls, "the last page is empty")
		return
	}
	// previous: from every forward page k >= 1, `previous` shows page k-1 and its `next` shows page k again;
	// from the last page the chain of `previous` shows pages k-1, k-2, ..., 0 and then stops.
	if pages[0].PrevRaw != "" {
		fail("previous:first-page-has-previous:"+cls, "the first page has a previous cursor")
		return
	}
	for k := 1; k < len(pages); k++ {
		if pages[k].PrevRaw == "" {
			fail("previous:missing:"+cls, fmt.Sprintf("page %d has no previous cursor", k))
			return
		}
	}
	for start := len(pages) - 1; start >= 1; start-- {
		at := pages[start]
		depth := start
		if start != len(pages)-1 {
			depth = 1 // inner pages: one step back (and forth); the full chain is walked from the last page
		}
		for j := 1; j <= depth; j++ {
			var pq colQuery
			if err := bunpaginate.UnmarshalCursor(at.PrevRaw, &pq); err != nil {
				fail("cursor-rejected:previous:"+cls, err.Error())
				return
			}
			if at.Prev == nil {
				fail("previous:unreadable-cursor:"+cls, at.PrevRaw)
				return
			}
			p := callCol(db, pq)
			emitCol(r, in, key(fmt.Sprint("back", start, j)), in.Rows, *at.Prev, p, true)
			if p.Panic != "" || p.Err != "" {
				fail("previous:panic-or-error:"+cls, p.Panic+p.Err)
				return
			}
			if !eqKeys(p.Data, pages[start-j].Data) {
				fail("previous:wrong-page:"+cls, fmt.Sprintf("%d step(s) back from page %d shows %v, page %d was %v", j, start, p.Data, start-j, pages[start-j].Data))
				return
			}
			if j == 1 {
				// and forward again
				var nq colQuery
				if p.NextRaw == "" || bunpaginate.UnmarshalCursor(p.NextRaw, &nq) != nil || p.Next == nil {
					fail("previous:no-way-forward:"+cls, "the page reached by previous has no usable next cursor")
					return
				}
				f := callCol(db, nq)
				emitCol(r, in, key(fmt.Sprint("forth", start)), in.Rows, *p.Next, f, true)
				if !eqKeys(f.Data, pages[start].Data) {
					fail("previous:next-of-previous:"+cls, fmt.Sprintf("previous then next from page %d shows %v, expected %v", start, f.Data, pages[start].Data))
					return
				}
			}
			if (p.PrevRaw != "") != (start-j >= 1) {
				fail("previous:chain-end:"+cls, fmt.Sprintf("%d step(s) back from page %d: previous present=%v", j, start, p.PrevRaw != ""))
				return
			}
			if p.Prev == nil && p.PrevRaw != "" {
				fail("cursor-loses-filter:previous:"+cls, p.PrevRaw)
				return
			}
			at = p
		}
	}
}

func pagesData(ps []pageObs) [][]int64 {
	out := make([][]int64, len(ps))
	for i, p := range ps {
		out[i] = p.Data
	}
	return out
}

// diffClass names how a walk differs from the expected enumeration.
func diffClass(got, want []int64) string {
	cnt := map[int64]int{}
	for _, x := range got {
		cnt[x]++
	}
	wc := map[int64]int{}
	for _, x := range want {
		wc[x]++
	}
	// classes in a fixed priority (never dependent on map iteration order)
	for x := range cnt {
		if wc[x] == 0 {
			return "foreign-item"
		}
	}
	for x, n := range cnt {
		if n > wc[x] {
			return "item-repeated"
		}
	}
	for x, n := range wc {
		if cnt[x] < n {
			return "item-missing"
		}
	}
	return "wrong-order"
}

// ---- offset walk ---------------------------------------------------------------------------------------

func offWalk(r *vx.Run, in input) {
	_, db := itemsDB(in.Rows)
	rows := sortedKeys(in.Rows, "asc") // the caller's ORDER BY id ASC
	zero := uint64(0)
	q0 := qdesc{Size: in.Size, Order: in.Order, Offset: &zero, Filter: in.Filter, OptSize: in.Size, Pit: in.Pit}
	cls := filterClass(in.Filter)
	size := len(in.Rows) + int(in.Size)
	fail := func(sig, detail string) { r.FailSized(sig, in, detail, size) }
	key := func(step string) string { return fmt.Sprintf("offwalk/%v/%d/%s/%s", in.Rows, in.Size, cls, step) }
	real := q0.realOff()
	cur := q0
	if w, err := decodeWire(bunpaginate.EncodeCursor(real)); err == nil {
		if dd, why := qdescFromWire(w, true); why == "" {
			cur = *dd
		} else if why == "filter" {
			fail("cursor-loses-filter:encode:"+cls, "the encoded first query does not contain its filter")
			return
		}
	}
	var pages []pageObs
	bound := len(in.Rows) + 3
	ended := false
	for step := 0; step < bound; step++ {
		p := callOff(db, real)
		emitOff(r, in, key(fmt.Sprint("fwd", step)), rows, cur, p, len(in.Rows) > int(in.Size) && in.Size >= 1)
		if p.Panic != "" || p.Err != "" {
			fail("offset-walk:panic-or-error:"+cls, p.Panic+p.Err)
			return
		}
		if p.Unread == "filter" {
			fail("cursor-loses-filter:next:"+cls, p.NextRaw+" "+p.PrevRaw)
			return
		}
		pages = append(pages, p)
		if !p.HasMore {
			ended = true
			break
		}
		var nq offQuery
		if err := bunpaginate.UnmarshalCursor(p.NextRaw, &nq); err != nil {
			fail("cursor-rejected:next:"+cls, err.Error())
			return
		}
		if p.Next == nil {
			fail("offset-walk:hasMore-without-next:"+cls, "")
			return
		}
		real, cur = nq, *p.Next
	}
	if !ended {
		fail("offset-walk:endless:"+cls, fmt.Sprintf("hasMore still true after %d pages", bound))
		return
	}
	var all []int64
	for i, p := range pages {
		all = append(all, p.Data...)
		if i < len(pages)-1 && len(p.Data) != int(in.Size) {
			fail("offset-walk:short-page:"+cls, fmt.Sprintf("page %d has %d items", i, len(p.Data)))
			return
		}
	}
	if !eqKeys(all, rows) {
		fail("offset-walk:"+diffClass(all, rows)+":"+cls, fmt.Sprintf("pages %v, expected %v", pagesData(pages), rows))
		return
	}
	for k := 1; k < len(pages); k++ {
		if pages[k].PrevRaw == "" || pages[k].Prev == nil {
			fail("offset-previous:missing:"+cls, fmt.Sprintf("page %d has no previous cursor", k))
			return
		}
		var pq offQuery
		if err := bunpaginate.UnmarshalCursor(pages[k].PrevRaw, &pq); err != nil {
			fail("cursor-rejected:previous:"+cls, err.Error())
			return
		}
		p := callOff(db, pq)
		emitOff(r, in, key(fmt.Sprint("back", k)), rows, *pages[k].Prev, p, true)
		if !eqKeys(p.Data, pages[k-1].Data) {
			fail("offset-previous:wrong-page:"+cls, fmt.Sprintf("previous of page %d shows %v, page %d was %v", k, p.Data, k-1, pages[k-1].Data))
			return
		}
	}
	if len(pages) > 0 && pages[0].PrevRaw != "" {
		fail("offset-previous:first-page-has-previous:"+cls, "")
	}
}

// ---- one arbitrary column query (also positions no walk reaches) -----------------------------------------

func colQueryOne(r *vx.Run, in input) {
	_, db := itemsDB(in.Rows)
	q := *in.Query
	q.Column = "id"
	p := callCol(db, q.realCol())
	if p.Unread == "filter" {
		r.FailSized("cursor-loses-filter:next:"+filterClass(q.Filter), in, p.NextRaw+" "+p.PrevRaw, len(in.Rows))
		return
	}
	emitCol(r, in, fmt.Sprintf("colquery/%v/%+v", in.Rows, q), in.Rows, q, p, true)
	if p.Panic != "" {
		r.Count("colquery-panic")
	}
}

// ---- codec ---------------------------------------------------------------------------------------------

func codecOne(r *vx.Run, in input) {
	q := *in.Query
	cls := filterClass(q.Filter)
	var enc string
	var accepted bool
	var again string
	var decErr string
	func() {
		defer func() {
			if rec := recover(); rec != nil {
				decErr = "panic: " + fmt.Sprint(rec)
			}
		}()
		if q.Offset != nil {
			enc = bunpaginate.EncodeCursor(q.realOff())
			var back offQuery
			if err := bunpaginate.UnmarshalCursor(enc, &back); err != nil {
				decErr = err.Error()
				return
			}
			again = bunpaginate.EncodeCursor(back)
		} else {
			enc = bunpaginate.EncodeCursor(q.realCol())
			var back colQuery
			if err := bunpaginate.UnmarshalCursor(enc, &back); err != nil {
				decErr = err.Error()
				return
			}
			again = bunpaginate.EncodeCursor(back)
		}
		accepted = true
	}()
	w, err := decodeWire(enc)
	if err != nil {
		r.FailSized("cursor-roundtrip:not-base64-json:"+cls, in, enc, q.Filter.size())
		return
	}
	back, why := qdescFromWire(w, q.Offset != nil)
	switch {
	case why == "filter":
		r.FailSized("cursor-loses-filter:encode:"+cls, in, "the encoded query does not contain its filter: "+enc, q.Filter.size())
	case why != "":
		r.FailSized("cursor-roundtrip:unreadable-"+why+":"+cls, in, enc, q.Filter.size())
	case !accepted:
		r.FailSized("cursor-rejected:roundtrip:"+cls, in, "UnmarshalCursor(EncodeCursor(q)): "+decErr, q.Filter.size())
	case again != enc:
		r.FailSized("cursor-roundtrip:changed:"+cls, in, "decoding then encoding gives a different cursor", q.Filter.size())
	default:
		// the harness's reading of the wire equals the description
		a, _ := back.coq()
		b, _ := q.coq()
		if a != b {
			r.FailSized("cursor-roundtrip:different-query:"+cls, in, "wire says "+a+" for "+b, q.Filter.size())
		}
	}
	qs, ok1 := q.coq()
	ws, ok2 := w.coq()
	key := "codec/" + enc
	if q.Filter.weight() > coqFilterLimit {
		r.Count("codec-oracle-only-big-filter")
		r.Case("", in, key, q.Filter != nil)
		return
	}
	if !ok1 || !ok2 {
		r.Count("codec-not-emitted")
		r.Case("", in, key, false)
		return
	}
	ctor := "CaseEncCol"
	if q.Offset != nil {
		ctor = "CaseEncOff"
	}
	r.Case(fmt.Sprintf("%s %s %s %s", ctor, qs, ws, vx.CoqBool(accepted)), in, key, q.Filter != nil)
}

// foreign documents: what UnmarshalCursor makes of a cursor whose filter member is arbitrary JSON
func decodeOne(r *vx.Run, in input) {
	w, err := parseJV([]byte(in.Doc))
	if err != nil {
		return
	}
	var back colQuery
	var decoded *qdesc
	func() {
		defer func() { _ = recover() }()
		if err := bunpaginate.UnmarshalCursor(encodeRaw(in.Doc), &back); err != nil {
			return
		}
		if w2, err := decodeWire(bunpaginate.EncodeCursor(back)); err == nil {
			if d, why := qdescFromWire(w2, false); why == "" {
				decoded = d
			}
		}
	}()
	ws, ok1 := w.coq()
	ds, ok2 := coqOptQ(decoded)
	if !ok1 || !ok2 {
		r.Case("", in, "decode/"+in.Doc, false)
		return
	}
	r.Count(fmt.Sprintf("foreign-doc-accepted:%v", decoded != nil))
	r.Case(fmt.Sprintf("CaseDecCol %s %s", ws, ds), in, "decode/"+in.Doc, true)
}

// ---- GetPageSize ---------------------------------------------------------------------------------------

func pageSizeOne(r *vx.Run, in input) {
	u := "/x"
	if in.Param != nil {
		u += "?pageSize=" + url.QueryEscape(*in.Param)
	}
	req := httptest.NewRequest("GET", u, nil)
	got, err := bunpaginate.GetPageSize(req, bunpaginate.WithDefaultPageSize(in.Default), bunpaginate.WithMaxPageSize(in.Max))
	p := "PAbsent"
	if in.Param != nil && *in.Param != "" {
		if n, e := strconv.ParseUint(*in.Param, 10, 32); e == nil {
			p = fmt.Sprintf("(PNum %d%%N)", n)
		} else {
			p = "PInvalid"
		}
	}
	res := "None"
	if err == nil {
		res = fmt.Sprintf("(Some %d%%N)", got)
		if got == 0 && in.Default >= 1 && in.Max >= 1 {
			r.FailSized("page-size-zero:GetPageSize", in, "GetPageSize returns 0: a listing with page size 0 never ends", 0)
		}
	}
	pv := "<absent>"
	if in.Param != nil {
		pv = *in.Param
	}
	r.Case(fmt.Sprintf("CasePageSize %d%%N %d%%N %s %s", in.Default, in.Max, p, res), in, fmt.Sprintf("pagesize/%d/%d/%s", in.Default, in.Max, pv), true)
}
