package main

// The library's HTTP follower: the REAL api.FetchAllPaginated[T] against the real v1 / v2 routers (served over the
// table-serving store through a RoundTripper that calls the router directly). Oracle: the enumerated list is the
// expected enumeration exactly once, compared item by item on the CONTENTS (ids, references, posting amounts,
// metadata maps, log payloads), not on ids only.

import (
	"context"
	"errors"
	"fmt"
	"math/big"
	"net/http"
	"net/http/httptest"
	"net/url"
	"sort"
	"strconv"
	"strings"

	ledger "github.com/formancehq/ledger/internal"
	"github.com/formancehq/ledger/verifx/fakesql/tabledrv"
	"github.com/formancehq/ledger/verifx/vx"
	sharedapi "github.com/formancehq/stack/libs/go-libs/api"
	"github.com/formancehq/stack/libs/go-libs/bun/bunpaginate"
)

type routerTransport struct {
	h     http.Handler
	b     *bucket
	n     int
	max   int
	first *tabledrv.Stmt
}

func (t *routerTransport) RoundTrip(req *http.Request) (*http.Response, error) {
	t.n++
	if t.n > t.max {
		return nil, errors.New("harness: request bound exceeded (the walk does not end)")
	}
	sr := httptest.NewRequest(req.Method, req.URL.String(), nil).WithContext(req.Context())
	rec := httptest.NewRecorder()
	t.b.d.Reset()
	t.h.ServeHTTP(rec, sr)
	if t.first == nil {
		t.first = t.b.d.Last()
	}
	return rec.Result(), nil
}

// the v1 transaction rendering (txid instead of id)
type v1Tx struct {
	ledger.ExpandedTransaction
	TxID *big.Int `json:"txid"`
}

func metaString(m map[string]string) string {
	ks := make([]string, 0, len(m))
	for k := range m {
		ks = append(ks, k)
	}
	sort.Strings(ks)
	var parts []string
	for _, k := range ks {
		parts = append(parts, k+"="+m[k])
	}
	return "{" + strings.Join(parts, ",") + "}"
}

func txContent(id *big.Int, t ledger.ExpandedTransaction) string {
	var ps []string
	for _, p := range t.Postings {
		ps = append(ps, fmt.Sprintf("%s>%s:%v/%s", p.Source, p.Destination, p.Amount, p.Asset))
	}
	return fmt.Sprintf("tx id=%v ref=%q postings=%v meta=%s", id, t.Reference, ps, metaString(t.Metadata))
}
func wantTx(r brow) string {
	return fmt.Sprintf("tx id=%d ref=%q postings=[world>acc:%d:%d/USD] meta=%s", r.ID, txReference(r), r.ID, 100+r.ID,
		metaString(map[string]string{"ledger": r.Ledger, fmt.Sprintf("k%d", r.ID%3): fmt.Sprintf("v%d", r.ID)}))
}
func logContent(l ledger.ChainedLog) string {
	target, meta := "?", "?"
	if p, ok := l.Data.(ledger.SetMetadataLogPayload); ok {
		target, meta = fmt.Sprint(p.TargetID), metaString(p.Metadata)
	}
	return fmt.Sprintf("log id=%v ik=%s type=%s date=%s target=%s meta=%s", l.ID, l.IdempotencyKey, l.Type.String(), l.Date.Format("2006-01-02T15:04:05Z07:00"), target, meta)
}
func wantLog(r brow) string {
	return fmt.Sprintf("log id=%d ik=%s/%d type=SET_METADATA date=%s target=a%d meta=%s", r.ID, r.Ledger, r.ID, dateOf(r.Attr), r.ID,
		metaString(map[string]string{fmt.Sprintf("k%d", r.ID%3): fmt.Sprintf("v%d", r.ID)}))
}
func accContent(a ledger.ExpandedAccount) string {
	return fmt.Sprintf("account %s meta=%s", a.Address, metaString(a.Metadata))
}
func wantAcc(r brow) string {
	return fmt.Sprintf("account %s meta=%s", accountAddr(r.ID),
		metaString(map[string]string{"ledger": r.Ledger, "attr": strconv.Itoa(r.Attr), fmt.Sprintf("k%d", r.ID%3): fmt.Sprintf("v%d", r.ID)}))
}

func followWalk(r *vx.Run, in input) {
	b := newBucket(in.Listing, in.Table)
	h1, h2 := routers(b)
	api := strings.TrimPrefix(in.Kind, "follow-")
	h := h2
	if api == "v1" {
		h = h1
	}
	cls := filterClass(in.Filter)
	sigTail := ":" + in.Listing + ":" + api + ":" + cls
	fail := func(sig, detail string) { r.FailSized(sig+sigTail, in, detail, len(in.Table)+in.Filter.size()) }
	vals := url.Values{}
	if in.SizeParam != nil {
		vals.Set("pageSize", *in.SizeParam)
	}
	if in.Pit != nil {
		vals.Set("pit", *in.Pit)
	}
	if api == "v1" && !v1Params(in.Listing, in.Filter, vals) {
		return
	}
	tr := &routerTransport{h: h, b: b, max: len(in.Table) + 5}
	client := &http.Client{Transport: tr}
	u := "http://ledger.test/" + in.Own + "/" + in.Listing
	ctx := context.Background()
	var got []string
	var ids []int64
	var err error
	switch {
	case in.Listing == "transactions" && api == "v2":
		var items []ledger.ExpandedTransaction
		items, err = sharedapi.FetchAllPaginated[ledger.ExpandedTransaction](ctx, client, u, vals)
		for _, t := range items {
			got = append(got, txContent(t.ID, t))
			if t.ID != nil {
				ids = append(ids, t.ID.Int64())
			} else {
				ids = append(ids, -1)
			}
		}
	case in.Listing == "transactions":
		var items []v1Tx
		items, err = sharedapi.FetchAllPaginated[v1Tx](ctx, client, u, vals)
		for _, t := range items {
			got = append(got, txContent(t.TxID, t.ExpandedTransaction))
			if t.TxID != nil {
				ids = append(ids, t.TxID.Int64())
			} else {
				ids = append(ids, -1)
			}
		}
	case in.Listing == "logs":
		var items []ledger.ChainedLog
		items, err = sharedapi.FetchAllPaginated[ledger.ChainedLog](ctx, client, u, vals)
		for _, l := range items {
			got = append(got, logContent(l))
			if l.ID != nil {
				ids = append(ids, l.ID.Int64())
			} else {
				ids = append(ids, -1)
			}
		}
	default:
		var items []ledger.ExpandedAccount
		items, err = sharedapi.FetchAllPaginated[ledger.ExpandedAccount](ctx, client, u, vals)
		for _, a := range items {
			got = append(got, accContent(a))
			ids = append(ids, keyOfAddr(a.Address))
		}
	}
	key := fmt.Sprintf("follow/%s/%s/%v/%v/%s", api, in.Listing, in.Table, vals, cls)
	if err != nil {
		fail("follow:error", err.Error())
		r.Case("", in, key, false)
		return
	}
	st := tr.first
	if st == nil {
		fail("follow:no-statement", "")
		return
	}
	// expected: the own-ledger rows the first statement ranges over, in the listing's order
	var rows []brow
	src := st.Ranged
	if in.Listing == "accounts" {
		src = st.Sorted
	}
	var modelRows []int64
	for _, i := range src {
		modelRows = append(modelRows, in.Table[i].ID)
		if in.Table[i].Ledger == in.Own {
			rows = append(rows, in.Table[i])
		}
	}
	if in.Listing != "accounts" {
		sort.SliceStable(rows, func(i, j int) bool { return rows[i].ID > rows[j].ID })
	}
	var want []string
	var wantIDs []int64
	for _, x := range rows {
		wantIDs = append(wantIDs, x.ID)
		switch in.Listing {
		case "transactions":
			want = append(want, wantTx(x))
		case "logs":
			want = append(want, wantLog(x))
		default:
			want = append(want, wantAcc(x))
		}
	}
	n, _ := strconv.ParseUint(*in.SizeParam, 10, 32)
	pages := (len(rows) + int(n) - 1) / int(n)
	nontrivial := pages >= 2
	if in.Listing == "accounts" {
		r.Case(fmt.Sprintf("CaseWalkOff %s %d %s", coqZs(modelRows), n, coqZs(ids)), in, key, nontrivial)
	} else {
		r.Case(fmt.Sprintf("CaseWalkCol %s %d Desc %s", coqZs(modelRows), n, coqZs(ids)), in, key, nontrivial)
	}
	if !eqKeys(ids, wantIDs) {
		fail("follow:"+diffClass(ids, wantIDs), fmt.Sprintf("FetchAllPaginated enumerated %v, expected %v (page size %d)", ids, wantIDs, n))
		return
	}
	for i := range want {
		if got[i] != want[i] {
			fail("follow:content-differs", fmt.Sprintf("item %d of the enumeration is [%s], the collection holds [%s] (page size %d, %d items)", i, got[i], want[i], n, len(want)))
			return
		}
	}
	r.Count("follow-ok")
}

var _ = bunpaginate.QueryDefaultPageSize
