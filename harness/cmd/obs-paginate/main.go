package main

import (
	"context"
	"database/sql"
	"database/sql/driver"
	"fmt"

	"github.com/formancehq/ledger/verifx/fakesql/tabledrv"
	"github.com/formancehq/stack/libs/go-libs/bun/bunpaginate"
	"github.com/uptrace/bun"
	"github.com/uptrace/bun/dialect/pgdialect"
)

type item struct {
	bun.BaseModel `bun:"items,alias:items"`
	ID            *bunpaginate.BigInt `bun:"id,type:numeric"`
}

func main() {
	d := tabledrv.New()
	d.Strict = true
	t := &tabledrv.Table{Cols: []string{"id"}}
	for _, k := range []int{3, 0, 6, 1, 5, 2, 4} {
		t.Rows = append(t.Rows, []driver.Value{fmt.Sprint(k)})
	}
	d.Tables["items"] = t
	db := bun.NewDB(sql.OpenDB(d.Connector()), pgdialect.New(), bun.WithDiscardUnknownColumns())
	q := bunpaginate.ColumnPaginatedQuery[int]{PageSize: 3, Column: "id", Order: bunpaginate.OrderDesc}
	for i := 0; i < 5; i++ {
		c, err := bunpaginate.UsingColumn[int, item](context.Background(), db.NewSelect().Table("items"), q)
		if err != nil {
			panic(err)
		}
		fmt.Println(d.Last().SQL, len(c.Data), c.HasMore, c.Next, c.Previous)
		for _, x := range c.Data {
			fmt.Print(x.ID.ToMathBig(), " ")
		}
		fmt.Println()
		if !c.HasMore {
			break
		}
		if err := bunpaginate.UnmarshalCursor(c.Next, &q); err != nil {
			panic(err)
		}
	}
}
