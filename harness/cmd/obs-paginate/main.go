// obs-paginate runs the REAL pagination code of the working tree — bunpaginate.UsingColumn / UsingOffset /
// EncodeCursor / UnmarshalCursor / GetPageSize, the ledgerstore list methods (GetLogs, GetTransactions,
// GetAccountsWithVolumes through ledgerstore.NewStoreForVerif) and the v1/v2 HTTP list handlers — over a small
// table-serving database/sql driver, applies the C17 oracle (following `next` enumerates every item exactly once,
// in order; `previous` shows the page before; every cursor handed out is accepted back and stands for the same
// query, filter included) and writes every call as a Coq case for Paginate/Model.v.
package main

import (
	"encoding/base64"
	"encoding/json"
	"fmt"
	"strings"
	"time"

	"github.com/formancehq/ledger/verifx/vx"
)

type input struct {
	Kind string `json:"kind"` // col-walk | off-walk | col-query | codec | decode | pagesize | store | http-v1 | http-v2
	// col-walk, off-walk, col-query: sort keys in table order
	Rows   []int64 `json:"rows,omitempty"`
	Size   uint64  `json:"size,omitempty"`
	Order  string  `json:"order,omitempty"`
	Filter *fexpr  `json:"filter,omitempty"`
	Pit    *string `json:"pit,omitempty"`
	// col-query, codec
	Query *qdesc `json:"query,omitempty"`
	// decode
	Doc string `json:"doc,omitempty"`
	// pagesize
	Param   *string `json:"param,omitempty"`
	Default uint64  `json:"default,omitempty"`
	Max     uint64  `json:"max,omitempty"`
	// store, http-*
	Listing   string  `json:"listing,omitempty"` // logs | transactions | accounts
	Table     []brow  `json:"table,omitempty"`
	Own       string  `json:"own,omitempty"`
	SizeParam *string `json:"sizeParam,omitempty"` // pageSize URL parameter (http)
}

func encodeRaw(doc string) string { return base64.RawURLEncoding.EncodeToString([]byte(doc)) }

func one(r *vx.Run, in input) {
	r.Count("kind:" + in.Kind)
	switch in.Kind {
	case "col-walk":
		colWalk(r, in)
	case "off-walk":
		offWalk(r, in)
	case "col-query":
		colQueryOne(r, in)
	case "codec":
		codecOne(r, in)
	case "decode":
		decodeOne(r, in)
	case "pagesize":
		pageSizeOne(r, in)
	case "store", "http-v1", "http-v2":
		listingWalk(r, in)
	case "follow-v1", "follow-v2":
		followWalk(r, in)
	}
}

// ---- generators ----------------------------------------------------------------------------------------

func perm(g *vx.Rng, n int, lo int64) []int64 {
	out := make([]int64, n)
	for i := range out {
		out[i] = lo + int64(i)
	}
	for i := n - 1; i > 0; i-- {
		j := g.Intn(i + 1)
		out[i], out[j] = out[j], out[i]
	}
	return out
}

// distinct keys, not contiguous, possibly negative
func sparseKeys(g *vx.Rng, n int) []int64 {
	seen := map[int64]bool{}
	var out []int64
	for len(out) < n {
		k := int64(g.Intn(4*n+8)) - int64(n)
		if !seen[k] {
			seen[k] = true
			out = append(out, k)
		}
	}
	return out
}

var genKeys = []string{"reference", "account", "source", "destination", "metadata[tier]", "timestamp", "address", "balance[USD]", "date", "k\"q", "é"}

func genValue(g *vx.Rng, depth int) any {
	switch g.Intn(8) {
	case 0:
		return float64(g.Intn(2000) - 1000)
	case 1:
		return g.Bool()
	case 2:
		return nil
	case 3:
		if depth > 0 {
			return []any{genValue(g, depth-1), "x"}
		}
		return "users:"
	case 4:
		return "a' or 1=1 --"
	case 5:
		return float64(int64(g.U64()%(1<<52))) * float64(1-2*g.Intn(2))
	default:
		return []string{"abc", "users:001", "", "world", "2023-01-01T00:00:00Z", "\\\"\n"}[g.Intn(6)]
	}
}

func genFilter(g *vx.Rng, depth int) *fexpr {
	if depth > 0 && g.Chance(2, 5) {
		switch g.Intn(3) {
		case 0, 1:
			op := []string{"and", "or"}[g.Intn(2)]
			n := g.Intn(4)
			f := &fexpr{Op: op, Items: []*fexpr{}}
			for i := 0; i < n; i++ {
				f.Items = append(f.Items, genFilter(g, depth-1))
			}
			return f
		default:
			return &fexpr{Op: "not", Items: []*fexpr{genFilter(g, depth-1)}}
		}
	}
	return &fexpr{Op: []string{"match", "lt", "lte", "gt", "gte"}[g.Intn(5)], Key: genKeys[g.Intn(len(genKeys))], Value: genValue(g, 1)}
}

func genPit(g *vx.Rng) *string {
	if g.Chance(1, 3) {
		return nil
	}
	s := time.Unix(1600000000+int64(g.Intn(100000000)), int64(g.Intn(1000000))*1000).UTC().Format(time.RFC3339Nano)
	return &s
}

func optInt(g *vx.Rng, lo, n int) *int64 {
	if g.Chance(1, 4) {
		return nil
	}
	v := int64(lo + g.Intn(n))
	return &v
}

func genQdesc(g *vx.Rng, offset bool) *qdesc {
	q := &qdesc{Size: uint64(g.Intn(20)), Order: []string{"asc", "desc"}[g.Intn(2)], OptSize: uint64(g.Intn(120)), Pit: genPit(g), Vol: g.Bool(), EVol: g.Bool()}
	if g.Chance(3, 4) {
		q.Filter = genFilter(g, 3)
	}
	if offset {
		o := uint64(g.Intn(50))
		q.Offset = &o
	} else {
		q.Column = "id"
		q.Bottom, q.Pid, q.Reverse = optInt(g, -5, 40), optInt(g, -5, 40), g.Bool()
	}
	return q
}

// store/http filters: the shapes the three listings accept, over the attributes the bucket rows carry
// not: whether $not may be used (the store accepts it; the v2 request body only since cursors carry filters)
func genListingFilter(g *vx.Rng, listing string, v1, not bool) *fexpr {
	if g.Chance(1, 3) {
		return nil
	}
	var leaf func() *fexpr
	switch listing {
	case "transactions":
		leaf = func() *fexpr {
			switch g.Intn(4) {
			case 0:
				return &fexpr{Op: "match", Key: "metadata[tier]", Value: "gold"}
			default:
				return &fexpr{Op: "match", Key: "reference", Value: fmt.Sprintf("r%d", g.Intn(3))}
			}
		}
	case "accounts":
		leaf = func() *fexpr {
			switch g.Intn(3) {
			case 0:
				return &fexpr{Op: "match", Key: "metadata[attr]", Value: fmt.Sprint(g.Intn(3))}
			case 1:
				if v1 {
					return &fexpr{Op: "not", Items: []*fexpr{{Op: "match", Key: "balance", Value: "5"}}}
				}
				return &fexpr{Op: "match", Key: "address", Value: accountAddr(int64(g.Intn(4)))}
			default:
				return &fexpr{Op: "match", Key: "address", Value: accountAddr(int64(g.Intn(4)))}
			}
		}
	default:
		leaf = func() *fexpr {
			if g.Bool() {
				return &fexpr{Op: "gte", Key: "date", Value: dateOf(g.Intn(3))}
			}
			return &fexpr{Op: "lt", Key: "date", Value: dateOf(1 + g.Intn(4))}
		}
	}
	if v1 {
		if g.Bool() {
			return leaf()
		}
		a, b := leaf(), leaf()
		for b.Key == a.Key && b.Op == a.Op || (a.Op == "not" && b.Op == "not") {
			if listing == "transactions" && a.Key == "reference" {
				b = &fexpr{Op: "match", Key: "metadata[tier]", Value: "gold"}
			} else if listing == "transactions" {
				b = &fexpr{Op: "match", Key: "reference", Value: "r1"}
			} else if listing == "accounts" && a.Key != "address" {
				b = &fexpr{Op: "match", Key: "address", Value: accountAddr(int64(g.Intn(4)))}
			} else if listing == "accounts" {
				b = &fexpr{Op: "match", Key: "metadata[attr]", Value: "1"}
			} else if a.Op == "gte" {
				b = &fexpr{Op: "lt", Key: "date", Value: dateOf(4)}
			} else {
				b = &fexpr{Op: "gte", Key: "date", Value: dateOf(0)}
			}
		}
		return &fexpr{Op: "and", Items: []*fexpr{a, b}}
	}
	switch g.Intn(4) {
	case 0:
		return leaf()
	case 1:
		return &fexpr{Op: "and", Items: []*fexpr{leaf(), leaf()}}
	case 2:
		return &fexpr{Op: "or", Items: []*fexpr{leaf(), &fexpr{Op: "and", Items: []*fexpr{leaf()}}}}
	default:
		if listing == "logs" || !not {
			return leaf()
		}
		return &fexpr{Op: "not", Items: []*fexpr{leaf()}}
	}
}

func genBucket(g *vx.Rng, maxPer int) []brow {
	names := []string{"l1", "l2", "l3"}[:2+g.Intn(2)]
	var rows []brow
	for _, n := range names {
		k := g.Intn(maxPer + 1)
		for i := 0; i < k; i++ {
			rows = append(rows, brow{Ledger: n, ID: int64(i), Attr: g.Intn(3)})
		}
	}
	for i := len(rows) - 1; i > 0; i-- {
		j := g.Intn(i + 1)
		rows[i], rows[j] = rows[j], rows[i]
	}
	return rows
}

func sp(s string) *string { return &s }

func main() {
	r := vx.Start("C17", "paginate")
	r.Cases("From FL Require Import Paginate.Model.\nLocal Open Scope string_scope.\n", "case", 300)
	r.Sum.Rule = "walks (first page, next until hasMore=false, back along previous) of the real UsingColumn/UsingOffset over a table-serving driver, " +
		"for key lists x page sizes x both orders x with/without a filter in the query; arbitrary single queries; cursor codec on random queries " +
		"with random filter trees; GetPageSize; the real ledgerstore listings and the v1/v2 HTTP list handlers over a bucket shared by several ledgers; " +
		"non-trivial = a walk step over more rows than the page size, a back step, a query with a filter, a listing page reached through a cursor; " +
		"distinct by (suite, input, step)"
	docs, replayOnly := r.Inputs()
	for _, d := range docs {
		var in input
		if err := json.Unmarshal(d, &in); err == nil && in.Kind != "" {
			one(r, in)
		}
	}
	if replayOnly {
		r.Finish()
		return
	}
	g := vx.NewRng(r.Seed)
	th := r.Thorough()
	flt := &fexpr{Op: "and", Items: []*fexpr{{Op: "match", Key: "reference", Value: "abc"}, {Op: "not", Items: []*fexpr{{Op: "gte", Key: "timestamp", Value: "2023-01-01T00:00:00Z"}}}}}
	pit := sp("2023-05-06T07:08:09.000123Z")

	// 1. exhaustive small space: every collection size x page size x order, keys in a seeded permutation
	maxN, maxSize := 20, 7
	if th {
		maxN, maxSize = 40, 14
	}
	for n := 0; n <= maxN; n++ {
		sizes := []uint64{}
		for s := 1; s <= maxSize && s <= n+2; s++ {
			sizes = append(sizes, uint64(s))
		}
		if n > maxSize {
			sizes = append(sizes, uint64(n-1), uint64(n), uint64(n+1))
		}
		for _, s := range sizes {
			for _, o := range []string{"asc", "desc"} {
				in := input{Kind: "col-walk", Rows: perm(g, n, int64(g.Intn(5))-2), Size: s, Order: o}
				if (n+int(s))%3 == 0 {
					in.Filter, in.Pit = flt, pit
				}
				one(r, in)
				if o == "asc" {
					in.Kind = "off-walk"
					one(r, in)
				}
			}
		}
	}
	// 1b. page sizes at and around the API maximum (bunpaginate.MaxPageSize = 100) over collections around and above
	// it: the look-ahead row (LIMIT pageSize+1) must exist there too. Every tier, every seed.
	for _, n := range []int{0, 99, 100, 101, 150, 205} {
		for _, s := range []uint64{99, 100, 101} {
			rows := perm(g, n, int64(g.Intn(7))-3)
			one(r, input{Kind: "off-walk", Rows: rows, Size: s, Order: "asc"})
			one(r, input{Kind: "col-walk", Rows: rows, Size: s, Order: []string{"asc", "desc"}[g.Intn(2)]})
		}
	}
	// the same through the real store and the HTTP handlers: one ledger with that many rows next to a small one
	for _, n := range []int{0, 99, 100, 101, 150, 205} {
		var tbl []brow
		for i := 0; i < n; i++ {
			tbl = append(tbl, brow{Ledger: "l1", ID: int64(i), Attr: g.Intn(3)})
			if i%40 == 0 {
				tbl = append(tbl, brow{Ledger: "l2", ID: int64(i / 40), Attr: g.Intn(3)})
			}
		}
		for i := len(tbl) - 1; i > 0; i-- {
			j := g.Intn(i + 1)
			tbl[i], tbl[j] = tbl[j], tbl[i]
		}
		one(r, input{Kind: "store", Listing: "accounts", Table: tbl, Own: "l1", Size: uint64(99 + g.Intn(3)), Pit: pit})
		one(r, input{Kind: "http-v2", Listing: "accounts", Table: tbl, Own: "l1", SizeParam: sp("100"), Pit: pit})
		one(r, input{Kind: "http-v1", Listing: "accounts", Table: tbl, Own: "l1", SizeParam: sp([]string{"100", "101", "150", "204", "1000"}[g.Intn(5)]), Pit: pit})
		lst := []string{"transactions", "logs"}[g.Intn(2)]
		one(r, input{Kind: "http-v2", Listing: lst, Table: tbl, Own: "l1", SizeParam: sp("100"), Pit: pit})
		one(r, input{Kind: "http-v1", Listing: lst, Table: tbl, Own: "l1", SizeParam: sp([]string{"100", "101", "150"}[g.Intn(3)]), Pit: pit})
	}
	// 1c. the library's HTTP follower (api.FetchAllPaginated) over the v1 and v2 routers: collections of 0..7 items,
	// page sizes 1, 2, size-1, size, size+1; contents compared item by item. Every tier, every seed.
	for n := 0; n <= 7; n++ {
		seen := map[int]bool{}
		for _, ps := range []int{1, 2, n - 1, n, n + 1} {
			if ps < 1 || seen[ps] {
				continue
			}
			seen[ps] = true
			for _, listing := range []string{"transactions", "accounts", "logs"} {
				var tbl []brow
				for i := 0; i < n; i++ {
					tbl = append(tbl, brow{Ledger: "l1", ID: int64(i), Attr: g.Intn(3)})
				}
				for i := 0; i < g.Intn(3); i++ {
					tbl = append(tbl, brow{Ledger: "l2", ID: int64(i), Attr: g.Intn(3)})
				}
				for i := len(tbl) - 1; i > 0; i-- {
					j := g.Intn(i + 1)
					tbl[i], tbl[j] = tbl[j], tbl[i]
				}
				one(r, input{Kind: "follow-v2", Listing: listing, Table: tbl, Own: "l1", SizeParam: sp(fmt.Sprint(ps)), Pit: pit})
				in := input{Kind: "follow-v1", Listing: listing, Table: tbl, Own: "l1", SizeParam: sp(fmt.Sprint(ps)), Pit: pit}
				one(r, in)
				in.Filter = genListingFilter(g, listing, true, true) // v1 filters are URL parameters; v2 filters need a body, which the follower cannot send
				if in.Filter != nil {
					one(r, in)
				}
			}
		}
	}
	// 2. the hypotheses: page size 0, duplicate keys (the calls go to the model; the walk oracle is off)
	for n := 0; n <= 4; n++ {
		for _, o := range []string{"asc", "desc"} {
			one(r, input{Kind: "col-walk", Rows: perm(g, n, 0), Size: 0, Order: o})
		}
		one(r, input{Kind: "off-walk", Rows: perm(g, n, 0), Size: 0, Order: "asc"})
	}
	nd := 12
	if th {
		nd = 300
	}
	for k := 0; k < nd; k++ {
		n := 2 + g.Intn(8)
		rows := make([]int64, n)
		for i := range rows {
			rows[i] = int64(g.Intn(n/2 + 1))
		}
		one(r, input{Kind: "col-walk", Rows: rows, Size: uint64(1 + g.Intn(4)), Order: []string{"asc", "desc"}[g.Intn(2)]})
	}
	// 3. random walks over sparse keys, random filters
	nw := 40
	if th {
		nw = 1000
	}
	for k := 0; k < nw; k++ {
		n := g.Intn(30)
		size := uint64(1 + g.Intn(9))
		if th && g.Chance(1, 25) {
			n = 100 + g.Intn(200) // a few large collections (each step is a case carrying all keys)
			size = uint64(7 + g.Intn(40))
		}
		in := input{Kind: "col-walk", Rows: sparseKeys(g, n), Size: size, Order: []string{"asc", "desc"}[g.Intn(2)], Pit: genPit(g)}
		if g.Bool() {
			in.Filter = genFilter(g, 2)
		}
		one(r, in)
		if g.Chance(1, 3) {
			in.Kind = "off-walk"
			one(r, in)
		}
	}
	// 4. arbitrary single queries
	nq := 150
	if th {
		nq = 4000
	}
	for k := 0; k < nq; k++ {
		q := genQdesc(g, false)
		q.Size = uint64(g.Intn(6))
		if g.Chance(2, 3) {
			q.Filter = nil
		}
		one(r, input{Kind: "col-query", Rows: sparseKeys(g, g.Intn(12)), Query: q})
	}
	// 5. codec
	nc := 200
	if th {
		nc = 6000
	}
	for k := 0; k < nc; k++ {
		one(r, input{Kind: "codec", Query: genQdesc(g, g.Chance(1, 4))})
	}
	for _, qb := range foreignFilters {
		one(r, input{Kind: "decode", Doc: `{"pageSize":3,"bottom":9,"column":"id","paginationID":4,"order":1,"filters":{"qb":` + qb + `,"pageSize":3,"options":{"pit":null,"volumes":false,"effectiveVolumes":true}},"reverse":false}`})
	}
	// 5b. what a cursor has to carry: filter values of every byte class at every alignment modulo 3 of the cursor
	// document (base64 alphabets differ on the sextets 62/63 only), and filters of every size (a token embeds the
	// whole filter of the first request). Each goes through the codec directly (UnmarshalCursor(EncodeCursor(q)) = q)
	// and through a listing walk (first page, next, previous with exactly the tokens handed out). Every tier and seed.
	{
		small := func(own string) []brow {
			var t []brow
			for i := 0; i < 5; i++ {
				t = append(t, brow{Ledger: own, ID: int64(i), Attr: i % 3})
			}
			return append(t, brow{Ledger: "l2", ID: 0, Attr: 1}, brow{Ledger: "l2", ID: 3, Attr: 0})
		}
		// a filter over the given values the listing accepts and the table driver does not evaluate (so the walk has
		// several pages whatever the values are)
		mk := func(listing, op string, vals []string) *fexpr {
			var items []*fexpr
			for i, v := range vals {
				if listing == "logs" {
					items = append(items, &fexpr{Op: []string{"gte", "lt"}[i%2], Key: "date", Value: v})
				} else {
					items = append(items, &fexpr{Op: "match", Key: fmt.Sprintf("metadata[u%d]", i), Value: v})
				}
			}
			if listing == "logs" && len(items) == 1 {
				items = append(items, &fexpr{Op: "lt", Key: "date", Value: vals[0]})
			}
			if len(items) == 1 && op == "" {
				return items[0]
			}
			if op == "" {
				op = "or"
			}
			return &fexpr{Op: op, Items: items}
		}
		paths := [][2]string{{"store", "transactions"}, {"http-v2", "transactions"}, {"http-v1", "transactions"}, {"store", "accounts"},
			{"http-v2", "accounts"}, {"http-v1", "accounts"}, {"store", "logs"}, {"http-v2", "logs"}}
		walk := func(kind, listing string, f *fexpr, size int) {
			in := input{Kind: kind, Listing: listing, Table: small("l1"), Own: "l1", Filter: f, Pit: pit}
			if kind == "store" {
				in.Size = uint64(size)
			} else {
				in.SizeParam = sp(fmt.Sprint(size))
			}
			one(r, in)
		}
		codec := func(f *fexpr, k int) {
			pid, off := int64(1), uint64(1)
			for i := 0; i < k%3; i++ {
				pid, off = pid*10+1, off*10+1
			}
			one(r, input{Kind: "codec", Query: &qdesc{Size: uint64(1 + k%120), Column: "id", Order: "desc", Pid: &pid, Bottom: &pid, Filter: f, OptSize: uint64(k % 7), Pit: pit, Reverse: k%2 == 0}})
			one(r, input{Kind: "codec", Query: &qdesc{Size: uint64(1 + k%120), Order: "asc", Offset: &off, Filter: f, OptSize: 15, Pit: pit}})
		}
		rot := g.Intn(len(paths))
		k := 0
		for _, v := range cursorValues {
			for pad := 0; pad < 3; pad++ {
				val := "xx"[:pad] + v
				pth := paths[(k+rot)%len(paths)]
				f := mk(pth[1], "", []string{val})
				codec(f, k)
				walk(pth[0], pth[1], f, 2)
				k++
			}
		}
		clause := func(i int) string { return fmt.Sprintf("https://example.com/cb?id=%d&t=~%d", i, i*7) }
		for _, n := range []int{1, 5, 30, 100, 300} {
			vals := make([]string, n)
			for i := range vals {
				vals[i] = clause(i)
			}
			for _, op := range []string{"or", "and"} {
				codec(mk("transactions", op, vals), k)
				k++
				walk("http-v2", []string{"transactions", "accounts"}[g.Intn(2)], mk("transactions", op, vals), 2)
				walk("store", "logs", mk("logs", op, vals), 1+g.Intn(3))
				if g.Bool() || n >= 100 {
					walk("store", []string{"transactions", "accounts"}[g.Intn(2)], mk("transactions", op, vals), 2)
				}
			}
		}
		for _, n := range []int{10, 1000, 10000} {
			for pad := 0; pad < 3; pad++ {
				val := "xx"[:pad] + strings.Repeat("a?~b", n/4+1)[:n]
				f := mk("transactions", "", []string{val})
				codec(f, k)
				k++
				walk([]string{"http-v2", "http-v1", "store"}[pad], []string{"transactions", "accounts"}[g.Intn(2)], f, 2)
			}
		}
	}
	// 6. GetPageSize
	for _, dm := range [][2]uint64{{15, 100}, {15, 1000}, {1, 1}, {7, 5}} {
		one(r, input{Kind: "pagesize", Default: dm[0], Max: dm[1]})
		for _, p := range []string{"", "0", "1", "5", "15", "99", "100", "101", "1000", "1001", "99999", "abc", "-1", "1.5", "4294967295", "4294967296", "00", "+3", " 3"} {
			one(r, input{Kind: "pagesize", Default: dm[0], Max: dm[1], Param: sp(p)})
		}
	}
	// 7. the listings of the real store, and through the HTTP handlers
	nl := 30
	if th {
		nl = 500
	}
	for k := 0; k < nl; k++ {
		for _, listing := range []string{"logs", "transactions", "accounts"} {
			tbl := genBucket(g, 9)
			own := []string{"l1", "l2"}[g.Intn(2)]
			size := uint64(1 + g.Intn(5))
			one(r, input{Kind: "store", Listing: listing, Table: tbl, Own: own, Size: size, Filter: genListingFilter(g, listing, false, true), Pit: genPit(g)})
			szp := sp(fmt.Sprint(size))
			switch g.Intn(6) {
			case 0:
				szp = sp("0")
			case 1:
				szp = nil
			}
			hp := genPit(g)
			if hp == nil {
				hp = pit
			}
			one(r, input{Kind: "http-v2", Listing: listing, Table: tbl, Own: own, SizeParam: szp, Filter: genListingFilter(g, listing, false, false), Pit: hp})
			one(r, input{Kind: "http-v1", Listing: listing, Table: tbl, Own: own, SizeParam: szp, Filter: genListingFilter(g, listing, true, true), Pit: hp})
		}
	}
	one(r, input{Kind: "http-v2", Listing: "transactions", Table: genBucket(g, 5), Own: "l1", SizeParam: sp("abc")})
	r.Finish()
}

// filter values of every byte class (each is used at three paddings)
var cursorValues = []string{
	"?", "~", "??", "~~~", "?~?~", ">", "<", "+", "/", "-", "_", "=", "&", "%", "#", "'", "\"", "\\", " ", "a b",
	"!\"#$%&'()*+,-./:;<=>?@[\\]^_`{|}~", "????????", "~~~~~~~~", "+/+/-_-_==", "https://example.com/callback?id=1", "https://example.com/a/b?x=~a&y=?",
	"~temporary", "a?b~c", "é", "ÿ?", "ßü~", "€", "漢字?~", "€€€", "😀", "🙂~?é€", "x😀y?", strings.Repeat("?~", 50),
}

// filter members a foreign cursor may carry: accepted and refused shapes of query.ParseJSON
var foreignFilters = []string{
	`null`, `{}`, `[]`, `5`, `"x"`, `true`,
	`{"$and":[]}`, `{"$or":[{"$match":{"a":1}}]}`, `{"$and":{"$match":{"a":1}}}`, `{"$and":[5]}`, `{"$and":[{"$match":{"a":1}},{}]}`,
	`{"$match":{"a":1}}`, `{"$match":{"a":1,"b":2}}`, `{"$match":{}}`, `{"$match":5}`, `{"$match":[1]}`,
	`{"$lt":{"a":{"x":[1,2]}}}`, `{"$lte":{"a":null}}`, `{"$gt":{"a":"s"}}`, `{"$gte":{"a":true}}`,
	`{"$not":{"$match":{"a":1}}}`, `{"$not":5}`, `{"$not":[{"$match":{"a":1}}]}`, `{"$not":{"$nor":[]}}`,
	`{"$nor":[]}`, `{"match":{"a":1}}`, `{"$match":{"a":1},"$lt":{"a":2}}`,
	`{"$and":[{"$or":[{"$not":{"$and":[]}}]},{"$lt":{"k":-3}}]}`,
}
