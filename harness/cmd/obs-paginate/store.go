package main

// The glue: the real ledgerstore list methods (through ledgerstore.NewStoreForVerif) and the real v1/v2 HTTP
// handlers on top of them, over the table-serving driver holding a bucket shared by several ledgers.

import (
	"bytes"
	"context"
	"database/sql"
	"database/sql/driver"
	"encoding/json"
	"fmt"
	"net/http"
	"net/http/httptest"
	"net/url"
	"sort"
	"strconv"
	"strings"

	ledger "github.com/formancehq/ledger/internal"
	"github.com/formancehq/ledger/internal/api/backend"
	v1 "github.com/formancehq/ledger/internal/api/v1"
	v2 "github.com/formancehq/ledger/internal/api/v2"
	"github.com/formancehq/ledger/internal/opentelemetry/metrics"
	"github.com/formancehq/ledger/internal/storage/ledgerstore"
	"github.com/formancehq/ledger/verifx/fakeapi"
	"github.com/formancehq/ledger/verifx/fakesql/tabledrv"
	"github.com/formancehq/ledger/verifx/vx"
	sharedapi "github.com/formancehq/stack/libs/go-libs/api"
	"github.com/formancehq/stack/libs/go-libs/auth"
	"github.com/formancehq/stack/libs/go-libs/bun/bunpaginate"
	"github.com/formancehq/stack/libs/go-libs/health"
	"github.com/uptrace/bun"
	"github.com/uptrace/bun/dialect/pgdialect"
)

// brow is one row of the bucket: ledger, numeric key (log id / transaction id / account number), an attribute
// the filters of the suite can select on (transaction reference "r<attr>", log date second, account metadata).
type brow struct {
	Ledger string `json:"ledger"`
	ID     int64  `json:"id"`
	Attr   int    `json:"attr"`
}

// txReference: rows with id = 3 mod 4 have no reference (an omitempty member present on some items only)
func txReference(r brow) string {
	if r.ID%4 == 3 {
		return ""
	}
	return fmt.Sprintf("r%d", r.Attr)
}
func accountAddr(id int64) string { return fmt.Sprintf("acc:%04d", id) }
func dateOf(attr int) string      { return fmt.Sprintf("2019-01-01T00:00:%02dZ", attr%60) }

type bucket struct {
	d      *tabledrv.DB
	db     *bun.DB
	rows   []brow
	table  string
	keyCol string
}

func newBucket(listing string, rows []brow) *bucket {
	d := tabledrv.New()
	b := &bucket{d: d, rows: rows}
	switch listing {
	case "logs":
		b.table, b.keyCol = "logs", "id"
		t := &tabledrv.Table{Cols: []string{"ledger", "id", "type", "hash", "date", "data", "idempotency_key"}}
		for _, r := range rows {
			t.Rows = append(t.Rows, []driver.Value{r.Ledger, strconv.FormatInt(r.ID, 10), "SET_METADATA", []byte{1}, dateOf(r.Attr),
				[]byte(fmt.Sprintf(`{"targetType":"ACCOUNT","targetId":"a%d","metadata":{"k%d":"v%d"}}`, r.ID, r.ID%3, r.ID)), fmt.Sprintf("%s/%d", r.Ledger, r.ID)})
		}
		d.Tables["logs"] = t
	case "transactions":
		b.table, b.keyCol = "transactions", "id"
		t := &tabledrv.Table{Cols: []string{"ledger", "id", "timestamp", "reference", "postings", "metadata"}}
		for _, r := range rows {
			// contents differ from row to row: amounts, metadata key sets, a reference on some rows only
			var ref driver.Value
			if s := txReference(r); s != "" {
				ref = s
			}
			t.Rows = append(t.Rows, []driver.Value{r.Ledger, strconv.FormatInt(r.ID, 10), dateOf(r.Attr), ref,
				[]byte(fmt.Sprintf(`[{"source":"world","destination":"acc:%d","amount":%d,"asset":"USD"}]`, r.ID, 100+r.ID)),
				[]byte(fmt.Sprintf(`{"ledger":%q,"k%d":"v%d"}`, r.Ledger, r.ID%3, r.ID))})
		}
		d.Tables["transactions"] = t
	case "accounts":
		b.table, b.keyCol = "accounts", "address"
		t := &tabledrv.Table{Cols: []string{"ledger", "address", "metadata", "insertion_date"}}
		for _, r := range rows {
			t.Rows = append(t.Rows, []driver.Value{r.Ledger, accountAddr(r.ID), []byte(fmt.Sprintf(`{"ledger":%q,"attr":"%d","k%d":"v%d"}`, r.Ledger, r.Attr, r.ID%3, r.ID)), dateOf(0)})
		}
		d.Tables["accounts"] = t
	}
	d.KeyCol = b.keyCol
	b.db = bun.NewDB(sql.OpenDB(d.Connector()), pgdialect.New(), bun.WithDiscardUnknownColumns())
	return b
}

func (b *bucket) store(name string) *ledgerstore.Store {
	return ledgerstore.NewStoreForVerif(b.db, "bucket0", name)
}

// lpage is one page of a listing as seen by a client: items as (ledger tag, key), cursors raw.
type lpage struct {
	Tags     []string
	Keys     []int64
	HasMore  bool
	Next     string
	Prev     string
	PageSize int
	Status   int // HTTP only
	Err      string
	Stmt     *tabledrv.Stmt
}

func keyOfAddr(a string) int64 {
	n, _ := strconv.ParseInt(strings.TrimPrefix(a, "acc:"), 10, 64)
	return n
}

// one call of the real store method for the listing, from a typed query or from a cursor
func storeCall(b *bucket, listing, name string, first *qdesc, cursor string) (p lpage) {
	defer func() {
		if r := recover(); r != nil {
			p.Err = "panic: " + fmt.Sprint(r)
		}
	}()
	b.d.Reset()
	st := b.store(name)
	ctx := context.Background()
	switch listing {
	case "logs":
		var q ledgerstore.GetLogsQuery
		if first != nil {
			q = ledgerstore.NewGetLogsQuery(logOpts{QueryBuilder: first.Filter.builder(), PageSize: first.Size})
		} else if err := bunpaginate.UnmarshalCursor(cursor, &q); err != nil {
			return lpage{Err: "cursor: " + err.Error()}
		}
		c, err := st.GetLogs(ctx, q)
		if err != nil {
			return lpage{Err: err.Error()}
		}
		for _, l := range c.Data {
			p.Tags = append(p.Tags, strings.SplitN(l.IdempotencyKey, "/", 2)[0])
			p.Keys = append(p.Keys, l.ID.Int64())
		}
		p.HasMore, p.Next, p.Prev, p.PageSize = c.HasMore, c.Next, c.Previous, c.PageSize
	case "transactions":
		var q ledgerstore.GetTransactionsQuery
		if first != nil {
			q = ledgerstore.NewGetTransactionsQuery(first.realOpts().WithPageSize(first.Size))
		} else if err := bunpaginate.UnmarshalCursor(cursor, &q); err != nil {
			return lpage{Err: "cursor: " + err.Error()}
		}
		c, err := st.GetTransactions(ctx, q)
		if err != nil {
			return lpage{Err: err.Error()}
		}
		for _, t := range c.Data {
			p.Tags = append(p.Tags, t.Metadata["ledger"])
			p.Keys = append(p.Keys, t.ID.Int64())
		}
		p.HasMore, p.Next, p.Prev, p.PageSize = c.HasMore, c.Next, c.Previous, c.PageSize
	case "accounts":
		var q ledgerstore.GetAccountsQuery
		if first != nil {
			q = ledgerstore.NewGetAccountsQuery(first.realOpts().WithPageSize(first.Size))
		} else if err := bunpaginate.UnmarshalCursor(cursor, &q); err != nil {
			return lpage{Err: "cursor: " + err.Error()}
		}
		c, err := st.GetAccountsWithVolumes(ctx, q)
		if err != nil {
			return lpage{Err: err.Error()}
		}
		for _, a := range c.Data {
			p.Tags = append(p.Tags, a.Metadata["ledger"])
			p.Keys = append(p.Keys, keyOfAddr(a.Address))
		}
		p.HasMore, p.Next, p.Prev, p.PageSize = c.HasMore, c.Next, c.Previous, c.PageSize
	}
	p.Stmt = b.d.Last()
	return p
}

// ---- the backend behind the HTTP routers: the real stores ---------------------------------------------------

type storeLedger struct {
	*fakeapi.Ledger
	st *ledgerstore.Store
}

func (l *storeLedger) GetTransactions(ctx context.Context, q ledgerstore.GetTransactionsQuery) (*sharedapi.Cursor[ledger.ExpandedTransaction], error) {
	return l.st.GetTransactions(ctx, q)
}
func (l *storeLedger) GetLogs(ctx context.Context, q ledgerstore.GetLogsQuery) (*sharedapi.Cursor[ledger.ChainedLog], error) {
	return l.st.GetLogs(ctx, q)
}
func (l *storeLedger) GetAccountsWithVolumes(ctx context.Context, q ledgerstore.GetAccountsQuery) (*sharedapi.Cursor[ledger.ExpandedAccount], error) {
	return l.st.GetAccountsWithVolumes(ctx, q)
}

type storeBackend struct {
	*fakeapi.Backend
	b *bucket
}

func (sb *storeBackend) GetLedgerEngine(ctx context.Context, name string) (backend.Ledger, error) {
	return &storeLedger{Ledger: &fakeapi.Ledger{}, st: sb.b.store(name)}, nil
}

func routers(b *bucket) (http.Handler, http.Handler) {
	sb := &storeBackend{Backend: &fakeapi.Backend{L: &fakeapi.Ledger{}}, b: b}
	return v1.NewRouter(sb, &health.HealthController{}, metrics.NewNoOpRegistry(), auth.NewNoAuth()),
		v2.NewRouter(sb, &health.HealthController{}, metrics.NewNoOpRegistry(), auth.NewNoAuth())
}

// v1Params renders the (restricted) filters of the suite as v1 URL parameters.
func v1Params(listing string, f *fexpr, vals url.Values) bool {
	if f == nil {
		return true
	}
	switch {
	case f.Op == "match" && f.Key == "reference" && listing == "transactions":
		vals.Set("reference", fmt.Sprint(f.Value))
	case f.Op == "match" && strings.HasPrefix(f.Key, "metadata[") && listing != "logs":
		vals.Set(f.Key, fmt.Sprint(f.Value))
	case f.Op == "match" && f.Key == "address" && listing == "accounts":
		vals.Set("address", fmt.Sprint(f.Value))
	case f.Op == "gte" && f.Key == "date" && listing == "logs":
		vals.Set("start_time", fmt.Sprint(f.Value))
	case f.Op == "lt" && f.Key == "date" && listing == "logs":
		vals.Set("end_time", fmt.Sprint(f.Value))
	case f.Op == "not" && listing == "accounts" && f.Items[0].Op == "match" && f.Items[0].Key == "balance":
		vals.Set("balance", fmt.Sprint(f.Items[0].Value))
		vals.Set("balanceOperator", "ne")
	case f.Op == "and":
		for _, it := range f.Items {
			if it.Op == "and" || !v1Params(listing, it, vals) {
				return false
			}
		}
	default:
		return false
	}
	return true
}

func httpCall(h http.Handler, b *bucket, api, listing, name string, in *input, cursor string) (p lpage) {
	b.d.Reset()
	vals := url.Values{}
	var body []byte
	if cursor != "" {
		vals.Set("cursor", cursor)
	} else {
		if in.SizeParam != nil {
			vals.Set("pageSize", *in.SizeParam)
		}
		if in.Pit != nil {
			vals.Set("pit", *in.Pit)
		}
		if api == "v2" {
			if in.Filter != nil {
				body, _ = json.Marshal(in.Filter.body())
			}
		} else {
			v1Params(listing, in.Filter, vals)
		}
	}
	req := httptest.NewRequest(http.MethodGet, "/"+name+"/"+listing+"?"+vals.Encode(), bytes.NewReader(body))
	rec := httptest.NewRecorder()
	h.ServeHTTP(rec, req)
	p.Status = rec.Code
	p.Stmt = b.d.Last()
	if rec.Code != http.StatusOK {
		p.Err = fmt.Sprintf("status %d", rec.Code)
		return p
	}
	var resp struct {
		Cursor *struct {
			PageSize int               `json:"pageSize"`
			HasMore  bool              `json:"hasMore"`
			Previous string            `json:"previous"`
			Next     string            `json:"next"`
			Data     []json.RawMessage `json:"data"`
		} `json:"cursor"`
	}
	if err := json.Unmarshal(rec.Body.Bytes(), &resp); err != nil || resp.Cursor == nil {
		p.Err = "response is not a cursor"
		return p
	}
	c := resp.Cursor
	p.HasMore, p.Next, p.Prev, p.PageSize = c.HasMore, c.Next, c.Previous, c.PageSize
	for _, raw := range c.Data {
		var it struct {
			ID             *int64            `json:"id"`
			TxID           *int64            `json:"txid"`
			Address        string            `json:"address"`
			Metadata       map[string]string `json:"metadata"`
			IdempotencyKey string            `json:"idempotencyKey"`
		}
		_ = json.Unmarshal(raw, &it)
		switch listing {
		case "logs":
			p.Tags = append(p.Tags, strings.SplitN(it.IdempotencyKey, "/", 2)[0])
		default:
			p.Tags = append(p.Tags, it.Metadata["ledger"])
		}
		switch {
		case listing == "accounts":
			p.Keys = append(p.Keys, keyOfAddr(it.Address))
		case it.ID != nil:
			p.Keys = append(p.Keys, *it.ID)
		case it.TxID != nil:
			p.Keys = append(p.Keys, *it.TxID)
		default:
			p.Keys = append(p.Keys, -1)
		}
	}
	return p
}

// ---- the walk over a listing (store or HTTP) and its oracle -------------------------------------------------

func listingWalk(r *vx.Run, in input) {
	b := newBucket(in.Listing, in.Table)
	via := in.Kind // store | http-v1 | http-v2
	var h1, h2 http.Handler
	if via != "store" {
		h1, h2 = routers(b)
	}
	cls := filterClass(in.Filter)
	sigTail := ":" + in.Listing + ":" + via + ":" + cls
	size := len(in.Table) + in.Filter.size()
	fail := func(sig, detail string) { r.FailSized(sig+sigTail, in, detail, size) }
	// the page size the client asked for, as a number
	asked := in.Size
	if via != "store" {
		asked = bunpaginate.QueryDefaultPageSize
		if in.SizeParam != nil {
			n, err := strconv.ParseUint(*in.SizeParam, 10, 32)
			if err != nil {
				asked = 0 // the request must be refused
			} else {
				asked = n
			}
		}
	}
	call := func(cursor string) lpage {
		switch via {
		case "store":
			if cursor == "" {
				q := qdesc{Size: in.Size, Filter: in.Filter, Pit: in.Pit, OptSize: in.Size}
				return storeCall(b, in.Listing, in.Own, &q, "")
			}
			return storeCall(b, in.Listing, in.Own, nil, cursor)
		case "http-v1":
			return httpCall(h1, b, "v1", in.Listing, in.Own, &in, cursor)
		}
		return httpCall(h2, b, "v2", in.Listing, in.Own, &in, cursor)
	}
	keyCol := b.keyCol
	isKeyCond := func(c tabledrv.Cond) bool { return c.Col == keyCol && in.Listing != "accounts" }
	filterSQL := func(st *tabledrv.Stmt) string {
		var parts []string
		for _, c := range st.Conds {
			if !isKeyCond(c) {
				parts = append(parts, c.Col+c.Op+c.Lit)
			}
		}
		parts = append(parts, st.Ignored...)
		sort.Strings(parts)
		return strings.Join(parts, " AND ")
	}
	keyAt := func(i int) int64 { return in.Table[i].ID }

	var pages []lpage
	var expected []int64
	var firstFilter string
	// findings about the statements are reported after the walk, so that the replay shows the symptom on the
	// items when there is one (foreign / repeated items, endless walk) and the statement otherwise
	var later [][2]string
	defer func() {
		for _, l := range later {
			fail(l[0], l[1])
		}
	}()
	noteLater := func(sig, detail string) {
		for _, l := range later {
			if l[0] == sig {
				return
			}
		}
		later = append(later, [2]string{sig, detail})
	}
	bound := len(in.Table) + 3
	cursor := ""
	ended := false
	for step := 0; step < bound; step++ {
		p := call(cursor)
		if via != "store" && step == 0 && in.SizeParam != nil {
			if _, err := strconv.ParseUint(*in.SizeParam, 10, 32); err != nil {
				if p.Status != http.StatusBadRequest {
					fail("page-size-invalid-accepted", fmt.Sprintf("pageSize=%s answered with status %d", *in.SizeParam, p.Status))
				}
				r.Case("", in, "listing-invalid-pagesize", false)
				return
			}
		}
		if p.Err != "" {
			if step == 0 {
				fail("listing:first-page-fails", p.Err)
			} else if strings.HasPrefix(p.Err, "cursor:") || p.Status == http.StatusBadRequest {
				fail("cursor-rejected:next", fmt.Sprintf("page %d: the cursor handed out by page %d is refused (%s)", step, step-1, p.Err))
			} else {
				fail("listing:page-fails", p.Err)
			}
			return
		}
		st := p.Stmt
		if st == nil {
			fail("listing:no-statement", "the call sent no SELECT")
			return
		}
		// (a) what the statement ranges over: restricted to the ledger, hence (unique index (ledger, key)) a
		// unique sort key
		restricted := false
		for _, c := range st.Conds {
			if c.Col == "ledger" && c.Op == "=" && c.Lit == in.Own {
				restricted = true
			}
		}
		var ranged []int64
		foreign := false
		for _, i := range st.Ranged {
			ranged = append(ranged, keyAt(i))
			if in.Table[i].Ledger != in.Own {
				foreign = true
			}
		}
		if step == 0 {
			firstFilter = filterSQL(st)
			src := st.Ranged
			if in.Listing == "accounts" {
				src = st.Sorted
			}
			for _, i := range src {
				if in.Table[i].Ledger == in.Own {
					expected = append(expected, keyAt(i))
				}
			}
			if in.Listing != "accounts" {
				expected = sortedKeys(expected, "desc")
			}
		} else if f := filterSQL(st); f != firstFilter {
			fail("cursor-changes-query", fmt.Sprintf("page %d selects with [%s], the first page with [%s]", step, f, firstFilter))
			return
		}
		if !restricted {
			noteLater("listing-not-restricted-to-ledger", "no top-level `ledger = '"+in.Own+"'` in: "+st.SQL)
		} else if foreign || !noDup(ranged) {
			noteLater("sort-key-not-unique", fmt.Sprintf("the statement ranges over keys %v: %s", ranged, st.SQL))
		}
		// (b) the same call through the model
		if w, err := decodeWire(cursor); cursor != "" && err == nil {
			if in.Listing == "accounts" {
				if qd, why := qdescFromWire(w, true); why == "" {
					var srt []int64
					for _, i := range st.Sorted {
						srt = append(srt, keyAt(i))
					}
					emitOff(r, in, fmt.Sprintf("listing/%s/%s/%d", via, cursor, step), srt, *qd, lpageObs(p, true), true)
				} else if why == "filter" {
					fail("cursor-loses-filter:next", cursor)
					return
				}
			} else {
				if qd, why := qdescFromWire(w, false); why == "" {
					emitCol(r, in, fmt.Sprintf("listing/%s/%s/%d", via, cursor, step), ranged, *qd, lpageObs(p, false), true)
				} else if why == "filter" {
					fail("cursor-loses-filter:next", cursor)
					return
				}
			}
		} else {
			r.Case("", in, fmt.Sprintf("listing/%s/%v/first", via, in), false)
		}
		// (c) page size
		want := asked
		if via == "http-v2" && want > v2.MaxPageSize {
			want = v2.MaxPageSize
		}
		if via == "http-v1" && want > v1.MaxPageSize {
			want = v1.MaxPageSize
		}
		if want == 0 {
			want = bunpaginate.QueryDefaultPageSize
		}
		if step == 0 && via != "store" && uint64(p.PageSize) != want {
			askedFor := "nothing"
			if in.SizeParam != nil {
				askedFor = *in.SizeParam
			}
			noteLater("page-size", fmt.Sprintf("asked for pageSize=%s, the page reports pageSize %d", askedFor, p.PageSize))
		}
		pages = append(pages, p)
		if !p.HasMore {
			ended = true
			break
		}
		if p.Next == "" {
			fail("walk:hasMore-without-next", "")
			return
		}
		cursor = p.Next
	}
	if !ended {
		later = nil
		fail("walk:endless", fmt.Sprintf("hasMore still true after %d pages over %d rows (page size reported: %d)", bound, len(in.Table), pages[0].PageSize))
		return
	}
	var all []int64
	for _, p := range pages {
		for i, t := range p.Tags {
			if t != in.Own {
				later = nil
				fail("walk:foreign-item", fmt.Sprintf("item %d of ledger %q in the listing of %q: pages %v", p.Keys[i], t, in.Own, lpagesData(pages)))
				return
			}
		}
		all = append(all, p.Keys...)
	}
	if !eqKeys(all, expected) {
		later = nil
		fail("walk:"+diffClass(all, expected), fmt.Sprintf("pages %v, expected %v", lpagesData(pages), expected))
		return
	}
	// previous of every page >= 1 is accepted and shows the page before
	for k := 1; k < len(pages); k++ {
		if pages[k].Prev == "" {
			fail("previous:missing", fmt.Sprintf("page %d has no previous cursor", k))
			return
		}
		p := call(pages[k].Prev)
		if p.Err != "" {
			fail("cursor-rejected:previous", p.Err)
			return
		}
		if !eqKeys(p.Keys, pages[k-1].Keys) {
			fail("previous:wrong-page", fmt.Sprintf("previous of page %d shows %v, page %d was %v", k, p.Keys, k-1, pages[k-1].Keys))
			return
		}
	}
}

func lpagesData(ps []lpage) [][]int64 {
	out := make([][]int64, len(ps))
	for i, p := range ps {
		out[i] = p.Keys
	}
	return out
}

func lpageObs(p lpage, offset bool) pageObs {
	o := pageObs{Data: p.Keys, PageSize: p.PageSize, HasMore: p.HasMore, PrevRaw: p.Prev, NextRaw: p.Next}
	readCursors(&o, offset)
	return o
}
