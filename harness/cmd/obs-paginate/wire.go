package main

// Descriptions of queries and filters (the harness's own, JSON-serialisable form), their conversion to the real
// types, to Coq terms of Paginate/Model.v, and the reading of cursors in their wire form (base64url(JSON)).

import (
	"bytes"
	"encoding/base64"
	"encoding/json"
	"fmt"
	"math"
	"sort"
	"strconv"
	"strings"

	ledger "github.com/formancehq/ledger/internal"
	"github.com/formancehq/ledger/internal/storage/ledgerstore"
	"github.com/formancehq/ledger/verifx/vx"
	"github.com/formancehq/stack/libs/go-libs/bun/bunpaginate"
	"github.com/formancehq/stack/libs/go-libs/query"
)

// ---- ordered JSON tree ---------------------------------------------------------------------------------

type jkind int

const (
	jNull jkind = iota
	jBool
	jNum
	jStr
	jArr
	jObj
)

type jfield struct {
	K string
	V *jv
}
type jv struct {
	Kind jkind
	B    bool
	Num  string
	S    string
	Arr  []*jv
	Obj  []jfield
}

func parseJV(data []byte) (*jv, error) {
	dec := json.NewDecoder(bytes.NewReader(data))
	dec.UseNumber()
	v, err := readJV(dec)
	if err != nil {
		return nil, err
	}
	if dec.More() {
		return nil, fmt.Errorf("trailing data")
	}
	return v, nil
}

func readJV(dec *json.Decoder) (*jv, error) {
	t, err := dec.Token()
	if err != nil {
		return nil, err
	}
	switch x := t.(type) {
	case nil:
		return &jv{Kind: jNull}, nil
	case bool:
		return &jv{Kind: jBool, B: x}, nil
	case json.Number:
		return &jv{Kind: jNum, Num: x.String()}, nil
	case string:
		return &jv{Kind: jStr, S: x}, nil
	case json.Delim:
		switch x {
		case '[':
			out := &jv{Kind: jArr}
			for dec.More() {
				e, err := readJV(dec)
				if err != nil {
					return nil, err
				}
				out.Arr = append(out.Arr, e)
			}
			_, err := dec.Token()
			return out, err
		case '{':
			out := &jv{Kind: jObj}
			for dec.More() {
				kt, err := dec.Token()
				if err != nil {
					return nil, err
				}
				e, err := readJV(dec)
				if err != nil {
					return nil, err
				}
				out.Obj = append(out.Obj, jfield{kt.(string), e})
			}
			_, err := dec.Token()
			return out, err
		}
	}
	return nil, fmt.Errorf("unexpected token %v", t)
}

func (v *jv) get(k string) *jv {
	if v == nil || v.Kind != jObj {
		return nil
	}
	for _, f := range v.Obj {
		if f.K == k {
			return f.V
		}
	}
	return nil
}

// coq renders the tree as a term of type json; ok=false when a number is not an integer (not representable).
func (v *jv) coq() (string, bool) {
	switch v.Kind {
	case jNull:
		return "JNull", true
	case jBool:
		return "(JBool " + vx.CoqBool(v.B) + ")", true
	case jNum:
		if strings.ContainsAny(v.Num, ".eE") {
			return "", false
		}
		return "(JNum " + vx.CoqZ(v.Num) + ")", true
	case jStr:
		return "(JStr " + vx.CoqString(v.S) + ")", true
	case jArr:
		var xs []string
		for _, e := range v.Arr {
			s, ok := e.coq()
			if !ok {
				return "", false
			}
			xs = append(xs, s)
		}
		return "(JArr " + vx.CoqList(xs) + ")", true
	default:
		var xs []string
		for _, f := range v.Obj {
			s, ok := f.V.coq()
			if !ok {
				return "", false
			}
			xs = append(xs, "("+vx.CoqString(f.K)+", "+s+")")
		}
		return "(JObj " + vx.CoqList(xs) + ")", true
	}
}

// toAny converts to the encoding/json generic form (float64 numbers), as query.ParseJSON would see it.
func (v *jv) toAny() any {
	switch v.Kind {
	case jNull:
		return nil
	case jBool:
		return v.B
	case jNum:
		f, _ := strconv.ParseFloat(v.Num, 64)
		return f
	case jStr:
		return v.S
	case jArr:
		out := make([]any, 0, len(v.Arr))
		for _, e := range v.Arr {
			out = append(out, e.toAny())
		}
		return out
	default:
		out := map[string]any{}
		for _, f := range v.Obj {
			out[f.K] = f.V.toAny()
		}
		return out
	}
}

func anyToJV(a any) *jv {
	b, _ := json.Marshal(a)
	v, _ := parseJV(b)
	return v
}

// ---- filters -------------------------------------------------------------------------------------------

// fexpr describes a filter expression. Value is JSON-native (string, integral float64, bool, nil, []any, map).
type fexpr struct {
	Op    string   `json:"op"` // and | or | not | match | lt | lte | gt | gte
	Items []*fexpr `json:"items,omitempty"`
	Key   string   `json:"key,omitempty"`
	Value any      `json:"value,omitempty"`
}

func (f *fexpr) builder() query.Builder {
	if f == nil {
		return nil
	}
	switch f.Op {
	case "and", "or":
		items := make([]query.Builder, 0, len(f.Items))
		for _, it := range f.Items {
			items = append(items, it.builder())
		}
		if f.Op == "and" {
			return query.And(items...)
		}
		return query.Or(items...)
	case "not":
		return query.Not(f.Items[0].builder())
	case "match":
		return query.Match(f.Key, f.Value)
	case "lt":
		return query.Lt(f.Key, f.Value)
	case "lte":
		return query.Lte(f.Key, f.Value)
	case "gt":
		return query.Gt(f.Key, f.Value)
	case "gte":
		return query.Gte(f.Key, f.Value)
	}
	panic("harness: unknown filter op " + f.Op)
}

var kvCoq = map[string]string{"match": "OpMatch", "lt": "OpLt", "lte": "OpLte", "gt": "OpGt", "gte": "OpGte"}

func (f *fexpr) coq() (string, bool) {
	switch f.Op {
	case "and", "or":
		var xs []string
		for _, it := range f.Items {
			s, ok := it.coq()
			if !ok {
				return "", false
			}
			xs = append(xs, s)
		}
		op := "SAnd"
		if f.Op == "or" {
			op = "SOr"
		}
		return "(QSet " + op + " " + vx.CoqList(xs) + ")", true
	case "not":
		s, ok := f.Items[0].coq()
		return "(QNot " + s + ")", ok
	}
	v, ok := anyToJV(f.Value).coq()
	return "(QKV " + kvCoq[f.Op] + " " + vx.CoqString(f.Key) + " " + v + ")", ok
}

// body renders the filter in the syntax the v2 API accepts as request body.
func (f *fexpr) body() any {
	switch f.Op {
	case "and", "or":
		items := make([]any, 0, len(f.Items))
		for _, it := range f.Items {
			items = append(items, it.body())
		}
		return map[string]any{"$" + f.Op: items}
	case "not":
		return map[string]any{"$not": f.Items[0].body()}
	}
	return map[string]any{"$" + f.Op: map[string]any{f.Key: f.Value}}
}

// weight approximates the size of the filter's text; cases whose filter is heavier than coqFilterLimit are judged by
// the oracle only (a 10 000-character string or a 300-clause set costs coqc tens of seconds per shard)
const coqFilterLimit = 2500

func (f *fexpr) weight() int {
	if f == nil {
		return 0
	}
	n := 20 + len(f.Key)
	if s, ok := f.Value.(string); ok {
		n += len(s)
	}
	for _, it := range f.Items {
		n += it.weight()
	}
	return n
}

func (f *fexpr) size() int {
	if f == nil {
		return 0
	}
	n := 1
	for _, it := range f.Items {
		n += it.size()
	}
	return n
}

// fexprFromJV reads the wire form of a filter ({"$and":[...]}, {"$match":{"k":v}}, ...) — the harness's own
// reading, independent of query.ParseJSON.
func fexprFromJV(v *jv) (*fexpr, bool) {
	if v == nil || v.Kind != jObj || len(v.Obj) != 1 {
		return nil, false
	}
	k, x := v.Obj[0].K, v.Obj[0].V
	switch k {
	case "$and", "$or":
		if x.Kind != jArr {
			return nil, false
		}
		out := &fexpr{Op: k[1:], Items: []*fexpr{}}
		for _, e := range x.Arr {
			it, ok := fexprFromJV(e)
			if !ok {
				return nil, false
			}
			out.Items = append(out.Items, it)
		}
		return out, true
	case "$not":
		it, ok := fexprFromJV(x)
		if !ok {
			return nil, false
		}
		return &fexpr{Op: "not", Items: []*fexpr{it}}, true
	case "$match", "$lt", "$lte", "$gt", "$gte":
		if x.Kind != jObj || len(x.Obj) != 1 {
			return nil, false
		}
		return &fexpr{Op: k[1:], Key: x.Obj[0].K, Value: x.Obj[0].V.toAny()}, true
	}
	return nil, false
}

// ---- queries -------------------------------------------------------------------------------------------

// qdesc describes a ColumnPaginatedQuery[PaginatedQueryOptions[PITFilterWithVolumes]] (Offset == nil) or the
// offset form (Offset != nil; Bottom/Pid/Reverse/Column unused).
type qdesc struct {
	Size    uint64  `json:"size"`
	Bottom  *int64  `json:"bottom,omitempty"`
	Column  string  `json:"column,omitempty"`
	Pid     *int64  `json:"pid,omitempty"`
	Order   string  `json:"order"` // asc | desc
	Reverse bool    `json:"reverse,omitempty"`
	Offset  *uint64 `json:"offset,omitempty"`
	Filter  *fexpr  `json:"filter,omitempty"`
	OptSize uint64  `json:"optSize"`
	NoOpts  bool    `json:"noOpts,omitempty"` // options = null (the log listing: PaginatedQueryOptions[any])
	Pit     *string `json:"pit,omitempty"`    // RFC3339Nano, canonical
	Vol     bool    `json:"vol,omitempty"`
	EVol    bool    `json:"evol,omitempty"`
}

type colOpts = ledgerstore.PaginatedQueryOptions[ledgerstore.PITFilterWithVolumes]
type colQuery = bunpaginate.ColumnPaginatedQuery[colOpts]
type offQuery = bunpaginate.OffsetPaginatedQuery[colOpts]
type logOpts = ledgerstore.PaginatedQueryOptions[any]
type logQuery = bunpaginate.ColumnPaginatedQuery[logOpts]

func orderOf(s string) bunpaginate.Order {
	if s == "asc" {
		return bunpaginate.OrderAsc
	}
	return bunpaginate.OrderDesc
}

func (d qdesc) realOpts() colOpts {
	o := colOpts{QueryBuilder: d.Filter.builder(), PageSize: d.OptSize}
	if d.Pit != nil {
		t, err := ledger.ParseTime(*d.Pit)
		if err != nil {
			panic("harness: bad pit " + *d.Pit)
		}
		o.Options.PIT = &t
	}
	o.Options.ExpandVolumes, o.Options.ExpandEffectiveVolumes = d.Vol, d.EVol
	return o
}

func bigOf(p *int64) *bunpaginate.BigInt {
	if p == nil {
		return nil
	}
	return bunpaginate.FromInt64(*p)
}

func (d qdesc) realCol() colQuery {
	return colQuery{PageSize: d.Size, Bottom: bigOf(d.Bottom).ToMathBig(), Column: d.Column, PaginationID: bigOf(d.Pid).ToMathBig(),
		Order: orderOf(d.Order), Options: d.realOpts(), Reverse: d.Reverse}
}

func (d qdesc) realLog() logQuery {
	return logQuery{PageSize: d.Size, Bottom: bigOf(d.Bottom).ToMathBig(), Column: d.Column, PaginationID: bigOf(d.Pid).ToMathBig(),
		Order: orderOf(d.Order), Options: logOpts{QueryBuilder: d.Filter.builder(), PageSize: d.OptSize}, Reverse: d.Reverse}
}

func (d qdesc) realOff() offQuery {
	return offQuery{Offset: *d.Offset, Order: orderOf(d.Order), PageSize: d.Size, Options: d.realOpts()}
}

func coqOrder(s string) string {
	if s == "asc" {
		return "Asc"
	}
	return "Desc"
}
func coqOZ(p *int64) string {
	if p == nil {
		return "None"
	}
	return "(Some " + vx.CoqZ(strconv.FormatInt(*p, 10)) + ")"
}

func (d qdesc) coqOpts() (string, bool) {
	qb := "None"
	if d.Filter != nil {
		s, ok := d.Filter.coq()
		if !ok {
			return "", false
		}
		qb = "(Some " + s + ")"
	}
	opt := "None"
	if !d.NoOpts {
		pit := "None"
		if d.Pit != nil {
			pit = "(Some " + vx.CoqString(*d.Pit) + ")"
		}
		opt = fmt.Sprintf("(Some {| po_pit := %s; po_volumes := %s; po_evolumes := %s |})", pit, vx.CoqBool(d.Vol), vx.CoqBool(d.EVol))
	}
	return fmt.Sprintf("{| qo_qb := %s; qo_psize := %d; qo_options := %s |}", qb, d.OptSize, opt), true
}

func (d qdesc) coq() (string, bool) {
	o, ok := d.coqOpts()
	if !ok {
		return "", false
	}
	if d.Offset != nil {
		return fmt.Sprintf("{| f_offset := %d; f_order := %s; f_size := %d; f_opts := %s |}", *d.Offset, coqOrder(d.Order), d.Size, o), true
	}
	return fmt.Sprintf("{| c_size := %d; c_bottom := %s; c_column := %s; c_pid := %s; c_order := %s; c_opts := %s; c_reverse := %s |}",
		d.Size, coqOZ(d.Bottom), vx.CoqString(d.Column), coqOZ(d.Pid), coqOrder(d.Order), o, vx.CoqBool(d.Reverse)), true
}

func coqOptQ(d *qdesc) (string, bool) {
	if d == nil {
		return "None", true
	}
	s, ok := d.coq()
	return "(Some " + s + ")", ok
}

// ---- wire form -----------------------------------------------------------------------------------------

// decodeWire turns a cursor string into its JSON tree.
func decodeWire(cursor string) (*jv, error) {
	raw, err := base64.RawURLEncoding.DecodeString(cursor)
	if err != nil {
		return nil, err
	}
	return parseJV(raw)
}

func jvInt(v *jv) (*int64, bool) {
	if v == nil || v.Kind == jNull {
		return nil, true
	}
	if v.Kind != jNum {
		return nil, false
	}
	n, err := strconv.ParseInt(v.Num, 10, 64)
	if err != nil {
		return nil, false
	}
	return &n, true
}
func jvUint(v *jv) (uint64, bool) {
	if v == nil {
		return 0, true
	}
	if v.Kind != jNum {
		return 0, false
	}
	n, err := strconv.ParseUint(v.Num, 10, 64)
	return n, err == nil
}

// qdescFromWire is the harness's own reading of a cursor document; why != "" explains a failure
// ("filter" = the qb member is not a filter expression in the documented syntax).
func qdescFromWire(w *jv, offset bool) (d *qdesc, why string) {
	if w == nil || w.Kind != jObj {
		return nil, "not-an-object"
	}
	d = &qdesc{}
	var ok bool
	if d.Size, ok = jvUint(w.get("pageSize")); !ok {
		return nil, "pageSize"
	}
	switch o, _ := jvInt(w.get("order")); {
	case o == nil || *o == 0:
		d.Order = "asc"
	case *o == 1:
		d.Order = "desc"
	default:
		return nil, "order"
	}
	if offset {
		off, ok := jvUint(w.get("offset"))
		if !ok {
			return nil, "offset"
		}
		d.Offset = &off
	} else {
		if d.Bottom, ok = jvInt(w.get("bottom")); !ok {
			return nil, "bottom"
		}
		if d.Pid, ok = jvInt(w.get("paginationID")); !ok {
			return nil, "paginationID"
		}
		if c := w.get("column"); c != nil && c.Kind == jStr {
			d.Column = c.S
		}
		if r := w.get("reverse"); r != nil && r.Kind == jBool {
			d.Reverse = r.B
		}
	}
	f := w.get("filters")
	if f == nil || f.Kind != jObj {
		return nil, "filters"
	}
	if d.OptSize, ok = jvUint(f.get("pageSize")); !ok {
		return nil, "filters.pageSize"
	}
	if qb := f.get("qb"); qb != nil && qb.Kind != jNull {
		fe, ok := fexprFromJV(qb)
		if !ok {
			return nil, "filter"
		}
		d.Filter = fe
	}
	switch o := f.get("options"); {
	case o == nil || o.Kind == jNull:
		d.NoOpts = true
	case o.Kind == jObj:
		if p := o.get("pit"); p != nil && p.Kind == jStr {
			s := p.S
			d.Pit = &s
		}
		if v := o.get("volumes"); v != nil && v.Kind == jBool {
			d.Vol = v.B
		}
		if v := o.get("effectiveVolumes"); v != nil && v.Kind == jBool {
			d.EVol = v.B
		}
	default:
		return nil, "options"
	}
	return d, ""
}

// ---- small helpers -------------------------------------------------------------------------------------

func coqZs(xs []int64) string {
	out := make([]string, len(xs))
	for i, x := range xs {
		out[i] = vx.CoqZ(strconv.FormatInt(x, 10))
	}
	return vx.CoqList(out)
}

func sortedKeys(rows []int64, order string) []int64 {
	out := append([]int64{}, rows...)
	sort.SliceStable(out, func(i, j int) bool {
		if order == "asc" {
			return out[i] < out[j]
		}
		return out[i] > out[j]
	})
	return out
}

func noDup(rows []int64) bool {
	seen := map[int64]bool{}
	for _, r := range rows {
		if seen[r] {
			return false
		}
		seen[r] = true
	}
	return true
}

func eqKeys(a, b []int64) bool {
	if len(a) != len(b) {
		return false
	}
	for i := range a {
		if a[i] != b[i] {
			return false
		}
	}
	return true
}

func integral(f float64) bool { return f == math.Trunc(f) && math.Abs(f) < 1<<53 }
