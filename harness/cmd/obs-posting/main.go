package main

import (
	"bytes"
	"fmt"
	"net/http"
	"net/http/httptest"

	ledger "github.com/formancehq/ledger/internal"
	v1 "github.com/formancehq/ledger/internal/api/v1"
	v2 "github.com/formancehq/ledger/internal/api/v2"
	"github.com/formancehq/ledger/internal/opentelemetry/metrics"
	"github.com/formancehq/ledger/verifx/fakeapi"
	"github.com/formancehq/stack/libs/go-libs/auth"
	"github.com/formancehq/stack/libs/go-libs/health"
)

func main() {
	for _, body := range []string{
		`{"postings":[{"source":"world","destination":"a","asset":"USD"}]}`,
		`{"postings":[{"source":"world","destination":"a","asset":"USD","amount":null}]}`,
		`{"postings":[{"source":"world","destination":"a","asset":"USD","amount":-3}]}`,
		`{"postings":[{"source":"world","destination":"a","asset":"USD","amount":3}], "metadata": {"k":"v"}, "reference":"r1", "timestamp":"2023-01-02T03:04:05Z"}`,
	} {
		l := &fakeapi.Ledger{}
		r1 := v1.NewRouter(&fakeapi.Backend{L: l}, &health.HealthController{}, metrics.NewNoOpRegistry(), auth.NewNoAuth())
		req := httptest.NewRequest(http.MethodPost, "/l0/transactions", bytes.NewBufferString(body))
		rec := httptest.NewRecorder()
		func() {
			defer func() { fmt.Println("recover:", recover()) }()
			r1.ServeHTTP(rec, req)
		}()
		fmt.Println("v1", rec.Code, len(l.Writes), rec.Body.String())
		l2 := &fakeapi.Ledger{}
		r2 := v2.NewRouter(&fakeapi.Backend{L: l2}, &health.HealthController{}, metrics.NewNoOpRegistry(), auth.NewNoAuth())
		req = httptest.NewRequest(http.MethodPost, "/l0/transactions", bytes.NewBufferString(body))
		rec = httptest.NewRecorder()
		r2.ServeHTTP(rec, req)
		fmt.Println("v2", rec.Code, len(l2.Writes), rec.Body.String())
		if len(l2.Writes) > 0 {
			fmt.Printf("%q %v %v %v %v\n", l2.Writes[0].Script.Plain, l2.Writes[0].Script.Vars, l2.Writes[0].Script.Metadata, l2.Writes[0].Script.Reference, l2.Writes[0].Script.Timestamp)
		}
	}
	_ = ledger.WORLD
}
